(* HtmlTokProofs.v — proofs about the tokenizer model RIO.HtmlTok / RIO.C16Run (statements pinned in properties/C16.v). *)
Require Import RIO.Base RIO.TokMonad RIO.HtmlTok RIO.C16Run RIO.TokLogic.

(* ================= part 1: every function respects [ext] (frames raw_start, never resets panic/oof/err) *)

Lemma pres_skip_white_space : Pres skip_white_space.
Proof. unfold skip_white_space. pres. Qed.
#[export] Hint Resolve pres_skip_white_space : pres.
Lemma pres_read_raw_end_tag : Pres read_raw_end_tag.
Proof. unfold read_raw_end_tag. pres. Qed.
#[export] Hint Resolve pres_read_raw_end_tag : pres.

Definition script_all (P : M unit -> Prop) (f : nat) : Prop :=
  P (read_script_data f) /\ P (read_script_data_less_than_sign f) /\ P (read_script_data_end_tag_open f)
  /\ P (read_script_data_escape_start f) /\ P (read_script_data_escape_start_dash f)
  /\ P (read_script_data_escaped f) /\ P (read_script_data_escaped_dash f) /\ P (read_script_data_escaped_dash_dash f)
  /\ P (read_script_data_escaped_less_than_sign f) /\ P (read_script_data_escaped_end_tag_open f)
  /\ P (read_script_data_double_escape_start f) /\ P (read_script_data_double_escaped f)
  /\ P (read_script_data_double_escaped_dash f) /\ P (read_script_data_double_escaped_dash_dash f)
  /\ P (read_script_data_double_escaped_less_than_sign f) /\ P (read_script_data_double_escaped_end f).

Ltac script_unfold :=
  cbn [read_script_data read_script_data_less_than_sign read_script_data_end_tag_open
       read_script_data_escape_start read_script_data_escape_start_dash read_script_data_escaped
       read_script_data_escaped_dash read_script_data_escaped_dash_dash read_script_data_escaped_less_than_sign
       read_script_data_escaped_end_tag_open read_script_data_double_escape_start read_script_data_double_escaped
       read_script_data_double_escaped_dash read_script_data_double_escaped_dash_dash
       read_script_data_double_escaped_less_than_sign read_script_data_double_escaped_end].

Lemma pres_script_all : forall f, script_all (@Pres unit) f.
Proof.
  induction f as [|f IH]; unfold script_all in *.
  - script_unfold. repeat split; apply pres_out_of_fuel.
  - destruct IH as (H1 & H2 & H3 & H4 & H5 & H6 & H7 & H8 & H9 & H10 & H11 & H12 & H13 & H14 & H15 & H16).
    repeat split; script_unfold; pres.
Qed.
Lemma pres_read_script_data f : Pres (read_script_data f).
Proof. apply (pres_script_all f). Qed.
#[export] Hint Resolve pres_read_script_data : pres.

Lemma pres_read_script : Pres read_script.
Proof. unfold read_script. pres. Qed.
#[export] Hint Resolve pres_read_script : pres.
Lemma pres_read_raw_or_cdata : Pres read_raw_or_cdata.
Proof. unfold read_raw_or_cdata. pres. Qed.
#[export] Hint Resolve pres_read_raw_or_cdata : pres.
Lemma pres_read_comment : Pres read_comment.
Proof. unfold read_comment. pres. Qed.
#[export] Hint Resolve pres_read_comment : pres.
Lemma pres_read_until_close_angle : Pres read_until_close_angle.
Proof. unfold read_until_close_angle. pres. Qed.
#[export] Hint Resolve pres_read_until_close_angle : pres.
Lemma pres_read_doc_type : Pres read_doc_type.
Proof. unfold read_doc_type. pres. Qed.
#[export] Hint Resolve pres_read_doc_type : pres.
Lemma pres_read_cdata : Pres read_cdata.
Proof. unfold read_cdata. pres. Qed.
#[export] Hint Resolve pres_read_cdata : pres.
Lemma pres_read_markup_declaration : Pres read_markup_declaration.
Proof. unfold read_markup_declaration. pres. Qed.
#[export] Hint Resolve pres_read_markup_declaration : pres.
Lemma pres_start_tag_in ss : Pres (start_tag_in ss).
Proof. induction ss as [|s_ ss IH]; cbn [start_tag_in]; pres. Qed.
#[export] Hint Resolve pres_start_tag_in : pres.
Lemma pres_read_tag_name : Pres read_tag_name.
Proof. unfold read_tag_name. pres. Qed.
#[export] Hint Resolve pres_read_tag_name : pres.
Lemma pres_read_tag_name_attr_key : Pres read_tag_name_attr_key.
Proof. unfold read_tag_name_attr_key. pres. Qed.
#[export] Hint Resolve pres_read_tag_name_attr_key : pres.
Lemma pres_read_tag_name_attr_value : Pres read_tag_name_attr_value.
Proof. unfold read_tag_name_attr_value. pres. Qed.
#[export] Hint Resolve pres_read_tag_name_attr_value : pres.
Lemma pres_read_tag b : Pres (read_tag b).
Proof. unfold read_tag. pres. Qed.
#[export] Hint Resolve pres_read_tag : pres.
Lemma pres_read_start_tag lower : Pres (read_start_tag lower).
Proof. unfold read_start_tag. pres. Qed.
#[export] Hint Resolve pres_read_start_tag : pres.

(* ================= part 2: C16_lossless *)

(* ---- next: raw_start := raw_end, the rest is framed ---- *)
Definition next_init (s : st) : st :=
  set_data_end (raw_end s) (set_data_start (raw_end s) (set_raw_start (raw_end s) s)).

Lemma next_ext lower inp s : ext (next_init s) (snd (next lower inp s)).
Proof.
  unfold next. rewrite !bind_upd. cbn [raw_end set_raw_start set_data_start].
  change (set_data_end (raw_end s) (set_data_start (raw_end s) (set_raw_start (raw_end s) s))) with (next_init s).
  apply pres_apply. pres.
Qed.

Lemma next_raw_start lower inp s : raw_start (snd (next lower inp s)) = raw_end s.
Proof. rewrite (ext_rs _ _ (next_ext lower inp s)). reflexivity. Qed.

Lemma next_sticky lower inp s :
  let s' := snd (next lower inp s) in
  (panic s' = None -> panic s = None) /\ (oof s' = false -> oof s = false) /\ (err s' = false -> err s = false).
Proof. destruct (next_ext lower inp s) as [_ _ Hp Ho He]. cbn in *. auto. Qed.

(* ---- accessors: frame raw_start AND raw_end ---- *)
Definition ext2 (s s' : st) : Prop := ext s s' /\ raw_end s' = raw_end s.
Lemma ext2_refl s : ext2 s s.
Proof. split; [apply ext_refl|reflexivity]. Qed.
Lemma ext2_trans a b c : ext2 a b -> ext2 b c -> ext2 a c.
Proof. intros [H1 E1] [H2 E2]. split; [eapply ext_trans; eauto|congruence]. Qed.
Lemma ext2_oof s : ext2 s (set_oof true s).
Proof. split; [apply ext_oof_true|reflexivity]. Qed.
Definition Pres2 {A} (m : M A) : Prop := PresR ext2 m.

Ltac ext2_upd := intros; split; [ext_upd | reflexivity].

Lemma ext2_set_panic_site site s : ext2 s (set_panic_site site s).
Proof. split; [apply ext_set_panic_site|]. unfold set_panic_site. destruct (panic s); reflexivity. Qed.
Lemma pres2_slice site a b : Pres2 (slice site a b).
Proof. intros inp s. unfold slice. cbn. destruct ((a <=? b) && (b <=? length inp)). apply ext2_refl. apply ext2_set_panic_site. Qed.
Lemma pres2_slice_from site a : Pres2 (slice_from site a).
Proof. intros inp s. unfold slice_from. cbn. destruct (a <=? length inp). apply ext2_refl. apply ext2_set_panic_site. Qed.
Lemma pres2_index_attr site l i : Pres2 (index_attr site l i).
Proof.
  unfold index_attr. destruct (nth_error l i). apply presR_ret, ext2_refl.
  apply (presR_bind ext2 ext2_trans). apply presR_upd. apply ext2_set_panic_site. intros; apply presR_ret, ext2_refl.
Qed.

Ltac pres2_step :=
  first
    [ apply (presR_ret ext2 ext2_refl) | apply (presR_get ext2 ext2_refl)
    | apply pres2_slice | apply pres2_slice_from | apply pres2_index_attr
    | assumption
    | apply (presR_upd ext2); solve [ext2_upd]
    | apply (presR_loop_in ext2 ext2_refl ext2_trans ext2_oof); intros
    | apply (presR_bind ext2 ext2_trans); [| intros ]
    | match goal with
      | |- PresR ext2 (if ?c then _ else _) => destruct c
      | |- PresR ext2 (match ?c with _ => _ end) => destruct c
      | |- Pres2 (if ?c then _ else _) => destruct c
      | |- Pres2 (match ?c with _ => _ end) => destruct c
      end ].
Ltac pres2 := unfold Pres2; repeat pres2_step.

Lemma pres2_raw : Pres2 raw.
Proof. unfold raw. pres2. Qed.
Lemma pres2_buffered : Pres2 buffered.
Proof. unfold buffered. pres2. Qed.
Lemma pres2_text : Pres2 text.
Proof. unfold text. pres2. Qed.
Lemma pres2_tag_name lower : Pres2 (tag_name lower).
Proof. unfold tag_name. pres2. Qed.
Lemma pres2_tag_attr lower : Pres2 (tag_attr lower).
Proof. unfold tag_attr. pres2. Qed.

(* ---- slices ---- *)
Definition sub (b : str) (i j : nat) : str := firstn (j - i) (skipn i b).

Lemma slice_value site a b inp s : fst (slice site a b inp s) = sub inp a b.
Proof. reflexivity. Qed.
Lemma slice_in_range site a b inp s :
  panic (snd (slice site a b inp s)) = None -> a <= b /\ b <= length inp.
Proof.
  unfold slice. cbn. destruct (a <=? b) eqn:E1; destruct (b <=? length inp) eqn:E2; cbn;
    try (apply Nat.leb_le in E1); try (apply Nat.leb_le in E2); auto;
    unfold set_panic_site; destruct (panic s) eqn:E; cbn; congruence.
Qed.
Lemma slice_from_value site a inp s : fst (slice_from site a inp s) = skipn a inp.
Proof. reflexivity. Qed.
Lemma slice_from_in_range site a inp s :
  panic (snd (slice_from site a inp s)) = None -> a <= length inp.
Proof.
  unfold slice_from. cbn. destruct (a <=? length inp) eqn:E1; cbn; try (apply Nat.leb_le in E1); auto.
  unfold set_panic_site; destruct (panic s) eqn:E; cbn; congruence.
Qed.

Lemma firstn_add {A} a c (l : list A) : firstn (a + c) l = firstn a l ++ firstn c (skipn a l).
Proof.
  revert l. induction a as [|a IH]; intros l; cbn [Nat.add firstn skipn app]. reflexivity.
  destruct l as [|x l]; cbn [firstn skipn app]. destruct c; reflexivity. rewrite IH. reflexivity.
Qed.
Lemma skipn_skipn' {A} x y (l : list A) : skipn x (skipn y l) = skipn (y + x) l.
Proof.
  revert l. induction y as [|y IH]; intros l; cbn [Nat.add skipn]. reflexivity.
  destruct l as [|a l]. destruct x; reflexivity. apply IH.
Qed.
Lemma sub_app b i j k : i <= j -> j <= k -> k <= length b -> sub b i j ++ sub b j k = sub b i k.
Proof.
  intros Hij Hjk Hk. unfold sub.
  replace (k - i) with ((j - i) + (k - j)) by lia.
  rewrite firstn_add. rewrite skipn_skipn'. replace (i + (j - i)) with j by lia. reflexivity.
Qed.
Lemma sub_skipn b q : q <= length b -> sub b 0 q ++ skipn q b = b.
Proof. intros _. unfold sub. cbn [skipn]. rewrite Nat.sub_0_r. apply firstn_skipn. Qed.
Lemma sub_nil b i : sub b i i = [].
Proof. unfold sub. rewrite Nat.sub_diag. reflexivity. Qed.

Lemma raw_spec inp s :
  fst (raw inp s) = sub inp (raw_start s) (raw_end s) /\ ext2 s (snd (raw inp s))
  /\ (panic (snd (raw inp s)) = None -> raw_start s <= raw_end s /\ raw_end s <= length inp).
Proof.
  split; [reflexivity|]. split; [apply pres2_raw|]. unfold raw. rewrite bind_get. apply slice_in_range.
Qed.
Lemma buffered_spec inp s :
  fst (buffered inp s) = skipn (raw_end s) inp /\ ext2 s (snd (buffered inp s))
  /\ (panic (snd (buffered inp s)) = None -> raw_end s <= length inp).
Proof.
  split; [reflexivity|]. split; [apply pres2_buffered|]. unfold buffered. rewrite bind_get. apply slice_from_in_range.
Qed.

Lemma pres2_attr_loop lower : Pres2 (loop_in (fun acc : list attr_res =>
           a <- tag_attr lower ;;
           if is_attr_none a then ret (Return (rev (a :: acc))) else ret (Continue (a :: acc))) []).
Proof. pres2; try apply pres2_tag_attr. Qed.

Lemma observe_spec lower ty inp s :
  let r := observe lower ty inp s in
  ext2 s (snd r) /\ o_rs (fst r) = N.of_nat (raw_start s) /\ o_re (fst r) = N.of_nat (raw_end s)
  /\ o_raw (fst r) = sub inp (raw_start s) (raw_end s)
  /\ (panic (snd r) = None -> raw_start s <= raw_end s /\ raw_end s <= length inp).
Proof.
  unfold observe. rewrite bind_get. rewrite !bind_eq. cbn [fst snd ret o_rs o_re o_raw].
  destruct (raw_spec inp s) as (Hv & Hx & Hr).
  set (s1 := snd (raw inp s)) in *.
  set (s2 := snd (text inp s1)).
  set (s3 := snd (tag_name lower inp s2)).
  match goal with |- context [snd (?L inp s3)] => set (s4 := snd (L inp s3)) end.
  assert (H12 : ext2 s1 s2) by apply pres2_text.
  assert (H23 : ext2 s2 s3) by apply pres2_tag_name.
  assert (H34 : ext2 s3 s4) by apply pres2_attr_loop.
  assert (H14 : ext2 s1 s4) by (eapply ext2_trans; [eassumption|eapply ext2_trans; eassumption]).
  split. { eapply ext2_trans; eassumption. }
  repeat split; auto.
  - apply Hr. apply (ext_panic _ _ (proj1 H14)). assumption.
  - apply Hr. apply (ext_panic _ _ (proj1 H14)). assumption.
Qed.

(* ---- sticky flags through the driver ---- *)
Definition sticky (s s' : st) : Prop :=
  (panic s' = None -> panic s = None) /\ (oof s' = false -> oof s = false) /\ (err s' = false -> err s = false).
Lemma sticky_refl s : sticky s s.
Proof. repeat split; auto. Qed.
Lemma sticky_trans a b c : sticky a b -> sticky b c -> sticky a c.
Proof. intros (A1 & A2 & A3) (B1 & B2 & B3). repeat split; auto. Qed.
Lemma sticky_oof s : sticky s (set_oof true s).
Proof. repeat split; cbn; auto. discriminate. Qed.
Lemma ext_sticky s s' : ext s s' -> sticky s s'.
Proof. intros []. repeat split; auto. Qed.
Lemma sticky_next lower : PresR sticky (next lower).
Proof. intros inp s. apply next_sticky. Qed.
Lemma sticky_observe lower ty : PresR sticky (observe lower ty).
Proof. intros inp s. apply ext_sticky. apply (observe_spec lower ty inp s). Qed.
Lemma sticky_tok_loop lower : forall fuel acc, PresR sticky (tok_loop lower fuel acc).
Proof.
  induction fuel as [|f IH]; intros acc; cbn [tok_loop].
  - apply (presR_bind sticky sticky_trans). apply presR_upd. apply sticky_oof. intros; apply presR_ret, sticky_refl.
  - apply (presR_bind sticky sticky_trans). apply sticky_next. intros r.
    apply (presR_bind sticky sticky_trans). apply presR_get, sticky_refl. intros s1.
    destruct (is_some (panic s1) || oof s1). apply presR_ret, sticky_refl.
    destruct r as [ty|]; [|apply presR_ret, sticky_refl].
    destruct (token_eqb ty ErrorToken). apply presR_ret, sticky_refl.
    apply (presR_bind sticky sticky_trans). apply sticky_observe. intros o. apply IH.
Qed.

(* ---- the chain of spans ---- *)
Fixpoint spans_from (b : str) (pos : nat) (toks : list tok_obs) (last : nat) : Prop :=
  match toks with
  | [] => pos = last
  | t :: r => exists e, pos <= e /\ e <= length b /\ o_rs t = N.of_nat pos /\ o_re t = N.of_nat e
                        /\ o_raw t = sub b pos e /\ spans_from b e r last
  end.

Lemma spans_from_app b l1 : forall p m l2 q,
  spans_from b p l1 m -> spans_from b m l2 q -> spans_from b p (l1 ++ l2) q.
Proof.
  induction l1 as [|t l1 IH]; intros p m l2 q H1 H2; cbn [app spans_from] in *.
  - subst. exact H2.
  - destruct H1 as (e & A & B & C & D & E & G). exists e. repeat split; auto. eapply IH; eauto.
Qed.

Lemma spans_from_concat b toks : forall p q,
  spans_from b p toks q -> p <= length b -> p <= q /\ q <= length b /\ concat (map o_raw toks) = sub b p q.
Proof.
  induction toks as [|t toks IH]; intros p q H Hp; cbn [spans_from map concat] in *.
  - subst. rewrite sub_nil. auto.
  - destruct H as (e & A & B & C & D & E & G). destruct (IH e q G B) as (I1 & I2 & I3).
    repeat split; try lia. rewrite E, I3. apply sub_app; lia.
Qed.

Lemma tok_loop_spec lower inp : forall fuel acc s p0,
  spans_from inp p0 (rev acc) (raw_end s) ->
  let r := tok_loop lower fuel acc inp s in
  panic (snd r) = None -> oof (snd r) = false ->
  spans_from inp p0 (fst (fst r)) (raw_start (snd r)).
Proof.
  induction fuel as [|f IH]; intros acc s p0 Hacc; cbn [tok_loop].
  - cbn. discriminate.
  - rewrite bind_eq. rewrite bind_get.
    pose proof (next_raw_start lower inp s) as Hrs.
    set (s1 := snd (next lower inp s)) in *. set (r1 := fst (next lower inp s)).
    destruct (is_some (panic s1) || oof s1).
    { cbn. intros _ _. rewrite Hrs. exact Hacc. }
    destruct r1 as [ty|].
    2:{ cbn. intros _ _. rewrite Hrs. exact Hacc. }
    destruct (token_eqb ty ErrorToken).
    { cbn. intros _ _. rewrite Hrs. exact Hacc. }
    rewrite bind_eq. cbv zeta.
    destruct (observe_spec lower ty inp s1) as ((Hx & Hre) & Hors & Hore & Horaw & Hrange).
    set (o := fst (observe lower ty inp s1)) in *. set (s2 := snd (observe lower ty inp s1)) in *.
    intros Hp Ho.
    assert (Hp2 : panic s2 = None).
    { apply (sticky_tok_loop lower f (o :: acc) inp s2). exact Hp. }
    destruct (Hrange Hp2) as (R1 & R2).
    apply IH; auto.
    cbn [rev]. eapply spans_from_app. exact Hacc.
    cbn [spans_from]. exists (raw_end s1). rewrite Hrs in *. repeat split; auto.
Qed.

Lemma new_fragment_raw_end lower ctx : raw_end (new_fragment lower ctx) = 0.
Proof.
  unfold new_fragment. destruct (negb (is_nil ctx)); [|reflexivity].
  destruct (mem_str (lower ctx) raw_text_elements); reflexivity.
Qed.

Definition lossless_statement : Prop :=
  forall (lower : str -> str) (ctx : str) (fuel : nat) (b : str) (toks : list tok_obs) (fin : final_obs),
    tokenize_all lower ctx fuel b = Ok (toks, fin) ->
    concat (map o_raw toks) ++ f_err_raw fin ++ f_rest fin = b
    /\ exists p q, spans_from b 0 toks p /\ p <= q /\ q <= length b
         /\ f_ers fin = N.of_nat p /\ f_ere fin = N.of_nat q
         /\ f_err_raw fin = sub b p q /\ f_rest fin = skipn q b.

Lemma lossless : lossless_statement.
Proof.
  intros lower ctx fuel b toks fin H.
  unfold tokenize_all, run_outcome in H.
  rewrite bind_eq, bind_get, bind_eq, bind_eq in H. cbn [ret fst snd] in H.
  set (s0 := new_fragment lower ctx) in *.
  set (r := tok_loop lower fuel [] b s0) in *.
  destruct (raw_spec b (snd r)) as (Hv & (Hx1 & He1) & Hr).
  set (sB := snd (raw b (snd r))) in *.
  destruct (buffered_spec b sB) as (Hbv & (Hx2 & He2) & Hbr).
  set (sC := snd (buffered b sB)) in *.
  destruct (panic sC) eqn:EpC; [discriminate|]. destruct (oof sC) eqn:EoC; [discriminate|].
  injection H as Htoks Hfin.
  assert (HpB : panic sB = None) by (apply (ext_panic _ _ Hx2); exact EpC).
  assert (HoB : oof sB = false) by (apply (ext_oof _ _ Hx2); exact EoC).
  assert (HpA : panic (snd r) = None) by (apply (ext_panic _ _ Hx1); exact HpB).
  assert (HoA : oof (snd r) = false) by (apply (ext_oof _ _ Hx1); exact HoB).
  destruct (Hr HpB) as (R1 & R2).
  assert (Hsp : spans_from b 0 (fst (fst r)) (raw_start (snd r))).
  { apply tok_loop_spec; auto. cbn [rev spans_from]. unfold s0. rewrite new_fragment_raw_end. reflexivity. }
  rewrite Htoks in Hsp.
  destruct (spans_from_concat b toks 0 _ Hsp (Nat.le_0_l _)) as (C1 & C2 & C3).
  subst fin. cbn [f_ers f_ere f_err_raw f_rest].
  split.
  - rewrite C3, He1. fold (sub b (raw_start (snd r)) (raw_end (snd r))). rewrite app_assoc. rewrite sub_app by lia. apply sub_skipn. lia.
  - exists (raw_start (snd r)), (raw_end (snd r)). repeat split; auto. rewrite He1. reflexivity.
Qed.

(* ================= part 3: prefix stability (C16_stable) *)

(* the 16 script states individually, for the hint database *)
Lemma pres_script_each f :
  Pres (read_script_data_less_than_sign f) /\ Pres (read_script_data_end_tag_open f)
  /\ Pres (read_script_data_escape_start f) /\ Pres (read_script_data_escape_start_dash f)
  /\ Pres (read_script_data_escaped f) /\ Pres (read_script_data_escaped_dash f) /\ Pres (read_script_data_escaped_dash_dash f)
  /\ Pres (read_script_data_escaped_less_than_sign f) /\ Pres (read_script_data_escaped_end_tag_open f)
  /\ Pres (read_script_data_double_escape_start f) /\ Pres (read_script_data_double_escaped f)
  /\ Pres (read_script_data_double_escaped_dash f) /\ Pres (read_script_data_double_escaped_dash_dash f)
  /\ Pres (read_script_data_double_escaped_less_than_sign f) /\ Pres (read_script_data_double_escaped_end f).
Proof. apply (pres_script_all f). Qed.
Lemma pres_s2 f : Pres (read_script_data_less_than_sign f). Proof. apply (pres_script_each f). Qed.
Lemma pres_s3 f : Pres (read_script_data_end_tag_open f). Proof. apply (pres_script_each f). Qed.
Lemma pres_s4 f : Pres (read_script_data_escape_start f). Proof. apply (pres_script_each f). Qed.
Lemma pres_s5 f : Pres (read_script_data_escape_start_dash f). Proof. apply (pres_script_each f). Qed.
Lemma pres_s6 f : Pres (read_script_data_escaped f). Proof. apply (pres_script_each f). Qed.
Lemma pres_s7 f : Pres (read_script_data_escaped_dash f). Proof. apply (pres_script_each f). Qed.
Lemma pres_s8 f : Pres (read_script_data_escaped_dash_dash f). Proof. apply (pres_script_each f). Qed.
Lemma pres_s9 f : Pres (read_script_data_escaped_less_than_sign f). Proof. apply (pres_script_each f). Qed.
Lemma pres_s10 f : Pres (read_script_data_escaped_end_tag_open f). Proof. apply (pres_script_each f). Qed.
Lemma pres_s11 f : Pres (read_script_data_double_escape_start f). Proof. apply (pres_script_each f). Qed.
Lemma pres_s12 f : Pres (read_script_data_double_escaped f). Proof. apply (pres_script_each f). Qed.
Lemma pres_s13 f : Pres (read_script_data_double_escaped_dash f). Proof. apply (pres_script_each f). Qed.
Lemma pres_s14 f : Pres (read_script_data_double_escaped_dash_dash f). Proof. apply (pres_script_each f). Qed.
Lemma pres_s15 f : Pres (read_script_data_double_escaped_less_than_sign f). Proof. apply (pres_script_each f). Qed.
Lemma pres_s16 f : Pres (read_script_data_double_escaped_end f). Proof. apply (pres_script_each f). Qed.
#[export] Hint Resolve pres_s2 pres_s3 pres_s4 pres_s5 pres_s6 pres_s7 pres_s8 pres_s9 pres_s10 pres_s11 pres_s12
  pres_s13 pres_s14 pres_s15 pres_s16 : pres.

Lemma stable_skip_white_space : Stable skip_white_space.
Proof. unfold skip_white_space. stable. Qed.
#[export] Hint Resolve stable_skip_white_space : stable.
Lemma stable_read_raw_end_tag : Stable read_raw_end_tag.
Proof. unfold read_raw_end_tag. stable. Qed.
#[export] Hint Resolve stable_read_raw_end_tag : stable.

Lemma stable_script_all : forall f, script_all (@Stable unit) f.
Proof.
  induction f as [|f IH]; unfold script_all in *.
  - script_unfold. repeat split; apply stable_out_of_fuel.
  - destruct IH as (H1 & H2 & H3 & H4 & H5 & H6 & H7 & H8 & H9 & H10 & H11 & H12 & H13 & H14 & H15 & H16).
    repeat split; script_unfold; stable.
Qed.

Definition FuelMono {A} (F : nat -> M A) : Prop := forall f f', f <= f' -> Agree (F f) (F f').

Lemma agree_script_all : forall f f', f <= f' ->
  Agree (read_script_data f) (read_script_data f')
  /\ Agree (read_script_data_less_than_sign f) (read_script_data_less_than_sign f')
  /\ Agree (read_script_data_end_tag_open f) (read_script_data_end_tag_open f')
  /\ Agree (read_script_data_escape_start f) (read_script_data_escape_start f')
  /\ Agree (read_script_data_escape_start_dash f) (read_script_data_escape_start_dash f')
  /\ Agree (read_script_data_escaped f) (read_script_data_escaped f')
  /\ Agree (read_script_data_escaped_dash f) (read_script_data_escaped_dash f')
  /\ Agree (read_script_data_escaped_dash_dash f) (read_script_data_escaped_dash_dash f')
  /\ Agree (read_script_data_escaped_less_than_sign f) (read_script_data_escaped_less_than_sign f')
  /\ Agree (read_script_data_escaped_end_tag_open f) (read_script_data_escaped_end_tag_open f')
  /\ Agree (read_script_data_double_escape_start f) (read_script_data_double_escape_start f')
  /\ Agree (read_script_data_double_escaped f) (read_script_data_double_escaped f')
  /\ Agree (read_script_data_double_escaped_dash f) (read_script_data_double_escaped_dash f')
  /\ Agree (read_script_data_double_escaped_dash_dash f) (read_script_data_double_escaped_dash_dash f')
  /\ Agree (read_script_data_double_escaped_less_than_sign f) (read_script_data_double_escaped_less_than_sign f')
  /\ Agree (read_script_data_double_escaped_end f) (read_script_data_double_escaped_end f').
Proof.
  induction f as [|f IH]; intros f' Hle.
  - script_unfold. repeat split; intros inp s H; cbn in H; discriminate.
  - destruct f' as [|f']; [lia|]. assert (Hle' : f <= f') by lia.
    destruct (IH f' Hle') as (H1 & H2 & H3 & H4 & H5 & H6 & H7 & H8 & H9 & H10 & H11 & H12 & H13 & H14 & H15 & H16).
    repeat split; script_unfold; agree.
Qed.

Lemma stable_read_script : Stable read_script.
Proof.
  unfold read_script.
  apply (stable_ext _ (fun inp s => (fun f => read_script_data f ;;; upd (fun s => set_data_end (raw_end s) s))
                                       ((fun n => 3 * n + 10) (length inp)) inp s)); [reflexivity|].
  apply (stable_fuel (fun f => read_script_data f ;;; upd (fun s => set_data_end (raw_end s) s)) (fun n => 3 * n + 10)).
  - intros f. apply stable_bind; [apply (stable_script_all f)|intros; apply stable_upd|intros; pres].
  - intros f f' inp s Hle H.
    assert (HA : Agree (read_script_data f ;;; upd (fun s => set_data_end (raw_end s) s))
                       (read_script_data f' ;;; upd (fun s => set_data_end (raw_end s) s))).
    { apply agree_bind; [apply (agree_script_all f f' Hle)|intros; apply agree_refl|intros; pres]. }
    apply HA. exact H.
  - intros. lia.
Qed.
#[export] Hint Resolve stable_read_script : stable.

Lemma stable_read_raw_or_cdata : Stable read_raw_or_cdata.
Proof. unfold read_raw_or_cdata. stable. Qed.
#[export] Hint Resolve stable_read_raw_or_cdata : stable.
Lemma stable_read_comment : Stable read_comment.
Proof. unfold read_comment. stable. Qed.
#[export] Hint Resolve stable_read_comment : stable.
Lemma stable_read_until_close_angle : Stable read_until_close_angle.
Proof. unfold read_until_close_angle. stable. Qed.
#[export] Hint Resolve stable_read_until_close_angle : stable.
Lemma stable_read_doc_type : Stable read_doc_type.
Proof. unfold read_doc_type. stable. Qed.
#[export] Hint Resolve stable_read_doc_type : stable.
Lemma stable_read_cdata : Stable read_cdata.
Proof. unfold read_cdata. stable. Qed.
#[export] Hint Resolve stable_read_cdata : stable.
Lemma stable_read_markup_declaration : Stable read_markup_declaration.
Proof. unfold read_markup_declaration. stable. Qed.
#[export] Hint Resolve stable_read_markup_declaration : stable.
Lemma stable_start_tag_in ss : Stable (start_tag_in ss).
Proof. induction ss as [|s_ ss IH]; cbn [start_tag_in]; stable. Qed.
#[export] Hint Resolve stable_start_tag_in : stable.
Lemma stable_read_tag_name : Stable read_tag_name.
Proof. unfold read_tag_name. stable. Qed.
#[export] Hint Resolve stable_read_tag_name : stable.
Lemma stable_read_tag_name_attr_key : Stable read_tag_name_attr_key.
Proof. unfold read_tag_name_attr_key. stable. Qed.
#[export] Hint Resolve stable_read_tag_name_attr_key : stable.
Lemma stable_read_tag_name_attr_value : Stable read_tag_name_attr_value.
Proof. unfold read_tag_name_attr_value. stable. Qed.
#[export] Hint Resolve stable_read_tag_name_attr_value : stable.
Lemma stable_read_tag b : Stable (read_tag b).
Proof. unfold read_tag. stable. Qed.
#[export] Hint Resolve stable_read_tag : stable.
Lemma stable_read_start_tag lower : Stable (read_start_tag lower).
Proof. unfold read_start_tag. stable. Qed.
#[export] Hint Resolve stable_read_start_tag : stable.
Lemma stable_next lower : Stable (next lower).
Proof. unfold next. stable. Qed.

Lemma pres_of_pres2 {A} (m : M A) : Pres2 m -> Pres m.
Proof. intros H inp s. apply H. Qed.
Lemma pres_text : Pres text. Proof. apply pres_of_pres2, pres2_text. Qed.
Lemma pres_raw : Pres raw. Proof. apply pres_of_pres2, pres2_raw. Qed.
Lemma pres_tag_name lower : Pres (tag_name lower). Proof. apply pres_of_pres2, pres2_tag_name. Qed.
Lemma pres_tag_attr lower : Pres (tag_attr lower). Proof. apply pres_of_pres2, pres2_tag_attr. Qed.
#[export] Hint Resolve pres_text pres_raw pres_tag_name pres_tag_attr : pres.
Lemma stable_raw : Stable raw.
Proof. unfold raw. stable. Qed.
Lemma stable_text : Stable text.
Proof. unfold text. stable. Qed.
Lemma stable_tag_name lower : Stable (tag_name lower).
Proof. unfold tag_name. stable. Qed.
Lemma stable_tag_attr lower : Stable (tag_attr lower).
Proof. unfold tag_attr. stable. Qed.

Lemma next_stable lower d1 d2 s :
  err (snd (next lower d1 s)) = false -> oof (snd (next lower d1 s)) = false -> panic (snd (next lower d1 s)) = None ->
  next lower (d1 ++ d2) s = next lower d1 s.
Proof. intros He Ho Hp. apply stable_next. repeat split; assumption. Qed.

(* ================= part 4: Hoare specifications of every tokenizer function; C16_total, C16_count *)
(* ---- P4 ---- *)

Definition span_ok (n : nat) (sp : span) : Prop := fst sp <= snd sp /\ snd sp <= n.
Definition attr_ok (n : nat) (a : attr_spans) : Prop := span_ok n (fst a) /\ span_ok n (snd a).
Definition tag_ok (t : list N) : Prop := t = [] \/ In t raw_text_elements.

Record wf (inp : list N) (s : st) : Prop := mk_wf {
  wf_start : raw_start s <= raw_end s;
  wf_end : raw_end s <= length inp;
  wf_panic : panic s = None;
  wf_oof : oof s = false;
  wf_attrs : Forall (attr_ok (length inp)) (attribute s);
  wf_tag : tag_ok (raw_tag s);
  wf_nattr : length (attribute s) <= length inp
}.

(* fields that almost no function writes *)
Record fr (s s' : st) : Prop := mk_fr {
  fr_rs : raw_start s' = raw_start s;
  fr_tag : raw_tag s' = raw_tag s;
  fr_attr : attribute s' = attribute s;
  fr_cd : allow_cdata s' = allow_cdata s;
  fr_panic : panic s' = panic s;
  fr_oof : oof s' = oof s
}.
Lemma fr_refl s : fr s s.
Proof. constructor; reflexivity. Qed.
Lemma fr_trans a b c : fr a b -> fr b c -> fr a c.
Proof. intros [] []. constructor; congruence. Qed.
Lemma wf_fr inp s s' : wf inp s -> fr s s' -> raw_start s <= raw_end s' -> raw_end s' <= length inp -> wf inp s'.
Proof. intros [] [] H1 H2. constructor; try congruence; try lia. Qed.
Definition dkeep (s s' : st) : Prop :=
  data_start s' = data_start s /\ data_end s' = data_end s /\ pending_attribute s' = pending_attribute s.
(* ---- projections of the pending_attribute setters (kept folded; rewriting database [pa]) ---- *)
Lemma raw_start_set_pa_key_start v s : raw_start (set_pa_key_start v s) = raw_start s.
Proof. unfold set_pa_key_start. destruct (pending_attribute s) as [[? ?] [? ?]]. reflexivity. Qed.
Lemma raw_end_set_pa_key_start v s : raw_end (set_pa_key_start v s) = raw_end s.
Proof. unfold set_pa_key_start. destruct (pending_attribute s) as [[? ?] [? ?]]. reflexivity. Qed.
Lemma data_start_set_pa_key_start v s : data_start (set_pa_key_start v s) = data_start s.
Proof. unfold set_pa_key_start. destruct (pending_attribute s) as [[? ?] [? ?]]. reflexivity. Qed.
Lemma data_end_set_pa_key_start v s : data_end (set_pa_key_start v s) = data_end s.
Proof. unfold set_pa_key_start. destruct (pending_attribute s) as [[? ?] [? ?]]. reflexivity. Qed.
Lemma attribute_set_pa_key_start v s : attribute (set_pa_key_start v s) = attribute s.
Proof. unfold set_pa_key_start. destruct (pending_attribute s) as [[? ?] [? ?]]. reflexivity. Qed.
Lemma number_attribute_returned_set_pa_key_start v s : number_attribute_returned (set_pa_key_start v s) = number_attribute_returned s.
Proof. unfold set_pa_key_start. destruct (pending_attribute s) as [[? ?] [? ?]]. reflexivity. Qed.
Lemma err_set_pa_key_start v s : err (set_pa_key_start v s) = err s.
Proof. unfold set_pa_key_start. destruct (pending_attribute s) as [[? ?] [? ?]]. reflexivity. Qed.
Lemma raw_tag_set_pa_key_start v s : raw_tag (set_pa_key_start v s) = raw_tag s.
Proof. unfold set_pa_key_start. destruct (pending_attribute s) as [[? ?] [? ?]]. reflexivity. Qed.
Lemma text_is_raw_set_pa_key_start v s : text_is_raw (set_pa_key_start v s) = text_is_raw s.
Proof. unfold set_pa_key_start. destruct (pending_attribute s) as [[? ?] [? ?]]. reflexivity. Qed.
Lemma convert_null_set_pa_key_start v s : convert_null (set_pa_key_start v s) = convert_null s.
Proof. unfold set_pa_key_start. destruct (pending_attribute s) as [[? ?] [? ?]]. reflexivity. Qed.
Lemma allow_cdata_set_pa_key_start v s : allow_cdata (set_pa_key_start v s) = allow_cdata s.
Proof. unfold set_pa_key_start. destruct (pending_attribute s) as [[? ?] [? ?]]. reflexivity. Qed.
Lemma token_set_pa_key_start v s : token (set_pa_key_start v s) = token s.
Proof. unfold set_pa_key_start. destruct (pending_attribute s) as [[? ?] [? ?]]. reflexivity. Qed.
Lemma panic_set_pa_key_start v s : panic (set_pa_key_start v s) = panic s.
Proof. unfold set_pa_key_start. destruct (pending_attribute s) as [[? ?] [? ?]]. reflexivity. Qed.
Lemma oof_set_pa_key_start v s : oof (set_pa_key_start v s) = oof s.
Proof. unfold set_pa_key_start. destruct (pending_attribute s) as [[? ?] [? ?]]. reflexivity. Qed.
Lemma raw_start_set_pa_key_end v s : raw_start (set_pa_key_end v s) = raw_start s.
Proof. unfold set_pa_key_end. destruct (pending_attribute s) as [[? ?] [? ?]]. reflexivity. Qed.
Lemma raw_end_set_pa_key_end v s : raw_end (set_pa_key_end v s) = raw_end s.
Proof. unfold set_pa_key_end. destruct (pending_attribute s) as [[? ?] [? ?]]. reflexivity. Qed.
Lemma data_start_set_pa_key_end v s : data_start (set_pa_key_end v s) = data_start s.
Proof. unfold set_pa_key_end. destruct (pending_attribute s) as [[? ?] [? ?]]. reflexivity. Qed.
Lemma data_end_set_pa_key_end v s : data_end (set_pa_key_end v s) = data_end s.
Proof. unfold set_pa_key_end. destruct (pending_attribute s) as [[? ?] [? ?]]. reflexivity. Qed.
Lemma attribute_set_pa_key_end v s : attribute (set_pa_key_end v s) = attribute s.
Proof. unfold set_pa_key_end. destruct (pending_attribute s) as [[? ?] [? ?]]. reflexivity. Qed.
Lemma number_attribute_returned_set_pa_key_end v s : number_attribute_returned (set_pa_key_end v s) = number_attribute_returned s.
Proof. unfold set_pa_key_end. destruct (pending_attribute s) as [[? ?] [? ?]]. reflexivity. Qed.
Lemma err_set_pa_key_end v s : err (set_pa_key_end v s) = err s.
Proof. unfold set_pa_key_end. destruct (pending_attribute s) as [[? ?] [? ?]]. reflexivity. Qed.
Lemma raw_tag_set_pa_key_end v s : raw_tag (set_pa_key_end v s) = raw_tag s.
Proof. unfold set_pa_key_end. destruct (pending_attribute s) as [[? ?] [? ?]]. reflexivity. Qed.
Lemma text_is_raw_set_pa_key_end v s : text_is_raw (set_pa_key_end v s) = text_is_raw s.
Proof. unfold set_pa_key_end. destruct (pending_attribute s) as [[? ?] [? ?]]. reflexivity. Qed.
Lemma convert_null_set_pa_key_end v s : convert_null (set_pa_key_end v s) = convert_null s.
Proof. unfold set_pa_key_end. destruct (pending_attribute s) as [[? ?] [? ?]]. reflexivity. Qed.
Lemma allow_cdata_set_pa_key_end v s : allow_cdata (set_pa_key_end v s) = allow_cdata s.
Proof. unfold set_pa_key_end. destruct (pending_attribute s) as [[? ?] [? ?]]. reflexivity. Qed.
Lemma token_set_pa_key_end v s : token (set_pa_key_end v s) = token s.
Proof. unfold set_pa_key_end. destruct (pending_attribute s) as [[? ?] [? ?]]. reflexivity. Qed.
Lemma panic_set_pa_key_end v s : panic (set_pa_key_end v s) = panic s.
Proof. unfold set_pa_key_end. destruct (pending_attribute s) as [[? ?] [? ?]]. reflexivity. Qed.
Lemma oof_set_pa_key_end v s : oof (set_pa_key_end v s) = oof s.
Proof. unfold set_pa_key_end. destruct (pending_attribute s) as [[? ?] [? ?]]. reflexivity. Qed.
Lemma raw_start_set_pa_val_start v s : raw_start (set_pa_val_start v s) = raw_start s.
Proof. unfold set_pa_val_start. destruct (pending_attribute s) as [[? ?] [? ?]]. reflexivity. Qed.
Lemma raw_end_set_pa_val_start v s : raw_end (set_pa_val_start v s) = raw_end s.
Proof. unfold set_pa_val_start. destruct (pending_attribute s) as [[? ?] [? ?]]. reflexivity. Qed.
Lemma data_start_set_pa_val_start v s : data_start (set_pa_val_start v s) = data_start s.
Proof. unfold set_pa_val_start. destruct (pending_attribute s) as [[? ?] [? ?]]. reflexivity. Qed.
Lemma data_end_set_pa_val_start v s : data_end (set_pa_val_start v s) = data_end s.
Proof. unfold set_pa_val_start. destruct (pending_attribute s) as [[? ?] [? ?]]. reflexivity. Qed.
Lemma attribute_set_pa_val_start v s : attribute (set_pa_val_start v s) = attribute s.
Proof. unfold set_pa_val_start. destruct (pending_attribute s) as [[? ?] [? ?]]. reflexivity. Qed.
Lemma number_attribute_returned_set_pa_val_start v s : number_attribute_returned (set_pa_val_start v s) = number_attribute_returned s.
Proof. unfold set_pa_val_start. destruct (pending_attribute s) as [[? ?] [? ?]]. reflexivity. Qed.
Lemma err_set_pa_val_start v s : err (set_pa_val_start v s) = err s.
Proof. unfold set_pa_val_start. destruct (pending_attribute s) as [[? ?] [? ?]]. reflexivity. Qed.
Lemma raw_tag_set_pa_val_start v s : raw_tag (set_pa_val_start v s) = raw_tag s.
Proof. unfold set_pa_val_start. destruct (pending_attribute s) as [[? ?] [? ?]]. reflexivity. Qed.
Lemma text_is_raw_set_pa_val_start v s : text_is_raw (set_pa_val_start v s) = text_is_raw s.
Proof. unfold set_pa_val_start. destruct (pending_attribute s) as [[? ?] [? ?]]. reflexivity. Qed.
Lemma convert_null_set_pa_val_start v s : convert_null (set_pa_val_start v s) = convert_null s.
Proof. unfold set_pa_val_start. destruct (pending_attribute s) as [[? ?] [? ?]]. reflexivity. Qed.
Lemma allow_cdata_set_pa_val_start v s : allow_cdata (set_pa_val_start v s) = allow_cdata s.
Proof. unfold set_pa_val_start. destruct (pending_attribute s) as [[? ?] [? ?]]. reflexivity. Qed.
Lemma token_set_pa_val_start v s : token (set_pa_val_start v s) = token s.
Proof. unfold set_pa_val_start. destruct (pending_attribute s) as [[? ?] [? ?]]. reflexivity. Qed.
Lemma panic_set_pa_val_start v s : panic (set_pa_val_start v s) = panic s.
Proof. unfold set_pa_val_start. destruct (pending_attribute s) as [[? ?] [? ?]]. reflexivity. Qed.
Lemma oof_set_pa_val_start v s : oof (set_pa_val_start v s) = oof s.
Proof. unfold set_pa_val_start. destruct (pending_attribute s) as [[? ?] [? ?]]. reflexivity. Qed.
Lemma raw_start_set_pa_val_end v s : raw_start (set_pa_val_end v s) = raw_start s.
Proof. unfold set_pa_val_end. destruct (pending_attribute s) as [[? ?] [? ?]]. reflexivity. Qed.
Lemma raw_end_set_pa_val_end v s : raw_end (set_pa_val_end v s) = raw_end s.
Proof. unfold set_pa_val_end. destruct (pending_attribute s) as [[? ?] [? ?]]. reflexivity. Qed.
Lemma data_start_set_pa_val_end v s : data_start (set_pa_val_end v s) = data_start s.
Proof. unfold set_pa_val_end. destruct (pending_attribute s) as [[? ?] [? ?]]. reflexivity. Qed.
Lemma data_end_set_pa_val_end v s : data_end (set_pa_val_end v s) = data_end s.
Proof. unfold set_pa_val_end. destruct (pending_attribute s) as [[? ?] [? ?]]. reflexivity. Qed.
Lemma attribute_set_pa_val_end v s : attribute (set_pa_val_end v s) = attribute s.
Proof. unfold set_pa_val_end. destruct (pending_attribute s) as [[? ?] [? ?]]. reflexivity. Qed.
Lemma number_attribute_returned_set_pa_val_end v s : number_attribute_returned (set_pa_val_end v s) = number_attribute_returned s.
Proof. unfold set_pa_val_end. destruct (pending_attribute s) as [[? ?] [? ?]]. reflexivity. Qed.
Lemma err_set_pa_val_end v s : err (set_pa_val_end v s) = err s.
Proof. unfold set_pa_val_end. destruct (pending_attribute s) as [[? ?] [? ?]]. reflexivity. Qed.
Lemma raw_tag_set_pa_val_end v s : raw_tag (set_pa_val_end v s) = raw_tag s.
Proof. unfold set_pa_val_end. destruct (pending_attribute s) as [[? ?] [? ?]]. reflexivity. Qed.
Lemma text_is_raw_set_pa_val_end v s : text_is_raw (set_pa_val_end v s) = text_is_raw s.
Proof. unfold set_pa_val_end. destruct (pending_attribute s) as [[? ?] [? ?]]. reflexivity. Qed.
Lemma convert_null_set_pa_val_end v s : convert_null (set_pa_val_end v s) = convert_null s.
Proof. unfold set_pa_val_end. destruct (pending_attribute s) as [[? ?] [? ?]]. reflexivity. Qed.
Lemma allow_cdata_set_pa_val_end v s : allow_cdata (set_pa_val_end v s) = allow_cdata s.
Proof. unfold set_pa_val_end. destruct (pending_attribute s) as [[? ?] [? ?]]. reflexivity. Qed.
Lemma token_set_pa_val_end v s : token (set_pa_val_end v s) = token s.
Proof. unfold set_pa_val_end. destruct (pending_attribute s) as [[? ?] [? ?]]. reflexivity. Qed.
Lemma panic_set_pa_val_end v s : panic (set_pa_val_end v s) = panic s.
Proof. unfold set_pa_val_end. destruct (pending_attribute s) as [[? ?] [? ?]]. reflexivity. Qed.
Lemma oof_set_pa_val_end v s : oof (set_pa_val_end v s) = oof s.
Proof. unfold set_pa_val_end. destruct (pending_attribute s) as [[? ?] [? ?]]. reflexivity. Qed.
Lemma pa0_set_pa_key_start v s : fst (fst (pending_attribute (set_pa_key_start v s))) = v.
Proof. unfold set_pa_key_start. destruct (pending_attribute s) as [[? ?] [? ?]]. reflexivity. Qed.
Lemma pa1_set_pa_key_start v s : snd (fst (pending_attribute (set_pa_key_start v s))) = snd (fst (pending_attribute s)).
Proof. unfold set_pa_key_start. destruct (pending_attribute s) as [[? ?] [? ?]]. reflexivity. Qed.
Lemma pa2_set_pa_key_start v s : (snd (pending_attribute (set_pa_key_start v s))) = snd (pending_attribute s).
Proof. unfold set_pa_key_start. destruct (pending_attribute s) as [[? ?] [? ?]]. reflexivity. Qed.
Lemma pa0_set_pa_key_end v s : fst (fst (pending_attribute (set_pa_key_end v s))) = fst (fst (pending_attribute s)).
Proof. unfold set_pa_key_end. destruct (pending_attribute s) as [[? ?] [? ?]]. reflexivity. Qed.
Lemma pa1_set_pa_key_end v s : snd (fst (pending_attribute (set_pa_key_end v s))) = v.
Proof. unfold set_pa_key_end. destruct (pending_attribute s) as [[? ?] [? ?]]. reflexivity. Qed.
Lemma pa2_set_pa_key_end v s : (snd (pending_attribute (set_pa_key_end v s))) = snd (pending_attribute s).
Proof. unfold set_pa_key_end. destruct (pending_attribute s) as [[? ?] [? ?]]. reflexivity. Qed.
Lemma pa0_set_pa_val_start v s : (fst (pending_attribute (set_pa_val_start v s))) = fst (pending_attribute s).
Proof. unfold set_pa_val_start. destruct (pending_attribute s) as [[? ?] [? ?]]. reflexivity. Qed.
Lemma pa1_set_pa_val_start v s : fst (snd (pending_attribute (set_pa_val_start v s))) = v.
Proof. unfold set_pa_val_start. destruct (pending_attribute s) as [[? ?] [? ?]]. reflexivity. Qed.
Lemma pa2_set_pa_val_start v s : snd (snd (pending_attribute (set_pa_val_start v s))) = snd (snd (pending_attribute s)).
Proof. unfold set_pa_val_start. destruct (pending_attribute s) as [[? ?] [? ?]]. reflexivity. Qed.
Lemma pa0_set_pa_val_end v s : (fst (pending_attribute (set_pa_val_end v s))) = fst (pending_attribute s).
Proof. unfold set_pa_val_end. destruct (pending_attribute s) as [[? ?] [? ?]]. reflexivity. Qed.
Lemma pa1_set_pa_val_end v s : fst (snd (pending_attribute (set_pa_val_end v s))) = fst (snd (pending_attribute s)).
Proof. unfold set_pa_val_end. destruct (pending_attribute s) as [[? ?] [? ?]]. reflexivity. Qed.
Lemma pa2_set_pa_val_end v s : snd (snd (pending_attribute (set_pa_val_end v s))) = v.
Proof. unfold set_pa_val_end. destruct (pending_attribute s) as [[? ?] [? ?]]. reflexivity. Qed.
Create HintDb pa discriminated.
#[export] Hint Rewrite raw_start_set_pa_key_start raw_end_set_pa_key_start data_start_set_pa_key_start data_end_set_pa_key_start attribute_set_pa_key_start number_attribute_returned_set_pa_key_start err_set_pa_key_start raw_tag_set_pa_key_start text_is_raw_set_pa_key_start convert_null_set_pa_key_start allow_cdata_set_pa_key_start token_set_pa_key_start panic_set_pa_key_start oof_set_pa_key_start raw_start_set_pa_key_end raw_end_set_pa_key_end data_start_set_pa_key_end data_end_set_pa_key_end attribute_set_pa_key_end number_attribute_returned_set_pa_key_end err_set_pa_key_end raw_tag_set_pa_key_end text_is_raw_set_pa_key_end convert_null_set_pa_key_end allow_cdata_set_pa_key_end token_set_pa_key_end panic_set_pa_key_end oof_set_pa_key_end raw_start_set_pa_val_start raw_end_set_pa_val_start data_start_set_pa_val_start data_end_set_pa_val_start attribute_set_pa_val_start number_attribute_returned_set_pa_val_start err_set_pa_val_start raw_tag_set_pa_val_start text_is_raw_set_pa_val_start convert_null_set_pa_val_start allow_cdata_set_pa_val_start token_set_pa_val_start panic_set_pa_val_start oof_set_pa_val_start raw_start_set_pa_val_end raw_end_set_pa_val_end data_start_set_pa_val_end data_end_set_pa_val_end attribute_set_pa_val_end number_attribute_returned_set_pa_val_end err_set_pa_val_end raw_tag_set_pa_val_end text_is_raw_set_pa_val_end convert_null_set_pa_val_end allow_cdata_set_pa_val_end token_set_pa_val_end panic_set_pa_val_end oof_set_pa_val_end pa0_set_pa_key_start pa1_set_pa_key_start pa2_set_pa_key_start pa0_set_pa_key_end pa1_set_pa_key_end pa2_set_pa_key_end pa0_set_pa_val_start pa1_set_pa_val_start pa2_set_pa_val_start pa0_set_pa_val_end pa1_set_pa_val_end pa2_set_pa_val_end : pa.

Ltac has_pa :=
  match goal with
  | |- context [set_pa_key_start _ _] => idtac
  | |- context [set_pa_key_end _ _] => idtac
  | |- context [set_pa_val_start _ _] => idtac
  | |- context [set_pa_val_end _ _] => idtac
  | H : context [set_pa_key_start _ _] |- _ => idtac
  | H : context [set_pa_key_end _ _] |- _ => idtac
  | H : context [set_pa_val_start _ _] |- _ => idtac
  | H : context [set_pa_val_end _ _] |- _ => idtac
  end.
Ltac scbn0 :=
  cbn [raw_start raw_end data_start data_end pending_attribute attribute number_attribute_returned err raw_tag
       text_is_raw convert_null allow_cdata token panic oof
       set_raw_start set_raw_end set_data_start set_data_end set_pending_attribute set_attribute
       set_number_attribute_returned set_err set_raw_tag set_text_is_raw set_convert_null set_allow_cdata set_token
       set_panic set_oof
       fst snd length Nat.add s_script s_SCRIPT s_DOCTYPE s_CDATA] in *.
Ltac pa_rw :=
  repeat match goal with
         | H : context [set_pa_key_start _ _] |- _ => progress autorewrite with pa in H
         | H : context [set_pa_key_end _ _] |- _ => progress autorewrite with pa in H
         | H : context [set_pa_val_start _ _] |- _ => progress autorewrite with pa in H
         | H : context [set_pa_val_end _ _] |- _ => progress autorewrite with pa in H
         end;
  try (progress autorewrite with pa).
Ltac scbn := scbn0; try (has_pa; repeat (progress pa_rw; scbn0)).
Ltac inv_side ::=
  cbn [raw_start raw_end data_start data_end pending_attribute attribute number_attribute_returned err raw_tag
       text_is_raw convert_null allow_cdata token panic oof
       set_raw_start set_raw_end set_data_start set_data_end set_pending_attribute set_attribute
       set_number_attribute_returned set_err set_raw_tag set_text_is_raw set_convert_null set_allow_cdata set_token
       set_panic set_oof fst snd length Nat.add s_script s_SCRIPT s_DOCTYPE s_CDATA];
  repeat match goal with H : @eq bool _ _ |- _ => clear H end; lia.
(* lia without the boolean facts about bytes (zify would case-split on them) *)
Ltac alia := repeat match goal with H : @eq bool _ _ |- _ => clear H end; lia.
(* arithmetic goals go to lia, everything else to congruence *)
Ltac arith_or_cong :=
  lazymatch goal with
  | |- _ <= _ => first [alia | congruence]
  | |- _ < _ => alia
  | |- @eq nat _ _ => first [congruence | alia]
  | |- _ => first [assumption | congruence]
  end.
Ltac wfs :=
  lazymatch goal with
  | |- wf _ _ =>
      first [ assumption
            | unfold dkeep in *;
              repeat match goal with H : _ /\ _ |- _ => destruct H end;
              repeat match goal with H : fr _ _ |- _ => destruct H end;
              repeat match goal with H : wf _ _ |- _ => destruct H end;
              constructor; scbn; arith_or_cong ]
  end.

Ltac mstep EQ :=
  lazymatch type of EQ with
  | bind _ _ _ _ = _ =>
      let a := fresh "a" in let s := fresh "s" in let E1 := fresh "Eh" in
      apply bind_inv in EQ; destruct EQ as (a & s & E1 & EQ); try (inv_prim E1)
  | (if ?c then _ else _) _ _ = _ =>
      let H := fresh "C" in destruct c eqn:H; cbn [orb andb] in H; try discriminate H;
      try rewrite negb_true_iff in H; try rewrite negb_false_iff in H;
      try first [ apply Nat.leb_le in H | apply Nat.leb_gt in H | apply Nat.ltb_lt in H | apply Nat.ltb_ge in H
                | apply Nat.eqb_eq in H | apply Nat.eqb_neq in H ]
  | _ => inv_prim EQ
  end.
Ltac rb EQ :=
  let Hb := fresh "Hb" in let Hlt := fresh "Hlt" in
  apply read_byte_inv in EQ; destruct EQ as [(Hb & Hlt & ->) | (Hlt & -> & ->)].
Ltac frs :=
  first [ apply fr_refl
        | repeat match goal with H : fr _ _ |- _ => destruct H end; constructor; cbn in *; congruence ].
Ltac dks := unfold dkeep in *; cbn in *; intuition congruence.
Ltac norm :=
  unfold dkeep in *;
  repeat match goal with
         | H : ?x = ?x -> _ |- _ => specialize (H eq_refl)
         | H : true = false -> _ |- _ => clear H
         | H : false = true -> _ |- _ => clear H
         | H : _ /\ _ |- _ => destruct H
         end;
  repeat match goal with H : fr _ _ |- _ => destruct H end;
  repeat match goal with H : pending_attribute ?x = _ |- _ => is_var x; rewrite H in *; clear H end.
Ltac fin1 :=
  lazymatch goal with
  | |- fr _ _ => solve [constructor; scbn; congruence]
  | |- _ <= _ => alia
  | |- _ < _ => alia
  | |- @eq nat _ _ => first [congruence | alia]
  | |- _ => first [ discriminate | assumption | congruence | solve [intuition congruence] | alia | idtac ]
  end.
Ltac fin :=
  norm;
  repeat (first [ match goal with |- _ /\ _ => split end | progress intros ]); scbn; norm; scbn; first [congruence | fin1 | idtac].

Lemma skip_white_space_spec inp s a s' : wf inp s -> skip_white_space inp s = (a, s') ->
  fr s s' /\ raw_end s <= raw_end s' /\ raw_end s' <= length inp /\ dkeep s s' /\ (err s = true -> err s' = true).
Proof.
  intros W EQ. pose proof (wf_end _ _ W). unfold skip_white_space in EQ. mstep EQ. mstep EQ.
  { mstep EQ. fin. }
  mstep EQ. mstep EQ.
  eapply (loop_in_rule inp _
            (fun _ s2 => fr s s2 /\ raw_end s <= raw_end s2 /\ raw_end s2 <= length inp /\ dkeep s s2)
            (fun _ s2 => length inp - raw_end s2)
            (fun _ s2 => fr s s2 /\ raw_end s <= raw_end s2 /\ raw_end s2 <= length inp /\ dkeep s s2)) in Eh.
  - fin; try apply Eh.
  - clear Eh. intros x s2 r s2' (F & L1 & L2 & D) Eb. mstep Eb; mstep Eb; cbn [err set_raw_end set_err] in Eb.
    + mstep Eb. { mstep Eb. fin. }
      mstep Eb. { mstep Eb. fin. }
      mstep Eb. mstep Eb. fin.
    + mstep Eb. fin.
  - fin.
  - lia.
Qed.

Lemma raw_names_bytes_b : forallb (fun t => forallb (N.leb 97) t) raw_text_elements = true.
Proof. reflexivity. Qed.
Lemma tag_byte t i c : tag_ok t -> nth_error t i = Some c -> (97 <= c)%N.
Proof.
  intros [->|H] EQ. { destruct i; discriminate. }
  pose proof raw_names_bytes_b as B. rewrite forallb_forall in B. specialize (B t H).
  rewrite forallb_forall in B. apply N.leb_le. apply B. eapply nth_error_In; eauto.
Qed.

Ltac mrun EQ := repeat (mstep EQ).
Ltac side := first [ assumption | solve [wfs] | solve [norm; scbn; arith_or_cong] ].

Lemma read_raw_end_tag_spec inp s a s' : wf inp s -> raw_start s + 2 <= raw_end s -> read_raw_end_tag inp s = (a, s') ->
  fr s s' /\ dkeep s s' /\ raw_end s' <= length inp
  /\ (a = true -> raw_end s' + 2 = raw_end s /\ raw_end s + length (raw_tag s) + 1 <= length inp /\ err s' = err s)
  /\ (a = false -> raw_end s <= raw_end s').
Proof.
  intros W H2 EQ. pose proof (wf_end _ _ W). unfold read_raw_end_tag in EQ. mstep EQ. mstep EQ.
  eapply (for_range_rule inp _
            (fun i s2 => fr s s2 /\ dkeep s s2 /\ raw_end s2 = raw_end s + i /\ raw_end s2 <= length inp /\ err s2 = err s)
            (fun b s2 => b = false /\ fr s s2 /\ dkeep s s2 /\ raw_end s <= raw_end s2 /\ raw_end s2 <= length inp)) in Eh.
  2:{ clear Eh EQ. intros i s2 r s2' _ Hi (F & D & L1 & L2 & L3) Eb. cbn [Nat.add] in Hi.
      mstep Eb; mstep Eb; cbn [err set_raw_end set_err] in Eb.
      - mstep Eb. { mstep Eb. fin. }
        assert (Ht : raw_tag s2 = raw_tag s) by (destruct F; assumption).
        mstep Eb. cbn [raw_tag set_raw_end] in Eh.
        destruct (index_of_ok 6 (raw_tag s2) i inp (set_raw_end (S (raw_end s2)) s2)) as (c & Hc & Ec); [rewrite Ht; exact Hi|].
        rewrite Ec in Eh. apply pair_equal_spec in Eh. destruct Eh as [<- <-].
        mstep Eb. { mstep Eb. fin. }
        mstep Eb. cbn [raw_tag set_raw_end] in Eh. rewrite Ec in Eh. apply pair_equal_spec in Eh. destruct Eh as [<- <-].
        mstep Eb. rewrite sub_u8_ok in Eh.
        2:{ assert (97 <= c)%N by (eapply tag_byte; [|exact Hc]; rewrite Ht; apply W). lia. }
        apply pair_equal_spec in Eh. destruct Eh as [<- <-].
        mstep Eb. { mstep Eb. fin. }
        mstep Eb. mstep Eb. fin.
      - mstep Eb. fin. }
  2:{ fin. }
  destruct a0 as [b|].
  - destruct Eh as (-> & F & D & L1 & L2). mstep EQ. fin.
  - destruct Eh as (F & D & L1 & L2 & L3). rewrite Nat.add_0_l in *.
    mstep EQ; mstep EQ; cbn [err set_raw_end set_err] in EQ.
    + mstep EQ. { mstep EQ. fin. }
      mstep EQ.
      * assert (Ht : raw_tag s0 = raw_tag s) by (destruct F; assumption).
        mstep EQ. cbn [raw_end raw_tag set_raw_end] in Eh. rewrite Ht in Eh.
        rewrite dec_raw_end_ok in Eh by (pcbn; lia). apply pair_equal_spec in Eh. destruct Eh as [<- <-].
        mstep EQ. fin.
      * mstep EQ. mstep EQ. fin.
    + mstep EQ. fin.
Qed.

Ltac app L := match goal with Eh : _ = (_, _) |- _ => apply L in Eh; [ | side .. ] end.

(* ---- P5 ---- *)

Definition sspec (X : nat -> M unit) (k c : nat) (f : nat) : Prop :=
  forall inp s a s', wf inp s -> raw_tag s = s_script -> raw_start s + k <= raw_end s ->
    3 * (length inp - raw_end s) + c <= f -> X f inp s = (a, s') ->
    fr s s' /\ dkeep s s' /\ raw_start s <= raw_end s' /\ raw_end s' <= length inp.

Definition sspec_all (f : nat) : Prop :=
  sspec read_script_data 0 1 f /\ sspec read_script_data_less_than_sign 1 3 f
  /\ sspec read_script_data_end_tag_open 2 2 f /\ sspec read_script_data_escape_start 2 2 f
  /\ sspec read_script_data_escape_start_dash 3 2 f /\ sspec read_script_data_escaped 0 1 f
  /\ sspec read_script_data_escaped_dash 0 1 f /\ sspec read_script_data_escaped_dash_dash 0 1 f
  /\ sspec read_script_data_escaped_less_than_sign 1 3 f /\ sspec read_script_data_escaped_end_tag_open 2 2 f
  /\ sspec read_script_data_double_escape_start 2 5 f /\ sspec read_script_data_double_escaped 0 1 f
  /\ sspec read_script_data_double_escaped_dash 0 1 f /\ sspec read_script_data_double_escaped_dash_dash 0 1 f
  /\ sspec read_script_data_double_escaped_less_than_sign 1 3 f /\ sspec read_script_data_double_escaped_end 2 2 f.

Ltac script_unfold_in EQ :=
  cbn [read_script_data read_script_data_less_than_sign read_script_data_end_tag_open
       read_script_data_escape_start read_script_data_escape_start_dash read_script_data_escaped
       read_script_data_escaped_dash read_script_data_escaped_dash_dash read_script_data_escaped_less_than_sign
       read_script_data_escaped_end_tag_open read_script_data_double_escape_start read_script_data_double_escaped
       read_script_data_double_escaped_dash read_script_data_double_escaped_dash_dash
       read_script_data_double_escaped_less_than_sign read_script_data_double_escaped_end] in EQ.

(* a leaf that is a recursive call: use the induction hypothesis *)
Ltac rec_leaf EQ :=
  match goal with
  | H : sspec ?X _ _ ?f |- _ =>
      match type of EQ with X f _ _ = _ => eapply H in EQ; [ | side .. ] end
  end.

Ltac end_tag_step EQ :=
  let F := fresh "F" in let D := fresh "D" in let L := fresh "L" in let Ht := fresh "Ht" in let Hf := fresh "Hf" in
  match goal with Eh : read_raw_end_tag _ _ = (?b, _) |- _ =>
    apply read_raw_end_tag_spec in Eh; [ | side | side ]; destruct Eh as (F & D & L & Ht & Hf);
    destruct b; [specialize (Ht eq_refl); clear Hf | specialize (Hf eq_refl); clear Ht]
  end.

Lemma sspec_step f : sspec_all f -> sspec_all (S f).
Proof.
  intros (H1 & H2 & H3 & H4 & H5 & H6 & H7 & H8 & H9 & H10 & H11 & H12 & H13 & H14 & H15 & H16).
  unfold sspec_all. repeat match goal with |- _ /\ _ => split end.
  all: intros inp s a s' W T K Fu EQ; pose proof (wf_end _ _ W); pose proof (wf_start _ _ W); script_unfold_in EQ.
  1,2,4,5,6,7,8,9,12,13,14,15: (mrun EQ; try (rec_leaf EQ); fin).
  - (* end_tag_open *) mstep EQ. end_tag_step EQ; mrun EQ; try (rec_leaf EQ); fin.
  - (* escaped_end_tag_open *) mstep EQ. end_tag_step EQ; mrun EQ; try (rec_leaf EQ); fin.
  - (* double_escape_start *)
    mstep EQ. mstep EQ.
    eapply (for_range_rule inp _
              (fun i s2 => fr s s2 /\ dkeep s s2 /\ raw_end s2 + 1 = raw_end s + i /\ raw_end s2 <= length inp)
              (fun (b : bool) s2 => fr s s2 /\ dkeep s s2 /\ raw_end s <= raw_end s2 + 1 /\ raw_end s2 <= length inp)) in Eh.
    2:{ clear Eh EQ. intros i s2 r s2' _ Hi (F & D & L1 & L2) Eb. cbn [Nat.add length s_script] in Hi.
        mrun Eb. all: fin. }
    2:{ fin. }
    destruct a0 as [[|]|]; cbv beta iota in EQ.
    + (mrun EQ; fin).
    + rec_leaf EQ. fin.
    + cbn [length s_script Nat.add] in Eh. mrun EQ. all: try (rec_leaf EQ). all: fin.
  - (* double_escaped_end *)
    mstep EQ. end_tag_step EQ.
    + rewrite T in Ht. cbn [length s_script] in Ht. mrun EQ. all: try (rec_leaf EQ). all: fin.
    + mrun EQ. all: try (rec_leaf EQ). all: fin.
Qed.

Lemma sspec_all_holds : forall f, sspec_all f.
Proof.
  induction f as [|f IH]; [|apply sspec_step; exact IH].
  unfold sspec_all. repeat match goal with |- _ /\ _ => split end; intros inp s a s' W T K Fu EQ; exfalso; lia.
Qed.

Lemma read_script_spec inp s a s' : wf inp s -> raw_tag s = s_script -> read_script inp s = (a, s') ->
  fr s s' /\ raw_start s <= raw_end s' /\ raw_end s' <= length inp
  /\ data_start s' = data_start s /\ data_end s' = raw_end s' /\ pending_attribute s' = pending_attribute s.
Proof.
  intros W T EQ. pose proof (wf_end _ _ W). pose proof (wf_start _ _ W).
  unfold read_script in EQ. mstep EQ. unfold script_fuel in Eh. mstep Eh. mstep Eh.
  mstep EQ. apply (proj1 (sspec_all_holds _)) in Eh; [|side..]. mstep EQ. fin.
Qed.

(* ---- P6 ---- *)

Definition pkeep (s s' : st) : Prop := pending_attribute s' = pending_attribute s.

Lemma read_until_close_angle_spec inp s a s' : wf inp s -> read_until_close_angle inp s = (a, s') ->
  fr s s' /\ raw_end s <= raw_end s' /\ raw_end s' <= length inp /\ data_start s' = raw_end s
  /\ data_start s' <= data_end s' /\ data_end s' <= raw_end s' /\ pending_attribute s' = pending_attribute s
  /\ (err s = true -> err s' = true).
Proof.
  intros W EQ. pose proof (wf_end _ _ W). unfold read_until_close_angle in EQ. mstep EQ. mstep EQ. mstep EQ.
  eapply (loop_in_rule inp _
            (fun _ s2 => fr s s2 /\ raw_end s <= raw_end s2 /\ raw_end s2 <= length inp /\ data_start s2 = raw_end s
                         /\ pending_attribute s2 = pending_attribute s /\ (err s = true -> err s2 = true))
            (fun _ s2 => length inp - raw_end s2)
            (fun _ s2 => fr s s2 /\ raw_end s <= raw_end s2 /\ raw_end s2 <= length inp /\ data_start s2 = raw_end s
                         /\ data_start s2 <= data_end s2 /\ data_end s2 <= raw_end s2
                         /\ pending_attribute s2 = pending_attribute s /\ (err s = true -> err s2 = true))) in Eh.
  - fin.
  - clear Eh. intros x s2 r s2' HI Eb. mrun Eb; fin.
  - fin.
  - scbn. lia.
Qed.

Lemma read_comment_spec inp s a s' : wf inp s -> 2 <= raw_end s -> read_comment inp s = (a, s') ->
  fr s s' /\ raw_end s <= raw_end s' /\ raw_end s' <= length inp /\ data_start s' = raw_end s
  /\ data_start s' <= data_end s' /\ data_end s' <= raw_end s' /\ pending_attribute s' = pending_attribute s.
Proof.
  intros W H2 EQ. pose proof (wf_end _ _ W). unfold read_comment in EQ. mstep EQ. mstep EQ.
  eapply (loop_in_rule inp _
            (fun (_ : nat) s2 => fr s s2 /\ raw_end s <= raw_end s2 /\ raw_end s2 <= length inp /\ data_start s2 = raw_end s
                         /\ pending_attribute s2 = pending_attribute s)
            (fun _ s2 => length inp - raw_end s2)
            (fun _ s2 => fr s s2 /\ raw_end s <= raw_end s2 /\ raw_end s2 <= length inp /\ data_start s2 = raw_end s
                         /\ data_end s2 <= raw_end s2
                         /\ pending_attribute s2 = pending_attribute s)) in Eh.
  - cbv zeta in EQ. mrun EQ; fin.
  - clear Eh EQ. intros x s2 r s2' HI Eb. norm. mstep Eb; mstep Eb; scbn.
    + mstep Eb.
      { cbv zeta in Eb. destruct (2 <? x) eqn:Hdc; [apply Nat.ltb_lt in Hdc | apply Nat.ltb_ge in Hdc]; cbv beta iota in Eb; mrun Eb; fin. }
      mrun Eb; fin.
    + destruct (2 <? x) eqn:Hdc; [apply Nat.ltb_lt in Hdc | apply Nat.ltb_ge in Hdc]; cbv beta iota in Eb; mrun Eb; fin.
  - fin.
  - scbn. lia.
Qed.

Lemma doctype_byte i c : nth_error s_DOCTYPE i = Some c -> (c + 32 <= 255)%N.
Proof.
  intros EQ. assert (B : forallb (fun c => N.leb (c + 32) 255) s_DOCTYPE = true) by reflexivity.
  rewrite forallb_forall in B. apply N.leb_le. apply B. eapply nth_error_In; eauto.
Qed.

Lemma read_doc_type_spec inp s a s' : wf inp s -> raw_start s <= data_start s -> data_start s <= raw_end s ->
  read_doc_type inp s = (a, s') ->
  fr s s' /\ raw_start s <= raw_end s' /\ raw_end s' <= length inp /\ pending_attribute s' = pending_attribute s
  /\ (a = true -> raw_end s <= raw_end s' /\ data_start s' <= data_end s' /\ data_end s' <= raw_end s')
  /\ (a = false -> data_start s' = data_start s /\ data_start s <= raw_end s').
Proof.
  intros W D1 D2 EQ. pose proof (wf_end _ _ W). pose proof (wf_start _ _ W). unfold read_doc_type in EQ. mstep EQ.
  eapply (for_range_rule inp _
            (fun i s2 => fr s s2 /\ raw_end s <= raw_end s2 /\ raw_end s2 <= length inp /\ data_start s2 = data_start s
                         /\ pending_attribute s2 = pending_attribute s)
            (fun (b : bool) s2 => b = false /\ fr s s2 /\ raw_start s <= raw_end s2 /\ raw_end s2 <= length inp
                         /\ data_start s2 = data_start s /\ data_start s <= raw_end s2
                         /\ pending_attribute s2 = pending_attribute s)) in Eh.
  2:{ clear Eh EQ. intros i s2 r s2' _ Hi HI Eb. norm. cbn [length s_DOCTYPE Nat.add] in Hi.
      mstep Eb; mstep Eb; scbn.
      - mstep Eb. { mrun Eb; fin. }
        mstep Eb. mstep Eb. { mrun Eb; fin. }
        mstep Eb. mstep Eb. rewrite add_u8_ok in Eh by (eapply doctype_byte; eassumption).
        apply pair_equal_spec in Eh; destruct Eh; subst. mrun Eb; fin.
      - mrun Eb; fin. }
  2:{ fin. }
  destruct a0 as [b|]; cbv beta iota in EQ.
  - norm. subst b. mrun EQ; fin.
  - norm. mstep EQ. app skip_white_space_spec. mstep EQ. mstep EQ.
    + mrun EQ; fin.
    + mstep EQ. app read_until_close_angle_spec. mrun EQ; fin.
Qed.

Lemma read_cdata_spec inp s a s' : wf inp s -> raw_start s <= data_start s -> data_start s <= raw_end s ->
  read_cdata inp s = (a, s') ->
  fr s s' /\ raw_start s <= raw_end s' /\ raw_end s' <= length inp /\ pending_attribute s' = pending_attribute s
  /\ (a = true -> raw_end s <= raw_end s' /\ data_start s' <= data_end s' /\ data_end s' <= raw_end s')
  /\ (a = false -> data_start s' = data_start s /\ data_start s <= raw_end s').
Proof.
  intros W D1 D2 EQ. pose proof (wf_end _ _ W). pose proof (wf_start _ _ W). unfold read_cdata in EQ. mstep EQ.
  eapply (for_range_rule inp _
            (fun i s2 => fr s s2 /\ raw_end s <= raw_end s2 /\ raw_end s2 <= length inp /\ data_start s2 = data_start s
                         /\ pending_attribute s2 = pending_attribute s)
            (fun (b : bool) s2 => b = false /\ fr s s2 /\ raw_start s <= raw_end s2 /\ raw_end s2 <= length inp
                         /\ data_start s2 = data_start s /\ data_start s <= raw_end s2
                         /\ pending_attribute s2 = pending_attribute s)) in Eh.
  2:{ clear Eh EQ. intros i s2 r s2' _ Hi HI Eb. norm. cbn [length s_CDATA Nat.add] in Hi. mrun Eb; fin. }
  2:{ fin. }
  destruct a0 as [b|]; cbv beta iota in EQ.
  - norm. subst b. mrun EQ; fin.
  - norm. mstep EQ. mstep EQ.
    eapply (loop_in_rule inp _
              (fun (br : nat) s2 => fr s s2 /\ raw_end s <= raw_end s2 /\ raw_end s2 <= length inp
                           /\ data_start s2 + br <= raw_end s2
                           /\ pending_attribute s2 = pending_attribute s)
              (fun _ s2 => length inp - raw_end s2)
              (fun (r : option bool) s2 => r = Some true /\ fr s s2 /\ raw_end s <= raw_end s2 /\ raw_end s2 <= length inp
                           /\ data_start s2 <= data_end s2 /\ data_end s2 <= raw_end s2
                           /\ pending_attribute s2 = pending_attribute s)) in Eh.
    + norm. subst. mrun EQ; fin.
    + clear Eh EQ. intros br s2 r s2' HI Eb. norm. mrun Eb; fin.
    + fin.
    + scbn. lia.
Qed.

Lemma read_markup_declaration_spec inp s a s' : wf inp s -> read_markup_declaration inp s = (a, s') ->
  fr s s' /\ raw_end s <= raw_end s' /\ raw_end s' <= length inp /\ pending_attribute s' = pending_attribute s
  /\ data_start s' <= data_end s' /\ data_end s' <= raw_end s'.
Proof.
  intros W EQ. pose proof (wf_end _ _ W). pose proof (wf_start _ _ W). unfold read_markup_declaration in EQ.
  mstep EQ. mstep EQ; mstep EQ; scbn.
  2:{ mrun EQ; fin. }
  mstep EQ. { mrun EQ; fin. }
  mstep EQ; mstep EQ; scbn.
  2:{ mrun EQ; fin. }
  mstep EQ. { mrun EQ; fin. }
  mstep EQ.
  { mstep EQ. app read_comment_spec. mrun EQ; fin. }
  mstep EQ. mstep EQ. app read_doc_type_spec. norm. mstep EQ. { mrun EQ; fin. }
  mstep EQ. mstep EQ.
  mstep Eh.
  - app read_cdata_spec. norm. mstep EQ. { mrun EQ; fin. }
    mstep EQ. app read_until_close_angle_spec. mrun EQ; fin.
  - mstep Eh. mstep EQ. mstep EQ. app read_until_close_angle_spec. mrun EQ; fin.
Qed.

(* ---- P7 ---- *)

Lemma list_eq_nth {A} (l1 : list A) : forall l2, length l1 = length l2 ->
  (forall j, j < length l1 -> nth_error l1 j = nth_error l2 j) -> l1 = l2.
Proof.
  induction l1 as [|x l1 IH]; intros [|y l2] HL H; cbn [length] in *; try discriminate; try reflexivity.
  f_equal.
  - specialize (H 0 ltac:(lia)). cbn in H. congruence.
  - apply IH. lia. intros j Hj. apply (H (S j)). lia.
Qed.
Lemma nth_error_skipn' {A} (l : list A) a j : nth_error (skipn a l) j = nth_error l (a + j).
Proof.
  revert l. induction a as [|a IH]; intros l; cbn [skipn Nat.add]. reflexivity.
  destruct l as [|x l]. destruct j; reflexivity. cbn [nth_error]. apply IH.
Qed.
Lemma nth_error_firstn' {A} (l : list A) n j : j < n -> nth_error (firstn n l) j = nth_error l j.
Proof.
  revert l j. induction n as [|n IH]; intros l j H. lia.
  destruct l as [|x l]; cbn [firstn]. reflexivity. destruct j; cbn [nth_error]. reflexivity. apply IH. lia.
Qed.
Lemma nth_error_sub inp a b j : j < b - a -> nth_error (sub inp a b) j = nth_error inp (a + j).
Proof. intros H. unfold sub. rewrite nth_error_firstn' by exact H. apply nth_error_skipn'. Qed.
Lemma sub_length inp a b : a <= b -> b <= length inp -> length (sub inp a b) = b - a.
Proof. intros H1 H2. unfold sub. rewrite firstn_length, skipn_length. lia. Qed.

Lemma upper_add c : is_ascii_uppercase c = true -> (c + 32 <= 255)%N.
Proof. unfold is_ascii_uppercase. intros H. apply andb_prop in H. destruct H as [H1 H2]. apply N.leb_le in H2. lia. Qed.

Lemma start_tag_in_spec inp ss : forall s a s', wf inp s -> data_start s <= data_end s -> data_end s <= length inp ->
  start_tag_in ss inp s = (a, s') ->
  s' = s /\ (a = true -> In (map ascii_lower (sub inp (data_start s) (data_end s))) ss).
Proof.
  induction ss as [|s_ ss IH]; intros s a s' W D1 D2 EQ; cbn [start_tag_in] in EQ.
  - mstep EQ. split; [reflexivity|discriminate].
  - mstep EQ. mstep EQ. mstep EQ.
    { apply IH in EQ; auto. destruct EQ as [-> HI]. split; [reflexivity|]. intros Ha. right. auto. }
    mstep EQ.
    eapply (for_range_rule inp _
              (fun i s2 => s2 = s /\ forall j, j < i -> exists c, nth_error inp (data_start s + j) = Some c
                                                    /\ nth_error s_ j = Some (ascii_lower c))
              (fun (_ : unit) s2 => s2 = s)) in Eh.
    2:{ clear Eh EQ. intros i s2 r s2' _ Hi (-> & HI) Eb. cbn [Nat.add] in Hi.
        mstep Eb. mstep Eb. mstep Eh.
        - rewrite add_u8_ok in Eh by (apply upper_add; exact C0). apply pair_equal_spec in Eh. destruct Eh; subst.
          mstep Eb. mstep Eb.
          + mstep Eb. reflexivity.
          + mstep Eb. split; [reflexivity|]. intros j Hj. destruct (Nat.eq_dec j i) as [->|Hne].
            * exists c. split; [exact Hc|]. rewrite Hc0. f_equal. apply N.eqb_eq in C1. unfold ascii_lower.
              unfold is_ascii_uppercase in C0. rewrite C0. symmetry. exact C1.
            * apply HI. lia.
        - mstep Eh. mstep Eb. mstep Eb.
          + mstep Eb. reflexivity.
          + mstep Eb. split; [reflexivity|]. intros j Hj. destruct (Nat.eq_dec j i) as [->|Hne].
            * exists c. split; [exact Hc|]. rewrite Hc0. f_equal. apply N.eqb_eq in C1. unfold ascii_lower.
              unfold is_ascii_uppercase in C0. rewrite C0. symmetry. exact C1.
            * apply HI. lia. }
    2:{ split; [reflexivity|]. intros j Hj. lia. }
    destruct a0 as [u|]; cbv beta iota in EQ.
    + subst. apply IH in EQ; auto. destruct EQ as [-> HI]. split; [reflexivity|]. intros Ha. right. auto.
    + destruct Eh as (-> & HI). mstep EQ. split; [reflexivity|]. intros _. left.
      symmetry. apply list_eq_nth.
      * rewrite map_length, sub_length by assumption. lia.
      * intros j Hj. rewrite map_length, sub_length in Hj by assumption.
        rewrite nth_error_map, nth_error_sub by exact Hj.
        destruct (HI j) as (c & Hc1 & Hc2). { cbn [Nat.add]. lia. }
        rewrite Hc1, Hc2. reflexivity.
Qed.

(* ---- P8 ---- *)

Lemma skip_white_space_stuck inp s a s' b :
  nth_error inp (raw_end s) = Some b -> is_ws b = false -> err s = false ->
  skip_white_space inp s = (a, s') -> raw_end s' = raw_end s /\ err s' = false.
Proof.
  intros Hn Hw He EQ. unfold skip_white_space in EQ. mstep EQ. rewrite He in EQ. mstep EQ. mstep EQ.
  eapply (loop_in_rule inp _ (fun _ s2 => s2 = s) (fun _ s2 => 0)
            (fun _ s2 => raw_end s2 = raw_end s /\ err s2 = false)) in Eh.
  - exact Eh.
  - clear Eh. intros x s2 r s2' -> Eb. mstep Eb; mstep Eb; scbn.
    + rewrite He in Eb. rewrite Hn in Hb. injection Hb as <-. rewrite Hw in Eb. mrun Eb. scbn. split; [lia|assumption].
    + apply nth_error_None in Hlt. congruence.
  - reflexivity.
  - lia.
Qed.

Definition dsame (s s' : st) : Prop := data_start s' = data_start s /\ data_end s' = data_end s.

Lemma read_tag_name_spec inp s a s' : wf inp s -> 1 <= raw_end s -> read_tag_name inp s = (a, s') ->
  fr s s' /\ pending_attribute s' = pending_attribute s /\ raw_end s <= raw_end s' /\ raw_end s' <= length inp
  /\ data_start s' + 1 = raw_end s /\ data_start s' <= data_end s' /\ data_end s' <= raw_end s'.
Proof.
  intros W H1 EQ. pose proof (wf_end _ _ W). unfold read_tag_name in EQ. mstep EQ. mstep EQ. mstep EQ. mstep EQ.
  eapply (loop_in_rule inp _
            (fun _ s2 => fr s s2 /\ pending_attribute s2 = pending_attribute s /\ raw_end s <= raw_end s2
                         /\ raw_end s2 <= length inp /\ data_start s2 + 1 = raw_end s)
            (fun _ s2 => length inp - raw_end s2)
            (fun _ s2 => fr s s2 /\ pending_attribute s2 = pending_attribute s /\ raw_end s <= raw_end s2
                         /\ raw_end s2 <= length inp /\ data_start s2 + 1 = raw_end s
                         /\ data_start s2 <= data_end s2 /\ data_end s2 <= raw_end s2)) in Eh.
  - mrun EQ; fin.
  - clear Eh EQ. intros x s2 r s2' HI Eb. norm. mrun Eb; fin.
  - fin.
  - scbn. lia.
Qed.

Lemma is_eq b c : is b c = true -> b = c.
Proof. unfold is. apply N.eqb_eq. Qed.

Lemma read_tag_name_attr_key_spec inp s a s' : wf inp s -> read_tag_name_attr_key inp s = (a, s') ->
  fr s s' /\ dsame s s' /\ raw_end s <= raw_end s' /\ raw_end s' <= length inp
  /\ fst (fst (pending_attribute s')) = raw_end s
  /\ raw_end s <= snd (fst (pending_attribute s')) /\ snd (fst (pending_attribute s')) <= raw_end s'
  /\ snd (pending_attribute s') = snd (pending_attribute s)
  /\ (err s' = false ->
      raw_end s + 1 <= raw_end s'
      \/ (raw_end s' = raw_end s
          /\ (nth_error inp (raw_end s) = Some EQUALS \/ nth_error inp (raw_end s) = Some GT))).
Proof.
  intros W EQ. pose proof (wf_end _ _ W). unfold read_tag_name_attr_key in EQ. mstep EQ. mstep EQ.
  eapply (loop_in_rule inp _
            (fun _ s2 => fr s s2 /\ dsame s s2 /\ raw_end s <= raw_end s2 /\ raw_end s2 <= length inp
                         /\ fst (fst (pending_attribute s2)) = raw_end s
                         /\ snd (pending_attribute s2) = snd (pending_attribute s))
            (fun _ s2 => length inp - raw_end s2)
            (fun _ s2 => fr s s2 /\ dsame s s2 /\ raw_end s <= raw_end s2 /\ raw_end s2 <= length inp
                         /\ fst (fst (pending_attribute s2)) = raw_end s
                         /\ raw_end s <= snd (fst (pending_attribute s2))
                         /\ snd (fst (pending_attribute s2)) <= raw_end s2
                         /\ snd (pending_attribute s2) = snd (pending_attribute s)
                         /\ (err s2 = false ->
                             raw_end s + 1 <= raw_end s2
                             \/ (raw_end s2 = raw_end s
                                 /\ (nth_error inp (raw_end s) = Some EQUALS \/ nth_error inp (raw_end s) = Some GT))))) in Eh.
  - mrun EQ; fin.
  - clear Eh EQ. intros x s2 r s2' HI Eb. unfold dsame in *. norm. mrun Eb; fin.
    destruct (Nat.eq_dec (raw_end s2) (raw_end s)) as [Heq|Hne]; [right|left; alia].
    split; [lia|]. rewrite <- Heq, Hb. apply orb_prop in C1. destruct C1 as [C1|C1]; apply is_eq in C1; subst; auto.
  - unfold dsame. fin.
  - scbn. lia.
Qed.

Lemma read_tag_name_attr_value_spec inp s a s' : wf inp s -> read_tag_name_attr_value inp s = (a, s') ->
  fr s s' /\ dsame s s' /\ raw_end s <= raw_end s' /\ raw_end s' <= length inp
  /\ fst (pending_attribute s') = fst (pending_attribute s)
  /\ fst (snd (pending_attribute s')) <= snd (snd (pending_attribute s'))
  /\ snd (snd (pending_attribute s')) <= raw_end s'
  /\ (nth_error inp (raw_end s) = Some EQUALS -> err s' = false -> raw_end s + 1 <= raw_end s').
Proof.
  intros W EQ. pose proof (wf_end _ _ W). unfold read_tag_name_attr_value in EQ.
  mstep EQ. mstep EQ. mstep EQ.
  match goal with Eh : skip_white_space _ ?st = _ |- _ =>
    pose proof (fun b H1 H2 H3 => skip_white_space_stuck inp st _ _ b H1 H2 H3 Eh) as Hstuck end.
  app skip_white_space_spec. norm. scbn.
  mstep EQ. mstep EQ. { mrun EQ; unfold dsame; fin. }
  mstep EQ; mstep EQ; scbn.
  2:{ mrun EQ; unfold dsame; fin. }
  mstep EQ. { mrun EQ; unfold dsame; fin. }
  mstep EQ.
  { (* not '=' : un-read *) mrun EQ; unfold dsame; fin.
    exfalso. destruct (err s) eqn:Hes; [intuition congruence|].
    match goal with H0 : nth_error inp (raw_end s) = Some EQUALS |- _ =>
      destruct (Hstuck EQUALS H0 eq_refl eq_refl) as [Hre Her]; rewrite Hre in Hb; rewrite H0 in Hb end.
    injection Hb as <-. discriminate C1. }
  (* '=' read *)
  mstep EQ. app skip_white_space_spec. norm. scbn. mstep EQ. mstep EQ. { mrun EQ; unfold dsame; fin. }
  mstep EQ; mstep EQ; scbn.
  2:{ mrun EQ; unfold dsame; fin. }
  mstep EQ. { mrun EQ; unfold dsame; fin. }
  mstep EQ. { mrun EQ; unfold dsame; fin. }
  mstep EQ.
  - (* quoted *)
    mstep EQ. mstep EQ.
    match goal with Eh : loop_in _ _ _ ?st = _ |- _ => set (s9 := st) in * end.
    eapply (loop_in_rule inp _
              (fun _ s2 => fr s s2 /\ dsame s s2 /\ raw_end s9 <= raw_end s2 /\ raw_end s2 <= length inp
                           /\ fst (pending_attribute s2) = fst (pending_attribute s)
                           /\ fst (snd (pending_attribute s2)) = raw_end s9)
              (fun _ s2 => length inp - raw_end s2)
              (fun _ s2 => fr s s2 /\ dsame s s2 /\ raw_end s9 <= raw_end s2 /\ raw_end s2 <= length inp
                           /\ fst (pending_attribute s2) = fst (pending_attribute s)
                           /\ fst (snd (pending_attribute s2)) <= snd (snd (pending_attribute s2))
                           /\ snd (snd (pending_attribute s2)) <= raw_end s2)) in Eh.
    + subst s9. mrun EQ; unfold dsame in *; fin.
    + clear Eh EQ. intros x t2 r t2' HI Eb. unfold dsame in *. norm. subst s9. scbn. mrun Eb; fin.
    + subst s9. unfold dsame. fin.
    + subst s9. scbn. alia.
  - (* unquoted *)
    mstep EQ. mstep EQ. mstep EQ.
    match goal with Eh : loop_in _ _ _ ?st = _ |- _ => set (s9 := st) in * end.
    eapply (loop_in_rule inp _
              (fun _ s2 => fr s s2 /\ dsame s s2 /\ raw_end s9 <= raw_end s2 /\ raw_end s2 <= length inp
                           /\ fst (pending_attribute s2) = fst (pending_attribute s)
                           /\ fst (snd (pending_attribute s2)) + 1 = raw_end s9)
              (fun _ s2 => length inp - raw_end s2)
              (fun _ s2 => fr s s2 /\ dsame s s2 /\ raw_end s9 <= raw_end s2 + 1 /\ raw_end s2 <= length inp
                           /\ fst (pending_attribute s2) = fst (pending_attribute s)
                           /\ fst (snd (pending_attribute s2)) <= snd (snd (pending_attribute s2))
                           /\ snd (snd (pending_attribute s2)) <= raw_end s2)) in Eh.
    + subst s9. mrun EQ; unfold dsame in *; fin.
    + clear Eh EQ. intros x t2 r t2' HI Eb. unfold dsame in *. norm. subst s9. scbn. mrun Eb; fin.
    + subst s9. unfold dsame. fin.
    + subst s9. scbn. alia.
Qed.


(* ---- P9 ---- *)

Lemma pres_err {A} (m : M A) inp s a s' : Pres m -> m inp s = (a, s') -> err s' = false -> err s = false.
Proof. intros P EQ H. pose proof (P inp s) as X. rewrite EQ in X. apply (ext_err _ _ X). exact H. Qed.

(* fr without the attribute vector *)
Record fra (s s' : st) : Prop := mk_fra {
  fra_rs : raw_start s' = raw_start s;
  fra_tag : raw_tag s' = raw_tag s;
  fra_cd : allow_cdata s' = allow_cdata s;
  fra_panic : panic s' = panic s;
  fra_oof : oof s' = oof s
}.
Lemma fr_fra s s' : fr s s' -> fra s s'.
Proof. intros []. constructor; assumption. Qed.

Ltac wsplit := repeat match goal with |- _ /\ _ => split end.

Lemma wf_set_err inp t b : wf inp t -> wf inp (set_err b t).
Proof. intros []. constructor; assumption. Qed.
Lemma fra_set_err s t b : fra s t -> fra s (set_err b t).
Proof. intros []. constructor; assumption. Qed.
Lemma wf_set_raw_end inp t p : wf inp t -> raw_start t <= p -> p <= length inp -> wf inp (set_raw_end p t).
Proof. intros [] H1 H2. constructor; try assumption. Qed.
Lemma fra_set_raw_end s t p : fra s t -> fra s (set_raw_end p t).
Proof. intros []. constructor; assumption. Qed.

Lemma read_tag_spec save inp s a s' : wf inp s -> 1 <= raw_end s -> read_tag save inp s = (a, s') ->
  wf inp s' /\ fra s s' /\ raw_end s <= raw_end s'
  /\ data_start s' + 1 = raw_end s /\ data_start s' <= data_end s' /\ data_end s' <= raw_end s'.
Proof.
  intros W H1 EQ. pose proof (wf_end _ _ W). pose proof (wf_start _ _ W). unfold read_tag in EQ.
  mstep EQ. mstep EQ.
  set (s1 := set_number_attribute_returned 0 (set_attribute [] s)) in *.
  assert (W1 : wf inp s1). { destruct W. constructor; subst s1; scbn; auto; alia. }
  assert (F1 : fra s s1). { constructor; reflexivity. }
  assert (R1 : raw_end s1 = raw_end s) by reflexivity.
  assert (A1 : attribute s1 = []) by reflexivity.
  clearbody s1.
  mstep EQ. apply read_tag_name_spec in Eh; [|exact W1|alia]. destruct Eh as (Fa & Pa & La1 & La2 & Da1 & Da2 & Da3).
  assert (Wa : wf inp s0) by (pose proof (wf_start _ _ W1); apply (wf_fr inp s1 s0 W1 Fa); alia).
  mstep EQ. apply skip_white_space_spec in Eh; [|exact Wa]. destruct Eh as (Fb & Lb1 & Lb2 & (Db1 & Db2 & Db3) & _).
  assert (Wb : wf inp s2) by (pose proof (wf_start _ _ Wa); apply (wf_fr inp s0 s2 Wa Fb); alia).
  mstep EQ. mstep EQ.
  { mstep EQ. split; [exact Wb|]. split.
    { destruct F1, Fa, Fb. constructor; congruence. }
    wsplit; alia. }
  mstep EQ.
  eapply (loop_in_rule inp _
            (fun _ t => wf inp t /\ fra s t /\ raw_end s2 <= raw_end t
                        /\ data_start t = data_start s2 /\ data_end t = data_end s2
                        /\ length (attribute t) + raw_end s2 <= raw_end t)
            (fun _ t => length inp - raw_end t)
            (fun _ t => wf inp t /\ fra s t /\ raw_end s2 <= raw_end t
                        /\ data_start t = data_start s2 /\ data_end t = data_end s2
                        /\ length (attribute t) + raw_end s2 <= raw_end t)) in Eh.
  - destruct Eh as (Wf & Ff & Lf & Df1 & Df2 & Nf). mstep EQ. wsplit; auto; alia.
  - clear Eh EQ. intros x t r t' (Wt & Ft & Lt & Dt1 & Dt2 & Nt) Eb.
    pose proof (wf_end _ _ Wt) as Et. pose proof (wf_start _ _ Wt) as St.
    mstep Eb; mstep Eb; scbn.
    2:{ mrun Eb. scbn. wsplit; [apply wf_set_err; exact Wt|apply fra_set_err; exact Ft|scbn; alia..]. }
    mstep Eb.
    { mstep Eb. scbn. wsplit; [apply wf_set_raw_end; [exact Wt|alia|alia]|apply fra_set_raw_end; exact Ft|scbn; alia..]. }
    apply orb_false_elim in C0. destruct C0 as [Ce Cg].
    mstep Eb. scbn.
    set (t0 := set_raw_end (S (raw_end t) - 1) (set_raw_end (S (raw_end t)) t)) in *.
    assert (Wt0 : wf inp t0). { subst t0. apply wf_set_raw_end; [apply wf_set_raw_end; [exact Wt|alia|alia]|scbn; alia|alia]. }
    assert (Rt0 : raw_end t0 = raw_end t) by (subst t0; scbn; alia).
    assert (Ft0 : fra s t0). { subst t0. apply fra_set_raw_end, fra_set_raw_end. exact Ft. }
    assert (Dt0 : data_start t0 = data_start s2 /\ data_end t0 = data_end s2) by (subst t0; scbn; auto).
    assert (Et0 : err t0 = false) by (subst t0; scbn; auto).
    assert (At0 : attribute t0 = attribute t) by (subst t0; reflexivity).
    clearbody t0.
    mstep Eb. lazymatch type of Eh with _ = (_, ?y) => rename y into tk end. pose proof (pres_err _ _ _ _ _ pres_read_tag_name_attr_key Eh) as Ek.
    apply read_tag_name_attr_key_spec in Eh; [|exact Wt0]. destruct Eh as (Fk & (Dk1 & Dk2) & Lk1 & Lk2 & Pk1 & Pk2 & Pk3 & Pk4 & Pk5).
    assert (Wk : wf inp tk) by (pose proof (wf_start _ _ Wt0); apply (wf_fr inp t0 tk Wt0 Fk); alia).
    mstep Eb. lazymatch type of Eh with _ = (_, ?y) => rename y into tv end. pose proof (pres_err _ _ _ _ _ pres_read_tag_name_attr_value Eh) as Ev.
    apply read_tag_name_attr_value_spec in Eh; [|exact Wk]. destruct Eh as (Fv & (Dv1 & Dv2) & Lv1 & Lv2 & Pv1 & Pv2 & Pv3 & Pv4).
    assert (Wv : wf inp tv) by (pose proof (wf_start _ _ Wk); apply (wf_fr inp tk tv Wk Fv); alia).
    mstep Eb. mstep Eb.
    assert (Atv : attribute tv = attribute t) by (destruct Fk, Fv; congruence).
    match goal with Eh : _ inp tv = (?u, ?t5) |- _ => rename t5 into tp end.
    match goal with Eh : _ inp tv = (?u, ?t5) |- _ =>
      assert (X5 : wf inp t5 /\ fra tv t5 /\ raw_end t5 = raw_end tv /\ err t5 = err tv
                   /\ data_start t5 = data_start tv /\ data_end t5 = data_end tv
                   /\ length (attribute t5) + raw_end s2 <= raw_end t5) end.
    { mstep Eh.
      - apply andb_prop in C0. destruct C0 as [_ Cne]. apply negb_true_iff, Nat.eqb_neq in Cne.
        rewrite Pv1 in Cne.
        mstep Eh. scbn. wsplit; auto. 2:{ constructor; reflexivity. }
        + destruct Wv. constructor; scbn; auto.
          * apply Forall_app. split; [assumption|].
            constructor; [|constructor]. unfold attr_ok, span_ok. rewrite Pv1. alia.
          * rewrite app_length, Atv. cbn [length]. alia.
        + rewrite app_length, Atv. cbn [length]. alia.
      - mstep Eh. wsplit; auto. constructor; reflexivity. rewrite Atv. alia. }
    clear Eh. destruct X5 as (W5 & F5 & R5 & E5 & D51 & D52 & N5).
    mstep Eb. lazymatch type of Eh with _ = (_, ?y) => rename y into ts end. pose proof (pres_err _ _ _ _ _ pres_skip_white_space Eh) as Es.
    apply skip_white_space_spec in Eh; [|exact W5]. destruct Eh as (Fs & Ls1 & Ls2 & (Ds1 & Ds2 & Ds3) & _).
    assert (Ws : wf inp ts) by (pose proof (wf_start _ _ W5); match type of Fs with fr ?x _ => apply (wf_fr inp x ts W5 Fs) end; alia).
    assert (Ats : attribute ts = attribute tp) by (destruct Fs; assumption).
    assert (Ffin : fra s ts).
    { destruct Ft0, Fk, Fv, F5, Fs. constructor; congruence. }
    mstep Eb. mstep Eb; mstep Eb.
    + wsplit; auto; try alia. rewrite Ats. alia.
    + split; [wsplit; auto; try alia; rewrite Ats; alia|].
      (* progress *)
      assert (E4 : err tv = false) by (rewrite <- E5; apply Es; first [exact C0|reflexivity]).
      assert (E3 : err tk = false) by (apply Ev; exact E4).
      destruct (Pk5 E3) as [Hp|(Hp & Hc)].
      * lia.
      * assert (Hq : nth_error inp (raw_end tk) = Some EQUALS).
        { rewrite Hp. destruct Hc as [Hc|Hc]; [exact Hc|]. rewrite Rt0, Hb in Hc. injection Hc as ->. discriminate Cg. }
        specialize (Pv4 Hq E4). lia.
  - wsplit; auto; try alia. destruct F1, Fa, Fb. constructor; congruence.
    assert (A2 : attribute s2 = []) by (destruct Fa, Fb; congruence). rewrite A2. cbn [length]. alia.
  - alia.
Qed.

(* ---- P10 ---- *)

(* the only hypothesis on the lowercase oracle: on the ten raw-text element names it is ASCII lowercasing *)
Definition lower_ok (lower : str -> str) : Prop :=
  forall t, In (map ascii_lower t) raw_text_elements -> lower t = map ascii_lower t.

Lemma wf_set_raw_tag inp t tg : wf inp t -> tag_ok tg -> wf inp (set_raw_tag tg t).
Proof. intros [] H. constructor; assumption. Qed.

Ltac closer := wsplit; auto; try congruence; try alia; try (let tk := fresh "tk" in let Hk := fresh "Hk" in intros tk Hk; first [discriminate Hk | injection Hk as <-; auto]).

Lemma read_start_tag_spec lower inp s r s' : lower_ok lower -> wf inp s -> raw_start s + 2 <= raw_end s ->
  read_start_tag lower inp s = (r, s') ->
  wf inp s' /\ raw_start s' = raw_start s /\ allow_cdata s' = allow_cdata s /\ raw_end s <= raw_end s'
  /\ data_start s' <= data_end s' /\ data_end s' <= length inp
  /\ (forall tk, r = ROk tk -> tk = ErrorToken \/ tk = StartTagToken \/ tk = SelfClosingTagToken).
Proof.
  intros LO W H2 EQ. pose proof (wf_end _ _ W). unfold read_start_tag in EQ.
  mstep EQ. lazymatch type of Eh with _ = (_, ?y) => rename y into t1 end.
  apply read_tag_spec in Eh; [|exact W|alia]. destruct Eh as (W1 & F1 & L1 & D1 & D2 & D3).
  pose proof (wf_end _ _ W1) as E1. pose proof (wf_start _ _ W1) as S1. destruct F1 as [Frs Ftag Fcd Fp Fo].
  mstep EQ. mstep EQ.
  { mstep EQ. closer. }
  mstep EQ. mstep EQ. lazymatch type of Eh with _ = (?y, _) => rename y into b1 end.
  assert (Hs0 : s0 = t1).
  { mstep Eh. rewrite add_u8_ok in Eh by (apply upper_add; assumption). apply pair_equal_spec in Eh. destruct Eh; auto.
    mstep Eh. reflexivity. }
  clear Eh. subst s0.
  mstep EQ. lazymatch type of Eh with _ = (?y, ?z) => rename y into israw; rename z into t2 end.
  assert (Hraw : t2 = t1 /\ (israw = true -> In (map ascii_lower (sub inp (data_start t1) (data_end t1))) raw_text_elements)).
  { repeat (mstep Eh);
      try (apply start_tag_in_spec in Eh; [|exact W1|alia|alia]; destruct Eh as [-> Hin]; split; [reflexivity|];
           intros Ht; specialize (Hin Ht); cbn in Hin |- *; tauto).
    split; [reflexivity|discriminate]. }
  clear Eh. destruct Hraw as [-> Hraw].
  mstep EQ. lazymatch type of Eh with _ = (?y, ?z) => rename y into ok; rename z into t3 end.
  assert (H3 : wf inp t3 /\ raw_start t3 = raw_start t1 /\ allow_cdata t3 = allow_cdata t1 /\ raw_end t3 = raw_end t1
               /\ data_start t3 = data_start t1 /\ data_end t3 = data_end t1 /\ err t3 = err t1).
  { mstep Eh.
    - specialize (Hraw eq_refl). mstep Eh. mstep Eh.
      + mstep Eh. mstep Eh. wsplit; try reflexivity. apply wf_set_raw_tag; [exact W1|].
        right. unfold sub in Hraw. rewrite (LO _ Hraw). exact Hraw.
      + mstep Eh. wsplit; auto.
    - mstep Eh. wsplit; auto. }
  clear Eh. destruct H3 as (W3 & R3 & C3 & E3 & D31 & D32 & Er3).
  mstep EQ.
  { mstep EQ. closer. }
  mstep EQ. mstep EQ.
  - mstep EQ. mstep EQ. mstep EQ; mstep EQ; closer.
  - mstep EQ. closer.
Qed.

Lemma read_raw_or_cdata_spec inp s a s' : wf inp s -> read_raw_or_cdata inp s = (a, s') ->
  wf inp s' /\ raw_start s' = raw_start s /\ allow_cdata s' = allow_cdata s
  /\ data_start s' = data_start s /\ data_end s' = raw_end s' /\ attribute s' = attribute s.
Proof.
  intros W EQ. pose proof (wf_end _ _ W). pose proof (wf_start _ _ W). unfold read_raw_or_cdata in EQ.
  mstep EQ. mstep EQ.
  - apply str_eqb_spec in C. mstep EQ. apply read_script_spec in Eh; [|exact W|exact C].
    destruct Eh as (F & L1 & L2 & D1 & D2 & _). mstep EQ. mstep EQ. destruct F. destruct W.
    wsplit; scbn; auto. constructor; scbn; try congruence; try alia. left; reflexivity.
  - clear C. mstep EQ.
    eapply (loop_in_rule inp _
              (fun _ t => fr s t /\ dkeep s t /\ raw_start s <= raw_end t /\ raw_end t <= length inp)
              (fun _ t => length inp - raw_end t)
              (fun _ t => fr s t /\ dkeep s t /\ raw_start s <= raw_end t /\ raw_end t <= length inp)) in Eh.
    + destruct Eh as (F & (D1 & D2 & D3) & L1 & L2). cbv zeta in EQ. mstep EQ. mstep EQ. mstep EQ. destruct F. destruct W.
      wsplit; scbn; auto. constructor; scbn; try congruence; try alia. left; reflexivity.
    + clear Eh EQ. intros x t r t' HI Eb. norm.
      mstep Eb; mstep Eb; scbn.
      2:{ mrun Eb; fin. }
      mstep Eb. { mrun Eb; fin. }
      mstep Eb. { mrun Eb; fin. }
      mstep Eb; mstep Eb; scbn.
      2:{ mrun Eb; fin. }
      mstep Eb. { mrun Eb; fin. }
      mstep Eb. { mrun Eb; fin. }
      mstep Eb. apply read_raw_end_tag_spec in Eh; [|wfs|scbn; alia].
      destruct Eh as (F2 & D2 & L2 & Ht & Hf). mstep Eb. destruct a3; [specialize (Ht eq_refl)|specialize (Hf eq_refl)].
      * mrun Eb; fin.
      * mrun Eb; fin.
    + fin.
    + alia.
Qed.

(* ---- P11 ---- *)

(* wf without raw_start <= raw_end: next resets raw_start *)
Definition wf0 (inp : list N) (s : st) : Prop :=
  raw_end s <= length inp /\ panic s = None /\ oof s = false
  /\ Forall (attr_ok (length inp)) (attribute s) /\ tag_ok (raw_tag s) /\ length (attribute s) <= length inp.

Definition next_post (p : nat) (inp : list N) (r : result token_type) (s' : st) : Prop :=
  wf inp s' /\ raw_start s' = p
  /\ data_start s' <= data_end s' /\ data_end s' <= length inp
  /\ (forall tk, r = ROk tk -> token s' = tk)
  /\ (forall tk, r = ROk tk -> tk <> ErrorToken -> p < raw_end s').

Ltac npost := unfold next_post; wsplit; scbn; auto; try congruence; try alia;
  try (let tk := fresh "tk" in let Hk := fresh "Hk" in intros tk Hk;
       first [discriminate Hk | injection Hk as <-; scbn; first [reflexivity | congruence | intros; alia | idtac]]).

Lemma wf_upd_token inp t k : wf inp t -> wf inp (set_token k t).
Proof. intros []. constructor; assumption. Qed.
Lemma wf_upd_data_end inp t k : wf inp t -> wf inp (set_data_end k t).
Proof. intros []. constructor; assumption. Qed.
Lemma wf_upd_data_start inp t k : wf inp t -> wf inp (set_data_start k t).
Proof. intros []. constructor; assumption. Qed.
Lemma wf_upd_convert_null inp t k : wf inp t -> wf inp (set_convert_null k t).
Proof. intros []. constructor; assumption. Qed.
Lemma wf_upd_text_is_raw inp t k : wf inp t -> wf inp (set_text_is_raw k t).
Proof. intros []. constructor; assumption. Qed.
#[export] Hint Resolve wf_upd_token wf_upd_data_end wf_upd_data_start wf_upd_convert_null wf_upd_text_is_raw
  wf_set_err wf_set_raw_tag : wfdb.

Ltac wfr :=
  repeat first [ assumption | apply wf_set_err | apply wf_upd_token | apply wf_upd_data_end | apply wf_upd_data_start
               | apply wf_upd_convert_null | apply wf_upd_text_is_raw | apply wf_set_raw_end ];
  scbn; try alia.

Lemma next_spec lower inp s r s' : lower_ok lower -> wf0 inp s -> next lower inp s = (r, s') ->
  next_post (raw_end s) inp r s'.
Proof.
  intros LO (W1 & W2 & W3 & W4 & W5 & W6) EQ. unfold next in EQ.
  mstep EQ. mstep EQ. mstep EQ. scbn.
  set (p := raw_end s) in *.
  set (s0 := set_data_end p (set_data_start p (set_raw_start p s))) in *.
  assert (W0 : wf inp s0) by (constructor; subst s0 p; scbn; auto).
  assert (R0 : raw_start s0 = p /\ raw_end s0 = p /\ data_start s0 = p /\ data_end s0 = p) by (subst s0; scbn; auto).
  destruct R0 as (R01 & R02 & R03 & R04).
  clearbody s0.
  mstep EQ. mstep EQ.
  { mrun EQ. npost; auto with wfdb. }
  mstep EQ. lazymatch type of Eh with _ = (?y, ?z) => rename y into returned; rename z into t1 end.
  assert (H1 : (returned = true /\ wf inp t1 /\ raw_start t1 = p /\ data_start t1 = p /\ data_start t1 < data_end t1
                /\ data_end t1 <= raw_end t1 /\ token t1 = TextToken)
               \/ (returned = false /\ wf inp t1 /\ raw_start t1 = p /\ p <= raw_end t1
                   /\ data_start t1 = p /\ data_end t1 = p)).
  { mstep Eh.
    2:{ mstep Eh. right. wsplit; auto; alia. }
    mstep Eh. lazymatch type of Eh0 with _ = (_, ?z) => rename z into t2 end.
    assert (H2 : wf inp t2 /\ raw_start t2 = p /\ data_start t2 = p /\ data_end t2 = raw_end t2).
    { mstep Eh0.
      - mstep Eh0.
        eapply (loop_in_rule inp _
                  (fun _ t => wf inp t /\ raw_start t = p /\ data_start t = p)
                  (fun _ t => (length inp - raw_end t) + (if err t then 0 else 1))
                  (fun _ t => wf inp t /\ raw_start t = p /\ data_start t = p)) in Eh1.
        + destruct Eh1 as (Wl & Rl & Dl). cbv zeta in Eh0. mstep Eh0. mstep Eh0. wsplit; scbn; auto with wfdb.
        + clear Eh1. intros x t rr t' (Wt & Rt & Dt) Eb. pose proof (wf_end _ _ Wt). pose proof (wf_start _ _ Wt).
          mstep Eb. mstep Eb.
          * match goal with Hc : err t = false |- _ => rename Hc into Cerr end.
            mstep Eb; mstep Eb; scbn; rewrite ?Cerr.
            -- split; [wsplit; auto; apply wf_set_raw_end; auto; alia|]. alia.
            -- split; [wsplit; auto with wfdb|]. alia.
          * mstep Eb. auto.
        + auto.
        + destruct (err s0); alia.
      - apply read_raw_or_cdata_spec in Eh0; [|exact W0]. destruct Eh0 as (Wr & Rr & Cr & Dr1 & Dr2 & _).
        wsplit; auto; congruence. }
    clear Eh0. destruct H2 as (Wt2 & Rt2 & Dt21 & Dt22). pose proof (wf_end _ _ Wt2). pose proof (wf_start _ _ Wt2).
    mstep Eh. mstep Eh.
    - mstep Eh. mstep Eh. mstep Eh. left. wsplit; scbn; auto with wfdb; alia.
    - mstep Eh. right. wsplit; auto; alia. }
  clear Eh. destruct H1 as [(-> & Wt1 & Rt1 & Dt11 & Dt12 & Dt13 & Tk1) | (-> & Wt1 & Rt1 & Lt1 & Dt11 & Dt12)].
  { mstep EQ. pose proof (wf_end _ _ Wt1). pose proof (wf_start _ _ Wt1). npost. }
  cbv beta iota in EQ. mstep EQ. mstep EQ. scbn.
  set (t3 := set_convert_null false (set_text_is_raw false t1)) in *.
  assert (Wt3 : wf inp t3) by (subst t3; auto with wfdb).
  assert (Rt3 : raw_start t3 = p /\ raw_end t3 = raw_end t1 /\ data_start t3 = p /\ data_end t3 = data_end t1)
    by (subst t3; scbn; auto).
  destruct Rt3 as (Rt31 & Rt32 & Rt33 & Rt34). clearbody t3.
  mstep EQ. lazymatch type of Eh with _ = (?y, ?z) => rename y into lres; rename z into tl end.
  eapply (loop_in_rule inp _
            (fun _ t => wf inp t /\ raw_start t = p /\ data_start t = p /\ data_end t = p /\ data_end t = data_end t3)
            (fun _ t => length inp - raw_end t)
            (fun (res : option (result token_type)) t =>
               match res with
               | Some r => next_post p inp r t
               | None => wf inp t /\ raw_start t = p /\ data_start t = p /\ data_end t = p
               end)) in Eh.
  - destruct lres as [res|]; cbv beta iota in EQ, Eh.
    + mstep EQ. exact Eh.
    + destruct Eh as (Wf & Rf & Df1 & Df2). pose proof (wf_end _ _ Wf). pose proof (wf_start _ _ Wf).
      mstep EQ. mstep EQ.
      * mrun EQ. npost; auto with wfdb.
      * mrun EQ. npost; auto with wfdb.
  - clear Eh EQ. intros x t rr t' (Wt & Rt & Dt1 & Dt2 & Dt3) Eb.
    pose proof (wf_end _ _ Wt) as Et. pose proof (wf_start _ _ Wt) as St.
    mstep Eb; mstep Eb; scbn.
    2:{ mrun Eb. scbn. wsplit; auto with wfdb. }
    mstep Eb. { mrun Eb. scbn. wsplit; auto. wfr. }
    mstep Eb. { mrun Eb. scbn. split; [wsplit; auto; wfr|alia]. }
    mstep Eb; mstep Eb; scbn.
    2:{ mrun Eb. scbn. wsplit; auto. wfr. }
    mstep Eb. { mrun Eb. scbn. wsplit; auto. wfr. }
    cbv zeta in Eb.
    set (t4 := set_raw_end (S (S (raw_end t))) (set_raw_end (S (raw_end t)) t)) in *.
    assert (Wt4 : wf inp t4) by (subst t4; apply wf_set_raw_end; [wfr|scbn; alia|alia]).
    assert (Rt4 : raw_start t4 = p /\ raw_end t4 = S (S (raw_end t)) /\ data_start t4 = p /\ data_end t4 = data_end t3)
      by (subst t4; scbn; auto).
    destruct Rt4 as (Rt41 & Rt42 & Rt43 & Rt44). clearbody t4.
    match type of Eb with (match ?c with _ => _ end) _ _ = _ => destruct c as [tt0|] eqn:Ctt end.
    2:{ (* not a tag: un-read *) mstep Eb. mstep Eb. scbn.
        split; [wsplit; scbn; auto; try alia; wfr|alia]. }
    mstep Eb. mstep Eb.
    { (* text before the tag *) mrun Eb. npost. wfr. }
    destruct tt0; try (mstep Eb; exfalso; revert Ctt; repeat match goal with |- context [if ?c then _ else _] => destruct c end; discriminate).
    + (* StartTagToken *)
      mstep Eb. lazymatch type of Eh with _ = (?y, ?z) => rename y into rs; rename z into ts end.
      apply read_start_tag_spec in Eh; [|exact LO|exact Wt4|alia].
      destruct Eh as (Ws & Rs & Cs & Ls & Ds1 & Ds2 & Hs). pose proof (wf_end _ _ Ws). pose proof (wf_start _ _ Ws).
      destruct rs as [tk1|].
      * mstep Eb. mstep Eb. npost; auto with wfdb.
      * mstep Eb. npost.
    + (* EndTagToken *)
      mstep Eb; mstep Eb; scbn.
      2:{ mrun Eb. scbn. wsplit; auto; try alia. wfr. }
      mstep Eb. { mrun Eb. scbn. wsplit; auto; try alia. wfr. }
      mstep Eb. { mrun Eb. npost. wfr. }
      mstep Eb.
      * mstep Eb. apply read_tag_spec in Eh; [|apply wf_set_raw_end; [exact Wt4|alia|alia]|scbn; alia].
        destruct Eh as (Wg & Fg & Lg & Dg1 & Dg2 & Dg3). destruct Fg as [Fg1 Fg2 Fg3 Fg4 Fg5]. scbn.
        pose proof (wf_end _ _ Wg). pose proof (wf_start _ _ Wg).
        mstep Eb. mstep Eb. mstep Eh; mstep Eh; mstep Eb; mstep Eb; npost; auto with wfdb.
      * mstep Eb. mstep Eb. lazymatch type of Eh with _ = (_, ?z) => rename z into tu end.
        apply read_until_close_angle_spec in Eh; [|wfr].
        destruct Eh as (Fr & L1 & L2 & D1 & D2 & D3 & _ & _). scbn.
        assert (Wu : wf inp tu). { eapply (wf_fr inp _ tu); [|exact Fr|scbn; alia|alia]. wfr. }
        destruct Fr as [Fr1 _ _ _ _ _]. scbn. mrun Eb. npost; auto with wfdb.
    + (* CommentToken *)
      mstep Eb.
      * mstep Eb. lazymatch type of Eh with _ = (_, ?z) => rename z into tu end.
        apply read_markup_declaration_spec in Eh; [|exact Wt4].
        destruct Eh as (Fr & L1 & L2 & _ & D1 & D2).
        assert (Wu : wf inp tu). { eapply (wf_fr inp _ tu); [exact Wt4|exact Fr|alia|alia]. }
        destruct Fr as [Fr1 _ _ _ _ _]. mrun Eb. npost; auto with wfdb.
      * mstep Eb. mstep Eb. lazymatch type of Eh with _ = (_, ?z) => rename z into tu end.
        apply read_until_close_angle_spec in Eh; [|wfr].
        destruct Eh as (Fr & L1 & L2 & D1 & D2 & D3 & _ & _). scbn.
        assert (Wu : wf inp tu). { eapply (wf_fr inp _ tu); [|exact Fr|scbn; alia|alia]. wfr. }
        destruct Fr as [Fr1 _ _ _ _ _]. scbn. mrun Eb. npost; auto with wfdb.
  - wsplit; auto; alia.
  - alia.
Qed.

(* ---- P12 ---- *)

Definition data_ok (inp : list N) (s : st) : Prop := data_start s <= data_end s /\ data_end s <= length inp.

Lemma raw_ok inp s : wf inp s -> raw inp s = (sub inp (raw_start s) (raw_end s), s).
Proof. intros []. unfold raw. rewrite bind_get. apply slice_ok; assumption. Qed.
Lemma buffered_ok inp s : wf inp s -> buffered inp s = (skipn (raw_end s) inp, s).
Proof. intros []. unfold buffered. rewrite bind_get. apply slice_from_ok; assumption. Qed.

(* what the accessors keep *)
Definition acc_post (inp : list N) (s s' : st) : Prop :=
  wf inp s' /\ raw_start s' = raw_start s /\ raw_end s' = raw_end s /\ data_ok inp s' /\ token s' = token s
  /\ attribute s' = attribute s /\ number_attribute_returned s <= number_attribute_returned s'.

Lemma wf_acc inp s ds de : wf inp s -> wf inp (set_data_end de (set_data_start ds s)).
Proof. intros []. constructor; assumption. Qed.

Lemma text_spec inp s a s' : wf inp s -> data_ok inp s -> text inp s = (a, s') -> acc_post inp s s'.
Proof.
  intros W (D1 & D2) EQ. pose proof (wf_end _ _ W). unfold text in EQ. mstep EQ.
  destruct (token s) eqn:Tk; try solve [mstep EQ; unfold acc_post, data_ok; wsplit; auto];
    (mstep EQ; mstep EQ; [mstep EQ; unfold acc_post, data_ok; wsplit; auto|];
     mstep EQ; mstep EQ; mstep EQ; mstep EQ; unfold acc_post, data_ok; wsplit; scbn; auto; try alia; apply wf_acc; exact W).
Qed.

Lemma tag_name_spec lower inp s a s' : wf inp s -> data_ok inp s -> tag_name lower inp s = (a, s') -> acc_post inp s s'.
Proof.
  intros W (D1 & D2) EQ. pose proof (wf_end _ _ W). unfold tag_name in EQ. mstep EQ. mstep EQ.
  2:{ mstep EQ. unfold acc_post, data_ok. wsplit; auto. }
  destruct (token s) eqn:Tk; try solve [mstep EQ; unfold acc_post, data_ok; wsplit; auto];
    (mstep EQ; mstep EQ; [mstep EQ; unfold acc_post, data_ok; wsplit; auto|];
     mstep EQ; mstep EQ; mstep EQ; unfold acc_post, data_ok; wsplit; scbn; auto; try alia; apply wf_acc; exact W).
Qed.

Lemma wf_nar inp s k : wf inp s -> wf inp (set_number_attribute_returned k s).
Proof. intros []. constructor; assumption. Qed.

Lemma tag_attr_spec lower inp s a s' : wf inp s -> data_ok inp s -> tag_attr lower inp s = (a, s') ->
  acc_post inp s s'
  /\ (a = ROk (None, None, false) \/ number_attribute_returned s < number_attribute_returned s'
                                     /\ number_attribute_returned s' <= length (attribute s)).
Proof.
  intros W (D1 & D2) EQ. pose proof (wf_end _ _ W). unfold tag_attr in EQ. mstep EQ. mstep EQ.
  2:{ mstep EQ. unfold acc_post, data_ok. wsplit; auto. }
  assert (Hattr : forall at_, nth_error (attribute s) (number_attribute_returned s) = Some at_ -> attr_ok (length inp) at_).
  { intros at_ Hn. pose proof (wf_attrs _ _ W) as Fa. rewrite Forall_forall in Fa. apply Fa. eapply nth_error_In; eauto. }
  destruct (token s) eqn:Tk; try solve [mstep EQ; unfold acc_post, data_ok; wsplit; auto].
  all: mstep EQ;
    destruct (index_attr_ok 54 (attribute s) (number_attribute_returned s) inp s C) as (at_ & Hat & Eat);
    rewrite Eat in Eh; apply pair_equal_spec in Eh; destruct Eh as [<- <-];
    destruct (Hattr _ Hat) as ((K1 & K2) & (V1 & V2));
    mstep EQ; mstep EQ; mstep EQ;
    [ mstep EQ; split; [unfold acc_post, data_ok; wsplit; scbn; auto; try alia; apply wf_nar; exact W | right; scbn; alia] | ];
    mstep EQ; mstep EQ;
    [ mstep EQ; split; [unfold acc_post, data_ok; wsplit; scbn; auto; try alia; apply wf_nar; exact W | right; scbn; alia] | ];
    mstep EQ; mstep EQ; split; [unfold acc_post, data_ok; wsplit; scbn; auto; try alia; apply wf_nar; exact W | right; scbn; alia].
Qed.

Lemma observe_total lower ty inp s o s' : wf inp s -> data_ok inp s -> observe lower ty inp s = (o, s') ->
  wf inp s' /\ raw_start s' = raw_start s /\ raw_end s' = raw_end s.
Proof.
  intros W D EQ. unfold observe in EQ. mstep EQ. mstep EQ. rewrite (raw_ok _ _ W) in Eh. apply pair_equal_spec in Eh. destruct Eh as [<- <-].
  mstep EQ. lazymatch type of Eh with _ = (_, ?z) => rename z into t1 end.
  apply text_spec in Eh; auto. destruct Eh as (W1 & R11 & R12 & D1 & _).
  mstep EQ. lazymatch type of Eh with _ = (_, ?z) => rename z into t2 end.
  apply tag_name_spec in Eh; auto. destruct Eh as (W2 & R21 & R22 & D2 & _).
  mstep EQ. lazymatch type of Eh with _ = (_, ?z) => rename z into t3 end.
  eapply (loop_in_rule inp _
            (fun _ t => wf inp t /\ raw_start t = raw_start s /\ raw_end t = raw_end s /\ data_ok inp t
                        /\ attribute t = attribute t2)
            (fun _ t => length (attribute t2) - number_attribute_returned t)
            (fun _ t => wf inp t /\ raw_start t = raw_start s /\ raw_end t = raw_end s)) in Eh.
  - mstep EQ. exact Eh.
  - clear Eh EQ. intros acc t r t' (Wt & Rt1 & Rt2 & Dt & At) Eb.
    mstep Eb. lazymatch type of Eh with _ = (?y, ?z) => rename y into av; rename z into t4 end.
    apply tag_attr_spec in Eh; auto. destruct Eh as ((W4 & R41 & R42 & D4 & _ & A4 & _) & Hprog).
    mstep Eb.
    + mstep Eb. wsplit; auto; congruence.
    + mstep Eb. split; [wsplit; auto; congruence|].
      destruct Hprog as [->|[Hp1 Hp2]]; [discriminate C|]. rewrite At in Hp2. alia.
  - wsplit; auto; congruence.
  - pose proof (wf_nattr _ _ W2). alia.
Qed.

Definition wf0_of inp s : wf inp s -> wf0 inp s.
Proof. intros []. unfold wf0. auto 10. Qed.

Lemma tok_loop_total lower inp : lower_ok lower -> forall fuel acc s r s',
  wf0 inp s -> tok_loop lower fuel acc inp s = (r, s') ->
  (length inp - raw_end s < fuel -> wf inp s' /\ (snd r = 0%N \/ snd r = 1%N))
  /\ length (fst r) + raw_end s <= length acc + length inp.
Proof.
  intros LO. induction fuel as [|f IH]; intros acc s r s' W0 EQ; cbn [tok_loop] in EQ.
  - mstep EQ. mstep EQ. scbn. split; [intros; alia|]. rewrite rev_length. destruct W0. alia.
  - mstep EQ. lazymatch type of Eh with _ = (?y, ?z) => rename y into r1; rename z into t1 end.
    apply (next_spec lower inp s r1 t1 LO W0) in Eh. destruct Eh as (W1 & R1 & D11 & D12 & Tk & Pg).
    pose proof (wf_end _ _ W1) as E1. pose proof (wf_start _ _ W1) as S1.
    mstep EQ. rewrite (wf_panic _ _ W1), (wf_oof _ _ W1) in EQ. cbn [is_some orb] in EQ.
    destruct r1 as [ty|].
    2:{ mstep EQ. scbn. split; [intros; auto|]. rewrite rev_length. alia. }
    destruct (token_eqb ty ErrorToken) eqn:Ety.
    { mstep EQ. scbn. split; [intros; auto|]. rewrite rev_length. alia. }
    assert (Hne : ty <> ErrorToken) by (intros ->; discriminate Ety).
    specialize (Pg ty eq_refl Hne).
    mstep EQ. lazymatch type of Eh with _ = (?y, ?z) => rename y into o; rename z into t2 end.
    apply observe_total in Eh; [|exact W1|split; assumption]. destruct Eh as (W2 & R21 & R22).
    apply IH in EQ; [|apply wf0_of; exact W2]. destruct EQ as (Ha & Hb). cbn [length] in Hb.
    split; [intros Hf; apply Ha; alia|alia].
Qed.

Lemma new_fragment_wf0 lower ctx inp : wf0 inp (new_fragment lower ctx).
Proof.
  unfold new_fragment, wf0. destruct (negb (is_nil ctx)).
  - destruct (mem_str (lower ctx) raw_text_elements) eqn:M; scbn; cbn; wsplit; auto; try alia; try (left; reflexivity).
    right. apply mem_str_In. exact M.
  - cbn. wsplit; auto; try alia. left; reflexivity.
Qed.

(* T2: with fuel length b + 1 the driver never panics and never runs out of fuel, for every input, context tag and
   lowercase oracle that is ASCII lowercasing on the ten raw-text element names *)
Lemma total : forall (lower : str -> str) (ctx : str) (fuel : nat) (b : str),
  lower_ok lower -> length b + 1 <= fuel -> exists r, tokenize_all lower ctx fuel b = Ok r.
Proof.
  intros lower ctx fuel b LO Hf. unfold tokenize_all, run_outcome.
  match goal with |- context [?m b (new_fragment lower ctx)] => destruct (m b (new_fragment lower ctx)) as [res sf] eqn:EQ end.
  mstep EQ. lazymatch type of Eh with _ = (?y, ?z) => rename y into r1; rename z into t1 end.
  pose proof (new_fragment_wf0 lower ctx b) as W0.
  destruct (tok_loop_total lower b LO fuel [] _ r1 t1 W0 Eh) as (Ha & _).
  rewrite new_fragment_raw_end in Ha. destruct Ha as (W1 & _); [alia|].
  mstep EQ. mstep EQ. rewrite (raw_ok _ _ W1) in Eh0. apply pair_equal_spec in Eh0. destruct Eh0 as [<- <-].
  mstep EQ. rewrite (buffered_ok _ _ W1) in Eh0. apply pair_equal_spec in Eh0. destruct Eh0 as [<- <-].
  mstep EQ. rewrite (wf_panic _ _ W1), (wf_oof _ _ W1). eexists. reflexivity.
Qed.

(* T3: at most one token per input byte (the ErrorToken is not in the list) *)
Lemma count : forall (lower : str -> str) (ctx : str) (fuel : nat) (b : str) toks fin,
  lower_ok lower -> tokenize_all lower ctx fuel b = Ok (toks, fin) -> length toks <= length b.
Proof.
  intros lower ctx fuel b toks fin LO H. unfold tokenize_all, run_outcome in H.
  match type of H with context [?m b (new_fragment lower ctx)] => destruct (m b (new_fragment lower ctx)) as [res sf] eqn:EQ end.
  mstep EQ. lazymatch type of Eh with _ = (?y, ?z) => rename y into r1; rename z into t1 end.
  pose proof (new_fragment_wf0 lower ctx b) as W0.
  destruct (tok_loop_total lower b LO fuel [] _ r1 t1 W0 Eh) as (_ & Hb).
  rewrite new_fragment_raw_end in Hb. cbn [length] in Hb.
  mstep EQ. mstep EQ. mstep EQ. mstep EQ.
  repeat match type of H with context [match ?c with _ => _ end] => destruct c end; try discriminate.
  injection H as <- _. alia.
Qed.


(* ================= part 5: C16_accessors - UTF-8 cutting lemma; every span end is adjacent to an ASCII byte *)
(* ---- U1 ---- *)

(* ============================================================ UTF-8: cutting next to an ASCII byte *)
(* position p of b is adjacent to an ASCII byte, or is one of the two ends *)
Definition bnd (b : list N) (p : nat) : Prop :=
  p = 0 \/ length b <= p
  \/ (exists c, nth_error b p = Some c /\ (c < 128)%N)
  \/ (exists c, nth_error b (p - 1) = Some c /\ (c < 128)%N /\ 1 <= p).

Lemma bnd_shift a t p : bnd (a :: t) (S p) -> bnd t p.
Proof.
  intros H. destruct p as [|p]; [left; reflexivity|].
  destruct H as [H|[H|[(c & H1 & H2)|(c & H1 & H2 & H3)]]].
  - discriminate.
  - right; left. cbn [length] in H. lia.
  - right; right; left. exists c. cbn [nth_error] in H1. auto.
  - right; right; right. exists c. cbn [Nat.sub nth_error] in *. rewrite Nat.sub_0_r in *. repeat split; auto. lia.
Qed.

Lemma bnd_inside b0 b1 t : bnd (b0 :: b1 :: t) 1 -> (128 <= b0)%N -> (128 <= b1)%N -> False.
Proof.
  intros [H|[H|[(c & H1 & H2)|(c & H1 & H2 & H3)]]] G0 G1.
  - discriminate.
  - cbn [length] in H. lia.
  - cbn in H1. injection H1 as <-. lia.
  - cbn in H1. injection H1 as <-. lia.
Qed.

Lemma in_range_ge lo hi c : in_range lo hi c = true -> (lo <= c)%N /\ (c <= hi)%N.
Proof. unfold in_range. intros H. apply andb_prop in H. destruct H as [H1 H2]. apply N.leb_le in H1. apply N.leb_le in H2. auto. Qed.
Lemma cont_ge c : utf8_cont c = true -> (128 <= c)%N.
Proof. unfold utf8_cont. intros H. apply in_range_ge in H. lia. Qed.

(* the second byte of a 3- or 4-byte sequence is >= 128 in every case *)
Lemma second3_ge b0 b1 : (if is b0 224 then in_range 160 191 b1 else if is b0 237 then in_range 128 159 b1 else utf8_cont b1) = true -> (128 <= b1)%N.
Proof. destruct (is b0 224); [|destruct (is b0 237)]; intros H; [apply in_range_ge in H|apply in_range_ge in H|apply cont_ge in H]; lia. Qed.
Lemma second4_ge b0 b1 : (if is b0 240 then in_range 144 191 b1 else if is b0 244 then in_range 128 143 b1 else utf8_cont b1) = true -> (128 <= b1)%N.
Proof. destruct (is b0 240); [|destruct (is b0 244)]; intros H; [apply in_range_ge in H|apply in_range_ge in H|apply cont_ge in H]; lia. Qed.

Lemma utf8_valid_unfold b0 t0 : utf8_valid (b0 :: t0) =
      if N.ltb b0 128 then utf8_valid t0
      else if in_range 194 223 b0 then
        match t0 with
        | b1 :: t1 => utf8_cont b1 && utf8_valid t1
        | _ => false
        end
      else if in_range 224 239 b0 then
        match t0 with
        | b1 :: b2 :: t2 =>
            (if is b0 224 then in_range 160 191 b1
             else if is b0 237 then in_range 128 159 b1
             else utf8_cont b1)
            && utf8_cont b2 && utf8_valid t2
        | _ => false
        end
      else if in_range 240 244 b0 then
        match t0 with
        | b1 :: b2 :: b3 :: t3 =>
            (if is b0 240 then in_range 144 191 b1
             else if is b0 244 then in_range 128 143 b1
             else utf8_cont b1)
            && utf8_cont b2 && utf8_cont b3 && utf8_valid t3
        | _ => false
        end
      else false.
Proof. reflexivity. Qed.

(* a valid prefix can be dropped *)
Lemma utf8_valid_app : forall l1 l2, utf8_valid l1 = true -> utf8_valid (l1 ++ l2) = utf8_valid l2.
Proof.
  intros l1. remember (length l1) as n eqn:Hn. revert l1 Hn.
  induction n as [n IH] using lt_wf_ind. intros l1 Hn l2 H.
  destruct l1 as [|b0 t0]; [reflexivity|].
  cbn [app]. rewrite utf8_valid_unfold in H. rewrite utf8_valid_unfold.
  destruct (N.ltb b0 128).
  { apply (IH (length t0)); [subst; cbn; lia|reflexivity|exact H]. }
  destruct (in_range 194 223 b0).
  { destruct t0 as [|b1 t1]; [discriminate|]. cbn [app]. apply andb_prop in H. destruct H as [H1 H2]. rewrite H1. cbn [andb].
    apply (IH (length t1)); [subst; cbn; lia|reflexivity|exact H2]. }
  destruct (in_range 224 239 b0).
  { destruct t0 as [|b1 [|b2 t2]]; try discriminate. cbn [app].
    apply andb_prop in H. destruct H as [H12 H3]. rewrite H12. cbn [andb].
    apply (IH (length t2)); [subst; cbn; lia|reflexivity|exact H3]. }
  destruct (in_range 240 244 b0); [|discriminate].
  destruct t0 as [|b1 [|b2 [|b3 t3]]]; try discriminate. cbn [app].
  apply andb_prop in H. destruct H as [H123 H4]. rewrite H123. cbn [andb].
  apply (IH (length t3)); [subst; cbn; lia|reflexivity|exact H4].
Qed.

(* the prefix up to a position adjacent to an ASCII byte is valid *)
Lemma utf8_valid_firstn : forall b p, utf8_valid b = true -> bnd b p -> utf8_valid (firstn p b) = true.
Proof.
  intros b. remember (length b) as n eqn:Hn. revert b Hn.
  induction n as [n IH] using lt_wf_ind. intros b Hn p H B.
  destruct p as [|p]; [reflexivity|].
  destruct b as [|b0 t0]; [reflexivity|].
  cbn [firstn]. rewrite utf8_valid_unfold in H. rewrite utf8_valid_unfold.
  destruct (N.ltb b0 128) eqn:E0.
  { apply (IH (length t0)); [subst; cbn; lia|reflexivity|exact H|]. eapply bnd_shift; eauto. }
  apply N.ltb_ge in E0.
  destruct (in_range 194 223 b0).
  { destruct t0 as [|b1 t1]; [discriminate|]. apply andb_prop in H. destruct H as [H1 H2].
    destruct p as [|p]; [exfalso; eapply bnd_inside; eauto using cont_ge|].
    cbn [firstn]. rewrite H1. cbn [andb].
    apply (IH (length t1)); [subst; cbn; lia|reflexivity|exact H2|]. eauto using bnd_shift. }
  destruct (in_range 224 239 b0).
  { destruct t0 as [|b1 [|b2 t2]]; try discriminate.
    apply andb_prop in H. destruct H as [H12 H3]. apply andb_prop in H12. destruct H12 as [H1 H2].
    pose proof (second3_ge _ _ H1) as G1. pose proof (cont_ge _ H2) as G2.
    destruct p as [|p]; [exfalso; eapply bnd_inside; eauto|].
    destruct p as [|p]; [exfalso; apply bnd_shift in B; eapply bnd_inside; eauto|].
    cbn [firstn]. rewrite H1, H2. cbn [andb].
    apply (IH (length t2)); [subst; cbn; lia|reflexivity|exact H3|]. eauto using bnd_shift. }
  destruct (in_range 240 244 b0); [|discriminate].
  destruct t0 as [|b1 [|b2 [|b3 t3]]]; try discriminate.
  apply andb_prop in H. destruct H as [H123 H4]. apply andb_prop in H123. destruct H123 as [H12 H3].
  apply andb_prop in H12. destruct H12 as [H1 H2].
  pose proof (second4_ge _ _ H1) as G1. pose proof (cont_ge _ H2) as G2. pose proof (cont_ge _ H3) as G3.
  destruct p as [|p]; [exfalso; eapply bnd_inside; eauto|].
  destruct p as [|p]; [exfalso; apply bnd_shift in B; eapply bnd_inside; eauto|].
  destruct p as [|p]; [exfalso; apply bnd_shift in B; apply bnd_shift in B; eapply bnd_inside; eauto|].
  cbn [firstn]. rewrite H1, H2, H3. cbn [andb].
  apply (IH (length t3)); [subst; cbn; lia|reflexivity|exact H4|]. eauto using bnd_shift.
Qed.

Lemma utf8_valid_skipn b p : utf8_valid b = true -> bnd b p -> utf8_valid (skipn p b) = true.
Proof.
  intros H B. rewrite <- (utf8_valid_app (firstn p b) (skipn p b)).
  - rewrite firstn_skipn. exact H.
  - apply utf8_valid_firstn; assumption.
Qed.

Lemma bnd_skipn : forall p b q, bnd b q -> p <= q -> bnd (skipn p b) (q - p).
Proof.
  induction p as [|p IH]; intros b q B L.
  - rewrite Nat.sub_0_r. exact B.
  - destruct q as [|q]; [lia|]. destruct b as [|a t].
    + cbn [skipn]. right; left. cbn. lia.
    + cbn [skipn Nat.sub]. apply IH; [|lia]. eapply bnd_shift; eauto.
Qed.

(* Key lemma of T4: cutting valid UTF-8 at two positions that are adjacent to ASCII bytes (or ends of the string)
   leaves a valid piece *)
Lemma utf8_valid_sub b p q : utf8_valid b = true -> bnd b p -> bnd b q -> p <= q -> utf8_valid (sub b p q) = true.
Proof.
  intros H Bp Bq L. unfold sub. apply utf8_valid_firstn.
  - apply utf8_valid_skipn; assumption.
  - apply bnd_skipn; assumption.
Qed.

(* ---- B1 ---- *)

(* ================================================= second pass: every span end is adjacent to an ASCII byte *)
Definition Gi (inp : list N) (s : st) : Prop :=
  bnd inp (raw_end s) /\ (err s = true -> length inp <= raw_end s).

Lemma is_lt128 c k : is c k = true -> (k < 128)%N -> (c < 128)%N.
Proof. intros H K. apply is_eq in H. subst. exact K. Qed.
Lemma ws_lt128 c : is_ws c = true -> (c < 128)%N.
Proof.
  unfold is_ws. intros H. repeat (apply orb_prop in H; destruct H as [H|H]); apply is_eq in H; subst; reflexivity.
Qed.
Lemma alpha_lt128 c : is_ascii_alphabetic c = true -> (c < 128)%N.
Proof.
  unfold is_ascii_alphabetic, is_ascii_uppercase, is_ascii_lowercase. intros H.
  apply orb_prop in H. destruct H as [H|H]; apply andb_prop in H; destruct H as [H1 H2]; apply N.leb_le in H2; lia.
Qed.

(* c < 128 from what the tokenizer tested about c *)
Ltac ascii :=
  match goal with
  | |- (?c < 128)%N =>
      first [ assumption
            | reflexivity
            | match goal with H : is_ws c = true |- _ => exact (ws_lt128 c H) end
            | match goal with H : is_ascii_alphabetic c = true |- _ => exact (alpha_lt128 c H) end
            | match goal with H : is c ?k = true |- _ => exact (is_lt128 c k H eq_refl) end
            | match goal with H : _ || _ = true |- _ =>
                repeat (apply orb_prop in H; destruct H as [H|H]);
                first [exact (ws_lt128 c H) | exact (alpha_lt128 c H) | eapply is_lt128; [exact H|reflexivity]] end ]
  end.

Ltac bnds :=
  match goal with
  | |- bnd ?inp ?p =>
      first [ assumption
            | match goal with H : bnd inp ?q |- _ => replace p with q by alia; exact H end
            | solve [right; left; alia]
            | solve [left; alia]
            | match goal with H : nth_error inp ?q = Some ?c |- _ =>
                solve [right; right; left; exists c; split; [replace p with q by alia; exact H | ascii]] end
            | match goal with H : nth_error inp ?q = Some ?c |- _ =>
                solve [right; right; right; exists c; split; [replace (p - 1) with q by alia; exact H | split; [ascii | alia]]] end ]
  end.

Ltac gnorm :=
  norm; unfold Gi in *; norm;
  repeat match goal with H : ?a = ?b -> _, H' : ?a = ?b |- _ => specialize (H H') end.
Ltac gfin :=
  gnorm;
  repeat (first [ match goal with |- _ /\ _ => split end | progress intros ]); scbn; gnorm; scbn;
  first [ congruence | bnds | fin1 | idtac ].

Lemma skip_white_space_bnd inp s a s' : wf inp s -> Gi inp s -> skip_white_space inp s = (a, s') -> Gi inp s'.
Proof.
  intros W G EQ. pose proof (wf_end _ _ W). unfold skip_white_space in EQ. mstep EQ. mstep EQ.
  { mstep EQ. exact G. }
  mstep EQ. mstep EQ.
  eapply (loop_in_rule inp _
            (fun _ s2 => raw_end s2 <= length inp /\ Gi inp s2)
            (fun _ s2 => length inp - raw_end s2)
            (fun _ s2 => Gi inp s2)) in Eh.
  - exact Eh.
  - clear Eh. intros x s2 r s2' HI Eb. norm. mrun Eb; gfin.
  - auto.
  - alia.
Qed.

Definition Ei (inp : list N) (s : st) : Prop := err s = true -> length inp <= raw_end s.

Lemma read_raw_end_tag_ei inp s a s' : wf inp s -> raw_start s + 2 <= raw_end s -> Ei inp s ->
  read_raw_end_tag inp s = (a, s') -> Ei inp s'.
Proof.
  intros W H2 G EQ. pose proof (wf_end _ _ W). unfold Ei in *. unfold read_raw_end_tag in EQ. mstep EQ. mstep EQ.
  eapply (for_range_rule inp _
            (fun i s2 => raw_tag s2 = raw_tag s /\ raw_end s2 = raw_end s + i /\ raw_end s2 <= length inp
                         /\ (err s2 = true -> length inp <= raw_end s2))
            (fun b s2 => b = false /\ (err s2 = true -> length inp <= raw_end s2))) in Eh.
  2:{ clear Eh EQ. intros i s2 r s2' _ Hi (Ht & L1 & L2 & G2) Eb. cbn [Nat.add] in Hi.
      mstep Eb; mstep Eb; cbn [err set_raw_end set_err] in Eb.
      - mstep Eb. { mstep Eb. gfin. }
        mstep Eb. cbn [raw_tag set_raw_end] in Eh.
        destruct (index_of_ok 6 (raw_tag s2) i inp (set_raw_end (S (raw_end s2)) s2)) as (c & Hc & Ec); [rewrite Ht; exact Hi|].
        rewrite Ec in Eh. apply pair_equal_spec in Eh. destruct Eh as [<- <-].
        assert (Hlo : (97 <= c)%N) by (eapply tag_byte; [|exact Hc]; rewrite Ht; apply W).
        mstep Eb.
        { mstep Eb. gfin. }
        mstep Eb. cbn [raw_tag set_raw_end] in Eh. rewrite Ec in Eh. apply pair_equal_spec in Eh. destruct Eh as [<- <-].
        mstep Eb. rewrite sub_u8_ok in Eh by lia. apply pair_equal_spec in Eh. destruct Eh as [<- <-].
        mstep Eb.
        { mstep Eb. gfin. }
        mstep Eb. mstep Eb. gfin.
      - mstep Eb. gfin. }
  2:{ wsplit; auto; alia. }
  destruct a0 as [b|].
  - destruct Eh as (-> & G2). mstep EQ. exact G2.
  - destruct Eh as (Ht & L1 & L2 & G2). rewrite Nat.add_0_l in *.
    mstep EQ; mstep EQ; cbn [err set_raw_end set_err] in EQ.
    + mstep EQ. { mstep EQ. gfin. }
      mstep EQ.
      * mstep EQ. cbn [raw_end raw_tag set_raw_end] in Eh. rewrite Ht in Eh.
        rewrite dec_raw_end_ok in Eh by (pcbn; lia). apply pair_equal_spec in Eh. destruct Eh as [<- <-].
        mstep EQ. gfin.
      * mstep EQ. mstep EQ. gfin.
    + mstep EQ. gfin.
Qed.

(* ---- B2 ---- *)

Definition ptrue (inp : list N) (s : st) : Prop := True.
Definition pnoerr (inp : list N) (s : st) : Prop := err s = false.
Definition plt (k : nat) (inp : list N) (s : st) : Prop := nth_error inp (raw_end s - k) = Some LT.

(* the script states may stop anywhere inside the body only at EOF; an end tag stops them at its '<' *)
Definition bspec (X : nat -> M unit) (k c : nat) (P : list N -> st -> Prop) (f : nat) : Prop :=
  forall inp s a s', wf inp s -> raw_tag s = s_script -> raw_start s + k <= raw_end s ->
    3 * (length inp - raw_end s) + c <= f -> Ei inp s -> P inp s -> X f inp s = (a, s') -> Gi inp s'.

Definition bspec_all (f : nat) : Prop :=
  bspec read_script_data 0 1 ptrue f /\ bspec read_script_data_less_than_sign 1 3 (plt 1) f
  /\ bspec read_script_data_end_tag_open 2 2 (plt 2) f /\ bspec read_script_data_escape_start 2 2 ptrue f
  /\ bspec read_script_data_escape_start_dash 3 2 ptrue f /\ bspec read_script_data_escaped 0 1 ptrue f
  /\ bspec read_script_data_escaped_dash 0 1 ptrue f /\ bspec read_script_data_escaped_dash_dash 0 1 ptrue f
  /\ bspec read_script_data_escaped_less_than_sign 1 3 (plt 1) f /\ bspec read_script_data_escaped_end_tag_open 2 2 (plt 2) f
  /\ bspec read_script_data_double_escape_start 2 5 pnoerr f /\ bspec read_script_data_double_escaped 0 1 ptrue f
  /\ bspec read_script_data_double_escaped_dash 0 1 ptrue f /\ bspec read_script_data_double_escaped_dash_dash 0 1 ptrue f
  /\ bspec read_script_data_double_escaped_less_than_sign 1 3 (plt 1) f /\ bspec read_script_data_double_escaped_end 2 2 (plt 2) f.

Ltac egfin := unfold Ei, ptrue, plt, pnoerr in *; gfin.

(* side conditions of a recursive call *)
Ltac pside :=
  unfold ptrue, plt, pnoerr, Ei, Gi in *;
  first [ exact I
        | solve [scbn; assumption]
        | solve [side]
        | solve [gfin]
        | solve [scbn;
                 match goal with
                 | |- nth_error ?inp ?p = Some ?k =>
                     match goal with H : nth_error inp ?q = Some ?c, C : is ?c k = true |- _ =>
                       replace p with q by alia; rewrite H; f_equal; apply is_eq; exact C end
                 end] ].

Ltac brec_leaf EQ :=
  match goal with
  | H : bspec ?X _ _ _ ?f |- _ =>
      match type of EQ with X f _ _ = _ => eapply H in EQ; [ | pside .. ] end
  end.

Ltac end_tag_step2 EQ :=
  let F := fresh "F" in let D := fresh "D" in let L := fresh "L" in let Ht := fresh "Ht" in let Hf := fresh "Hf" in
  let Be := fresh "Be" in
  match goal with Eh : read_raw_end_tag _ _ = (?b, _) |- _ =>
    let Eh2 := fresh "Eh2" in pose proof Eh as Eh2;
    apply read_raw_end_tag_spec in Eh; [ | side | side ]; destruct Eh as (F & D & L & Ht & Hf);
    apply read_raw_end_tag_ei in Eh2; [ | side | side | assumption ]; rename Eh2 into Be;
    destruct b; [specialize (Ht eq_refl); clear Hf | specialize (Hf eq_refl); clear Ht]
  end.

Lemma bspec_step f : bspec_all f -> bspec_all (S f).
Proof.
  intros (H1 & H2 & H3 & H4 & H5 & H6 & H7 & H8 & H9 & H10 & H11 & H12 & H13 & H14 & H15 & H16).
  unfold bspec_all. repeat match goal with |- _ /\ _ => split end.
  all: intros inp s a s' W T K Fu G P EQ; pose proof (wf_end _ _ W); pose proof (wf_start _ _ W); script_unfold_in EQ.
  1,2,4,5,6,7,8,9,12,13,14,15: (mrun EQ; try (brec_leaf EQ); try exact EQ; egfin).
  - (* end_tag_open *) mstep EQ. end_tag_step2 EQ; mrun EQ; try (brec_leaf EQ); try exact EQ; egfin.
  - (* escaped_end_tag_open *) mstep EQ. end_tag_step2 EQ; mrun EQ; try (brec_leaf EQ); try exact EQ; egfin.
  - (* double_escape_start *)
    mstep EQ. mstep EQ.
    eapply (for_range_rule inp _
              (fun i s2 => fr s s2 /\ raw_end s2 + 1 = raw_end s + i /\ raw_end s2 <= length inp /\ Ei inp s2)
              (fun (b : bool) s2 => fr s s2 /\ raw_end s <= raw_end s2 + 1 /\ raw_end s2 <= length inp /\ Ei inp s2
                                    /\ (b = true -> Gi inp s2))) in Eh.
    2:{ clear Eh EQ. intros i s2 r s2' _ Hi (F & L1 & L2 & G2) Eb. cbn [Nat.add length s_script] in Hi.
        mrun Eb; egfin. }
    2:{ egfin. }
    destruct a0 as [[|]|]; cbv beta iota in EQ.
    + mrun EQ. egfin.
    + destruct Eh as (F & L1 & L2 & G2 & _). brec_leaf EQ. exact EQ.
    + cbn [length s_script Nat.add] in Eh. mrun EQ; try (brec_leaf EQ); try exact EQ; egfin.
  - (* double_escaped_end *)
    mstep EQ. end_tag_step2 EQ.
    + rewrite T in Ht. cbn [length s_script] in Ht.
      mrun EQ; try (brec_leaf EQ); try exact EQ; egfin.
    + mrun EQ; try (brec_leaf EQ); try exact EQ; egfin.
Qed.

(* ---- B3 ---- *)

Lemma bspec_all_holds : forall f, bspec_all f.
Proof.
  induction f as [|f IH]; [|apply bspec_step; exact IH].
  unfold bspec_all. repeat match goal with |- _ /\ _ => split end; intros inp s a s' W T K Fu G P EQ; exfalso; lia.
Qed.

Lemma read_script_bnd inp s a s' : wf inp s -> raw_tag s = s_script -> Ei inp s -> read_script inp s = (a, s') -> Gi inp s'.
Proof.
  intros W T G EQ. pose proof (wf_end _ _ W). pose proof (wf_start _ _ W).
  unfold read_script in EQ. mstep EQ. unfold script_fuel in Eh. mstep Eh. mstep Eh.
  mstep EQ. apply (proj1 (bspec_all_holds _)) in Eh; [|side|exact T|alia|alia|exact G|exact I]. mstep EQ. egfin.
Qed.

Lemma read_raw_or_cdata_bnd inp s a s' : wf inp s -> Ei inp s -> read_raw_or_cdata inp s = (a, s') -> Gi inp s'.
Proof.
  intros W G EQ. pose proof (wf_end _ _ W). pose proof (wf_start _ _ W). unfold read_raw_or_cdata in EQ.
  mstep EQ. mstep EQ.
  - apply str_eqb_spec in C. mstep EQ. apply read_script_bnd in Eh; auto. mrun EQ. egfin.
  - clear C. mstep EQ.
    eapply (loop_in_rule inp _
              (fun _ t => fr s t /\ raw_start s <= raw_end t /\ raw_end t <= length inp /\ Ei inp t)
              (fun _ t => length inp - raw_end t)
              (fun _ t => Gi inp t)) in Eh.
    + cbv zeta in EQ. mrun EQ. egfin.
    + clear Eh EQ. intros x t r t' HI Eb. unfold Ei in *. norm.
      mstep Eb; mstep Eb; scbn.
      2:{ mrun Eb; egfin. }
      mstep Eb. { mrun Eb; egfin. }
      mstep Eb. { mrun Eb; egfin. }
      mstep Eb; mstep Eb; scbn.
      2:{ mrun Eb; egfin. }
      mstep Eb. { mrun Eb; egfin. }
      mstep Eb. { mrun Eb; egfin. }
      mstep Eb. pose proof Eh as Eh2.
      apply read_raw_end_tag_spec in Eh; [|wfs|scbn; alia].
      apply read_raw_end_tag_ei in Eh2; [|wfs|scbn; alia|unfold Ei; scbn; congruence].
      destruct Eh as (F2 & D2 & L2 & Ht & Hf). mstep Eb.
      lazymatch type of Ht with ?b = true -> _ => destruct b; [specialize (Ht eq_refl)|specialize (Hf eq_refl)] end.
      * mrun Eb; egfin.
      * mrun Eb; egfin.
    + egfin.
    + alia.
Qed.

Lemma read_until_close_angle_bnd inp s a s' : wf inp s -> Gi inp s -> read_until_close_angle inp s = (a, s') ->
  Gi inp s' /\ bnd inp (data_start s') /\ bnd inp (data_end s').
Proof.
  intros W G EQ. pose proof (wf_end _ _ W). unfold read_until_close_angle in EQ. mstep EQ. mstep EQ. mstep EQ.
  eapply (loop_in_rule inp _
            (fun _ s2 => raw_end s2 <= length inp /\ Ei inp s2 /\ data_start s2 = raw_end s)
            (fun _ s2 => length inp - raw_end s2)
            (fun _ s2 => Gi inp s2 /\ bnd inp (data_start s2) /\ bnd inp (data_end s2))) in Eh.
  - exact Eh.
  - clear Eh. intros x s2 r s2' HI Eb. unfold Ei in *. norm. mrun Eb; egfin.
  - egfin.
  - scbn. alia.
Qed.

(* ---- B4 ---- *)

(* the last dc bytes before position q (as far as they lie after ds) are dashes *)
Definition dashes (inp : list N) (ds q dc : nat) : Prop :=
  forall j, j < dc -> ds + j < q -> nth_error inp (q - 1 - j) = Some DASH.

Lemma dashes_0 inp ds q : dashes inp ds q 0.
Proof. intros j Hj. lia. Qed.
Lemma dashes_S inp ds q dc : dashes inp ds q dc -> nth_error inp q = Some DASH -> dashes inp ds (S q) (dc + 1).
Proof.
  intros D Hq j Hj Hl. destruct j as [|j].
  - replace (S q - 1 - 0) with q by lia. exact Hq.
  - replace (S q - 1 - S j) with (q - 1 - j) by lia. apply D; lia.
Qed.
(* a data end k bytes before q, inside the run of dashes: before ds (it will be clamped) or at a dash *)
Lemma dashes_bnd inp ds q dc k : dashes inp ds q dc -> 1 <= k -> k <= dc -> k <= q -> q - k < ds \/ bnd inp (q - k).
Proof.
  intros D K1 K2 K3. destruct (lt_dec (ds + (k - 1)) q) as [Hl|Hl].
  - right. right; right; left. exists DASH. split; [|reflexivity].
    replace (q - k) with (q - 1 - (k - 1)) by lia. apply D; lia.
  - left. lia.
Qed.

Lemma read_comment_bnd inp s a s' : wf inp s -> 2 <= raw_end s -> Gi inp s -> read_comment inp s = (a, s') ->
  Gi inp s' /\ bnd inp (data_start s') /\ bnd inp (data_end s').
Proof.
  intros W H2 G EQ. pose proof (wf_end _ _ W). unfold read_comment in EQ. mstep EQ. mstep EQ.
  eapply (loop_in_rule inp _
            (fun (dc : nat) s2 => raw_end s <= raw_end s2 /\ raw_end s2 <= length inp /\ Ei inp s2 /\ data_start s2 = raw_end s
                                  /\ dashes inp (raw_end s) (raw_end s2) dc)
            (fun _ s2 => length inp - raw_end s2)
            (fun _ s2 => Gi inp s2 /\ data_start s2 = raw_end s /\ (data_end s2 < raw_end s \/ bnd inp (data_end s2)))) in Eh.
  - cbv zeta in EQ. destruct Eh as (G2 & D2 & [Hd|Hd]); mrun EQ; unfold Gi in *; norm; scbn; wsplit; auto; try congruence;
      try (rewrite D2; assumption); try alia.
  - clear Eh EQ. intros dc s2 r s2' HI Eb. unfold Ei in *. destruct HI as (L1 & L2 & E2 & D2 & DS).
    mstep Eb; mstep Eb; scbn.
    + (* byte read *)
      mstep Eb.
      { (* err set although the read succeeded: excluded by the invariant *) exfalso. first [specialize (E2 C)|specialize (E2 eq_refl)]. alia. }
      mstep Eb.
      { mstep Eb. apply is_eq in C0. subst. scbn. split; [wsplit; auto; try alia; try congruence|alia].
        apply dashes_S; assumption. }
      mstep Eb.
      { mstep Eb.
        - mrun Eb. scbn. unfold Gi. wsplit; scbn; auto; try congruence; try bnds.
          replace (S (raw_end s2) - 3) with (raw_end s2 - 2) by alia. apply (dashes_bnd inp _ _ dc 2); auto; alia.
        - mstep Eb. scbn. split; [wsplit; auto; try alia; try congruence; apply dashes_0|alia]. }
      mstep Eb.
      { mstep Eb.
        - mstep Eb; mstep Eb; scbn.
          + mstep Eb. { exfalso. congruence. }
            mstep Eb.
            * mrun Eb. scbn. unfold Gi. wsplit; scbn; auto; try congruence; try bnds.
              replace (S (S (raw_end s2)) - 4) with (raw_end s2 - 2) by alia. apply (dashes_bnd inp _ _ dc 2); auto; alia.
            * mstep Eb. scbn. split; [wsplit; auto; try alia; try congruence; apply dashes_0|alia].
          + mrun Eb. scbn. unfold Gi. wsplit; scbn; auto; try congruence; try bnds; try alia. right. bnds.
        - mstep Eb. scbn. split; [wsplit; auto; try alia; try congruence; apply dashes_0|alia]. }
      mstep Eb. scbn. split; [wsplit; auto; try alia; try congruence; apply dashes_0|alia].
    + (* EOF *)
      cbv zeta in Eb. destruct (2 <? dc) eqn:Hdc; [apply Nat.ltb_lt in Hdc | apply Nat.ltb_ge in Hdc]; cbv beta iota in Eb; mrun Eb;
        scbn; unfold Gi; wsplit; scbn; auto; try congruence; try bnds; try alia.
      * apply (dashes_bnd inp _ _ dc 2); auto; alia.
      * destruct dc as [|dc]. { right. rewrite Nat.sub_0_r. bnds. }
        apply (dashes_bnd inp _ _ (S dc) (S dc)); auto; alia.
  - destruct G as [G1 G2]. wsplit; auto; try alia. intros j Hj Hl. scbn. lia.
  - scbn. alia.
Qed.

(* ---- B5 ---- *)

Lemma doctype_byte_lo i c : nth_error s_DOCTYPE i = Some c -> (c + 32 < 128)%N.
Proof.
  intros E. assert (B : forallb (fun c => N.ltb (c + 32) 128) s_DOCTYPE = true) by reflexivity.
  rewrite forallb_forall in B. apply N.ltb_lt. apply B. eapply nth_error_In; eauto.
Qed.
Lemma cdata_byte_lo i c : nth_error s_CDATA i = Some c -> (c < 128)%N.
Proof.
  intros E. assert (B : forallb (fun c => N.ltb c 128) s_CDATA = true) by reflexivity.
  rewrite forallb_forall in B. apply N.ltb_lt. apply B. eapply nth_error_In; eauto.
Qed.

Lemma read_doc_type_bnd inp s a s' : wf inp s -> raw_start s <= data_start s -> data_start s <= raw_end s ->
  Ei inp s -> bnd inp (data_start s) -> bnd inp (raw_end s) ->
  read_doc_type inp s = (a, s') ->
  Gi inp s' /\ (a = true -> bnd inp (data_start s') /\ bnd inp (data_end s')).
Proof.
  intros W D1 D2 E Bd Br EQ. pose proof (wf_end _ _ W). pose proof (wf_start _ _ W). unfold read_doc_type in EQ. mstep EQ.
  eapply (for_range_rule inp _
            (fun i s2 => fr s s2 /\ raw_end s <= raw_end s2 /\ raw_end s2 <= length inp /\ data_start s2 = data_start s
                         /\ Gi inp s2)
            (fun (b : bool) s2 => b = false /\ Gi inp s2)) in Eh.
  2:{ clear Eh EQ. intros i s2 r s2' _ Hi HI Eb. unfold Gi, Ei in *. norm. cbn [length s_DOCTYPE Nat.add] in Hi.
      mstep Eb; mstep Eb; scbn.
      - mstep Eb. { mrun Eb; egfin. }
        mstep Eb. mstep Eb.
        { mrun Eb. pose proof (doctype_byte_lo _ _ Hc) as Hlo. apply is_eq in C0.
          match type of C0 with ?x = _ => assert (x < 128)%N by (rewrite C0; lia) end. egfin. }
        mstep Eb. mstep Eb. rewrite add_u8_ok in Eh by (eapply doctype_byte; eassumption).
        apply pair_equal_spec in Eh; destruct Eh as [<- <-]. mstep Eb.
        { mrun Eb. apply is_eq in C1.
          match type of C1 with ?x = (?y + 32)%N => match goal with Hy : nth_error s_DOCTYPE _ = Some y |- _ =>
            assert (x < 128)%N by (rewrite C1; exact (doctype_byte_lo _ _ Hy)) end end. egfin. }
        mrun Eb. egfin.
      - mrun Eb; egfin. }
  2:{ unfold Gi. egfin. }
  destruct a0 as [b|]; cbv beta iota in EQ.
  - destruct Eh as (-> & G2). mstep EQ. split; [exact G2|discriminate].
  - destruct Eh as (F & L1 & L2 & D3 & G2).
    assert (W2 : wf inp s0) by (eapply wf_fr; eauto; alia).
    mstep EQ. pose proof Eh as Eh2. apply skip_white_space_spec in Eh; [|exact W2].
    apply skip_white_space_bnd in Eh2; [|exact W2|exact G2].
    destruct Eh as (F3 & L3 & L4 & _ & _).
    assert (W3 : wf inp s1) by (eapply wf_fr; eauto; pose proof (wf_start _ _ W2); alia).
    mstep EQ. mstep EQ.
    + mrun EQ. unfold Gi, Ei in *. norm. scbn. wsplit; auto; try congruence.
    + mstep EQ. apply read_until_close_angle_bnd in Eh; [|exact W3|exact Eh2]. mrun EQ. tauto.
Qed.

(* the last br bytes before q are ']' *)
Definition brackets (inp : list N) (q br : nat) : Prop :=
  forall j, j < br -> nth_error inp (q - 1 - j) = Some RBRACKET.

Lemma read_cdata_bnd inp s a s' : wf inp s -> raw_start s <= data_start s -> data_start s <= raw_end s ->
  Ei inp s -> bnd inp (data_start s) -> bnd inp (raw_end s) ->
  read_cdata inp s = (a, s') ->
  Gi inp s' /\ (a = true -> bnd inp (data_start s') /\ bnd inp (data_end s')).
Proof.
  intros W D1 D2 E Bd Br EQ. pose proof (wf_end _ _ W). pose proof (wf_start _ _ W). unfold read_cdata in EQ. mstep EQ.
  eapply (for_range_rule inp _
            (fun i s2 => fr s s2 /\ raw_end s <= raw_end s2 /\ raw_end s2 <= length inp /\ data_start s2 = data_start s
                         /\ Gi inp s2)
            (fun (b : bool) s2 => b = false /\ Gi inp s2)) in Eh.
  2:{ clear Eh EQ. intros i s2 r s2' _ Hi HI Eb. unfold Gi, Ei in *. norm. cbn [length s_CDATA Nat.add] in Hi.
      mstep Eb; mstep Eb; scbn.
      - mstep Eb. { mrun Eb; egfin. }
        mstep Eb. mstep Eb.
        { mrun Eb. pose proof (cdata_byte_lo _ _ Hc) as Hlo. apply is_eq in C0.
          match type of C0 with ?x = _ => assert (x < 128)%N by (rewrite C0; lia) end. egfin. }
        mrun Eb. egfin.
      - mrun Eb; egfin. }
  2:{ unfold Gi. egfin. }
  destruct a0 as [b|]; cbv beta iota in EQ.
  - destruct Eh as (-> & G2). mstep EQ. split; [exact G2|discriminate].
  - destruct Eh as (F & L1 & L2 & D3 & (G21 & G22)). mstep EQ. mstep EQ.
    eapply (loop_in_rule inp _
              (fun (br : nat) s2 => raw_end s0 <= raw_end s2 /\ raw_end s2 <= length inp /\ Ei inp s2
                           /\ data_start s2 = raw_end s0 /\ data_start s2 + br <= raw_end s2 /\ brackets inp (raw_end s2) br)
              (fun _ s2 => length inp - raw_end s2)
              (fun (r : option bool) s2 => r = Some true /\ Gi inp s2 /\ bnd inp (data_start s2) /\ bnd inp (data_end s2))) in Eh.
    + destruct Eh as (-> & G3 & B1 & B2). mstep EQ. tauto.
    + clear Eh EQ. intros br t r t' HI Eb. unfold Ei in *. destruct HI as (M1 & M2 & M3 & M4 & M5 & M6).
      mstep Eb; mstep Eb; scbn.
      * mstep Eb. { exfalso. first [specialize (M3 C)|specialize (M3 eq_refl)]. alia. }
        mstep Eb.
        { mstep Eb. apply is_eq in C0. subst. scbn. split; [wsplit; auto; try alia; try congruence|alia].
          intros j Hj. destruct j as [|j]. { replace (S (raw_end t) - 1 - 0) with (raw_end t) by lia. exact Hb. }
          replace (S (raw_end t) - 1 - S j) with (raw_end t - 1 - j) by lia. apply M6. lia. }
        mstep Eb.
        { mstep Eb.
          - mrun Eb. scbn. unfold Gi. wsplit; scbn; auto; try congruence; try bnds; try (rewrite M4; assumption).
            all: right; right; left; exists RBRACKET; split; [|reflexivity];
              replace (S (raw_end t) - 3) with (raw_end t - 1 - 1) by alia; apply M6; alia.
          - mstep Eb. scbn. split; [wsplit; auto; try alia; try congruence|alia]. intros j Hj. lia. }
        mstep Eb. scbn. split; [wsplit; auto; try alia; try congruence|alia]. intros j Hj. lia.
      * mrun Eb. scbn. unfold Gi. wsplit; scbn; auto; try congruence; try bnds; try (rewrite M4; assumption).
    + scbn. unfold Ei. wsplit; scbn; auto; try alia. intros j Hj. lia.
    + scbn. alia.
Qed.

(* ---- B6 ---- *)

Lemma read_markup_declaration_bnd inp s a s' : wf inp s -> Gi inp s -> read_markup_declaration inp s = (a, s') ->
  Gi inp s' /\ bnd inp (data_start s') /\ bnd inp (data_end s').
Proof.
  intros W G EQ. pose proof (wf_end _ _ W). pose proof (wf_start _ _ W). destruct G as [G1 G2].
  unfold read_markup_declaration in EQ.
  mstep EQ. mstep EQ; mstep EQ; scbn.
  2:{ mrun EQ; egfin. }
  mstep EQ. { mrun EQ; egfin. }
  mstep EQ; mstep EQ; scbn.
  2:{ mrun EQ; egfin. }
  mstep EQ. { mrun EQ; egfin. }
  mstep EQ.
  { mstep EQ. apply read_comment_bnd in Eh; [|wfs|scbn; alia|].
    - mrun EQ. exact Eh.
    - apply andb_prop in C1. destruct C1 as [Ca Cb]. egfin. }
  mstep EQ. mstep EQ. lazymatch type of Eh with _ = (?y, ?z) => rename y into isdoc; rename z into t1 end.
  pose proof Eh as Eh2.
  apply read_doc_type_spec in Eh; [|wfs|scbn; alia|scbn; alia].
  apply read_doc_type_bnd in Eh2; [|wfs|scbn; alia|scbn; alia|unfold Ei; scbn; congruence|scbn; assumption|scbn; replace (S (S (raw_end s)) - 2) with (raw_end s) by alia; assumption].
  destruct Eh as (F1 & L1 & L2 & P1 & Ht & Hf). destruct Eh2 as (Gt1 & Bt1).
  mstep EQ. { specialize (Bt1 eq_refl). mrun EQ. tauto. }
  specialize (Hf eq_refl). destruct Hf as (Hf1 & Hf2). pose proof (fr_rs _ _ F1) as Frs. scbn.
  assert (Wt1 : wf inp t1). { eapply (wf_fr inp _ t1); [|exact F1|scbn; alia|alia]. wfr. }
  mstep EQ. mstep EQ. lazymatch type of Eh with _ = (?y, ?z) => rename y into iscd; rename z into t2 end.
  assert (X : Gi inp t2 /\ wf inp t2 /\ (iscd = true -> bnd inp (data_start t2) /\ bnd inp (data_end t2))).
  { mstep Eh.
    - pose proof Eh as Eh2. apply read_cdata_spec in Eh; [|exact Wt1|pose proof (wf_start _ _ Wt1); scbn; alia|alia].
      apply read_cdata_bnd in Eh2; [|exact Wt1|pose proof (wf_start _ _ Wt1); scbn; alia|alia|exact (proj2 Gt1)|rewrite Hf1; scbn; assumption|exact (proj1 Gt1)].
      destruct Eh as (F2 & M1 & M2 & _). destruct Eh2 as (Gt2 & Bt2). wsplit; auto.
      eapply (wf_fr inp t1 t2); eauto.
    - mstep Eh. wsplit; auto; discriminate. }
  clear Eh. destruct X as (Gt2 & Wt2 & Bt2).
  mstep EQ. { specialize (Bt2 eq_refl). mrun EQ. unfold Gi in *. scbn. tauto. }
  mstep EQ. apply read_until_close_angle_bnd in Eh; [|exact Wt2|exact Gt2]. mrun EQ. exact Eh.
Qed.

Lemma read_tag_name_bnd inp s a s' : wf inp s -> 1 <= raw_end s -> Gi inp s ->
  (exists c, nth_error inp (raw_end s - 1) = Some c /\ (c < 128)%N) ->
  read_tag_name inp s = (a, s') ->
  Gi inp s' /\ bnd inp (data_start s') /\ bnd inp (data_end s').
Proof.
  intros W H1 G (c0 & Hc0 & Hc1) EQ. pose proof (wf_end _ _ W). unfold read_tag_name in EQ. mstep EQ. mstep EQ. mstep EQ. mstep EQ.
  eapply (loop_in_rule inp _
            (fun _ s2 => raw_end s <= raw_end s2 /\ raw_end s2 <= length inp /\ Ei inp s2 /\ data_start s2 + 1 = raw_end s)
            (fun _ s2 => length inp - raw_end s2)
            (fun _ s2 => Gi inp s2 /\ data_start s2 + 1 = raw_end s /\ bnd inp (data_end s2))) in Eh.
  - destruct Eh as (G2 & D2 & B2). mstep EQ. wsplit; auto.
    right; right; left. exists c0. split; [|assumption]. replace (data_start s0) with (raw_end s - 1) by alia. assumption.
  - clear Eh EQ. intros x s2 r s2' HI Eb. unfold Gi, Ei in *. norm. mrun Eb; egfin.
  - unfold Gi in *. egfin.
  - scbn. alia.
Qed.

Lemma read_tag_name_attr_key_bnd inp s a s' : wf inp s -> Gi inp s -> read_tag_name_attr_key inp s = (a, s') ->
  Gi inp s' /\ bnd inp (fst (fst (pending_attribute s'))) /\ bnd inp (snd (fst (pending_attribute s'))).
Proof.
  intros W G EQ. pose proof (wf_end _ _ W). unfold read_tag_name_attr_key in EQ. mstep EQ. mstep EQ.
  eapply (loop_in_rule inp _
            (fun _ s2 => raw_end s <= raw_end s2 /\ raw_end s2 <= length inp /\ Ei inp s2
                         /\ fst (fst (pending_attribute s2)) = raw_end s)
            (fun _ s2 => length inp - raw_end s2)
            (fun _ s2 => Gi inp s2 /\ fst (fst (pending_attribute s2)) = raw_end s
                         /\ bnd inp (snd (fst (pending_attribute s2))))) in Eh.
  - destruct Eh as (G2 & D2 & B2). mstep EQ. wsplit; auto. rewrite D2. apply G.
  - clear Eh EQ. intros x s2 r s2' HI Eb. unfold Gi, Ei in *. norm. mrun Eb; egfin.
  - unfold Gi in *. egfin.
  - scbn. alia.
Qed.

(* ---- B7 ---- *)

Ltac absurd_err G :=
  exfalso; first [ congruence | specialize (G eq_refl); alia | match goal with C : _ = true |- _ => specialize (G C); alia end ].

Ltac gclose := unfold Gi, Ei; scbn; wsplit; auto; try (intros; congruence); try bnds; try alia.

Lemma read_tag_name_attr_value_bnd inp s a s' : wf inp s -> Gi inp s -> read_tag_name_attr_value inp s = (a, s') ->
  Gi inp s' /\ bnd inp (fst (snd (pending_attribute s'))) /\ bnd inp (snd (snd (pending_attribute s'))).
Proof.
  intros W G EQ. pose proof (wf_end _ _ W). pose proof (wf_start _ _ W). destruct G as [G1 G2]. unfold read_tag_name_attr_value in EQ.
  mstep EQ. mstep EQ. mstep EQ. lazymatch type of Eh with _ = (_, ?z) => rename z into t1 end.
  pose proof Eh as Eh2.
  apply skip_white_space_spec in Eh; [|wfs].
  apply skip_white_space_bnd in Eh2.
  2:{ wfs. }
  2:{ unfold Gi, Ei. scbn. split; assumption. }
  destruct Eh as (F1 & L1 & L2 & (D11 & D12 & D13) & _). destruct Eh2 as [Gt11 Gt12]. scbn.
  assert (Wt1 : wf inp t1). { eapply (wf_fr inp _ t1); [|exact F1|scbn; alia|alia]. wfs. }
  mstep EQ. mstep EQ. { mrun EQ. rewrite D13. scbn. unfold Gi. tauto. }
  mstep EQ; mstep EQ; scbn.
  2:{ mrun EQ. scbn. rewrite D13. scbn. gclose. }
  mstep EQ. { mrun EQ. scbn. rewrite D13. scbn. absurd_err Gt12. }
  mstep EQ.
  { mrun EQ. scbn. rewrite D13. scbn. gclose. }
  (* '=' read *)
  mstep EQ. lazymatch type of Eh with _ = (_, ?z) => rename z into t2 end.
  pose proof Eh as Eh2.
  pose proof (wf_start _ _ Wt1) as St1'. pose proof (wf_end _ _ Wt1) as Et1'.
  apply skip_white_space_spec in Eh; [|wfr]. apply skip_white_space_bnd in Eh2; [|wfr|unfold Gi, Ei; scbn; split; [bnds|congruence]].
  destruct Eh as (F2 & M1 & M2 & (D21 & D22 & D23) & _). destruct Eh2 as [Gt21 Gt22]. scbn.
  pose proof (wf_start _ _ Wt1) as St1. pose proof (wf_end _ _ Wt1) as Et1.
  assert (Wt2 : wf inp t2). { eapply (wf_fr inp _ t2); [|exact F2|scbn; pose proof (wf_start _ _ Wt1); alia|alia]. wfr. }
  assert (Pt2 : pending_attribute t2 = pending_attribute (set_pa_val_end (raw_end s) (set_pa_val_start (raw_end s) s)))
    by (rewrite D23; scbn; exact D13).
  mstep EQ. mstep EQ. { mrun EQ. rewrite Pt2. scbn. unfold Gi. tauto. }
  mstep EQ; mstep EQ; scbn.
  2:{ mrun EQ. scbn. rewrite Pt2. scbn. gclose. }
  mstep EQ. { mrun EQ. scbn. rewrite Pt2. scbn. absurd_err Gt22. }
  mstep EQ.
  { mrun EQ. scbn. rewrite Pt2. scbn. gclose. }
  mstep EQ.
  - (* quoted *)
    mstep EQ. mstep EQ.
    match goal with Eh : loop_in _ _ _ ?st = _ |- _ => set (s9 := st) in * end.
    eapply (loop_in_rule inp _
              (fun _ u => raw_end s9 <= raw_end u /\ raw_end u <= length inp /\ Ei inp u
                          /\ fst (snd (pending_attribute u)) = raw_end s9)
              (fun _ u => length inp - raw_end u)
              (fun _ u => Gi inp u /\ fst (snd (pending_attribute u)) = raw_end s9
                          /\ bnd inp (snd (snd (pending_attribute u))))) in Eh.
    + destruct Eh as (Gf & Pf & Bf). mstep EQ. wsplit; auto. rewrite Pf. subst s9. scbn. bnds.
    + clear Eh EQ. intros x u r u' HI Eb. unfold Gi, Ei in *. norm. subst s9. scbn. mrun Eb; egfin.
      all: match goal with Cq : is ?x ?q = true, Cs : is ?q SQUOTE || is ?q DQUOTE = true |- _ =>
             assert (x < 128)%N by (apply is_eq in Cq; rewrite Cq; apply orb_prop in Cs; destruct Cs as [Cs|Cs];
                                    apply is_eq in Cs; rewrite Cs; reflexivity) end; bnds.
    + subst s9. unfold Ei. scbn. wsplit; auto; try alia. congruence.
    + subst s9. scbn. alia.
  - (* unquoted *)
    mstep EQ. mstep EQ. mstep EQ.
    match goal with Eh : loop_in _ _ _ ?st = _ |- _ => set (s9 := st) in * end.
    eapply (loop_in_rule inp _
              (fun _ u => raw_end s9 <= raw_end u /\ raw_end u <= length inp /\ Ei inp u
                          /\ fst (snd (pending_attribute u)) + 1 = raw_end s9)
              (fun _ u => length inp - raw_end u)
              (fun _ u => Gi inp u /\ fst (snd (pending_attribute u)) + 1 = raw_end s9
                          /\ bnd inp (snd (snd (pending_attribute u))))) in Eh.
    + destruct Eh as (Gf & Pf & Bf). mstep EQ. wsplit; auto.
      replace (fst (snd (pending_attribute s0))) with (raw_end t2) by (subst s9; scbn; alia). assumption.
    + clear Eh EQ. intros x u r u' HI Eb. unfold Gi, Ei in *. norm. subst s9. scbn. mrun Eb; egfin.
    + subst s9. unfold Ei. scbn. wsplit; auto; try alia. congruence.
    + subst s9. scbn. alia.
Qed.

(* ---- B8 ---- *)

Definition attr_bnd (inp : list N) (a : attr_spans) : Prop :=
  bnd inp (fst (fst a)) /\ bnd inp (snd (fst a)) /\ bnd inp (fst (snd a)) /\ bnd inp (snd (snd a)).

Lemma Gi_set_err inp t : Gi inp t -> length inp <= raw_end t -> Gi inp (set_err true t).
Proof. intros [A B] L. split; scbn; auto. Qed.

Lemma read_tag_bnd save inp s a s' : wf inp s -> 1 <= raw_end s -> Gi inp s ->
  (exists c, nth_error inp (raw_end s - 1) = Some c /\ (c < 128)%N) ->
  read_tag save inp s = (a, s') ->
  (wf inp s' /\ fra s s' /\ raw_end s <= raw_end s'
   /\ data_start s' + 1 = raw_end s /\ data_start s' <= data_end s' /\ data_end s' <= raw_end s')
  /\ Gi inp s' /\ bnd inp (data_start s') /\ bnd inp (data_end s') /\ Forall (attr_bnd inp) (attribute s').
Proof.
  intros W H1 G0 Hc0 EQ. pose proof (wf_end _ _ W). pose proof (wf_start _ _ W). unfold read_tag in EQ.
  mstep EQ. mstep EQ.
  set (s1 := set_number_attribute_returned 0 (set_attribute [] s)) in *.
  assert (W1 : wf inp s1). { destruct W. constructor; subst s1; scbn; auto; alia. }
  assert (F1 : fra s s1). { constructor; reflexivity. }
  assert (R1 : raw_end s1 = raw_end s) by reflexivity.
  assert (A1 : attribute s1 = []) by reflexivity.
  assert (G1 : Gi inp s1) by exact G0.
  clearbody s1.
  mstep EQ. pose proof Eh as Eh2. apply read_tag_name_spec in Eh; [|exact W1|alia]. destruct Eh as (Fa & Pa & La1 & La2 & Da1 & Da2 & Da3).
  apply read_tag_name_bnd in Eh2; [|exact W1|alia|exact G1|rewrite R1; exact Hc0]. destruct Eh2 as (Ga & Ba1 & Ba2).
  assert (Wa : wf inp s0) by (pose proof (wf_start _ _ W1); apply (wf_fr inp s1 s0 W1 Fa); alia).
  mstep EQ. pose proof Eh as Eh2. apply skip_white_space_spec in Eh; [|exact Wa]. destruct Eh as (Fb & Lb1 & Lb2 & (Db1 & Db2 & Db3) & _).
  apply skip_white_space_bnd in Eh2; [|exact Wa|exact Ga]. rename Eh2 into Gb.
  assert (A2 : attribute s2 = []) by (destruct Fa, Fb; congruence).
  assert (Wb : wf inp s2) by (pose proof (wf_start _ _ Wa); apply (wf_fr inp s0 s2 Wa Fb); alia).
  mstep EQ. mstep EQ.
  { mstep EQ. split; [split; [exact Wb|]; split; [destruct F1, Fa, Fb; constructor; congruence|wsplit; alia]|].
    wsplit; auto; try congruence. rewrite A2. constructor. }
  mstep EQ.
  eapply (loop_in_rule inp _
            (fun _ t => wf inp t /\ fra s t /\ raw_end s2 <= raw_end t
                        /\ data_start t = data_start s2 /\ data_end t = data_end s2
                        /\ length (attribute t) + raw_end s2 <= raw_end t
                        /\ Gi inp t /\ Forall (attr_bnd inp) (attribute t))
            (fun _ t => length inp - raw_end t)
            (fun _ t => wf inp t /\ fra s t /\ raw_end s2 <= raw_end t
                        /\ data_start t = data_start s2 /\ data_end t = data_end s2
                        /\ length (attribute t) + raw_end s2 <= raw_end t
                        /\ Gi inp t /\ Forall (attr_bnd inp) (attribute t))) in Eh.
  - destruct Eh as (Wf & Ff & Lf & Df1 & Df2 & Nf & Gf & Af). mstep EQ. wsplit; auto; try alia; congruence.
  - clear Eh EQ. intros x t r t' (Wt & Ft & Lt & Dt1 & Dt2 & Nt & Gt & At) Eb. destruct Gt as [Gt1 Gt2].
    pose proof (wf_end _ _ Wt) as Et. pose proof (wf_start _ _ Wt) as St.
    mstep Eb; mstep Eb; scbn.
    2:{ mrun Eb. scbn. wsplit; [apply wf_set_err; exact Wt|apply fra_set_err; exact Ft|scbn; try alia..]; auto.
        apply Gi_set_err; [split; assumption|assumption]. }
    mstep Eb.
    { mstep Eb. scbn. wsplit; [apply wf_set_raw_end; [exact Wt|alia|alia]|apply fra_set_raw_end; exact Ft|scbn; try alia..]; auto.
      apply orb_prop in C0. destruct C0 as [C0|C0].
      - exfalso. specialize (Gt2 C0). alia.
      - unfold Gi, Ei. scbn. split; [bnds|]. intros X. specialize (Gt2 X). alia. }
    apply orb_false_elim in C0. destruct C0 as [Ce Cg].
    mstep Eb. scbn.
    set (t0 := set_raw_end (S (raw_end t) - 1) (set_raw_end (S (raw_end t)) t)) in *.
    assert (Wt0 : wf inp t0). { subst t0. apply wf_set_raw_end; [apply wf_set_raw_end; [exact Wt|alia|alia]|scbn; alia|alia]. }
    assert (Rt0 : raw_end t0 = raw_end t) by (subst t0; scbn; alia).
    assert (Ft0 : fra s t0). { subst t0. apply fra_set_raw_end, fra_set_raw_end. exact Ft. }
    assert (Dt0 : data_start t0 = data_start s2 /\ data_end t0 = data_end s2) by (subst t0; scbn; auto).
    assert (Et0 : err t0 = false) by (subst t0; scbn; auto).
    assert (At0 : attribute t0 = attribute t) by (subst t0; reflexivity).
    assert (Gt0 : Gi inp t0). { subst t0. unfold Gi, Ei. scbn. split; [replace (S (raw_end t) - 1) with (raw_end t) by alia; assumption|congruence]. }
    clearbody t0.
    mstep Eb. lazymatch type of Eh with _ = (_, ?y) => rename y into tk end. pose proof (pres_err _ _ _ _ _ pres_read_tag_name_attr_key Eh) as Ek.
    pose proof Eh as Eh2. apply read_tag_name_attr_key_bnd in Eh2; [|exact Wt0|exact Gt0]. destruct Eh2 as (Gk & Bk1 & Bk2).
    apply read_tag_name_attr_key_spec in Eh; [|exact Wt0]. destruct Eh as (Fk & (Dk1 & Dk2) & Lk1 & Lk2 & Pk1 & Pk2 & Pk3 & Pk4 & Pk5).
    assert (Wk : wf inp tk) by (pose proof (wf_start _ _ Wt0); apply (wf_fr inp t0 tk Wt0 Fk); alia).
    mstep Eb. lazymatch type of Eh with _ = (_, ?y) => rename y into tv end. pose proof (pres_err _ _ _ _ _ pres_read_tag_name_attr_value Eh) as Ev.
    pose proof Eh as Eh2.
    apply read_tag_name_attr_value_spec in Eh; [|exact Wk]. destruct Eh as (Fv & (Dv1 & Dv2) & Lv1 & Lv2 & Pv1 & Pv2 & Pv3 & Pv4).
    assert (Wv : wf inp tv) by (pose proof (wf_start _ _ Wk); apply (wf_fr inp tk tv Wk Fv); alia).
    apply read_tag_name_attr_value_bnd in Eh2; [|exact Wk|exact Gk]. destruct Eh2 as (Gv & Bv1 & Bv2).
    mstep Eb. mstep Eb.
    assert (Atv : attribute tv = attribute t) by (destruct Fk, Fv; congruence).
    match goal with Eh : _ inp tv = (?u, ?t5) |- _ => rename t5 into tp end.
    match goal with Eh : _ inp tv = (?u, ?t5) |- _ =>
      assert (X5 : wf inp t5 /\ fra tv t5 /\ raw_end t5 = raw_end tv /\ err t5 = err tv
                   /\ data_start t5 = data_start tv /\ data_end t5 = data_end tv
                   /\ length (attribute t5) + raw_end s2 <= raw_end t5
                   /\ Gi inp t5 /\ Forall (attr_bnd inp) (attribute t5)) end.
    { mstep Eh.
      - apply andb_prop in C0. destruct C0 as [_ Cne]. apply negb_true_iff, Nat.eqb_neq in Cne.
        rewrite Pv1 in Cne.
        mstep Eh. scbn. wsplit; auto. 2:{ constructor; reflexivity. }
        + destruct Wv. constructor; scbn; auto.
          * apply Forall_app. split; [assumption|].
            constructor; [|constructor]. unfold attr_ok, span_ok. rewrite Pv1. alia.
          * rewrite app_length, Atv. cbn [length]. alia.
        + rewrite app_length, Atv. cbn [length]. alia.
        + apply Forall_app. split; [rewrite Atv; exact At|]. constructor; [|constructor].
          unfold attr_bnd. rewrite Pv1. tauto.
      - mstep Eh. wsplit; auto. constructor; reflexivity. rewrite Atv. alia. rewrite Atv. exact At. }
    clear Eh. destruct X5 as (W5 & F5 & R5 & E5 & D51 & D52 & N5 & G5 & A5).
    mstep Eb. lazymatch type of Eh with _ = (_, ?y) => rename y into ts end. pose proof (pres_err _ _ _ _ _ pres_skip_white_space Eh) as Es.
    pose proof Eh as Eh2. apply skip_white_space_spec in Eh; [|exact W5]. destruct Eh as (Fs & Ls1 & Ls2 & (Ds1 & Ds2 & Ds3) & _).
    apply skip_white_space_bnd in Eh2; [|exact W5|exact G5]. rename Eh2 into Gs.
    assert (Ws : wf inp ts) by (pose proof (wf_start _ _ W5); match type of Fs with fr ?x _ => apply (wf_fr inp x ts W5 Fs) end; alia).
    assert (Ats : attribute ts = attribute tp) by (destruct Fs; assumption).
    assert (Ffin : fra s ts).
    { destruct Ft0, Fk, Fv, F5, Fs. constructor; congruence. }
    mstep Eb. mstep Eb; mstep Eb.
    + wsplit; auto; try alia; rewrite Ats; first [alia|exact A5].
    + split; [wsplit; auto; try alia; rewrite Ats; first [alia|exact A5]|].
      (* progress *)
      assert (E4 : err tv = false) by (rewrite <- E5; apply Es; first [exact C0|reflexivity]).
      assert (E3 : err tk = false) by (apply Ev; exact E4).
      destruct (Pk5 E3) as [Hp|(Hp & Hc)].
      * lia.
      * assert (Hq : nth_error inp (raw_end tk) = Some EQUALS).
        { rewrite Hp. destruct Hc as [Hc|Hc]; [exact Hc|]. rewrite Rt0, Hb in Hc. injection Hc as ->. discriminate Cg. }
        specialize (Pv4 Hq E4). lia.
  - wsplit; auto; try alia. destruct F1, Fa, Fb. constructor; congruence.
    rewrite A2. cbn [length]. alia. rewrite A2. constructor.
  - alia.
Qed.

(* ---- B9 ---- *)

Lemma ascii_utf8_valid l : Forall (fun c => (c < 128)%N) l -> utf8_valid l = true.
Proof.
  induction 1 as [|c l Hc Hl IH]. reflexivity.
  rewrite utf8_valid_unfold. apply N.ltb_lt in Hc. rewrite Hc. exact IH.
Qed.
Lemma lower_le c : (ascii_lower c <= 122)%N -> (c < 128)%N.
Proof.
  unfold ascii_lower. destruct (N.leb 65 c && N.leb c 90) eqn:E; intros H.
  - apply andb_prop in E. destruct E as [_ E]. apply N.leb_le in E. lia.
  - lia.
Qed.
Lemma raw_name_ascii l : In (map ascii_lower l) raw_text_elements -> utf8_valid l = true.
Proof.
  intros H. apply ascii_utf8_valid.
  assert (B : forallb (fun t => forallb (fun c => N.leb c 122) t) raw_text_elements = true) by reflexivity.
  rewrite forallb_forall in B. specialize (B _ H). rewrite forallb_forall in B.
  apply Forall_forall. intros c Hc. apply lower_le. apply N.leb_le. apply B. apply in_map. exact Hc.
Qed.

Lemma read_start_tag_bnd lower inp s r s' : lower_ok lower -> wf inp s -> raw_start s + 2 <= raw_end s -> Gi inp s ->
  (exists c, nth_error inp (raw_end s - 1) = Some c /\ (c < 128)%N) ->
  read_start_tag lower inp s = (r, s') ->
  Gi inp s' /\ bnd inp (data_start s') /\ bnd inp (data_end s') /\ Forall (attr_bnd inp) (attribute s') /\ r <> RErr.
Proof.
  intros LO W H2 G Hc EQ. pose proof (wf_end _ _ W). unfold read_start_tag in EQ.
  mstep EQ. lazymatch type of Eh with _ = (_, ?y) => rename y into t1 end.
  apply read_tag_bnd in Eh; [|exact W|alia|exact G|exact Hc].
  destruct Eh as ((W1 & F1 & L1 & D1 & D2 & D3) & G1 & B1 & B2 & A1).
  pose proof (wf_end _ _ W1) as E1. pose proof (wf_start _ _ W1) as S1. destruct F1 as [Frs Ftag Fcd Fp Fo].
  mstep EQ. mstep EQ.
  { mstep EQ. wsplit; auto. discriminate. }
  mstep EQ. mstep EQ. lazymatch type of Eh with _ = (?y, _) => rename y into b1 end.
  assert (Hs0 : s0 = t1).
  { mstep Eh. rewrite add_u8_ok in Eh by (apply upper_add; assumption). apply pair_equal_spec in Eh. destruct Eh; auto.
    mstep Eh. reflexivity. }
  clear Eh. subst s0.
  mstep EQ. lazymatch type of Eh with _ = (?y, ?z) => rename y into israw; rename z into t2 end.
  assert (Hraw : t2 = t1 /\ (israw = true -> In (map ascii_lower (sub inp (data_start t1) (data_end t1))) raw_text_elements)).
  { repeat (mstep Eh);
      try (apply start_tag_in_spec in Eh; [|exact W1|alia|alia]; destruct Eh as [-> Hin]; split; [reflexivity|];
           intros Ht; specialize (Hin Ht); cbn in Hin |- *; tauto).
    split; [reflexivity|discriminate]. }
  clear Eh. destruct Hraw as [-> Hraw].
  mstep EQ. lazymatch type of Eh with _ = (?y, ?z) => rename y into ok; rename z into t3 end.
  assert (H3 : ok = true /\ Gi inp t3 /\ data_start t3 = data_start t1 /\ data_end t3 = data_end t1
               /\ attribute t3 = attribute t1 /\ raw_end t3 = raw_end t1 /\ err t3 = err t1).
  { mstep Eh.
    - specialize (Hraw eq_refl). mstep Eh. mstep Eh.
      + mstep Eh. mstep Eh. wsplit; try reflexivity. exact G1.
      + exfalso. unfold sub in Hraw. match goal with Cu : utf8_valid _ = false |- _ => rewrite (raw_name_ascii _ Hraw) in Cu; discriminate Cu end.
    - mstep Eh. wsplit; auto. }
  clear Eh. destruct H3 as (-> & G3 & D31 & D32 & A3 & R3 & Er3).
  cbn [negb] in EQ. cbv beta iota in EQ.
  assert (Post : forall rr : result token_type, rr <> RErr -> Gi inp t3 /\ bnd inp (data_start t3) /\ bnd inp (data_end t3)
                   /\ Forall (attr_bnd inp) (attribute t3) /\ rr <> RErr).
  { intros rr Hr. wsplit; auto; congruence. }
  mrun EQ; apply Post; discriminate.
Qed.

(* ---- B10 ---- *)

Definition bpost (inp : list N) (r : result token_type) (s' : st) : Prop :=
  Gi inp s' /\ bnd inp (data_start s') /\ bnd inp (data_end s') /\ Forall (attr_bnd inp) (attribute s') /\ r <> RErr.

Ltac bp := unfold bpost, Gi, Ei in *; scbn; wsplit; auto; try congruence; try discriminate; try bnds; try (intros; congruence); try alia.

Lemma next_bnd lower inp s r s' : lower_ok lower -> wf0 inp s -> Gi inp s -> Forall (attr_bnd inp) (attribute s) ->
  next lower inp s = (r, s') -> bpost inp r s'.
Proof.
  intros LO (W1 & W2 & W3 & W4 & W5 & W6) (Gs1 & Gs2) As EQ. unfold next in EQ.
  mstep EQ. mstep EQ. mstep EQ. scbn.
  set (p := raw_end s) in *.
  set (s0 := set_data_end p (set_data_start p (set_raw_start p s))) in *.
  assert (W0 : wf inp s0) by (constructor; subst s0 p; scbn; auto; alia).
  assert (R0 : raw_start s0 = p /\ raw_end s0 = p /\ data_start s0 = p /\ data_end s0 = p /\ attribute s0 = attribute s /\ err s0 = err s)
    by (subst s0; scbn; wsplit; reflexivity).
  destruct R0 as (R01 & R02 & R03 & R04 & R05 & R06).
  clearbody s0.
  mstep EQ. mstep EQ.
  { mrun EQ. bp; rewrite ?R02, ?R03, ?R04, ?R05; auto. all: try (rewrite R06 in *; auto). }
  assert (E0 : Ei inp s0) by (unfold Ei; congruence).
  mstep EQ. lazymatch type of Eh with _ = (?y, ?z) => rename y into returned; rename z into t1 end.
  assert (H1 : (returned = true /\ Gi inp t1 /\ data_start t1 = p /\ data_end t1 = raw_end t1 /\ attribute t1 = attribute s)
               \/ (returned = false /\ wf inp t1 /\ raw_start t1 = p /\ p <= raw_end t1
                   /\ data_start t1 = p /\ data_end t1 = p /\ Ei inp t1 /\ attribute t1 = attribute s)).
  { mstep Eh.
    2:{ mstep Eh. right. wsplit; auto; alia. }
    mstep Eh. lazymatch type of Eh0 with _ = (_, ?z) => rename z into t2 end.
    assert (H2 : wf inp t2 /\ raw_start t2 = p /\ data_start t2 = p /\ data_end t2 = raw_end t2 /\ Gi inp t2 /\ attribute t2 = attribute s).
    { mstep Eh0.
      - mstep Eh0.
        eapply (loop_in_rule inp _
                  (fun _ t => wf inp t /\ raw_start t = p /\ data_start t = p /\ Ei inp t /\ attribute t = attribute s)
                  (fun _ t => (length inp - raw_end t) + (if err t then 0 else 1))
                  (fun _ t => wf inp t /\ raw_start t = p /\ data_start t = p /\ Gi inp t /\ attribute t = attribute s)) in Eh1.
        + destruct Eh1 as (Wl & Rl & Dl & Gl & Al). cbv zeta in Eh0. mstep Eh0. mstep Eh0. wsplit; scbn; auto with wfdb.
        + clear Eh1. intros x t rr t' (Wt & Rt & Dt & Et & At) Eb. pose proof (wf_end _ _ Wt). pose proof (wf_start _ _ Wt).
          unfold Ei in *. mstep Eb. mstep Eb.
          * match goal with Hc : err t = false |- _ => rename Hc into Cerr end.
            mstep Eb; mstep Eb; scbn; rewrite ?Cerr.
            -- split; [wsplit; auto; try (apply wf_set_raw_end; auto; alia); congruence|]. alia.
            -- split; [wsplit; auto with wfdb|]. alia.
          * mstep Eb. wsplit; auto. unfold Gi, Ei. split; [right; left; auto|auto].
        + wsplit; auto; congruence.
        + destruct (err s0); alia.
      - pose proof Eh0 as Eh2. apply read_raw_or_cdata_spec in Eh0; [|exact W0]. destruct Eh0 as (Wr & Rr & Cr & Dr1 & Dr2 & Ar).
        apply read_raw_or_cdata_bnd in Eh2; [|exact W0|exact E0].
        wsplit; auto; congruence. }
    clear Eh0. destruct H2 as (Wt2 & Rt2 & Dt21 & Dt22 & Gt2 & At2). pose proof (wf_end _ _ Wt2). pose proof (wf_start _ _ Wt2).
    mstep Eh. mstep Eh.
    - mstep Eh. mstep Eh. mstep Eh. left. wsplit; scbn; auto.
    - mstep Eh. right. wsplit; auto; try alia. exact (proj2 Gt2). }
  clear Eh. destruct H1 as [(-> & Gt1 & Dt11 & Dt12 & At1) | (-> & Wt1 & Rt1 & Lt1 & Dt11 & Dt12 & Et1 & At1)].
  { mstep EQ. destruct Gt1 as [Gt11 Gt12]. bp; rewrite ?Dt11, ?Dt12, ?At1; auto. }
  cbv beta iota in EQ. mstep EQ. mstep EQ. scbn.
  set (t3 := set_convert_null false (set_text_is_raw false t1)) in *.
  assert (Wt3 : wf inp t3) by (subst t3; auto with wfdb).
  assert (Rt3 : raw_start t3 = p /\ raw_end t3 = raw_end t1 /\ data_start t3 = p /\ data_end t3 = p /\ attribute t3 = attribute s /\ Ei inp t3)
    by (subst t3; unfold Ei in *; scbn; wsplit; auto).
  destruct Rt3 as (Rt31 & Rt32 & Rt33 & Rt34 & Rt35 & Rt36). clearbody t3.
  mstep EQ. lazymatch type of Eh with _ = (?y, ?z) => rename y into lres; rename z into tl end.
  eapply (loop_in_rule inp _
            (fun _ t => wf inp t /\ raw_start t = p /\ data_start t = p /\ data_end t = p /\ Ei inp t /\ attribute t = attribute s)
            (fun _ t => length inp - raw_end t)
            (fun (res : option (result token_type)) t =>
               match res with
               | Some r => bpost inp r t
               | None => raw_start t = p /\ data_start t = p /\ data_end t = p /\ Gi inp t /\ attribute t = attribute s
               end)) in Eh.
  - destruct lres as [res|]; cbv beta iota in EQ, Eh.
    + mstep EQ. exact Eh.
    + destruct Eh as (Rf & Df1 & Df2 & (Gf1 & Gf2) & Af).
      mstep EQ. mstep EQ.
      * mrun EQ. bp; rewrite ?Df1, ?Af; auto.
      * mrun EQ. bp; rewrite ?Df1, ?Df2, ?Af; auto.
  - clear Eh EQ. intros x t rr t' (Wt & Rt & Dt1 & Dt2 & Et & At) Eb.
    pose proof (wf_end _ _ Wt) as Ent. pose proof (wf_start _ _ Wt) as St. unfold Ei in Et.
    mstep Eb; mstep Eb; scbn.
    2:{ mrun Eb. bp. }
    mstep Eb. { mrun Eb. exfalso. first [specialize (Et C)|specialize (Et eq_refl)]. alia. }
    mstep Eb. { mrun Eb. scbn. split; [wsplit; auto; try wfr; unfold Ei; scbn; congruence|alia]. }
    mstep Eb; mstep Eb; scbn.
    2:{ mrun Eb. bp. }
    mstep Eb. { mrun Eb. exfalso. congruence. }
    cbv zeta in Eb.
    set (t4 := set_raw_end (S (S (raw_end t))) (set_raw_end (S (raw_end t)) t)) in *.
    assert (Wt4 : wf inp t4) by (subst t4; wfr).
    assert (Rt4 : raw_start t4 = p /\ raw_end t4 = S (S (raw_end t)) /\ data_start t4 = p /\ data_end t4 = p
                  /\ attribute t4 = attribute s /\ err t4 = false)
      by (subst t4; scbn; wsplit; auto).
    destruct Rt4 as (Rt41 & Rt42 & Rt43 & Rt44 & Rt45 & Rt46). clearbody t4.
    match type of Eb with (match ?c with _ => _ end) _ _ = _ => destruct c as [tt0|] eqn:Ctt end.
    2:{ (* not a tag: un-read *) mstep Eb. mstep Eb. scbn.
        split; [wsplit; scbn; auto; try alia; try wfr; unfold Ei; scbn; congruence|alia]. }
    mstep Eb. mstep Eb.
    { (* text before the tag: ends at the '<' *) mrun Eb. bp; rewrite ?Rt43, ?Rt45; auto. }
    assert (Gt4 : forall c1, nth_error inp (S (raw_end t)) = Some c1 -> (c1 < 128)%N -> Gi inp t4).
    { intros c1 Hq1 Hq2. unfold Gi, Ei. rewrite Rt42, Rt46. split; [|discriminate].
      right; right; right. exists c1. split; [replace (S (S (raw_end t)) - 1) with (S (raw_end t)) by alia; exact Hq1|split; [exact Hq2|alia]]. }
    destruct tt0; try (mstep Eb; exfalso; revert Ctt; repeat match goal with |- context [if ?c then _ else _] => destruct c end; discriminate).
    + (* StartTagToken: the second byte is a letter *)
      assert (Hal : exists c, nth_error inp (raw_end t4 - 1) = Some c /\ (c < 128)%N).
      { match goal with Hq : nth_error inp (S (raw_end t)) = Some ?x |- _ => exists x; split; [replace (raw_end t4 - 1) with (S (raw_end t)) by alia; exact Hq|] end.
        revert Ctt. destruct (is_ascii_alphabetic _) eqn:Eal; [intros _; apply alpha_lt128; exact Eal|].
        repeat match goal with |- context [if ?c then _ else _] => destruct c end; discriminate. }
      destruct Hal as (cq & Hq1 & Hq2).
      mstep Eb. lazymatch type of Eh with _ = (?y, ?z) => rename y into rs; rename z into ts end.
      apply read_start_tag_bnd in Eh; [|exact LO|exact Wt4|alia| |exists cq; auto].
      2:{ apply (Gt4 cq); auto. replace (S (raw_end t)) with (raw_end t4 - 1) by alia. exact Hq1. }
      destruct Eh as (Gs & B1 & B2 & A1 & Hne).
      destruct rs as [tk1|]; [|congruence].
      mstep Eb. mstep Eb. bp. all: apply Gs.
    + (* EndTagToken: the second byte is '/' *)
      assert (Hsl : Gi inp t4).
      { match goal with Hq : nth_error inp (S (raw_end t)) = Some ?x |- _ => apply (Gt4 x Hq) end.
        revert Ctt. destruct (is_ascii_alphabetic _); [discriminate|]. destruct (is _ SLASH) eqn:Es; [intros _; eapply is_lt128; [exact Es|reflexivity]|].
        repeat match goal with |- context [if ?c then _ else _] => destruct c end; discriminate. }
      destruct Hsl as [Hs1 Hs2].
      mstep Eb; mstep Eb; scbn.
      2:{ mrun Eb. bp. }
      mstep Eb. { mrun Eb. exfalso. congruence. }
      mstep Eb. { mrun Eb. bp; rewrite ?Rt43, ?Rt44, ?Rt45; auto. }
      mstep Eb.
      * mstep Eb. lazymatch type of Eh with _ = (_, ?z) => rename z into tg end.
        apply read_tag_bnd in Eh; [|wfr|scbn; alia| |].
        2:{ unfold Gi, Ei. scbn. split; [bnds|congruence]. }
        2:{ scbn. match goal with Hq : nth_error inp (raw_end t4) = Some ?x |- _ => exists x; split;
              [replace (S (raw_end t4) - 1) with (raw_end t4) by alia; exact Hq|ascii] end. }
        destruct Eh as (_ & Gg & Bg1 & Bg2 & Ag).
        mstep Eb. mstep Eb. mstep Eh; mstep Eh; mstep Eb; mstep Eb; bp; apply Gg.
      * mstep Eb. mstep Eb. lazymatch type of Eh with _ = (_, ?z) => rename z into tu end.
        pose proof Eh as Eh2. apply read_until_close_angle_spec in Eh; [|wfr].
        apply read_until_close_angle_bnd in Eh2; [|wfr|].
        2:{ unfold Gi, Ei. scbn. split; [replace (S (raw_end t4) - 1) with (raw_end t4) by alia; assumption|congruence]. }
        destruct Eh as (Fr & _). destruct Eh2 as (Gu & Bu1 & Bu2). pose proof (fr_attr _ _ Fr) as Fa. scbn.
        mrun Eb. bp; rewrite ?Fa, ?Rt45; auto; apply Gu.
    + (* CommentToken: the second byte is '!' or '?' *)
      assert (Hc2 : exists c1, nth_error inp (S (raw_end t)) = Some c1 /\ (c1 < 128)%N).
      { match goal with Hq : nth_error inp (S (raw_end t)) = Some ?x |- _ => exists x; split; [exact Hq|] end.
        revert Ctt. destruct (is_ascii_alphabetic _); [discriminate|]. destruct (is _ SLASH); [discriminate|].
        destruct (is _ BANG || is _ QMARK) eqn:Eb2; [intros _|discriminate].
        apply orb_prop in Eb2. destruct Eb2 as [Eb2|Eb2]; eapply is_lt128; try exact Eb2; reflexivity. }
      destruct Hc2 as (c2 & Hc21 & Hc22).
      pose proof (Gt4 c2 Hc21 Hc22) as Hsl.
      mstep Eb.
      * mstep Eb. lazymatch type of Eh with _ = (_, ?z) => rename z into tu end.
        pose proof Eh as Eh2. apply read_markup_declaration_spec in Eh; [|exact Wt4].
        apply read_markup_declaration_bnd in Eh2; [|exact Wt4|exact Hsl].
        destruct Eh as (Fr & _). destruct Eh2 as (Gu & Bu1 & Bu2). pose proof (fr_attr _ _ Fr) as Fa.
        mrun Eb. bp; rewrite ?Fa, ?Rt45; auto; apply Gu.
      * mstep Eb. mstep Eb. lazymatch type of Eh with _ = (_, ?z) => rename z into tu end.
        pose proof Eh as Eh2. apply read_until_close_angle_spec in Eh; [|wfr].
        apply read_until_close_angle_bnd in Eh2; [|wfr|].
        2:{ unfold Gi, Ei. scbn. split; [|congruence]. right; right; left.
            exists c2. split; [replace (raw_end t4 - 1) with (S (raw_end t)) by alia; exact Hc21|exact Hc22]. }
        destruct Eh as (Fr & _). destruct Eh2 as (Gu & Bu1 & Bu2). pose proof (fr_attr _ _ Fr) as Fa. scbn.
        mrun Eb. bp; rewrite ?Fa, ?Rt45; auto; apply Gu.
  - wsplit; auto; alia.
  - alia.
Qed.

(* ---- B11 ---- *)

(* ---- the accessors do not touch err ---- *)
Definition errsame (s s' : st) : Prop := err s' = err s.
Lemma errsame_refl s : errsame s s. Proof. reflexivity. Qed.
Lemma errsame_trans a b c : errsame a b -> errsame b c -> errsame a c. Proof. unfold errsame. congruence. Qed.
Lemma errsame_oof s : errsame s (set_oof true s). Proof. reflexivity. Qed.
Lemma errsame_panic site s : errsame s (set_panic_site site s).
Proof. unfold set_panic_site, errsame. destruct (panic s); reflexivity. Qed.
Ltac es_step :=
  first
    [ apply (presR_ret errsame errsame_refl) | apply (presR_get errsame errsame_refl)
    | assumption
    | apply (presR_upd errsame); solve [intros; reflexivity | intros; apply errsame_panic]
    | apply (presR_loop_in errsame errsame_refl errsame_trans errsame_oof); intros
    | apply (presR_bind errsame errsame_trans); [| intros ]
    | match goal with
      | |- PresR errsame (if ?c then _ else _) => destruct c
      | |- PresR errsame (match ?c with _ => _ end) => destruct c
      end ].
Lemma es_slice site a b : PresR errsame (slice site a b).
Proof. intros inp s. unfold slice. cbn. destruct ((a <=? b) && (b <=? length inp)). reflexivity. apply errsame_panic. Qed.
Lemma es_index_attr site l i : PresR errsame (index_attr site l i).
Proof. unfold index_attr. destruct (nth_error l i); unfold fail_at; repeat es_step. Qed.
Lemma es_text : PresR errsame text.
Proof. unfold text. repeat first [apply es_slice | es_step]. Qed.
Lemma es_tag_name lower : PresR errsame (tag_name lower).
Proof. unfold tag_name. repeat first [apply es_slice | es_step]. Qed.
Lemma es_tag_attr lower : PresR errsame (tag_attr lower).
Proof. unfold tag_attr. repeat first [apply es_slice | apply es_index_attr | es_step]. Qed.
Lemma es_observe lower ty : PresR errsame (observe lower ty).
Proof. unfold observe, raw. repeat first [apply es_slice | apply es_text | apply es_tag_name | apply es_tag_attr | es_step]. Qed.

(* ---- on valid UTF-8 the accessors succeed ---- *)
Definition data_bnd (inp : list N) (s : st) : Prop := bnd inp (data_start s) /\ bnd inp (data_end s).

Lemma text_no_err inp s a s' : utf8_valid inp = true -> wf inp s -> data_ok inp s -> data_bnd inp s ->
  text inp s = (a, s') -> a <> RErr.
Proof.
  intros U W (D1 & D2) (B1 & B2) EQ. unfold text in EQ. mstep EQ.
  destruct (token s); try (mstep EQ; discriminate).
  all: mstep EQ; mstep EQ;
    [ exfalso; try apply negb_true_iff in C; pose proof (utf8_valid_sub inp _ _ U B1 B2 D1) as V; unfold sub in V; rewrite V in C; discriminate C
    | mrun EQ; discriminate ].
Qed.
Lemma tag_name_no_err lower inp s a s' : utf8_valid inp = true -> wf inp s -> data_ok inp s -> data_bnd inp s ->
  tag_name lower inp s = (a, s') -> a <> RErr.
Proof.
  intros U W (D1 & D2) (B1 & B2) EQ. unfold tag_name in EQ. mstep EQ. mstep EQ.
  2:{ mstep EQ. discriminate. }
  destruct (token s); try (mstep EQ; discriminate).
  all: mstep EQ; mstep EQ;
    [ exfalso; try apply negb_true_iff in C0; pose proof (utf8_valid_sub inp _ _ U B1 B2 D1) as V; unfold sub in V; rewrite V in C0; discriminate C0
    | mrun EQ; discriminate ].
Qed.
Lemma tag_attr_no_err lower inp s a s' : utf8_valid inp = true -> wf inp s -> Forall (attr_bnd inp) (attribute s) ->
  tag_attr lower inp s = (a, s') -> a <> RErr.
Proof.
  intros U W AB EQ. unfold tag_attr in EQ. mstep EQ. mstep EQ.
  2:{ mstep EQ. discriminate. }
  destruct (token s); try (mstep EQ; discriminate).
  all: mstep EQ;
    destruct (index_attr_ok 54 (attribute s) (number_attribute_returned s) inp s C) as (at_ & Hat & Eat);
    rewrite Eat in Eh; apply pair_equal_spec in Eh; destruct Eh as [<- <-];
    pose proof (wf_attrs _ _ W) as Fa; rewrite Forall_forall in Fa; destruct (Fa _ (nth_error_In _ _ Hat)) as ((K1 & K2) & (V1 & V2));
    rewrite Forall_forall in AB; destruct (AB _ (nth_error_In _ _ Hat)) as (Bk1 & Bk2 & Bv1 & Bv2);
    mstep EQ; mstep EQ; mstep EQ;
    [ exfalso; try apply negb_true_iff in C0; pose proof (utf8_valid_sub inp _ _ U Bk1 Bk2 K1) as V; unfold sub in V; rewrite V in C0; discriminate C0 | ];
    mstep EQ; mstep EQ;
    [ exfalso; try apply negb_true_iff in C1; pose proof (utf8_valid_sub inp _ _ U Bv1 Bv2 V1) as V; unfold sub in V; rewrite V in C1; discriminate C1 | ];
    mrun EQ; discriminate.
Qed.

Lemma slice_frame site a b inp s x s0 : slice site a b inp s = (x, s0) ->
  data_start s0 = data_start s /\ data_end s0 = data_end s /\ raw_end s0 = raw_end s.
Proof.
  unfold slice. intros E. apply pair_equal_spec in E. destruct E as [_ <-].
  destruct ((a <=? b) && (b <=? length inp)); [auto|]. unfold set_panic_site. destruct (panic s); auto.
Qed.

Lemma text_data inp s a s' : text inp s = (a, s') ->
  (data_start s' = data_start s /\ data_end s' = data_end s) \/ (data_start s' = raw_end s /\ data_end s' = raw_end s).
Proof.
  intros EQ. unfold text in EQ. mstep EQ.
  destruct (token s); try solve [mstep EQ; left; auto].
  all: mstep EQ; apply slice_frame in Eh; destruct Eh as (X1 & X2 & X3); mstep EQ;
    [mstep EQ; left; auto|]; mrun EQ; right; scbn; auto.
Qed.

Definition no_error_obs (t : tok_obs) : Prop :=
  utf8_valid (o_raw t) = true /\ o_text t <> RErr /\ o_name t <> RErr /\ Forall (fun a => a <> RErr) (o_attrs t).

Lemma observe_acc lower ty inp s o s' : utf8_valid inp = true -> wf inp s -> data_ok inp s -> data_bnd inp s ->
  bnd inp (raw_start s) -> bnd inp (raw_end s) -> Forall (attr_bnd inp) (attribute s) ->
  observe lower ty inp s = (o, s') ->
  no_error_obs o /\ wf inp s' /\ raw_end s' = raw_end s /\ attribute s' = attribute s /\ err s' = err s.
Proof.
  intros U W D DB Brs Bre AB EQ. pose proof (es_observe lower ty inp s) as Es. rewrite EQ in Es. cbn [snd] in Es.
  unfold observe in EQ. mstep EQ. mstep EQ. rewrite (raw_ok _ _ W) in Eh. apply pair_equal_spec in Eh. destruct Eh as [<- <-].
  mstep EQ. lazymatch type of Eh with _ = (?y, ?z) => rename y into tx; rename z into t1 end.
  pose proof (text_no_err _ _ _ _ U W D DB Eh) as Ntx. pose proof (text_data _ _ _ _ Eh) as Dtx.
  apply text_spec in Eh; auto. destruct Eh as (W1 & R11 & R12 & D1 & _ & A1 & _).
  assert (DB1 : data_bnd inp t1).
  { destruct DB as [DBa DBb]. destruct Dtx as [[X Y]|[X Y]]; split; rewrite ?X, ?Y; assumption. }
  mstep EQ. lazymatch type of Eh with _ = (?y, ?z) => rename y into nm; rename z into t2 end.
  pose proof (tag_name_no_err _ _ _ _ _ U W1 D1 DB1 Eh) as Nnm.
  apply tag_name_spec in Eh; auto. destruct Eh as (W2 & R21 & R22 & D2 & _ & A2 & _).
  mstep EQ. lazymatch type of Eh with _ = (?y, ?z) => rename y into ats; rename z into t3 end.
  eapply (loop_in_rule inp _
            (fun acc t => wf inp t /\ raw_end t = raw_end s /\ data_ok inp t /\ attribute t = attribute s
                          /\ Forall (fun a => a <> RErr) acc)
            (fun _ t => length (attribute s) - number_attribute_returned t)
            (fun (res : option (list attr_res)) t => wf inp t /\ raw_end t = raw_end s /\ attribute t = attribute s
                          /\ match res with Some l => Forall (fun a => a <> RErr) l | None => True end)) in Eh.
  - destruct Eh as (W3 & R3 & A3 & F3). mstep EQ. split.
    + unfold no_error_obs. cbn [o_raw o_text o_name o_attrs]. wsplit; auto.
      * destruct W. apply utf8_valid_sub; auto.
      * destruct ats; [exact F3|constructor].
    + wsplit; auto.
  - clear Eh EQ. intros acc t r t' (Wt & Rt & Dt & At & Ft) Eb.
    mstep Eb. lazymatch type of Eh with _ = (?y, ?z) => rename y into av; rename z into t4 end.
    assert (Nav : av <> RErr). { eapply tag_attr_no_err; eauto. rewrite At. exact AB. }
    apply tag_attr_spec in Eh; auto. destruct Eh as ((W4 & R41 & R42 & D4 & _ & A4 & _) & Hprog).
    mstep Eb.
    + mstep Eb. wsplit; auto; try congruence. apply Forall_rev. constructor; assumption.
    + mstep Eb. split; [wsplit; auto; try congruence; constructor; assumption|].
      destruct Hprog as [->|[Hp1 Hp2]]; [discriminate C|]. rewrite At in Hp2. alia.
  - wsplit; auto; try congruence.
  - pose proof (wf_nattr _ _ W). alia.
Qed.

Lemma tok_loop_acc lower inp : lower_ok lower -> utf8_valid inp = true -> forall fuel acc s r s',
  wf0 inp s -> Gi inp s -> Forall (attr_bnd inp) (attribute s) -> Forall no_error_obs acc ->
  tok_loop lower fuel acc inp s = (r, s') ->
  Forall no_error_obs (fst r) /\ snd r <> 1%N.
Proof.
  intros LO U. induction fuel as [|f IH]; intros acc s r s' W0 G AB FA EQ; cbn [tok_loop] in EQ.
  - mstep EQ. mstep EQ. scbn. split; [apply Forall_rev; exact FA|discriminate].
  - mstep EQ. lazymatch type of Eh with _ = (?y, ?z) => rename y into r1; rename z into t1 end.
    pose proof Eh as Eh2.
    apply (next_spec lower inp s r1 t1 LO W0) in Eh. destruct Eh as (W1 & R1 & D11 & D12 & Tk & Pg).
    apply (next_bnd lower inp s r1 t1 LO W0 G AB) in Eh2. destruct Eh2 as (G1 & B11 & B12 & A1 & Ne).
    mstep EQ. rewrite (wf_panic _ _ W1), (wf_oof _ _ W1) in EQ. cbn [is_some orb] in EQ.
    destruct r1 as [ty|]; [|congruence].
    destruct (token_eqb ty ErrorToken) eqn:Ety.
    { mstep EQ. scbn. split; [apply Forall_rev; exact FA|discriminate]. }
    mstep EQ. lazymatch type of Eh with _ = (?y, ?z) => rename y into o; rename z into t2 end.
    apply observe_acc in Eh; auto; try (split; assumption).
    2:{ rewrite R1. apply G. }
    2:{ apply G1. }
    destruct Eh as (No & W2 & R2 & A2 & E2).
    apply IH in EQ; auto.
    + apply wf0_of; exact W2.
    + destruct G1 as [G1a G1b]. unfold Gi, Ei. rewrite R2, E2. split; assumption.
    + rewrite A2. exact A1.
Qed.

Lemma new_fragment_Gi lower ctx inp : Gi inp (new_fragment lower ctx) /\ Forall (attr_bnd inp) (attribute (new_fragment lower ctx)).
Proof.
  unfold new_fragment, Gi, Ei. destruct (negb (is_nil ctx)); [destruct (mem_str (lower ctx) raw_text_elements)|];
    cbn; (split; [split; [left; reflexivity|discriminate]|constructor]).
Qed.

(* T4: on valid UTF-8 no accessor fails and next never returns Err *)
Lemma accessors : forall (lower : str -> str) (ctx : str) (fuel : nat) (b : str) toks fin,
  lower_ok lower -> utf8_valid b = true -> tokenize_all lower ctx fuel b = Ok (toks, fin) ->
  Forall no_error_obs toks /\ f_end fin <> 1%N.
Proof.
  intros lower ctx fuel b toks fin LO U H. unfold tokenize_all, run_outcome in H.
  match type of H with context [?m b (new_fragment lower ctx)] => destruct (m b (new_fragment lower ctx)) as [res sf] eqn:EQ end.
  mstep EQ. lazymatch type of Eh with _ = (?y, ?z) => rename y into r1; rename z into t1 end.
  pose proof (new_fragment_wf0 lower ctx b) as W0. destruct (new_fragment_Gi lower ctx b) as [G0 A0].
  destruct (tok_loop_acc lower b LO U fuel [] _ r1 t1 W0 G0 A0 (Forall_nil _) Eh) as (Ha & Hb).
  mstep EQ. mstep EQ. mstep EQ. mstep EQ.
  repeat match type of H with context [match ?c with _ => _ end] => destruct c end; try discriminate.
  injection H as <- <-. cbn [f_end]. split; assumption.
Qed.

