(* HtmlTokProofs.v — proofs about the tokenizer model RIO.HtmlTok / RIO.C16Run (statements pinned in properties/C16.v). *)
Require Import RIO.Base RIO.TokMonad RIO.HtmlTok RIO.C16Run RIO.TokLogic.

(* ================= part 1: every function respects [ext] (frames raw_start, never resets panic/oof/err) *)

Lemma pres_skip_white_space : Pres skip_white_space.
Proof. unfold skip_white_space. pres. Qed.
#[export] Hint Resolve pres_skip_white_space : pres.
Lemma pres_read_raw_end_tag : Pres read_raw_end_tag.
Proof. unfold read_raw_end_tag. pres. Qed.
#[export] Hint Resolve pres_read_raw_end_tag : pres.

Definition script_all (P : M unit -> Prop) (f : nat) : Prop :=
  P (read_script_data f) /\ P (read_script_data_less_than_sign f) /\ P (read_script_data_end_tag_open f)
  /\ P (read_script_data_escape_start f) /\ P (read_script_data_escape_start_dash f)
  /\ P (read_script_data_escaped f) /\ P (read_script_data_escaped_dash f) /\ P (read_script_data_escaped_dash_dash f)
  /\ P (read_script_data_escaped_less_than_sign f) /\ P (read_script_data_escaped_end_tag_open f)
  /\ P (read_script_data_double_escape_start f) /\ P (read_script_data_double_escaped f)
  /\ P (read_script_data_double_escaped_dash f) /\ P (read_script_data_double_escaped_dash_dash f)
  /\ P (read_script_data_double_escaped_less_than_sign f) /\ P (read_script_data_double_escaped_end f).

Ltac script_unfold :=
  cbn [read_script_data read_script_data_less_than_sign read_script_data_end_tag_open
       read_script_data_escape_start read_script_data_escape_start_dash read_script_data_escaped
       read_script_data_escaped_dash read_script_data_escaped_dash_dash read_script_data_escaped_less_than_sign
       read_script_data_escaped_end_tag_open read_script_data_double_escape_start read_script_data_double_escaped
       read_script_data_double_escaped_dash read_script_data_double_escaped_dash_dash
       read_script_data_double_escaped_less_than_sign read_script_data_double_escaped_end].

Lemma pres_script_all : forall f, script_all (@Pres unit) f.
Proof.
  induction f as [|f IH]; unfold script_all in *.
  - script_unfold. repeat split; apply pres_out_of_fuel.
  - destruct IH as (H1 & H2 & H3 & H4 & H5 & H6 & H7 & H8 & H9 & H10 & H11 & H12 & H13 & H14 & H15 & H16).
    repeat split; script_unfold; pres.
Qed.
Lemma pres_read_script_data f : Pres (read_script_data f).
Proof. apply (pres_script_all f). Qed.
#[export] Hint Resolve pres_read_script_data : pres.

Lemma pres_read_script : Pres read_script.
Proof. unfold read_script. pres. Qed.
#[export] Hint Resolve pres_read_script : pres.
Lemma pres_read_raw_or_cdata : Pres read_raw_or_cdata.
Proof. unfold read_raw_or_cdata. pres. Qed.
#[export] Hint Resolve pres_read_raw_or_cdata : pres.
Lemma pres_read_comment : Pres read_comment.
Proof. unfold read_comment. pres. Qed.
#[export] Hint Resolve pres_read_comment : pres.
Lemma pres_read_until_close_angle : Pres read_until_close_angle.
Proof. unfold read_until_close_angle. pres. Qed.
#[export] Hint Resolve pres_read_until_close_angle : pres.
Lemma pres_read_doc_type : Pres read_doc_type.
Proof. unfold read_doc_type. pres. Qed.
#[export] Hint Resolve pres_read_doc_type : pres.
Lemma pres_read_cdata : Pres read_cdata.
Proof. unfold read_cdata. pres. Qed.
#[export] Hint Resolve pres_read_cdata : pres.
Lemma pres_read_markup_declaration : Pres read_markup_declaration.
Proof. unfold read_markup_declaration. pres. Qed.
#[export] Hint Resolve pres_read_markup_declaration : pres.
Lemma pres_start_tag_in ss : Pres (start_tag_in ss).
Proof. induction ss as [|s_ ss IH]; cbn [start_tag_in]; pres. Qed.
#[export] Hint Resolve pres_start_tag_in : pres.
Lemma pres_read_tag_name : Pres read_tag_name.
Proof. unfold read_tag_name. pres. Qed.
#[export] Hint Resolve pres_read_tag_name : pres.
Lemma pres_read_tag_name_attr_key : Pres read_tag_name_attr_key.
Proof. unfold read_tag_name_attr_key. pres. Qed.
#[export] Hint Resolve pres_read_tag_name_attr_key : pres.
Lemma pres_read_tag_name_attr_value : Pres read_tag_name_attr_value.
Proof. unfold read_tag_name_attr_value. pres. Qed.
#[export] Hint Resolve pres_read_tag_name_attr_value : pres.
Lemma pres_read_tag b : Pres (read_tag b).
Proof. unfold read_tag. pres. Qed.
#[export] Hint Resolve pres_read_tag : pres.
Lemma pres_read_start_tag lower : Pres (read_start_tag lower).
Proof. unfold read_start_tag. pres. Qed.
#[export] Hint Resolve pres_read_start_tag : pres.

(* ================= part 2: C16_lossless *)

(* ---- next: raw_start := raw_end, the rest is framed ---- *)
Definition next_init (s : st) : st :=
  set_data_end (raw_end s) (set_data_start (raw_end s) (set_raw_start (raw_end s) s)).

Lemma next_ext lower inp s : ext (next_init s) (snd (next lower inp s)).
Proof.
  unfold next. rewrite !bind_upd. cbn [raw_end set_raw_start set_data_start].
  change (set_data_end (raw_end s) (set_data_start (raw_end s) (set_raw_start (raw_end s) s))) with (next_init s).
  apply pres_apply. pres.
Qed.

Lemma next_raw_start lower inp s : raw_start (snd (next lower inp s)) = raw_end s.
Proof. rewrite (ext_rs _ _ (next_ext lower inp s)). reflexivity. Qed.

Lemma next_sticky lower inp s :
  let s' := snd (next lower inp s) in
  (panic s' = None -> panic s = None) /\ (oof s' = false -> oof s = false) /\ (err s' = false -> err s = false).
Proof. destruct (next_ext lower inp s) as [_ _ Hp Ho He]. cbn in *. auto. Qed.

(* ---- accessors: frame raw_start AND raw_end ---- *)
Definition ext2 (s s' : st) : Prop := ext s s' /\ raw_end s' = raw_end s.
Lemma ext2_refl s : ext2 s s.
Proof. split; [apply ext_refl|reflexivity]. Qed.
Lemma ext2_trans a b c : ext2 a b -> ext2 b c -> ext2 a c.
Proof. intros [H1 E1] [H2 E2]. split; [eapply ext_trans; eauto|congruence]. Qed.
Lemma ext2_oof s : ext2 s (set_oof true s).
Proof. split; [apply ext_oof_true|reflexivity]. Qed.
Definition Pres2 {A} (m : M A) : Prop := PresR ext2 m.

Ltac ext2_upd := intros; split; [ext_upd | reflexivity].

Lemma ext2_set_panic_site site s : ext2 s (set_panic_site site s).
Proof. split; [apply ext_set_panic_site|]. unfold set_panic_site. destruct (panic s); reflexivity. Qed.
Lemma pres2_slice site a b : Pres2 (slice site a b).
Proof. intros inp s. unfold slice. cbn. destruct ((a <=? b) && (b <=? length inp)). apply ext2_refl. apply ext2_set_panic_site. Qed.
Lemma pres2_slice_from site a : Pres2 (slice_from site a).
Proof. intros inp s. unfold slice_from. cbn. destruct (a <=? length inp). apply ext2_refl. apply ext2_set_panic_site. Qed.
Lemma pres2_index_attr site l i : Pres2 (index_attr site l i).
Proof.
  unfold index_attr. destruct (nth_error l i). apply presR_ret, ext2_refl.
  apply (presR_bind ext2 ext2_trans). apply presR_upd. apply ext2_set_panic_site. intros; apply presR_ret, ext2_refl.
Qed.

Ltac pres2_step :=
  first
    [ apply (presR_ret ext2 ext2_refl) | apply (presR_get ext2 ext2_refl)
    | apply pres2_slice | apply pres2_slice_from | apply pres2_index_attr
    | assumption
    | apply (presR_upd ext2); solve [ext2_upd]
    | apply (presR_loop_in ext2 ext2_refl ext2_trans ext2_oof); intros
    | apply (presR_bind ext2 ext2_trans); [| intros ]
    | match goal with
      | |- PresR ext2 (if ?c then _ else _) => destruct c
      | |- PresR ext2 (match ?c with _ => _ end) => destruct c
      | |- Pres2 (if ?c then _ else _) => destruct c
      | |- Pres2 (match ?c with _ => _ end) => destruct c
      end ].
Ltac pres2 := unfold Pres2; repeat pres2_step.

Lemma pres2_raw : Pres2 raw.
Proof. unfold raw. pres2. Qed.
Lemma pres2_buffered : Pres2 buffered.
Proof. unfold buffered. pres2. Qed.
Lemma pres2_text : Pres2 text.
Proof. unfold text. pres2. Qed.
Lemma pres2_tag_name lower : Pres2 (tag_name lower).
Proof. unfold tag_name. pres2. Qed.
Lemma pres2_tag_attr lower : Pres2 (tag_attr lower).
Proof. unfold tag_attr. pres2. Qed.

(* ---- slices ---- *)
Definition sub (b : str) (i j : nat) : str := firstn (j - i) (skipn i b).

Lemma slice_value site a b inp s : fst (slice site a b inp s) = sub inp a b.
Proof. reflexivity. Qed.
Lemma slice_in_range site a b inp s :
  panic (snd (slice site a b inp s)) = None -> a <= b /\ b <= length inp.
Proof.
  unfold slice. cbn. destruct (a <=? b) eqn:E1; destruct (b <=? length inp) eqn:E2; cbn;
    try (apply Nat.leb_le in E1); try (apply Nat.leb_le in E2); auto;
    unfold set_panic_site; destruct (panic s) eqn:E; cbn; congruence.
Qed.
Lemma slice_from_value site a inp s : fst (slice_from site a inp s) = skipn a inp.
Proof. reflexivity. Qed.
Lemma slice_from_in_range site a inp s :
  panic (snd (slice_from site a inp s)) = None -> a <= length inp.
Proof.
  unfold slice_from. cbn. destruct (a <=? length inp) eqn:E1; cbn; try (apply Nat.leb_le in E1); auto.
  unfold set_panic_site; destruct (panic s) eqn:E; cbn; congruence.
Qed.

Lemma firstn_add {A} a c (l : list A) : firstn (a + c) l = firstn a l ++ firstn c (skipn a l).
Proof.
  revert l. induction a as [|a IH]; intros l; cbn [Nat.add firstn skipn app]. reflexivity.
  destruct l as [|x l]; cbn [firstn skipn app]. destruct c; reflexivity. rewrite IH. reflexivity.
Qed.
Lemma skipn_skipn' {A} x y (l : list A) : skipn x (skipn y l) = skipn (y + x) l.
Proof.
  revert l. induction y as [|y IH]; intros l; cbn [Nat.add skipn]. reflexivity.
  destruct l as [|a l]. destruct x; reflexivity. apply IH.
Qed.
Lemma sub_app b i j k : i <= j -> j <= k -> k <= length b -> sub b i j ++ sub b j k = sub b i k.
Proof.
  intros Hij Hjk Hk. unfold sub.
  replace (k - i) with ((j - i) + (k - j)) by lia.
  rewrite firstn_add. rewrite skipn_skipn'. replace (i + (j - i)) with j by lia. reflexivity.
Qed.
Lemma sub_skipn b q : q <= length b -> sub b 0 q ++ skipn q b = b.
Proof. intros _. unfold sub. cbn [skipn]. rewrite Nat.sub_0_r. apply firstn_skipn. Qed.
Lemma sub_nil b i : sub b i i = [].
Proof. unfold sub. rewrite Nat.sub_diag. reflexivity. Qed.

Lemma raw_spec inp s :
  fst (raw inp s) = sub inp (raw_start s) (raw_end s) /\ ext2 s (snd (raw inp s))
  /\ (panic (snd (raw inp s)) = None -> raw_start s <= raw_end s /\ raw_end s <= length inp).
Proof.
  split; [reflexivity|]. split; [apply pres2_raw|]. unfold raw. rewrite bind_get. apply slice_in_range.
Qed.
Lemma buffered_spec inp s :
  fst (buffered inp s) = skipn (raw_end s) inp /\ ext2 s (snd (buffered inp s))
  /\ (panic (snd (buffered inp s)) = None -> raw_end s <= length inp).
Proof.
  split; [reflexivity|]. split; [apply pres2_buffered|]. unfold buffered. rewrite bind_get. apply slice_from_in_range.
Qed.

Lemma pres2_attr_loop lower : Pres2 (loop_in (fun acc : list attr_res =>
           a <- tag_attr lower ;;
           if is_attr_none a then ret (Return (rev (a :: acc))) else ret (Continue (a :: acc))) []).
Proof. pres2; try apply pres2_tag_attr. Qed.

Lemma observe_spec lower ty inp s :
  let r := observe lower ty inp s in
  ext2 s (snd r) /\ o_rs (fst r) = N.of_nat (raw_start s) /\ o_re (fst r) = N.of_nat (raw_end s)
  /\ o_raw (fst r) = sub inp (raw_start s) (raw_end s)
  /\ (panic (snd r) = None -> raw_start s <= raw_end s /\ raw_end s <= length inp).
Proof.
  unfold observe. rewrite bind_get. rewrite !bind_eq. cbn [fst snd ret o_rs o_re o_raw].
  destruct (raw_spec inp s) as (Hv & Hx & Hr).
  set (s1 := snd (raw inp s)) in *.
  set (s2 := snd (text inp s1)).
  set (s3 := snd (tag_name lower inp s2)).
  match goal with |- context [snd (?L inp s3)] => set (s4 := snd (L inp s3)) end.
  assert (H12 : ext2 s1 s2) by apply pres2_text.
  assert (H23 : ext2 s2 s3) by apply pres2_tag_name.
  assert (H34 : ext2 s3 s4) by apply pres2_attr_loop.
  assert (H14 : ext2 s1 s4) by (eapply ext2_trans; [eassumption|eapply ext2_trans; eassumption]).
  split. { eapply ext2_trans; eassumption. }
  repeat split; auto.
  - apply Hr. apply (ext_panic _ _ (proj1 H14)). assumption.
  - apply Hr. apply (ext_panic _ _ (proj1 H14)). assumption.
Qed.

(* ---- sticky flags through the driver ---- *)
Definition sticky (s s' : st) : Prop :=
  (panic s' = None -> panic s = None) /\ (oof s' = false -> oof s = false) /\ (err s' = false -> err s = false).
Lemma sticky_refl s : sticky s s.
Proof. repeat split; auto. Qed.
Lemma sticky_trans a b c : sticky a b -> sticky b c -> sticky a c.
Proof. intros (A1 & A2 & A3) (B1 & B2 & B3). repeat split; auto. Qed.
Lemma sticky_oof s : sticky s (set_oof true s).
Proof. repeat split; cbn; auto. discriminate. Qed.
Lemma ext_sticky s s' : ext s s' -> sticky s s'.
Proof. intros []. repeat split; auto. Qed.
Lemma sticky_next lower : PresR sticky (next lower).
Proof. intros inp s. apply next_sticky. Qed.
Lemma sticky_observe lower ty : PresR sticky (observe lower ty).
Proof. intros inp s. apply ext_sticky. apply (observe_spec lower ty inp s). Qed.
Lemma sticky_tok_loop lower : forall fuel acc, PresR sticky (tok_loop lower fuel acc).
Proof.
  induction fuel as [|f IH]; intros acc; cbn [tok_loop].
  - apply (presR_bind sticky sticky_trans). apply presR_upd. apply sticky_oof. intros; apply presR_ret, sticky_refl.
  - apply (presR_bind sticky sticky_trans). apply sticky_next. intros r.
    apply (presR_bind sticky sticky_trans). apply presR_get, sticky_refl. intros s1.
    destruct (is_some (panic s1) || oof s1). apply presR_ret, sticky_refl.
    destruct r as [ty|]; [|apply presR_ret, sticky_refl].
    destruct (token_eqb ty ErrorToken). apply presR_ret, sticky_refl.
    apply (presR_bind sticky sticky_trans). apply sticky_observe. intros o. apply IH.
Qed.

(* ---- the chain of spans ---- *)
Fixpoint spans_from (b : str) (pos : nat) (toks : list tok_obs) (last : nat) : Prop :=
  match toks with
  | [] => pos = last
  | t :: r => exists e, pos <= e /\ e <= length b /\ o_rs t = N.of_nat pos /\ o_re t = N.of_nat e
                        /\ o_raw t = sub b pos e /\ spans_from b e r last
  end.

Lemma spans_from_app b l1 : forall p m l2 q,
  spans_from b p l1 m -> spans_from b m l2 q -> spans_from b p (l1 ++ l2) q.
Proof.
  induction l1 as [|t l1 IH]; intros p m l2 q H1 H2; cbn [app spans_from] in *.
  - subst. exact H2.
  - destruct H1 as (e & A & B & C & D & E & G). exists e. repeat split; auto. eapply IH; eauto.
Qed.

Lemma spans_from_concat b toks : forall p q,
  spans_from b p toks q -> p <= length b -> p <= q /\ q <= length b /\ concat (map o_raw toks) = sub b p q.
Proof.
  induction toks as [|t toks IH]; intros p q H Hp; cbn [spans_from map concat] in *.
  - subst. rewrite sub_nil. auto.
  - destruct H as (e & A & B & C & D & E & G). destruct (IH e q G B) as (I1 & I2 & I3).
    repeat split; try lia. rewrite E, I3. apply sub_app; lia.
Qed.

Lemma tok_loop_spec lower inp : forall fuel acc s p0,
  spans_from inp p0 (rev acc) (raw_end s) ->
  let r := tok_loop lower fuel acc inp s in
  panic (snd r) = None -> oof (snd r) = false ->
  spans_from inp p0 (fst (fst r)) (raw_start (snd r)).
Proof.
  induction fuel as [|f IH]; intros acc s p0 Hacc; cbn [tok_loop].
  - cbn. discriminate.
  - rewrite bind_eq. rewrite bind_get.
    pose proof (next_raw_start lower inp s) as Hrs.
    set (s1 := snd (next lower inp s)) in *. set (r1 := fst (next lower inp s)).
    destruct (is_some (panic s1) || oof s1).
    { cbn. intros _ _. rewrite Hrs. exact Hacc. }
    destruct r1 as [ty|].
    2:{ cbn. intros _ _. rewrite Hrs. exact Hacc. }
    destruct (token_eqb ty ErrorToken).
    { cbn. intros _ _. rewrite Hrs. exact Hacc. }
    rewrite bind_eq. cbv zeta.
    destruct (observe_spec lower ty inp s1) as ((Hx & Hre) & Hors & Hore & Horaw & Hrange).
    set (o := fst (observe lower ty inp s1)) in *. set (s2 := snd (observe lower ty inp s1)) in *.
    intros Hp Ho.
    assert (Hp2 : panic s2 = None).
    { apply (sticky_tok_loop lower f (o :: acc) inp s2). exact Hp. }
    destruct (Hrange Hp2) as (R1 & R2).
    apply IH; auto.
    cbn [rev]. eapply spans_from_app. exact Hacc.
    cbn [spans_from]. exists (raw_end s1). rewrite Hrs in *. repeat split; auto.
Qed.

Lemma new_fragment_raw_end lower ctx : raw_end (new_fragment lower ctx) = 0.
Proof.
  unfold new_fragment. destruct (negb (is_nil ctx)); [|reflexivity].
  destruct (mem_str (lower ctx) raw_text_elements); reflexivity.
Qed.

Definition lossless_statement : Prop :=
  forall (lower : str -> str) (ctx : str) (fuel : nat) (b : str) (toks : list tok_obs) (fin : final_obs),
    tokenize_all lower ctx fuel b = Ok (toks, fin) ->
    concat (map o_raw toks) ++ f_err_raw fin ++ f_rest fin = b
    /\ exists p q, spans_from b 0 toks p /\ p <= q /\ q <= length b
         /\ f_ers fin = N.of_nat p /\ f_ere fin = N.of_nat q
         /\ f_err_raw fin = sub b p q /\ f_rest fin = skipn q b.

Lemma lossless : lossless_statement.
Proof.
  intros lower ctx fuel b toks fin H.
  unfold tokenize_all, run_outcome in H.
  rewrite bind_eq, bind_get, bind_eq, bind_eq in H. cbn [ret fst snd] in H.
  set (s0 := new_fragment lower ctx) in *.
  set (r := tok_loop lower fuel [] b s0) in *.
  destruct (raw_spec b (snd r)) as (Hv & (Hx1 & He1) & Hr).
  set (sB := snd (raw b (snd r))) in *.
  destruct (buffered_spec b sB) as (Hbv & (Hx2 & He2) & Hbr).
  set (sC := snd (buffered b sB)) in *.
  destruct (panic sC) eqn:EpC; [discriminate|]. destruct (oof sC) eqn:EoC; [discriminate|].
  injection H as Htoks Hfin.
  assert (HpB : panic sB = None) by (apply (ext_panic _ _ Hx2); exact EpC).
  assert (HoB : oof sB = false) by (apply (ext_oof _ _ Hx2); exact EoC).
  assert (HpA : panic (snd r) = None) by (apply (ext_panic _ _ Hx1); exact HpB).
  assert (HoA : oof (snd r) = false) by (apply (ext_oof _ _ Hx1); exact HoB).
  destruct (Hr HpB) as (R1 & R2).
  assert (Hsp : spans_from b 0 (fst (fst r)) (raw_start (snd r))).
  { apply tok_loop_spec; auto. cbn [rev spans_from]. unfold s0. rewrite new_fragment_raw_end. reflexivity. }
  rewrite Htoks in Hsp.
  destruct (spans_from_concat b toks 0 _ Hsp (Nat.le_0_l _)) as (C1 & C2 & C3).
  subst fin. cbn [f_ers f_ere f_err_raw f_rest].
  split.
  - rewrite C3, He1. fold (sub b (raw_start (snd r)) (raw_end (snd r))). rewrite app_assoc. rewrite sub_app by lia. apply sub_skipn. lia.
  - exists (raw_start (snd r)), (raw_end (snd r)). repeat split; auto. rewrite He1. reflexivity.
Qed.

(* ================= part 3: prefix stability (C16_stable) *)

(* the 16 script states individually, for the hint database *)
Lemma pres_script_each f :
  Pres (read_script_data_less_than_sign f) /\ Pres (read_script_data_end_tag_open f)
  /\ Pres (read_script_data_escape_start f) /\ Pres (read_script_data_escape_start_dash f)
  /\ Pres (read_script_data_escaped f) /\ Pres (read_script_data_escaped_dash f) /\ Pres (read_script_data_escaped_dash_dash f)
  /\ Pres (read_script_data_escaped_less_than_sign f) /\ Pres (read_script_data_escaped_end_tag_open f)
  /\ Pres (read_script_data_double_escape_start f) /\ Pres (read_script_data_double_escaped f)
  /\ Pres (read_script_data_double_escaped_dash f) /\ Pres (read_script_data_double_escaped_dash_dash f)
  /\ Pres (read_script_data_double_escaped_less_than_sign f) /\ Pres (read_script_data_double_escaped_end f).
Proof. apply (pres_script_all f). Qed.
Lemma pres_s2 f : Pres (read_script_data_less_than_sign f). Proof. apply (pres_script_each f). Qed.
Lemma pres_s3 f : Pres (read_script_data_end_tag_open f). Proof. apply (pres_script_each f). Qed.
Lemma pres_s4 f : Pres (read_script_data_escape_start f). Proof. apply (pres_script_each f). Qed.
Lemma pres_s5 f : Pres (read_script_data_escape_start_dash f). Proof. apply (pres_script_each f). Qed.
Lemma pres_s6 f : Pres (read_script_data_escaped f). Proof. apply (pres_script_each f). Qed.
Lemma pres_s7 f : Pres (read_script_data_escaped_dash f). Proof. apply (pres_script_each f). Qed.
Lemma pres_s8 f : Pres (read_script_data_escaped_dash_dash f). Proof. apply (pres_script_each f). Qed.
Lemma pres_s9 f : Pres (read_script_data_escaped_less_than_sign f). Proof. apply (pres_script_each f). Qed.
Lemma pres_s10 f : Pres (read_script_data_escaped_end_tag_open f). Proof. apply (pres_script_each f). Qed.
Lemma pres_s11 f : Pres (read_script_data_double_escape_start f). Proof. apply (pres_script_each f). Qed.
Lemma pres_s12 f : Pres (read_script_data_double_escaped f). Proof. apply (pres_script_each f). Qed.
Lemma pres_s13 f : Pres (read_script_data_double_escaped_dash f). Proof. apply (pres_script_each f). Qed.
Lemma pres_s14 f : Pres (read_script_data_double_escaped_dash_dash f). Proof. apply (pres_script_each f). Qed.
Lemma pres_s15 f : Pres (read_script_data_double_escaped_less_than_sign f). Proof. apply (pres_script_each f). Qed.
Lemma pres_s16 f : Pres (read_script_data_double_escaped_end f). Proof. apply (pres_script_each f). Qed.
#[export] Hint Resolve pres_s2 pres_s3 pres_s4 pres_s5 pres_s6 pres_s7 pres_s8 pres_s9 pres_s10 pres_s11 pres_s12
  pres_s13 pres_s14 pres_s15 pres_s16 : pres.

Lemma stable_skip_white_space : Stable skip_white_space.
Proof. unfold skip_white_space. stable. Qed.
#[export] Hint Resolve stable_skip_white_space : stable.
Lemma stable_read_raw_end_tag : Stable read_raw_end_tag.
Proof. unfold read_raw_end_tag. stable. Qed.
#[export] Hint Resolve stable_read_raw_end_tag : stable.

Lemma stable_script_all : forall f, script_all (@Stable unit) f.
Proof.
  induction f as [|f IH]; unfold script_all in *.
  - script_unfold. repeat split; apply stable_out_of_fuel.
  - destruct IH as (H1 & H2 & H3 & H4 & H5 & H6 & H7 & H8 & H9 & H10 & H11 & H12 & H13 & H14 & H15 & H16).
    repeat split; script_unfold; stable.
Qed.

Definition FuelMono {A} (F : nat -> M A) : Prop := forall f f', f <= f' -> Agree (F f) (F f').

Lemma agree_script_all : forall f f', f <= f' ->
  Agree (read_script_data f) (read_script_data f')
  /\ Agree (read_script_data_less_than_sign f) (read_script_data_less_than_sign f')
  /\ Agree (read_script_data_end_tag_open f) (read_script_data_end_tag_open f')
  /\ Agree (read_script_data_escape_start f) (read_script_data_escape_start f')
  /\ Agree (read_script_data_escape_start_dash f) (read_script_data_escape_start_dash f')
  /\ Agree (read_script_data_escaped f) (read_script_data_escaped f')
  /\ Agree (read_script_data_escaped_dash f) (read_script_data_escaped_dash f')
  /\ Agree (read_script_data_escaped_dash_dash f) (read_script_data_escaped_dash_dash f')
  /\ Agree (read_script_data_escaped_less_than_sign f) (read_script_data_escaped_less_than_sign f')
  /\ Agree (read_script_data_escaped_end_tag_open f) (read_script_data_escaped_end_tag_open f')
  /\ Agree (read_script_data_double_escape_start f) (read_script_data_double_escape_start f')
  /\ Agree (read_script_data_double_escaped f) (read_script_data_double_escaped f')
  /\ Agree (read_script_data_double_escaped_dash f) (read_script_data_double_escaped_dash f')
  /\ Agree (read_script_data_double_escaped_dash_dash f) (read_script_data_double_escaped_dash_dash f')
  /\ Agree (read_script_data_double_escaped_less_than_sign f) (read_script_data_double_escaped_less_than_sign f')
  /\ Agree (read_script_data_double_escaped_end f) (read_script_data_double_escaped_end f').
Proof.
  induction f as [|f IH]; intros f' Hle.
  - script_unfold. repeat split; intros inp s H; cbn in H; discriminate.
  - destruct f' as [|f']; [lia|]. assert (Hle' : f <= f') by lia.
    destruct (IH f' Hle') as (H1 & H2 & H3 & H4 & H5 & H6 & H7 & H8 & H9 & H10 & H11 & H12 & H13 & H14 & H15 & H16).
    repeat split; script_unfold; agree.
Qed.

Lemma stable_read_script : Stable read_script.
Proof.
  unfold read_script.
  apply (stable_ext _ (fun inp s => (fun f => read_script_data f ;;; upd (fun s => set_data_end (raw_end s) s))
                                       ((fun n => 3 * n + 10) (length inp)) inp s)); [reflexivity|].
  apply (stable_fuel (fun f => read_script_data f ;;; upd (fun s => set_data_end (raw_end s) s)) (fun n => 3 * n + 10)).
  - intros f. apply stable_bind; [apply (stable_script_all f)|intros; apply stable_upd|intros; pres].
  - intros f f' inp s Hle H.
    assert (HA : Agree (read_script_data f ;;; upd (fun s => set_data_end (raw_end s) s))
                       (read_script_data f' ;;; upd (fun s => set_data_end (raw_end s) s))).
    { apply agree_bind; [apply (agree_script_all f f' Hle)|intros; apply agree_refl|intros; pres]. }
    apply HA. exact H.
  - intros. lia.
Qed.
#[export] Hint Resolve stable_read_script : stable.

Lemma stable_read_raw_or_cdata : Stable read_raw_or_cdata.
Proof. unfold read_raw_or_cdata. stable. Qed.
#[export] Hint Resolve stable_read_raw_or_cdata : stable.
Lemma stable_read_comment : Stable read_comment.
Proof. unfold read_comment. stable. Qed.
#[export] Hint Resolve stable_read_comment : stable.
Lemma stable_read_until_close_angle : Stable read_until_close_angle.
Proof. unfold read_until_close_angle. stable. Qed.
#[export] Hint Resolve stable_read_until_close_angle : stable.
Lemma stable_read_doc_type : Stable read_doc_type.
Proof. unfold read_doc_type. stable. Qed.
#[export] Hint Resolve stable_read_doc_type : stable.
Lemma stable_read_cdata : Stable read_cdata.
Proof. unfold read_cdata. stable. Qed.
#[export] Hint Resolve stable_read_cdata : stable.
Lemma stable_read_markup_declaration : Stable read_markup_declaration.
Proof. unfold read_markup_declaration. stable. Qed.
#[export] Hint Resolve stable_read_markup_declaration : stable.
Lemma stable_start_tag_in ss : Stable (start_tag_in ss).
Proof. induction ss as [|s_ ss IH]; cbn [start_tag_in]; stable. Qed.
#[export] Hint Resolve stable_start_tag_in : stable.
Lemma stable_read_tag_name : Stable read_tag_name.
Proof. unfold read_tag_name. stable. Qed.
#[export] Hint Resolve stable_read_tag_name : stable.
Lemma stable_read_tag_name_attr_key : Stable read_tag_name_attr_key.
Proof. unfold read_tag_name_attr_key. stable. Qed.
#[export] Hint Resolve stable_read_tag_name_attr_key : stable.
Lemma stable_read_tag_name_attr_value : Stable read_tag_name_attr_value.
Proof. unfold read_tag_name_attr_value. stable. Qed.
#[export] Hint Resolve stable_read_tag_name_attr_value : stable.
Lemma stable_read_tag b : Stable (read_tag b).
Proof. unfold read_tag. stable. Qed.
#[export] Hint Resolve stable_read_tag : stable.
Lemma stable_read_start_tag lower : Stable (read_start_tag lower).
Proof. unfold read_start_tag. stable. Qed.
#[export] Hint Resolve stable_read_start_tag : stable.
Lemma stable_next lower : Stable (next lower).
Proof. unfold next. stable. Qed.

Lemma pres_of_pres2 {A} (m : M A) : Pres2 m -> Pres m.
Proof. intros H inp s. apply H. Qed.
Lemma pres_text : Pres text. Proof. apply pres_of_pres2, pres2_text. Qed.
Lemma pres_raw : Pres raw. Proof. apply pres_of_pres2, pres2_raw. Qed.
Lemma pres_tag_name lower : Pres (tag_name lower). Proof. apply pres_of_pres2, pres2_tag_name. Qed.
Lemma pres_tag_attr lower : Pres (tag_attr lower). Proof. apply pres_of_pres2, pres2_tag_attr. Qed.
#[export] Hint Resolve pres_text pres_raw pres_tag_name pres_tag_attr : pres.
Lemma stable_raw : Stable raw.
Proof. unfold raw. stable. Qed.
Lemma stable_text : Stable text.
Proof. unfold text. stable. Qed.
Lemma stable_tag_name lower : Stable (tag_name lower).
Proof. unfold tag_name. stable. Qed.
Lemma stable_tag_attr lower : Stable (tag_attr lower).
Proof. unfold tag_attr. stable. Qed.

Lemma next_stable lower d1 d2 s :
  err (snd (next lower d1 s)) = false -> oof (snd (next lower d1 s)) = false -> panic (snd (next lower d1 s)) = None ->
  next lower (d1 ++ d2) s = next lower d1 s.
Proof. intros He Ho Hp. apply stable_next. repeat split; assumption. Qed.
