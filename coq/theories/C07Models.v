(* C07Models.v — small checked models written for C07: functions of the crate whose panic-capable sites are justified by a
   lemma here (tools/panic_ledger.json, class "lemma").  Hand transliterations, one Gallina function per Rust function, every
   index and unsigned subtraction CHECKED (returns [Panic site] when the Rust expression would panic); no correspondence
   harness of their own: the functions are a few lines long and are exercised through the body-filter runs of C03 / C04 / C15
   and the C07 search.

   1. The element-tree cursor of the HTML body visitors
      (src/filter/html_body_action/body_append.rs, body_prepend.rs, body_replace.rs: enter / leave / first).
      State: position (usize); constant: element_tree.len().  Only the cursor arithmetic is modelled, not the strings.

        enter:  element_tree[position]                                   site 1
                if position + 1 < len { position += 1; element_tree[position] }   site 2
        leave:  element_tree[position]                                   site 3
                if position as i32 > 0 [&& !is_buffering  -- BodyReplace only]
                     { position -= 1;                                     site 4
                       element_tree[position] }                           site 5
        first:  element_tree[0]                                          site 6

      HtmlBodyVisitor::new returns None for an empty element_tree, so every visitor starts with position = 0 < len. *)
Require Import RIO.Base.
Open Scope N_scope.

Definition idx (site : N) (len pos : N) : outcome unit := if pos <? len then Ok tt else Panic site.
Definition sub1 (site : N) (p : N) : outcome N := if 0 <? p then Ok (p - 1) else Panic site.
(* `position as i32 > 0` on a 64-bit usize: the low 32 bits read as a signed number *)
Definition as_i32_pos (p : N) : bool := let m := p mod 4294967296 in (0 <? m) && (m <? 2147483648).

Definition v_enter (len pos : N) : outcome N :=
  obind (idx 1 len pos) (fun _ =>
  if pos + 1 <? len then obind (idx 2 len (pos + 1)) (fun _ => Ok (pos + 1)) else Ok pos).

(* [block] = is_buffering of BodyReplace (always false for BodyAppend / BodyPrepend) *)
Definition v_leave (block : bool) (len pos : N) : outcome N :=
  obind (idx 3 len pos) (fun _ =>
  if as_i32_pos pos && negb block
  then obind (sub1 4 pos) (fun p => obind (idx 5 len p) (fun _ => Ok p))
  else Ok pos).

Definition v_first (len pos : N) : outcome N := obind (idx 6 len 0) (fun _ => Ok pos).

Inductive vcall := VEnter | VLeave (block : bool) | VFirst.

Definition v_step (len : N) (c : vcall) (pos : N) : outcome N :=
  match c with VEnter => v_enter len pos | VLeave b => v_leave b len pos | VFirst => v_first len pos end.

Fixpoint v_run (len : N) (calls : list vcall) (pos : N) : outcome N :=
  match calls with
  | [] => Ok pos
  | c :: r => obind (v_step len c pos) (v_run len r)
  end.

Lemma as_i32_pos_nonzero p : as_i32_pos p = true -> 0 < p.
Proof.
  intros H. destruct (N.eq_dec p 0) as [->|Hp]; [vm_compute in H; discriminate|lia].
Qed.

Lemma v_step_total len c pos : pos < len -> exists p, v_step len c pos = Ok p /\ p < len.
Proof.
  intros H. assert (pos <? len = true) as Hlt by (apply N.ltb_lt; exact H).
  destruct c as [|b|]; cbn [v_step].
  - unfold v_enter, idx. rewrite Hlt. cbn [obind].
    destruct (pos + 1 <? len) eqn:E.
    + cbn [obind]. eexists; split; [reflexivity|]. apply N.ltb_lt in E. exact E.
    + eexists; split; [reflexivity|exact H].
  - unfold v_leave, idx at 1. rewrite Hlt. cbn [obind].
    destruct (as_i32_pos pos && negb b) eqn:E.
    + apply andb_prop in E. destruct E as [E _]. apply as_i32_pos_nonzero in E.
      unfold sub1. assert (0 <? pos = true) as -> by (apply N.ltb_lt; exact E). cbn [obind].
      unfold idx. assert (pos - 1 <? len = true) as -> by (apply N.ltb_lt; lia). cbn [obind].
      eexists; split; [reflexivity|lia].
    + eexists; split; [reflexivity|exact H].
  - unfold v_first, idx. assert (0 <? len = true) as -> by (apply N.ltb_lt; lia). cbn [obind].
    eexists; split; [reflexivity|exact H].
Qed.

(* every sequence of enter / leave / first calls on a visitor over a non-empty element tree returns, and the cursor stays
   inside the tree *)
Theorem visitor_cursor_total : forall len calls pos, pos < len -> exists p, v_run len calls pos = Ok p /\ p < len.
Proof.
  intros len calls. induction calls as [|c r IH]; intros pos H; cbn [v_run].
  - eexists; split; [reflexivity|exact H].
  - destruct (v_step_total len c pos H) as (p & -> & Hp). cbn [obind]. apply IH. exact Hp.
Qed.

(* the model is faithful to the failure: on an EMPTY tree (which HtmlBodyVisitor::new refuses) every call panics *)
Example visitor_empty_tree_panics :
  v_run 0 [VEnter] 0 = Panic 1 /\ v_run 0 [VLeave false] 0 = Panic 3 /\ v_run 0 [VFirst] 0 = Panic 6.
Proof. vm_compute. repeat split; reflexivity. Qed.
