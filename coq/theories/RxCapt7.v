(* RxCapt7.v — values accepted by the marker expressions [0-9]+ / [a-z]+ make the capture regex of the template match
   (completeness side, for the simple family), so that the match premise of the model-level capture theorem can be
   replaced by a condition on the VALUES. *)
Require Import Coq.Strings.String.
Require Import RIO.Base RIO.Pct RIO.Url RIO.Prefix RIO.RegexSem RIO.Marker RIO.MarkerProofs RIO.Tree RIO.TreeInst RIO.Rx RIO.RxMatch RIO.RxToks
               RIO.RxTokSem RIO.RxTokSem2 RIO.RxCapt3 RIO.RxCapt4 RIO.RxCapt5.
Close Scope N_scope.
Open Scope nat_scope.

Lemma star_class_intro ic neg items w : forall p rest, forallb (class_has ic neg items) w = true ->
  star_cl (reach ic (RClass neg items)) (p, w ++ rest) (p + length w, rest).
Proof.
  induction w as [|y w IH]; intros p rest H; [cbn [app length]; rewrite Nat.add_0_r; apply star_refl|].
  cbn [forallb] in H. apply andb_prop in H. destruct H as [Hy Hw]. cbn [app length].
  apply star_step with (S p, w ++ rest); [cbn [reach fst snd]; exists y, (w ++ rest); auto|cbn [fst]; lia|].
  replace (p + S (length w)) with (S p + length w) by lia. apply IH. exact Hw.
Qed.

(* which characters a marker body of the family accepts *)
Definition body_class (b : list N) (c : N) : bool :=
  if str_eqb b [91;48;45;57;93;43]%N then in_range 48 57 c else in_range 97 122 c.

Lemma G_rx_family_accepts b (whole : list N) pos w rest : body_dl b -> w <> [] -> forallb (body_class b) w = true ->
  skipn pos whole = w ++ rest -> G_rx false b whole pos (length w) = true.
Proof.
  intros Hb Hne Hw Hs. unfold G_rx.
  assert (Hgen : forall items, (forall c, body_class b c = true -> class_has false false items c = true) ->
            reaches_to false (RGroup (Some 1) (RPlus true (RClass false items))) pos (skipn pos whole) (length w) = true).
  { intros items Hi. apply reaches_to_iff. rewrite Hs, skipn_app, skipn_all, Nat.sub_diag. cbn [skipn app reach].
    destruct w as [|y w]; [contradiction|]. cbn [forallb] in Hw. apply andb_prop in Hw. destruct Hw as [Hy Hw'].
    exists (S pos, w ++ rest). split; [cbn [fst snd]; exists y, (w ++ rest); split; [reflexivity|split; [apply Hi; exact Hy|reflexivity]]|].
    cbn [length]. replace (pos + S (length w)) with (S pos + length w) by lia. apply star_class_intro.
    rewrite forallb_forall in *. intros x Hx. apply Hi. apply Hw'. exact Hx. }
  destruct Hb as [->| ->].
  - change (tok_atom 1 (TGrp [91;48;45;57;93;43]%N)) with (Some (RGroup (Some 1) (RPlus true (RClass false [CRange 48 57])), 2)).
    apply Hgen. intros c Hc. change (in_range 48 57 c = true) in Hc. unfold class_has. cbn [existsb citem_has andb xorb]. rewrite Hc. reflexivity.
  - change (tok_atom 1 (TGrp [91;97;45;122;93;43]%N)) with (Some (RGroup (Some 1) (RPlus true (RClass false [CRange 97 122])), 2)).
    apply Hgen. intros c Hc. change (in_range 97 122 c = true) in Hc. unfold class_has. cbn [existsb citem_has andb xorb]. rewrite Hc. reflexivity.
Qed.

Definition vals_ok (markers : list (str * str)) (val : str -> str) (ps : list piece) : Prop :=
  forall n, In n (refs ps) -> val n <> [] /\ forallb (body_class (MarkerProofs.regex_of markers n)) (val n) = true.

Lemma mt_ctok_accept markers val ps : Forall (piece_ok markers) ps -> vals_ok markers val ps ->
  forall (whole : list N) pos, skipn pos whole = instantiate val ps ->
  mt G_rx fold_rx false whole true (map (ctok markers) ps) pos (skipn pos whole) = true.
Proof.
  induction ps as [|p ps IH]; intros Hp Hv whole pos Hs; cbn [map mt].
  - rewrite Hs. reflexivity.
  - inversion Hp as [|x l Hp1 Hps]; subst.
    assert (Hv' : vals_ok markers val ps).
    { intros n Hn. apply Hv. cbn [refs flat_map]. apply in_or_app. right. exact Hn. }
    destruct p as [c|n]; cbn [ctok mt].
    + unfold instantiate in Hs. cbn [flat_map inst_piece app] in Hs. fold (instantiate val ps) in Hs. rewrite Hs.
      unfold ceq. rewrite N.eqb_refl. cbn [andb]. rewrite <- (RxTokSem2.skipn_cons_S pos whole c _ Hs). apply (IH Hps Hv'). apply (RxTokSem2.skipn_cons_S pos whole c _ Hs).
    + unfold instantiate in Hs. cbn [flat_map inst_piece] in Hs. fold (instantiate val ps) in Hs.
      destruct (Hv n) as [Hne Hcl]; [cbn [refs flat_map app]; left; reflexivity|]. destruct Hp1 as [Hb _].
      apply existsb_exists. exists (length (val n)). split.
      * apply in_seq. rewrite Hs, app_length. lia.
      * rewrite (G_rx_family_accepts _ whole pos (val n) (instantiate val ps) Hb Hne Hcl Hs). cbn [andb].
        rewrite skipn_add. apply (IH Hps Hv'). rewrite <- skipn_add, Hs, skipn_app, skipn_all, Nat.sub_diag. reflexivity.
Qed.

Lemma ctok_toks_ok markers ps : Forall (piece_ok markers) ps -> toks_ok (map (ctok markers) ps).
Proof.
  unfold toks_ok. induction 1 as [|p ps Hp _ IH]; [reflexivity|]. cbn [map forallb]. rewrite IH, andb_true_r.
  destruct p as [c|n]; [reflexivity|]. cbn [ctok]. destruct Hp as [[->| ->] _]; reflexivity.
Qed.

Theorem capture_regex_matches markers val ps : Forall (piece_ok markers) ps -> vals_ok markers val ps ->
  rx_is_match false (Tree.leaf_regex (render (map (ctok markers) ps))) (instantiate val ps) = true.
Proof.
  intros Hp Hv. rewrite (rx_full_match_tokens false _ _ (ctok_toks_ok markers ps Hp)). unfold full_match.
  apply (mt_ctok_accept markers val ps Hp Hv (instantiate val ps) 0). reflexivity.
Qed.
