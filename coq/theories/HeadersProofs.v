(* HeadersProofs.v — the loop-level model of the five header actions equals the declarative reference. *)
Require Import RIO.Base RIO.Headers RIO.HeadersSpec.

Section Proofs.
Variable lower : str -> str.

Notation name_eq := (name_eq lower).
Notation same_name := (same_name lower).

Lemma name_eq_same a b : name_eq a b = same_name a b.
Proof. reflexivity. Qed.

(* --- loops as folds: generalise the accumulator --- *)
Lemma remove_fold n hs : forall acc,
  fold_left (fun acc h => if negb (name_eq (fst h) n) then acc ++ [h] else acc) hs acc
  = acc ++ others lower n hs.
Proof.
  induction hs as [|h hs IH]; intros acc; simpl.
  - rewrite app_nil_r. reflexivity.
  - rewrite IH. unfold HeadersSpec.same_name, Headers.name_eq.
    destruct (negb (str_eqb (lower (fst h)) (lower n))); simpl.
    + rewrite <- app_assoc. reflexivity.
    + reflexivity.
Qed.

Theorem remove_filter_spec n hs : remove_filter lower n hs = others lower n hs.
Proof. unfold remove_filter. rewrite remove_fold. reflexivity. Qed.

Lemma replace_fold n v hs : forall acc,
  fold_left (fun acc h => if name_eq (fst h) n then acc ++ [(n, v)] else acc ++ [h]) hs acc
  = acc ++ rewrite_all lower n v hs.
Proof.
  induction hs as [|h hs IH]; intros acc; simpl.
  - rewrite app_nil_r. reflexivity.
  - rewrite IH. unfold HeadersSpec.same_name, Headers.name_eq.
    destruct (str_eqb (lower (fst h)) (lower n)); rewrite <- app_assoc; reflexivity.
Qed.

Theorem replace_filter_spec n v hs : replace_filter lower n v hs = rewrite_all lower n v hs.
Proof. unfold replace_filter. rewrite replace_fold. reflexivity. Qed.

Lemma override_fold n v hs : forall acc fnd,
  fold_left (override_step lower n v) hs (acc, fnd)
  = (acc ++ rewrite_all lower n v hs, fnd || present lower n hs).
Proof.
  induction hs as [|h hs IH]; intros acc fnd; simpl.
  - rewrite app_nil_r, orb_false_r. reflexivity.
  - unfold override_step at 2. cbn [fst snd].
    unfold HeadersSpec.same_name, Headers.name_eq.
    destruct (str_eqb (lower (fst h)) (lower n)) eqn:E; simpl; rewrite IH, <- app_assoc; simpl.
    + rewrite orb_true_r. reflexivity.
    + reflexivity.
Qed.

Theorem override_filter_spec n v hs :
  override_filter lower n v hs
  = if present lower n hs then rewrite_all lower n v hs else hs ++ [(n, v)].
Proof.
  unfold override_filter. rewrite override_fold. cbn [fst snd orb app].
  destruct (present lower n hs) eqn:E; [reflexivity|].
  f_equal. (* nothing carries the name: the rewrite is the identity *)
  unfold rewrite_all. rewrite <- (map_id hs) at 2. apply map_ext_in.
  intros h Hin. unfold present in E.
  destruct (same_name (fst h) n) eqn:Eh; [|reflexivity].
  assert (existsb (fun h => same_name (fst h) n) hs = true) as Hx
    by (apply existsb_exists; exists h; auto).
  congruence.
Qed.

Lemma default_found_present n hs : default_found lower n hs = present lower n hs.
Proof.
  induction hs as [|h hs IH]; simpl; [reflexivity|].
  unfold HeadersSpec.same_name, Headers.name_eq. rewrite IH.
  destruct (str_eqb (lower (fst h)) (lower n)); reflexivity.
Qed.

Theorem default_filter_spec n v hs :
  default_filter lower n v hs = if present lower n hs then hs else hs ++ [(n, v)].
Proof. unfold default_filter. rewrite default_found_present. reflexivity. Qed.

(* --- frame: headers with another name keep value and relative order, for all five --- *)
Lemma same_name_refl n : same_name n n = true.
Proof. apply str_eqb_refl. Qed.

Lemma others_app n a b : others lower n (a ++ b) = others lower n a ++ others lower n b.
Proof. unfold others. apply filter_app. Qed.

Lemma others_self n v : others lower n [(n, v)] = [].
Proof. unfold others. simpl. rewrite same_name_refl. reflexivity. Qed.

Lemma others_idem n hs : others lower n (others lower n hs) = others lower n hs.
Proof.
  unfold others. induction hs as [|h hs IH]; simpl; [reflexivity|].
  destruct (negb (same_name (fst h) n)) eqn:E; simpl; rewrite ?E, IH; reflexivity.
Qed.

Lemma others_rewrite n v hs : others lower n (rewrite_all lower n v hs) = others lower n hs.
Proof.
  unfold others, rewrite_all. induction hs as [|h hs IH]; simpl; [reflexivity|].
  destruct (same_name (fst h) n) eqn:E; simpl.
  - rewrite same_name_refl. simpl. exact IH.
  - rewrite E. simpl. f_equal. exact IH.
Qed.

Theorem frame_reference_op f hs :
  others lower (hf_header f) (reference_op lower f hs) = others lower (hf_header f) hs.
Proof.
  unfold reference_op.
  repeat match goal with |- context [if ?c then _ else _] => destruct c end;
    rewrite ?others_app, ?others_self, ?app_nil_r, ?others_idem, ?others_rewrite; reflexivity.
Qed.

(* headers whose name differs from the filter's name are never touched, whatever name [m] we track *)
Theorem frame_other_name f hs m :
  same_name m (hf_header f) = false ->
  (forall a, same_name a m = true -> same_name a (hf_header f) = false) ->
  filter (fun h => same_name (fst h) m) (reference_op lower f hs)
  = filter (fun h => same_name (fst h) m) hs.
Proof.
  intros Hm Hdis. unfold reference_op.
  assert (Hrw : filter (fun h => same_name (fst h) m) (rewrite_all lower (hf_header f) (hf_value f) hs)
                = filter (fun h => same_name (fst h) m) hs).
  { unfold rewrite_all. induction hs as [|h hs IH]; simpl; [reflexivity|].
    destruct (same_name (fst h) (hf_header f)) eqn:E; simpl.
    - rewrite IH. assert (same_name (hf_header f) m = false) as ->.
      { unfold HeadersSpec.same_name in *. rewrite str_eqb_sym. exact Hm. }
      destruct (same_name (fst h) m) eqn:E2; [|reflexivity].
      apply Hdis in E2. congruence.
    - rewrite IH. reflexivity. }
  assert (Hot : filter (fun h => same_name (fst h) m) (others lower (hf_header f) hs)
                = filter (fun h => same_name (fst h) m) hs).
  { clear Hrw. unfold others. induction hs as [|h hs IH]; simpl; [reflexivity|].
    destruct (same_name (fst h) (hf_header f)) eqn:E; simpl.
    - rewrite IH. destruct (same_name (fst h) m) eqn:E2; [|reflexivity]. apply Hdis in E2. congruence.
    - rewrite IH. reflexivity. }
  assert (Happ : filter (fun h => same_name (fst h) m) (hs ++ [(hf_header f, hf_value f)])
                = filter (fun h => same_name (fst h) m) hs).
  { rewrite filter_app. simpl.
    assert (same_name (hf_header f) m = false) as ->.
    { unfold HeadersSpec.same_name in *. rewrite str_eqb_sym. exact Hm. }
    apply app_nil_r. }
  repeat match goal with |- context [if ?c then _ else _] => destruct c end; auto.
Qed.

(* --- the composite: model of Action::filter_headers' application = left fold of the reference --- *)
Variable table : list (str * hkind).
Hypothesis table_ok :
  table = [(s_add, KAdd); (s_remove, KRemove); (s_replace, KReplace); (s_override, KOverride); (s_default, KDefault)].

Lemma create_reference f hs :
  match create_header_action table f with
  | Some a => run_action lower a hs
  | None => hs
  end = reference_op lower f hs.
Proof.
  unfold create_header_action, reference_op. rewrite table_ok. cbn [assoc].
  destruct (str_eqb (hf_action f) s_add); [reflexivity|].
  destruct (str_eqb (hf_action f) s_remove); [apply remove_filter_spec|].
  destruct (str_eqb (hf_action f) s_replace); [apply replace_filter_spec|].
  destruct (str_eqb (hf_action f) s_override); [apply override_filter_spec|].
  destruct (str_eqb (hf_action f) s_default); [apply default_filter_spec|].
  reflexivity.
Qed.

Lemma collect_fold fs : forall hs,
  filter_header_action_filter lower (collect_actions table fs) hs = reference lower fs hs.
Proof.
  induction fs as [|f fs IH]; intros hs; simpl; [reflexivity|].
  pose proof (create_reference f hs) as Hc.
  destruct (create_header_action table f) as [a|]; simpl; rewrite <- Hc; apply IH.
Qed.

Theorem apply_header_filters_reference fs hs :
  apply_header_filters lower table fs hs = reference lower fs hs.
Proof.
  unfold apply_header_filters, filter_header_action_new.
  destruct fs as [|f fs]; [reflexivity|]. cbn [is_nil].
  destruct (collect_actions table (f :: fs)) as [|a acts] eqn:E; cbn [is_nil].
  - rewrite <- collect_fold, E. reflexivity.
  - rewrite <- E. apply collect_fold.
Qed.

End Proofs.
