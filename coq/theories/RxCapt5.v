(* RxCapt5.v — strip_named on the named rendering of a template: for literal pieces that are not regex meta characters
   and marker regexes [0-9]+ / [a-z]+, Marker.strip_named turns  lit* (?P<name>regex) ...  into the token rendering
   and numbers the references 1, 2, ... in template order.  (What is left of (1): that the string-level construction
   MarkerString::new produces exactly this named rendering — an equality check on the model's output.) *)
Require Import Coq.Strings.String.
Require Import RIO.Base RIO.Pct RIO.Url RIO.Prefix RIO.RegexSem RIO.Marker RIO.MarkerProofs RIO.Rx RIO.RxToks RIO.RxCapt3 RIO.RxCapt4.
Close Scope N_scope.
Open Scope nat_scope.

Definition named_piece (markers : list (str * str)) (p : piece) : list N :=
  match p with
  | PLit c => [c]
  | PRef n => [40; 63; 80; 60]%N ++ n ++ [62%N] ++ regex_of markers n ++ [41%N]
  end.
Definition render_named (markers : list (str * str)) (ps : list piece) : list N := flat_map (named_piece markers) ps.

Definition body_dl (b : list N) : Prop := b = [91;48;45;57;93;43]%N \/ b = [91;97;45;122;93;43]%N.
Definition piece_ok (markers : list (str * str)) (p : piece) : Prop :=
  match p with
  | PLit c => is_meta c = false
  | PRef n => body_dl (regex_of markers n) /\ forallb (fun c => negb (N.eqb c 62)) n = true
  end.
Definition steps (p : piece) : nat := match p with PLit _ => 1 | PRef _ => 8 end.

Lemma take_name_app n : forall acc r, forallb (fun c => negb (N.eqb c 62)) n = true -> take_name (n ++ 62%N :: r) acc = Some (rev acc ++ n, r).
Proof.
  induction n as [|c n IH]; intros acc r H; cbn [app take_name].
  - change (N.eqb 62 c_gt) with true. rewrite app_nil_r. reflexivity.
  - cbn [forallb] in H. apply andb_prop in H. destruct H as [Hc Hn]. apply negb_true_iff in Hc. change c_gt with 62%N. rewrite Hc.
    rewrite (IH (c :: acc) r Hn). cbn [rev]. rewrite <- app_assoc. reflexivity.
Qed.

Lemma strip_lit f c rest gi out names : is_meta c = false ->
  strip_named (S f) (c :: rest) 0 gi out names = strip_named f rest 0 gi (c :: out) names.
Proof.
  intros Hm. destruct (RxToks.nonmeta_eqbs c Hm) as (E92 & E46 & E43 & E42 & E63 & E40 & E41 & E124 & E91 & _).
  cbn [strip_named]. unfold c_bs, c_lbrack, c_lparen. rewrite E92, E91, E40. reflexivity.
Qed.

Lemma strip_open f n X gi out names :
  strip_named (S f) (40%N :: 63%N :: 80%N :: 60%N :: n ++ 62%N :: X) 0 gi out names =
  match take_name (n ++ 62%N :: X) [] with
  | Some (nm, r3) => strip_named f r3 0 (S gi) (40%N :: out) ((gi, nm) :: names)
  | None => None
  end.
Proof. reflexivity. Qed.

Lemma strip_body f b rest gi out names : body_dl b ->
  strip_named (7 + f) (b ++ 41%N :: rest) 0 gi out names = strip_named f rest 0 gi (41%N :: rev b ++ out) names.
Proof. intros [->| ->]; reflexivity. Qed.

Lemma strip_piece markers p f rest gi out names : piece_ok markers p ->
  strip_named (steps p + f) (named_piece markers p ++ rest) 0 gi out names =
  strip_named f rest 0 (match p with PLit _ => gi | PRef _ => S gi end)
    (rev (render1 (ctok markers p)) ++ out) (match p with PLit _ => names | PRef n => (gi, n) :: names end).
Proof.
  destruct p as [c|n]; cbn [piece_ok steps named_piece ctok render1].
  - intros Hm. rewrite Hm. cbn [app rev]. apply strip_lit. exact Hm.
  - intros [Hb Hn]. cbn [app]. rewrite <- !app_assoc. cbn [app].
    change (8 + f) with (S (7 + f)). rewrite strip_open, (take_name_app n [] _ Hn). cbn [rev app].
    rewrite <- app_assoc. cbn [app]. rewrite (strip_body f _ rest (S gi) _ _ Hb).
    f_equal. change LP with 40%N. change RP with 41%N. rewrite rev_app_distr. cbn [rev app]. rewrite <- app_assoc. reflexivity.
Qed.

Lemma strip_pieces markers ps : forall f gi out names, Forall (piece_ok markers) ps ->
  strip_named (fold_right (fun p a => steps p + a) 0 ps + S f) (render_named markers ps) 0 gi out names =
  Some (rev out ++ render (map (ctok markers) ps), rev names ++ index_refs ps gi).
Proof.
  induction ps as [|p ps IH]; intros f gi out names H.
  - cbn [fold_right render_named flat_map map render index_refs Nat.add strip_named]. rewrite !app_nil_r. reflexivity.
  - inversion H as [|x l Hp Hps]; subst. cbn [fold_right render_named flat_map]. fold (render_named markers ps).
    rewrite <- Nat.add_assoc, (strip_piece markers p _ _ gi out names Hp), (IH f _ _ _ Hps).
    destruct p as [c|n]; cbn [map index_refs]; change (render (ctok markers ?p :: ?l)) with (render1 (ctok markers p) ++ render l);
      rewrite rev_app_distr, rev_involutive, <- app_assoc; [reflexivity|]. cbn [rev]. rewrite <- app_assoc. reflexivity.
Qed.

Lemma steps_le markers p : piece_ok markers p -> steps p <= length (named_piece markers p).
Proof.
  destruct p as [c|n]; cbn [piece_ok steps named_piece]; [intros _; cbn [length]; lia|]. intros [[Hb|Hb] _]; rewrite Hb, !app_length; cbn [length]; lia.
Qed.
Lemma total_steps_le markers ps : Forall (piece_ok markers) ps ->
  fold_right (fun p a => steps p + a) 0 ps <= length (render_named markers ps).
Proof.
  induction 1 as [|p ps Hp _ IH]; [cbn; lia|]. cbn [fold_right render_named flat_map]. rewrite app_length.
  pose proof (steps_le markers p Hp). fold (render_named markers ps). lia.
Qed.

Theorem strip_render_named markers ps : Forall (piece_ok markers) ps ->
  strip_named (S (length (render_named markers ps))) (render_named markers ps) 0 1 [] [] =
  Some (render (map (ctok markers) ps), index_refs ps 1).
Proof.
  intros H. pose proof (total_steps_le markers ps H) as Hle.
  replace (S (length (render_named markers ps)))
    with (fold_right (fun p a => steps p + a) 0 ps + S (length (render_named markers ps) - fold_right (fun p a => steps p + a) 0 ps)) by lia.
  rewrite (strip_pieces markers ps _ 1 [] [] H). reflexivity.
Qed.

(* hence the executable check of RIO.RxCapt4 follows from an EQUALITY on the model's capture pattern *)
Theorem strip_ok_of_named markers ps m : Forall (piece_ok markers) ps ->
  utf8_decode (ms_capture m) = render_named markers ps ->
  has_dup (refs ps) = false -> forallb group_name_ok (refs ps) = true ->
  strip_ok markers ps m = true.
Proof.
  intros Hp Hc Hd Hg. unfold strip_ok. rewrite Hc, (strip_render_named markers ps Hp), index_refs_names, Hd.
  rewrite str_eqb_refl. cbn [andb negb].
  assert (He : eq_names (index_refs ps 1) (index_refs ps 1) = true).
  { unfold eq_names. rewrite Nat.eqb_refl. cbn [andb]. generalize (index_refs ps 1). intros l. induction l as [|[g n] l IH]; [reflexivity|].
    cbn [combine forallb fst snd]. rewrite Nat.eqb_refl, str_eqb_refl, IH. reflexivity. }
  rewrite He. cbn [andb]. rewrite forallb_forall in *. intros [g n] Hin. cbn [snd]. apply Hg.
  rewrite <- (index_refs_names ps 1). apply (in_map snd _ _ Hin).
Qed.
