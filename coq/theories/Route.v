(* Route.v — routes, normalised requests and the per-trigger predicates, transliterated from
   src/router/{route,route_ip,route_datetime,route_time,route_weekday,route_header}.rs and
   src/router/request_matcher/header.rs (ValueCondition::match_value),
   datetime.rs (DateTimeCondition::match_value). *)
Require Import RIO.Base.

(* StaticOrDynamic: for matching only the string (static) or the regex (dynamic) matters *)
Inductive sod :=
| SStatic (s : str)
| SDynamic (regex : str).

(* AnyIpCidr / IpAddr: family flag + address as a number *)
Record cidr := { c_any : bool; c_v6 : bool; c_net : N; c_len : N }.
Record ipaddr := { ip_v6 : bool; ip_val : N }.
Definition addr_bits (v6 : bool) : N := if v6 then 128%N else 32%N.
Definition cidr_contains (c : cidr) (a : ipaddr) : bool :=
  c_any c || (Bool.eqb (c_v6 c) (ip_v6 a)
              && N.eqb (N.shiftr (ip_val a) (addr_bits (c_v6 c) - c_len c)) (N.shiftr (c_net c) (addr_bits (c_v6 c) - c_len c))).

Inductive route_ip := InRange (c : cidr) | NotInRange (c : cidr).
(* RouteIp::match_ip *)
Definition match_ip (r : route_ip) (a : ipaddr) : bool :=
  match r with InRange c => cidr_contains c a | NotInRange c => negb (cidr_contains c a) end.

(* instants are nanoseconds since the epoch (NaiveDateTime), times of day nanoseconds since midnight *)
Record dt_range := { dr_start : option Z; dr_end : option Z }.
Record time_range := { tr_start : option Z; tr_end : option Z }.
Definition in_window (s e : option Z) (t : Z) : bool :=
  match s, e with
  | None, None => true
  | None, Some e' => Z.ltb t e'
  | Some s', None => Z.leb s' t
  | Some s', Some e' => Z.leb s' t && Z.ltb t e'
  end.
Definition day_ns : Z := 86400000000000%Z.
Definition time_of_day (t : Z) : Z := Z.modulo t day_ns.
(* chrono Weekday::num_days_from_monday; 1970-01-01 was a Thursday *)
Definition weekday_of (t : Z) : Z := Z.modulo (Z.div t day_ns + 3) 7.

(* RouteDateTime::match_datetime / RouteTime::match_datetime / RouteWeekday::match_datetime *)
Definition match_dt_range (r : dt_range) (t : Z) : bool := in_window (dr_start r) (dr_end r) t.
Definition match_time_range (r : time_range) (t : Z) : bool := in_window (tr_start r) (tr_end r) (time_of_day t).
Definition match_weekdays (ws : list Z) (t : Z) : bool := existsb (Z.eqb (weekday_of t)) ws.

Inductive dt_cond :=
| DateTimeRange (rs : list dt_range)
| TimeRange (rs : list time_range)
| Weekdays (ws : list Z).

(* header value conditions *)
Inductive vcond :=
| IsDefined | IsNotDefined
| IsEquals (s : str) | IsNotEqualTo (s : str)
| Contains (s : str) | DoesNotContain (s : str)
| EndsWith (s : str) | StartsWith (s : str)
| MatchRegex (regex : str).
Record hcond := { hc_name : str; hc_cond : vcond }.      (* name already lowercased by HeaderMatcher::insert *)

Record route := {
  rt_tag : N;                           (* the handler T: here an index identifying the route description *)
  rt_id : str;
  rt_priority : Z;
  rt_scheme : option str;
  rt_host : option sod;
  rt_methods : option (list str);
  rt_exclude_methods : option bool;
  rt_path : sod;
  rt_headers : list hcond;
  rt_ips : option (list route_ip);
  rt_datetime : option (list dt_range);
  rt_time : option (list time_range);
  rt_weekdays : option (list Z)
}.

Record request := {
  q_path : str;                        (* Request::path_and_query() *)
  q_host : option str;
  q_scheme : option str;
  q_method : option str;
  q_headers : list (str * str);
  q_addr : option ipaddr;
  q_time : option Z                    (* created_at *)
}.

Definition s_GET : str := [71;69;84]%N.
(* Request::method() *)
Definition req_method (q : request) : str := match q_method q with Some m => m | None => s_GET end.

Section Conds.
Variable lower : str -> str.                              (* String::to_lowercase *)
Variable re_match : str -> str -> bool.                   (* Regex::new(regex).is_match(value), false when invalid *)

(* Request::header_values / header_exists *)
Definition header_values (q : request) (name : str) : list str :=
  map snd (filter (fun h => str_eqb (lower (fst h)) (lower name)) (q_headers q)).
Definition header_exists (q : request) (name : str) : bool :=
  existsb (fun h => str_eqb (lower (fst h)) (lower name)) (q_headers q).

Fixpoint is_prefix (p s : str) : bool :=
  match p, s with
  | [], _ => true
  | x :: p', y :: s' => N.eqb x y && is_prefix p' s'
  | _ :: _, [] => false
  end.
Fixpoint str_contains (s p : str) : bool :=
  is_prefix p s || match s with [] => false | _ :: s' => str_contains s' p end.
Definition str_ends_with (s p : str) : bool := is_prefix (rev p) (rev s).

(* ValueCondition::match_value *)
Definition match_value (c : vcond) (q : request) (name : str) : bool :=
  let vs := header_values q name in
  match c with
  | IsNotDefined => negb (header_exists q name)
  | IsDefined => header_exists q name
  | IsEquals s => existsb (fun v => str_eqb v s) vs
  | IsNotEqualTo s => forallb (fun v => negb (str_eqb v s)) vs
  | Contains s => existsb (fun v => str_contains v s) vs
  | DoesNotContain s => forallb (fun v => negb (str_contains v s)) vs
  | EndsWith s => existsb (fun v => str_ends_with v s) vs
  | StartsWith s => existsb (fun v => is_prefix s v) vs
  | MatchRegex re => existsb (fun v => re_match re v) vs
  end.
Definition hcond_holds (q : request) (c : hcond) : bool := match_value (hc_cond c) q (hc_name c).

(* DateTimeCondition::match_value *)
Definition dt_cond_holds (q : request) (c : dt_cond) : bool :=
  match q_time q with
  | None => false
  | Some t =>
      match c with
      | DateTimeRange rs => existsb (fun r => match_dt_range r t) rs
      | TimeRange rs => existsb (fun r => match_time_range r t) rs
      | Weekdays ws => match_weekdays ws t
      end
  end.
End Conds.

(* equality tests used as bucket keys *)
Definition optZ_eqb (a b : option Z) : bool := match a, b with None, None => true | Some x, Some y => Z.eqb x y | _, _ => false end.
Definition cidr_eqb (a b : cidr) : bool := Bool.eqb (c_any a) (c_any b) && Bool.eqb (c_v6 a) (c_v6 b) && N.eqb (c_net a) (c_net b) && N.eqb (c_len a) (c_len b).
Definition route_ip_eqb (a b : route_ip) : bool :=
  match a, b with InRange x, InRange y => cidr_eqb x y | NotInRange x, NotInRange y => cidr_eqb x y | _, _ => false end.
Fixpoint list_eqb {A} (e : A -> A -> bool) (a b : list A) : bool :=
  match a, b with [], [] => true | x :: a', y :: b' => e x y && list_eqb e a' b' | _, _ => false end.
Definition vcond_eqb (a b : vcond) : bool :=
  match a, b with
  | IsDefined, IsDefined | IsNotDefined, IsNotDefined => true
  | IsEquals x, IsEquals y | IsNotEqualTo x, IsNotEqualTo y | Contains x, Contains y | DoesNotContain x, DoesNotContain y
  | EndsWith x, EndsWith y | StartsWith x, StartsWith y | MatchRegex x, MatchRegex y => str_eqb x y
  | _, _ => false
  end.
Definition hcond_eqb (a b : hcond) : bool := str_eqb (hc_name a) (hc_name b) && vcond_eqb (hc_cond a) (hc_cond b).
Definition dt_range_eqb (a b : dt_range) : bool := optZ_eqb (dr_start a) (dr_start b) && optZ_eqb (dr_end a) (dr_end b).
Definition time_range_eqb (a b : time_range) : bool := optZ_eqb (tr_start a) (tr_start b) && optZ_eqb (tr_end a) (tr_end b).
Definition dt_cond_eqb (a b : dt_cond) : bool :=
  match a, b with
  | DateTimeRange x, DateTimeRange y => list_eqb dt_range_eqb x y
  | TimeRange x, TimeRange y => list_eqb time_range_eqb x y
  | Weekdays x, Weekdays y => list_eqb Z.eqb x y
  | _, _ => false
  end.
(* BTreeSet equality: mutual inclusion *)
Definition set_eqb {A} (e : A -> A -> bool) (a b : list A) : bool :=
  forallb (fun x => existsb (e x) b) a && forallb (fun y => existsb (e y) a) b.
