(* RxTrunc.v — context replacement for the parser of RIO.Rx: a successful parse leaves a SUFFIX of its input, and
   the input after the consumed part can be replaced by anything that starts with the same character
   ([lookok]; nothing at all is needed for classes, escapes and atoms).  Together with RxParse.parse_ext this
   says that the parser reads exactly the consumed characters plus one character of lookahead. *)
Require Import RIO.Base RIO.Rx RIO.RxParse.
Close Scope N_scope.
Open Scope nat_scope.

Definition lookok (a b : list N) : Prop := hd_error a = hd_error b.
Lemma lookok_refl a : lookok a a. Proof. reflexivity. Qed.
Lemma lookok_nil t : lookok [] t -> t = [].
Proof. unfold lookok. destruct t; [reflexivity|discriminate]. Qed.
Lemma lookok_cons_inv c a t : lookok (c :: a) t -> exists t', t = c :: t'.
Proof. unfold lookok. destruct t as [|d t]; cbn [hd_error]; intros H; [discriminate|]. inversion H; subst. eauto. Qed.
Lemma lookok_cons c a b : lookok (c :: a) (c :: b). Proof. reflexivity. Qed.
Lemma lookok_app u a b : lookok a b -> lookok (u ++ a) (u ++ b).
Proof. destruct u; [exact (fun H => H)|reflexivity]. Qed.

Lemma take_digits_repl s : forall acc seen n rest, take_digits s acc seen = Some (n, rest) ->
  exists u, s = u ++ rest /\ forall t, lookok rest t -> take_digits (u ++ t) acc seen = Some (n, t).
Proof.
  induction s as [|c s IH]; intros acc seen n rest H; cbn [take_digits] in H.
  - destruct seen; [|discriminate]. inversion H; subst. exists []. split; [reflexivity|]. intros t Ht. apply lookok_nil in Ht. subst. reflexivity.
  - destruct (is_digit c) eqn:Ed.
    + apply IH in H. destruct H as (u & -> & Hu). exists (c :: u). split; [reflexivity|]. intros t Ht. cbn [app take_digits]. rewrite Ed. apply Hu. exact Ht.
    + destruct seen; [|discriminate]. inversion H; subst. exists []. split; [reflexivity|]. intros t Ht.
      apply lookok_cons_inv in Ht. destruct Ht as [t' ->]. cbn [app take_digits]. rewrite Ed. reflexivity.
Qed.

Lemma take_until_rbrace_repl s : forall acc nm rest, take_until_rbrace s acc = Some (nm, rest) ->
  exists u, s = u ++ rest /\ forall t, take_until_rbrace (u ++ t) acc = Some (nm, t).
Proof.
  induction s as [|c s IH]; intros acc nm rest H; cbn [take_until_rbrace] in H; [discriminate|].
  destruct (N.eqb c ch_rbrace) eqn:E.
  - inversion H; subst. exists [c]. split; [reflexivity|]. intros t. cbn [app take_until_rbrace]. rewrite E. reflexivity.
  - destruct (is_name_char c) eqn:En; [|discriminate].
    apply IH in H. destruct H as (u & -> & Hu). exists (c :: u). split; [reflexivity|]. intros t. cbn [app take_until_rbrace]. rewrite E, En. apply Hu.
Qed.

Lemma parse_cat_name_repl s nm rest : parse_cat_name s = Some (nm, rest) ->
  exists u, s = u ++ rest /\ forall t, parse_cat_name (u ++ t) = Some (nm, t).
Proof.
  destruct s as [|c s]; cbn [parse_cat_name]; [discriminate|]. intros H. destruct (N.eqb c ch_lbrace) eqn:E.
  - apply take_until_rbrace_repl in H. destruct H as (u & -> & Hu). exists (c :: u). split; [reflexivity|]. intros t. cbn [app parse_cat_name]. rewrite E. apply Hu.
  - destruct (in_range 97 122 c || in_range 65 90 c) eqn:El; [|discriminate].
    inversion H; subst. exists [c]. split; [reflexivity|]. intros t. cbn [app parse_cat_name]. rewrite E, El. reflexivity.
Qed.

Lemma parse_escape_repl s it rest : parse_escape s = Some (it, rest) ->
  exists u, s = u ++ rest /\ forall t, parse_escape (u ++ t) = Some (it, t).
Proof.
  destruct s as [|c s]; [discriminate|]. unfold parse_escape.
  repeat match goal with
         | |- (if N.eqb c ?v then Some (?i, s) else _) = _ -> _ =>
             destruct (N.eqb c v) eqn:?; [intros H; inversion H; subst; exists [c]; split; [reflexivity|]; intros t; cbn [app];
               repeat match goal with E : N.eqb c _ = _ |- _ => rewrite E; clear E end; reflexivity|]
         end.
  destruct (N.eqb c 112) eqn:E112.
  { destruct (parse_cat_name s) as [[nm r]|] eqn:En; [|discriminate]. intros H. inversion H; subst.
    apply parse_cat_name_repl in En. destruct En as (u & -> & Hu). exists (c :: u). split; [reflexivity|]. intros t. cbn [app].
    repeat match goal with E : N.eqb c _ = _ |- _ => rewrite E; clear E end. rewrite Hu. reflexivity. }
  destruct (N.eqb c 80) eqn:E80.
  { destruct (parse_cat_name s) as [[nm r]|] eqn:En; [|discriminate]. intros H. inversion H; subst.
    apply parse_cat_name_repl in En. destruct En as (u & -> & Hu). exists (c :: u). split; [reflexivity|]. intros t. cbn [app].
    repeat match goal with E : N.eqb c _ = _ |- _ => rewrite E; clear E end. rewrite Hu. reflexivity. }
  destruct (is_meta_char c) eqn:Em; [|discriminate]. intros H. inversion H; subst. exists [c]. split; [reflexivity|]. intros t. cbn [app].
  repeat match goal with E : N.eqb c _ = _ |- _ => rewrite E; clear E end. rewrite Em. reflexivity.
Qed.

Lemma class_item_repl c s' it r1 : class_item c s' = Some (it, r1) ->
  exists u, s' = u ++ r1 /\ forall t, class_item c (u ++ t) = Some (it, t).
Proof.
  unfold class_item. destruct (N.eqb c ch_bs); [apply parse_escape_repl|].
  destruct (N.eqb c ch_lbrack); [discriminate|]. intros H. inversion H; subst. exists []. split; reflexivity.
Qed.
Lemma class_hi_repl e r3 it r4 : class_hi e r3 = Some (it, r4) ->
  exists u, r3 = u ++ r4 /\ forall t, class_hi e (u ++ t) = Some (it, t).
Proof.
  unfold class_hi. destruct (N.eqb e ch_bs); [apply parse_escape_repl|].
  intros H. inversion H; subst. exists []. split; reflexivity.
Qed.

Lemma parse_class_repl F : forall s acc first items rest, parse_class F s acc first = Some (items, rest) ->
  exists u, s = u ++ rest /\ forall t, parse_class F (u ++ t) acc first = Some (items, t).
Proof.
  induction F as [|F IH]; intros s acc first items rest H; [discriminate|].
  destruct s as [|c s']; [discriminate|]. rewrite parse_class_S in H.
  destruct (N.eqb c ch_rbrack && negb first) eqn:E1.
  { inversion H; subst. exists [c]. split; [reflexivity|]. intros t. cbn [app]. rewrite parse_class_S, E1. reflexivity. }
  destruct (setop_at c s') eqn:Eso; [discriminate|].
  destruct (class_item c s') as [[it r1]|] eqn:Ei; [|discriminate].
  destruct (class_item_repl _ _ _ _ Ei) as (u1 & Es' & Hu1).
  (* the replaced input keeps the first character after c *)
  assert (Hso : forall X t, X <> [] -> s' = X ++ rest -> setop_at c (X ++ t) = false).
  { intros X t HX EX. rewrite <- Eso. apply setop_at_hd. rewrite EX. destruct X; [contradiction|reflexivity]. }
  subst s'.
  (* recursion on r1 itself, whose first character is d (and is consumed) *)
  assert (Hrec : forall it' d r2, r1 = d :: r2 -> parse_class F r1 (it' :: acc) false = Some (items, rest) ->
            exists u2, r1 = (d :: u2) ++ rest /\ forall t, parse_class F ((d :: u2) ++ t) (it' :: acc) false = Some (items, t)).
  { intros it' d r2 E H'. destruct (parse_class_ext _ _ _ _ _ _ H') as [Hl _]. destruct (IH _ _ _ _ _ H') as (u2 & Hu2 & Hr).
    destruct u2 as [|d0 u2]; [cbn [app] in Hu2; subst rest; lia|]. rewrite E in Hu2. inversion Hu2; subst d0. exists u2.
    split; [rewrite E; exact Hu2|exact Hr]. }
  assert (Hgen : forall it', (forall t, class_item c (u1 ++ t) = Some (it', t)) ->
            (match it' with CChar _ => False | _ => True end) ->
            parse_class F r1 (it' :: acc) false = Some (items, rest) ->
            exists u, c :: u1 ++ r1 = u ++ rest /\ forall t, parse_class (S F) (u ++ t) acc first = Some (items, t)).
  { intros it' Hi Hnc H'. destruct (parse_class_ext _ _ _ _ _ _ H') as [Hl _]. destruct (IH _ _ _ _ _ H') as (u2 & -> & Hr).
    assert (Hu2 : u2 <> []) by (intros ->; cbn [app] in Hl; lia).
    exists (c :: u1 ++ u2). split; [cbn [app]; rewrite app_assoc; reflexivity|].
    intros t. cbn [app]. rewrite parse_class_S, E1, (Hso (u1 ++ u2) t); [|destruct u1; [exact Hu2|discriminate]|rewrite app_assoc; reflexivity].
    rewrite <- app_assoc, Hi. destruct it'; try contradiction; apply Hr. }
  destruct it as [lo|lo0 hi0|ng nm|ng|ng|ng]; try (apply (Hgen _ Hu1 I H)).
  destruct r1 as [|d r2]; [discriminate|].
  destruct (N.eqb d ch_minus) eqn:Ed.
  - destruct r2 as [|e r3]; [discriminate|]. destruct (N.eqb e ch_rbrack) eqn:Ee.
    + (* lo - ] : the recursion on  - ] r3  consumes exactly those two characters *)
      apply N.eqb_eq in Ed, Ee. subst d e.
      destruct F as [|F']; [discriminate|]. rewrite parse_class_S in H.
      change (N.eqb ch_minus ch_rbrack && negb false) with false in H. cbv iota in H.
      change (setop_at ch_minus (ch_rbrack :: r3)) with false in H. cbv iota in H.
      change (class_item ch_minus (ch_rbrack :: r3)) with (Some (CChar ch_minus, ch_rbrack :: r3)) in H. cbv iota beta in H.
      change (N.eqb ch_rbrack ch_minus) with false in H. cbv iota in H.
      destruct F' as [|F'']; [discriminate|]. rewrite parse_class_S in H.
      change (N.eqb ch_rbrack ch_rbrack && negb false) with true in H. cbv iota in H. inversion H; subst.
      exists (c :: u1 ++ [ch_minus; ch_rbrack]). split; [cbn [app]; rewrite <- app_assoc; reflexivity|].
      intros t. cbn [app]. rewrite parse_class_S, E1, (Hso (u1 ++ [ch_minus; ch_rbrack]) t);
        [|destruct u1; discriminate|rewrite <- app_assoc; reflexivity].
      rewrite <- app_assoc. cbn [app]. rewrite Hu1.
      change (N.eqb ch_minus ch_minus) with true. change (N.eqb ch_rbrack ch_rbrack) with true. cbv iota.
      rewrite parse_class_S. change (N.eqb ch_minus ch_rbrack && negb false) with false. cbv iota.
      change (setop_at ch_minus (ch_rbrack :: t)) with false. cbv iota.
      change (class_item ch_minus (ch_rbrack :: t)) with (Some (CChar ch_minus, ch_rbrack :: t)). cbv iota beta.
      change (N.eqb ch_rbrack ch_minus) with false. cbv iota. rewrite parse_class_S. reflexivity.
    + destruct (N.eqb e ch_minus) eqn:Em; [discriminate|].
      destruct (class_hi e r3) as [[ith r4]|] eqn:Eh; [|discriminate].
      destruct (class_hi_repl _ _ _ _ Eh) as (uh & -> & Huh).
      destruct ith as [hi|lo0 hi0|ng nm|ng|ng|ng]; try discriminate.
      destruct (N.leb lo hi) eqn:Ele; [|discriminate].
      destruct (IH _ _ _ _ _ H) as (u3 & -> & Hr).
      exists (c :: u1 ++ d :: e :: uh ++ u3). split; [cbn [app]; rewrite <- !app_assoc; cbn [app]; rewrite <- app_assoc; reflexivity|].
      intros t. cbn [app]. rewrite parse_class_S, E1, (Hso (u1 ++ d :: e :: uh ++ u3) t);
        [|destruct u1; discriminate|rewrite <- !app_assoc; cbn [app]; rewrite <- app_assoc; reflexivity].
      rewrite <- !app_assoc. cbn [app]. rewrite <- app_assoc.
      rewrite Hu1, Ed, Ee, Em, Huh, Ele. apply Hr.
  - destruct (Hrec _ d r2 eq_refl H) as (u2 & E & Hr). exists (c :: u1 ++ d :: u2). split; [cbn [app]; f_equal; rewrite <- app_assoc; f_equal; exact E|].
    intros t. cbn [app]. rewrite parse_class_S, E1, (Hso (u1 ++ d :: u2) t);
      [|destruct u1; discriminate|rewrite <- app_assoc; cbn [app]; f_equal; exact E].
    rewrite <- app_assoc. cbn [app]. rewrite Hu1, Ed. apply Hr.
Qed.

(* ------------------------------------------------------------------ quantifiers *)
Lemma wrap_quant_repl g s r' s'' : wrap_quant g s = (r', s'') ->
  exists u, s = u ++ s'' /\ forall t, lookok s'' t -> wrap_quant g (u ++ t) = (r', t).
Proof.
  destruct s as [|c s]; cbn [wrap_quant].
  - intros H. inversion H; subst. exists []. split; [reflexivity|]. intros t Ht. apply lookok_nil in Ht. subst. reflexivity.
  - destruct (N.eqb c ch_q) eqn:E; intros H; inversion H; subst.
    + exists [c]. split; [reflexivity|]. intros t _. cbn [app wrap_quant]. rewrite E. reflexivity.
    + exists []. split; [reflexivity|]. intros t Ht. apply lookok_cons_inv in Ht. destruct Ht as [t' ->]. cbn [app wrap_quant]. rewrite E. reflexivity.
Qed.

Lemma quant_one_repl r c s' r' s'' : quant_one r c s' = Some (Some (r', s'')) ->
  exists u, s' = u ++ s'' /\ forall t, lookok s'' t -> quant_one r c (u ++ t) = Some (Some (r', t)).
Proof.
  unfold quant_one.
  assert (Hw : forall g s, Some (Some (wrap_quant g s)) = Some (Some (r', s'')) ->
            exists u, s = u ++ s'' /\ forall t, lookok s'' t -> Some (Some (wrap_quant g (u ++ t))) = Some (Some (r', t))).
  { intros g s H. inversion H as [H']. apply wrap_quant_repl in H'. destruct H' as (u & -> & Hu). exists u. split; [reflexivity|].
    intros t Ht. rewrite (Hu t Ht). reflexivity. }
  destruct (N.eqb c ch_star); [apply Hw|]. destruct (N.eqb c ch_plus); [apply Hw|]. destruct (N.eqb c ch_q); [apply Hw|].
  destruct (N.eqb c ch_lbrace); [|discriminate].
  destruct (take_digits s' 0 false) as [[lo s1]|] eqn:Et; [|discriminate].
  apply take_digits_repl in Et. destruct Et as (ud & -> & Hud).
  destruct s1 as [|d s2]; [discriminate|].
  destruct (N.eqb d ch_rbrace) eqn:Ed.
  { intros H. apply Hw in H. destruct H as (u & -> & Hu). exists (ud ++ d :: u). split; [rewrite <- app_assoc; reflexivity|].
    intros t Ht. rewrite <- app_assoc. cbn [app]. rewrite (Hud _ (lookok_cons _ _ _)), Ed. apply Hu. exact Ht. }
  destruct (N.eqb d ch_comma) eqn:Ec; [|discriminate].
  destruct s2 as [|e s3]; [discriminate|].
  destruct (N.eqb e ch_rbrace) eqn:Ee.
  { intros H. apply Hw in H. destruct H as (u & -> & Hu). exists (ud ++ d :: e :: u). split; [rewrite <- app_assoc; reflexivity|].
    intros t Ht. rewrite <- app_assoc. cbn [app]. rewrite (Hud _ (lookok_cons _ _ _)), Ed, Ec, Ee. apply Hu. exact Ht. }
  destruct (take_digits (e :: s3) 0 false) as [[hi s4]|] eqn:Et2; [|discriminate].
  apply take_digits_repl in Et2. destruct Et2 as (ud2 & E2 & Hud2).
  destruct s4 as [|z s5]; [discriminate|].
  destruct (N.eqb z ch_rbrace && Nat.leb lo hi) eqn:Ez; [|discriminate].
  intros H. apply Hw in H. destruct H as (u & -> & Hu).
  destruct ud2 as [|e0 ud2]; cbn [app] in E2; inversion E2; subst.
  { (* the second number would be empty: e is the closing brace, excluded *)
    apply andb_prop in Ez. destruct Ez as [Ez _]. rewrite Ez in Ee. discriminate. }
  exists (ud ++ d :: (e0 :: ud2) ++ z :: u). split; [rewrite <- !app_assoc; cbn [app]; rewrite <- app_assoc; reflexivity|].
  intros t Ht. rewrite <- !app_assoc. cbn [app]. rewrite <- app_assoc. cbn [app].
  rewrite (Hud _ (lookok_cons _ _ _)), Ed, Ec, Ee.
  change (e0 :: ud2 ++ z :: u ++ t) with ((e0 :: ud2) ++ z :: u ++ t). rewrite (Hud2 _ (lookok_cons _ _ _)), Ez. apply Hu. exact Ht.
Qed.

Lemma parse_quants_repl F : forall r s r' rest, parse_quants F r s = Some (r', rest) ->
  exists u, s = u ++ rest /\ forall t, lookok rest t -> parse_quants F r (u ++ t) = Some (r', t).
Proof.
  induction F as [|F IH]; intros r s r' rest H; [discriminate|].
  destruct s as [|c s'].
  - cbn [parse_quants] in H. inversion H; subst. exists []. split; [reflexivity|]. intros t Ht. apply lookok_nil in Ht. subst. reflexivity.
  - rewrite parse_quants_S in H. destruct (quant_one r c s') as [[[r1 s1]|]|] eqn:Eq; [| |discriminate].
    + destruct (quant_one_repl _ _ _ _ _ Eq) as (u1 & -> & Hu1). apply IH in H. destruct H as (u2 & -> & Hu2).
      exists (c :: u1 ++ u2). split; [cbn [app]; rewrite app_assoc; reflexivity|]. intros t Ht.
      cbn [app]. rewrite <- app_assoc, parse_quants_S, (Hu1 _ (lookok_app u2 _ _ Ht)). apply Hu2. exact Ht.
    + inversion H; subst. exists []. split; [reflexivity|]. intros t Ht. apply lookok_cons_inv in Ht. destruct Ht as [t' ->].
      cbn [app]. rewrite parse_quants_S, (quant_one_none _ _ _ Eq). reflexivity.
Qed.

(* ------------------------------------------------------------------ atoms, concatenation, alternation *)
Definition alt_repl (F : nat) : Prop :=
  forall s gi r rest gi', parse_alt F s gi = Some (r, rest, gi') ->
  exists u, s = u ++ rest /\ forall t, lookok rest t -> parse_alt F (u ++ t) gi = Some (r, t, gi').
Definition cat_repl (F : nat) : Prop :=
  forall s gi acc r rest gi', parse_cat F s gi acc = Some (r, rest, gi') ->
  exists u, s = u ++ rest /\ forall t, lookok rest t -> parse_cat F (u ++ t) gi acc = Some (r, t, gi').

Lemma atom_of_repl F c s' gi a rest gi' : alt_repl F ->
  atom_of (parse_alt F) (parse_class F) c s' gi = Some (a, rest, gi') ->
  exists u, s' = u ++ rest /\ forall t, atom_of (parse_alt F) (parse_class F) c (u ++ t) gi = Some (a, t, gi').
Proof.
  intros HA. unfold atom_of.
  assert (Hcap : match parse_alt F s' (S gi) with
                 | Some (r, rp :: rest1, gi1) => if N.eqb rp ch_rparen then Some (RGroup (Some gi) r, rest1, gi1) else None
                 | _ => None
                 end = Some (a, rest, gi') ->
                 exists u0, s' = (u0 ++ [ch_rparen]) ++ rest /\
                   forall t, match parse_alt F ((u0 ++ [ch_rparen]) ++ t) (S gi) with
                             | Some (r, rp :: rest1, gi1) => if N.eqb rp ch_rparen then Some (RGroup (Some gi) r, rest1, gi1) else None
                             | _ => None
                             end = Some (a, t, gi')).
  { intros H. apply close_inv in H. destruct H as (r & Hr & ->). apply HA in Hr. destruct Hr as (u0 & -> & Hu0).
    exists u0. split; [rewrite <- app_assoc; reflexivity|]. intros t. rewrite <- app_assoc. cbn [app].
    rewrite (Hu0 _ (lookok_cons _ _ _)), N.eqb_refl. reflexivity. }
  destruct (N.eqb c ch_lparen).
  { intros H.
    assert (Hcases : (exists s2, s' = ch_q :: ch_colon :: s2 /\
                        match parse_alt F s2 gi with
                        | Some (r, rp :: rest1, gi1) => if N.eqb rp ch_rparen then Some (RGroup None r, rest1, gi1) else None
                        | _ => None
                        end = Some (a, rest, gi'))
                     \/ (hd_error s' <> Some ch_q /\
                         match parse_alt F s' (S gi) with
                         | Some (r, rp :: rest1, gi1) => if N.eqb rp ch_rparen then Some (RGroup (Some gi) r, rest1, gi1) else None
                         | _ => None
                         end = Some (a, rest, gi'))).
    { destruct s' as [|q [|k s2]].
      - right. split; [discriminate|exact H].
      - right. split; [|exact H]. intros E. inversion E; subst q. apply close_inv in H. destruct H as (r & Hr & _).
        destruct F as [|[|F]]; [discriminate|discriminate|]. rewrite parse_alt_S, parse_cat_S in Hr. discriminate.
      - destruct (N.eqb q ch_q) eqn:Eq.
        + destruct (N.eqb k ch_colon) eqn:Ek; cbn [andb] in H; [|discriminate].
          apply N.eqb_eq in Eq, Ek. subst. left. exists s2. split; [reflexivity|exact H].
        + cbn [andb] in H. right. split; [|exact H]. intros E. inversion E; subst q. rewrite N.eqb_refl in Eq. discriminate. }
    destruct Hcases as [(s2 & -> & H2)|[Hq H2]].
    - apply close_inv in H2. destruct H2 as (r & Hr & ->). apply HA in Hr. destruct Hr as (u0 & -> & Hu0).
      exists (ch_q :: ch_colon :: u0 ++ [ch_rparen]). split; [cbn [app]; rewrite <- app_assoc; reflexivity|].
      intros t. cbn [app]. rewrite <- app_assoc. cbn [app]. change (N.eqb ch_q ch_q && N.eqb ch_colon ch_colon) with true. cbv iota.
      rewrite (Hu0 _ (lookok_cons _ _ _)), N.eqb_refl. reflexivity.
    - destruct (Hcap H2) as (u0 & E & Hu0). exists (u0 ++ [ch_rparen]). split; [exact E|]. intros t. specialize (Hu0 t).
      assert (Hh : hd_error ((u0 ++ [ch_rparen]) ++ t) <> Some ch_q).
      { rewrite E in Hq. destruct u0 as [|x u0]; [cbn; discriminate|exact Hq]. }
      destruct ((u0 ++ [ch_rparen]) ++ t) as [|q [|k s2]] eqn:Es; [exact Hu0|exact Hu0|].
      assert (Eq : N.eqb q ch_q = false).
      { destruct (N.eqb q ch_q) eqn:E'; [|reflexivity]. apply N.eqb_eq in E'. subst q. exfalso. apply Hh. reflexivity. }
      rewrite Eq. cbn [andb]. exact Hu0. }
  destruct (N.eqb c ch_lbrack).
  { destruct s' as [|n s2]; [discriminate|]. destruct (N.eqb n ch_caret) eqn:En.
    - destruct (parse_class F s2 [] true) as [[items rest1]|] eqn:Ec; [|discriminate]. intros H. inversion H; subst.
      apply parse_class_repl in Ec. destruct Ec as (u & -> & Hu). exists (n :: u). split; [reflexivity|]. intros t. cbn [app]. rewrite En, Hu. reflexivity.
    - destruct (parse_class F (n :: s2) [] true) as [[items rest1]|] eqn:Ec; [|discriminate]. intros H. inversion H; subst.
      destruct (parse_class_ext _ _ _ _ _ _ Ec) as [Hl _].
      apply parse_class_repl in Ec. destruct Ec as (u & E & Hu). destruct u as [|n0 u]; [cbn [app] in E; subst rest; cbn [length] in Hl; lia|].
      inversion E; subst n0. exists (n :: u). split; [reflexivity|]. intros t. cbn [app]. rewrite En. change (n :: u ++ t) with ((n :: u) ++ t). rewrite (Hu t). reflexivity. }
  destruct (N.eqb c ch_dot); [intros H; inversion H; subst; exists []; split; reflexivity|].
  destruct (N.eqb c ch_caret); [intros H; inversion H; subst; exists []; split; reflexivity|].
  destruct (N.eqb c ch_dollar); [intros H; inversion H; subst; exists []; split; reflexivity|].
  destruct (N.eqb c ch_bs).
  { destruct (parse_escape s') as [[it rest1]|] eqn:Ee; [|discriminate]. apply parse_escape_repl in Ee. destruct Ee as (u & -> & Hu).
    intros H. exists u. split; [destruct it; inversion H; subst; reflexivity|]. intros t. rewrite Hu. destruct it; inversion H; subst; reflexivity. }
  destruct (N.eqb c ch_star || N.eqb c ch_plus || N.eqb c ch_q); [discriminate|].
  destruct (N.eqb c ch_lbrace); [discriminate|].
  intros H; inversion H; subst; exists []; split; reflexivity.
Qed.

Theorem parse_repl F : alt_repl F /\ cat_repl F.
Proof.
  induction F as [|F [IHA IHC]]; [split; [intros ? ? ? ? ? H|intros ? ? ? ? ? ? H]; discriminate|]. split.
  - intros s gi r rest gi' H. rewrite parse_alt_S in H.
    destruct (parse_cat F s gi REmpty) as [[[r1 rest1] gi1]|] eqn:Ec; [|discriminate].
    destruct (IHC _ _ _ _ _ _ Ec) as (u1 & -> & Hu1).
    assert (Hstop : Some (r1, rest1, gi1) = Some (r, rest, gi') ->
              (forall c t, rest1 = c :: t -> N.eqb c ch_bar = false) ->
              exists u, u1 ++ rest1 = u ++ rest /\ forall t, lookok rest t -> parse_alt (S F) (u ++ t) gi = Some (r, t, gi')).
    { intros H' Hnb. inversion H'; subst. exists u1. split; [reflexivity|]. intros t Ht.
      rewrite parse_alt_S, (Hu1 t Ht). destruct rest as [|c r0].
      - apply lookok_nil in Ht. subst. reflexivity.
      - apply lookok_cons_inv in Ht. destruct Ht as [t' ->]. rewrite (Hnb c r0 eq_refl). reflexivity. }
    destruct rest1 as [|c rest1']; [apply Hstop; [exact H|intros; discriminate]|].
    destruct (N.eqb c ch_bar) eqn:Eb; [|apply Hstop; [exact H|intros c0 t E; inversion E; subst; exact Eb]].
    destruct (parse_alt F rest1' gi1) as [[[r2 rest2] gi2]|] eqn:Ea; [|discriminate]. inversion H; subst.
    destruct (IHA _ _ _ _ _ Ea) as (u2 & -> & Hu2).
    exists (u1 ++ c :: u2). split; [rewrite <- app_assoc; reflexivity|]. intros t Ht.
    rewrite <- app_assoc. cbn [app]. rewrite parse_alt_S, (Hu1 _ (lookok_cons _ _ _)), Eb, (Hu2 t Ht). reflexivity.
  - intros s gi acc r rest gi' H. rewrite parse_cat_S in H.
    destruct s as [|c s'].
    { inversion H; subst. exists []. split; [reflexivity|]. intros t Ht. apply lookok_nil in Ht. subst. reflexivity. }
    destruct (N.eqb c ch_bar || N.eqb c ch_rparen) eqn:Es.
    { inversion H; subst. exists []. split; [reflexivity|]. intros t Ht. apply lookok_cons_inv in Ht. destruct Ht as [t' ->].
      cbn [app]. rewrite parse_cat_S, Es. reflexivity. }
    destruct (atom_of (parse_alt F) (parse_class F) c s' gi) as [[[a rest1] gi1]|] eqn:Eat; [|discriminate].
    destruct (atom_of_repl _ _ _ _ _ _ _ IHA Eat) as (u1 & -> & Hu1).
    destruct (parse_quants F a rest1) as [[a' rest2]|] eqn:Eq; [|discriminate].
    destruct (parse_quants_repl _ _ _ _ _ Eq) as (u2 & -> & Hu2).
    destruct (IHC _ _ _ _ _ _ H) as (u3 & -> & Hu3).
    exists (c :: u1 ++ u2 ++ u3). split; [cbn [app]; rewrite <- !app_assoc; reflexivity|]. intros t Ht.
    cbn [app]. rewrite <- !app_assoc. rewrite parse_cat_S, Es, Hu1, (Hu2 _ (lookok_app u3 _ _ Ht)). apply Hu3. exact Ht.
Qed.

(* the two directions together: a parse that stopped in front of a closing parenthesis is the same in any context *)
Corollary parse_alt_context F s gi r ctx gi' : parse_alt F s gi = Some (r, ch_rparen :: ctx, gi') ->
  exists b, s = b ++ ch_rparen :: ctx /\ forall ctx2, parse_alt F (b ++ ch_rparen :: ctx2) gi = Some (r, ch_rparen :: ctx2, gi').
Proof.
  intros H. destruct (proj1 (parse_repl F) _ _ _ _ _ H) as (b & E & Hb). exists b. split; [exact E|].
  intros ctx2. apply Hb. apply lookok_cons.
Qed.

(* ------------------------------------------------------------------ from "in context" to "in isolation" *)
Require Import RIO.Prefix RIO.RxToks.
(* if, somewhere inside a pattern, the parser reads the group ( b ) as ONE atom and stops right after its closing
   parenthesis, then the token TGrp b parses in isolation (the side condition of the partial prefix law) *)
Theorem tok_context_isolated F (b : list N) ctx gi a g :
  atom_of (parse_alt F) (parse_class F) ch_lparen (b ++ ch_rparen :: ctx) gi = Some (a, ctx, g) ->
  tok_atom gi (TGrp b) = Some (a, g).
Proof.
  intros H. destruct (atom_of_repl _ _ _ _ _ _ _ (proj1 (parse_repl F)) H) as (u & E & Hu).
  assert (Eu : u = b ++ [ch_rparen]).
  { apply (app_inv_tail ctx). rewrite <- E, <- app_assoc. reflexivity. }
  subst u. specialize (Hu []). rewrite app_nil_r in Hu.
  destruct (atom_of_ext _ _ _ _ _ _ _ (proj1 (parse_ext F)) Hu) as [_ Hx].
  specialize (Hx (tok_fuel b) []). rewrite !app_nil_r in Hx.
  assert (E2 : atom_of (parse_alt (tok_fuel b)) (parse_class (tok_fuel b)) ch_lparen (b ++ [ch_rparen]) gi = Some (a, [], g)).
  { apply Hx. unfold tok_fuel. rewrite app_length. cbn [length]. lia. }
  cbn [tok_atom].
  match goal with |- context [match ?X with _ => _ end] => replace X with (Some (a, @nil N, g)) by (symmetry; exact E2) end.
  reflexivity.
Qed.
