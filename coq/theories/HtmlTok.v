(* HtmlTok.v — transliteration of /repo/src/html/mod.rs (impl Tokenizer) into the monad of TokMonad.v.
   One Gallina function per Rust function, same names, same order of side effects; the line numbers on the
   right refer to src/html/mod.rs.  Definitions come in dependency order (Coq needs callees first), the Rust
   file has them in the order next / accessors / read_byte / ... ; nothing else is rearranged.
   `byte as char` followed by comparisons with ASCII literals or is_ascii_* is the same test on the u8 value.

   String::to_lowercase (Unicode) is NOT modelled: every function that calls it takes a parameter
   [lower : str -> str] (an oracle, as in C13).  The correspondence run instantiates it with ASCII lowercasing
   patched by the table of real to_lowercase results that the harness reports for every candidate name that
   contains a character on which the two differ.
   String::from_utf8 is modelled by [utf8_valid] (below): failure = [RErr], like the `?` in the source.

   PANIC SITES (site number -> Rust expression; all are checked in the model, see TokMonad.v)
     1  next                               self.raw.end -= 1                          l.211
     2  next                               self.raw.end - "<a".len()                  l.215
     3  next (EndTagToken arm)             self.raw.end -= 1                          l.257
     4  next (CommentToken arm)            self.raw.end -= 1                          l.270
     5  skip_white_space                   self.raw.end -= 1                          l.433
     6  read_raw_end_tag                   self.raw_tag.as_bytes()[i]                 l.489
     7  read_raw_end_tag                   raw_tag.as_bytes()[i] - (b'a' - b'A')  (u8) l.489
     8  read_raw_end_tag                   self.raw.end -= 1                          l.490
     9  read_raw_end_tag                   self.raw.end -= 3 + self.raw_tag.len()     l.504
    10  read_raw_end_tag                   self.raw.end -= 1                          l.509
    11  read_script_data_less_than_sign    self.raw.end -= 1                          l.552
    12  read_script_data_escape_start      self.raw.end -= 1                          l.579
    13  read_script_data_escape_start_dash self.raw.end -= 1                          l.596
    14  read_script_data_escaped_less_than_sign  self.raw.end -= 1                    l.682
    15  read_script_data_double_escape_start     self.raw.end -= 1                    l.695
    16  read_script_data_double_escape_start     b"script"[i] / b"SCRIPT"[i]          l.704
    17  read_script_data_double_escape_start     self.raw.end -= 1                    l.705
    18  read_script_data_double_escape_start     self.raw.end -= 1                    l.723
    19  read_script_data_double_escaped_less_than_sign  self.raw.end -= 1             l.805
    20  read_comment                       self.raw.end - dash_count                  l.836
    21  read_comment                       self.raw.end - "-->".len()                 l.849
    22  read_comment                       self.raw.end - "--!>".len()                l.865
    23  read_until_close_angle             self.raw.end - ">".len()                   l.895
    24  read_markup_declaration            self.raw.end -= 2                          l.926
    25  read_doc_type                      doctype.as_bytes()[i]                      l.955
    26  read_doc_type                      doctype.as_bytes()[i] + (b'a' - b'A') (u8) l.955
    27  read_cdata                         cdata.as_bytes()[i]                        l.988
    28  read_cdata                         self.raw.end - "]]>".len()                 l.1013
    29  start_tag_in                       self.data.end - self.data.start            l.1029
    30  start_tag_in                       self.reader[self.data.start + i]           l.1034
    31  start_tag_in                       c += b'a' - b'A'  (u8)                     l.1037
    32  start_tag_in                       s.as_bytes()[i]                            l.1040
    33  read_start_tag                     self.reader[self.data.start]               l.1059
    34  read_start_tag                     byte += b'a' - b'A'  (u8)                  l.1062
    35  read_start_tag                     self.reader[self.data.start..self.data.end] l.1090
    36  read_start_tag                     self.raw.end - 2                           l.1093
    37  read_start_tag                     self.reader[self.raw.end - 2]              l.1093
    38  read_tag                           self.raw.end -= 1                          l.1117
    39  read_tag_name                      self.raw.end - 1                           l.1134
    40  read_tag_name                      self.raw.end - 1                           l.1147
    41  read_tag_name                      self.raw.end -= 1                          l.1152
    42  read_tag_name_attr_key             self.raw.end - 1                           l.1176
    43  read_tag_name_attr_key             self.raw.end -= 1                          l.1181
    44  read_tag_name_attr_value           self.raw.end -= 1                          l.1207
    45  read_tag_name_attr_value           self.raw.end -= 1                          l.1226
    46  read_tag_name_attr_value           self.raw.end - 1                           l.1241
    47  read_tag_name_attr_value           self.raw.end - 1                           l.1248
    48  read_tag_name_attr_value           self.raw.end - 1                           l.1261
    49  read_tag_name_attr_value           self.raw.end -= 1                          l.1266
    50  buffered                           self.reader[self.raw.end..]                l.293
    51  raw                                self.reader[self.raw.start..self.raw.end]  l.301
    52  text                               self.reader[self.data.start..self.data.end] l.311
    53  tag_name                           self.reader[self.data.start..self.data.end] l.330
    54  tag_attr                           self.attribute[self.number_attribute_returned] l.348
    55  tag_attr                           self.reader[attr[0].start..attr[0].end]    l.351
    56  tag_attr                           self.reader[attr[1].start..attr[1].end]    l.352
   Not a site: self.attribute[..0] (l.1101) cannot fail.
   Site 7 in a release build (no overflow-checks): the subtraction wraps modulo 256, so for a raw_tag byte
   below 32 the comparison would be made against byte + 224 instead of panicking.  raw_tag only ever holds
   one of the ten lower-case element names below, so neither behaviour is reachable.

   No proofs in this file. *)
Require Import RIO.Base RIO.TokMonad.

(* ------------------------------------------------------------------------------------------- bytes *)
Definition LT : N := 60.       (* '<' *)
Definition GT : N := 62.       (* '>' *)
Definition SLASH : N := 47.    (* '/' *)
Definition BANG : N := 33.     (* '!' *)
Definition QMARK : N := 63.    (* '?' *)
Definition DASH : N := 45.     (* '-' *)
Definition EQUALS : N := 61.   (* '=' *)
Definition DQUOTE : N := 34.   (* double quote *)
Definition SQUOTE : N := 39.   (* single quote *)
Definition RBRACKET : N := 93. (* ']' *)

Definition is b c : bool := N.eqb b c.
(* ' ' | '\n' | '\r' | '\t' | '\x0c' *)
Definition is_ws (b : N) : bool := is b 32 || is b 10 || is b 13 || is b 9 || is b 12.
Definition is_ascii_uppercase (b : N) : bool := N.leb 65 b && N.leb b 90.
Definition is_ascii_lowercase (b : N) : bool := N.leb 97 b && N.leb b 122.
Definition is_ascii_alphabetic (b : N) : bool := is_ascii_uppercase b || is_ascii_lowercase b.

(* the literals of the source; properties/C16.v checks each against its string *)
Definition s_iframe : str := [105;102;114;97;109;101]%N.
Definition s_noembed : str := [110;111;101;109;98;101;100]%N.
Definition s_noframes : str := [110;111;102;114;97;109;101;115]%N.
Definition s_noscript : str := [110;111;115;99;114;105;112;116]%N.
Definition s_plaintext : str := [112;108;97;105;110;116;101;120;116]%N.
Definition s_script : str := [115;99;114;105;112;116]%N.
Definition s_SCRIPT : str := [83;67;82;73;80;84]%N.
Definition s_style : str := [115;116;121;108;101]%N.
Definition s_title : str := [116;105;116;108;101]%N.
Definition s_textarea : str := [116;101;120;116;97;114;101;97]%N.
Definition s_xmp : str := [120;109;112]%N.
Definition s_DOCTYPE : str := [68;79;67;84;89;80;69]%N.
Definition s_CDATA : str := [91;67;68;65;84;65;91]%N.    (* "[CDATA[" *)

(* ------------------------------------------------------------------------ String::from_utf8 succeeds *)
(* Well-formed UTF-8 (Unicode table 3-7): no overlong forms, no surrogates, nothing above U+10FFFF —
   the set accepted by core::str::from_utf8. *)
Definition in_range (lo hi b : N) : bool := N.leb lo b && N.leb b hi.
Definition utf8_cont (b : N) : bool := in_range 128 191 b.

Fixpoint utf8_valid (l : list N) : bool :=
  match l with
  | [] => true
  | b0 :: t0 =>
      if N.ltb b0 128 then utf8_valid t0
      else if in_range 194 223 b0 then
        match t0 with
        | b1 :: t1 => utf8_cont b1 && utf8_valid t1
        | _ => false
        end
      else if in_range 224 239 b0 then
        match t0 with
        | b1 :: b2 :: t2 =>
            (if is b0 224 then in_range 160 191 b1
             else if is b0 237 then in_range 128 159 b1
             else utf8_cont b1)
            && utf8_cont b2 && utf8_valid t2
        | _ => false
        end
      else if in_range 240 244 b0 then
        match t0 with
        | b1 :: b2 :: b3 :: t3 =>
            (if is b0 240 then in_range 144 191 b1
             else if is b0 244 then in_range 128 143 b1
             else utf8_cont b1)
            && utf8_cont b2 && utf8_cont b3 && utf8_valid t3
        | _ => false
        end
      else false
  end.

(* s.replace('\x00', "\u{fffd}") on the bytes of a valid UTF-8 string: a zero byte is always the char NUL *)
Fixpoint replace_nul (l : list N) : list N :=
  match l with
  | [] => []
  | b :: t => if is b 0 then 239%N :: 191%N :: 189%N :: replace_nul t else b :: replace_nul t
  end.
Definition contains_nul (l : list N) : bool := memN 0%N l.

(* ================================================================================================== *)
(* fn skip_white_space(&mut self)                                                          l.418-439 *)
Definition skip_white_space : M unit :=
  s <- get ;;
  if err s then ret tt else
  r <- loop_in (fun _ : unit =>
         byte <- read_byte ;;
         s <- get ;;
         if err s then ret (Return tt) else
         if is_ws byte then ret (Continue tt)
         else
           dec_raw_end 5 1 ;;;
           ret (Return tt)) tt ;;
  ret tt.

(* fn read_raw_end_tag(&mut self) -> bool                                                  l.481-514 *)
Definition read_raw_end_tag : M bool :=
  s0 <- get ;;
  r <- for_range (length (raw_tag s0)) 0 (fun i =>
         byte <- read_byte ;;
         s <- get ;;
         if err s then ret (Some false) else
         (* byte != raw_tag[i] && byte != raw_tag[i] - (b'a' - b'A') : the second operand is only evaluated
            when the first is true *)
         c <- index_of 6 (raw_tag s) i ;;
         if is byte c then ret None else
         c' <- index_of 6 (raw_tag s) i ;;
         u <- sub_u8 7 c' 32 ;;
         if is byte u then ret None else
         dec_raw_end 8 1 ;;;
         ret (Some false)) ;;
  match r with
  | Some b => ret b
  | None =>
      byte <- read_byte ;;
      s <- get ;;
      if err s then ret false else
      if is_ws byte || is byte SLASH || is byte GT then
        dec_raw_end 9 (3 + length (raw_tag s)) ;;;
        ret true
      else
        dec_raw_end 10 1 ;;;
        ret false
  end.

(* The script-data states: each Rust function reads one byte and tail-calls the next state (recursion depth
   = number of bytes).  Here: one mutual fixpoint on fuel, one unit per call.                l.521-822 *)
Fixpoint read_script_data (fuel : nat) : M unit :=                                       (* l.521 *)
  match fuel with O => out_of_fuel | S f =>
    byte <- read_byte ;;
    s <- get ;;
    if err s then ret tt else
    if is byte LT then read_script_data_less_than_sign f
    else read_script_data f
  end
with read_script_data_less_than_sign (fuel : nat) : M unit :=                            (* l.537 *)
  match fuel with O => out_of_fuel | S f =>
    byte <- read_byte ;;
    s <- get ;;
    if err s then ret tt else
    if is byte SLASH then read_script_data_end_tag_open f
    else if is byte BANG then read_script_data_escape_start f
    else
      dec_raw_end 11 1 ;;;
      read_script_data f
  end
with read_script_data_end_tag_open (fuel : nat) : M unit :=                              (* l.558 *)
  match fuel with O => out_of_fuel | S f =>
    b <- read_raw_end_tag ;;
    s <- get ;;
    if b || err s then ret tt else
    read_script_data f
  end
with read_script_data_escape_start (fuel : nat) : M unit :=                              (* l.566 *)
  match fuel with O => out_of_fuel | S f =>
    byte <- read_byte ;;
    s <- get ;;
    if err s then ret tt else
    if is byte DASH then read_script_data_escape_start_dash f
    else
      dec_raw_end 12 1 ;;;
      read_script_data f
  end
with read_script_data_escape_start_dash (fuel : nat) : M unit :=                         (* l.583 *)
  match fuel with O => out_of_fuel | S f =>
    byte <- read_byte ;;
    s <- get ;;
    if err s then ret tt else
    if is byte DASH then read_script_data_escaped_dash_dash f
    else
      dec_raw_end 13 1 ;;;
      read_script_data f
  end
with read_script_data_escaped (fuel : nat) : M unit :=                                   (* l.600 *)
  match fuel with O => out_of_fuel | S f =>
    byte <- read_byte ;;
    s <- get ;;
    if err s then ret tt else
    if is byte DASH then read_script_data_escaped_dash f
    else if is byte LT then read_script_data_escaped_less_than_sign f
    else read_script_data_escaped f
  end
with read_script_data_escaped_dash (fuel : nat) : M unit :=                              (* l.620 *)
  match fuel with O => out_of_fuel | S f =>
    byte <- read_byte ;;
    s <- get ;;
    if err s then ret tt else
    if is byte DASH then read_script_data_escaped_dash_dash f
    else if is byte LT then read_script_data_escaped_less_than_sign f
    else read_script_data_escaped f
  end
with read_script_data_escaped_dash_dash (fuel : nat) : M unit :=                         (* l.640 *)
  match fuel with O => out_of_fuel | S f =>
    byte <- read_byte ;;
    s <- get ;;
    if err s then ret tt else
    if is byte DASH then read_script_data_escaped_dash_dash f
    else if is byte LT then read_script_data_escaped_less_than_sign f
    else if is byte GT then read_script_data f
    else read_script_data_escaped f
  end
with read_script_data_escaped_less_than_sign (fuel : nat) : M unit :=                    (* l.663 *)
  match fuel with O => out_of_fuel | S f =>
    byte <- read_byte ;;
    s <- get ;;
    if err s then ret tt else
    if is byte SLASH then read_script_data_escaped_end_tag_open f
    else if is_ascii_alphabetic byte then read_script_data_double_escape_start f
    else
      dec_raw_end 14 1 ;;;
      read_script_data f
  end
with read_script_data_escaped_end_tag_open (fuel : nat) : M unit :=                      (* l.686 *)
  match fuel with O => out_of_fuel | S f =>
    b <- read_raw_end_tag ;;
    s <- get ;;
    if b || err s then ret tt else
    read_script_data_escaped f
  end
with read_script_data_double_escape_start (fuel : nat) : M unit :=                       (* l.694 *)
  match fuel with O => out_of_fuel | S f =>
    dec_raw_end 15 1 ;;;
    (* for i in 0.."script".len(): Some true = `return` on EOF, Some false = mismatch (after the un-read) *)
    r <- for_range (length s_script) 0 (fun i =>
           byte <- read_byte ;;
           s <- get ;;
           if err s then ret (Some true) else
           c <- index_of 16 s_script i ;;
           if is byte c then ret None else
           c' <- index_of 16 s_SCRIPT i ;;
           if is byte c' then ret None else
           dec_raw_end 17 1 ;;;
           ret (Some false)) ;;
    match r with
    | Some true => ret tt
    | Some false => read_script_data_escaped f
    | None =>
        byte <- read_byte ;;
        s <- get ;;
        if err s then ret tt else
        if is_ws byte || is byte SLASH || is byte GT then read_script_data_double_escaped f
        else
          dec_raw_end 18 1 ;;;
          read_script_data_escaped f
    end
  end
with read_script_data_double_escaped (fuel : nat) : M unit :=                            (* l.729 *)
  match fuel with O => out_of_fuel | S f =>
    byte <- read_byte ;;
    s <- get ;;
    if err s then ret tt else
    if is byte DASH then read_script_data_double_escaped_dash f
    else if is byte LT then read_script_data_double_escaped_less_than_sign f
    else read_script_data_double_escaped f
  end
with read_script_data_double_escaped_dash (fuel : nat) : M unit :=                       (* l.749 *)
  match fuel with O => out_of_fuel | S f =>
    byte <- read_byte ;;
    s <- get ;;
    if err s then ret tt else
    if is byte DASH then read_script_data_double_escaped_dash_dash f
    else if is byte LT then read_script_data_double_escaped_less_than_sign f
    else read_script_data_double_escaped f
  end
with read_script_data_double_escaped_dash_dash (fuel : nat) : M unit :=                  (* l.769 *)
  match fuel with O => out_of_fuel | S f =>
    byte <- read_byte ;;
    s <- get ;;
    if err s then ret tt else
    if is byte DASH then read_script_data_double_escaped_dash_dash f
    else if is byte LT then read_script_data_double_escaped_less_than_sign f
    else if is byte GT then read_script_data f
    else read_script_data_double_escaped f
  end
with read_script_data_double_escaped_less_than_sign (fuel : nat) : M unit :=             (* l.792 *)
  match fuel with O => out_of_fuel | S f =>
    byte <- read_byte ;;
    s <- get ;;
    if err s then ret tt else
    if is byte SLASH then read_script_data_double_escaped_end f
    else
      dec_raw_end 19 1 ;;;
      read_script_data_double_escaped f
  end
with read_script_data_double_escaped_end (fuel : nat) : M unit :=                        (* l.809 *)
  match fuel with O => out_of_fuel | S f =>
    b <- read_raw_end_tag ;;
    if b then
      (* self.raw.end += "</script>".len() *)
      upd (fun s => set_raw_end (raw_end s + 9) s) ;;;
      read_script_data_escaped f
    else
      s <- get ;;
      if err s then ret tt else
      read_script_data_double_escaped f
  end.

(* fn read_script(&mut self)                                                               l.516-519 *)
Definition read_script : M unit :=
  n <- script_fuel ;;
  read_script_data n ;;;
  upd (fun s => set_data_end (raw_end s) s).

(* fn read_raw_or_cdata(&mut self)                                                         l.441-479 *)
Definition read_raw_or_cdata : M unit :=
  s <- get ;;
  if str_eqb (raw_tag s) s_script then
    read_script ;;;
    upd (set_text_is_raw true) ;;;
    upd (set_raw_tag [])
  else
    r <- loop_in (fun _ : unit =>
           byte <- read_byte ;;
           s <- get ;;
           if err s then ret Break else
           if negb (is byte LT) then ret (Continue tt) else
           byte <- read_byte ;;
           s <- get ;;
           if err s then ret Break else
           if negb (is byte SLASH) then ret (Continue tt) else
           b <- read_raw_end_tag ;;
           s <- get ;;
           if b || err s then ret Break
           else ret (Continue tt)) tt ;;
    let _ : option unit := r in
    upd (fun s => set_data_end (raw_end s) s) ;;;
    upd (fun s => set_text_is_raw (negb (str_eqb (raw_tag s) s_textarea) && negb (str_eqb (raw_tag s) s_title)) s) ;;;
    upd (set_raw_tag []).

(* fn read_comment(&mut self)                                                              l.824-880 *)
Definition read_comment : M unit :=
  upd (fun s => set_data_start (raw_end s) s) ;;;
  (* let mut dash_count = 2 : the loop-carried local *)
  r <- loop_in (fun dash_count : nat =>
         byte <- read_byte ;;
         s <- get ;;
         if err s then
           let dash_count := if 2 <? dash_count then 2 else dash_count in
           x <- sub_usize 20 (raw_end s) dash_count ;;
           upd (set_data_end x) ;;;
           ret Break
         else
         if is byte DASH then ret (Continue (dash_count + 1))
         else if is byte GT then
           if 2 <=? dash_count then
             x <- sub_usize 21 (raw_end s) 3 ;;
             upd (set_data_end x) ;;;
             ret Break
           else ret (Continue 0)
         else if is byte BANG then
           if 2 <=? dash_count then
             byte <- read_byte ;;
             s <- get ;;
             if err s then
               upd (set_data_end (raw_end s)) ;;;
               ret Break
             else
             if is byte GT then
               x <- sub_usize 22 (raw_end s) 4 ;;
               upd (set_data_end x) ;;;
               ret Break
             else ret (Continue 0)
           else ret (Continue 0)
         else ret (Continue 0)) 2 ;;
  let _ : option unit := r in
  s <- get ;;
  if data_end s <? data_start s then upd (set_data_end (data_start s)) else ret tt.

(* fn read_until_close_angle(&mut self)                                                    l.882-900 *)
Definition read_until_close_angle : M unit :=
  upd (fun s => set_data_start (raw_end s) s) ;;;
  r <- loop_in (fun _ : unit =>
         byte <- read_byte ;;
         s <- get ;;
         if err s then
           upd (set_data_end (raw_end s)) ;;;
           ret (Return tt)
         else
         if is byte GT then
           x <- sub_usize 23 (raw_end s) 1 ;;
           upd (set_data_end x) ;;;
           ret (Return tt)
         else ret (Continue tt)) tt ;;
  ret tt.

(* fn read_doc_type(&mut self) -> bool                                                     l.943-974 *)
Definition read_doc_type : M bool :=
  r <- for_range (length s_DOCTYPE) 0 (fun i =>
         byte <- read_byte ;;
         s <- get ;;
         if err s then
           upd (set_data_end (raw_end s)) ;;;
           ret (Some false)
         else
         c <- index_of 25 s_DOCTYPE i ;;
         if is byte c then ret None else
         c' <- index_of 25 s_DOCTYPE i ;;
         u <- add_u8 26 c' 32 ;;
         if is byte u then ret None else
         upd (set_raw_end (data_start s)) ;;;
         ret (Some false)) ;;
  match r with
  | Some b => ret b
  | None =>
      skip_white_space ;;;
      s <- get ;;
      if err s then
        upd (set_data_start (raw_end s)) ;;;
        upd (set_data_end (raw_end s)) ;;;
        ret true
      else
        read_until_close_angle ;;;
        ret true
  end.

(* fn read_cdata(&mut self) -> bool                                                        l.976-1025 *)
Definition read_cdata : M bool :=
  r <- for_range (length s_CDATA) 0 (fun i =>
         byte <- read_byte ;;
         s <- get ;;
         if err s then
           upd (set_data_end (raw_end s)) ;;;
           ret (Some false)
         else
         c <- index_of 27 s_CDATA i ;;
         if is byte c then ret None else
         upd (set_raw_end (data_start s)) ;;;
         ret (Some false)) ;;
  match r with
  | Some b => ret b
  | None =>
      upd (fun s => set_data_start (raw_end s) s) ;;;
      (* let mut brackets = 0 *)
      r <- loop_in (fun brackets : nat =>
             byte <- read_byte ;;
             s <- get ;;
             if err s then
               upd (set_data_end (raw_end s)) ;;;
               ret (Return true)
             else
             if is byte RBRACKET then ret (Continue (brackets + 1))
             else if is byte GT then
               if 2 <? brackets then       (* sic: `brackets > 2`, i.e. "]]]>" closes, "]]>" does not *)
                 x <- sub_usize 28 (raw_end s) 3 ;;
                 upd (set_data_end x) ;;;
                 ret (Return true)
               else ret (Continue 0)
             else ret (Continue 0)) 0 ;;
      match r with
      | Some b => ret b
      | None => ret true      (* only reachable with the fuel flag set *)
      end
  end.

(* fn read_markup_declaration(&mut self) -> TokenType                                      l.902-941 *)
Definition read_markup_declaration : M token_type :=
  upd (fun s => set_data_start (raw_end s) s) ;;;
  first_byte <- read_byte ;;
  s <- get ;;
  if err s then
    upd (set_data_end (raw_end s)) ;;;
    ret CommentToken
  else
  second_byte <- read_byte ;;
  s <- get ;;
  if err s then
    upd (set_data_end (raw_end s)) ;;;
    ret CommentToken
  else
  if is first_byte DASH && is second_byte DASH then
    read_comment ;;;
    ret CommentToken
  else
  dec_raw_end 24 2 ;;;
  b <- read_doc_type ;;
  if b then ret DoctypeToken else
  s <- get ;;
  (* self.allow_cdata && self.read_cdata() *)
  b <- (if allow_cdata s then read_cdata else ret false) ;;
  if b then
    upd (set_convert_null true) ;;;
    ret TextToken
  else
  read_until_close_angle ;;;
  ret CommentToken.

(* fn start_tag_in(&self, ss: Vec<String>) -> bool                                         l.1027-1049 *)
Fixpoint start_tag_in (ss : list str) : M bool :=
  match ss with
  | [] => ret false
  | s_ :: ss' =>
      s <- get ;;
      d <- sub_usize 29 (data_end s) (data_start s) ;;
      if negb (d =? length s_) then start_tag_in ss' else
      (* Some tt = `continue 'main` *)
      r <- for_range (length s_) 0 (fun i =>
             c <- index 30 (data_start s + i) ;;
             c <- (if is_ascii_uppercase c then add_u8 31 c 32 else ret c) ;;
             e <- index_of 32 s_ i ;;
             if negb (is c e) then ret (Some tt) else ret None) ;;
      match r with
      | Some _ => start_tag_in ss'
      | None => ret true
      end
  end.

(* fn read_tag_name(&mut self)                                                             l.1133-1160 *)
Definition read_tag_name : M unit :=
  s <- get ;;
  x <- sub_usize 39 (raw_end s) 1 ;;
  upd (set_data_start x) ;;;
  r <- loop_in (fun _ : unit =>
         byte <- read_byte ;;
         s <- get ;;
         if err s then
           upd (set_data_end (raw_end s)) ;;;
           ret (Return tt)
         else
         if is_ws byte then
           x <- sub_usize 40 (raw_end s) 1 ;;
           upd (set_data_end x) ;;;
           ret (Return tt)
         else if is byte SLASH || is byte GT then
           dec_raw_end 41 1 ;;;
           upd (fun s => set_data_end (raw_end s) s) ;;;
           ret (Return tt)
         else ret (Continue tt)) tt ;;
  ret tt.

(* fn read_tag_name_attr_key(&mut self)                                                    l.1162-1189 *)
Definition read_tag_name_attr_key : M unit :=
  upd (fun s => set_pa_key_start (raw_end s) s) ;;;
  r <- loop_in (fun _ : unit =>
         byte <- read_byte ;;
         s <- get ;;
         if err s then
           upd (set_pa_key_end (raw_end s)) ;;;
           ret (Return tt)
         else
         if is_ws byte || is byte SLASH then
           x <- sub_usize 42 (raw_end s) 1 ;;
           upd (set_pa_key_end x) ;;;
           ret (Return tt)
         else if is byte EQUALS || is byte GT then
           dec_raw_end 43 1 ;;;
           upd (fun s => set_pa_key_end (raw_end s) s) ;;;
           ret (Return tt)
         else ret (Continue tt)) tt ;;
  ret tt.

(* fn read_tag_name_attr_value(&mut self)                                                  l.1191-1276 *)
Definition read_tag_name_attr_value : M unit :=
  upd (fun s => set_pa_val_start (raw_end s) s) ;;;
  upd (fun s => set_pa_val_end (raw_end s) s) ;;;
  skip_white_space ;;;
  s <- get ;;
  if err s then ret tt else
  byte <- read_byte ;;
  s <- get ;;
  if err s then ret tt else
  if negb (is byte EQUALS) then
    dec_raw_end 44 1
  else
  skip_white_space ;;;
  s <- get ;;
  if err s then ret tt else
  quote <- read_byte ;;
  s <- get ;;
  if err s then ret tt else
  if is quote GT then
    dec_raw_end 45 1
  else if is quote SQUOTE || is quote DQUOTE then
    upd (fun s => set_pa_val_start (raw_end s) s) ;;;
    r <- loop_in (fun _ : unit =>
           byte <- read_byte ;;
           s <- get ;;
           if err s then
             upd (set_pa_val_end (raw_end s)) ;;;
             ret (Return tt)
           else
           if is byte quote then
             x <- sub_usize 46 (raw_end s) 1 ;;
             upd (set_pa_val_end x) ;;;
             ret (Return tt)
           else ret (Continue tt)) tt ;;
    ret tt
  else
    x <- sub_usize 47 (raw_end s) 1 ;;
    upd (set_pa_val_start x) ;;;
    r <- loop_in (fun _ : unit =>
           byte <- read_byte ;;
           s <- get ;;
           if err s then
             upd (set_pa_val_end (raw_end s)) ;;;
             ret (Return tt)
           else
           if is_ws byte then
             x <- sub_usize 48 (raw_end s) 1 ;;
             upd (set_pa_val_end x) ;;;
             ret (Return tt)
           else if is byte GT then
             dec_raw_end 49 1 ;;;
             upd (fun s => set_pa_val_end (raw_end s) s) ;;;
             ret (Return tt)
           else ret (Continue tt)) tt ;;
    ret tt.

(* fn read_tag(&mut self, save_attr: bool)                                                 l.1100-1131 *)
Definition read_tag (save_attr : bool) : M unit :=
  upd (set_attribute []) ;;;                    (* self.attribute = self.attribute[..0].to_vec() *)
  upd (set_number_attribute_returned 0) ;;;
  read_tag_name ;;;
  skip_white_space ;;;
  s <- get ;;
  if err s then ret tt else
  r <- loop_in (fun _ : unit =>
         byte <- read_byte ;;
         s <- get ;;
         if err s || is byte GT then ret (Return tt) else
         dec_raw_end 38 1 ;;;
         read_tag_name_attr_key ;;;
         read_tag_name_attr_value ;;;
         s <- get ;;
         (if save_attr && negb (fst (fst (pending_attribute s)) =? snd (fst (pending_attribute s)))
          then upd (set_attribute (attribute s ++ [pending_attribute s]))
          else ret tt) ;;;
         skip_white_space ;;;
         s <- get ;;
         if err s then ret (Return tt)
         else ret (Continue tt)) tt ;;
  ret tt.

(* fn read_start_tag(&mut self) -> Result<TokenType>                                       l.1051-1098 *)
Definition read_start_tag (lower : str -> str) : M (result token_type) :=
  read_tag true ;;;
  s <- get ;;
  if err s then ret (ROk ErrorToken) else
  byte <- index 33 (data_start s) ;;
  byte <- (if is_ascii_uppercase byte then add_u8 34 byte 32 else ret byte) ;;
  raw <- (if is byte 105 (* 'i' *) then start_tag_in [s_iframe]
          else if is byte 110 (* 'n' *) then start_tag_in [s_noembed; s_noframes; s_noscript]
          else if is byte 112 (* 'p' *) then start_tag_in [s_plaintext]
          else if is byte 115 (* 's' *) then start_tag_in [s_script; s_style]
          else if is byte 116 (* 't' *) then start_tag_in [s_textarea; s_title]
          else if is byte 120 (* 'x' *) then start_tag_in [s_xmp]
          else ret false) ;;
  (* if raw { self.raw_tag = String::from_utf8(self.reader[data.start..data.end].to_vec())?.to_lowercase() } *)
  ok <- (if raw then
           bytes <- slice 35 (data_start s) (data_end s) ;;
           if utf8_valid bytes then upd (set_raw_tag (lower bytes)) ;;; ret true
           else ret false
         else ret true) ;;
  if negb ok then ret RErr else
  s <- get ;;
  (* self.err.is_none() && self.reader[self.raw.end - 2] == b'/' *)
  if negb (err s) then
    x <- sub_usize 36 (raw_end s) 2 ;;
    b <- index 37 x ;;
    if is b SLASH then ret (ROk SelfClosingTagToken) else ret (ROk StartTagToken)
  else ret (ROk StartTagToken).

(* pub fn next(&mut self) -> Result<TokenType>                                             l.151-290 *)
Definition next (lower : str -> str) : M (result token_type) :=
  upd (fun s => set_raw_start (raw_end s) s) ;;;
  upd (fun s => set_data_start (raw_end s) s) ;;;
  upd (fun s => set_data_end (raw_end s) s) ;;;
  s <- get ;;
  if err s then
    upd (set_token ErrorToken) ;;;
    ret (ROk ErrorToken)
  else
  (* if !self.raw_tag.is_empty() { ... }: true = the function returned a TextToken from inside the block *)
  returned <- (if negb (is_nil (raw_tag s)) then
      (if str_eqb (raw_tag s) s_plaintext then
         (* while self.err.is_none() { self.read_byte(); } *)
         r <- loop_in (fun _ : unit =>
                s <- get ;;
                if negb (err s) then read_byte ;;; ret (Continue tt)
                else ret Break) tt ;;
         let _ : option unit := r in
         upd (fun s => set_data_end (raw_end s) s) ;;;
         upd (set_text_is_raw true)
       else read_raw_or_cdata) ;;;
      s <- get ;;
      if data_start s <? data_end s then
        upd (set_token TextToken) ;;;
        upd (set_convert_null true) ;;;
        ret true
      else ret false
    else ret false) ;;
  if returned then ret (ROk TextToken) else
  upd (set_text_is_raw false) ;;;
  upd (set_convert_null false) ;;;
  r <- loop_in (fun _ : unit =>                                                     (* 'main: loop *)
         byte <- read_byte ;;
         s <- get ;;
         if err s then ret Break else
         if negb (is byte LT) then ret (Continue tt) else
         byte <- read_byte ;;
         s <- get ;;
         if err s then ret Break else
         let token_type :=
           if is_ascii_alphabetic byte then Some StartTagToken
           else if is byte SLASH then Some EndTagToken
           else if is byte BANG || is byte QMARK then Some CommentToken
           else None in
         match token_type with
         | None =>
             dec_raw_end 1 1 ;;;
             ret (Continue tt)
         | Some token_type =>
             x <- sub_usize 2 (raw_end s) 2 ;;
             if raw_start s <? x then
               upd (set_raw_end x) ;;;
               upd (set_data_end x) ;;;
               upd (set_token TextToken) ;;;
               ret (Return (ROk TextToken))
             else
             match token_type with
             | StartTagToken =>
                 t <- read_start_tag lower ;;
                 match t with
                 | RErr => ret (Return RErr)          (* `?`: self.token is not assigned *)
                 | ROk t =>
                     upd (set_token t) ;;;
                     ret (Return (ROk t))
                 end
             | EndTagToken =>
                 end_byte <- read_byte ;;
                 s <- get ;;
                 if err s then ret Break else
                 if is end_byte GT then
                   upd (set_token CommentToken) ;;;
                   ret (Return (ROk CommentToken))
                 else
                 if is_ascii_alphabetic end_byte then
                   read_tag false ;;;
                   s <- get ;;
                   (if err s then upd (set_token ErrorToken) else upd (set_token EndTagToken)) ;;;
                   s <- get ;;
                   ret (Return (ROk (token s)))
                 else
                 dec_raw_end 3 1 ;;;
                 read_until_close_angle ;;;
                 upd (set_token CommentToken) ;;;
                 ret (Return (ROk CommentToken))
             | CommentToken =>
                 if is byte BANG then
                   t <- read_markup_declaration ;;
                   upd (set_token t) ;;;
                   ret (Return (ROk t))
                 else
                 dec_raw_end 4 1 ;;;
                 read_until_close_angle ;;;
                 upd (set_token CommentToken) ;;;
                 ret (Return (ROk CommentToken))
             | _ => ret (Continue tt)
             end
         end) tt ;;
  match r with
  | Some res => ret res
  | None =>                                                                         (* after 'main *)
      s <- get ;;
      if raw_start s <? raw_end s then
        upd (set_data_end (raw_end s)) ;;;
        upd (set_token TextToken) ;;;
        ret (ROk TextToken)
      else
        upd (set_token ErrorToken) ;;;
        ret (ROk ErrorToken)
  end.

(* ---------------------------------------------------------------------------------------- accessors *)
(* pub fn buffered(&self) -> Vec<u8>                                                       l.292 *)
Definition buffered : M (list N) :=
  s <- get ;; slice_from 50 (raw_end s).

(* pub fn raw(&self) -> Vec<u8>                                                            l.300 *)
Definition raw : M (list N) :=
  s <- get ;; slice 51 (raw_start s) (raw_end s).

(* pub fn text(&mut self) -> Result<Option<String>>                                        l.308-324 *)
Definition text : M (result (option str)) :=
  s <- get ;;
  match token s with
  | TextToken | CommentToken | DoctypeToken =>
      bytes <- slice 52 (data_start s) (data_end s) ;;
      if negb (utf8_valid bytes) then ret RErr else
      upd (set_data_start (raw_end s)) ;;;
      upd (set_data_end (raw_end s)) ;;;
      (* self.convert_null || self.token == TextToken && s.contains('\x00') *)
      if convert_null s || (token_eqb (token s) TextToken && contains_nul bytes)
      then ret (ROk (Some (replace_nul bytes)))
      else ret (ROk (Some bytes))
  | _ => ret (ROk None)
  end.

(* pub fn tag_name(&mut self) -> Result<(Option<String>, bool)>                            l.326-342 *)
Definition tag_name (lower : str -> str) : M (result (option str * bool)) :=
  s <- get ;;
  if data_start s <? data_end s then
    match token s with
    | StartTagToken | EndTagToken | SelfClosingTagToken =>
        bytes <- slice 53 (data_start s) (data_end s) ;;
        if negb (utf8_valid bytes) then ret RErr else
        upd (set_data_start (raw_end s)) ;;;
        upd (set_data_end (raw_end s)) ;;;
        ret (ROk (Some (lower bytes), number_attribute_returned s <? length (attribute s)))
    | _ => ret (ROk (None, false))
    end
  else ret (ROk (None, false)).

(* pub fn tag_attr(&mut self) -> Result<(Option<String>, Option<String>, bool)>            l.344-365 *)
Definition tag_attr (lower : str -> str) : M (result (option str * option str * bool)) :=
  s <- get ;;
  if number_attribute_returned s <? length (attribute s) then
    match token s with
    | StartTagToken | SelfClosingTagToken =>
        attr <- index_attr 54 (attribute s) (number_attribute_returned s) ;;
        upd (set_number_attribute_returned (number_attribute_returned s + 1)) ;;;
        key <- slice 55 (fst (fst attr)) (snd (fst attr)) ;;
        if negb (utf8_valid key) then ret RErr else
        val <- slice 56 (fst (snd attr)) (snd (snd attr)) ;;
        if negb (utf8_valid val) then ret RErr else
        s <- get ;;
        ret (ROk (Some (lower key), Some val, number_attribute_returned s <? length (attribute s)))
    | _ => ret (ROk (None, None, false))
    end
  else ret (ROk (None, None, false)).

(* pub fn new_fragment(reader, context_tag) -> Tokenizer   (the reader is the monad's input)  l.112-140 *)
Definition raw_text_elements : list str :=
  [s_iframe; s_noembed; s_noframes; s_noscript; s_plaintext; s_script; s_style; s_title; s_textarea; s_xmp].

Definition new_fragment (lower : str -> str) (context_tag : str) : st :=
  if negb (is_nil context_tag) then
    let context_tag := lower context_tag in
    if mem_str context_tag raw_text_elements then set_raw_tag context_tag st0 else st0
  else st0.

(* pub fn new(reader) -> Tokenizer                                                         l.108 *)
Definition new (lower : str -> str) : st := new_fragment lower [].
