(* Marker.v — executable model of the marker / variable code of the crate (C10), one Gallina function per
   Rust function:
     src/marker/mod.rs                 Marker::format, MarkerString::{new, capture}, StaticOrDynamic::{new_with_markers,
                                       capture, replace}
     src/marker/transformer/*.rs       Slice, Replace exactly (bytes, char boundaries, panics as [outcome]);
                                       Lowercase / Uppercase on ASCII, otherwise oracle; Camelize / Dasherize /
                                       Underscorize (heck) as oracles
     src/api/transformer.rs            Transformer::to_transform (kind / options decoding, usize::from_str)
     src/api/marker.rs                 Marker::transform (chain)
     src/api/variable.rs               get_value (api/variable.rs)
     src/api/rule.rs                   Rule::{markers, path_and_query, host, headers, variables, get_marker}
     src/router/route.rs               Route::capture
     src/router/route_header.rs        RouteHeader::capture
     src/router/request_matcher/*.rs   what a router holding ONE rule answers: path (leaf regex ^..$ or static
                                       string), host (same, any-host when the rule has none), header conditions
                                       (ValueCondition::match_value: unanchored Regex::new(marker.regex))
     src/action/mod.rs                 Action::get_target, Action::from_route_rule: where variables are substituted
     std                               str::replace (transformer Replace, and the pinned StaticOrDynamic::replace), str::contains, slice::sort_by (stable), usize::from_str,
                                       str::is_char_boundary, HashMap (as association list sorted by key)
     regex-syntax 0.8.11               escape / is_meta_character (RIO.Prefix.is_meta), group-name syntax
   The regex engine is a PARAMETER of every function that needs it ([engine]); C10Run instantiates it with RIO.Rx.
   Strings are UTF-8 byte lists; the engine works on code points ([utf8_decode] / [utf8_encode]).
   No proofs in this file. *)
Require Import Coq.Strings.String Coq.Strings.Ascii.
Require Import RIO.Base RIO.Pct RIO.Url RIO.Prefix.
Open Scope N_scope.

(* byte string of a Coq string literal (the source file is ASCII) *)
Definition lit (s : string) : str := map N_of_ascii (list_ascii_of_string s).

Definition c_at : N := 64.   (* @ *)

(* ================================================================================================== *)
(* Part A: std string operations                                                                       *)

(* str::starts_with *)
Fixpoint prefixb (p s : str) : bool :=
  match p, s with
  | [], _ => true
  | x :: p', y :: s' => N.eqb x y && prefixb p' s'
  | _ :: _, [] => false
  end.

(* str::contains *)
Fixpoint containsb (p s : str) : bool :=
  prefixb p s || match s with [] => false | _ :: s' => containsb p s' end.

(* str::ends_with *)
Definition suffixb (p s : str) : bool := prefixb (rev p) (rev s).

(* str::is_char_boundary for 0 < i < len: the byte at i is not a continuation byte *)
Definition is_cont (x : N) : bool := in_range 128 191 x.

(* str::replace(p, t) for a NON-EMPTY pattern: leftmost non-overlapping occurrences, scanned left to right.
   [skip] = number of bytes of the current occurrence still to be dropped. *)
Fixpoint repl (p t s : str) (skip : nat) : str :=
  match s with
  | [] => []
  | c :: s' =>
      match skip with
      | S k => repl p t s' k
      | O => if prefixb p s then t ++ repl p t s' (length p - 1) else c :: repl p t s' 0
      end
  end.

(* str::replace("", t): t is inserted before every char and at the end *)
Fixpoint repl_empty (t s : str) : str :=
  match s with
  | [] => t
  | c :: s' => (if is_cont c then [c] else t ++ [c]) ++ repl_empty t s'
  end.

Definition str_replace (p t s : str) : str :=
  match p with [] => repl_empty t s | _ => repl p t s 0 end.

(* slice::sort_by(|a, b| len(b).cmp(len(a))): stable, longest first *)
Fixpoint insert_desc {A} (len : A -> nat) (x : A) (l : list A) : list A :=
  match l with
  | [] => [x]
  | y :: l' => if Nat.ltb (len x) (len y) then y :: insert_desc len x l' else x :: l
  end.
Fixpoint sort_desc {A} (len : A -> nat) (l : list A) : list A :=
  match l with
  | [] => []
  | x :: l' => insert_desc len x (sort_desc len l')
  end.

Definition name_len (nv : str * str) : nat := length (fst nv).

(* Marker::format / format!("@{name}") *)
Definition at_name (name : str) : str := c_at :: name.

(* StaticOrDynamic::replace AS PINNED (before the repair df98c41): one str::replace per variable, in list order.
   No longer the crate's code; kept because the theorems about it (C10_substitute, C10_longest_first,
   C10_order_irrelevant and the witnesses) say exactly where the repair changes the result: nowhere under
   [subst_safe], and on the witnesses' classes. *)
Definition sod_replace (s : str) (variables : list (str * str)) : str :=
  fold_left (fun acc nv => str_replace (at_name (fst nv)) (snd nv) acc) variables s.

(* StaticOrDynamic::replace (df98c41): ONE left-to-right pass.
   the loop `for variable in variables`: a variable whose name follows replaces the current choice only when its
   name is STRICTLY longer (so the first one wins among equal names; an empty name follows every '@' and is kept
   only when nothing longer follows) *)
Definition pick_step (after : str) (longest : option (str * str)) (variable : str * str) : option (str * str) :=
  if prefixb (fst variable) after
     && match longest with None => true | Some current => Nat.ltb (length (fst current)) (length (fst variable)) end
  then Some variable else longest.
Definition pick_longest (variables : list (str * str)) (after : str) : option (str * str) :=
  fold_left (pick_step after) variables None.

(* `while let Some(position) = rest.find('@')`: the text before the '@' is copied; then the value of the picked
   variable is pushed and the scan resumes after its name, or the '@' is copied and the scan resumes after it; the
   pushed value is never scanned.  [skip] = bytes of the name still to be dropped. *)
Fixpoint onepass (variables : list (str * str)) (s : str) (skip : nat) : str :=
  match s with
  | [] => []
  | c :: s' =>
      match skip with
      | S k => onepass variables s' k
      | O =>
          if N.eqb c c_at then
            match pick_longest variables s' with
            | Some nv => snd nv ++ onepass variables s' (length (fst nv))
            | None => c :: onepass variables s' 0
            end
          else c :: onepass variables s' 0
      end
  end.
Definition sod_replace_onepass (s : str) (variables : list (str * str)) : str := onepass variables s 0.

(* ---- the REFERENCE the property speaks of: simultaneous substitution.  Scanning left to right, at each '@'
   the first variable of the list whose name follows is replaced by its value and scanning resumes after the
   name; values are never rescanned.  With the list sorted longest name first this is "the longest name". *)
Definition find_ref (variables : list (str * str)) (s : str) : option (str * str) :=
  find (fun nv => prefixb (fst nv) s) variables.

Fixpoint simul (variables : list (str * str)) (s : str) (skip : nat) : str :=
  match s with
  | [] => []
  | c :: s' =>
      match skip with
      | S k => simul variables s' k
      | O =>
          if N.eqb c c_at then
            match find_ref variables s' with
            | Some nv => snd nv ++ simul variables s' (length (fst nv))
            | None => c :: simul variables s' 0
            end
          else c :: simul variables s' 0
      end
  end.

Definition simul_subst (variables : list (str * str)) (s : str) : str := simul variables s 0.

(* longest-name reference: independent of the order of the list (ties cannot happen between different names) *)
Definition simul_longest (variables : list (str * str)) (s : str) : str :=
  simul_subst (sort_desc name_len variables) s.

(* ================================================================================================== *)
(* Part B: MarkerString                                                                                *)

(* regex::escape *)
Definition regex_escape (s : str) : str := flat_map (fun c => if is_meta c then [BS; c] else [c]) s.

Record marker_string := {
  ms_regex : str;
  ms_capture : str;
  ms_ignore_case : bool;
  ms_names : list str          (* keys of the `markers` map, in insertion order (latest first) *)
}.

Definition grp_nc (regex : str) : str := lit "(?:" ++ regex ++ lit ")".
Definition grp_named (name regex : str) : str := lit "(?P<" ++ name ++ lit ">" ++ regex ++ lit ")".

(* body of the loop `for marker in &markers` of MarkerString::new; a marker is (name, regex) *)
Definition ms_step (acc : str * str * list str) (mk : str * str) : str * str * list str :=
  let '(regex, capture, names) := acc in
  let pat := at_name (fst mk) in
  if containsb pat regex
  then (str_replace pat (grp_nc (snd mk)) regex, str_replace pat (grp_named (fst mk) (snd mk)) capture, fst mk :: names)
  else acc.

Definition marker_string_new (s : str) (markers : list (str * str)) (ignore_case : bool) : option marker_string :=
  let e := regex_escape s in
  let '(regex, capture, names) := fold_left ms_step (sort_desc name_len markers) (e, e, []) in
  if is_nil names then None
  else Some {| ms_regex := regex; ms_capture := capture; ms_ignore_case := ignore_case; ms_names := names |}.

Inductive static_or_dynamic := Static (s : str) | Dynamic (m : marker_string).

(* String::to_lowercase on ASCII strings (precondition of the model wherever ignore_case is set) *)
Definition new_with_markers (s : str) (markers : list (str * str)) (ignore_case : bool) : static_or_dynamic :=
  if is_nil markers then Static (if ignore_case then to_lowercase_ascii s else s)
  else match marker_string_new s markers ignore_case with
       | None => Static (if ignore_case then to_lowercase_ascii s else s)
       | Some m => Dynamic m
       end.

(* ---- UTF-8 <-> code points (inputs are Rust Strings: valid UTF-8; invalid bytes are passed through) *)
Fixpoint utf8_decode_fuel (fuel : nat) (l : str) : list N :=
  match fuel with
  | O => []
  | S f =>
      match l with
      | [] => []
      | x :: r =>
          if N.ltb x 192 then x :: utf8_decode_fuel f r
          else if N.ltb x 224 then
            match r with
            | y :: r' => ((x - 192) * 64 + (y - 128)) :: utf8_decode_fuel f r'
            | _ => x :: utf8_decode_fuel f r
            end
          else if N.ltb x 240 then
            match r with
            | y :: z :: r' => ((x - 224) * 4096 + (y - 128) * 64 + (z - 128)) :: utf8_decode_fuel f r'
            | _ => x :: utf8_decode_fuel f r
            end
          else
            match r with
            | y :: z :: w :: r' => ((x - 240) * 262144 + (y - 128) * 4096 + (z - 128) * 64 + (w - 128)) :: utf8_decode_fuel f r'
            | _ => x :: utf8_decode_fuel f r
            end
      end
  end.
Definition utf8_decode (l : str) : list N := utf8_decode_fuel (length l) l.

Definition utf8_encode1 (c : N) : str :=
  if N.ltb c 128 then [c]
  else if N.ltb c 2048 then [192 + c / 64; 128 + c mod 64]
  else if N.ltb c 65536 then [224 + c / 4096; 128 + (c / 64) mod 64; 128 + c mod 64]
  else [240 + c / 262144; 128 + (c / 4096) mod 64; 128 + (c / 64) mod 64; 128 + c mod 64].
Definition utf8_encode (l : list N) : str := flat_map utf8_encode1 l.

(* ---- the regex engine, as the models see it (code points):
     eng_is_match ic regex haystack        Regex::is_match, unanchored search
     eng_captures ic regex haystack        Regex::captures: None = no match (or invalid regex), else the list
                                           (group index, (start, end)) in chars, most recent first
     eng_valid regex                       RegexBuilder::build succeeded
   Named groups are resolved HERE ([strip_named]): the engine only knows numbered groups. *)
Record engine := {
  eng_is_match : bool -> list N -> list N -> bool;
  eng_captures : bool -> list N -> list N -> option (list (nat * (nat * nat)));
  eng_valid : list N -> bool
}.

Definition c_lparen : N := 40. Definition c_rparen : N := 41. Definition c_lbrack : N := 91. Definition c_rbrack : N := 93.
Definition c_bs : N := 92. Definition c_caret : N := 94. Definition c_dollar : N := 36. Definition c_P : N := 80.

(* group name up to '>' *)
Fixpoint take_name (l : list N) (acc : list N) : option (list N * list N) :=
  match l with
  | [] => None
  | c :: r => if N.eqb c c_gt then Some (rev acc, r) else take_name r (c :: acc)
  end.

(* regex-syntax ast/parse.rs is_capture_char; code points >= 128 are taken as alphabetic (the cases use ASCII names) *)
Definition is_alpha (c : N) : bool := in_range 65 90 c || in_range 97 122 c || N.leb 128 c.
Definition is_capture_char (c : N) (first : bool) : bool :=
  if first then N.eqb c 95 || is_alpha c
  else N.eqb c 95 || N.eqb c 46 || N.eqb c c_lbrack || N.eqb c c_rbrack || is_alpha c || in_range 48 57 c.
Definition group_name_ok (n : list N) : bool :=
  match n with
  | [] => false
  | c :: r => is_capture_char c true && forallb (fun x => is_capture_char x false) r
  end.

(* Rewrites "(?P<name>" to "(" and lists (group index, name) for the named groups, counting capture groups in
   order of their opening parenthesis; tracks escapes and bracket classes.  [cls]: 0 outside a class, 1 just after
   "[" or "[^" (a "]" is literal there), 2 inside. *)
Fixpoint strip_named (fuel : nat) (l : list N) (cls : nat) (gi : nat) (out : list N) (names : list (nat * list N))
  : option (list N * list (nat * list N)) :=
  match fuel with
  | O => None
  | S f =>
      match l with
      | [] => Some (rev out, rev names)
      | c :: r =>
          if N.eqb c c_bs then
            match r with
            | d :: r' => strip_named f r' (match cls with O => O | _ => 2%nat end) gi (d :: c :: out) names
            | [] => Some (rev (c :: out), rev names)
            end
          else
            match cls with
            | O =>
                if N.eqb c c_lbrack then
                  match r with
                  | d :: r' => if N.eqb d c_caret then strip_named f r' 1 gi (d :: c :: out) names
                               else strip_named f r 1 gi (c :: out) names
                  | [] => Some (rev (c :: out), rev names)
                  end
                else if N.eqb c c_lparen then
                  match r with
                  | q :: r1 =>
                      if N.eqb q c_qmark then
                        match r1 with
                        | p :: lt :: r2 =>
                            if N.eqb p c_P && N.eqb lt c_lt then
                              match take_name r2 [] with
                              | Some (nm, r3) => strip_named f r3 0 (S gi) (c :: out) ((gi, nm) :: names)
                              | None => None
                              end
                            else strip_named f r1 0 gi (q :: c :: out) names
                        | _ => strip_named f r1 0 gi (q :: c :: out) names
                        end
                      else strip_named f r 0 (S gi) (c :: out) names
                  | [] => Some (rev (c :: out), rev names)
                  end
                else strip_named f r 0 gi (c :: out) names
            | S O => strip_named f r 2 gi (c :: out) names
            | _ => if N.eqb c c_rbrack then strip_named f r 0 gi (c :: out) names
                   else strip_named f r 2 gi (c :: out) names
            end
      end
  end.

Fixpoint has_dup (l : list (list N)) : bool :=
  match l with
  | [] => false
  | x :: r => existsb (str_eqb x) r || has_dup r
  end.

(* LazyRegex::new_leaf *)
Definition leaf_regex (regex : list N) : list N := c_caret :: regex ++ [c_dollar].

Fixpoint cap_lookup (i : nat) (caps : list (nat * (nat * nat))) : option (nat * nat) :=
  match caps with
  | [] => None
  | (j, se) :: r => if Nat.eqb i j then Some se else cap_lookup i r
  end.

(* HashMap<String,String>: association list sorted by key, one entry per key (RIO.Pct.btree_insert) *)
Definition map_extend (m extra : list (str * str)) : list (str * str) :=
  fold_left (fun acc kv => btree_insert (fst kv) (snd kv) acc) extra m.

(* MarkerString::capture *)
Definition ms_capture_run (E : engine) (m : marker_string) (s : str) : list (str * str) :=
  let cap := utf8_decode (ms_capture m) in
  match strip_named (S (length cap)) cap 0 1 [] [] with
  | None => []
  | Some (stripped, names) =>
      if has_dup (map snd names) || negb (forallb (fun gn => group_name_ok (snd gn)) names) then []
      else
        let hay := utf8_decode s in
        match eng_captures E (ms_ignore_case m) (leaf_regex stripped) hay with
        | None => []
        | Some caps =>
            fold_left (fun acc gn =>
                         match cap_lookup (fst gn) caps with
                         | None => acc
                         | Some (st, en) => btree_insert (utf8_encode (snd gn)) (utf8_encode (firstn (en - st) (skipn st hay))) acc
                         end) names []
        end
  end.

(* StaticOrDynamic::capture *)
Definition sod_capture (E : engine) (sod : static_or_dynamic) (s : str) : list (str * str) :=
  match sod with
  | Static _ => []
  | Dynamic m => ms_capture_run E m s
  end.

(* ================================================================================================== *)
(* Part C: transformers                                                                                *)

Inductive transform :=
| XCamelize | XDasherize | XLowercase | XUnderscorize | XUppercase
| XReplace (something with_ : str)
| XSlice (from : N) (to : option N).

Definition SITE_SLICE_ORDER : N := 1001.      (* str[from..to] with from > to *)
Definition SITE_SLICE_BOUNDARY : N := 1002.   (* str[from..to] with an index inside a char *)

Fixpoint nth_byte (s : str) (i : N) : option N :=
  match s with
  | [] => None
  | x :: r => if N.eqb i 0 then Some x else nth_byte r (i - 1)
  end.

(* str::is_char_boundary(i) for i <= len *)
Definition is_char_boundary (s : str) (i : N) : bool :=
  match nth_byte s i with
  | None => true                      (* i = len *)
  | Some x => negb (is_cont x)       (* i = 0: the first byte of a valid string is never a continuation byte *)
  end.

(* Slice::transform *)
Definition slice_transform (from : N) (to : option N) (s : str) : outcome str :=
  let len := len_N s in
  let to := match to with Some t => t | None => len end in
  if N.ltb len from then Ok []
  else
    let to := if N.ltb len to then len else to in
    (* str.get(from..to).unwrap_or_default(): None when from > to or a bound is not a char boundary
       (before the repair db79cd0 this was str[from..to], which panicked in exactly those cases) *)
    if N.ltb to from then Ok []
    else if is_char_boundary s from && is_char_boundary s to
         then Ok (firstn (N.to_nat (to - from)) (skipn (N.to_nat from) s))
         else Ok [].

(* oracle for the transformations done by heck and by Unicode case mapping: kind, input -> output *)
Definition K_CAMELIZE : N := 1. Definition K_DASHERIZE : N := 2. Definition K_UNDERSCORIZE : N := 3.
Definition K_LOWERCASE : N := 4. Definition K_UPPERCASE : N := 5.
Definition oracle := N -> str -> option str.
Definition SITE_ORACLE : N := 1999.           (* not a Rust site: the run did not supply the oracle entry *)

Definition ask (O : oracle) (k : N) (s : str) : outcome str :=
  match O k s with Some r => Ok r | None => Panic SITE_ORACLE end.

Definition apply_transform (O : oracle) (t : transform) (s : str) : outcome str :=
  match t with
  | XCamelize => ask O K_CAMELIZE s
  | XDasherize => ask O K_DASHERIZE s
  | XUnderscorize => ask O K_UNDERSCORIZE s
  | XLowercase => if all_ascii s then Ok (map ascii_lower s) else ask O K_LOWERCASE s
  | XUppercase => if all_ascii s then Ok (map ascii_upper s) else ask O K_UPPERCASE s
  | XReplace something with_ => Ok (str_replace something with_ s)
  | XSlice from to => slice_transform from to s
  end.

(* api::Transformer *)
Record transformer := { t_kind : option str; t_options : option (list (str * str)) }.

(* usize::from_str: optional '+', at least one ASCII digit, no overflow of 64 bits *)
Fixpoint digits_value (l : str) (acc : N) : option N :=
  match l with
  | [] => Some acc
  | c :: r => if in_range 48 57 c then
                let acc' := acc * 10 + (c - 48) in
                if N.ltb 18446744073709551615 acc' then None else digits_value r acc'
              else None
  end.
Definition usize_from_str (s : str) : option N :=
  match s with
  | [] => None
  | c :: r => if N.eqb c 43 then match r with [] => None | _ => digits_value r 0 end else digits_value s 0
  end.

(* Transformer::to_transform *)
Definition to_transform (t : transformer) : option transform :=
  match t_kind t with
  | None => None
  | Some kind =>
      if str_eqb kind (lit "camelize") then Some XCamelize
      else if str_eqb kind (lit "dasherize") then Some XDasherize
      else if str_eqb kind (lit "lowercase") then Some XLowercase
      else if str_eqb kind (lit "replace") then
        match t_options t with
        | None => None
        | Some options =>
            match assoc (lit "something") options, assoc (lit "with") options with
            | Some something, Some with_ => Some (XReplace something with_)
            | _, _ => None
            end
        end
      else if str_eqb kind (lit "slice") then
        match t_options t with
        | None => None
        | Some options =>
            match assoc (lit "from") options, assoc (lit "to") options with
            | Some from, Some to =>
                Some (XSlice (match usize_from_str from with Some n => n | None => 0 end) (usize_from_str to))
            | _, _ => None
            end
        end
      else if str_eqb kind (lit "underscorize") then Some XUnderscorize
      else if str_eqb kind (lit "uppercase") then Some XUppercase
      else None
  end.

(* the loop `for transformer in &self.transformers` of Marker::transform and get_value (api/variable.rs) *)
Fixpoint apply_chain (O : oracle) (ts : list transformer) (value : str) : outcome str :=
  match ts with
  | [] => Ok value
  | t :: ts' =>
      match to_transform t with
      | None => apply_chain O ts' value
      | Some x => obind (apply_transform O x value) (apply_chain O ts')
      end
  end.

(* ================================================================================================== *)
(* Part D: rule, request, route, action                                                                *)

Record api_marker := { m_name : str; m_regex : str; m_transformers : list transformer }.

Inductive variable_kind :=
| VMarker (name : str)
| VRequestHeader (name : str) (default : option str)
| VRequestHost | VRequestMethod | VRequestPath | VRequestRemoteAddress | VRequestScheme | VRequestTime.

Record api_variable := { v_name : str; v_kind : variable_kind; v_transformers : list transformer }.

Record source_header := { sh_name : str; sh_kind : str; sh_value : option str }.

Inductive body_filter :=
| BFText (content : str)
| BFHtml (value : str) (inner_value : option str).

Record rule10 := {
  r_path : str;
  r_query : option str;
  r_host : option str;
  r_headers : list source_header;
  r_markers : list api_marker;
  r_variables : list api_variable;
  r_target : option str;
  r_header_filters : list str;          (* the `value` of each header filter *)
  r_body_filters : list body_filter
}.

Record request10 := {
  q_pq : path_and_query_with_skipped;
  q_host : option str;
  q_scheme : option str;
  q_method : option str;
  q_headers : list (str * str);
  q_remote_addr : option str;           (* remote_addr.to_string() *)
  q_created_at : option str             (* created_at.to_rfc2822() *)
}.

(* Rule::markers: the regex of each marker percent-encoded with SIMPLE_ENCODE_SET *)
Definition rule_markers (r : rule10) : list (str * str) :=
  map (fun mk => (m_name mk, utf8_percent_encode (m_regex mk) rule_SIMPLE_ENCODE_SET)) (r_markers r).

(* Rule::path_and_query *)
Definition rule_path_and_query_m (r : rule10) (ignore_case : bool) : static_or_dynamic :=
  let query := match r_query r with None => None | Some sq => build_sorted_query sq end in
  let path := utf8_percent_encode (r_path r) rule_URL_ENCODE_SET in
  let path := match query with
              | Some qs => path ++ [c_qmark] ++ utf8_percent_encode qs rule_QUERY_ENCODE_SET
              | None => path
              end in
  new_with_markers path (rule_markers r) ignore_case.

(* Rule::host *)
Definition rule_host (r : rule10) (ignore_case : bool) : option static_or_dynamic :=
  option_map (fun h => new_with_markers h (rule_markers r) ignore_case) (r_host r).

Inductive route_header_kind :=
| HIsDefined | HIsNotDefined
| HIsEquals (s : str) | HIsNotEqualTo (s : str) | HContains (s : str) | HDoesNotContain (s : str)
| HEndsWith (s : str) | HStartsWith (s : str)
| HMatchRegex (m : marker_string).

(* Rule::headers: conditions without the value they need, of unknown kind, and match_regex values in which no
   marker occurs are dropped (`continue`) *)
Definition rule_header1 (r : rule10) (ignore_case : bool) (h : source_header) : option (str * route_header_kind) :=
  let lc (s : str) := if ignore_case then to_lowercase_ascii s else s in
  let k := sh_kind h in
  let with_value (f : str -> route_header_kind) := option_map (fun v => (sh_name h, f (lc v))) (sh_value h) in
  if str_eqb k (lit "is_defined") then Some (sh_name h, HIsDefined)
  else if str_eqb k (lit "is_not_defined") then Some (sh_name h, HIsNotDefined)
  else if str_eqb k (lit "is_equals") then with_value HIsEquals
  else if str_eqb k (lit "is_not_equal_to") then with_value HIsNotEqualTo
  else if str_eqb k (lit "contains") then with_value HContains
  else if str_eqb k (lit "does_not_contain") then with_value HDoesNotContain
  else if str_eqb k (lit "ends_with") then with_value HEndsWith
  else if str_eqb k (lit "starts_with") then with_value HStartsWith
  else if str_eqb k (lit "match_regex") then
    match sh_value h with
    | None => None
    | Some v => option_map (fun m => (sh_name h, HMatchRegex m)) (marker_string_new v (rule_markers r) ignore_case)
    end
  else None.

Fixpoint filter_some {A} (l : list (option A)) : list A :=
  match l with [] => [] | Some x :: r => x :: filter_some r | None :: r => filter_some r end.

Definition rule_headers (r : rule10) (ignore_case : bool) : list (str * route_header_kind) :=
  filter_some (map (rule_header1 r ignore_case) (r_headers r)).

Record route10 := {
  rt_path : static_or_dynamic;
  rt_host : option static_or_dynamic;
  rt_headers : list (str * route_header_kind)
}.

(* <Rule as IntoRoute>::into_route, the three fields that carry markers *)
Definition into_route (cfg : config) (r : rule10) : route10 :=
  {| rt_path := rule_path_and_query_m r (ignore_path_and_query_case cfg);
     rt_host := rule_host r (ignore_host_case cfg);
     rt_headers := rule_headers r (ignore_header_case cfg) |}.

(* RouteHeader::capture *)
Definition header_capture (E : engine) (k : route_header_kind) (s : str) : list (str * str) :=
  match k with HMatchRegex m => ms_capture_run E m s | _ => [] end.

(* Route::capture: path, then host, then every request header whose name equals the rule header's name after
   to_lowercase (ASCII names), as the header matcher compares them (exact comparison before the repair 71eaac6) *)
Definition route_capture (E : engine) (rt : route10) (q : request10) : list (str * str) :=
  let parameters := sod_capture E (rt_path rt) (pq_path_and_query (q_pq q)) in
  let parameters :=
    match rt_host rt, q_host q with
    | Some host, Some request_host => map_extend parameters (sod_capture E host request_host)
    | _, _ => parameters
    end in
  fold_left (fun acc header =>
    fold_left (fun acc request_header =>
      if str_eqb (to_lowercase_ascii (fst request_header)) (to_lowercase_ascii (fst header)) then map_extend acc (header_capture E (snd header) (snd request_header))
      else acc) (q_headers q) acc) (rt_headers rt) parameters.

(* Request::header_values / header_value: names compared after to_lowercase (ASCII names) *)
Definition header_values (q : request10) (name : str) : list str :=
  let ln := to_lowercase_ascii name in
  map snd (filter (fun h => str_eqb (to_lowercase_ascii (fst h)) ln) (q_headers q)).
Fixpoint join_comma (l : list str) : str :=
  match l with [] => [] | [x] => x | x :: r => x ++ [44] ++ join_comma r end.
Definition header_value (q : request10) (name : str) : option str :=
  match header_values q name with [] => None | vs => Some (join_comma vs) end.

Definition unwrap_or_default (o : option str) : str := match o with Some s => s | None => [] end.

(* get_value (api/variable.rs) *)
Definition variable_get_value (O : oracle) (v : api_variable) (markers_captured : list (str * str)) (q : request10) : outcome str :=
  let value :=
    match v_kind v with
    | VRequestHeader name default =>
        Some (match header_value q name with Some x => x | None => unwrap_or_default default end)
    | VRequestHost => q_host q
    | VRequestMethod => q_method q
    | VRequestPath => Some (pq_original (q_pq q))
    | VRequestRemoteAddress => q_remote_addr q
    | VRequestScheme => q_scheme q
    | VRequestTime => q_created_at q
    | VMarker marker_name => assoc marker_name markers_captured
    end in
  apply_chain O (v_transformers v) (unwrap_or_default value).

(* Rule::get_marker *)
Definition get_marker (r : rule10) (name : str) : option api_marker :=
  find (fun mk => str_eqb (m_name mk) name) (r_markers r).

Fixpoint omap {A B} (f : A -> outcome B) (l : list A) : outcome (list B) :=
  match l with
  | [] => Ok []
  | x :: r => obind (f x) (fun y => obind (omap f r) (fun ys => Ok (y :: ys)))
  end.

(* Rule::variables.  `input` and `markers_captured` are HashMaps: they are kept sorted by key, which fixes one
   of the iteration orders the implementation may use in the "no variables" branch (the final stable sort by
   name length leaves names of equal length in iteration order). *)
Definition rule_variables (O : oracle) (r : rule10) (markers_captured : list (str * str)) (q : request10)
  : outcome (list (str * str)) :=
  obind (omap (fun nv =>
                 match get_marker r (fst nv) with
                 | None => Ok nv
                 | Some mk => obind (apply_chain O (m_transformers mk) (snd nv)) (fun v => Ok (fst nv, v))
                 end) markers_captured)
        (fun input =>
           obind (if is_nil (r_variables r) then Ok input
                  else omap (fun v => obind (variable_get_value O v input q) (fun x => Ok (v_name v, x))) (r_variables r))
                 (fun variables => Ok (sort_desc name_len variables))).

(* value.push('?' | '&'); value.push_str(skipped) *)
Definition with_skipped (value : str) (q : request10) : str :=
  target_with_skipped value (pq_skipped_query_params (q_pq q)).

(* Action::get_target *)
Definition action_get_target (r : rule10) (variables : list (str * str)) (q : request10) : option str :=
  option_map (fun t => with_skipped (sod_replace_onepass t variables) q) (r_target r).

(* Action::from_route_rule: the Location value (None when there is no target or it is empty), the header
   filter values, the body filter values *)
Record action_values := {
  av_location : option str;
  av_header_values : list str;
  av_body_values : list body_filter
}.

Definition action_from_route_rule (r : rule10) (variables : list (str * str)) (q : request10) : action_values :=
  {| av_location :=
       match r_target r with
       | Some target => if is_nil target then None else Some (with_skipped (sod_replace_onepass target variables) q)
       | None => None
       end;
     av_header_values := map (fun v => sod_replace_onepass v variables) (r_header_filters r);
     av_body_values :=
       map (fun f => match f with
                     | BFText content => BFText (sod_replace_onepass content variables)
                     | BFHtml value inner =>
                         BFHtml (sod_replace_onepass value variables)
                                (Some (sod_replace_onepass (match inner with Some i => i | None => value end) variables))
                     end) (r_body_filters r) |}.

(* ---- what a router holding only this route answers *)

(* path / host: static string equality, or the leaf regex ^regex$ *)
Definition sod_matches (E : engine) (ic : bool) (sod : static_or_dynamic) (s : str) : bool :=
  match sod with
  | Static t => str_eqb t s
  | Dynamic m => eng_is_match E ic (leaf_regex (utf8_decode (ms_regex m))) (utf8_decode s)
  end.

(* ValueCondition::match_value *)
Definition header_condition_matches (E : engine) (q : request10) (name : str) (k : route_header_kind) : bool :=
  let values := header_values q name in
  match k with
  | HIsDefined => negb (is_nil values)
  | HIsNotDefined => is_nil values
  | HIsEquals s => existsb (fun v => str_eqb v s) values
  | HIsNotEqualTo s => forallb (fun v => negb (str_eqb v s)) values
  | HContains s => existsb (containsb s) values
  | HDoesNotContain s => forallb (fun v => negb (containsb s v)) values
  | HEndsWith s => existsb (suffixb s) values
  | HStartsWith s => existsb (prefixb s) values
  | HMatchRegex m =>
      (* Regex::new(marker.regex): case-sensitive, NOT anchored *)
      let re := utf8_decode (ms_regex m) in
      eng_valid E re && existsb (fun v => eng_is_match E false re (utf8_decode v)) values
  end.

Definition route_matches (E : engine) (cfg : config) (rt : route10) (q : request10) : bool :=
  let path := match pq_path_and_query_matching (q_pq q) with Some p => p | None => pq_path_and_query (q_pq q) end in
  sod_matches E (ignore_path_and_query_case cfg) (rt_path rt) path
  && match rt_host rt with
     | None => true
     | Some h => match q_host q with Some rh => sod_matches E (ignore_host_case cfg) h rh | None => false end
     end
  && forallb (fun h => header_condition_matches E q (fst h) (snd h)) (rt_headers rt).
