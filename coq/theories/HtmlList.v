(* HtmlList.v — several HTML filters on one document compose in order (C15, last clause), on bytes.
   FilterBodyAction feeds the second stage with what the first stage emits for the chunk and, at the end of the
   stream, with what the first stage still holds: TWO pieces.  That a stage fed with two pieces behaves as on their
   concatenation is the split law of C03, which for the HTML stage holds when the run does not end in the error
   state (RIO.HtmlSplit.hfb_split_law_noerr; the unconditional law is false on invalid UTF-8).  It is a HYPOTHESIS
   here ([two_piece_law], exactly the first conclusion of hfb_split_law_noerr), for the stages after the first. *)
Require Import RIO.Base RIO.TokMonad RIO.HtmlTok RIO.BodyText RIO.HtmlFilter RIO.ChainProofs RIO.BodyProofs RIO.CodecChain
  RIO.Dom RIO.HtmlTokens RIO.HtmlBridge RIO.HtmlInsert.
Close Scope N_scope.
Open Scope nat_scope.

Section HtmlList.
Variable lower : str -> str.
Variable sel_eval : str -> str -> bool.

(* one HTML filter of the list *)
Record hfilter := { hf_act : action; hf_path : list str; hf_sel : option str; hf_val : list node }.
Definition to_body (f : hfilter) : body_filter := mk_filter (hf_act f) (hf_path f) (hf_sel f) (hf_val f).
Definition to_ref (f : hfilter) : ref_filter :=
  {| rf_action := hf_act f; rf_path := hf_path f; rf_value := hf_val f; rf_css := css sel_eval (hf_sel f) |}.
Definition to_stage (f : hfilter) : stage := StHtml (hfb_new (mkvis (hf_act f) (hf_path f) (hf_sel f) (hf_val f))).

(* every filter finds the document left by the previous ones in its domain; no document is empty *)
Fixpoint list_ok (fs : list hfilter) (doc : list node) : Prop :=
  match fs with
  | [] => True
  | f :: fs' =>
      in_domain_bytes lower (hf_act f) (hf_path f) (hf_sel f) doc /\ tokenizes_as lower doc /\
      ser_forest doc <> [] /\ ser_forest (ref_edit1 lower (to_ref f) doc) <> [] /\
      list_ok fs' (ref_edit1 lower (to_ref f) doc)
  end.

(* HYPOTHESIS (C03 for one HTML stage): fed with two pieces, the stage ends in the same state with the same output
   as on their concatenation, provided the run on the concatenation does not end in the error state *)
Definition two_piece_law (F : hfb) : Prop :=
  forall c1 c2, f_in_error (fst (hfb_filter lower sel_eval F (c1 ++ c2))) = false ->
    (let '(F1, o1) := hfb_filter lower sel_eval F c1 in let '(F2, o2) := hfb_filter lower sel_eval F1 c2 in (F2, o1 ++ o2))
    = hfb_filter lower sel_eval F (c1 ++ c2).

Notation tf := (stage_tf lower sel_eval).
Notation run := (ChainProofs.run stage tf stage_te).
Notation feed := (CodecChain.feed stage tf stage_te).
Notation ce := (CodecChain.ce stage tf stage_te).

(* what a stage emits for a first piece, and for a second piece together with its end *)
Definition two (h : stage) (c1 c2 : str) : str * str :=
  let '(st1, a1) := if is_nil c1 then (h, []) else tf h c1 in
  let '(st2, a2) := if is_nil c2 then (st1, []) else tf st1 c2 in
  (a1, a2 ++ snd (stage_te st2)).

Lemma feed_stage h rest c1 c2 : feed (h :: rest) [c1] c2 = feed rest [fst (two h c1 c2)] (snd (two h c1 c2)).
Proof.
  unfold two. destruct c1 as [|x c1']; cbn [CodecChain.feed is_nil].
  - destruct c2 as [|y c2']; unfold some_ne at 1; cbn [is_nil CodecChain.ce].
    + cbn [fst snd app is_nil CodecChain.feed]. reflexivity.
    + destruct (tf h (y :: c2')) as [st2 a2]. cbn [fst snd is_nil CodecChain.feed]. reflexivity.
  - cbn [ChainProofs.cf]. destruct (tf h (x :: c1')) as [st1 a1]. destruct (is_nil a1) eqn:Ea.
    + destruct a1; [|discriminate]. cbn [app]. destruct c2 as [|y c2']; unfold some_ne at 1; cbn [is_nil CodecChain.ce].
      * cbn [fst snd app is_nil CodecChain.feed]. reflexivity.
      * destruct (tf st1 (y :: c2')) as [st2 a2]. cbn [fst snd is_nil CodecChain.feed]. reflexivity.
    + destruct (ChainProofs.cf stage tf rest a1) as [rest' o'] eqn:Ec. destruct c2 as [|y c2']; unfold some_ne at 1; cbn [is_nil CodecChain.ce].
      * cbn [fst snd app CodecChain.feed]. rewrite Ea, Ec. reflexivity.
      * destruct (tf st1 (y :: c2')) as [st2 a2]. cbn [fst snd CodecChain.feed]. rewrite Ea, Ec. reflexivity.
Qed.

(* an in-domain HTML stage fed with its document in two pieces emits the edited document *)
Lemma two_html f doc c1 c2 :
  in_domain_bytes lower (hf_act f) (hf_path f) (hf_sel f) doc -> tokenizes_as lower doc ->
  two_piece_law (hfb_new (mkvis (hf_act f) (hf_path f) (hf_sel f) (hf_val f))) ->
  c1 ++ c2 = ser_forest doc -> ser_forest doc <> [] ->
  fst (two (to_stage f) c1 c2) ++ snd (two (to_stage f) c1 c2) = ser_forest (ref_edit1 lower (to_ref f) doc).
Proof.
  intros Hdom Htok Hlaw Hcat Hne.
  destruct (C15_stage_level_partial lower sel_eval (hf_act f) (hf_path f) (hf_sel f) (hf_val f) doc Hdom Htok) as (F' & o & Hf & Hout & Hie).
  change (ser_forest (ref_edit1 lower (to_ref f) doc)) with (ser_forest (ref_edit lower (hf_act f) (hf_val f) (css sel_eval (hf_sel f)) (hf_path f) doc)).
  rewrite <- Hout. unfold two, to_stage. set (F := hfb_new (mkvis (hf_act f) (hf_path f) (hf_sel f) (hf_val f))) in *.
  destruct c1 as [|x c1'].
  - cbn [is_nil app] in *. subst c2. destruct (is_nil (ser_forest doc)) eqn:En.
    + destruct (ser_forest doc); [congruence|discriminate].
    + cbn [stage_tf]. rewrite Hf. cbn [fst snd stage_te hfb_end app]. reflexivity.
  - cbn [is_nil]. destruct c2 as [|y c2'].
    + rewrite app_nil_r in Hcat. rewrite Hcat. cbn [is_nil stage_tf]. rewrite Hf. cbn [fst snd stage_te hfb_end app]. reflexivity.
    + cbn [is_nil stage_tf]. pose proof (Hlaw (x :: c1') (y :: c2')) as Hl. rewrite Hcat, Hf in Hl. specialize (Hl Hie).
      destruct (hfb_filter lower sel_eval F (x :: c1')) as [F1 a1]. cbn [stage_tf].
      destruct (hfb_filter lower sel_eval F1 (y :: c2')) as [F2 a2]. injection Hl as -> <-.
      cbn [fst snd stage_te hfb_end]. rewrite <- app_assoc. reflexivity.
Qed.

Lemma stages_of_list fs doc : list_ok fs doc -> stages_of true (map to_body fs) = map to_stage fs.
Proof.
  revert doc. induction fs as [|f fs IH]; intros doc Hok; [reflexivity|].
  cbn [list_ok] in Hok. destruct Hok as (Hdom & _ & _ & _ & Hrest). cbn [map].
  pose proof (stages_of_filter (hf_act f) (hf_path f) (hf_sel f) (hf_val f)
                (in_domain_path lower sel_eval _ _ _ (hf_val f) _ (in_domain_of_bytes lower sel_eval _ _ _ (hf_val f) _ Hdom))) as Hs.
  unfold to_body at 1. cbn [stages_of] in Hs |- *.
  destruct (stage_new true (mk_filter (hf_act f) (hf_path f) (hf_sel f) (hf_val f))); [|discriminate].
  injection Hs as ->. unfold to_stage at 1. f_equal. exact (IH _ Hrest).
Qed.

(* the chain fed with the document in two pieces (the second one pending at the end of the stream) *)
Lemma feed_list : forall fs doc c1 c2,
  list_ok fs doc ->
  (forall f, In f fs -> two_piece_law (hfb_new (mkvis (hf_act f) (hf_path f) (hf_sel f) (hf_val f)))) ->
  c1 ++ c2 = ser_forest doc ->
  feed (map to_stage fs) [c1] c2 = ser_forest (ref_edit_list lower (map to_ref fs) doc).
Proof.
  induction fs as [|f fs IH]; intros doc c1 c2 Hok Hlaw Hcat.
  - cbn [map ref_edit_list fold_left CodecChain.feed]. rewrite <- Hcat. destruct c1 as [|x c1']; cbn [is_nil CodecChain.feed CodecChain.ce app ChainProofs.cf].
    + unfold some_ne. destruct c2; reflexivity.
    + unfold some_ne. destruct c2; cbn; rewrite ?app_nil_r; reflexivity.
  - cbn [list_ok] in Hok. destruct Hok as (Hdom & Htok & Hne & Hne' & Hrest).
    cbn [map]. rewrite feed_stage.
    pose proof (two_html f doc c1 c2 Hdom Htok (Hlaw f (or_introl eq_refl)) Hcat Hne) as H2.
    destruct (two (to_stage f) c1 c2) as [a1 nd]. cbn [fst snd] in *.
    cbn [ref_edit_list map fold_left]. apply (IH _ a1 nd Hrest); [intros g Hg; apply Hlaw; right; exact Hg|exact H2].
Qed.

(* PARTIAL: hypotheses tokenizes_as / tokenizes_strict for every intermediate document (inside list_ok), and the
   two-piece law for the stages after the first *)
Theorem C15_list_partial : forall fs doc,
  list_ok fs doc ->
  (forall f, In f (tl fs) -> two_piece_law (hfb_new (mkvis (hf_act f) (hf_path f) (hf_sel f) (hf_val f)))) ->
  body_run lower sel_eval true (map to_body fs) [ser_forest doc]
  = ser_forest (ref_edit_list lower (map to_ref fs) doc).
Proof.
  intros fs doc Hok Hlaw. rewrite body_run_total, (stages_of_list fs doc Hok).
  destruct fs as [|f fs].
  - cbn [map]. rewrite run_cons. cbn [ChainProofs.cf fst snd]. rewrite (run_nil stage tf stage_te). cbn [CodecChain.ce]. apply app_nil_r.
  - cbn [list_ok] in Hok. destruct Hok as (Hdom & Htok & Hne & Hne' & Hrest). cbn [tl] in Hlaw.
    cbn [map]. rewrite (run_head stage tf stage_te). cbn [houts].
    destruct (C15_stage_level_partial lower sel_eval (hf_act f) (hf_path f) (hf_sel f) (hf_val f) doc Hdom Htok) as (F' & o & Hf & Hout & Hie).
    assert (Htf : tf (to_stage f) (ser_forest doc) = (StHtml F', o)) by (unfold to_stage; cbn [stage_tf]; rewrite Hf; reflexivity).
    rewrite Htf. cbn [fst snd stage_te hfb_end].
    cbn [ref_edit_list map fold_left]. apply (feed_list fs _ o (held F') Hrest Hlaw). exact Hout.
Qed.
End HtmlList.
