(* Pct.v — executable model of the dependency crates used by the URL normalisation code (C09):
     percent-encoding 2.3.2   src/ascii_set.rs (AsciiSet, CONTROLS), src/lib.rs (percent_encode_byte,
                              utf8_percent_encode, percent_decode)
     form_urlencoded 1.2.2    src/lib.rs (parse, decode, replace_plus)
     std                      BTreeMap<String,String>: FromIterator, iteration order (String: Ord = bytewise)
                              str::from_utf8 (well-formedness test only, [utf8_valid])
   Bytes are [N], strings are byte lists.  No proofs in this file. *)
Require Import RIO.Base.
Open Scope N_scope.

Definition in_range (lo hi b : N) : bool := N.leb lo b && N.leb b hi.

(* ------------------------------------------------------------------------------------------------ *)
(* percent-encoding: ascii_set.rs                                                                    *)

(* An AsciiSet is a 128-bit mask; here: its membership predicate on bytes < 128.
   `contains` is only called on ASCII bytes (should_percent_encode tests !is_ascii first). *)
Definition ascii_set := N -> bool.

(* pub const CONTROLS: C0 controls 0x00..=0x1F and DEL 0x7F *)
Definition CONTROLS : ascii_set := fun b => N.leb b 31 || N.eqb b 127.

(* AsciiSet::add *)
Definition ascii_set_add (s : ascii_set) (c : N) : ascii_set := fun b => s b || N.eqb b c.

Definition is_ascii (b : N) : bool := N.ltb b 128.

(* AsciiSet::should_percent_encode: !byte.is_ascii() || self.contains(byte) *)
Definition should_percent_encode (s : ascii_set) (b : N) : bool := negb (is_ascii b) || s b.

(* ------------------------------------------------------------------------------------------------ *)
(* percent-encoding: lib.rs                                                                          *)

(* one upper-case hexadecimal digit, as in ENC_TABLE *)
Definition hex_upper (n : N) : N := if N.ltb n 10 then 48 + n else 55 + n.

(* percent_encode_byte: "%XX", upper-case hex *)
Definition c_percent : N := 37.
Definition percent_encode_byte (b : N) : str := [c_percent; hex_upper (b / 16); hex_upper (b mod 16)].

(* PercentEncode as Display / to_string(): the iterator yields maximal unchanged slices and "%XX" items;
   their concatenation is the byte-wise map below. *)
Fixpoint percent_encode (s : ascii_set) (input : str) : str :=
  match input with
  | [] => []
  | b :: r => if should_percent_encode s b then percent_encode_byte b ++ percent_encode s r
              else b :: percent_encode s r
  end.

(* utf8_percent_encode(input: &str, set) = percent_encode(input.as_bytes(), set) *)
Definition utf8_percent_encode (input : str) (s : ascii_set) : str := percent_encode s input.

(* char::from(byte).to_digit(16): bytes >= 128 become Latin-1 chars, which are not digits *)
Definition to_digit16 (c : N) : option N :=
  if in_range 48 57 c then Some (c - 48)
  else if in_range 97 102 c then Some (c - 87)
  else if in_range 65 70 c then Some (c - 55)
  else None.

(* PercentDecode::next with after_percent_sign: "%" followed by two hex digits is one byte; any other
   "%" is passed through and decoding resumes at the very next byte *)
Fixpoint percent_decode (l : str) : str :=
  match l with
  | [] => []
  | b :: r =>
      if N.eqb b c_percent then
        match r with
        | h :: lo :: r' =>
            match to_digit16 h, to_digit16 lo with
            | Some x, Some y => (x * 16 + y) :: percent_decode r'
            | _, _ => b :: percent_decode r
            end
        | _ => b :: percent_decode r
        end
      else b :: percent_decode r
  end.

(* ------------------------------------------------------------------------------------------------ *)
(* std: str::from_utf8 succeeds (Unicode table 3-7, well-formed UTF-8 byte sequences)                *)

Definition utf8_cont (b : N) : bool := in_range 128 191 b.

Fixpoint utf8_valid (l : str) : bool :=
  match l with
  | [] => true
  | b0 :: t0 =>
      if N.ltb b0 128 then utf8_valid t0
      else if in_range 194 223 b0 then
        match t0 with
        | b1 :: t1 => utf8_cont b1 && utf8_valid t1
        | _ => false
        end
      else if in_range 224 239 b0 then
        match t0 with
        | b1 :: b2 :: t2 =>
            (if N.eqb b0 224 then in_range 160 191 b1
             else if N.eqb b0 237 then in_range 128 159 b1
             else utf8_cont b1)
            && utf8_cont b2 && utf8_valid t2
        | _ => false
        end
      else if in_range 240 244 b0 then
        match t0 with
        | b1 :: b2 :: b3 :: t3 =>
            (if N.eqb b0 240 then in_range 144 191 b1
             else if N.eqb b0 244 then in_range 128 143 b1
             else utf8_cont b1)
            && utf8_cont b2 && utf8_cont b3 && utf8_valid t3
        | _ => false
        end
      else false
  end.

Definition all_ascii (l : str) : bool := forallb is_ascii l.

(* ------------------------------------------------------------------------------------------------ *)
(* form_urlencoded: lib.rs                                                                           *)

Definition c_amp : N := 38.    (* & *)
Definition c_eq : N := 61.     (* = *)
Definition c_plus : N := 43.   (* + *)
Definition c_space : N := 32.

(* slice.split(|b| b == d): all the pieces, the empty ones included; never the empty list *)
Fixpoint split_on (d : N) (l : str) : list str :=
  match l with
  | [] => [[]]
  | b :: r =>
      if N.eqb b d then [] :: split_on d r
      else match split_on d r with
           | p :: ps => (b :: p) :: ps
           | [] => [[b]]
           end
  end.

(* slice.splitn(2, |b| b == d): (first piece, the rest after the first delimiter if there is one) *)
Fixpoint splitn2 (d : N) (l : str) : str * option str :=
  match l with
  | [] => ([], None)
  | b :: r =>
      if N.eqb b d then ([], Some r)
      else let '(p, q) := splitn2 d r in (b :: p, q)
  end.

(* replace_plus *)
Definition replace_plus (input : str) : str := map (fun b => if N.eqb b c_plus then c_space else b) input.

(* decode, as BYTES: percent_decode(replace_plus(input)).  The crate then applies String::from_utf8_lossy;
   that step is the identity exactly when the bytes are valid UTF-8 and is NOT modelled otherwise:
   [decode_valid] is the precondition under which [decode] is the crate's result. *)
Definition decode (input : str) : str := percent_decode (replace_plus input).
Definition decode_valid (input : str) : bool := utf8_valid (decode input).

(* one non-empty `sequence` of Parse::next: split at the first '=', missing value = "" *)
Definition parse_sequence (sequence : str) : str * str :=
  let '(name, value) := splitn2 c_eq sequence in
  (decode name, decode match value with Some v => v | None => [] end).

(* parse(input).into_owned() collected in order: the loop of Parse::next takes the input up to the next '&',
   skips it when empty, and stops on empty input; that is: all the '&'-pieces, the empty ones dropped *)
Definition form_urlencoded_parse (input : str) : list (str * str) :=
  map parse_sequence (filter (fun p => negb (is_nil p)) (split_on c_amp input)).

(* every decoded name and value is valid UTF-8 (precondition of the model, see [decode]) *)
Definition form_urlencoded_parse_valid (input : str) : bool :=
  forallb (fun kv => utf8_valid (fst kv) && utf8_valid (snd kv)) (form_urlencoded_parse input).

(* ------------------------------------------------------------------------------------------------ *)
(* std: BTreeMap<String, String>                                                                     *)

(* <str as Ord>::cmp: lexicographic on bytes, a proper prefix is smaller *)
Fixpoint str_cmp (a b : str) : comparison :=
  match a, b with
  | [], [] => Eq
  | [], _ :: _ => Lt
  | _ :: _, [] => Gt
  | x :: a', y :: b' =>
      match N.compare x y with
      | Eq => str_cmp a' b'
      | c => c
      end
  end.

(* BTreeMap::insert on the sorted association list: an existing key keeps its place, its value is replaced *)
Fixpoint btree_insert (k v : str) (m : list (str * str)) : list (str * str) :=
  match m with
  | [] => [(k, v)]
  | (k', v') :: m' =>
      match str_cmp k k' with
      | Lt => (k, v) :: m
      | Eq => (k', v) :: m'
      | Gt => (k', v') :: btree_insert k v m'
      end
  end.

(* iter.collect::<BTreeMap<_,_>>() followed by iteration: ascending keys, the LAST value of a repeated key *)
Definition btree_collect (l : list (str * str)) : list (str * str) :=
  fold_left (fun m kv => btree_insert (fst kv) (snd kv) m) l [].
