(* RxMatchersProofs.v — MECHANICAL COPY of RIO.MatchersProofs for the strengthened pattern shapes of RIO.RxLaws:
   shape_c -> shape_x, tpre_c -> tpre_x, engine_prefix_law -> engine_prefix_law_x, the prefix.rs structure
   lemmas *_c -> *_x (RIO.RxTreeInst).  No proof script was changed.  Original header follows. *)
(* RxMatchersProofs.v — the DateTime / Header / Method / Ip matchers implement flat lists of routes:
   RIO.LayerProofs instantiated four times on top of RIO.RxPathProofs, and the conjunction of the
   per-layer triggers is RIO.RouterSpec.sat_rest. *)
Require Import RIO.Base RIO.Prefix RIO.Route RIO.Layer RIO.Tree RIO.TreeProofs RIO.TreeInst RIO.RxLaws RIO.RxTreeInst RIO.Matchers RIO.MatcherSpec
               RIO.LayerProofs RIO.RxPathProofs RIO.RouterSpec.
Close Scope N_scope.
Open Scope nat_scope.

(* ------------------------------------------------------------------ decidable equalities *)
Lemma list_eqb_spec {A} (e : A -> A -> bool) : (forall x y, e x y = true <-> x = y) -> forall a b, list_eqb e a b = true <-> a = b.
Proof.
  intros He. induction a as [|x a IH]; intros [|y b]; cbn; split; intros H; try reflexivity; try discriminate.
  - apply andb_prop in H. destruct H as [H1 H2]. apply He in H1. apply IH in H2. subst. reflexivity.
  - inversion H; subst. apply andb_true_intro. split; [apply He; reflexivity|apply IH; reflexivity].
Qed.
Lemma optZ_eqb_spec a b : optZ_eqb a b = true <-> a = b.
Proof. destruct a, b; cbn; split; intros H; try reflexivity; try discriminate; [apply Z.eqb_eq in H; subst; reflexivity|inversion H; apply Z.eqb_refl]. Qed.
Lemma dt_range_eqb_spec a b : dt_range_eqb a b = true <-> a = b.
Proof.
  destruct a as [s1 e1], b as [s2 e2]. unfold dt_range_eqb. cbn. rewrite andb_true_iff, !optZ_eqb_spec. split; [intros [-> ->]; reflexivity|intros H; inversion H; auto].
Qed.
Lemma time_range_eqb_spec a b : time_range_eqb a b = true <-> a = b.
Proof.
  destruct a as [s1 e1], b as [s2 e2]. unfold time_range_eqb. cbn. rewrite andb_true_iff, !optZ_eqb_spec. split; [intros [-> ->]; reflexivity|intros H; inversion H; auto].
Qed.
Lemma dt_cond_eqb_spec a b : dt_cond_eqb a b = true <-> a = b.
Proof.
  destruct a, b; cbn; try (split; intros H; discriminate).
  - rewrite (list_eqb_spec dt_range_eqb dt_range_eqb_spec). split; [intros ->; reflexivity|intros H; inversion H; reflexivity].
  - rewrite (list_eqb_spec time_range_eqb time_range_eqb_spec). split; [intros ->; reflexivity|intros H; inversion H; reflexivity].
  - rewrite (list_eqb_spec Z.eqb Z.eqb_eq). split; [intros ->; reflexivity|intros H; inversion H; reflexivity].
Qed.
Lemma vcond_eqb_spec a b : vcond_eqb a b = true <-> a = b.
Proof.
  destruct a, b; cbn; try (split; intros H; (reflexivity || discriminate));
    rewrite str_eqb_spec; (split; [intros ->; reflexivity|intros H; inversion H; reflexivity]).
Qed.
Lemma hcond_eqb_spec a b : hcond_eqb a b = true <-> a = b.
Proof.
  destruct a as [n1 c1], b as [n2 c2]. unfold hcond_eqb. cbn. rewrite andb_true_iff, str_eqb_spec, vcond_eqb_spec.
  split; [intros [-> ->]; reflexivity|intros H; inversion H; auto].
Qed.
Lemma cidr_eqb_spec a b : cidr_eqb a b = true <-> a = b.
Proof.
  destruct a as [a1 a2 a3 a4], b as [b1 b2 b3 b4]. unfold cidr_eqb. cbn. rewrite !andb_true_iff, !Bool.eqb_true_iff, !N.eqb_eq.
  split; [intros [[[-> ->] ->] ->]; reflexivity|intros H; inversion H; auto].
Qed.
Lemma route_ip_eqb_spec a b : route_ip_eqb a b = true <-> a = b.
Proof.
  destruct a, b; cbn; try (split; intros H; discriminate); rewrite cidr_eqb_spec; (split; [intros ->; reflexivity|intros H; inversion H; reflexivity]).
Qed.
Lemma mkey_eqb_spec a b : mkey_eqb a b = true <-> a = b.
Proof.
  destruct a, b; cbn; try (split; intros H; discriminate).
  - rewrite str_eqb_spec. split; [intros ->; reflexivity|intros H; inversion H; reflexivity].
  - rewrite (list_eqb_spec str_eqb str_eqb_spec). split; [intros ->; reflexivity|intros H; inversion H; reflexivity].
Qed.

(* an eqb reflecting equality is an equivalence *)
Section Eqb.
  Variable A : Type. Variable e : A -> A -> bool.
  Hypothesis e_spec : forall x y, e x y = true <-> x = y.
  Lemma eqb_refl' x : e x x = true. Proof. apply e_spec. reflexivity. Qed.
  Lemma eqb_sym' x y : e x y = e y x.
  Proof. destruct (e x y) eqn:E1, (e y x) eqn:E2; try reflexivity; [apply e_spec in E1; subst; rewrite eqb_refl' in E2; discriminate|apply e_spec in E2; subst; rewrite eqb_refl' in E1; discriminate]. Qed.
  Lemma eqb_trans' x y z : e x y = true -> e y z = true -> e x z = true.
  Proof. intros H1 H2. apply e_spec in H1, H2. subst. apply eqb_refl'. Qed.

  (* sets as lists *)
  Lemma existsb_eqb_In x l : existsb (e x) l = true <-> In x l.
  Proof. rewrite existsb_exists. split; [intros (y & Hy & E); apply e_spec in E; subst; exact Hy|intros H; exists x; split; [exact H|apply eqb_refl']]. Qed.
  Lemma set_eqb_spec a b : set_eqb e a b = true <-> (forall x, In x a <-> In x b).
  Proof.
    unfold set_eqb. rewrite andb_true_iff, !forallb_forall. split.
    - intros [H1 H2] x. split; intros H; [apply existsb_eqb_In, H1, H|apply existsb_eqb_In, H2, H].
    - intros H. split; intros x Hx; apply existsb_eqb_In; apply H; exact Hx.
  Qed.
  Lemma set_eqb_refl a : set_eqb e a a = true. Proof. apply set_eqb_spec. tauto. Qed.
  Lemma set_eqb_sym a b : set_eqb e a b = set_eqb e b a. Proof. unfold set_eqb. apply andb_comm. Qed.
  Lemma set_eqb_trans a b c : set_eqb e a b = true -> set_eqb e b c = true -> set_eqb e a c = true.
  Proof. rewrite !set_eqb_spec. intros H1 H2 x. rewrite H1. apply H2. Qed.
  Lemma set_eqb_forallb (P : A -> bool) a b : set_eqb e a b = true -> forallb P a = forallb P b.
  Proof.
    rewrite set_eqb_spec. intros H. destruct (forallb P a) eqn:Ea, (forallb P b) eqn:Eb; try reflexivity.
    - rewrite forallb_forall in Ea. assert (forallb P b = true) by (apply forallb_forall; intros x Hx; apply Ea, H, Hx). congruence.
    - rewrite forallb_forall in Eb. assert (forallb P a = true) by (apply forallb_forall; intros x Hx; apply Eb, H, Hx). congruence.
  Qed.

  (* condition groups with a memo *)
  Variable holds : request -> A -> bool.
  Definition coh (q : request) (memo : list (A * bool)) : Prop := forall c b, memo_get A e c memo = Some b -> b = holds q c.
  Lemma coh_nil q : coh q []. Proof. intros c b H. discriminate. Qed.
  Lemma coh_cons q c memo : coh q memo -> coh q ((c, holds q c) :: memo).
  Proof. intros H c' b. cbn. destruct (e c' c) eqn:E; [apply e_spec in E; subst; intros H'; inversion H'; reflexivity|apply H]. Qed.

  Lemma group_sel_ok q conds : forall memo, coh q memo ->
    fst (group_sel A e holds q memo conds) = forallb (holds q) conds /\ coh q (snd (group_sel A e holds q memo conds)).
  Proof.
    induction conds as [|c cs IH]; intros memo Hc; cbn; [auto|].
    destruct (memo_get A e c memo) as [r|] eqn:Em.
    - rewrite (Hc c r Em) in *. destruct (holds q c); cbn; [apply IH; exact Hc|auto].
    - destruct (holds q c) eqn:Eh; cbn.
      + apply IH. rewrite <- Eh. apply coh_cons. exact Hc.
      + split; [reflexivity|]. rewrite <- Eh. apply coh_cons. exact Hc.
  Qed.

  Lemma group_sel_trace_ok q conds : forall memo m, coh q memo ->
    fst (group_sel_trace A e holds q memo m m conds) = m && forallb (holds q) conds
    /\ coh q (snd (group_sel_trace A e holds q memo m m conds)).
  Proof.
    induction conds as [|c cs IH]; intros memo m Hc; cbn; [rewrite andb_true_r; auto|].
    destruct (memo_get A e c memo) as [r|] eqn:Em.
    - rewrite (Hc c r Em). destruct (IH memo (m && holds q c) Hc) as [I1 I2]. rewrite I1, andb_assoc. auto.
    - assert (Hc' : coh q (if m then (c, m && holds q c) :: memo else memo)).
      { destruct m; [cbn; apply coh_cons; exact Hc|exact Hc]. }
      destruct (IH _ (m && holds q c) Hc') as [I1 I2]. rewrite I1, andb_assoc. auto.
  Qed.
End Eqb.

(* ------------------------------------------------------------------ the four layers *)
Section RxMatchersProofs.
Variable lower : str -> str.
Variable eng : bool -> pat -> list N -> bool.
Variable valid : bool -> pat -> bool.
Variable ic_path : bool.
Hypothesis Hd : engine_dotstar eng.
Hypothesis Hp : engine_prefix_law_x eng.

Notation path_ops' := (path_ops eng valid ic_path).
Notation dt_ops' := (dt_ops eng valid ic_path).
Notation hd_ops' := (hd_ops lower eng valid ic_path).
Notation mt_ops' := (mt_ops lower eng valid ic_path).
Notation ip_ops' := (ip_ops lower eng valid ic_path).

Definition Spath := path_mspec eng valid ic_path Hd Hp.

(* -- DateTime -- *)
Definition dt_selects (q : request) (g : list dt_cond) : bool := forallb (dt_cond_holds q) g.
Lemma single_key_unique {K} (key_eqb : K -> K -> bool) (keys : route -> list K) :
  (forall k, key_eqb k k = true) -> (forall r, length (keys r) <= 1) ->
  forall r k1 k2, In k1 (keys r) -> In k2 (keys r) -> key_eqb k1 k2 = true.
Proof.
  intros Hr Hl r k1 k2 H1 H2. specialize (Hl r). destruct (keys r) as [|k [|k' l]]; cbn in *.
  - destruct H1.
  - destruct H1 as [<-|[]], H2 as [<-|[]]. apply Hr.
  - lia.
Qed.
Lemma dt_keys_len r : length (dt_keys r) <= 1.
Proof. unfold dt_keys. destruct (dt_group r); cbn; lia. Qed.

Definition Sdt : mspec dt_ops' _ _ :=
  layer_mspec (list dt_cond) pathm (set_eqb dt_cond_eqb) path_ops' dt_keys (list (dt_cond * bool)) []
    (fun q memo g => group_sel dt_cond dt_cond_eqb dt_cond_holds q memo g)
    (fun q memo g => group_sel_trace dt_cond dt_cond_eqb dt_cond_holds q memo true true g)
    false ok_path Spath
    (set_eqb_refl _ _ dt_cond_eqb_spec) (set_eqb_sym _ _) (set_eqb_trans _ _ dt_cond_eqb_spec)
    (RxPathProofs.sat_path eng ic_path) (match_nodup Spath) (match_in Spath) (trace_in Spath)
    dt_selects (fun q a b H => set_eqb_forallb _ _ dt_cond_eqb_spec (dt_cond_holds q) a b H)
    (coh _ dt_cond_eqb dt_cond_holds) (coh _ dt_cond_eqb dt_cond_holds)
    (fun q => coh_nil _ _ _ q)
    (fun q memo k Hc => group_sel_ok _ _ dt_cond_eqb_spec dt_cond_holds q k memo Hc)
    (fun q => coh_nil _ _ _ q)
    (fun q memo k Hc => group_sel_trace_ok _ _ dt_cond_eqb_spec dt_cond_holds q k memo true Hc)
    (fun _ q r k1 k2 H1 H2 _ _ => single_key_unique _ dt_keys (set_eqb_refl _ _ dt_cond_eqb_spec) dt_keys_len r k1 k2 H1 H2).

(* -- Header -- *)
Definition hholds := hcond_holds lower (eng false).
Definition hd_selects (q : request) (g : list hcond) : bool := forallb (hholds q) g.
Lemma hd_keys_len r : length (hd_keys lower r) <= 1.
Proof. unfold hd_keys. destruct (rt_headers r); cbn; lia. Qed.

Definition Shd : mspec hd_ops' _ _ :=
  layer_mspec (list hcond) dtm (set_eqb hcond_eqb) dt_ops' (hd_keys lower) (list (hcond * bool)) []
    (fun q memo g => group_sel hcond hcond_eqb hholds q memo g)
    (fun q memo g => group_sel_trace hcond hcond_eqb hholds q memo true true g)
    false _ Sdt
    (set_eqb_refl _ _ hcond_eqb_spec) (set_eqb_sym _ _) (set_eqb_trans _ _ hcond_eqb_spec)
    _ (match_nodup Sdt) (match_in Sdt) (trace_in Sdt)
    hd_selects (fun q a b H => set_eqb_forallb _ _ hcond_eqb_spec (hholds q) a b H)
    (coh _ hcond_eqb hholds) (coh _ hcond_eqb hholds)
    (fun q => coh_nil _ _ _ q)
    (fun q memo k Hc => group_sel_ok _ _ hcond_eqb_spec hholds q k memo Hc)
    (fun q => coh_nil _ _ _ q)
    (fun q memo k Hc => group_sel_trace_ok _ _ hcond_eqb_spec hholds q k memo true Hc)
    (fun _ q r k1 k2 H1 H2 _ _ => single_key_unique _ (hd_keys lower) (set_eqb_refl _ _ hcond_eqb_spec) hd_keys_len r k1 k2 H1 H2).

(* -- Method -- *)
Definition mt_selects (q : request) (k : mkey) : bool := fst (mt_sel q tt k).
Lemma mt_unique q r k1 k2 : In k1 (mt_keys r) -> In k2 (mt_keys r) -> mt_selects q k1 = true -> mt_selects q k2 = true -> mkey_eqb k1 k2 = true.
Proof.
  unfold mt_keys, mt_selects. destruct (rt_methods r) as [ms|]; [|intros []]. destruct (is_nil ms); [intros []|].
  destruct (rt_exclude_methods r) as [[|]|].
  - intros [<-|[]] [<-|[]] _ _. apply (eqb_refl' _ _ mkey_eqb_spec).
  - intros H1 H2. apply in_map_iff in H1, H2. destruct H1 as (m1 & <- & _), H2 as (m2 & <- & _). cbn.
    intros E1 E2. apply str_eqb_spec in E1, E2. subst. apply str_eqb_refl.
  - intros H1 H2. apply in_map_iff in H1, H2. destruct H1 as (m1 & <- & _), H2 as (m2 & <- & _). cbn.
    intros E1 E2. apply str_eqb_spec in E1, E2. subst. apply str_eqb_refl.
Qed.

Definition Smt : mspec mt_ops' _ _ :=
  layer_mspec mkey hdm mkey_eqb hd_ops' mt_keys unit tt mt_sel mt_sel false _ Shd
    (eqb_refl' _ _ mkey_eqb_spec) (eqb_sym' _ _ mkey_eqb_spec) (eqb_trans' _ _ mkey_eqb_spec)
    _ (match_nodup Shd) (match_in Shd) (trace_in Shd)
    mt_selects (fun q a b H => f_equal (mt_selects q) (proj1 (mkey_eqb_spec a b) H))
    (fun _ _ => True) (fun _ _ => True)
    (fun _ => I) (fun q memo k _ => match memo with tt => conj eq_refl I end)
    (fun _ => I) (fun q memo k _ => match memo with tt => conj eq_refl I end)
    (fun _ q r k1 k2 H1 H2 E1 E2 => mt_unique q r k1 k2 H1 H2 E1 E2).

(* -- Ip (results de-duplicated by id) -- *)
Definition ip_selects (q : request) (k : route_ip) : bool := fst (ip_sel q tt k).
Definition Sip : mspec ip_ops' _ _ :=
  layer_mspec route_ip mtm route_ip_eqb mt_ops' ip_keys unit tt ip_sel ip_sel true _ Smt
    (eqb_refl' _ _ route_ip_eqb_spec) (eqb_sym' _ _ route_ip_eqb_spec) (eqb_trans' _ _ route_ip_eqb_spec)
    _ (match_nodup Smt) (match_in Smt) (trace_in Smt)
    ip_selects (fun q a b H => f_equal (ip_selects q) (proj1 (route_ip_eqb_spec a b) H))
    (fun _ _ => True) (fun _ _ => True)
    (fun _ => I) (fun q memo k _ => match memo with tt => conj eq_refl I end)
    (fun _ => I) (fun q memo k _ => match memo with tt => conj eq_refl I end)
    (fun (H : true = false) _ _ _ _ _ _ _ _ => match Bool.diff_true_false H with end).

(* ------------------------------------------------------------------ the conjunction of the four triggers and the path *)
Definition path_match (re s : str) : bool := ML eng ic_path re s.
Definition sat_below (r : route) (q : request) : bool :=
  sat route_ip ip_keys (sat mkey mt_keys (sat (list hcond) (hd_keys lower) (sat (list dt_cond) dt_keys (RxPathProofs.sat_path eng ic_path) dt_selects) hd_selects) mt_selects) ip_selects r q.

Lemma existsb_const_false {A} (l : list A) : existsb (fun _ => false) l = false.
Proof. induction l; cbn; auto. Qed.

Lemma existsb_map' {A B} (f : B -> bool) (g : A -> B) l : existsb f (map g l) = existsb (fun x => f (g x)) l.
Proof. induction l; cbn; [reflexivity|]. rewrite IHl. reflexivity. Qed.
Lemma forallb_map' {A B} (f : B -> bool) (g : A -> B) l : forallb f (map g l) = forallb (fun x => f (g x)) l.
Proof. induction l; cbn; [reflexivity|]. rewrite IHl. reflexivity. Qed.

Lemma existsb_ext' {A} (f g : A -> bool) l : (forall x, f x = g x) -> existsb f l = existsb g l.
Proof. intros H. induction l; cbn; [reflexivity|]. rewrite H, IHl. reflexivity. Qed.

Lemma ip_trig_spec r q : trig route_ip ip_keys ip_selects r q = sat_ip r q.
Proof.
  unfold trig, ip_keys, sat_ip, ip_selects, ip_sel. destruct (rt_ips r) as [[|i ips]|]; try reflexivity. cbn [fst].
  destruct (q_addr q); [reflexivity|]. cbn. apply existsb_const_false.
Qed.
Lemma mt_trig_spec r q : trig mkey mt_keys mt_selects r q = sat_method r q.
Proof.
  unfold trig, mt_keys, sat_method, mt_selects, mt_sel. destruct (rt_methods r) as [[|m ms]|]; try reflexivity. cbn [is_nil].
  assert (Hm : existsb (fun k => fst (match k with KMethod m0 => str_eqb m0 (req_method q) | KExclude ms0 => negb (mem_str (req_method q) ms0) end, tt)) (map KMethod (m :: ms))
               = mem_str (req_method q) (m :: ms)).
  { rewrite existsb_map'. unfold mem_str. apply existsb_ext'. intros x. cbn. apply str_eqb_sym. }
  destruct (rt_exclude_methods r) as [[|]|].
  - cbn. rewrite orb_false_r. reflexivity.
  - exact Hm.
  - exact Hm.
Qed.
Lemma hd_trig_spec r q : trig (list hcond) (hd_keys lower) hd_selects r q = sat_headers lower (eng false) r q.
Proof.
  unfold trig, hd_keys, sat_headers, hd_selects. destruct (rt_headers r) as [|h hs]; [reflexivity|].
  cbn [existsb]. rewrite orb_false_r, forallb_map'. reflexivity.
Qed.
Lemma dt_trig_spec r q : trig (list dt_cond) dt_keys dt_selects r q = sat_datetime r q.
Proof.
  unfold trig, dt_keys, dt_group, sat_datetime, dt_selects.
  destruct (rt_datetime r), (rt_weekdays r), (rt_time r); cbn [app existsb forallb]; rewrite ?orb_false_r, ?andb_true_r, ?andb_true_l, ?andb_assoc; try reflexivity.
Qed.
Lemma path_sat_spec r q : RxPathProofs.sat_path eng ic_path r q = RouterSpec.sat_path path_match r q.
Proof. unfold RxPathProofs.sat_path, RouterSpec.sat_path, path_match. destruct (rt_path r); reflexivity. Qed.

Lemma sat_below_rest r q : sat_below r q = sat_rest lower (eng false) path_match r q.
Proof.
  unfold sat_below, sat_rest, sat. rewrite ip_trig_spec, mt_trig_spec, hd_trig_spec, dt_trig_spec, path_sat_spec.
  rewrite !andb_assoc. reflexivity.
Qed.

Definition ok_below (r : route) : Prop :=
  ok route_ip route_ip_eqb ip_keys (ok mkey mkey_eqb mt_keys (ok (list hcond) (set_eqb hcond_eqb) (hd_keys lower) (ok (list dt_cond) (set_eqb dt_cond_eqb) dt_keys ok_path))) r.

(* what the admissibility of a route amounts to *)
Lemma ok_below_intro r :
  ok_path r ->
  NoDup (match rt_ips r with Some ips => ips | None => [] end) ->
  NoDup (match rt_methods r with Some ms => ms | None => [] end) ->
  ok_below r.
Proof.
  intros Hp' Hips Hms. unfold ok_below, ok, keys_ok.
  assert (Hsingle : forall {K} (e : K -> K -> bool) (l : list K), length l <= 1 -> ForallOrdPairs (fun a b => e a b = false) l).
  { intros K e l Hl. destruct l as [|a [|b l]]; cbn in Hl; [constructor|constructor; constructor|lia]. }
  assert (Hnd : forall {K} (e : K -> K -> bool), (forall x y, e x y = true <-> x = y) -> forall l, NoDup l -> ForallOrdPairs (fun a b => e a b = false) l).
  { intros K e He l Hn. induction Hn as [|x l Hx Hn IH]; constructor; [|exact IH].
    apply Forall_forall. intros y Hy. destruct (e x y) eqn:E; [apply He in E; subst; contradiction|reflexivity]. }
  repeat split.
  - exact Hp'.
  - apply Hsingle. apply dt_keys_len.
  - apply Hsingle. apply hd_keys_len.
  - unfold mt_keys. destruct (rt_methods r) as [ms|]; [|constructor]. destruct (is_nil ms); [constructor|].
    destruct (rt_exclude_methods r) as [[|]|]; [constructor; constructor| |];
      (apply (Hnd _ mkey_eqb mkey_eqb_spec); apply FinFun.Injective_map_NoDup; [intros a b H; inversion H; reflexivity|exact Hms]).
  - unfold ip_keys. apply (Hnd _ route_ip_eqb route_ip_eqb_spec). exact Hips.
Qed.
End RxMatchersProofs.
