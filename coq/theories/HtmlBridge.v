(* HtmlBridge.v — from the token automaton (RIO.HtmlTokens) to bytes.
   [tokens_from] is an executable tokenisation: it runs the tokenizer model (RIO.HtmlTok) exactly as the filter loop
   does (next, raw, tag_name for tag tokens) and returns the tokens and the unconsumed tail.
   THEOREM [filter_obs]: whatever the input, if [tokenize data = Some (toks, tail)] then what the HTML stage outputs
   for the single chunk [data] followed by the end of the stream is what the token automaton outputs on [toks],
   followed by [tail] (the text-holding of the filter loop only delays output).
   THEOREMS [append_child_tokens] / [prepend_child_tokens]: the same for the re-tokenising insertions. *)
Require Import RIO.Base RIO.TokMonad RIO.HtmlTok RIO.TokLogic RIO.HtmlTokProofs RIO.BodyText RIO.HtmlFilter RIO.Dom RIO.HtmlTokens.
Close Scope N_scope.
Open Scope nat_scope.

Section Bridge.
Variable lower : str -> str.
Variable sel_eval : str -> str -> bool.

Notation tok_step := (tok_step lower sel_eval).
Notation run_tokens := (run_tokens lower sel_eval).
Notation filter_loop := (filter_loop lower sel_eval).
Notation handle_token := (handle_token lower sel_eval).
Notation text_hold_loop := (text_hold_loop lower).

Definition is_tag (tk : token_type) : bool :=
  match tk with StartTagToken | EndTagToken | SelfClosingTagToken => true | _ => false end.
Definition mk_tok (tk : token_type) (nm r : str) : dtok :=
  match tk with StartTagToken => DStart nm r | EndTagToken => DEnd nm r | SelfClosingTagToken => DSelf nm r | _ => DOther r end.
Definition cons_fst {A B} (a : A) (o : option (list A * B)) : option (list A * B) :=
  match o with Some (l, b) => Some (a :: l, b) | None => None end.
Definition name_of (o : option str) : str := match o with Some n => n | None => [] end.

Definition no_panic (s : st) : bool := match panic s with None => true | Some _ => false end.

(* after next() and raw(): tag_name() for tag tokens, then the rest *)
Definition after_next (k : st -> option (list dtok * list N)) (data : list N) (tk : token_type) (s1 : st) (r : str)
  : option (list dtok * list N) :=
  if is_tag tk then
    match tk_tag_name lower data s1 with
    | (ROk (name, _), s2) => if no_panic s2 then cons_fst (mk_tok tk (name_of name) r) (k s2) else None
    | (RErr, _) => None
    end
  else cons_fst (DOther r) (k s1).

Fixpoint tokens_from (fuel : nat) (data : list N) (s : st) : option (list dtok * list N) :=
  match fuel with
  | O => None
  | S f =>
      match tk_next lower data s with
      | (RErr, _) => None
      | (ROk tk, s1) =>
          if negb (no_panic (snd (raw data s1))) then None
          else if token_eqb tk ErrorToken || err s1 then Some ([], tk_raw data s1 ++ tk_buffered data s1)
          else
            match as_string (tk_raw data s1) with
            | RErr => None
            | ROk r => after_next (tokens_from f data) data tk s1 r
            end
      end
  end.

Definition tokenize (data : list N) : option (list dtok * list N) :=
  tokens_from (length data + 2) data (new_fragment lower []).

(* ------------------------------------------------------------------------------------------ observations *)
(* the stage's total output if the stream ended now *)
Definition obs (r : result (hfb * str)) : result str :=
  match r with ROk (F, o) => ROk (o ++ held F) | RErr => RErr end.
Definition bufs_of (F : hfb) : str := flat_map snd (rev (f_buffers F)).
Definition obs_tokens (F : hfb) (out : str) (toks : list dtok) (tail : list N) : result str :=
  match run_tokens F out toks with ROk (F', o') => ROk (o' ++ bufs_of F' ++ tail) | RErr => RErr end.

Lemma held_set_hold F rawtag last : held (set_hold F rawtag last) = bufs_of F ++ last.
Proof. reflexivity. Qed.

(* emitting a piece now or holding it back gives the same total *)
Lemma emit_obs F out d : let '(F', o') := emit F out d in o' ++ bufs_of F' = out ++ bufs_of F ++ d.
Proof.
  destruct F as [e l v bufs la rt ie]. unfold emit, bufs_of. cbn [f_buffers].
  destruct bufs as [|[t bb] rest]; cbn [f_buffers rev flat_map snd].
  - rewrite app_nil_r. reflexivity.
  - rewrite !flat_map_app. cbn [flat_map snd]. rewrite !app_nil_r, <- !app_assoc. reflexivity.
Qed.

Lemma handle_step F data s1 tk td out (K : hfb -> st -> str -> result (hfb * str)) :
  token_eqb tk ErrorToken = false ->
  match handle_token F data s1 tk td with
  | RErr => RErr
  | ROk (F2, td3, s3) => let '(F3, out3) := emit F2 out td3 in K F3 s3 out3
  end =
  if is_tag tk then
    match tk_tag_name lower data s1 with
    | (ROk (name, _), s2) => match tok_step F out (mk_tok tk (name_of name) td) with RErr => RErr | ROk (F3, out3) => K F3 s2 out3 end
    | (RErr, _) => RErr
    end
  else match tok_step F out (DOther td) with RErr => RErr | ROk (F3, out3) => K F3 s1 out3 end.
Proof.
  intros Hne. unfold HtmlFilter.handle_token.
  destruct tk; cbn [is_tag mk_tok HtmlTokens.tok_step]; try discriminate;
    try (destruct (emit F out td) as [F3 out3]; reflexivity).
  - destruct (tk_tag_name lower data s1) as [[[name fl]|] s2]; [|reflexivity]. fold (name_of name).
    destruct (on_start_tag F (name_of name) td) as [F1 d1].
    destruct (is_void (name_of name)).
    + destruct (on_end_tag lower sel_eval F1 (name_of name) d1) as [[F2 d2]|]; [|reflexivity].
      destruct (emit F2 out d2) as [F3 out3]. reflexivity.
    + destruct (emit F1 out d1) as [F3 out3]. reflexivity.
  - destruct (tk_tag_name lower data s1) as [[[name fl]|] s2]; [|reflexivity]. fold (name_of name).
    destruct (on_end_tag lower sel_eval F (name_of name) td) as [[F2 d2]|]; [|reflexivity].
    destruct (emit F2 out d2) as [F3 out3]. reflexivity.
  - destruct (tk_tag_name lower data s1) as [[[name fl]|] s2]; [|reflexivity]. fold (name_of name).
    destruct (on_start_tag F (name_of name) td) as [F1 d1].
    destruct (on_end_tag lower sel_eval F1 (name_of name) d1) as [[F2 d2]|]; [|reflexivity].
    destruct (emit F2 out d2) as [F3 out3]. reflexivity.
Qed.

(* the body of one iteration of filter_loop after next() and raw() *)
Definition iter_rest (L fuel : nat) (F : hfb) (data : list N) (s1 : st) (out : str) (tk : token_type) (td : str) (rawtag : list N)
  : result (hfb * str) :=
  match text_hold_loop L F data s1 out tk td rawtag with
  | RErr => RErr
  | ROk (F1, out1, s2, tk2, td2, _, true) => ROk (F1, out1)
  | ROk (F1, out1, s2, tk2, td2, _, false) =>
      match handle_token F1 data s2 tk2 td2 with
      | RErr => RErr
      | ROk (F2, td3, s3) => let '(F3, out3) := emit F2 out1 td3 in filter_loop fuel F3 data s3 out3
      end
  end.

Lemma obs_tokens_cons F out t toks tail :
  obs_tokens F out (t :: toks) tail = match tok_step F out t with RErr => RErr | ROk (F', o') => obs_tokens F' o' toks tail end.
Proof. unfold obs_tokens. cbn [HtmlTokens.run_tokens]. destruct (tok_step F out t) as [[F' o']|]; reflexivity. Qed.

Lemma loop_tokens data : forall n,
  (forall F out s fuel toks tail, tokens_from n data s = Some (toks, tail) -> n <= fuel -> n <= length data + 2 ->
     obs (filter_loop fuel F data s out) = obs_tokens F out toks tail) /\
  (forall F out s1 tk td rawtag L fuel toks tail,
     token_eqb tk ErrorToken = false ->
     after_next (tokens_from n data) data tk s1 td = Some (toks, tail) -> n < L -> n <= fuel -> n <= length data + 2 ->
     obs (iter_rest L fuel F data s1 out tk td rawtag) = obs_tokens F out toks tail).
Proof.
  induction n as [|n [IHP IHQ]].
  - split.
    + intros F out s fuel toks tail H. discriminate.
    + intros F out s1 tk td rawtag L fuel toks tail _ H. unfold after_next in H. cbn [tokens_from] in H.
      destruct (is_tag tk); [destruct (tk_tag_name lower data s1) as [[[name fl]|] s2]; [destruct (no_panic s2)|]|]; discriminate.
  - assert (HP : forall F out s fuel toks tail, tokens_from (S n) data s = Some (toks, tail) -> S n <= fuel -> S n <= length data + 2 ->
                 obs (filter_loop fuel F data s out) = obs_tokens F out toks tail).
    { intros F out s fuel toks tail H Hfuel Hlen. destruct fuel as [|fuel]; [lia|].
      cbn [tokens_from] in H. cbn [HtmlFilter.filter_loop].
      destruct (tk_next lower data s) as [[tk|] s1]; [|discriminate].
      destruct (negb (no_panic (snd (raw data s1)))); [discriminate|].
      destruct (token_eqb tk ErrorToken || err s1) eqn:Eerr.
      - injection H as <- <-. cbn [obs]. rewrite held_set_hold. unfold obs_tokens. cbn [HtmlTokens.run_tokens]. reflexivity.
      - destruct (as_string (tk_raw data s1)) as [td|]; [|discriminate].
        apply orb_false_iff in Eerr. destruct Eerr as [Etk _].
        apply (IHQ F out s1 tk td (raw_tag s) (length data + 2) fuel toks tail Etk H); lia. }
    split; [exact HP|].
    intros F out s1 tk td rawtag L fuel toks tail Etk H HL Hfuel Hlen.
    destruct L as [|L]; [lia|]. unfold iter_rest. cbn [HtmlFilter.text_hold_loop].
    destruct (token_eqb tk TextToken && contains_lt td) eqn:Ehold.
    + (* a text with '<': look at the next token first *)
      apply andb_prop in Ehold. destruct Ehold as [Etext _].
      assert (tk = TextToken) as -> by (destruct tk; try discriminate; reflexivity).
      unfold after_next in H. cbn [is_tag] in H.
      destruct (tokens_from (S n) data s1) as [[toks1 tail1]|] eqn:Hnext; [|discriminate]. cbn [cons_fst] in H. injection H as <- <-.
      rewrite obs_tokens_cons. cbn [HtmlTokens.tok_step].
      cbn [tokens_from] in Hnext.
      destruct (tk_next lower data s1) as [[tk'|] s1']; [|discriminate].
      destruct (negb (no_panic (snd (raw data s1')))); [discriminate|].
      destruct (token_eqb tk' ErrorToken || err s1') eqn:Eerr.
      * injection Hnext as <- <-. cbn [obs]. rewrite held_set_hold. unfold obs_tokens. cbn [HtmlTokens.run_tokens].
        pose proof (emit_obs F out td) as He. destruct (emit F out td) as [F' o']. f_equal. rewrite (app_assoc o'), He, <- !app_assoc. reflexivity.
      * destruct (emit F out td) as [F1 out1].
        destruct (as_string (tk_raw data s1')) as [td'|]; [|discriminate].
        apply orb_false_iff in Eerr. destruct Eerr as [Etk' _].
        apply (IHQ F1 out1 s1' tk' td' (raw_tag s1) L fuel toks1 tail1 Etk' Hnext); lia.
    + (* handled at once *)
      rewrite (handle_step F data s1 tk td out (fun F3 s3 out3 => filter_loop fuel F3 data s3 out3) Etk).
      unfold after_next in H. destruct (is_tag tk).
      * destruct (tk_tag_name lower data s1) as [[[name fl]|] s2]; [|discriminate].
        destruct (no_panic s2); [|discriminate].
        destruct (tokens_from (S n) data s2) as [[toks1 tail1]|] eqn:Hnext; [|discriminate]. cbn [cons_fst] in H. injection H as <- <-.
        rewrite obs_tokens_cons. destruct (tok_step F out (mk_tok tk (name_of name) td)) as [[F3 out3]|]; [|reflexivity].
        apply (HP F3 out3 s2 fuel toks1 tail1 Hnext Hfuel Hlen).
      * destruct (tokens_from (S n) data s1) as [[toks1 tail1]|] eqn:Hnext; [|discriminate]. cbn [cons_fst] in H. injection H as <- <-.
        rewrite obs_tokens_cons. destruct (tok_step F out (DOther td)) as [[F3 out3]|]; [|reflexivity].
        apply (HP F3 out3 s1 fuel toks1 tail1 Hnext Hfuel Hlen).
Qed.


(* ------------------------------------------------------------------------------------------ the error flag is not touched *)
Lemma on_start_tag_ie F tag data : f_in_error (fst (on_start_tag F tag data)) = f_in_error F.
Proof.
  unfold on_start_tag. destruct (opt_is (f_enter F) tag); [|reflexivity].
  destruct (v_enter (f_visitor F) data) as [[[[v' ne] nl] sb] nb]. reflexivity.
Qed.
Lemma on_end_tag_ie F tag data F' d' : on_end_tag lower sel_eval F tag data = ROk (F', d') -> f_in_error F' = f_in_error F.
Proof.
  unfold on_end_tag. destruct (opt_is (f_leave F) tag).
  - destruct (v_leave lower sel_eval (f_visitor F) _) as [[[[v' ne] nl] nb]|]; [|discriminate]. intros [= <- _]. reflexivity.
  - intros [= <- _]. reflexivity.
Qed.
Lemma emit_ie F out d : f_in_error (fst (emit F out d)) = f_in_error F.
Proof. unfold emit. destruct (f_buffers F) as [|[t bb] rest]; reflexivity. Qed.

Lemma handle_token_ie F data s tk td F2 td3 s3 : handle_token F data s tk td = ROk (F2, td3, s3) -> f_in_error F2 = f_in_error F.
Proof.
  unfold HtmlFilter.handle_token. destruct tk; try (intros [= <- _ _]; reflexivity).
  - destruct (tk_tag_name lower data s) as [[[name fl]|] s1]; [|discriminate].
    pose proof (on_start_tag_ie F (match name with Some n => n | None => [] end) td) as H1.
    destruct (on_start_tag F _ td) as [F1 d1]. cbn [fst] in H1.
    destruct (is_void _).
    + destruct (on_end_tag lower sel_eval F1 _ d1) as [[F2' d2]|] eqn:E; [|discriminate]. intros [= <- _ _].
      rewrite (on_end_tag_ie _ _ _ _ _ E). exact H1.
    + intros [= <- _ _]. exact H1.
  - destruct (tk_tag_name lower data s) as [[[name fl]|] s1]; [|discriminate].
    destruct (on_end_tag lower sel_eval F _ td) as [[F2' d2]|] eqn:E; [|discriminate]. intros [= <- _ _].
    apply (on_end_tag_ie _ _ _ _ _ E).
  - destruct (tk_tag_name lower data s) as [[[name fl]|] s1]; [|discriminate].
    pose proof (on_start_tag_ie F (match name with Some n => n | None => [] end) td) as H1.
    destruct (on_start_tag F _ td) as [F1 d1]. cbn [fst] in H1.
    destruct (on_end_tag lower sel_eval F1 _ d1) as [[F2' d2]|] eqn:E; [|discriminate]. intros [= <- _ _].
    rewrite (on_end_tag_ie _ _ _ _ _ E). exact H1.
Qed.

Lemma text_hold_loop_ie data : forall L F s out tk td rawtag F1 out1 s2 tk2 td2 rt2 stop,
  text_hold_loop L F data s out tk td rawtag = ROk (F1, out1, s2, tk2, td2, rt2, stop) -> f_in_error F1 = f_in_error F.
Proof.
  induction L as [|L IH]; intros F s out tk td rawtag F1 out1 s2 tk2 td2 rt2 stop H; cbn [HtmlFilter.text_hold_loop] in H.
  - injection H as <- _ _ _ _ _ _. reflexivity.
  - destruct (token_eqb tk TextToken && contains_lt td).
    + destruct (tk_next lower data s) as [[tk'|] s1]; [|discriminate].
      destruct (token_eqb tk' ErrorToken || err s1).
      * injection H as <- _ _ _ _ _ _. reflexivity.
      * pose proof (emit_ie F out td) as He. destruct (emit F out td) as [Fe oe]. cbn [fst] in He.
        destruct (as_string (tk_raw data s1)) as [td'|]; [|discriminate].
        rewrite (IH _ _ _ _ _ _ _ _ _ _ _ _ _ H). exact He.
    + injection H as <- _ _ _ _ _ _. reflexivity.
Qed.

Lemma filter_loop_ie data : forall fuel F s out F1 o1, filter_loop fuel F data s out = ROk (F1, o1) -> f_in_error F1 = f_in_error F.
Proof.
  induction fuel as [|fuel IH]; intros F s out F1 o1 H; cbn [HtmlFilter.filter_loop] in H.
  - injection H as <- _. reflexivity.
  - destruct (tk_next lower data s) as [[tk|] s1]; [|discriminate].
    destruct (token_eqb tk ErrorToken || err s1).
    + injection H as <- _. reflexivity.
    + destruct (as_string (tk_raw data s1)) as [td|]; [|discriminate].
      destruct (text_hold_loop (length data + 2) F data s1 out tk td (raw_tag s)) as [[[[[[[Fa oa] sa] tka] tda] rta] stop]|] eqn:Eh; [|discriminate].
      pose proof (text_hold_loop_ie _ _ _ _ _ _ _ _ _ _ _ _ _ _ _ Eh) as Ha.
      destruct stop.
      * injection H as <- _. exact Ha.
      * destruct (handle_token Fa data sa tka tda) as [[[F2 td3] s3]|] eqn:Et; [|discriminate].
        pose proof (handle_token_ie _ _ _ _ _ _ _ _ Et) as Hb.
        pose proof (emit_ie F2 oa td3) as Hc. destruct (emit F2 oa td3) as [F3 o3]. cbn [fst] in Hc.
        rewrite (IH _ _ _ _ _ H), Hc, Hb. exact Ha.
Qed.

(* ------------------------------------------------------------------------------------------ the stage on one chunk *)
Definition obsf (r : result (hfb * str)) : result str :=
  match r with ROk (F, o) => ROk (o ++ bufs_of F) | RErr => RErr end.

Lemma obs_tokens_tail F out toks tail : obs_tokens F out toks tail = obsf (run_tokens F out (toks ++ [DOther tail])).
Proof.
  unfold obs_tokens. rewrite run_tokens_app. destruct (run_tokens F out toks) as [[F' o']|]; [|reflexivity].
  cbn [HtmlTokens.run_tokens HtmlTokens.tok_step]. pose proof (emit_obs F' o' tail) as He.
  destruct (emit F' o' tail) as [F2 o2]. cbn [obsf]. rewrite He. reflexivity.
Qed.

Theorem filter_obs F data toks tail F' o' :
  tokenize data = Some (toks, tail) -> f_in_error F = false -> f_last F = [] -> f_raw_tag F = [] ->
  run_tokens F [] (toks ++ [DOther tail]) = ROk (F', o') ->
  exists F1 o1, hfb_filter lower sel_eval F data = (F1, o1) /\ o1 ++ held F1 = o' ++ bufs_of F' /\ f_in_error F1 = false.
Proof.
  intros Htok Hie Hlast Hrt Hrun. unfold hfb_filter, do_filter. rewrite Hie, Hlast, Hrt. cbn [app].
  destruct (loop_tokens data (length data + 2)) as [HP _].
  pose proof (HP F [] (new_fragment lower []) (length data + 2) toks tail Htok (Nat.le_refl _) (Nat.le_refl _)) as H.
  rewrite obs_tokens_tail, Hrun in H. cbn [obsf] in H.
  destruct (filter_loop (length data + 2) F data (new_fragment lower []) []) as [[F1 o1]|] eqn:Efl; [|discriminate].
  cbn [obs] in H. injection H as H. exists F1, o1. split; [reflexivity|]. split; [exact H|].
  rewrite (filter_loop_ie _ _ _ _ _ _ _ Efl). exact Hie.
Qed.

(* ------------------------------------------------------------------------------------------ token streams up to text splitting *)
(* the tag tokens of a stream, each with the bytes of the non-tag tokens that follow it (and those before the first) *)
Fixpoint segs (l : list dtok) : str * list (dtok * str) :=
  match l with
  | [] => ([], [])
  | DOther a :: rest => let '(h, tl) := segs rest in (a ++ h, tl)
  | t :: rest => let '(h, tl) := segs rest in ([], (t, h) :: tl)
  end.
Definition unseg_tl (tl : list (dtok * str)) : list dtok := flat_map (fun x => [fst x; DOther (snd x)]) tl.
Definition unsegs (p : str * list (dtok * str)) : list dtok := DOther (fst p) :: unseg_tl (snd p).

Lemma run_tokens_segs l : forall F out, run_tokens F out (unsegs (segs l)) = run_tokens F out l.
Proof.
  induction l as [|t l IH]; intros F out.
  - cbn. rewrite emit_nil. reflexivity.
  - assert (Htag : forall F out, (let '(h, tl) := segs l in ([], (t, h) :: tl)) = segs (t :: l) ->
                   run_tokens F out (unsegs (segs (t :: l))) = run_tokens F out (t :: l)).
    { intros F0 out0 E. rewrite <- E. destruct (segs l) as [h tl] eqn:Es. unfold unsegs. cbn [fst snd unseg_tl flat_map app].
      cbn [HtmlTokens.run_tokens]. change (HtmlTokens.tok_step lower sel_eval F0 out0 (DOther [])) with (ROk (emit F0 out0 [])).
      rewrite emit_nil. destruct (tok_step F0 out0 t) as [[F1 o1]|]; [|reflexivity].
      rewrite <- IH. reflexivity. }
    destruct t as [nm r|nm r|nm r|a]; try (apply Htag; reflexivity).
    cbn [segs]. destruct (segs l) as [h tl] eqn:Es. unfold unsegs. cbn [fst snd].
    cbn [HtmlTokens.run_tokens HtmlTokens.tok_step]. rewrite <- emit_app. destruct (emit F out a) as [F1 o1].
    rewrite <- IH. unfold unsegs. cbn [fst snd HtmlTokens.run_tokens HtmlTokens.tok_step]. reflexivity.
Qed.

Lemma run_tokens_equiv l1 l2 F out : segs l1 = segs l2 -> run_tokens F out l1 = run_tokens F out l2.
Proof. intros E. rewrite <- (run_tokens_segs l1), <- (run_tokens_segs l2), E. reflexivity. Qed.

(* HYPOTHESIS of the byte-level statements: the tokenizer reads the serialised document as its token stream
   (up to the splitting of non-tag bytes into text / comment / doctype tokens, and with the last token possibly
   held back as the unconsumed tail) *)
Definition tokenizes_as (doc : list node) : Prop :=
  exists toks tail, tokenize (ser_forest doc) = Some (toks, tail) /\ segs (toks ++ [DOther tail]) = segs (forest_tokens lower doc).


(* ------------------------------------------------------------------------------------------ one filter, bytes *)
Definition hk (a : action) : hkind := match a with AAppend => HAppendChild | APrepend => HPrependChild | AReplace => HReplace end.
Definition mk_filter (act : action) (path : list str) (sel : option str) (value : list node) : body_filter :=
  BFHtml {| hf_kind := hk act; hf_value := ser_forest value; hf_tree := path; hf_css := sel |}.

Lemma stages_of_filter act path sel value : path <> [] ->
  stages_of true [mk_filter act path sel value] = [StHtml (hfb_new (mkvis act path sel value))].
Proof.
  intros Hp. destruct path as [|p0 rest]; [congruence|]. destruct act; reflexivity.
Qed.

Lemma in_domain_path act path sel value doc : in_domain lower sel_eval act path sel value doc -> path <> [].
Proof. unfold in_domain. destruct path; [intros []|discriminate]. Qed.

(* FilterBodyAction with one HTML stage on one chunk, then the end of the stream *)
Lemma body_run_single F data :
  fba_run stage (stage_filter lower sel_eval) stage_end {| fb_chain := [StHtml F]; fb_in_error := false |} [data]
  = (let '(F1, o1) := hfb_filter lower sel_eval F data in o1 ++ held F1).
Proof.
  cbn [fba_run fba_filter fb_in_error fb_chain chain_filter stage_filter].
  destruct (hfb_filter lower sel_eval F data) as [F1 o1].
  destruct (is_nil o1) eqn:En.
  - unfold fba_end. cbn [fb_in_error fb_chain chain_end stage_end hfb_end]. destruct (is_nil (held F1)) eqn:Eh; cbn [snd].
    + destruct (held F1); [reflexivity|discriminate].
    + reflexivity.
  - cbn [chain_filter]. unfold fba_end. cbn [fb_in_error fb_chain chain_end stage_end hfb_end]. destruct (is_nil (held F1)) eqn:Eh; cbn [snd].
    + destruct (held F1); [reflexivity|discriminate].
    + reflexivity.
Qed.

(* the stage itself on the serialised document *)
Theorem stage_level_from_tokens act path sel value doc :
  in_domain lower sel_eval act path sel value doc -> tokenizes_as doc ->
  exists F1 o1, hfb_filter lower sel_eval (hfb_new (mkvis act path sel value)) (ser_forest doc) = (F1, o1) /\
    o1 ++ held F1 = ser_forest (ref_edit lower act value (css sel_eval sel) path doc) /\ f_in_error F1 = false.
Proof.
  intros Hdom (toks & tail & Htok & Hsegs).
  destruct (C15_token_level lower sel_eval act path sel value doc Hdom) as (F' & Hrun & Hb & _).
  rewrite <- (run_tokens_equiv _ _ _ _ Hsegs) in Hrun.
  destruct (filter_obs (hfb_new (mkvis act path sel value)) (ser_forest doc) toks tail F' _ Htok eq_refl eq_refl eq_refl Hrun)
    as (F1 & o1 & Hf & Hout & Hie).
  exists F1, o1. split; [exact Hf|]. split; [|exact Hie].
  rewrite Hout. unfold bufs_of. rewrite Hb. cbn [rev flat_map]. apply app_nil_r.
Qed.

Theorem byte_level_from_tokens act path sel value doc :
  in_domain lower sel_eval act path sel value doc -> tokenizes_as doc ->
  body_run lower sel_eval true [mk_filter act path sel value] [ser_forest doc]
  = ser_forest (ref_edit lower act value (css sel_eval sel) path doc).
Proof.
  intros Hdom Htok.
  destruct (stage_level_from_tokens act path sel value doc Hdom Htok) as (F1 & o1 & Hf & Hout & _).
  unfold body_run. rewrite (stages_of_filter act path sel value (in_domain_path _ _ _ _ _ Hdom)).
  rewrite body_run_single, Hf. exact Hout.
Qed.

End Bridge.
