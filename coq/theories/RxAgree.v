(* RxAgree.v — the scanner of prefix.rs (RIO.Prefix, final algorithm) and the parser of RIO.Rx agree: the text consumed
   by a successful parse is transparent for the scanner's balance check ([bal]), through bracket classes (ranges,
   leading bracket / caret, escapes, property names).  Consequence: in a valid rule regex every prefix.rs token parses
   in isolation, and [engine_prefix_law rx_is_match] holds with no side condition (RIO.RxFull). *)
Require Import RIO.Base RIO.Prefix RIO.Rx RIO.RxParse RIO.RxToks RIO.RxGi RIO.RxGrammar RIO.RxTrunc.
Close Scope N_scope.
Open Scope nat_scope.

Lemma bo_step st c st' R : sc_step st c = st' -> (1 <= lvl st')%Z -> body_ok_from st (c :: R) = body_ok_from st' R.
Proof. intros E Hl. cbn [body_ok_from]. rewrite E. apply Z.leb_le in Hl. rewrite Hl. reflexivity. Qed.

Lemma nonparen_of_eq c k : N.eqb c k = true -> nonparen k = true -> nonparen c = true.
Proof. intros E H. apply N.eqb_eq in E. subst. exact H. Qed.

(* ================================================================== quantifier text is plain *)
Lemma take_digits_plain s : forall acc seen n rest, take_digits s acc seen = Some (n, rest) ->
  exists u, s = u ++ rest /\ forallb nonparen u = true.
Proof.
  induction s as [|c s IH]; intros acc seen n rest H; cbn [take_digits] in H.
  - destruct seen; [|discriminate]. inversion H; subst. exists []. split; reflexivity.
  - destruct (is_digit c) eqn:Ed.
    + apply IH in H. destruct H as (u & -> & Hu). exists (c :: u). split; [reflexivity|]. cbn [forallb]. rewrite (digit_nonparen c Ed), Hu. reflexivity.
    + destruct seen; [|discriminate]. inversion H; subst. exists []. split; reflexivity.
Qed.

Lemma wrap_quant_plain g s r' s'' : wrap_quant g s = (r', s'') -> exists u, s = u ++ s'' /\ forallb nonparen u = true.
Proof.
  destruct s as [|c s]; cbn [wrap_quant]; [intros H; inversion H; subst; exists []; split; reflexivity|].
  destruct (N.eqb c ch_q) eqn:E; intros H; inversion H; subst.
  - exists [c]. split; [reflexivity|]. cbn [forallb]. rewrite (nonparen_of_eq c ch_q E eq_refl). reflexivity.
  - exists []. split; reflexivity.
Qed.

Lemma quant_one_plain r c s' r' s'' : quant_one r c s' = Some (Some (r', s'')) ->
  exists u, s' = u ++ s'' /\ forallb nonparen (c :: u) = true.
Proof.
  unfold quant_one.
  assert (Hw : forall g s, nonparen c = true -> Some (Some (wrap_quant g s)) = Some (Some (r', s'')) ->
            exists u, s = u ++ s'' /\ forallb nonparen (c :: u) = true).
  { intros g s Hc H. inversion H as [H']. apply wrap_quant_plain in H'. destruct H' as (u & -> & Hu). exists u. split; [reflexivity|].
    cbn [forallb]. rewrite Hc, Hu. reflexivity. }
  destruct (N.eqb c ch_star) eqn:E1; [apply Hw; apply (nonparen_of_eq c ch_star E1 eq_refl)|].
  destruct (N.eqb c ch_plus) eqn:E2; [apply Hw; apply (nonparen_of_eq c ch_plus E2 eq_refl)|].
  destruct (N.eqb c ch_q) eqn:E3; [apply Hw; apply (nonparen_of_eq c ch_q E3 eq_refl)|].
  destruct (N.eqb c ch_lbrace) eqn:E4; [|discriminate].
  pose proof (nonparen_of_eq c ch_lbrace E4 eq_refl) as Hc.
  destruct (take_digits s' 0 false) as [[lo s1]|] eqn:Et; [|discriminate].
  apply take_digits_plain in Et. destruct Et as (ud & -> & Hud).
  destruct s1 as [|d s2]; [discriminate|].
  destruct (N.eqb d ch_rbrace) eqn:Ed.
  { intros H. inversion H as [H']. apply wrap_quant_plain in H'. destruct H' as (u & -> & Hu).
    exists (ud ++ d :: u). split; [rewrite <- app_assoc; reflexivity|]. cbn [forallb]. rewrite Hc, forallb_app, Hud. cbn [forallb].
    rewrite (nonparen_of_eq d ch_rbrace Ed eq_refl), Hu. reflexivity. }
  destruct (N.eqb d ch_comma) eqn:Ec; [|discriminate].
  pose proof (nonparen_of_eq d ch_comma Ec eq_refl) as Hd.
  destruct s2 as [|e s3]; [discriminate|].
  destruct (N.eqb e ch_rbrace) eqn:Ee.
  { intros H. inversion H as [H']. apply wrap_quant_plain in H'. destruct H' as (u & -> & Hu).
    exists (ud ++ d :: e :: u). split; [rewrite <- app_assoc; reflexivity|]. cbn [forallb]. rewrite Hc, forallb_app, Hud. cbn [forallb].
    rewrite Hd, (nonparen_of_eq e ch_rbrace Ee eq_refl), Hu. reflexivity. }
  destruct (take_digits (e :: s3) 0 false) as [[hi s4]|] eqn:Et2; [|discriminate].
  apply take_digits_plain in Et2. destruct Et2 as (ud2 & Eud2 & Hud2).
  destruct s4 as [|z s5]; [discriminate|].
  destruct (N.eqb z ch_rbrace && Nat.leb lo hi) eqn:Ez; [|discriminate].
  apply andb_prop in Ez. destruct Ez as [Ez _].
  intros H. inversion H as [H']. apply wrap_quant_plain in H'. destruct H' as (u & -> & Hu).
  exists (ud ++ d :: ud2 ++ z :: u). split; [rewrite <- app_assoc; cbn [app]; rewrite Eud2, <- app_assoc; reflexivity|].
  cbn [forallb]. rewrite Hc, forallb_app, Hud. cbn [forallb]. rewrite Hd, forallb_app, Hud2. cbn [forallb].
  rewrite (nonparen_of_eq z ch_rbrace Ez eq_refl), Hu. reflexivity.
Qed.

Lemma parse_quants_plain F : forall r s r' rest, parse_quants F r s = Some (r', rest) ->
  exists u, s = u ++ rest /\ forallb nonparen u = true.
Proof.
  induction F as [|F IH]; intros r s r' rest H; [discriminate|].
  destruct s as [|c s']; [cbn [parse_quants] in H; inversion H; subst; exists []; split; reflexivity|].
  rewrite parse_quants_S in H. destruct (quant_one r c s') as [[[r1 s1]|]|] eqn:Eq; [| |discriminate].
  - destruct (quant_one_plain _ _ _ _ _ Eq) as (u1 & -> & Hu1). apply IH in H. destruct H as (u2 & -> & Hu2).
    exists (c :: u1 ++ u2). split; [cbn [app]; rewrite app_assoc; reflexivity|].
    cbn [forallb] in *. apply andb_prop in Hu1. destruct Hu1 as [Hc Hu1]. rewrite Hc, forallb_app, Hu1, Hu2. reflexivity.
  - inversion H; subst. exists []. split; reflexivity.
Qed.

(* ================================================================== escapes *)
(* characters that leave the scanner where it is, outside a class and inside one *)
Definition namec (c : N) : bool := nonparen c && negb (N.eqb c 45) && negb (N.eqb c 93).
Lemma namec_nonparen c : namec c = true -> nonparen c = true.
Proof. unfold namec. intros H. apply andb_prop in H. destruct H as [H _]. apply andb_prop in H. tauto. Qed.
Lemma forallb_namec_nonparen u : forallb namec u = true -> forallb nonparen u = true.
Proof. induction u as [|c u IH]; cbn [forallb]; [reflexivity|]. intros H. apply andb_prop in H. destruct H as [H1 H2]. rewrite (namec_nonparen c H1), (IH H2). reflexivity. Qed.

Lemma name_char_namec c : is_name_char c = true -> namec c = true.
Proof.
  intros H. destruct (namec c) eqn:E; [reflexivity|]. exfalso. unfold namec, nonparen in E.
  repeat (apply andb_false_iff in E; destruct E as [E|E]);
    apply negb_false_iff in E; apply N.eqb_eq in E; subst c; discriminate H.
Qed.

Lemma take_until_rbrace_namec s : forall acc nm rest, take_until_rbrace s acc = Some (nm, rest) ->
  exists u, s = u ++ rest /\ forallb namec u = true.
Proof.
  induction s as [|c s IH]; intros acc nm rest H; cbn [take_until_rbrace] in H; [discriminate|].
  destruct (N.eqb c ch_rbrace) eqn:E.
  - inversion H; subst. exists [c]. split; [reflexivity|]. apply N.eqb_eq in E. subst c. reflexivity.
  - destruct (is_name_char c) eqn:En; [|discriminate]. apply IH in H. destruct H as (u & -> & Hu). exists (c :: u).
    split; [reflexivity|]. cbn [forallb]. rewrite (name_char_namec c En), Hu. reflexivity.
Qed.

Lemma parse_cat_name_namec s nm rest : parse_cat_name s = Some (nm, rest) -> exists u, s = u ++ rest /\ forallb namec u = true.
Proof.
  destruct s as [|c s]; cbn [parse_cat_name]; [discriminate|]. intros H. destruct (N.eqb c ch_lbrace) eqn:E.
  - apply take_until_rbrace_namec in H. destruct H as (u & -> & Hu). exists (c :: u). split; [reflexivity|].
    cbn [forallb]. rewrite Hu. apply N.eqb_eq in E. subst c. reflexivity.
  - destruct (in_range 97 122 c || in_range 65 90 c) eqn:El; [|discriminate]. inversion H; subst. exists [c]. split; [reflexivity|].
    cbn [forallb]. rewrite name_char_namec; [reflexivity|]. unfold is_name_char. apply orb_prop in El. destruct El as [El|El]; rewrite El; [reflexivity|rewrite orb_true_r; reflexivity].
Qed.

(* an escape consumes one character and, for a property, a name the scanner does not see *)
Lemma parse_escape_shape s it rest : parse_escape s = Some (it, rest) ->
  exists x w, s = x :: w ++ rest /\ forallb namec w = true.
Proof.
  destruct s as [|c s]; [discriminate|]. unfold parse_escape.
  repeat match goal with
         | |- (if N.eqb c ?v then Some (?i, s) else _) = _ -> _ =>
             destruct (N.eqb c v); [intros H; inversion H; subst; exists c, []; split; reflexivity|]
         end.
  destruct (N.eqb c 112).
  { destruct (parse_cat_name s) as [[nm r]|] eqn:En; [|discriminate]. intros H. inversion H; subst.
    apply parse_cat_name_namec in En. destruct En as (u & -> & Hu). exists c, u. split; [reflexivity|exact Hu]. }
  destruct (N.eqb c 80).
  { destruct (parse_cat_name s) as [[nm r]|] eqn:En; [|discriminate]. intros H. inversion H; subst.
    apply parse_cat_name_namec in En. destruct En as (u & -> & Hu). exists c, u. split; [reflexivity|exact Hu]. }
  destruct (is_meta_char c); [|discriminate]. intros H. inversion H; subst. exists c, []. split; reflexivity.
Qed.

(* ================================================================== inside a bracket class *)
Definition SE (l : Z) : sc := {| esc := true; lvl := l; cl := 1; cs := 0; cr := false |}.

(* an unescaped character that is an item of the class (not an opening bracket unless it ends a range, not a closing
   one unless in first position, not the caret right after the opening bracket) *)
Lemma step_item l st0 r c : (r = true -> st0 = 0) -> (r = false -> N.eqb c LB = false) -> N.eqb c BS = false ->
  (N.eqb c RB = true -> st0 <> 0 /\ r = false) -> (N.eqb c CARET = true -> st0 <> 2) ->
  sc_step (SC l st0 r) c = SC l 0 (negb r && N.eqb c MINUS && Nat.eqb st0 0).
Proof.
  intros Hr Hlb Hbs Hrb Hca. unfold sc_step, SC. cbn [Prefix.esc Prefix.lvl Prefix.cl Prefix.cs Prefix.cr Nat.ltb Nat.leb negb].
  rewrite Hbs.
  destruct r; [rewrite (Hr eq_refl)|rewrite (Hlb eq_refl)];
    destruct (N.eqb c RB) eqn:E1; destruct (N.eqb c CARET) eqn:E2; destruct (N.eqb c MINUS) eqn:E3;
    try (destruct (Hrb eq_refl) as [Hx Hy]; try discriminate Hy);
    try (pose proof (Hca eq_refl) as Hz);
    try solve [exfalso; unfold RB, CARET, MINUS in *;
               repeat match goal with E : N.eqb c _ = true |- _ => apply N.eqb_eq in E end; subst; discriminate];
    try (destruct st0 as [|[|[|n]]]); cbn [andb negb Nat.eqb Nat.pred]; try reflexivity; try contradiction.
Qed.
Lemma step_cls_bs l st0 r : (r = true -> st0 = 0) -> sc_step (SC l st0 r) BS = SE l.
Proof. intros Hr. destruct r; [rewrite (Hr eq_refl); reflexivity|]. unfold sc_step, SC, SE. cbn. reflexivity. Qed.
Lemma step_cls_escaped l x : sc_step (SE l) x = SC l 0 false.
Proof. unfold sc_step, SE, SC. cbn [Prefix.esc Prefix.lvl Prefix.cl Prefix.cs Prefix.cr Nat.ltb Nat.leb negb]. rewrite andb_false_r. reflexivity. Qed.
Lemma step_cls_namec l c : namec c = true -> sc_step (SC l 0 false) c = SC l 0 false.
Proof.
  unfold namec, nonparen. intros H. repeat (apply andb_prop in H; destruct H as [H ?]).
  repeat match goal with E : negb _ = true |- _ => apply negb_true_iff in E end.
  rewrite (step_item l 0 false c); unfold LB, BS, RB, CARET, MINUS; try assumption; try discriminate.
  - match goal with E : N.eqb c 45 = false |- _ => rewrite E end. reflexivity.
  - intros _. assumption.
  - intros E. match goal with E' : N.eqb c 93 = false |- _ => rewrite E' in E end. discriminate.
Qed.

(* running the scanner over a piece of class text, from inside the class to inside the class *)
Definition cls_run (l : Z) (st0 : nat) (r : bool) (v : list N) (r' : bool) : Prop :=
  forall R, body_ok_from (SC l st0 r) (v ++ R) = body_ok_from (SC l 0 r') R.
Lemma cls_run_app l st0 r v1 r1 v2 r2 : cls_run l st0 r v1 r1 -> cls_run l 0 r1 v2 r2 -> cls_run l st0 r (v1 ++ v2) r2.
Proof. intros H1 H2 R. rewrite <- app_assoc, H1, H2. reflexivity. Qed.
Lemma cls_run_one l st0 r c r' : (1 <= l)%Z -> sc_step (SC l st0 r) c = SC l 0 r' -> cls_run l st0 r [c] r'.
Proof. intros Hl E R. cbn [app]. apply bo_step; [exact E|exact Hl]. Qed.
Lemma cls_run_esc l st0 r x : (1 <= l)%Z -> (r = true -> st0 = 0) -> cls_run l st0 r [BS; x] false.
Proof.
  intros Hl Hr R. cbn [app]. rewrite (bo_step _ BS (SE l) _ (step_cls_bs l st0 r Hr) Hl).
  apply bo_step; [apply step_cls_escaped|exact Hl].
Qed.
Lemma cls_run_names l w : (1 <= l)%Z -> forallb namec w = true -> cls_run l 0 false w false.
Proof.
  intros Hl. induction w as [|c w IH]; intros H R; [reflexivity|]. cbn [forallb] in H. apply andb_prop in H. destruct H as [Hc Hw].
  cbn [app]. rewrite (bo_step _ c _ _ (step_cls_namec l c Hc) Hl). apply IH. exact Hw.
Qed.

(* what [first] means for the scanner: class_start is 2 (and no caret follows) or 1; otherwise 0 *)
Definition pre (first : bool) (st0 : nat) (r : bool) (s : list N) : Prop :=
  if first then r = false /\ (st0 = 1 \/ (st0 = 2 /\ hd_error s <> Some ch_caret)) else st0 = 0.
Lemma pre_r first st0 r s : pre first st0 r s -> r = true -> st0 = 0.
Proof. unfold pre. destruct first; [intros [-> _]; discriminate|intros -> _; reflexivity]. Qed.

(* one item of a class *)
Lemma class_item_run l first st0 r c s' it r1 : (1 <= l)%Z ->
  (N.eqb c ch_rbrack && negb first) = false -> pre first st0 r (c :: s') -> class_item c s' = Some (it, r1) ->
  exists v r', s' = v ++ r1 /\ cls_run l st0 r (c :: v) r' /\ (r' = true -> c = ch_minus /\ r1 = s').
Proof.
  intros Hl E1 Hpre. unfold class_item. destruct (N.eqb c ch_bs) eqn:Ebs.
  - intros H. apply parse_escape_shape in H. destruct H as (x & w & -> & Hw). exists (x :: w), false.
    split; [reflexivity|]. split; [|discriminate]. apply N.eqb_eq in Ebs. subst c.
    change (ch_bs :: x :: w) with ([BS; x] ++ w). eapply cls_run_app; [apply cls_run_esc; [exact Hl|exact (pre_r _ _ _ _ Hpre)]|apply cls_run_names; assumption].
  - destruct (N.eqb c ch_lbrack) eqn:Elb; [discriminate|]. intros H. inversion H; subst.
    exists [], (negb r && N.eqb c MINUS && Nat.eqb st0 0). split; [reflexivity|]. split.
    + apply cls_run_one; [exact Hl|]. apply step_item.
      * exact (pre_r _ _ _ _ Hpre).
      * intros _. exact Elb.
      * exact Ebs.
      * intros Erb. change RB with ch_rbrack in Erb. rewrite Erb in E1. cbn [andb] in E1. apply negb_false_iff in E1. subst first.
        destruct Hpre as [-> [->|[-> _]]]; split; try reflexivity; discriminate.
      * intros Eca. unfold pre in Hpre. destruct first; [|subst st0; discriminate].
        destruct Hpre as [_ [->|[-> Hh]]]; [discriminate|]. exfalso. apply Hh. apply N.eqb_eq in Eca. subst c. reflexivity.
    + intros Hr'. apply andb_prop in Hr'. destruct Hr' as [Hr' _]. apply andb_prop in Hr'. destruct Hr' as [_ Hm].
      apply N.eqb_eq in Hm. split; [exact Hm|reflexivity].
Qed.

(* the end of a range, after the dash *)
Lemma class_hi_run l e r3 it r4 : (1 <= l)%Z -> N.eqb e ch_rbrack = false -> class_hi e r3 = Some (it, r4) ->
  exists v, r3 = v ++ r4 /\ cls_run l 0 true (e :: v) false.
Proof.
  intros Hl Erb. unfold class_hi. destruct (N.eqb e ch_bs) eqn:Ebs.
  - intros H. apply parse_escape_shape in H. destruct H as (x & w & -> & Hw). exists (x :: w). split; [reflexivity|].
    apply N.eqb_eq in Ebs. subst e. change (ch_bs :: x :: w) with ([BS; x] ++ w).
    eapply cls_run_app; [apply cls_run_esc; [exact Hl|reflexivity]|apply cls_run_names; assumption].
  - intros H. inversion H; subst. exists []. split; [reflexivity|].
    apply cls_run_one; [exact Hl|]. rewrite (step_item l 0 true e); [reflexivity|reflexivity|discriminate|exact Ebs| |discriminate].
    intros E. change RB with ch_rbrack in E. rewrite E in Erb. discriminate.
Qed.

(* the whole class: from just after the opening bracket (and caret) to just after the closing one *)
Theorem parse_class_run F : forall s acc first items rest, parse_class F s acc first = Some (items, rest) ->
  exists u, s = u ++ rest /\
    forall l st0 r R, (1 <= l)%Z -> pre first st0 r s -> body_ok_from (SC l st0 r) (u ++ R) = body_ok_from (S0 l) R.
Proof.
  induction F as [|F IH]; intros s acc first items rest H; [discriminate|].
  destruct s as [|c s']; [discriminate|]. rewrite parse_class_S in H.
  destruct (N.eqb c ch_rbrack && negb first) eqn:E1.
  { inversion H; subst. exists [c]. split; [reflexivity|]. intros l st0 r R Hl Hpre.
    apply andb_prop in E1. destruct E1 as [Ec Ef]. apply negb_true_iff in Ef. subst first. cbn [pre] in Hpre. subst st0.
    apply N.eqb_eq in Ec. subst c. cbn [app]. apply bo_step; [apply step_class_close|exact Hl]. }
  destruct (setop_at c s') eqn:Eso; [discriminate|].
  destruct (class_item c s') as [[it r1]|] eqn:Ei; [|discriminate].
  (* after the item, the rest of the class from state (0, r') *)
  assert (Hcont : forall u2, (forall l r' R, (1 <= l)%Z -> body_ok_from (SC l 0 r') (u2 ++ R) = body_ok_from (S0 l) R) ->
            forall v, (forall l st0 r, (1 <= l)%Z -> pre first st0 r (c :: s') -> exists r', cls_run l st0 r (c :: v) r') ->
            forall l st0 r R, (1 <= l)%Z -> pre first st0 r (c :: s') ->
              body_ok_from (SC l st0 r) (((c :: v) ++ u2) ++ R) = body_ok_from (S0 l) R).
  { intros u2 Hu2 v Hv l st0 r R Hl Hpre. destruct (Hv l st0 r Hl Hpre) as [r' Hr']. rewrite <- app_assoc, Hr'. apply Hu2. exact Hl. }
  assert (Hih : forall it' r0, parse_class F r0 (it' :: acc) false = Some (items, rest) ->
            exists u2, r0 = u2 ++ rest /\ forall l r' R, (1 <= l)%Z -> body_ok_from (SC l 0 r') (u2 ++ R) = body_ok_from (S0 l) R).
  { intros it' r0 H'. destruct (IH _ _ _ _ _ H') as (u2 & E & Hu2). exists u2. split; [exact E|]. intros l r' R Hl. apply Hu2; [exact Hl|reflexivity]. }
  assert (Hitem : forall l st0 r, (1 <= l)%Z -> pre first st0 r (c :: s') ->
            exists v r', s' = v ++ r1 /\ cls_run l st0 r (c :: v) r' /\ (r' = true -> c = ch_minus /\ r1 = s')).
  { intros l st0 r Hl Hpre. exact (class_item_run l first st0 r c s' it r1 Hl E1 Hpre Ei). }
  (* the consumed part of the item does not depend on the scanner state *)
  destruct (class_item_repl _ _ _ _ Ei) as (v & Ev & _).
  assert (Hv : forall l st0 r, (1 <= l)%Z -> pre first st0 r (c :: s') -> exists r', cls_run l st0 r (c :: v) r' /\ (r' = true -> c = ch_minus /\ r1 = s')).
  { intros l st0 r Hl Hpre. destruct (Hitem l st0 r Hl Hpre) as (v' & r' & Ev' & Hrun & Hr'). exists r'.
    assert (v' = v) as -> by (apply (app_inv_tail r1); congruence). split; assumption. }
  assert (Hgen : forall it', parse_class F r1 (it' :: acc) false = Some (items, rest) ->
            exists u, c :: s' = u ++ rest /\
              forall l st0 r R, (1 <= l)%Z -> pre first st0 r (c :: s') -> body_ok_from (SC l st0 r) (u ++ R) = body_ok_from (S0 l) R).
  { intros it' H'. destruct (Hih _ _ H') as (u2 & E2 & Hu2). exists ((c :: v) ++ u2).
    split; [cbn [app]; rewrite <- app_assoc, <- E2, <- Ev; reflexivity|].
    apply (Hcont u2 Hu2 v). intros l st0 r Hl Hpre. destruct (Hv l st0 r Hl Hpre) as (r' & Hr & _). exists r'. exact Hr. }
  destruct it as [lo|lo0 hi0|ng nm|ng|ng|ng]; try (apply (Hgen _ H)).
  destruct r1 as [|d r2]; [discriminate|].
  destruct (N.eqb d ch_minus) eqn:Ed; [|apply (Hgen _ H)].
  destruct r2 as [|e r3]; [discriminate|]. destruct (N.eqb e ch_rbrack) eqn:Ee; [apply (Hgen _ H)|].
  destruct (N.eqb e ch_minus) eqn:Em; [discriminate|].
  destruct (class_hi e r3) as [[ith r4]|] eqn:Eh; [|discriminate].
  destruct ith as [hi|lo0 hi0|ng nm|ng|ng|ng]; try discriminate.
  destruct (N.leb lo hi) eqn:Ele; [|discriminate].
  destruct (Hih _ _ H) as (u3 & E3 & Hu3).
  destruct (class_hi_repl _ _ _ _ Eh) as (vh & Evh & _).
  exists ((c :: v ++ d :: e :: vh) ++ u3). split.
  { cbn [app]. rewrite <- !app_assoc. cbn [app]. rewrite <- E3, <- Evh, <- Ev. reflexivity. }
  apply (Hcont u3 Hu3 (v ++ d :: e :: vh)). intros l st0 r Hl Hpre.
  destruct (Hv l st0 r Hl Hpre) as (r' & Hr & Hr').
  assert (r' = false) as ->.
  { destruct r'; [|reflexivity]. destruct (Hr' eq_refl) as [Hc Hs]. exfalso.
    (* the item is a raw minus followed by a minus: rejected as a set operator *)
    subst c. rewrite <- Hs in Eso. apply N.eqb_eq in Ed. subst d. discriminate Eso. }
  destruct (class_hi_run l e r3 (CChar hi) r4 Hl Ee Eh) as (vh' & Evh' & Hh).
  assert (vh' = vh) as -> by (apply (app_inv_tail r4); congruence).
  exists false. change (c :: v ++ d :: e :: vh) with ((c :: v) ++ [d] ++ (e :: vh)).
  eapply cls_run_app; [exact Hr|]. eapply cls_run_app; [|exact Hh].
  apply cls_run_one; [exact Hl|]. apply N.eqb_eq in Ed. subst d.
  rewrite (step_item l 0 false ch_minus); [reflexivity|discriminate|reflexivity|reflexivity|discriminate|discriminate].
Qed.

(* ================================================================== atoms, concatenation, alternation *)
Definition alt_ag (F : nat) : Prop :=
  forall s gi r rest gi', parse_alt F s gi = Some (r, rest, gi') -> exists u, s = u ++ rest /\ bal u.
Definition cat_ag (F : nat) : Prop :=
  forall s gi acc r rest gi', parse_cat F s gi acc = Some (r, rest, gi') -> exists u, s = u ++ rest /\ bal u.

Lemma bal_S0 u : (forall l R, (1 <= l)%Z -> body_ok_from (S0 l) (u ++ R) = body_ok_from (S0 l) R) -> bal u.
Proof.
  intros H st R He Hk Hs Hr Hl. destruct st as [e l k c0 r]. cbn [Prefix.esc Prefix.lvl Prefix.cl Prefix.cs Prefix.cr] in *. subst.
  apply (H l R Hl).
Qed.

Lemma group_agree F s' gi a rest g : alt_ag F ->
  atom_of (parse_alt F) (parse_class F) ch_lparen s' gi = Some (a, rest, g) ->
  exists u0, s' = u0 ++ ch_rparen :: rest /\ bal u0.
Proof.
  intros HA. unfold atom_of. change (N.eqb ch_lparen ch_lparen) with true. cbv iota.
  assert (Hc : forall idx s0 g0, match parse_alt F s0 g0 with
                 | Some (r, rp :: rest1, gi1) => if N.eqb rp ch_rparen then Some (RGroup idx r, rest1, gi1) else None
                 | _ => None
                 end = Some (a, rest, g) -> exists u0, s0 = u0 ++ ch_rparen :: rest /\ bal u0).
  { intros idx s0 g0 H. apply close_inv in H. destruct H as (r & Hr & _). exact (HA _ _ _ _ _ Hr). }
  destruct s' as [|q [|k s2]]; [apply Hc|apply Hc|].
  destruct (N.eqb q ch_q && N.eqb k ch_colon) eqn:E.
  - intros H. destruct (Hc _ _ _ H) as (u2 & -> & Hu2). apply andb_prop in E. destruct E as [Eq Ek].
    apply N.eqb_eq in Eq, Ek. subst q k. exists (ch_q :: ch_colon :: u2). split; [reflexivity|].
    change (ch_q :: ch_colon :: u2) with ([ch_q; ch_colon] ++ u2). apply bal_app; [apply bal_plain; reflexivity|exact Hu2].
  - destruct (N.eqb q ch_q); [discriminate|apply Hc].
Qed.

Lemma atom_agree F c s' gi a rest g : alt_ag F -> (N.eqb c ch_bar || N.eqb c ch_rparen) = false ->
  atom_of (parse_alt F) (parse_class F) c s' gi = Some (a, rest, g) ->
  exists u, s' = u ++ rest /\ bal (c :: u).
Proof.
  intros HA Hstop H. destruct (N.eqb c ch_lparen) eqn:E40.
  { apply N.eqb_eq in E40. subst c. destruct (group_agree _ _ _ _ _ _ HA H) as (u0 & -> & Hu0).
    exists (u0 ++ [ch_rparen]). split; [rewrite <- app_assoc; reflexivity|]. apply (bal_group u0 Hu0). }
  revert H. unfold atom_of. rewrite E40.
  destruct (N.eqb c ch_lbrack) eqn:E91.
  { apply N.eqb_eq in E91. subst c. destruct s' as [|n s2]; [discriminate|]. destruct (N.eqb n ch_caret) eqn:En.
    - destruct (parse_class F s2 [] true) as [[items rest1]|] eqn:Ec; [|discriminate]. intros H. inversion H; subst.
      destruct (parse_class_run _ _ _ _ _ _ Ec) as (u & -> & Hu). apply N.eqb_eq in En. subst n.
      exists (ch_caret :: u). split; [reflexivity|]. apply bal_S0. intros l R Hl. cbn [app].
      rewrite (bo_step (S0 l) ch_lbrack (SC l 2 false) _ eq_refl Hl), (bo_step (SC l 2 false) ch_caret (SC l 1 false) _ eq_refl Hl).
      apply Hu; [exact Hl|]. split; [reflexivity|left; reflexivity].
    - destruct (parse_class F (n :: s2) [] true) as [[items rest1]|] eqn:Ec; [|discriminate]. intros H. inversion H; subst.
      destruct (parse_class_run _ _ _ _ _ _ Ec) as (u & E & Hu). exists u. split; [exact E|]. apply bal_S0. intros l R Hl. cbn [app].
      rewrite (bo_step (S0 l) ch_lbrack (SC l 2 false) _ eq_refl Hl). apply Hu; [exact Hl|]. split; [reflexivity|right]. split; [reflexivity|].
      cbn [hd_error]. intros E'. inversion E'; subst n. discriminate En. }
  assert (Hplain : forall k, N.eqb c k = true -> nonparen k = true -> Some (a, rest, g) = Some (a, rest, g) -> s' = rest ->
            exists u, s' = u ++ rest /\ bal (c :: u)).
  { intros k Ek Hk _ Es. exists []. split; [exact Es|]. apply bal_plain. cbn [forallb]. rewrite (nonparen_of_eq c k Ek Hk). reflexivity. }
  destruct (N.eqb c ch_dot) eqn:E46; [intros H; inversion H; subst; apply (Hplain ch_dot E46 eq_refl eq_refl eq_refl)|].
  destruct (N.eqb c ch_caret) eqn:E94; [intros H; inversion H; subst; apply (Hplain ch_caret E94 eq_refl eq_refl eq_refl)|].
  destruct (N.eqb c ch_dollar) eqn:E36; [intros H; inversion H; subst; apply (Hplain ch_dollar E36 eq_refl eq_refl eq_refl)|].
  destruct (N.eqb c ch_bs) eqn:E92.
  { destruct (parse_escape s') as [[it rest1]|] eqn:Ee; [|discriminate]. apply parse_escape_shape in Ee. destruct Ee as (x & w & -> & Hw).
    intros H. assert (rest1 = rest) as -> by (destruct it; inversion H; reflexivity).
    exists (x :: w). split; [reflexivity|]. apply N.eqb_eq in E92. subst c. change (ch_bs :: x :: w) with ([BS; x] ++ w).
    apply bal_app; [apply bal_esc|apply bal_plain; apply forallb_namec_nonparen; exact Hw]. }
  destruct (N.eqb c ch_star || N.eqb c ch_plus || N.eqb c ch_q); [discriminate|].
  destruct (N.eqb c ch_lbrace); [discriminate|].
  intros H. inversion H; subst. exists []. split; [reflexivity|]. apply bal_plain. cbn [forallb].
  apply orb_false_iff in Hstop. destruct Hstop as [_ E41]. unfold nonparen.
  change 40%N with ch_lparen. change 41%N with ch_rparen. change 92%N with ch_bs. change 91%N with ch_lbrack.
  rewrite E40, E41, E92, E91. reflexivity.
Qed.

Theorem parse_agree F : alt_ag F /\ cat_ag F.
Proof.
  induction F as [|F [IHA IHC]]; [split; [intros ? ? ? ? ? H|intros ? ? ? ? ? ? H]; discriminate|]. split.
  - intros s gi r rest gi' H. rewrite parse_alt_S in H.
    destruct (parse_cat F s gi REmpty) as [[[r1 rest1] gi1]|] eqn:Ec; [|discriminate].
    destruct (IHC _ _ _ _ _ _ Ec) as (u1 & -> & Hu1).
    destruct rest1 as [|c rest1']; [inversion H; subst; exists u1; split; [reflexivity|exact Hu1]|].
    destruct (N.eqb c ch_bar) eqn:Eb; [|inversion H; subst; exists u1; split; [reflexivity|exact Hu1]].
    destruct (parse_alt F rest1' gi1) as [[[r2 rest2] gi2]|] eqn:Ea; [|discriminate]. inversion H; subst.
    destruct (IHA _ _ _ _ _ Ea) as (u2 & -> & Hu2).
    exists (u1 ++ [c] ++ u2). split; [rewrite <- !app_assoc; reflexivity|].
    apply bal_app; [exact Hu1|]. apply bal_app; [|exact Hu2]. apply bal_plain. cbn [forallb]. rewrite (nonparen_of_eq c ch_bar Eb eq_refl). reflexivity.
  - intros s gi acc r rest gi' H. rewrite parse_cat_S in H.
    destruct s as [|c s']; [inversion H; subst; exists []; split; [reflexivity|apply bal_nil]|].
    destruct (N.eqb c ch_bar || N.eqb c ch_rparen) eqn:Es; [inversion H; subst; exists []; split; [reflexivity|apply bal_nil]|].
    destruct (atom_of (parse_alt F) (parse_class F) c s' gi) as [[[a rest1] gi1]|] eqn:Eat; [|discriminate].
    destruct (atom_agree _ _ _ _ _ _ _ IHA Es Eat) as (u1 & -> & Hu1).
    destruct (parse_quants F a rest1) as [[a' rest2]|] eqn:Eq; [|discriminate].
    destruct (parse_quants_plain _ _ _ _ _ Eq) as (u2 & -> & Hu2).
    destruct (IHC _ _ _ _ _ _ H) as (u3 & -> & Hu3).
    exists ((c :: u1) ++ u2 ++ u3). split; [cbn [app]; rewrite <- !app_assoc; reflexivity|].
    apply bal_app; [exact Hu1|]. apply bal_app; [apply bal_plain; exact Hu2|exact Hu3].
Qed.

(* ================================================================== tokens *)
Lemma body_unique (b u0 y rest : list N) : body_ok_from s1 b = true -> bal u0 ->
  b ++ RP :: y = u0 ++ RP :: rest -> u0 = b /\ rest = y.
Proof.
  intros Hb Hu E.
  assert (Hl : (1 <= lvl s1)%Z) by (cbn; lia).
  destruct (app_eq_prefix _ _ _ _ E) as [[x Hx]|[x Hx]].
  - subst u0. destruct x as [|c x]; [rewrite app_nil_r in *; apply app_inv_head in E; inversion E; auto|].
    exfalso. rewrite <- app_assoc in E. apply app_inv_head in E. cbn [app] in E. inversion E; subst c.
    pose proof (Hu s1 [] eq_refl eq_refl eq_refl eq_refl Hl) as Hbal. rewrite app_nil_r in Hbal.
    pose proof (eq_trans (eq_sym (body_ok_stops b s1 x Hb)) Hbal) as Hc. vm_compute in Hc. discriminate Hc.
  - subst b. destruct x as [|c x]; [rewrite app_nil_r in *; apply app_inv_head in E; inversion E; auto|].
    exfalso. rewrite <- app_assoc in E. apply app_inv_head in E. cbn [app] in E. inversion E; subst c.
    pose proof (eq_trans (eq_sym Hb) (Hu s1 (RP :: x) eq_refl eq_refl eq_refl eq_refl Hl)) as Hc.
    cbn [body_ok_from] in Hc. rewrite step1_RP in Hc. discriminate Hc.
Qed.

Lemma quants_after_token f a (y : list N) gi (acc : rx) (res : rx * list N * nat) : noquant y ->
  match parse_quants f a y with None => None | Some (a', rest') => parse_cat f rest' gi (cat acc a') end = Some res ->
  parse_cat f y gi (cat acc a) = Some res.
Proof.
  intros Hq H. destruct f as [|f]; [discriminate H|]. rewrite parse_quants_noquant in H; [exact H|exact Hq|lia].
Qed.

Lemma parse_cat_tokens ts : forall gi acc F res x, forallb tok_ok ts = true -> noquant x ->
  parse_cat F (render ts ++ x) gi acc = Some res -> exists l g, toks_atoms gi ts = Some (l, g).
Proof.
  induction ts as [|t ts IH]; intros gi acc F res x Hok Hq H; [exists [], gi; reflexivity|].
  cbn [forallb] in Hok. apply andb_prop in Hok. destruct Hok as [Ht Hts].
  destruct F as [|f]; [discriminate H|].
  change (render (t :: ts)) with (render1 t ++ render ts) in H. rewrite <- app_assoc in H.
  set (y := render ts ++ x) in *. assert (Hy : noquant y) by (apply noquant_render; exact Hq).
  assert (Hfin : forall a gi1, tok_atom gi t = Some (a, gi1) -> parse_cat f y gi1 (cat acc a) = Some res ->
            exists l g, toks_atoms gi (t :: ts) = Some (l, g)).
  { intros a gi1 Ea Hc. destruct (IH gi1 (cat acc a) f res x Hts Hq Hc) as (l & g & Hl). exists (a :: l), g. cbn [toks_atoms]. rewrite Ea, Hl. reflexivity. }
  destruct t as [c|b]; cbn [render1] in H.
  - destruct (is_meta c) eqn:Em; cbn [app] in H; rewrite parse_cat_S in H.
    + change (N.eqb BS ch_bar || N.eqb BS ch_rparen) with false in H. cbv iota in H.
      change BS with ch_bs in H. rewrite atom_of_bs, (escape_meta c y Em) in H.
      apply (Hfin (RChar c) gi eq_refl). apply quants_after_token; assumption.
    + destruct (nonmeta_eqbs c Em) as (E92 & E46 & E43 & E42 & E63 & E40 & E41 & E124 & _).
      unfold ch_bar, ch_rparen in H. rewrite E124, E41 in H. cbn [orb] in H. rewrite (atom_of_plain _ _ c y gi Em) in H.
      apply (Hfin (RChar c) gi eq_refl). apply quants_after_token; assumption.
  - cbn [tok_ok] in Ht.
    assert (Es : (LP :: b ++ [RP]) ++ y = ch_lparen :: (b ++ ch_rparen :: y)) by (cbn [app]; rewrite <- app_assoc; reflexivity).
    rewrite Es, parse_cat_S in H. change (N.eqb ch_lparen ch_bar || N.eqb ch_lparen ch_rparen) with false in H. cbv iota in H.
    destruct (atom_of (parse_alt f) (parse_class f) ch_lparen (b ++ ch_rparen :: y) gi) as [[[a rest1] gi1]|] eqn:Eat; [|discriminate H].
    destruct (group_agree _ _ _ _ _ _ (proj1 (parse_agree f)) Eat) as (u0 & Eu & Hu0).
    destruct (body_unique b u0 y rest1 Ht Hu0 Eu) as [-> ->].
    apply (Hfin a gi1 (tok_context_isolated f b y gi a gi1 Eat)). apply quants_after_token; assumption.
Qed.

(* in a valid rule regex every prefix.rs token parses in isolation *)
Theorem valid_toks_parse ic ts : forallb tok_ok ts = true ->
  rx_valid ic (ch_caret :: render ts ++ [ch_dollar]) = true -> toks_parse ts = true.
Proof.
  intros Hok. unfold rx_valid, parse. set (s := ch_caret :: render ts ++ [ch_dollar]). generalize (2 * length s + 4). intros F0.
  destruct (parse_alt F0 s 1) as [[[r rest] g]|] eqn:E; [|discriminate]. intros _.
  destruct F0 as [|[|f]]; [discriminate E|discriminate E|]. rewrite parse_alt_S in E.
  destruct (parse_cat (S f) s 1 REmpty) as [res|] eqn:Ec; [|discriminate E]. clear E. unfold s in Ec. rewrite parse_cat_S in Ec.
  change (N.eqb ch_caret ch_bar || N.eqb ch_caret ch_rparen) with false in Ec. cbv iota in Ec.
  change (atom_of (parse_alt f) (parse_class f) ch_caret (render ts ++ [ch_dollar]) 1) with (Some (RBol, render ts ++ [ch_dollar], 1)) in Ec.
  cbv iota beta in Ec. apply quants_after_token in Ec; [|apply noquant_render; exact noquant_dollar].
  destruct (parse_cat_tokens ts 1 _ f res [ch_dollar] Hok noquant_dollar Ec) as (l & g' & Hl).
  unfold toks_parse. rewrite Hl. reflexivity.
Qed.
