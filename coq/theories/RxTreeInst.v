(* RxTreeInst.v — the abstract prefix structure of RIO.TreeProofs / RIO.TreeReplace instantiated with the
   STRENGTHENED shapes of RIO.RxLaws: renderings of well-formed token lists whose tokens parse in isolation
   ([shape_x], [tpre_x]).  Every law is inherited from the prefix.rs instance (RIO.TreeInst, RIO.TreeReplace)
   because [firstn] preserves [toks_parse] and renderings are injective. *)
Require Import RIO.Base RIO.Prefix RIO.Tree RIO.TreeProofs RIO.TreeInst RIO.TreeReplace RIO.Rx RIO.RxToks RIO.RxLaws.
Close Scope N_scope.
Open Scope nat_scope.

Definition engine_prefix_law_x (eng : bool -> pat -> list N -> bool) : Prop :=
  forall ic p q s, tpre_x p q -> ML eng ic q s = true -> MN eng ic p s = true.

Lemma engine_prefix_law_c_x eng : engine_prefix_law eng -> engine_prefix_law_x eng.
Proof. intros H ic p q s Hpq. apply H. apply tpre_x_c. exact Hpq. Qed.

Theorem rx_engine_prefix_law_x : engine_prefix_law_x rx_is_match.
Proof. exact rx_engine_prefix_law_partial. Qed.

Lemma toks_okx_firstn ts k : toks_okx ts -> toks_okx (firstn k ts).
Proof. intros [H1 H2]. split; [apply toks_ok_firstn; exact H1|apply toks_parse_firstn; exact H2]. Qed.

Lemma tpre_shape_l_x p q : tpre_x p q -> shape_x p.
Proof. intros (ts & k & Hok & _ & Hp). exists (firstn k ts). split; [apply toks_okx_firstn; exact Hok|exact Hp]. Qed.
Lemma tpre_shape_r_x p q : tpre_x p q -> shape_x q.
Proof. intros (ts & k & Hok & Hq & _). exists ts. auto. Qed.

(* a prefix.rs token prefix of a strengthened shape is a strengthened token prefix *)
Lemma tpre_c_x p q : tpre_c p q -> shape_x q -> tpre_x p q.
Proof.
  intros (ts & k & Hok & Hq & Hp) (ts' & [Hok' Hpar] & Hq').
  assert (ts = ts') as -> by (apply render_inj; [exact Hok|exact Hok'|congruence]).
  exists ts', k. split; [split; assumption|]. split; assumption.
Qed.

Lemma tpre_trans_x a b c : tpre_x a b -> tpre_x b c -> tpre_x a c.
Proof. intros H1 H2. apply tpre_c_x; [|eapply tpre_shape_r_x; exact H2]. eapply tpre_trans_c; apply tpre_x_c; eassumption. Qed.
Lemma cut_l_x p q : shape_x p -> shape_x q -> tpre_x (take_c p (cp_c q p)) p.
Proof. intros Hp Hq. apply tpre_c_x; [|exact Hp]. apply cut_l_c; apply shape_x_c; assumption. Qed.
Lemma cut_r_x p q : shape_x p -> shape_x q -> tpre_x (take_c p (cp_c q p)) q.
Proof. intros Hp Hq. apply tpre_c_x; [|exact Hq]. apply cut_r_c; apply shape_x_c; assumption. Qed.
Lemma cut_l'_x p q : shape_x p -> shape_x q -> tpre_x (take_c p (cp_c p q)) p.
Proof. intros Hp Hq. apply tpre_c_x; [|exact Hp]. apply cut_l'_c; apply shape_x_c; assumption. Qed.
Lemma cut_r'_x p q : shape_x p -> shape_x q -> tpre_x (take_c p (cp_c p q)) q.
Proof. intros Hp Hq. apply tpre_c_x; [|exact Hq]. apply cut_r'_c; apply shape_x_c; assumption. Qed.
Lemma cp_pre_x p q : shape_x p -> shape_x q -> clen_c p <= cp_c q p -> tpre_x p q.
Proof. intros Hp Hq Hl. apply tpre_c_x; [|exact Hq]. apply cp_pre_c; [apply shape_x_c; exact Hp|apply shape_x_c; exact Hq|exact Hl]. Qed.
Lemma tpre_starts_x p q : tpre_x p q -> starts_with q p = true.
Proof. intros H. apply tpre_starts_c. apply tpre_x_c. exact H. Qed.

Lemma tpre_refl_x p : shape_x p -> tpre_x p p.
Proof. intros H. apply tpre_c_x; [|exact H]. apply tpre_refl_c. apply shape_x_c. exact H. Qed.
Lemma clen_mono_x p q : tpre_x p q -> clen_c p <= clen_c q.
Proof. intros H. apply clen_mono_c. apply tpre_x_c. exact H. Qed.
Lemma cp_ge_x p q : tpre_x p q -> clen_c p <= cp_c q p.
Proof. intros H. apply cp_ge_c. apply tpre_x_c. exact H. Qed.
Lemma cp_mono_x a' a b : tpre_x a' a -> shape_x b -> cp_c a' b <= cp_c a b.
Proof. intros H Hb. apply cp_mono_c; [apply tpre_x_c; exact H|apply shape_x_c; exact Hb]. Qed.
Lemma cp_ext_x a q b n : tpre_x a q -> shape_x b -> cp_c a b <= n -> n < clen_c a -> cp_c q b <= n.
Proof. intros H Hb. apply cp_ext_c; [apply tpre_x_c; exact H|apply shape_x_c; exact Hb]. Qed.
Lemma take_clen_x p q : shape_x p -> shape_x q -> clen_c (take_c p (cp_c q p)) = cp_c q p.
Proof. intros Hp Hq. apply take_clen_c; apply shape_x_c; assumption. Qed.
Lemma tpre_cmp_x a b c : tpre_x a c -> tpre_x b c -> clen_c a <= clen_c b -> tpre_x a b.
Proof.
  intros Ha Hb Hl. apply tpre_c_x; [|eapply tpre_shape_l_x; exact Hb].
  eapply tpre_cmp_c; [apply tpre_x_c; exact Ha|apply tpre_x_c; exact Hb|exact Hl].
Qed.

Ltac prxx := first [ exact tpre_trans_x | exact cut_l_x | exact cut_r_x | exact cut_l'_x | exact cut_r'_x
                   | exact tpre_shape_l_x | exact cp_pre_x | exact tpre_starts_x
                   | exact tpre_refl_x | exact tpre_shape_r_x | exact clen_mono_x | exact cp_sym_c | exact cp_ge_x
                   | exact cp_mono_x | exact cp_ext_x | exact take_clen_x | exact tpre_cmp_x | assumption ].

(* ------------------------------------------------------------------ the tree theorems for rx_is_match *)
Section RxTree.
Variable V : Type.
Variable valid : bool -> pat -> bool.

Theorem hist_find_rx ic (ops : list (op V)) s : hist_ok V shape_x [] ops ->
  Permutation (find V rx_is_match (tree_of V cp_c take_c clen_c valid ic ops) s)
              (map (value_of V) (filter (fun e => ML rx_is_match ic (fst e) s) (live V ops))).
Proof.
  exact (hist_find V cp_c take_c clen_c rx_is_match valid shape_x tpre_x tpre_trans_x cut_l_x cut_r_x cut_l'_x cut_r'_x
           tpre_shape_l_x cp_pre_x rx_engine_dotstar rx_engine_prefix_law_partial ic ops s).
Qed.

Theorem hist_find_r_rx ic (ops : list (op V)) s : hist_ok_r V shape_x [] ops ->
  Permutation (find V rx_is_match (tree_of V cp_c take_c clen_c valid ic ops) s)
              (map (value_of V) (filter (fun e => ML rx_is_match ic (fst e) s) (live_r V ops))).
Proof.
  intros. eapply hist_find_r; try eassumption; try prxx;
    try exact rx_engine_dotstar; try exact rx_engine_prefix_law_partial.
Qed.

Theorem hist_insert_replaces_rx ic (ops : list (op V)) p k v v0 s :
  hist_ok_r V shape_x [] ops -> In (p, (k, v0)) (live_r V ops) ->
  let t := tree_of V cp_c take_c clen_c valid ic ops in
  let t' := insert V cp_c take_c clen_c t p k v in
  let L' := replace_entry V p k v (live_r V ops) in
  Permutation (entries V t') L'
  /\ len V t' = len V t
  /\ Permutation (find V rx_is_match t' s) (map (value_of V) (filter (fun e => ML rx_is_match ic (fst e) s) L'))
  /\ Permutation (get V t' p) (map (value_of V) (filter (fun e => pat_eqb (fst e) p) L'))
  /\ In v (get V t' p)
  /\ (forall e, In e (entries V t') -> id_of V e = k -> e = (p, (k, v))).
Proof.
  intros H1 H2. eapply hist_insert_replaces; try eassumption; try prxx;
    try exact rx_engine_dotstar; try exact rx_engine_prefix_law_partial.
Qed.
End RxTree.

(* a history admissible for the strengthened shapes is admissible for the prefix.rs shapes *)
Lemma hist_ok_x_c V : forall (ops : list (op V)) L, hist_ok V shape_x L ops -> hist_ok V shape_c L ops.
Proof.
  induction ops as [|o ops IH]; intros L H; [exact H|]. destruct o; cbn [hist_ok] in *.
  all: try (destruct H as (H1 & H2); split; [|apply IH; exact H2]; try exact H1).
  all: try (apply IH; exact H).
  all: try (destruct H1 as (Ha & Hb); split; [apply shape_x_c; exact Ha|exact Hb]).
Qed.
