(* BodyProofs.v — the stages of RIO.HtmlFilter as total functions, so that the chain lemmas of RIO.ChainProofs apply. *)
Require Import RIO.Base RIO.TokMonad RIO.HtmlTok RIO.BodyText RIO.HtmlFilter RIO.ChainProofs.
Close Scope N_scope.

(* the total form of a stage's filter / end (the repaired HTML stage never fails) *)
Definition stage_tf (lower : str -> str) (sel : str -> str -> bool) (st : stage) (d : list N) : stage * list N :=
  match st with
  | StText t => let '(t', o) := text_filter t d in (StText t', o)
  | StHtml F => let '(F', o) := hfb_filter lower sel F d in (StHtml F', o)
  end.
Definition stage_te (st : stage) : stage * list N :=
  match st with
  | StText t => let '(t', o) := text_end t in (StText t', o)
  | StHtml F => let '(F', o) := hfb_end F in (StHtml F', o)
  end.

Lemma body_run_total lower sel ctok fs chunks :
  body_run lower sel ctok fs chunks = run stage (stage_tf lower sel) stage_te (stages_of ctok fs) chunks.
Proof.
  unfold body_run, run. generalize ({| fb_chain := stages_of ctok fs; fb_in_error := false |}). intros f.
  assert (Hf : forall (ch : list stage) d, chain_filter stage (stage_filter lower sel) ch d = chain_filter stage (fun s d => Some (stage_tf lower sel s d)) ch d).
  { induction ch as [|st ch IH]; intros d; cbn; [reflexivity|].
    assert (stage_filter lower sel st d = Some (stage_tf lower sel st d)) as ->.
    { destruct st; cbn; [destruct (text_filter t d)|destruct (hfb_filter lower sel F d)]; reflexivity. }
    destruct (stage_tf lower sel st d) as [st' o]. destruct (is_nil o); [reflexivity|]. rewrite IH. reflexivity. }
  assert (He : forall (ch : list stage) d, chain_end stage (stage_filter lower sel) stage_end ch d = chain_end stage (fun s d => Some (stage_tf lower sel s d)) (fun s => Some (stage_te s)) ch d).
  { induction ch as [|st ch IH]; intros d; cbn; [reflexivity|].
    assert (Hsf : forall x, stage_filter lower sel st x = Some (stage_tf lower sel st x)).
    { intros x. destruct st; cbn; [destruct (text_filter t x)|destruct (hfb_filter lower sel F x)]; reflexivity. }
    assert (Hse : forall s : stage, stage_end s = Some (stage_te s)).
    { intros s. destruct s; cbn; [destruct (text_end t)|]; reflexivity. }
    destruct d as [d|]; [rewrite Hsf; destruct (stage_tf lower sel st d) as [s1 o1]|]; rewrite Hse; destruct (stage_te _) as [s2 o2]; rewrite IH; reflexivity. }
  revert f. induction chunks as [|c cs IH]; intros f; cbn [fba_run].
  - unfold fba_end. destruct (fb_in_error f); [reflexivity|]. rewrite He. reflexivity.
  - unfold fba_filter. destruct (fb_in_error f); [rewrite IH; reflexivity|]. rewrite Hf.
    destruct (chain_filter stage _ (fb_chain f) c) as [[c' o]|]; rewrite IH; reflexivity.
Qed.


(* text stages satisfy the split law *)
Lemma text_stage_split lower sel t : split_law stage (stage_tf lower sel) (StText t).
Proof.
  intros c1 c2. cbn [stage_tf]. pose proof (text_split_law t c1 c2) as H.
  destruct (text_filter t c1) as [t1 o1]. cbn [stage_tf]. destruct (text_filter t1 c2) as [t2 o2]. rewrite <- H. reflexivity.
Qed.
