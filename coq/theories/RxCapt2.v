(* RxCapt2.v — what rx_captures returns on an anchored token chain is a valid parse of the haystack:
   [spans] walks the tokens; a literal matches the next character, the i-th capturing group (index gi) has its span
   recorded in the captures, starting where the previous token ended, accepted by the oracle G_rx. *)
Require Import RIO.Base RIO.Prefix RIO.RegexSem RIO.Marker RIO.Rx RIO.RxMatch RIO.RxParse RIO.RxToks RIO.RxGi RIO.RxLaws RIO.RxTokSem RIO.RxCapt.
Close Scope N_scope.
Open Scope nat_scope.

(* ------------------------------------------------------------------ ASTs without groups leave the captures alone *)
Fixpoint nogroup (r : rx) : bool :=
  match r with
  | RCat a b | RAlt a b => nogroup a && nogroup b
  | RStar _ a | RPlus _ a | ROpt _ a | RRep _ _ _ a => nogroup a
  | RGroup _ _ => false
  | _ => true
  end.
Lemma nogroup_erase r : nogroup (erase r) = nogroup r.
Proof. induction r; cbn [erase nogroup]; try reflexivity; try assumption; rewrite IHr1, IHr2; reflexivity. Qed.

Lemma star_cc_caps (R : cstate -> cstate -> Prop) : (forall s s', R s s' -> snd s' = snd s) -> forall s s', star_cc R s s' -> snd s' = snd s.
Proof. intros H s s' H1. induction H1 as [s|s s1 s2 Ha _ _ IH]; [reflexivity|]. rewrite IH. apply H. exact Ha. Qed.
Lemma iter_cc_caps (R : cstate -> cstate -> Prop) : (forall s s', R s s' -> snd s' = snd s) -> forall n s s', iter_cc R n s s' -> snd s' = snd s.
Proof. intros H n. induction n as [|n IH]; intros s s' H1; cbn [iter_cc] in H1; [subst; reflexivity|]. destruct H1 as (s1 & Ha & Hb). rewrite (IH _ _ Hb). apply H. exact Ha. Qed.
Lemma upto_cc_caps (R : cstate -> cstate -> Prop) : (forall s s', R s s' -> snd s' = snd s) -> forall n s s', upto_cc R n s s' -> snd s' = snd s.
Proof. intros H n. induction n as [|n IH]; intros s s' H1; cbn [upto_cc] in H1; [subst; reflexivity|]. destruct H1 as [->|(s1 & Ha & Hb)]; [reflexivity|]. rewrite (IH _ _ Hb). apply H. exact Ha. Qed.

Lemma reachc_nogroup ic r : nogroup r = true -> forall s s', reachc ic r s s' -> snd s' = snd s.
Proof.
  induction r as [|x| |neg items|a IHa b IHb|a IHa b IHb|g a IHa|g a IHa|g a IHa|g lo hi a IHa|idx a IHa| |];
    cbn [nogroup]; intros Hn s s' H; cbn [reachc] in H; try discriminate.
  - subst. reflexivity.
  - destruct H as (y & rest' & _ & _ & ->). reflexivity.
  - destruct H as (y & rest' & _ & _ & ->). reflexivity.
  - destruct H as (y & rest' & _ & _ & ->). reflexivity.
  - apply andb_prop in Hn. destruct Hn as [H1 H2]. destruct H as (s1 & Ha & Hb). rewrite (IHb H2 _ _ Hb). apply (IHa H1 _ _ Ha).
  - apply andb_prop in Hn. destruct Hn as [H1 H2]. destruct H as [H|H]; [apply (IHa H1 _ _ H)|apply (IHb H2 _ _ H)].
  - apply (star_cc_caps _ (IHa Hn) _ _ H).
  - destruct H as (s1 & Ha & Hb). rewrite (star_cc_caps _ (IHa Hn) _ _ Hb). apply (IHa Hn _ _ Ha).
  - destruct H as [->|H]; [reflexivity|apply (IHa Hn _ _ H)].
  - destruct H as (s1 & Ha & Hb). transitivity (snd s1); [|apply (iter_cc_caps _ (IHa Hn) _ _ _ Ha)].
    destruct hi as [h|]; [apply (upto_cc_caps _ (IHa Hn) _ _ _ Hb)|apply (star_cc_caps _ (IHa Hn) _ _ Hb)].
  - destruct H as [_ ->]. reflexivity.
  - destruct H as [_ ->]. reflexivity.
Qed.

(* ------------------------------------------------------------------ chains *)
Fixpoint reachc_list (ic : bool) (l : list rx) (s s' : cstate) {struct l} : Prop :=
  match l with [] => s' = s | a :: l' => exists s1, reachc ic a s s1 /\ reachc_list ic l' s1 s' end.
Lemma reachc_chain_elim ic l : forall acc s s', reachc ic (fold_left RCat l acc) s s' ->
  exists s1, reachc ic acc s s1 /\ reachc_list ic l s1 s'.
Proof.
  induction l as [|a l IH]; intros acc s s' H; cbn [fold_left] in H; [exists s'; split; [exact H|reflexivity]|].
  apply IH in H. destruct H as (s1 & H1 & H2). cbn [reachc] in H1. destruct H1 as (s0 & H0 & H1).
  exists s0. split; [exact H0|]. exists s1. split; assumption.
Qed.

Lemma first_some_in {X Y} (f : X -> option Y) l y : first_some f l = Some y -> exists x, In x l /\ f x = Some y.
Proof.
  induction l as [|x l IH]; cbn [first_some]; [discriminate|]. destruct (f x) eqn:E.
  - intros H. inversion H; subst. exists x. split; [left; reflexivity|exact E].
  - intros H. destruct (IH H) as (x' & Hin & Hx). exists x'. split; [right; exact Hin|exact Hx].
Qed.

(* ------------------------------------------------------------------ simple capturing tokens *)
(* a group whose body does not start with '?' and has no inner group: ( body ) is one capturing group *)
Definition cap_simple (t : tok) : bool :=
  match t with
  | TLit _ => true
  | TGrp b => match tok_atom 1 t with
              | Some (RGroup (Some 1) r, 2) => nogroup r && negb (match b with c :: _ => N.eqb c ch_q | [] => false end)
              | _ => false
              end
  end.

Lemma tok_atom_capturing gi (b : list chr) a g : (match b with c :: _ => N.eqb c ch_q | [] => false end) = false ->
  tok_atom gi (TGrp b) = Some (a, g) -> exists r, a = RGroup (Some gi) r.
Proof.
  intros Hq. cbn [tok_atom]. destruct (atom_of _ _ ch_lparen (b ++ [ch_rparen]) gi) as [[[a0 [|z rest]] g0]|] eqn:Ea; try discriminate.
  intros H. inversion H; subst. revert Ea. unfold atom_of. change (N.eqb ch_lparen ch_lparen) with true. cbv iota.
  assert (Hc : forall s0, match parse_alt (tok_fuel b) s0 (S gi) with
                 | Some (r, rp :: rest1, gi1) => if N.eqb rp ch_rparen then Some (RGroup (Some gi) r, rest1, gi1) else None
                 | _ => None
                 end = Some (a, [], g) -> exists r, a = RGroup (Some gi) r).
  { intros s0 H0. apply close_inv in H0. destruct H0 as (r & _ & ->). exists r. reflexivity. }
  destruct b as [|q b']; cbn [app]; [apply Hc|].
  destruct (b' ++ [ch_rparen]) as [|k s2] eqn:Eb; [destruct b'; discriminate Eb|]. rewrite Hq. cbn [andb]. apply Hc.
Qed.

Lemma cap_simple_atom gi (b : list chr) : cap_simple (TGrp b) = true ->
  forall a g, tok_atom gi (TGrp b) = Some (a, g) -> exists r, a = RGroup (Some gi) r /\ nogroup r = true /\ g = S gi.
Proof.
  unfold cap_simple. destruct (tok_atom 1 (TGrp b)) as [[a1 g1]|] eqn:E1; [|discriminate].
  destruct a1 as [| | | | | | | | | |[i|] r1| |]; try discriminate. destruct i as [|[|i]]; try discriminate. destruct g1 as [|[|[|g1]]]; try discriminate.
  intros H a g Ha. apply andb_prop in H. destruct H as [Hn Hq]. apply negb_true_iff in Hq.
  destruct (tok_atom_capturing gi b a g Hq Ha) as [r ->]. exists r. split; [reflexivity|].
  pose proof (tok_atom_erase 1 gi _ _ _ _ _ E1 Ha) as Er. cbn [erase] in Er. inversion Er as [Er'].
  split; [rewrite <- nogroup_erase, Er', nogroup_erase; exact Hn|].
  (* the counter advances by the same amount at every starting value *)
  revert Ha E1. cbn [tok_atom]. destruct (atom_of _ _ ch_lparen (b ++ [ch_rparen]) gi) as [[[a0 [|z rest]] g0]|] eqn:Ea; try discriminate.
  intros Ha. inversion Ha; subst.
  destruct (atom_of_gie _ _ _ _ _ _ _ _ (proj1 (parse_gie (tok_fuel b))) Ea 1) as (d & a2 & Hd & E2 & _). rewrite E2. intros H2. inversion H2. lia.
Qed.

(* ------------------------------------------------------------------ the valid-parse predicate *)
Fixpoint spans (ic : bool) (ts : list tok) (gi pos : nat) (s : list N) (cs : caps) {struct ts} : Prop :=
  match ts with
  | [] => skipn pos s = []
  | TLit c :: ts' => exists y r, skipn pos s = y :: r /\ char_eq ic c y = true /\ spans ic ts' gi (S pos) s cs
  | TGrp b :: ts' => exists k, cap_lookup gi cs = Some (pos, pos + k) /\ G_rx ic b s pos k = true /\ spans ic ts' (S gi) (pos + k) s cs
  end.

Lemma cap_lookup_app_some i a b se : cap_lookup i a = Some se -> cap_lookup i (a ++ b) = Some se.
Proof. induction a as [|[j x] a IH]; cbn [cap_lookup app]; [discriminate|]. destruct (Nat.eqb i j); [exact (fun H => H)|exact IH]. Qed.
Lemma cap_lookup_skip i a se b : (forall j x, In (j, x) a -> j <> i) -> cap_lookup i (a ++ (i, se) :: b) = Some se.
Proof.
  induction a as [|[j x] a IH]; intros H; cbn [cap_lookup app]; [rewrite Nat.eqb_refl; reflexivity|].
  destruct (Nat.eqb i j) eqn:E; [apply Nat.eqb_eq in E; exfalso; apply (H j x); [left; reflexivity|symmetry; exact E]|].
  apply IH. intros j' x' Hin. apply (H j' x'). right. exact Hin.
Qed.
Lemma spans_app ic ts : forall gi pos s cs extra, spans ic ts gi pos s cs -> spans ic ts gi pos s (cs ++ extra).
Proof.
  induction ts as [|t ts IH]; intros gi pos s cs extra H; [exact H|]. destruct t as [c|b]; cbn [spans] in *.
  - destruct H as (y & r & H1 & H2 & H3). exists y, r. split; [exact H1|]. split; [exact H2|apply IH; exact H3].
  - destruct H as (k & H1 & H2 & H3). exists k. split; [apply cap_lookup_app_some; exact H1|]. split; [exact H2|apply IH; exact H3].
Qed.

Lemma reachc_list_spans ic (s : list N) ts : forall gi l g st st', forallb cap_simple ts = true -> toks_atoms gi ts = Some (l, g) ->
  snd (fst st) = skipn (cpos st) s -> reachc_list ic l st st' -> snd (fst st') = [] ->
  exists added, snd st' = added ++ snd st /\ (forall j x, In (j, x) added -> gi <= j) /\ spans ic ts gi (cpos st) s added.
Proof.
  induction ts as [|t ts IH]; intros gi l g st st' Hsimple Ha Hinv Hl Hend; cbn [toks_atoms] in Ha.
  - inversion Ha; subst. cbn [reachc_list] in Hl. subst st'. exists []. split; [reflexivity|]. split; [intros j x []|].
    cbn [spans]. rewrite <- Hinv. exact Hend.
  - cbn [forallb] in Hsimple. apply andb_prop in Hsimple. destruct Hsimple as [Ht Hts].
    destruct (tok_atom gi t) as [[a gi1]|] eqn:Eat; [|discriminate].
    destruct (toks_atoms gi1 ts) as [[l' g']|] eqn:El; [|discriminate]. inversion Ha; subst. cbn [reachc_list] in Hl.
    destruct Hl as (s1 & Hr & Hl). pose proof (reachc_reach _ _ _ _ Hr) as Hrr. destruct (reach_suf _ _ _ _ Hrr) as [[Hw1 Hw2] Hs].
    assert (Hinv1 : snd (fst s1) = skipn (cpos s1) s).
    { unfold cpos in *. rewrite Hs. etransitivity; [apply f_equal; exact Hinv|]. rewrite skipn_add. f_equal. lia. }
    destruct t as [c|b].
    + cbn [tok_atom] in Eat. inversion Eat; subst. cbn [reachc] in Hr. destruct Hr as (y & rest' & E & Hc & ->). cbn [fst snd cpos] in *.
      destruct (IH gi1 l' g ((S (cpos st), rest'), snd st) st' Hts El Hinv1 Hl Hend) as (added & E1 & E2 & E3). cbn [fst snd cpos] in *.
      exists added. split; [exact E1|]. split; [exact E2|]. cbn [spans]. exists y, rest'. split; [rewrite <- Hinv; exact E|]. split; [exact Hc|exact E3].
    + destruct (cap_simple_atom gi b Ht a gi1 Eat) as (r & -> & Hn & ->).
      cbn [reachc] in Hr. destruct Hr as (s0 & Hr0 & ->). pose proof (reachc_nogroup ic r Hn _ _ Hr0) as Hc0. cbn [fst snd cpos] in *.
      destruct (IH (S gi) l' g (fst s0, (gi, (cpos st, cpos s0)) :: snd s0) st' Hts El Hinv1 Hl Hend) as (added & E1 & E2 & E3). cbn [fst snd cpos] in *.
      exists (added ++ [(gi, (fst (fst st), fst (fst s0)))]). split; [rewrite E1, Hc0, <- app_assoc; reflexivity|]. split.
      * intros j x Hin. apply in_app_or in Hin. destruct Hin as [Hin|[Hin|[]]]; [apply E2 in Hin; lia|inversion Hin; unfold cpos in *; lia].
      * cbn [spans]. unfold cpos, cstate, conf, caps in *. set (k := fst (fst s0) - fst (fst st)). assert (Ek : fst (fst s0) = fst (fst st) + k) by (unfold k; lia).
        exists k. split; [rewrite <- Ek; apply cap_lookup_skip; intros j x Hin; apply E2 in Hin; lia|]. split.
        { destruct (tok_atom_gi gi 1 (TGrp b) _ _ Eat) as (a1 & g1 & E1'). unfold G_rx. rewrite E1'. apply reaches_to_iff.
          pose proof (tok_atom_erase gi 1 _ _ _ _ _ Eat E1') as Er. apply (reach_erase_eq ic _ a1 _ _ (eq_sym Er)).
          rewrite <- Hinv, <- Ek. replace (skipn k (snd (fst st))) with (snd (fst s0)) by (rewrite Hs; reflexivity).
          destruct st as [[p0 r0] c0], s0 as [[p1 r1] c1]. exact Hrr. }
        rewrite <- Ek. apply spans_app. exact E3.
Qed.
