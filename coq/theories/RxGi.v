(* RxGi.v — whether (and where) the parser of RIO.Rx succeeds does not depend on the capture-group counter
   [gi] nor on the accumulator of parse_cat; only the AST does.  Consequence: the side condition
   [toks_parse ts] of RIO.RxLaws is implied by the per-token executable check [forallb tok_parses ts]. *)
Require Import RIO.Base RIO.Prefix RIO.Rx RIO.RxParse RIO.RxToks.
Close Scope N_scope.
Open Scope nat_scope.

Lemma wrap_quant_shape g g2 s : snd (wrap_quant g2 s) = snd (wrap_quant g s).
Proof. destruct s as [|c s]; cbn [wrap_quant]; [reflexivity|]. destruct (N.eqb c ch_q); reflexivity. Qed.

Lemma quant_one_shape r r2 c s' r' s'' : quant_one r c s' = Some (Some (r', s'')) ->
  exists r2', quant_one r2 c s' = Some (Some (r2', s'')).
Proof.
  unfold quant_one.
  assert (Hw : forall (g g2 : bool -> rx) s, Some (Some (wrap_quant g s)) = Some (Some (r', s'')) ->
            exists r2', Some (Some (wrap_quant g2 s)) = Some (Some (r2', s''))).
  { intros g g2 s H. inversion H as [H']. exists (fst (wrap_quant g2 s)).
    rewrite (surjective_pairing (wrap_quant g2 s)), (wrap_quant_shape g g2 s), H'. reflexivity. }
  destruct (N.eqb c ch_star); [apply Hw|]. destruct (N.eqb c ch_plus); [apply Hw|]. destruct (N.eqb c ch_q); [apply Hw|].
  destruct (N.eqb c ch_lbrace); [|discriminate].
  destruct (take_digits s' 0 false) as [[lo s1]|]; [|discriminate]. destruct s1 as [|d s2]; [discriminate|].
  destruct (N.eqb d ch_rbrace); [apply Hw|]. destruct (N.eqb d ch_comma); [|discriminate].
  destruct s2 as [|e s3]; [discriminate|]. destruct (N.eqb e ch_rbrace); [apply Hw|].
  destruct (take_digits (e :: s3) 0 false) as [[hi s4]|]; [|discriminate]. destruct s4 as [|z s5]; [discriminate|].
  destruct (N.eqb z ch_rbrace && Nat.leb lo hi); [apply Hw|discriminate].
Qed.

Lemma parse_quants_shape F : forall r r2 s r' rest, parse_quants F r s = Some (r', rest) ->
  exists r2', parse_quants F r2 s = Some (r2', rest).
Proof.
  induction F as [|F IH]; intros r r2 s r' rest H; [discriminate|].
  destruct s as [|c s']; [cbn [parse_quants] in *; inversion H; subst; exists r2; reflexivity|].
  rewrite parse_quants_S in H. rewrite parse_quants_S.
  destruct (quant_one r c s') as [[[r1 s1]|]|] eqn:Eq; [| |discriminate].
  - destruct (quant_one_shape r r2 _ _ _ _ Eq) as [r1' ->]. apply (IH _ r1' _ _ _ H).
  - rewrite (quant_one_none _ _ _ Eq). inversion H; subst. exists r2. reflexivity.
Qed.

Definition alt_gi (F : nat) : Prop :=
  forall s gi r rest gi', parse_alt F s gi = Some (r, rest, gi') ->
  forall gj, exists d r', gi' = gi + d /\ parse_alt F s gj = Some (r', rest, gj + d).
Definition cat_gi (F : nat) : Prop :=
  forall s gi acc r rest gi', parse_cat F s gi acc = Some (r, rest, gi') ->
  forall gj acc', exists d r', gi' = gi + d /\ parse_cat F s gj acc' = Some (r', rest, gj + d).

Lemma atom_of_gi F pcl c s' gi a rest gi' : alt_gi F ->
  atom_of (parse_alt F) pcl c s' gi = Some (a, rest, gi') ->
  forall gj, exists d a', gi' = gi + d /\ atom_of (parse_alt F) pcl c s' gj = Some (a', rest, gj + d).
Proof.
  intros HA. unfold atom_of.
  assert (Hcap : match parse_alt F s' (S gi) with
                 | Some (r, rp :: rest1, gi1) => if N.eqb rp ch_rparen then Some (RGroup (Some gi) r, rest1, gi1) else None
                 | _ => None
                 end = Some (a, rest, gi') ->
                 forall gj, exists d a', gi' = gi + d /\
                   match parse_alt F s' (S gj) with
                   | Some (r, rp :: rest1, gi1) => if N.eqb rp ch_rparen then Some (RGroup (Some gj) r, rest1, gi1) else None
                   | _ => None
                   end = Some (a', rest, gj + d)).
  { intros H gj. apply close_inv in H. destruct H as (r & Hr & ->).
    destruct (HA _ _ _ _ _ Hr (S gj)) as (d & r' & Hd & Hr'). exists (S d), (RGroup (Some gj) r').
    split; [lia|]. rewrite Hr', N.eqb_refl. f_equal. f_equal. lia. }
  assert (H0 : forall a0 rest0, Some (a0, rest0, gi) = Some (a, rest, gi') ->
            forall gj, exists d a', gi' = gi + d /\ Some (a0, rest0, gj) = Some (a', rest, gj + d)).
  { intros a0 rest0 H gj. inversion H; subst. exists 0, a. split; [lia|]. rewrite Nat.add_0_r. reflexivity. }
  destruct (N.eqb c ch_lparen).
  { destruct s' as [|q [|k s2]]; [exact Hcap|exact Hcap|].
    destruct (N.eqb q ch_q && N.eqb k ch_colon).
    - intros H gj. apply close_inv in H. destruct H as (r & Hr & ->).
      destruct (HA _ _ _ _ _ Hr gj) as (d & r' & Hd & Hr'). exists d, (RGroup None r').
      split; [exact Hd|]. rewrite Hr', N.eqb_refl. reflexivity.
    - destruct (N.eqb q ch_q); [discriminate|exact Hcap]. }
  destruct (N.eqb c ch_lbrack).
  { destruct s' as [|n s2]; [discriminate|]. destruct (N.eqb n ch_caret).
    - destruct (pcl s2 [] true) as [[items rest1]|]; [|discriminate]. intros H gj. apply (H0 _ _ H gj).
    - destruct (pcl (n :: s2) [] true) as [[items rest1]|]; [|discriminate]. intros H gj. apply (H0 _ _ H gj). }
  destruct (N.eqb c ch_dot); [intros H gj; apply (H0 _ _ H gj)|].
  destruct (N.eqb c ch_caret); [intros H gj; apply (H0 _ _ H gj)|].
  destruct (N.eqb c ch_dollar); [intros H gj; apply (H0 _ _ H gj)|].
  destruct (N.eqb c ch_bs).
  { destruct (parse_escape s') as [[it rest1]|]; [|discriminate]. destruct it; intros H gj; apply (H0 _ _ H gj). }
  destruct (N.eqb c ch_star || N.eqb c ch_plus || N.eqb c ch_q); [discriminate|].
  destruct (N.eqb c ch_lbrace); [discriminate|].
  intros H gj; apply (H0 _ _ H gj).
Qed.

Theorem parse_gi F : alt_gi F /\ cat_gi F.
Proof.
  induction F as [|F [IHA IHC]]; [split; [intros ? ? ? ? ? H|intros ? ? ? ? ? ? H]; discriminate|]. split.
  - intros s gi r rest gi' H gj. rewrite parse_alt_S in H. rewrite parse_alt_S.
    destruct (parse_cat F s gi REmpty) as [[[r1 rest1] gi1]|] eqn:Ec; [|discriminate].
    destruct (IHC _ _ _ _ _ _ Ec gj REmpty) as (d1 & r1' & Hd1 & ->).
    destruct rest1 as [|c rest1']; [inversion H; subst; exists d1, r1'; split; reflexivity|].
    destruct (N.eqb c ch_bar); [|inversion H; subst; exists d1, r1'; split; reflexivity].
    destruct (parse_alt F rest1' gi1) as [[[r2 rest2] gi2]|] eqn:Ea; [|discriminate]. inversion H; subst.
    destruct (IHA _ _ _ _ _ Ea (gj + d1)) as (d2 & r2' & Hd2 & ->).
    exists (d1 + d2), (RAlt r1' r2'). split; [lia|]. f_equal. f_equal. lia.
  - intros s gi acc r rest gi' H gj acc'. rewrite parse_cat_S in H. rewrite parse_cat_S.
    destruct s as [|c s']; [inversion H; subst; exists 0, acc'; split; [lia|rewrite Nat.add_0_r; reflexivity]|].
    destruct (N.eqb c ch_bar || N.eqb c ch_rparen);
      [inversion H; subst; exists 0, acc'; split; [lia|rewrite Nat.add_0_r; reflexivity]|].
    destruct (atom_of (parse_alt F) (parse_class F) c s' gi) as [[[a rest1] gi1]|] eqn:Eat; [|discriminate].
    destruct (atom_of_gi _ _ _ _ _ _ _ _ IHA Eat gj) as (d1 & a1 & Hd1 & ->).
    destruct (parse_quants F a rest1) as [[a' rest2]|] eqn:Eq; [|discriminate].
    destruct (parse_quants_shape _ _ a1 _ _ _ Eq) as [a1' ->].
    destruct (IHC _ _ _ _ _ _ H (gj + d1) (cat acc' a1')) as (d2 & r' & Hd2 & ->).
    exists (d1 + d2), r'. split; [lia|]. f_equal. f_equal. lia.
Qed.

(* ------------------------------------------------------------------ the per-token check *)
Definition tok_parses (t : tok) : bool := match tok_atom 1 t with Some _ => true | None => false end.

Lemma tok_atom_gi gi gj t a g : tok_atom gi t = Some (a, g) -> exists a' g', tok_atom gj t = Some (a', g').
Proof.
  destruct t as [c|b]; cbn [tok_atom]; [intros _; eauto|].
  destruct (atom_of _ _ ch_lparen (b ++ [ch_rparen]) gi) as [[[a0 [|z rest]] g0]|] eqn:Ea; try discriminate. intros _.
  destruct (atom_of_gi _ _ _ _ _ _ _ _ (proj1 (parse_gi (tok_fuel b))) Ea gj) as (d & a' & _ & ->). eauto.
Qed.

Theorem toks_parse_forallb ts : forallb tok_parses ts = true -> toks_parse ts = true.
Proof.
  unfold toks_parse.
  enough (HG : forall gi, forallb tok_parses ts = true -> match toks_atoms gi ts with Some _ => true | None => false end = true) by apply HG.
  induction ts as [|t ts IH]; intros gi H; [reflexivity|].
  cbn [forallb] in H. apply andb_prop in H. destruct H as [Ht Hts]. cbn [toks_atoms].
  unfold tok_parses in Ht. destruct (tok_atom 1 t) as [[a g]|] eqn:Ea; [|discriminate].
  destruct (tok_atom_gi 1 gi t a g Ea) as (a' & g' & ->).
  specialize (IH g' Hts). destruct (toks_atoms g' ts) as [[l g2]|]; [reflexivity|discriminate].
Qed.

Theorem toks_parse_forallb_iff ts : toks_parse ts = true <-> forallb tok_parses ts = true.
Proof.
  split; [|apply toks_parse_forallb]. unfold toks_parse.
  enough (HG : forall gi, match toks_atoms gi ts with Some _ => true | None => false end = true -> forallb tok_parses ts = true) by apply HG.
  induction ts as [|t ts IH]; intros gi H; [reflexivity|].
  cbn [toks_atoms] in H. destruct (tok_atom gi t) as [[a g]|] eqn:Ea; [|discriminate].
  destruct (toks_atoms g ts) as [[l g2]|] eqn:El; [|discriminate].
  cbn [forallb]. apply andb_true_intro. split.
  - unfold tok_parses. destruct (tok_atom_gi gi 1 t a g Ea) as (a' & g' & ->). reflexivity.
  - apply (IH g). rewrite El. reflexivity.
Qed.
