(* HtmlSplit.v — the SPLIT LAW of the HTML body-filter stage (RIO.HtmlFilter, model of
   src/filter/html_filter_body.rs after the repairs 741037d / 4dd199c):
       feeding c1 then c2  =  feeding c1 ++ c2      (same final state, concatenated output)
   whenever the run on c1 ++ c2 does not take the error path ([hfb_split_law_noerr]; the error path is taken only
   when String::from_utf8 fails, i.e. on bodies that are not UTF-8, and there the law is FALSE: see the
   counterexample in properties/C03.v).
   Route: (1) [filter_loop] is a fold over the token stream of the data, every complete token being processed
   except a last text token containing '<', which is held back with the incomplete rest ([filter_loop_spec]);
   (2) the tokens completed in a prefix of the data are the first tokens of the whole data ([toks_prefix], from
   RIO.HtmlTokProofs.next_stable) and the tokens from the hold-back point are those of a fresh tokenizer on the
   held-back bytes with the remembered raw-text context ([toks_restart], from RIO.TokShift.next_shift);
   (3) folds compose ([spec_from_app]), and the fields last_buffer / raw_tag do not influence a run
   ([spec_from_hold]).
   What is used about the tokenizer beyond (2) is collected in [tok_facts] (no panic / fuel exhaustion, bounds,
   strict progress, raw_tag is a raw-text element name): the totality facts of RIO.HtmlTokProofs.
   The chain lemmas of RIO.ChainProofs are redone for laws that hold outside an absorbing error state
   ([run_chunk_invariant_if]), giving [body_chunk_invariant]. *)
Require Import RIO.Base RIO.TokMonad RIO.HtmlTok RIO.BodyText RIO.HtmlFilter RIO.ChainProofs RIO.BodyProofs.
Require Import RIO.TokLogic RIO.HtmlTokProofs RIO.TokShift.
Close Scope N_scope.
Open Scope nat_scope.

(* ------------------------------------------------------------------------------------------------------ *)
(* What the proof uses about the tokenizer beyond stability and restart: the facts a totality proof of [next]
   provides, for an invariant [W d s] of tokenizer states. *)
Record tok_facts (lower : str -> str) (W : list N -> st -> Prop) : Prop := {
  W_ok : forall d s, W d s -> panic s = None /\ oof s = false;
  W_bound : forall d s, W d s -> raw_end s <= length d;
  W_tag : forall d s, W d s -> tag_ok (raw_tag s);
  W_app : forall d d' s, W d s -> W (d ++ d') s;
  W_new : forall d ctx, W d (new_fragment lower ctx);
  W_next : forall d s, W d s -> err s = false ->
             W d (snd (next lower d s)) /\ raw_end s <= raw_end (snd (next lower d s));
  W_progress : forall d s tk, W d s -> err s = false -> fst (next lower d s) = ROk tk -> tk <> ErrorToken ->
             err (snd (next lower d s)) = false -> raw_end s < raw_end (snd (next lower d s));
  W_tag_name : forall d s tk, W d s -> err s = false -> fst (next lower d s) = ROk tk ->
             W d (snd (tag_name lower d (snd (next lower d s))));
  W_lower : forall t, In t raw_text_elements -> lower t = t
}.

Section Split.
Variable lower : str -> str.
Variable sel : str -> str -> bool.

(* ------------------------------------------------------------------------------ the token stream of a run *)
Definition is_tag (tk : token_type) : bool :=
  match tk with StartTagToken | EndTagToken | SelfClosingTagToken => true | _ => false end.
Definition name_of (r : result (option str * bool) * st) : result (option str) :=
  match fst r with RErr => RErr | ROk (n, _) => ROk n end.
Definition after_tag (d : list N) (s : st) (tk : token_type) : st :=
  if is_tag tk then snd (tk_tag_name lower d s) else s.
Definition tok_name (d : list N) (s : st) (tk : token_type) : result (option str) :=
  if is_tag tk then name_of (tk_tag_name lower d s) else ROk None.

Definition unwrap_name (name : option str) : str := match name with Some n => n | None => [] end.

(* handle_token without the tokenizer *)
Definition handle_tok (F : hfb) (tk : token_type) (td : str) (nm : result (option str)) : result (hfb * str) :=
  match tk with
  | StartTagToken =>
      match nm with
      | RErr => RErr
      | ROk name =>
          let '(F1, d1) := on_start_tag F (unwrap_name name) td in
          if is_void (unwrap_name name) then on_end_tag lower sel F1 (unwrap_name name) d1 else ROk (F1, d1)
      end
  | EndTagToken =>
      match nm with
      | RErr => RErr
      | ROk name => on_end_tag lower sel F (unwrap_name name) td
      end
  | SelfClosingTagToken =>
      match nm with
      | RErr => RErr
      | ROk name => let '(F1, d1) := on_start_tag F (unwrap_name name) td in on_end_tag lower sel F1 (unwrap_name name) d1
      end
  | _ => ROk (F, td)
  end.

Lemma handle_token_eq F d s tk td :
  handle_token lower sel F d s tk td =
  match handle_tok F tk td (tok_name d s tk) with
  | RErr => RErr
  | ROk (F', d') => ROk (F', d', after_tag d s tk)
  end.
Proof.
  unfold handle_token, handle_tok, tok_name, after_tag, name_of, unwrap_name.
  destruct tk; cbn [is_tag]; try reflexivity;
    destruct (tk_tag_name lower d s) as [[[name b]|] s1]; cbn [fst snd]; try reflexivity.
  all: repeat match goal with
       | |- context [on_start_tag ?F ?n ?td] => destruct (on_start_tag F n td) as [? ?]
       | |- context [if is_void ?x then _ else _] => destruct (is_void x)
       | |- context [on_end_tag ?l ?s ?F ?n ?td] => destruct (on_end_tag l s F n td) as [[? ?]|]
       end; reflexivity.
Qed.

(* one call of next as the filter sees it *)
Inductive tstep := TErr | TEof (s1 : st) | TTok (tk : token_type) (td : str) (s1 : st).
Definition tok_step (d : list N) (s : st) : tstep :=
  match tk_next lower d s with
  | (RErr, _) => TErr
  | (ROk tk, s1) =>
      if token_eqb tk ErrorToken || err s1 then TEof s1
      else match as_string (tk_raw d s1) with RErr => TErr | ROk td => TTok tk td s1 end
  end.

Record tokrec := { t_rt : list N; t_tk : token_type; t_td : str; t_nm : result (option str) }.
Inductive tfin := FErr | FEof (rt : list N) (rest : list N) | FFuel.

Fixpoint toks (fuel : nat) (d : list N) (s : st) : list tokrec * tfin :=
  match fuel with
  | O => ([], FFuel)
  | S f =>
      match tok_step d s with
      | TErr => ([], FErr)
      | TEof s1 => ([], FEof (raw_tag s) (tk_raw d s1 ++ tk_buffered d s1))
      | TTok tk td s1 =>
          let '(L, fin) := toks f d (after_tag d s1 tk) in
          ({| t_rt := raw_tag s; t_tk := tk; t_td := td; t_nm := tok_name d s1 tk |} :: L, fin)
      end
  end.

(* processing one complete token *)
Definition proc (F : hfb) (t : tokrec) (out : str) : result (hfb * str) :=
  match handle_tok F (t_tk t) (t_td t) (t_nm t) with
  | RErr => RErr
  | ROk (F2, td3) => ROk (emit F2 out td3)
  end.
Definition held_text (t : tokrec) : bool := token_eqb (t_tk t) TextToken && contains_lt (t_td t).
Definition is_feof (fin : tfin) : bool := match fin with FEof _ _ => true | _ => false end.
Definition fin_rest (fin : tfin) : list N := match fin with FEof _ rest => rest | _ => [] end.

(* the filter as a fold over the token stream: every complete token is processed, except a final text token
   containing '<', which is held back together with the incomplete rest *)
Fixpoint spec_from (L : list tokrec) (fin : tfin) (F : hfb) (out : str) : result (hfb * str) :=
  match L with
  | [] => match fin with
          | FErr => RErr
          | FEof rt rest => ROk (set_hold F rt rest, out)
          | FFuel => ROk (F, out)
          end
  | t :: L' =>
      if is_nil L' && held_text t && is_feof fin then ROk (set_hold F (t_rt t) (t_td t ++ fin_rest fin), out)
      else match proc F t out with
           | RErr => RErr
           | ROk (F', out') => spec_from L' fin F' out'
           end
  end.

(* ------------------------------------------------------------------------------- unfolding the two loops *)
Definition cont (fi fo : nat) (F : hfb) (d : list N) (s1 : st) (out : str) (tk : token_type) (td : str) (rt : list N)
  : result (hfb * str) :=
  match text_hold_loop lower fi F d s1 out tk td rt with
  | RErr => RErr
  | ROk (F1, out1, s2, tk2, td2, _, true) => ROk (F1, out1)
  | ROk (F1, out1, s2, tk2, td2, _, false) =>
      match handle_token lower sel F1 d s2 tk2 td2 with
      | RErr => RErr
      | ROk (F2, td3, s3) => let '(F3, out3) := emit F2 out1 td3 in filter_loop lower sel fo F3 d s3 out3
      end
  end.

Lemma filter_loop_S f F d s out :
  filter_loop lower sel (S f) F d s out =
  match tok_step d s with
  | TErr => RErr
  | TEof s1 => ROk (set_hold F (raw_tag s) (tk_raw d s1 ++ tk_buffered d s1), out)
  | TTok tk td s1 => cont (length d + 2) f F d s1 out tk td (raw_tag s)
  end.
Proof.
  cbn [filter_loop]. unfold tok_step, cont. destruct (tk_next lower d s) as [[tk|] s1]; [|reflexivity].
  destruct (token_eqb tk ErrorToken || err s1); [reflexivity|].
  destruct (as_string (tk_raw d s1)) as [td|]; [|reflexivity].
  destruct (text_hold_loop lower (length d + 2) F d s1 out tk td (raw_tag s)) as [[[[[[[F1 out1] s2] tk2] td2] rt2] [|]]|]; reflexivity.
Qed.

Lemma cont_held fi fo F d s out tk td rt :
  token_eqb tk TextToken && contains_lt td = true ->
  cont (S fi) fo F d s out tk td rt =
  match tok_step d s with
  | TErr => RErr
  | TEof s1 => ROk (set_hold F rt (td ++ tk_raw d s1 ++ tk_buffered d s1), out)
  | TTok tk' td' s1 => let '(F1, out1) := emit F out td in cont fi fo F1 d s1 out1 tk' td' (raw_tag s)
  end.
Proof.
  intros H. unfold cont at 1. cbn [text_hold_loop]. rewrite H. unfold tok_step.
  destruct (tk_next lower d s) as [[tk'|] s1]; [|reflexivity].
  destruct (token_eqb tk' ErrorToken || err s1); [reflexivity|].
  destruct (emit F out td) as [F1 out1].
  destruct (as_string (tk_raw d s1)) as [td'|]; reflexivity.
Qed.

Lemma cont_other fi fo F d s out tk td rt :
  token_eqb tk TextToken && contains_lt td = false ->
  cont (S fi) fo F d s out tk td rt =
  match handle_token lower sel F d s tk td with
  | RErr => RErr
  | ROk (F2, td3, s3) => let '(F3, out3) := emit F2 out td3 in filter_loop lower sel fo F3 d s3 out3
  end.
Proof. intros H. unfold cont. cbn [text_hold_loop]. rewrite H. reflexivity. Qed.

(* ------------------------------------------------------------------------------------ tokenizer invariant *)
Variable W : list N -> st -> Prop.
Hypothesis TF : tok_facts lower W.

Record tinv (d : list N) (s : st) : Prop := mk_tinv { ti_W : W d s; ti_err : err s = false; ti_cd : allow_cdata s = true }.
Definition suff (f : nat) (d : list N) (s : st) : Prop := length d < f + raw_end s.

Lemma tag_name_frame d s :
  let s' := snd (tag_name lower d s) in
  raw_end s' = raw_end s /\ raw_start s' = raw_start s /\ err s' = err s /\ raw_tag s' = raw_tag s /\ allow_cdata s' = allow_cdata s.
Proof.
  unfold tag_name, bind, get, slice, upd, ret. cbn [fst snd].
  destruct (data_start s <? data_end s); [|cbn; auto].
  destruct (token s); cbn; auto;
    (destruct (negb (utf8_valid _)); cbn;
     destruct ((data_start s <=? data_end s) && (data_end s <=? length d)); cbn; auto;
     unfold set_panic_site; destruct (panic s); cbn; auto).
Qed.

Lemma tinv_bound d s : tinv d s -> raw_end s <= length d.
Proof. intros [H _ _]. exact (W_bound _ _ TF _ _ H). Qed.

Lemma as_string_ok b td : as_string b = ROk td -> td = b.
Proof. unfold as_string. destruct (utf8_valid b); congruence. Qed.

Lemma token_eqb_neq tk : token_eqb tk ErrorToken = false -> tk <> ErrorToken.
Proof. intros H E. subst. discriminate. Qed.

Lemma tok_step_tok d s tk td s1 : tinv d s -> tok_step d s = TTok tk td s1 ->
  next lower d s = (ROk tk, s1) /\ tk <> ErrorToken /\ td = tk_raw d s1 /\ tinv d s1
  /\ raw_end s < raw_end s1 /\ raw_start s1 = raw_end s
  /\ tinv d (after_tag d s1 tk) /\ raw_end (after_tag d s1 tk) = raw_end s1 /\ raw_tag (after_tag d s1 tk) = raw_tag s1.
Proof.
  intros [HW He Hc] H. unfold tok_step, tk_next in H.
  destruct (next lower d s) as [[tk'|] s1'] eqn:En; [|discriminate].
  destruct (token_eqb tk' ErrorToken || err s1') eqn:Et; [discriminate|].
  apply orb_false_elim in Et. destruct Et as [Et Ee].
  destruct (as_string (tk_raw d s1')) as [td'|] eqn:Ea; [|discriminate].
  injection H as -> -> ->. apply as_string_ok in Ea.
  assert (Es : s1 = snd (next lower d s)) by (rewrite En; reflexivity).
  assert (Ef : fst (next lower d s) = ROk tk) by (rewrite En; reflexivity).
  destruct (W_next _ _ TF d s HW He) as [HW1 Hle]. rewrite <- Es in HW1, Hle.
  assert (Hcd1 : allow_cdata s1 = true).
  { rewrite Es. rewrite (ext_cd _ _ (next_ext lower d s)). exact Hc. }
  assert (Ht1 : tinv d s1) by (constructor; assumption).
  pose proof (W_progress _ _ TF d s tk HW He Ef (token_eqb_neq _ Et)) as Hp. rewrite <- Es in Hp. specialize (Hp Ee).
  repeat apply conj; auto.
  - apply token_eqb_neq; exact Et.
  - rewrite Es. apply next_raw_start.
  - unfold after_tag. destruct (is_tag tk); [|exact Ht1]. unfold tk_tag_name.
    destruct (tag_name_frame d s1) as (_ & _ & E3 & _ & E5). constructor.
    + rewrite Es. eapply W_tag_name; eauto.
    + rewrite E3. exact Ee.
    + rewrite E5. exact Hcd1.
  - unfold after_tag. destruct (is_tag tk); [|reflexivity]. apply (tag_name_frame d s1).
  - unfold after_tag. destruct (is_tag tk); [|reflexivity]. apply (tag_name_frame d s1).
Qed.

(* ------------------------------------------------------------------- (1) the fold characterisation *)
Lemma proc_text F t out : t_tk t = TextToken -> proc F t out = ROk (emit F out (t_td t)).
Proof. intros H. unfold proc, handle_tok. rewrite H. reflexivity. Qed.

Lemma spec_from_cons2 t t' L fin F out :
  spec_from (t :: t' :: L) fin F out =
  match proc F t out with RErr => RErr | ROk (F', out') => spec_from (t' :: L) fin F' out' end.
Proof. reflexivity. Qed.

Definition mk_tok (d : list N) (rt : list N) (tk : token_type) (td : str) (s1 : st) : tokrec :=
  {| t_rt := rt; t_tk := tk; t_td := td; t_nm := tok_name d s1 tk |}.

Lemma fold_main d : forall g,
  (forall F s out fo, tinv d s -> suff fo d s -> suff g d s ->
     filter_loop lower sel fo F d s out = spec_from (fst (toks g d s)) (snd (toks g d s)) F out)
  /\ (forall F s1 out fi fo tk td rt, tinv d s1 -> tinv d (after_tag d s1 tk) -> raw_end (after_tag d s1 tk) = raw_end s1 ->
     suff fi d s1 -> suff fo d s1 -> suff g d s1 ->
     cont fi fo F d s1 out tk td rt =
     spec_from (mk_tok d rt tk td s1 :: fst (toks g d (after_tag d s1 tk))) (snd (toks g d (after_tag d s1 tk))) F out).
Proof.
  induction g as [|g [IHA IHB]].
  - split.
    + intros F s out fo Hs _ Hg. pose proof (tinv_bound _ _ Hs). unfold suff in Hg. lia.
    + intros F s1 out fi fo tk td rt Hs _ _ _ _ Hg. pose proof (tinv_bound _ _ Hs). unfold suff in Hg. lia.
  - assert (HA : forall F s out fo, tinv d s -> suff fo d s -> suff (S g) d s ->
       filter_loop lower sel fo F d s out = spec_from (fst (toks (S g) d s)) (snd (toks (S g) d s)) F out).
    { intros F s out fo Hs Hfo Hg. pose proof (tinv_bound _ _ Hs) as Hb.
      destruct fo as [|fo]; [unfold suff in Hfo; lia|].
      rewrite filter_loop_S. cbn [toks]. destruct (tok_step d s) as [|s1|tk td s1] eqn:Et; [reflexivity|reflexivity|].
      destruct (tok_step_tok d s tk td s1 Hs Et) as (_ & _ & _ & Ht1 & Hlt & _ & Ht3 & Hre3 & _).
      rewrite (IHB F s1 out (length d + 2) fo tk td (raw_tag s) Ht1 Ht3 Hre3); unfold suff in *; try lia.
      destruct (toks g d (after_tag d s1 tk)) as [L fin]. reflexivity. }
    split; [exact HA|].
    intros F s1 out fi fo tk td rt Hs1 Hs3 Hre3 Hfi Hfo Hg. pose proof (tinv_bound _ _ Hs1) as Hb.
    destruct fi as [|fi]; [unfold suff in Hfi; lia|].
    destruct (token_eqb tk TextToken && contains_lt td) eqn:Eh.
    + (* a text token containing '<': look at the next token first *)
      rewrite (cont_held fi fo F d s1 out tk td rt Eh).
      assert (Etk : tk = TextToken) by (apply andb_prop in Eh; destruct Eh as [Eh _]; destruct tk; try discriminate; reflexivity).
      assert (Eat : after_tag d s1 tk = s1) by (subst tk; reflexivity). rewrite Eat.
      cbn [toks]. destruct (tok_step d s1) as [|s1'|tk' td' s1'] eqn:Et.
      * cbn [fst snd spec_from is_feof andb]. rewrite andb_false_r.
        rewrite proc_text by (cbn; exact Etk). destruct (emit F out _). reflexivity.
      * cbn [fst snd spec_from is_nil is_feof fin_rest andb]. unfold held_text, mk_tok. cbn [t_tk t_td t_rt]. rewrite Eh. reflexivity.
      * destruct (tok_step_tok d s1 tk' td' s1' Hs1 Et) as (_ & _ & _ & Ht1 & Hlt & _ & Ht3 & Hre3' & _).
        destruct (emit F out td) as [F1 out1] eqn:Ee.
        rewrite (IHB F1 s1' out1 fi fo tk' td' (raw_tag s1) Ht1 Ht3 Hre3'); unfold suff in *; try lia.
        destruct (toks g d (after_tag d s1' tk')) as [L fin]. cbn [fst snd]. rewrite spec_from_cons2.
        rewrite proc_text by (cbn; exact Etk). cbn [mk_tok t_td]. rewrite Ee. reflexivity.
    + rewrite (cont_other fi fo F d s1 out tk td rt Eh). rewrite handle_token_eq.
      assert (Hnh : forall (L' : list tokrec) fin, is_nil L' && held_text (mk_tok d rt tk td s1) && is_feof fin = false).
      { intros. unfold held_text, mk_tok. cbn [t_tk t_td]. rewrite Eh. rewrite andb_false_r. reflexivity. }
      cbn [spec_from]. rewrite Hnh. unfold proc, mk_tok. cbn [t_tk t_td t_nm].
      destruct (handle_tok F tk td (tok_name d s1 tk)) as [[F2 td3]|]; [|reflexivity].
      destruct (emit F2 out td3) as [F3 out3].
      apply HA; auto; unfold suff in *; lia.
Qed.

Lemma toks_no_fuel d : forall g s, tinv d s -> suff g d s -> snd (toks g d s) <> FFuel.
Proof.
  induction g as [|g IH]; intros s Hs Hg.
  - pose proof (tinv_bound _ _ Hs). unfold suff in Hg. lia.
  - cbn [toks]. destruct (tok_step d s) as [|s1|tk td s1] eqn:Et; cbn; try discriminate.
    destruct (tok_step_tok d s tk td s1 Hs Et) as (_ & _ & _ & Ht1 & Hlt & _ & Ht3 & Hre3 & _).
    specialize (IH (after_tag d s1 tk) Ht3). destruct (toks g d (after_tag d s1 tk)) as [L fin]. cbn [snd] in *.
    apply IH. unfold suff in *. lia.
Qed.

Lemma toks_fuel d : forall g g' s, tinv d s -> suff g d s -> suff g' d s -> toks g d s = toks g' d s.
Proof.
  induction g as [|g IH]; intros g' s Hs Hg Hg'; pose proof (tinv_bound _ _ Hs) as Hb.
  - unfold suff in Hg. lia.
  - destruct g' as [|g']; [unfold suff in Hg'; lia|].
    cbn [toks]. destruct (tok_step d s) as [|s1|tk td s1] eqn:Et; try reflexivity.
    destruct (tok_step_tok d s tk td s1 Hs Et) as (_ & _ & _ & Ht1 & Hlt & _ & Ht3 & Hre3 & _).
    rewrite (IH g' (after_tag d s1 tk) Ht3); unfold suff in *; try lia. reflexivity.
Qed.

(* the fuel every run uses *)
Definition fuel_of (d : list N) : nat := length d + 2.
Lemma suff_fuel_of d s : suff (fuel_of d) d s.
Proof. unfold suff, fuel_of. lia. Qed.

Theorem filter_loop_spec d F s out : tinv d s ->
  filter_loop lower sel (fuel_of d) F d s out = spec_from (fst (toks (fuel_of d) d s)) (snd (toks (fuel_of d) d s)) F out.
Proof. intros Hs. apply (proj1 (fold_main d (fuel_of d))); auto using suff_fuel_of. Qed.

(* ------------------------------------------------------------------------- properties of the fold *)
Lemma emit_out F out data : emit F out data = (fst (emit F [] data), out ++ snd (emit F [] data)).
Proof. unfold emit. destruct (f_buffers F) as [|[t b] rest]; cbn; rewrite ?app_nil_r; reflexivity. Qed.

Lemma proc_out F t out :
  proc F t out = match proc F t [] with RErr => RErr | ROk (F', o) => ROk (F', out ++ o) end.
Proof.
  unfold proc. destruct (handle_tok F (t_tk t) (t_td t) (t_nm t)) as [[F2 td3]|]; [|reflexivity].
  rewrite (emit_out F2 out td3). destruct (emit F2 [] td3). reflexivity.
Qed.

Lemma on_start_tag_hold F r l tag data :
  on_start_tag (set_hold F r l) tag data = (set_hold (fst (on_start_tag F tag data)) r l, snd (on_start_tag F tag data)).
Proof.
  unfold on_start_tag. cbn [set_hold f_enter f_visitor f_buffers f_last f_raw_tag f_in_error f_leave].
  destruct (opt_is (f_enter F) tag); [|reflexivity].
  destruct (v_enter (f_visitor F) data) as [[[[v' ne] nl] sb] nb]. reflexivity.
Qed.

Lemma on_end_tag_hold F r l tag data :
  on_end_tag lower sel (set_hold F r l) tag data =
  match on_end_tag lower sel F tag data with RErr => RErr | ROk (F', d') => ROk (set_hold F' r l, d') end.
Proof.
  unfold on_end_tag. cbn [set_hold f_enter f_visitor f_buffers f_last f_raw_tag f_in_error f_leave].
  destruct (opt_is (f_leave F) tag).
  - destruct (v_leave lower sel (f_visitor F) _) as [[[[v' ne] nl] nb]|]; reflexivity.
  - reflexivity.
Qed.

Lemma emit_hold F r l out data :
  emit (set_hold F r l) out data = (set_hold (fst (emit F out data)) r l, snd (emit F out data)).
Proof. unfold emit. cbn [set_hold f_buffers]. destruct (f_buffers F) as [|[t b] rest]; reflexivity. Qed.

Lemma handle_tok_hold F r l tk td nm :
  handle_tok (set_hold F r l) tk td nm =
  match handle_tok F tk td nm with RErr => RErr | ROk (F', d') => ROk (set_hold F' r l, d') end.
Proof.
  unfold handle_tok. destruct tk; try reflexivity; destruct nm as [name|]; try reflexivity.
  - rewrite on_start_tag_hold. destruct (on_start_tag F (unwrap_name name) td) as [F1 d1]. cbn [fst snd].
    destruct (is_void (unwrap_name name)); [|reflexivity]. apply on_end_tag_hold.
  - apply on_end_tag_hold.
  - rewrite on_start_tag_hold. destruct (on_start_tag F (unwrap_name name) td) as [F1 d1]. cbn [fst snd]. apply on_end_tag_hold.
Qed.

Lemma proc_hold F r l t out :
  proc (set_hold F r l) t out = match proc F t out with RErr => RErr | ROk (F', o) => ROk (set_hold F' r l, o) end.
Proof.
  unfold proc. rewrite handle_tok_hold. destruct (handle_tok F (t_tk t) (t_td t) (t_nm t)) as [[F2 td3]|]; [|reflexivity].
  rewrite emit_hold. destruct (emit F2 out td3). reflexivity.
Qed.

Lemma set_hold_set_hold F r l r' l' : set_hold (set_hold F r l) r' l' = set_hold F r' l'.
Proof. reflexivity. Qed.

Lemma spec_from_hold L fin : is_feof fin = true -> forall F r l out,
  spec_from L fin (set_hold F r l) out = spec_from L fin F out.
Proof.
  intros Hf. induction L as [|t L IH]; intros F r l out; cbn [spec_from].
  - destruct fin; try discriminate. reflexivity.
  - destruct (is_nil L && held_text t && is_feof fin); [reflexivity|].
    rewrite proc_hold. destruct (proc F t out) as [[F' o]|]; [|reflexivity]. apply IH.
Qed.

Definition pre_out (out : str) (r : result (hfb * str)) : result (hfb * str) :=
  match r with RErr => RErr | ROk (F', o) => ROk (F', out ++ o) end.

Lemma spec_from_out L fin : forall F out, spec_from L fin F out = pre_out out (spec_from L fin F []).
Proof.
  induction L as [|t L IH]; intros F out; cbn [spec_from].
  - destruct fin; cbn; rewrite ?app_nil_r; reflexivity.
  - destruct (is_nil L && held_text t && is_feof fin); [cbn; rewrite app_nil_r; reflexivity|].
    rewrite (proc_out F t out). destruct (proc F t []) as [[F' o]|]; [|reflexivity]. cbn [app].
    rewrite (IH F' (out ++ o)). rewrite (IH F' o). destruct (spec_from L fin F' []) as [[F'' o'']|]; cbn; [|reflexivity].
    rewrite app_assoc. reflexivity.
Qed.

Fixpoint fold_proc (L : list tokrec) (F : hfb) (out : str) : result (hfb * str) :=
  match L with
  | [] => ROk (F, out)
  | t :: L' => match proc F t out with RErr => RErr | ROk (F', out') => fold_proc L' F' out' end
  end.

Definition last_not_held (La : list tokrec) : Prop := forall La' t, La = La' ++ [t] -> held_text t = false.

Lemma spec_from_app La : forall Lb fin F out,
  Lb <> [] \/ is_feof fin = false \/ last_not_held La ->
  spec_from (La ++ Lb) fin F out =
  match fold_proc La F out with RErr => RErr | ROk (F', out') => spec_from Lb fin F' out' end.
Proof.
  induction La as [|t La IH]; intros Lb fin F out Hc; [reflexivity|].
  cbn [app spec_from fold_proc].
  assert (Hh : is_nil (La ++ Lb) && held_text t && is_feof fin = false).
  { destruct (is_nil (La ++ Lb)) eqn:En; [|reflexivity]. cbn [andb].
    destruct La; [|discriminate]. destruct Lb; [|discriminate].
    destruct Hc as [Hc|[Hc|Hc]]; [congruence|rewrite Hc; apply andb_false_r|].
    rewrite (Hc [] t eq_refl). reflexivity. }
  rewrite Hh. destruct (proc F t out) as [[F' out']|]; [|reflexivity].
  apply IH. destruct Hc as [Hc|[Hc|Hc]]; auto. right. right.
  intros La' t' E. apply (Hc (t :: La') t'). rewrite E. reflexivity.
Qed.

Lemma spec_from_held_last t rt rest F out :
  held_text t = true -> spec_from [t] (FEof rt rest) F out = ROk (set_hold F (t_rt t) (t_td t ++ rest), out).
Proof. intros H. cbn. rewrite H. reflexivity. Qed.

(* the in_error flag is not touched by a successful run *)
Lemma on_start_tag_in_error F tag data : f_in_error (fst (on_start_tag F tag data)) = f_in_error F.
Proof.
  unfold on_start_tag. destruct (opt_is (f_enter F) tag); [|reflexivity].
  destruct (v_enter (f_visitor F) data) as [[[[v' ne] nl] sb] nb]. reflexivity.
Qed.
Lemma on_end_tag_in_error F tag data F' d' : on_end_tag lower sel F tag data = ROk (F', d') -> f_in_error F' = f_in_error F.
Proof.
  unfold on_end_tag. destruct (opt_is (f_leave F) tag).
  - destruct (v_leave lower sel (f_visitor F) _) as [[[[v' ne] nl] nb]|]; [|discriminate]. intros H. injection H as <- _. reflexivity.
  - intros H. injection H as <- _. reflexivity.
Qed.
Lemma emit_in_error F out data : f_in_error (fst (emit F out data)) = f_in_error F.
Proof. unfold emit. destruct (f_buffers F) as [|[t b] rest]; reflexivity. Qed.
Lemma handle_tok_in_error F tk td nm F' d' : handle_tok F tk td nm = ROk (F', d') -> f_in_error F' = f_in_error F.
Proof.
  unfold handle_tok. destruct tk; try (intros H; injection H as <- _; reflexivity); destruct nm as [name|]; try discriminate.
  - pose proof (on_start_tag_in_error F (unwrap_name name) td) as H1. destruct (on_start_tag F (unwrap_name name) td) as [F1 d1]. cbn [fst] in H1.
    destruct (is_void (unwrap_name name)).
    + intros H. apply on_end_tag_in_error in H. congruence.
    + intros H. injection H as <- _. exact H1.
  - apply on_end_tag_in_error.
  - pose proof (on_start_tag_in_error F (unwrap_name name) td) as H1. destruct (on_start_tag F (unwrap_name name) td) as [F1 d1]. cbn [fst] in H1.
    intros H. apply on_end_tag_in_error in H. congruence.
Qed.
Lemma proc_in_error F t out F' o : proc F t out = ROk (F', o) -> f_in_error F' = f_in_error F.
Proof.
  unfold proc. destruct (handle_tok F (t_tk t) (t_td t) (t_nm t)) as [[F2 td3]|] eqn:E; [|discriminate].
  intros H. injection H as H. apply handle_tok_in_error in E. pose proof (emit_in_error F2 out td3) as H2.
  rewrite H in H2. cbn [fst] in H2. congruence.
Qed.
Lemma spec_from_in_error L fin : forall F out F' o, spec_from L fin F out = ROk (F', o) -> f_in_error F' = f_in_error F.
Proof.
  induction L as [|t L IH]; intros F out F' o; cbn [spec_from].
  - destruct fin; [discriminate| |]; intros H; injection H as <- _; reflexivity.
  - destruct (is_nil L && held_text t && is_feof fin); [intros H; injection H as <- _; reflexivity|].
    destruct (proc F t out) as [[F1 o1]|] eqn:E; [|discriminate]. intros H. apply IH in H. apply proc_in_error in E. congruence.
Qed.

(* ------------------------------------------------------------------------- properties of the token stream *)
Lemma tk_raw_eq d s : tk_raw d s = sub d (raw_start s) (raw_end s).
Proof. reflexivity. Qed.
Lemma tk_buffered_eq d s : tk_buffered d s = skipn (raw_end s) d.
Proof. reflexivity. Qed.

Lemma sub_skipn_gen (b : str) i j : i <= j -> sub b i j ++ skipn j b = skipn i b.
Proof.
  intros Hij. unfold sub. replace (skipn j b) with (skipn (j - i) (skipn i b)).
  - apply firstn_skipn.
  - rewrite skipn_skipn'. f_equal. lia.
Qed.

Lemma tinv_app d c2 s : tinv d s -> tinv (d ++ c2) s.
Proof. intros [H1 H2 H3]. constructor; auto. apply (W_app _ _ TF). exact H1. Qed.

Lemma tok_step_eof d s s1 : tinv d s -> tok_step d s = TEof s1 ->
  raw_start s1 = raw_end s /\ raw_end s <= raw_end s1 /\ raw_end s1 <= length d.
Proof.
  intros [HW He Hc] H. unfold tok_step, tk_next in H.
  destruct (next lower d s) as [[tk'|] s1'] eqn:En; [|discriminate].
  destruct (token_eqb tk' ErrorToken || err s1') eqn:Et.
  - injection H as ->. assert (Es : s1 = snd (next lower d s)) by (rewrite En; reflexivity).
    destruct (W_next _ _ TF d s HW He) as [HW1 Hle]. rewrite <- Es in HW1, Hle.
    repeat apply conj; auto. rewrite Es. apply next_raw_start. exact (W_bound _ _ TF _ _ HW1).
  - destruct (as_string (tk_raw d s1')); discriminate.
Qed.

Lemma toks_lossless d : forall g s L rt rest, tinv d s -> toks g d s = (L, FEof rt rest) ->
  skipn (raw_end s) d = concat (map t_td L) ++ rest.
Proof.
  induction g as [|g IH]; intros s L rt rest Hs H; [discriminate|].
  cbn [toks] in H. destruct (tok_step d s) as [|s1|tk td s1] eqn:Et; [discriminate| |].
  - injection H as <- _ <-. destruct (tok_step_eof d s s1 Hs Et) as (E1 & E2 & E3).
    cbn [map concat app]. rewrite tk_raw_eq, tk_buffered_eq, E1. symmetry. apply sub_skipn_gen. exact E2.
  - destruct (tok_step_tok d s tk td s1 Hs Et) as (_ & _ & Etd & Ht1 & Hlt & Ers & Ht3 & Hre3 & _).
    destruct (toks g d (after_tag d s1 tk)) as [L' fin'] eqn:E'. injection H as <- ->.
    cbn [map concat t_td]. rewrite <- app_assoc. rewrite <- (IH _ _ _ _ Ht3 E'). rewrite Hre3.
    rewrite Etd, tk_raw_eq, Ers. symmetry. apply sub_skipn_gen. lia.
Qed.

Lemma toks_head d g s : tinv d s ->
  match toks g d s with
  | (t :: _, _) => t_rt t = raw_tag s
  | ([], FEof rt _) => rt = raw_tag s
  | _ => True
  end.
Proof.
  intros Hs. destruct g as [|g]; [exact I|]. cbn [toks].
  destruct (tok_step d s) as [|s1|tk td s1]; try exact I; try reflexivity.
  destruct (toks g d (after_tag d s1 tk)). reflexivity.
Qed.

Lemma toks_tags d : forall g s L fin, tinv d s -> toks g d s = (L, fin) ->
  Forall (fun t => tag_ok (t_rt t)) L /\ match fin with FEof rt _ => tag_ok rt | _ => True end.
Proof.
  induction g as [|g IH]; intros s L fin Hs H.
  - injection H as <- <-. split; [constructor|exact I].
  - cbn [toks] in H. destruct (tok_step d s) as [|s1|tk td s1] eqn:Et.
    + injection H as <- <-. split; [constructor|exact I].
    + injection H as <- <-. split; [constructor|]. apply (W_tag _ _ TF d). apply Hs.
    + destruct (tok_step_tok d s tk td s1 Hs Et) as (_ & _ & _ & _ & _ & _ & Ht3 & _ & _).
      destruct (toks g d (after_tag d s1 tk)) as [L' fin'] eqn:E'. injection H as <- <-.
      destruct (IH _ _ _ Ht3 E') as [H1 H2]. split; [|exact H2]. constructor; [|exact H1]. cbn. apply (W_tag _ _ TF d). apply Hs.
Qed.

(* prefix stability: a token completed in d is the same token in d ++ c2 *)
Lemma firstn_skipn_app_le (d c2 : list N) a n : a + n <= length d -> firstn n (skipn a (d ++ c2)) = firstn n (skipn a d).
Proof. apply firstn_skipn_app. Qed.

Lemma tk_raw_app d c2 s : raw_start s <= raw_end s -> raw_end s <= length d -> tk_raw (d ++ c2) s = tk_raw d s.
Proof. intros H1 H2. rewrite !tk_raw_eq. unfold sub. apply firstn_skipn_app. lia. Qed.

Lemma tok_step_stable d c2 s tk td s1 : tinv d s -> tok_step d s = TTok tk td s1 ->
  tok_step (d ++ c2) s = TTok tk td s1 /\ tok_name (d ++ c2) s1 tk = tok_name d s1 tk
  /\ after_tag (d ++ c2) s1 tk = after_tag d s1 tk.
Proof.
  intros Hs Et. destruct (tok_step_tok d s tk td s1 Hs Et) as (En & Hne & Etd & Ht1 & Hlt & Ers & Ht3 & Hre3 & _).
  assert (Es : s1 = snd (next lower d s)) by (rewrite En; reflexivity).
  destruct (W_ok _ _ TF _ _ (ti_W _ _ Ht1)) as [Hp Ho].
  assert (En2 : next lower (d ++ c2) s = (ROk tk, s1)).
  { rewrite <- En. apply next_stable; rewrite <- Es; auto. apply Ht1. }
  assert (Er : tk_raw (d ++ c2) s1 = tk_raw d s1).
  { apply tk_raw_app. lia. apply (tinv_bound _ _ Ht1). }
  assert (Etn : is_tag tk = true -> tk_tag_name lower (d ++ c2) s1 = tk_tag_name lower d s1).
  { intros Hit. unfold tk_tag_name. apply stable_tag_name.
    unfold after_tag in Ht3. rewrite Hit in Ht3. unfold tk_tag_name in Ht3.
    destruct (W_ok _ _ TF _ _ (ti_W _ _ Ht3)) as [Hp3 Ho3]. repeat split; auto. apply Ht3. }
  repeat apply conj.
  - unfold tok_step in *. unfold tk_next in *. rewrite En2. rewrite En in Et. rewrite Er. exact Et.
  - unfold tok_name. destruct (is_tag tk) eqn:Hit; [|reflexivity]. rewrite Etn; auto.
  - unfold after_tag. destruct (is_tag tk) eqn:Hit; [|reflexivity]. rewrite Etn; auto.
Qed.

Lemma tok_step_err_stable d c2 s : tinv d s -> tok_step d s = TErr -> tok_step (d ++ c2) s = TErr.
Proof.
  intros [HW He Hc] H. unfold tok_step, tk_next in *.
  destruct (next lower d s) as [[tk|] s1] eqn:En.
  - destruct (token_eqb tk ErrorToken || err s1) eqn:Et; [discriminate|].
    apply orb_false_elim in Et. destruct Et as [Et Ee].
    assert (Es : s1 = snd (next lower d s)) by (rewrite En; reflexivity).
    destruct (W_next _ _ TF d s HW He) as [HW1 Hle]. rewrite <- Es in HW1, Hle.
    destruct (W_ok _ _ TF _ _ HW1) as [Hp Ho].
    assert (En2 : next lower (d ++ c2) s = (ROk tk, s1)).
    { rewrite <- En. apply next_stable; rewrite <- Es; auto. }
    rewrite En2. rewrite Et, Ee. cbn [orb].
    rewrite tk_raw_app; [exact H| |exact (W_bound _ _ TF _ _ HW1)].
    rewrite Es, next_raw_start. rewrite <- Es. exact Hle.
  - assert (Es : s1 = snd (next lower d s)) by (rewrite En; reflexivity).
    assert (Ee : err s1 = false). { rewrite Es. apply next_rerr. rewrite En. reflexivity. }
    destruct (W_next _ _ TF d s HW He) as [HW1 Hle]. rewrite <- Es in HW1, Hle.
    destruct (W_ok _ _ TF _ _ HW1) as [Hp Ho].
    assert (En2 : next lower (d ++ c2) s = (RErr, s1)).
    { rewrite <- En. apply next_stable; rewrite <- Es; auto. }
    rewrite En2. reflexivity.
Qed.

Lemma toks_prefix d c2 : forall La g s Lb fin g2, tinv d s -> suff g d s -> suff g2 (d ++ c2) s ->
  toks g d s = (La ++ Lb, fin) ->
  exists sq, tinv d sq /\ raw_end s <= raw_end sq /\ toks g d sq = (Lb, fin)
    /\ toks g2 (d ++ c2) s = (La ++ fst (toks g2 (d ++ c2) sq), snd (toks g2 (d ++ c2) sq)).
Proof.
  induction La as [|t La IH]; intros g s Lb fin g2 Hs Hg Hg2 H.
  - exists s. repeat apply conj; auto. cbn [app]. destruct (toks g2 (d ++ c2) s); reflexivity.
  - pose proof (tinv_bound _ _ Hs) as Hb. pose proof (tinv_bound _ _ (tinv_app d c2 s Hs)) as Hb2.
    destruct g as [|g]; [discriminate|]. destruct g2 as [|g2]; [unfold suff in Hg2; lia|].
    cbn [toks] in H. destruct (tok_step d s) as [|s1|tk td s1] eqn:Et; [discriminate|discriminate|].
    destruct (tok_step_tok d s tk td s1 Hs Et) as (_ & _ & _ & Ht1 & Hlt & _ & Ht3 & Hre3 & _).
    destruct (tok_step_stable d c2 s tk td s1 Hs Et) as (Et2 & En2 & Ea2).
    destruct (toks g d (after_tag d s1 tk)) as [L' fin'] eqn:E'. cbn [app] in H. injection H as <- HL ->.
    assert (Hg' : suff g d (after_tag d s1 tk)) by (unfold suff in *; lia).
    assert (Hg2' : suff g2 (d ++ c2) (after_tag d s1 tk)) by (unfold suff in *; lia).
    rewrite HL in E'.
    destruct (IH g (after_tag d s1 tk) Lb fin g2 Ht3 Hg' Hg2' E') as (sq & Hq & Hle & Hq1 & Hq2).
    exists sq. repeat apply conj; auto; try lia.
    + rewrite <- Hq1. apply toks_fuel; auto; unfold suff in *; lia.
    + cbn [toks]. rewrite Et2, Ea2, En2, Hq2. cbn [app fst snd].
      assert (Hf : toks g2 (d ++ c2) sq = toks (S g2) (d ++ c2) sq).
      { apply toks_fuel; [apply tinv_app; exact Hq| |]; unfold suff in *; lia. }
      rewrite Hf. reflexivity.
Qed.

Lemma toks_err_stable d c2 g g2 s L : tinv d s -> suff g d s -> suff g2 (d ++ c2) s ->
  toks g d s = (L, FErr) -> toks g2 (d ++ c2) s = (L, FErr).
Proof.
  intros Hs Hg Hg2 H. rewrite <- (app_nil_r L) in H.
  destruct (toks_prefix d c2 L g s [] FErr g2 Hs Hg Hg2 H) as (sq & Hq & Hle & Hq1 & Hq2).
  rewrite Hq2. pose proof (tinv_bound _ _ Hq) as Hb.
  assert (E : toks g2 (d ++ c2) sq = ([], FErr)).
  { destruct g as [|g]; [discriminate|]. cbn [toks] in Hq1.
    destruct (tok_step d sq) as [|s1|tk td s1] eqn:Et; [|discriminate|destruct (toks g d (after_tag d s1 tk)); discriminate].
    destruct g2 as [|g2]; [unfold suff in *; rewrite app_length in *; lia|].
    cbn [toks]. rewrite (tok_step_err_stable d c2 sq Hq Et). reflexivity. }
  rewrite E. cbn. rewrite app_nil_r. reflexivity.
Qed.

(* restart: the tokens from a state at position p are those of a related state on the suffix *)
Lemma tk_raw_shift d p sD sB b : rel p b sD sB -> tk_raw d sD = tk_raw (skipn p d) sB.
Proof.
  intros Hr. rewrite !tk_raw_eq. unfold sub. rewrite (r_rs _ _ _ _ Hr), (r_re _ _ _ _ Hr).
  rewrite skipn_skipn'. f_equal; [lia|]. f_equal. lia.
Qed.
Lemma tk_buffered_shift d p sD sB b : rel p b sD sB -> tk_buffered d sD = tk_buffered (skipn p d) sB.
Proof.
  intros Hr. rewrite !tk_buffered_eq. rewrite (r_re _ _ _ _ Hr). rewrite skipn_skipn'. f_equal. lia.
Qed.

Lemma tok_step_shift d p sD sB b : p <= length d -> rel p b sD sB -> tinv (skipn p d) sB ->
  match tok_step (skipn p d) sB with
  | TErr => tok_step d sD = TErr
  | TEof s1B => exists s1D, tok_step d sD = TEof s1D /\ rel p true s1D s1B
  | TTok tk td s1B => exists s1D, tok_step d sD = TTok tk td s1D /\ rel p true s1D s1B
  end.
Proof.
  intros Hp Hr [HW He Hc].
  destruct (W_next _ _ TF _ _ HW He) as [HW1 _]. destruct (W_ok _ _ TF _ _ HW1) as [Hp1 Ho1].
  destruct (next_shift lower d p sD sB Hp (rel_weaken p b false sD sB (fun H => False_ind _ (Bool.diff_false_true H)) Hr) (conj Hp1 Ho1)) as [Ef Hr1].
  unfold tok_step, tk_next.
  destruct (next lower (skipn p d) sB) as [[tk|] s1B] eqn:EnB; destruct (next lower d sD) as [r1 s1D] eqn:EnD;
    cbn [fst snd is_rok] in *; subst r1; [|reflexivity].
  rewrite (r_err _ _ _ _ Hr1). destruct (token_eqb tk ErrorToken || err s1B).
  - exists s1D. split; [reflexivity|exact Hr1].
  - rewrite (tk_raw_shift d p s1D s1B true Hr1). destruct (as_string (tk_raw (skipn p d) s1B)); [|reflexivity].
    exists s1D. split; [reflexivity|exact Hr1].
Qed.

Lemma toks_shift d p : p <= length d -> forall g sD sB b, rel p b sD sB -> tinv (skipn p d) sB ->
  toks g d sD = toks g (skipn p d) sB.
Proof.
  intros Hp. induction g as [|g IH]; intros sD sB b Hr HB; [reflexivity|].
  cbn [toks]. pose proof (tok_step_shift d p sD sB b Hp Hr HB) as Hs.
  destruct (tok_step (skipn p d) sB) as [|s1B|tk td s1B] eqn:EtB.
  - rewrite Hs. reflexivity.
  - destruct Hs as (s1D & -> & Hr1). rewrite (r_rt _ _ _ _ Hr). rewrite (tk_raw_shift d p s1D s1B true Hr1), (tk_buffered_shift d p s1D s1B true Hr1). reflexivity.
  - destruct Hs as (s1D & -> & Hr1).
    destruct (tok_step_tok _ _ _ _ _ HB EtB) as (_ & _ & _ & Ht1 & _ & _ & Ht3 & _ & _).
    assert (Hnm : tok_name d s1D tk = tok_name (skipn p d) s1B tk /\ rel p true (after_tag d s1D tk) (after_tag (skipn p d) s1B tk)).
    { unfold tok_name, after_tag in *. destruct (is_tag tk); [|auto]. unfold tk_tag_name in *.
      destruct (W_ok _ _ TF _ _ (ti_W _ _ Ht3)) as [Hp3 Ho3].
      destruct (tag_name_shift lower d p s1D s1B Hp Hr1 (conj Hp3 Ho3)) as [Hn Hr3]. split; [|exact Hr3].
      unfold name_of, name_rel in *.
      destruct (fst (tag_name lower d s1D)) as [[n1 b1]|], (fst (tag_name lower (skipn p d) s1B)) as [[n2 b2]|]; try contradiction; congruence. }
    destruct Hnm as [Hn Hr3]. rewrite Hn. rewrite (IH _ _ true Hr3 Ht3). rewrite (r_rt _ _ _ _ Hr). reflexivity.
Qed.

Lemma next_next_init d s : next lower d (next_init s) = next lower d s.
Proof. unfold next. rewrite !bind_upd. reflexivity. Qed.

Lemma toks_next_init d g s : toks g d (next_init s) = toks g d s.
Proof.
  destruct g as [|g]; [reflexivity|]. cbn [toks]. unfold tok_step, tk_next. rewrite next_next_init. reflexivity.
Qed.

Lemma new_fragment_ok rt : tag_ok rt -> new_fragment lower rt = set_raw_tag rt st0.
Proof.
  intros [->|Hin]; [reflexivity|]. unfold new_fragment.
  destruct rt as [|x rt]; [reflexivity|]. cbn [is_nil negb].
  rewrite (W_lower _ _ TF _ Hin). apply mem_str_In in Hin. rewrite Hin. reflexivity.
Qed.

Lemma restart_rel d sq : tinv d sq -> rel (raw_end sq) false (next_init sq) (new_fragment lower (raw_tag sq)).
Proof.
  intros [HW He Hc]. rewrite (new_fragment_ok _ (W_tag _ _ TF _ _ HW)). destruct (W_ok _ _ TF _ _ HW) as [Hp Ho].
  constructor; cbn; auto. discriminate.
Qed.

Lemma tinv_new d rt : tinv d (new_fragment lower rt).
Proof.
  constructor; [apply (W_new _ _ TF)| |]; unfold new_fragment; destruct (negb (is_nil rt)); try reflexivity;
    destruct (mem_str (lower rt) raw_text_elements); reflexivity.
Qed.

(* the tokens from an intermediate state of a run are the tokens of a restarted tokenizer on the rest of the data *)
Lemma toks_restart d g sq : tinv d sq ->
  toks g d sq = toks g (skipn (raw_end sq) d) (new_fragment lower (raw_tag sq)).
Proof.
  intros Hq. rewrite <- toks_next_init.
  apply (toks_shift d (raw_end sq) (tinv_bound _ _ Hq) g _ _ false (restart_rel d sq Hq)). apply tinv_new.
Qed.

(* ---------------------------------------------------------------------------------- (3) the split law *)
Lemma do_filter_spec F c :
  do_filter lower sel F c =
  spec_from (fst (toks (fuel_of (f_last F ++ c)) (f_last F ++ c) (new_fragment lower (f_raw_tag F))))
            (snd (toks (fuel_of (f_last F ++ c)) (f_last F ++ c) (new_fragment lower (f_raw_tag F)))) F [].
Proof. unfold do_filter. apply filter_loop_spec, tinv_new. Qed.

Lemma spec_from_err L : forall F out, spec_from L FErr F out = RErr.
Proof.
  induction L as [|t L IH]; intros F out; cbn [spec_from]; [reflexivity|].
  cbn [is_feof]. rewrite andb_false_r. destruct (proc F t out) as [[F' o']|]; [apply IH|reflexivity].
Qed.

Lemma last_dec (L : list tokrec) : (exists L' t, L = L' ++ [t] /\ held_text t = true) \/ last_not_held L.
Proof.
  induction L as [|x L _] using rev_ind.
  - right. intros La' t E. destruct La'; discriminate.
  - destruct (held_text x) eqn:E.
    + left. exists L, x. auto.
    + right. intros La' t E'. apply app_inj_tail in E'. destruct E' as [_ <-]. exact E.
Qed.

Lemma skipn_app_le {A} (l1 l2 : list A) n : n <= length l1 -> skipn n (l1 ++ l2) = skipn n l1 ++ l2.
Proof. intros H. rewrite skipn_app. replace (n - length l1) with 0 by lia. reflexivity. Qed.

Lemma split_tail F c1 c2 La sq F3 o3 :
  let D1 := f_last F ++ c1 in let D := D1 ++ c2 in let s0 := new_fragment lower (f_raw_tag F) in
  tinv D1 sq ->
  toks (fuel_of D) D s0 = (La ++ fst (toks (fuel_of D) D sq), snd (toks (fuel_of D) D sq)) ->
  do_filter lower sel F c1 =
    match fold_proc La F [] with
    | RErr => RErr
    | ROk (Fm, om) => ROk (set_hold Fm (raw_tag sq) (skipn (raw_end sq) D1), om)
    end ->
  fst (toks (fuel_of D) D sq) <> [] \/ last_not_held La ->
  do_filter lower sel F (c1 ++ c2) = ROk (F3, o3) ->
  exists F1 o1 o2, do_filter lower sel F c1 = ROk (F1, o1) /\ do_filter lower sel F1 c2 = ROk (F3, o2) /\ o3 = o1 ++ o2.
Proof.
  intros D1 D s0 Hq HtD HA Hc HD.
  assert (HqD : tinv D sq) by (apply tinv_app; exact Hq).
  pose proof (tinv_bound _ _ Hq) as Hb.
  rewrite do_filter_spec in HD. rewrite app_assoc in HD. fold D1 D s0 in HD. rewrite HtD in HD. cbn [fst snd] in HD.
  destruct (toks (fuel_of D) D sq) as [LbD finD] eqn:EqD. cbn [fst snd] in *.
  assert (Hfeof : is_feof finD = true).
  { destruct finD; [|reflexivity|].
    - rewrite spec_from_err in HD. discriminate.
    - exfalso. apply (toks_no_fuel D (fuel_of D) sq HqD (suff_fuel_of D sq)). rewrite EqD. reflexivity. }
  rewrite spec_from_app in HD by (destruct Hc as [Hc|Hc]; auto).
  rewrite HA. destruct (fold_proc La F []) as [[Fm om]|]; [|discriminate].
  rewrite spec_from_out in HD. destruct (spec_from LbD finD Fm []) as [[F3' o2]|] eqn:EB; [|discriminate].
  cbn [pre_out] in HD. injection HD as <- <-.
  exists (set_hold Fm (raw_tag sq) (skipn (raw_end sq) D1)), om, o2. repeat apply conj; auto.
  rewrite do_filter_spec. cbn [set_hold f_last f_raw_tag].
  rewrite <- (skipn_app_le D1 c2 (raw_end sq) Hb). fold D.
  rewrite <- (toks_restart D _ sq HqD).
  rewrite (toks_fuel D (fuel_of (skipn (raw_end sq) D)) (fuel_of D) sq HqD).
  - rewrite EqD. cbn [fst snd]. rewrite spec_from_hold by exact Hfeof. exact EB.
  - unfold suff, fuel_of. rewrite skipn_length. pose proof (tinv_bound _ _ HqD). lia.
  - apply suff_fuel_of.
Qed.

Theorem do_filter_split F c1 c2 F3 o3 :
  do_filter lower sel F (c1 ++ c2) = ROk (F3, o3) ->
  exists F1 o1 o2, do_filter lower sel F c1 = ROk (F1, o1) /\ do_filter lower sel F1 c2 = ROk (F3, o2) /\ o3 = o1 ++ o2.
Proof.
  intros HD. set (D1 := f_last F ++ c1). set (D := D1 ++ c2). set (s0 := new_fragment lower (f_raw_tag F)).
  assert (Hs0 : tinv D1 s0) by apply tinv_new.
  destruct (toks (fuel_of D1) D1 s0) as [L1 fin1] eqn:E1.
  destruct fin1 as [|rt1 rest1|].
  - (* an error in the first chunk is an error in the whole *)
    exfalso. pose proof (toks_err_stable D1 c2 (fuel_of D1) (fuel_of D) s0 L1 Hs0 (suff_fuel_of _ _) (suff_fuel_of _ _) E1) as E2.
    rewrite do_filter_spec in HD. rewrite app_assoc in HD. fold D1 D s0 in HD. fold D in E2. rewrite E2 in HD. cbn [fst snd] in HD.
    rewrite spec_from_err in HD. discriminate.
  - destruct (last_dec L1) as [(L1' & tn & -> & Hh)|Hnh].
    + (* the last complete token is a text containing '<': it is held back *)
      destruct (toks_prefix D1 c2 L1' (fuel_of D1) s0 [tn] (FEof rt1 rest1) (fuel_of D) Hs0 (suff_fuel_of _ _) (suff_fuel_of _ _) E1)
        as (sq & Hq & _ & Hq1 & Hq2).
      apply (split_tail F c1 c2 L1' sq F3 o3 Hq Hq2); auto.
      * rewrite do_filter_spec. fold D1 s0. rewrite E1. cbn [fst snd].
        rewrite spec_from_app by (left; discriminate).
        destruct (fold_proc L1' F []) as [[Fm om]|]; [|reflexivity].
        rewrite spec_from_held_last by exact Hh.
        pose proof (toks_head D1 (fuel_of D1) sq Hq) as Hhd. rewrite Hq1 in Hhd. rewrite Hhd.
        pose proof (toks_lossless D1 _ sq _ _ _ Hq Hq1) as Hl. cbn [map concat] in Hl. rewrite app_nil_r in Hl. rewrite Hl. reflexivity.
      * left. change [tn] with ([tn] ++ []) in Hq1.
        destruct (toks_prefix D1 c2 [tn] (fuel_of D1) sq [] (FEof rt1 rest1) (fuel_of D) Hq (suff_fuel_of _ _) (suff_fuel_of _ _) Hq1)
          as (sq' & _ & _ & _ & Hq2').
        change (fst (toks (fuel_of D) (D1 ++ c2) sq) <> []). rewrite Hq2'. cbn. discriminate.
    + rewrite <- (app_nil_r L1) in E1.
      destruct (toks_prefix D1 c2 L1 (fuel_of D1) s0 [] (FEof rt1 rest1) (fuel_of D) Hs0 (suff_fuel_of _ _) (suff_fuel_of _ _) E1)
        as (sq & Hq & _ & Hq1 & Hq2).
      apply (split_tail F c1 c2 L1 sq F3 o3 Hq Hq2); auto.
      rewrite do_filter_spec. fold D1 s0. rewrite E1. cbn [fst snd].
      rewrite spec_from_app by (right; right; exact Hnh).
      destruct (fold_proc L1 F []) as [[Fm om]|]; [|reflexivity]. cbn [spec_from].
      pose proof (toks_head D1 (fuel_of D1) sq Hq) as Hhd. rewrite Hq1 in Hhd. rewrite Hhd.
      pose proof (toks_lossless D1 _ sq _ _ _ Hq Hq1) as Hl. cbn [map concat app] in Hl. rewrite Hl. reflexivity.
  - exfalso. apply (toks_no_fuel D1 (fuel_of D1) s0 Hs0 (suff_fuel_of _ _)). rewrite E1. reflexivity.
Qed.

Lemma do_filter_in_error F c F' o : do_filter lower sel F c = ROk (F', o) -> f_in_error F' = f_in_error F.
Proof. rewrite do_filter_spec. apply spec_from_in_error. Qed.

(* the law for the stage: whenever the run on c1 ++ c2 does not end in the error state *)
Theorem hfb_split_law_noerr F c1 c2 :
  f_in_error (fst (hfb_filter lower sel F (c1 ++ c2))) = false ->
  (let '(F1, o1) := hfb_filter lower sel F c1 in let '(F2, o2) := hfb_filter lower sel F1 c2 in (F2, o1 ++ o2))
  = hfb_filter lower sel F (c1 ++ c2)
  /\ f_in_error (fst (hfb_filter lower sel F c1)) = false.
Proof.
  intros Hne.
  assert (EF : f_in_error F = false).
  { unfold hfb_filter in Hne. destruct (f_in_error F) eqn:E; [cbn in Hne; congruence|reflexivity]. }
  destruct (do_filter lower sel F (c1 ++ c2)) as [[F3 o3]|] eqn:ED.
  2:{ unfold hfb_filter in Hne. rewrite EF, ED in Hne. discriminate. }
  destruct (do_filter_split F c1 c2 F3 o3 ED) as (F1 & o1 & o2 & E1 & E2 & ->).
  pose proof (do_filter_in_error _ _ _ _ E1) as EF1. rewrite EF in EF1.
  assert (H1 : hfb_filter lower sel F c1 = (F1, o1)) by (unfold hfb_filter; rewrite EF, E1; reflexivity).
  assert (H2 : hfb_filter lower sel F1 c2 = (F3, o2)) by (unfold hfb_filter; rewrite EF1, E2; reflexivity).
  assert (H3 : hfb_filter lower sel F (c1 ++ c2) = (F3, o1 ++ o2)) by (unfold hfb_filter; rewrite EF, ED; reflexivity).
  rewrite H1, H2, H3. auto.
Qed.

(* partial results that need no side condition *)
Theorem hfb_split_law_in_error_partial F c1 c2 : f_in_error F = true ->
  (let '(F1, o1) := hfb_filter lower sel F c1 in let '(F2, o2) := hfb_filter lower sel F1 c2 in (F2, o1 ++ o2))
  = hfb_filter lower sel F (c1 ++ c2).
Proof. intros H. unfold hfb_filter. rewrite H. rewrite H. reflexivity. Qed.

(* ---------------------------------------------------------------------------------- conservation (C04) *)
(* When no tag token of the chunk is the element the visitor waits for (enter / leave), the stage only moves bytes:
   what it returns followed by what it holds is what it held followed by the chunk.  Partial: runs in which the
   visitor fires are not covered. *)
Definition heldb (F : hfb) : list N := flat_map snd (rev (f_buffers F)).
Lemma held_heldb F : held F = heldb F ++ f_last F.
Proof. reflexivity. Qed.

Definition quiet_tok (e l : option str) (t : tokrec) : Prop :=
  is_tag (t_tk t) = true ->
  match t_nm t with
  | ROk n => opt_is e (unwrap_name n) = false /\ opt_is l (unwrap_name n) = false
  | RErr => True
  end.

Lemma emit_heldb F out d : snd (emit F out d) ++ heldb (fst (emit F out d)) = out ++ heldb F ++ d
  /\ f_enter (fst (emit F out d)) = f_enter F /\ f_leave (fst (emit F out d)) = f_leave F.
Proof.
  unfold emit, heldb. destruct (f_buffers F) as [|[t b] rest] eqn:E; cbn [fst snd f_buffers f_enter f_leave].
  - rewrite E. cbn. rewrite app_nil_r. auto.
  - cbn [rev]. rewrite !flat_map_app. cbn [flat_map snd]. rewrite !app_nil_r, !app_assoc. auto.
Qed.

Lemma on_start_tag_quiet F tag data : opt_is (f_enter F) tag = false -> on_start_tag F tag data = (F, data).
Proof. intros H. unfold on_start_tag. rewrite H. reflexivity. Qed.

Lemma on_end_tag_quiet F tag data : opt_is (f_leave F) tag = false ->
  exists F' d', on_end_tag lower sel F tag data = ROk (F', d')
    /\ f_enter F' = f_enter F /\ f_leave F' = f_leave F /\ heldb F' ++ d' = heldb F ++ data.
Proof.
  intros H. unfold on_end_tag. rewrite H. unfold heldb.
  destruct (f_buffers F) as [|[t b] rest] eqn:E.
  - eexists _, _. split; [reflexivity|]. cbn [f_enter f_leave f_buffers]. rewrite ?E. auto.
  - destruct (str_eqb t tag); eexists _, _; (split; [reflexivity|]); cbn [f_enter f_leave f_buffers tl]; rewrite ?E; auto.
    repeat split. cbn [rev]. rewrite flat_map_app. cbn [flat_map snd]. rewrite app_nil_r, app_assoc. reflexivity.
Qed.

Lemma handle_tok_quiet F t F' d' : quiet_tok (f_enter F) (f_leave F) t ->
  handle_tok F (t_tk t) (t_td t) (t_nm t) = ROk (F', d') ->
  f_enter F' = f_enter F /\ f_leave F' = f_leave F /\ heldb F' ++ d' = heldb F ++ t_td t.
Proof.
  unfold quiet_tok, handle_tok. intros Hq H.
  destruct (t_tk t); cbn [is_tag] in Hq; try (injection H as <- <-; auto);
    specialize (Hq eq_refl); destruct (t_nm t) as [name|]; try discriminate; destruct Hq as [He Hl].
  - rewrite (on_start_tag_quiet F _ _ He) in H. destruct (is_void (unwrap_name name)).
    + destruct (on_end_tag_quiet F (unwrap_name name) (t_td t) Hl) as (F2 & d2 & E & H1 & H2 & H3). rewrite E in H. injection H as <- <-. auto.
    + injection H as <- <-. auto.
  - destruct (on_end_tag_quiet F (unwrap_name name) (t_td t) Hl) as (F2 & d2 & E & H1 & H2 & H3). rewrite E in H. injection H as <- <-. auto.
  - rewrite (on_start_tag_quiet F _ _ He) in H.
    destruct (on_end_tag_quiet F (unwrap_name name) (t_td t) Hl) as (F2 & d2 & E & H1 & H2 & H3). rewrite E in H. injection H as <- <-. auto.
Qed.

Lemma proc_quiet F t out F' out' : quiet_tok (f_enter F) (f_leave F) t -> proc F t out = ROk (F', out') ->
  f_enter F' = f_enter F /\ f_leave F' = f_leave F /\ out' ++ heldb F' = out ++ heldb F ++ t_td t.
Proof.
  intros Hq H. unfold proc in H. destruct (handle_tok F (t_tk t) (t_td t) (t_nm t)) as [[F2 d2]|] eqn:E; [|discriminate].
  destruct (handle_tok_quiet F t F2 d2 Hq E) as (H1 & H2 & H3).
  destruct (emit_heldb F2 out d2) as (H4 & H5 & H6). injection H as H. rewrite H in *. cbn [fst snd] in *.
  repeat split; congruence.
Qed.

Lemma spec_from_quiet L rt rest : forall F out F' out',
  Forall (quiet_tok (f_enter F) (f_leave F)) L ->
  spec_from L (FEof rt rest) F out = ROk (F', out') ->
  out' ++ held F' = out ++ heldb F ++ concat (map t_td L) ++ rest.
Proof.
  induction L as [|t L IH]; intros F out F' out' Hq H; cbn [spec_from] in H.
  - injection H as <- <-. rewrite held_heldb. cbn. reflexivity.
  - destruct (is_nil L && held_text t && is_feof (FEof rt rest)) eqn:Eh.
    + injection H as <- <-. apply andb_prop in Eh. destruct Eh as [Eh _]. apply andb_prop in Eh. destruct Eh as [Eh _].
      destruct L; [|discriminate]. rewrite held_heldb. cbn. rewrite app_nil_r. reflexivity.
    + inversion Hq as [|? ? Hq1 Hq2]; subst. destruct (proc F t out) as [[F1 out1]|] eqn:Ep; [|discriminate].
      destruct (proc_quiet F t out F1 out1 Hq1 Ep) as (H1 & H2 & H3).
      rewrite <- H1, <- H2 in Hq2. rewrite (IH F1 out1 F' out' Hq2 H). cbn [map concat].
      rewrite app_assoc. rewrite H3. rewrite <- !app_assoc. reflexivity.
Qed.

Theorem hfb_conservation_partial F input :
  f_in_error F = false ->
  Forall (quiet_tok (f_enter F) (f_leave F))
         (fst (toks (fuel_of (f_last F ++ input)) (f_last F ++ input) (new_fragment lower (f_raw_tag F)))) ->
  snd (hfb_filter lower sel F input) ++ held (fst (hfb_filter lower sel F input)) = held F ++ input.
Proof.
  intros HE Hq. unfold hfb_filter. rewrite HE.
  destruct (do_filter lower sel F input) as [[F' out]|] eqn:ED; cbn [fst snd].
  - rewrite do_filter_spec in ED. set (d := f_last F ++ input) in *. set (s0 := new_fragment lower (f_raw_tag F)) in *.
    assert (Hs0 : tinv d s0) by apply tinv_new.
    destruct (toks (fuel_of d) d s0) as [L fin] eqn:Et. cbn [fst snd] in *.
    destruct fin as [|rt rest|].
    + rewrite spec_from_err in ED. discriminate.
    + rewrite (spec_from_quiet L rt rest F [] F' out Hq ED). cbn [app].
      pose proof (toks_lossless d _ s0 L rt rest Hs0 Et) as Hl.
      assert (E0 : raw_end s0 = 0) by apply new_fragment_raw_end. rewrite E0 in Hl. cbn [skipn] in Hl.
      rewrite <- Hl. unfold d. rewrite held_heldb. rewrite app_assoc. reflexivity.
    + exfalso. apply (toks_no_fuel d (fuel_of d) s0 Hs0 (suff_fuel_of _ _)). rewrite Et. reflexivity.
  - unfold held. cbn. rewrite app_nil_r. reflexivity.
Qed.

End Split.

(* ------------------------------------------------------------------------------------------------------ *)
(* A variant of RIO.ChainProofs for stages whose split law holds as long as the stage does not enter an (absorbing)
   error state: the chain is chunk invariant on every input on which no stage ends in error. *)
Section ChainIf.
Variable stage : Type.
Variable tf : stage -> str -> stage * str.
Variable te : stage -> stage * str.
Variable okp : stage -> Prop.                         (* "not in the error state" *)

Definition split_law_if (s : stage) : Prop :=
  forall c1 c2, okp (fst (tf s (c1 ++ c2))) ->
    (let '(s1, o1) := tf s c1 in let '(s2, o2) := tf s1 c2 in (s2, o1 ++ o2)) = tf s (c1 ++ c2)
    /\ okp (fst (tf s c1)).

Variable good : stage -> Prop.
Hypothesis good_split : forall s, good s -> split_law_if s.
Hypothesis good_tf : forall s d, good s -> good (fst (tf s d)).
Hypothesis okp_back : forall s d, okp (fst (tf s d)) -> okp s.

Notation cf := (cf stage tf).

Lemma cf_okp_back chain : forall d, Forall okp (fst (cf chain d)) -> Forall okp chain.
Proof.
  induction chain as [|st rest IH]; intros d H; [constructor|]. cbn [ChainProofs.cf] in H.
  pose proof (okp_back st d) as Hb. destruct (tf st d) as [s1 o1]. cbn [fst] in Hb.
  destruct (is_nil o1).
  - cbn [fst] in H. inversion H; subst. constructor; auto.
  - specialize (IH o1). destruct (cf rest o1) as [rest' o']. cbn [fst] in *. inversion H; subst. constructor; auto.
Qed.

Theorem chain_split_if chain : Forall good chain -> forall c1 c2,
  Forall okp (fst (cf chain (c1 ++ c2))) ->
  (let '(ch1, o1) := cf chain c1 in let '(ch2, o2) := cf ch1 c2 in (ch2, o1 ++ o2)) = cf chain (c1 ++ c2)
  /\ Forall okp (fst (cf chain c1)).
Proof.
  induction chain as [|st rest IH]; intros Hg c1 c2 Hok; cbn [ChainProofs.cf] in *; [split; [reflexivity|constructor]|].
  inversion Hg as [|? ? Hs Hr]; subst.
  assert (Hok1 : okp (fst (tf st (c1 ++ c2)))).
  { destruct (tf st (c1 ++ c2)) as [s o]. destruct (is_nil o); [|destruct (cf rest o)]; cbn [fst] in *; inversion Hok; assumption. }
  destruct (good_split st Hs c1 c2 Hok1) as [Hsplit Hp1].
  destruct (tf st c1) as [s1 o1] eqn:E1. destruct (tf s1 c2) as [s2 o2] eqn:E2. rewrite <- Hsplit in *. clear Hsplit.
  cbn [fst] in Hp1. rewrite is_nil_app in *.
  destruct o1 as [|x1 o1'], o2 as [|x2 o2'].
  - cbn [is_nil andb ChainProofs.cf app fst] in *. rewrite E2. cbn [is_nil]. split; [reflexivity|]. inversion Hok; subst. constructor; assumption.
  - cbn [is_nil andb ChainProofs.cf app fst] in *. rewrite E2. cbn [is_nil].
    destruct (cf rest (x2 :: o2')) as [R2 o2''] eqn:ER. split; [reflexivity|]. cbn [fst] in Hok. inversion Hok; subst.
    constructor; [assumption|]. apply (cf_okp_back rest (x2 :: o2')). rewrite ER. assumption.
  - cbn [is_nil andb] in *. rewrite app_nil_r in *. destruct (cf rest (x1 :: o1')) as [R1 o1''] eqn:ER. cbn [ChainProofs.cf].
    rewrite E2. cbn [is_nil]. rewrite app_nil_r. split; [reflexivity|]. cbn [fst] in *. inversion Hok; subst. constructor; assumption.
  - cbn [is_nil andb] in *.
    assert (Hokr : Forall okp (fst (cf rest ((x1 :: o1') ++ x2 :: o2')))).
    { destruct (cf rest ((x1 :: o1') ++ x2 :: o2')). cbn [fst] in *. inversion Hok; assumption. }
    destruct (IH Hr (x1 :: o1') (x2 :: o2') Hokr) as [IHr IHp].
    destruct (cf rest (x1 :: o1')) as [R1 o1''] eqn:ER. cbn [ChainProofs.cf]. rewrite E2. cbn [is_nil].
    destruct (cf R1 (x2 :: o2')) as [R2 o2''] eqn:ER2. rewrite <- IHr. split; [reflexivity|]. cbn [fst] in *. constructor; assumption.
Qed.

Notation run := (run stage tf te).

Theorem run_merge_if chain c1 c2 cs : Forall good chain -> Forall okp (fst (cf chain (c1 ++ c2))) ->
  run chain (c1 :: c2 :: cs) = run chain ((c1 ++ c2) :: cs).
Proof.
  intros Hg Hok. rewrite !run_cons. destruct (chain_split_if chain Hg c1 c2 Hok) as [H _].
  destruct (cf chain c1) as [ch1 o1]. cbn [fst snd]. destruct (cf ch1 c2) as [ch2 o2] eqn:E2. rewrite <- H. cbn [fst snd].
  rewrite app_assoc. reflexivity.
Qed.

Theorem run_chunk_invariant_if chain c cs : Forall good chain ->
  Forall okp (fst (cf chain (concat (c :: cs)))) ->
  run chain (c :: cs) = run chain [concat (c :: cs)].
Proof.
  intros Hg. revert c. induction cs as [|c2 cs IH]; intros c Hok; cbn [concat] in *; [rewrite app_nil_r; reflexivity|].
  rewrite app_assoc in Hok.
  destruct (chain_split_if chain Hg (c ++ c2) (concat cs) Hok) as [_ Hp].
  rewrite run_merge_if by assumption. rewrite IH by (cbn [concat]; exact Hok). cbn [concat]. rewrite app_assoc. reflexivity.
Qed.
End ChainIf.

(* ------------------------------------------------------------------------------------------------------ *)
Section Body.
Variable lower : str -> str.
Variable sel : str -> str -> bool.
Variable W : list N -> st -> Prop.
Hypothesis TF : tok_facts lower W.

(* a stage that is not in the error state (text stages have none) *)
Definition stage_ok (st : stage) : Prop :=
  match st with StText _ => True | StHtml F => f_in_error F = false end.

Theorem html_stage_split_law_if F : split_law_if stage (stage_tf lower sel) stage_ok (StHtml F).
Proof.
  intros c1 c2 Hok. cbn [stage_tf] in *.
  assert (Hne : f_in_error (fst (hfb_filter lower sel F (c1 ++ c2))) = false).
  { destruct (hfb_filter lower sel F (c1 ++ c2)). exact Hok. }
  destruct (hfb_split_law_noerr lower sel W TF F c1 c2 Hne) as [H1 H2].
  destruct (hfb_filter lower sel F c1) as [F1 o1]. cbn [stage_tf]. destruct (hfb_filter lower sel F1 c2) as [F2 o2].
  rewrite <- H1. split; [reflexivity|exact H2].
Qed.

Theorem stage_split_law_if st : split_law_if stage (stage_tf lower sel) stage_ok st.
Proof.
  destruct st as [t|F]; [|apply html_stage_split_law_if].
  intros c1 c2 _. split; [apply text_stage_split|]. cbn [stage_tf]. destruct (text_filter t c1). exact I.
Qed.

Lemma stage_ok_back st d : stage_ok (fst (stage_tf lower sel st d)) -> stage_ok st.
Proof.
  destruct st as [t|F]; [intros; exact I|]. cbn [stage_tf]. unfold hfb_filter.
  destruct (f_in_error F) eqn:E; [cbn; congruence|intros _; cbn; exact E].
Qed.

(* chunk invariance of the whole body filter on every body on which no HTML stage ends in the error state *)
Theorem body_chunk_invariant ctok fs c cs :
  Forall stage_ok (fst (cf stage (stage_tf lower sel) (stages_of ctok fs) (concat (c :: cs)))) ->
  body_run lower sel ctok fs (c :: cs) = body_run lower sel ctok fs [concat (c :: cs)].
Proof.
  intros Hok. rewrite !body_run_total.
  apply (run_chunk_invariant_if stage (stage_tf lower sel) stage_te stage_ok (fun _ => True)); auto.
  - intros s _. apply stage_split_law_if.
  - apply stage_ok_back.
  - apply Forall_forall. auto.
Qed.
End Body.

(* ------------------------------------------------------------------------------------------------------ *)
(* The tokenizer facts hold for the invariant [wf0] of RIO.HtmlTokProofs (totality of [next], C16_next_total),
   for every lowercase oracle that is ASCII lowercasing on the ten raw-text element names. *)
Lemma raw_elements_lower : forallb (fun t => str_eqb (map ascii_lower t) t) raw_text_elements = true.
Proof. vm_compute. reflexivity. Qed.

Theorem tok_facts_wf0 lower : lower_ok lower -> tok_facts lower wf0.
Proof.
  intros LO. constructor.
  - intros d s (_ & Hp & Ho & _). auto.
  - intros d s (Hb & _). exact Hb.
  - intros d s (_ & _ & _ & _ & Ht & _). exact Ht.
  - intros d d' s (Hb & Hp & Ho & Ha & Ht & Hn). unfold wf0. rewrite app_length. repeat apply conj; auto; try lia.
    eapply Forall_impl; [|exact Ha]. intros a [[A1 A2] [A3 A4]]. repeat split; auto; lia.
  - intros d ctx. apply new_fragment_wf0.
  - intros d s HW He. destruct (next lower d s) as [r s'] eqn:En.
    destruct (next_spec lower d s r s' LO HW En) as (Hwf & Hrs & _). cbn [snd]. split; [apply wf0_of; exact Hwf|].
    rewrite <- Hrs. apply (wf_start _ _ Hwf).
  - intros d s tk HW He Hf Hne Hee. destruct (next lower d s) as [r s'] eqn:En. cbn [fst snd] in *.
    destruct (next_spec lower d s r s' LO HW En) as (Hwf & Hrs & _ & _ & _ & Hp). apply (Hp tk); assumption.
  - intros d s tk HW He Hf. destruct (next lower d s) as [r s'] eqn:En. cbn [fst snd] in *.
    destruct (next_spec lower d s r s' LO HW En) as (Hwf & Hrs & Hd1 & Hd2 & _).
    destruct (tag_name lower d s') as [a s''] eqn:Et. cbn [snd].
    destruct (tag_name_spec lower d s' a s'' Hwf (conj Hd1 Hd2) Et) as (Hwf' & _). apply wf0_of; exact Hwf'.
  - intros t Hin. pose proof raw_elements_lower as H. rewrite forallb_forall in H. specialize (H t Hin).
    apply str_eqb_spec in H. rewrite <- H at 2. apply LO. rewrite H. exact Hin.
Qed.

Lemma lower_ok_ascii : lower_ok (map ascii_lower).
Proof. intros t _. reflexivity. Qed.

(* the split law of the HTML stage, for every state of the stage: holds unless the run on c1 ++ c2 ends in the error state *)
Theorem hfb_split_law lower sel : lower_ok lower -> forall F, split_law_if stage (stage_tf lower sel) stage_ok (StHtml F).
Proof. intros LO F. exact (html_stage_split_law_if lower sel wf0 (tok_facts_wf0 lower LO) F). Qed.

Theorem body_chunk_invariance lower sel ctok fs c cs : lower_ok lower ->
  Forall stage_ok (fst (cf stage (stage_tf lower sel) (stages_of ctok fs) (concat (c :: cs)))) ->
  body_run lower sel ctok fs (c :: cs) = body_run lower sel ctok fs [concat (c :: cs)].
Proof. intros LO. exact (body_chunk_invariant lower sel wf0 (tok_facts_wf0 lower LO) ctok fs c cs). Qed.
