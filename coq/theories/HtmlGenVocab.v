(* HtmlGenVocab.v — the documents of the C15 generator (harness/src/c03.rs: gen_filler, gen_doc) pass the token-by-token
   check [HtmlCompose.doc_ok]: every tree, of any shape and size, whose tags, attribute strings, comments and raw-text
   elements are taken from the generator's vocabulary and whose texts contain no '<' (or are the doctype).
   The vocabulary is checked token by token by the kernel (vm_compute on ~200 isolated tokens); the trees are then
   handled by induction.  Lower-casing is ASCII (C03Run.lower_ascii), as in the correspondence run. *)
Require Import Coq.Strings.String Coq.Strings.Ascii.
Require Import RIO.Base RIO.TokMonad RIO.HtmlTok RIO.BodyText RIO.HtmlFilter RIO.C03Run
  RIO.Dom RIO.HtmlTokens RIO.HtmlBridge RIO.HtmlInsert RIO.HtmlCompose.
Close Scope N_scope.
Open Scope nat_scope.

Fixpoint bs (s : string) : list N := match s with EmptyString => [] | String c r => N_of_ascii c :: bs r end.

(* const ATTRS, plus the attribute of the marked element of the C15 generator *)
Definition ATTRS : list str :=
  map bs [""; " class=""a"""; " id='x y'"; " data-k=v"; " title=""a>b"""; " hidden"; " a=""1"" b='2' c=3"; " class=""mark"""]%string.
(* FILLER_TAGS, the path html > body > main > article, the marked element *)
Definition ELEM_NAMES : list str := map bs ["span"; "em"; "section"; "li"; "P"; "DIV2"; "html"; "body"; "main"; "article"]%string.
Definition VOID_NAMES : list str := map bs ["br"; "img"; "meta"; "hr"]%string.
Definition SELF_NAMES : list str := map bs ["x-a"; "use"; "html"; "body"; "main"; "article"]%string.
Definition COMMENTS : list str := map bs [" c "; "</body>"; "<p>"; " a -- b "; ""]%string.
Definition SCRIPTS : list str := map bs ["var a = 1;"; "if (a < b) { x(); }"; "document.write('</p><body>');"; "<!-- x -->"; "a<b"; ""]%string.
Definition RAWTEXTS : list str := map bs ["a </head> b"; "x </body> y <p>"; "</main></article>"; "<b>bold</b> &amp; </html>"; "plain"; ""]%string.
Definition SCRIPT_NAMES : list str := map bs ["script"; "style"]%string.
Definition RAW_NAMES : list str := map bs ["title"; "textarea"; "noscript"; "xmp"; "iframe"]%string.
Definition DOCTYPE : str := bs "<!DOCTYPE html>".

Fixpoint gen_node (n : node) : bool :=
  match n with
  | Elem t a ch => mem_str t ELEM_NAMES && mem_str a ATTRS && forallb gen_node ch
  | Void t a => mem_str t VOID_NAMES && mem_str a ATTRS
  | SelfClosing t a => mem_str t SELF_NAMES && mem_str a ATTRS
  | Text s => (negb (contains_lt s) && utf8_valid s) || str_eqb s DOCTYPE
  | Comment s => mem_str s COMMENTS
  | Raw t s => (mem_str t SCRIPT_NAMES && mem_str s SCRIPTS) || (mem_str t RAW_NAMES && mem_str s RAWTEXTS)
  end.

Notation lw := lower_ascii.
Definition open_ok (t a : str) : bool := iso_ok lw (open_tag t a) [DStart (lw t) (open_tag t a)].
Definition close_ok (t : str) : bool := iso_ok lw (close_tag t) [DEnd (lw t) (close_tag t)].
Definition self_ok (t a : str) : bool := iso_ok lw (self_tag t a) [DSelf (lw t) (self_tag t a)].
Definition comment_ok (s : str) : bool := iso_ok lw (comment_open ++ s ++ comment_close) [DOther (comment_open ++ s ++ comment_close)].
(* [raw_toks]: start tag, text, end tag; for the EMPTY content ("" is in SCRIPTS and RAWTEXTS) start tag, end tag only,
   which is what the tokenizer gives on <script></script>, <title></title>, ... *)
Definition raw_ok (t s : str) : bool := iso_ok lw (open_tag t [] ++ s ++ close_tag t) (raw_toks lw t s).

(* the vocabulary, token by token (kernel evaluation) *)
Lemma vocab_open : forallb (fun t => forallb (open_ok t) ATTRS) ELEM_NAMES = true.
Proof. vm_compute. reflexivity. Qed.
Lemma vocab_close : forallb close_ok ELEM_NAMES = true.
Proof. vm_compute. reflexivity. Qed.
Lemma vocab_void : forallb (fun t => forallb (open_ok t) ATTRS) VOID_NAMES = true.
Proof. vm_compute. reflexivity. Qed.
Lemma vocab_self : forallb (fun t => forallb (self_ok t) ATTRS) SELF_NAMES = true.
Proof. vm_compute. reflexivity. Qed.
Lemma vocab_comment : forallb comment_ok COMMENTS = true.
Proof. vm_compute. reflexivity. Qed.
Lemma vocab_script : forallb (fun t => forallb (raw_ok t) SCRIPTS) SCRIPT_NAMES = true.
Proof. vm_compute. reflexivity. Qed.
Lemma vocab_raw : forallb (fun t => forallb (raw_ok t) RAWTEXTS) RAW_NAMES = true.
Proof. vm_compute. reflexivity. Qed.
Lemma vocab_doctype : iso_ok lw DOCTYPE [DOther DOCTYPE] = true.
Proof. vm_compute. reflexivity. Qed.

(* the checks are never to be unfolded by conversion below (that would run the tokenizer symbolically) *)
Opaque iso_ok.

Lemma forallb2_In {A B} (f : A -> B -> bool) la lb a b :
  forallb (fun x => forallb (f x) lb) la = true -> In a la -> In b lb -> f a b = true.
Proof. intros H Ha Hb. rewrite forallb_forall in H. specialize (H a Ha). rewrite forallb_forall in H. apply H. exact Hb. Qed.

Lemma gen_node_items n : gen_node n = true -> forallb (item_ok lw) (node_items lw n) = true.
Proof.
  induction n as [t a ch IH|t a|t a|s|s|t s] using node_ind2; intros H.
  - change (gen_node (Elem t a ch)) with (mem_str t ELEM_NAMES && mem_str a ATTRS && forallb gen_node ch) in H.
    change (forallb (item_ok lw) (node_items lw (Elem t a ch)))
      with (open_ok t a && forallb (item_ok lw) (flat_map (node_items lw) ch ++ [IUnit (close_tag t) [DEnd (lw t) (close_tag t)]])).
    apply andb_prop in H. destruct H as [H Hch]. apply andb_prop in H. destruct H as [Ht Ha].
    apply mem_str_In in Ht. apply mem_str_In in Ha.
    rewrite (forallb2_In open_ok _ _ t a vocab_open Ht Ha). rewrite forallb_app.
    change (forallb (item_ok lw) [IUnit (close_tag t) [DEnd (lw t) (close_tag t)]]) with (close_ok t && true).
    pose proof vocab_close as Hc. rewrite forallb_forall in Hc. rewrite (Hc t Ht).
    change (true && true) with true. rewrite andb_true_r. change (true && ?x) with x.
    clear - IH Hch. induction IH as [|x l Hx Hl IHl]; [reflexivity|].
    change (forallb gen_node (x :: l)) with (gen_node x && forallb gen_node l) in Hch. apply andb_prop in Hch. destruct Hch as [H1 H2].
    change (flat_map (node_items lw) (x :: l)) with (node_items lw x ++ flat_map (node_items lw) l).
    rewrite forallb_app, (Hx H1), (IHl H2). reflexivity.
  - change (gen_node (Void t a)) with (mem_str t VOID_NAMES && mem_str a ATTRS) in H.
    change (forallb (item_ok lw) (node_items lw (Void t a))) with (open_ok t a && true).
    apply andb_prop in H. destruct H as [Ht Ha]. apply mem_str_In in Ht. apply mem_str_In in Ha.
    rewrite (forallb2_In open_ok _ _ t a vocab_void Ht Ha). reflexivity.
  - change (gen_node (SelfClosing t a)) with (mem_str t SELF_NAMES && mem_str a ATTRS) in H.
    change (forallb (item_ok lw) (node_items lw (SelfClosing t a))) with (self_ok t a && true).
    apply andb_prop in H. destruct H as [Ht Ha]. apply mem_str_In in Ht. apply mem_str_In in Ha.
    rewrite (forallb2_In self_ok _ _ t a vocab_self Ht Ha). reflexivity.
  - change (gen_node (Text s)) with ((negb (contains_lt s) && utf8_valid s) || str_eqb s DOCTYPE) in H.
    change (node_items lw (Text s)) with (if contains_lt s then [IUnit s [DOther s]] else [IText s]).
    destruct (contains_lt s) eqn:El.
    + change (negb true && utf8_valid s || str_eqb s DOCTYPE) with (str_eqb s DOCTYPE) in H.
      apply str_eqb_spec in H. subst s.
      change (forallb (item_ok lw) [IUnit DOCTYPE [DOther DOCTYPE]]) with (iso_ok lw DOCTYPE [DOther DOCTYPE] && true).
      rewrite vocab_doctype. reflexivity.
    + change (negb false && utf8_valid s) with (utf8_valid s) in H.
      apply orb_prop in H. destruct H as [H|H].
      * change (forallb (item_ok lw) [IText s]) with (text_ok s && true). unfold text_ok. rewrite H, andb_true_r, andb_true_r.
        unfold contains_lt, memN in El. clear - El. induction s as [|x s IHs]; [reflexivity|].
        change (existsb (N.eqb 60%N) (x :: s)) with (N.eqb 60%N x || existsb (N.eqb 60%N) s) in El.
        change (forallb (fun b : N => negb (N.eqb b LT)) (x :: s)) with (negb (N.eqb x LT) && forallb (fun b : N => negb (N.eqb b LT)) s).
        apply orb_false_iff in El. destruct El as [E1 E2]. rewrite (IHs E2), andb_true_r. unfold LT. rewrite N.eqb_sym, E1. reflexivity.
      * apply str_eqb_spec in H. subst s. vm_compute in El. discriminate.
  - change (gen_node (Comment s)) with (mem_str s COMMENTS) in H.
    change (forallb (item_ok lw) (node_items lw (Comment s))) with (comment_ok s && true).
    apply mem_str_In in H. pose proof vocab_comment as Hc. rewrite forallb_forall in Hc. rewrite (Hc s H). reflexivity.
  - change (gen_node (Raw t s)) with ((mem_str t SCRIPT_NAMES && mem_str s SCRIPTS) || (mem_str t RAW_NAMES && mem_str s RAWTEXTS)) in H.
    change (forallb (item_ok lw) (node_items lw (Raw t s))) with (raw_ok t s && true).
    apply orb_prop in H. destruct H as [H|H]; apply andb_prop in H; destruct H as [Ht Hs]; apply mem_str_In in Ht; apply mem_str_In in Hs.
    + rewrite (forallb2_In raw_ok _ _ t s vocab_script Ht Hs). reflexivity.
    + rewrite (forallb2_In raw_ok _ _ t s vocab_raw Ht Hs). reflexivity.
Qed.

(* THEOREM: every generated document passes the token-by-token check *)
Theorem gen_doc_ok doc : forallb gen_node doc = true -> doc_ok lw doc = true.
Proof.
  unfold doc_ok, doc_items. induction doc as [|n doc IH]; intros H; [reflexivity|].
  change (forallb gen_node (n :: doc)) with (gen_node n && forallb gen_node doc) in H.
  change (flat_map (node_items lw) (n :: doc)) with (node_items lw n ++ flat_map (node_items lw) doc).
  apply andb_prop in H. destruct H as [Hn Hd]. rewrite forallb_app, (gen_node_items n Hn), (IH Hd). reflexivity.
Qed.

(* TEST: the empty raw-text elements are in the vocabulary, and a document made of them is read as its token stream *)
Example gen_empty_raw : forallb gen_node [Raw (bs "script") []; Raw (bs "title") []; Raw (bs "textarea") []] = true.
Proof. vm_compute. reflexivity. Qed.
Example gen_empty_raw_tokenizes : tokenizes_as lw [Raw (bs "script") []; Raw (bs "style") []; Raw (bs "title") []; Raw (bs "textarea") []].
Proof. apply tokenizes_as_units, gen_doc_ok. vm_compute. reflexivity. Qed.

Lemma vocab_elem_not_void : forallb (fun t => negb (is_void (lw t))) (ELEM_NAMES ++ SCRIPT_NAMES ++ RAW_NAMES) = true.
Proof. vm_compute. reflexivity. Qed.
Lemma vocab_void_is_void : forallb (fun t => is_void (lw t)) VOID_NAMES = true.
Proof. vm_compute. reflexivity. Qed.

Lemma gen_balanced n : gen_node n = true -> balanced lw n = true.
Proof.
  pose proof vocab_elem_not_void as Hnv. rewrite forallb_forall in Hnv.
  pose proof vocab_void_is_void as Hv. rewrite forallb_forall in Hv.
  induction n as [t a ch IH|t a|t a|s|s|t s] using node_ind2; intros H; try reflexivity.
  - change (gen_node (Elem t a ch)) with (mem_str t ELEM_NAMES && mem_str a ATTRS && forallb gen_node ch) in H.
    change (balanced lw (Elem t a ch)) with (negb (is_void (lw t)) && forallb (balanced lw) ch).
    apply andb_prop in H. destruct H as [H Hch]. apply andb_prop in H. destruct H as [Ht _]. apply mem_str_In in Ht.
    rewrite (Hnv t) by (apply in_or_app; left; exact Ht). change (true && ?x) with x.
    clear - IH Hch. induction IH as [|x l Hx Hl IHl]; [reflexivity|].
    change (forallb gen_node (x :: l)) with (gen_node x && forallb gen_node l) in Hch. apply andb_prop in Hch. destruct Hch as [H1 H2].
    change (forallb (balanced lw) (x :: l)) with (balanced lw x && forallb (balanced lw) l).
    rewrite (Hx H1), (IHl H2). reflexivity.
  - change (gen_node (Void t a)) with (mem_str t VOID_NAMES && mem_str a ATTRS) in H.
    change (balanced lw (Void t a)) with (is_void (lw t)).
    apply andb_prop in H. destruct H as [Ht _]. apply mem_str_In in Ht. apply (Hv t Ht).
  - change (gen_node (Raw t s)) with ((mem_str t SCRIPT_NAMES && mem_str s SCRIPTS) || (mem_str t RAW_NAMES && mem_str s RAWTEXTS)) in H.
    change (balanced lw (Raw t s)) with (negb (is_void (lw t))).
    apply orb_prop in H. destruct H as [H|H]; apply andb_prop in H; destruct H as [Ht _]; apply mem_str_In in Ht;
      apply Hnv; apply in_or_app; right; apply in_or_app; [left|right]; exact Ht.
Qed.

Lemma gen_node_hered t a ch : gen_node (Elem t a ch) = true -> forallb gen_node ch = true.
Proof.
  change (gen_node (Elem t a ch)) with (mem_str t ELEM_NAMES && mem_str a ATTRS && forallb gen_node ch).
  intros H. apply andb_prop in H. destruct H as [_ H]. exact H.
Qed.

(* THEOREM (C15 on bytes, one filter, for every generated document): no hypothesis beyond the domain of the property *)
Theorem C15_generated sel_eval act path sel value doc :
  forallb gen_node doc = true ->
  spine lw act path (fun _ => True) path doc ->
  body_run lw sel_eval true [mk_filter act path sel value] [ser_forest doc]
  = ser_forest (ref_edit lw act value (css sel_eval sel) path doc).
Proof.
  intros Hgen Hsp. apply C15_byte_level; [|apply gen_doc_ok; exact Hgen].
  unfold in_domain_units.
  apply (spine_mono lw act path (fun n => True /\ gen_node n = true)).
  - intros n [_ Hn] _ _. apply gen_balanced. exact Hn.
  - apply spine_hered; [exact gen_node_hered|exact Hsp|exact Hgen].
Qed.
