(* UrlProofs.v — proofs about the URL normalisation model RIO.Url (C09).
   Notation of the comments: U = the URL encode set (CONTROLS, space, double quote, #, <, >), Q = U + '+'. *)
Require Import RIO.Base RIO.Pct RIO.Url RIO.PctProofs.
Open Scope N_scope.

(* ------------------------------------------------------------------------------------------------ *)
(* T2 / L1: the six separately defined encode sets *)

Ltac unfold_sets :=
  unfold rule_SIMPLE_ENCODE_SET, rule_URL_ENCODE_SET, rule_QUERY_ENCODE_SET, query_URL_ENCODE_SET, query_QUERY_ENCODE_SET,
         request_QUERY_ENCODE_SET, ascii_set_add, CONTROLS, c_space, c_quote, c_hash, c_lt, c_gt, c_plus in *.

Lemma encode_sets_agree b :
  rule_URL_ENCODE_SET b = query_URL_ENCODE_SET b
  /\ request_QUERY_ENCODE_SET b = query_URL_ENCODE_SET b
  /\ rule_QUERY_ENCODE_SET b = query_QUERY_ENCODE_SET b
  /\ query_QUERY_ENCODE_SET b = (query_URL_ENCODE_SET b || N.eqb b c_plus)
  /\ (rule_SIMPLE_ENCODE_SET b = true -> query_URL_ENCODE_SET b = true).
Proof. repeat split. unfold_sets. lia. Qed.

Lemma keeps_escapes_U : keeps_escapes query_URL_ENCODE_SET.
Proof.
  split; [reflexivity|]. intros c H. unfold is_hex in H. destruct (to_digit16 c) eqn:E; [|discriminate].
  apply to_digit16_range in E. unfold_sets. lia.
Qed.

Lemma keeps_escapes_Q : keeps_escapes query_QUERY_ENCODE_SET.
Proof.
  split; [reflexivity|]. intros c H. unfold is_hex in H. destruct (to_digit16 c) eqn:E; [|discriminate].
  apply to_digit16_range in E. unfold_sets. lia.
Qed.

Lemma keeps_letters_U : keeps_letters query_URL_ENCODE_SET.
Proof. intros c H. unfold is_letter, in_range, should_percent_encode, is_ascii in *. unfold_sets. lia. Qed.

Lemma keeps_letters_Q : keeps_letters query_QUERY_ENCODE_SET.
Proof. intros c H. unfold is_letter, in_range, should_percent_encode, is_ascii in *. unfold_sets. lia. Qed.

Lemma spe_U_Q b : should_percent_encode query_URL_ENCODE_SET b = true -> should_percent_encode query_QUERY_ENCODE_SET b = true.
Proof. unfold should_percent_encode, is_ascii. unfold_sets. lia. Qed.

(* T2 / L4 for the sets of the crate: the rule side encodes the sorted query with request.rs's set (no '+') and
   then the whole string with rule.rs's QUERY set; the request side encodes once with query.rs's QUERY set *)
Lemma encode_absorb_sets x : bytes_ok x = true ->
  percent_encode rule_QUERY_ENCODE_SET (percent_encode request_QUERY_ENCODE_SET x) = percent_encode query_QUERY_ENCODE_SET x.
Proof.
  intros Hx. change rule_QUERY_ENCODE_SET with query_QUERY_ENCODE_SET. change request_QUERY_ENCODE_SET with query_URL_ENCODE_SET.
  apply percent_encode_absorb; [exact spe_U_Q|exact keeps_escapes_Q|exact Hx].
Qed.

(* ------------------------------------------------------------------------------------------------ *)
(* T1: rebuilding a request *)

Lemma to_lowercase_ascii_idem s : to_lowercase_ascii (to_lowercase_ascii s) = to_lowercase_ascii s.
Proof. unfold to_lowercase_ascii. rewrite map_map. apply map_ext. intros a. apply ascii_lower_idem. Qed.

Lemma rebuild_idempotent cfg r :
  rebuild_with_config cfg (rebuild_with_config cfg r) = rebuild_with_config cfg r.
Proof.
  unfold rebuild_with_config. cbn [rq_path_and_query rq_host rq_path_and_query_skipped]. f_equal.
  destruct (rq_host r) as [h|]; [|reflexivity]. destruct (ignore_host_case cfg); [|reflexivity].
  rewrite to_lowercase_ascii_idem. reflexivity.
Qed.

Lemma rebuild_from_config cfg u host :
  rq_path_and_query_skipped (rebuild_with_config cfg (request_from_config cfg u host)) = from_config cfg u
  /\ rebuild_with_config cfg (request_from_config cfg u host) = request_from_config cfg u host.
Proof.
  split; [reflexivity|]. unfold rebuild_with_config, request_from_config. cbn [rq_path_and_query rq_host rq_path_and_query_skipped]. f_equal.
  destruct host as [h|]; [|reflexivity]. cbn [option_map]. destruct (ignore_host_case cfg); [|reflexivity].
  rewrite to_lowercase_ascii_idem. reflexivity.
Qed.

Lemma rebuild_keeps_matching_string cfg u host :
  request_path_and_query (rebuild_with_config cfg (request_from_config cfg u host)) = request_matching_string cfg u.
Proof. reflexivity. Qed.

(* ------------------------------------------------------------------------------------------------ *)
(* http's parser on a sanitised URL *)

Definition all_bytes : list N := map N.of_nat (seq 0 256).

Lemma in_all_bytes b : byte_ok b = true -> In b all_bytes.
Proof.
  unfold byte_ok. intros H. unfold all_bytes. rewrite <- (N2Nat.id b). apply in_map. apply in_seq. lia.
Qed.

Definition is_valid (c : byte_class) : bool := match c with CLASS_VALID => true | _ => false end.

(* finite: all 256 bytes.  What sanitize_url leaves alone is accepted by PATH_MAP, except '?' (ends the path)
   and the back-tick (rejected) *)
Lemma path_map_sweep :
  forallb (fun b => should_percent_encode query_URL_ENCODE_SET b || N.eqb b c_qmark || N.eqb b 96 || is_valid (PATH_MAP b)) all_bytes = true.
Proof. vm_compute. reflexivity. Qed.

(* finite: all 256 bytes.  What sanitize_url leaves alone is accepted by QUERY_MAP *)
Lemma query_map_sweep :
  forallb (fun b => should_percent_encode query_URL_ENCODE_SET b || is_valid (QUERY_MAP b)) all_bytes = true.
Proof. vm_compute. reflexivity. Qed.

Lemma path_map_valid b : byte_ok b = true -> should_percent_encode query_URL_ENCODE_SET b = false ->
  b <> c_qmark -> b <> 96 -> PATH_MAP b = CLASS_VALID.
Proof.
  intros Hb He Hq Ht. pose proof path_map_sweep as H. rewrite forallb_forall in H. specialize (H b (in_all_bytes b Hb)).
  rewrite He in H. replace (N.eqb b c_qmark) with false in H by lia. replace (N.eqb b 96) with false in H by lia.
  cbn [orb] in H. destruct (PATH_MAP b); try discriminate. reflexivity.
Qed.

Lemma query_map_valid b : byte_ok b = true -> should_percent_encode query_URL_ENCODE_SET b = false ->
  QUERY_MAP b = CLASS_VALID.
Proof.
  intros Hb He. pose proof query_map_sweep as H. rewrite forallb_forall in H. specialize (H b (in_all_bytes b Hb)).
  rewrite He in H. cbn [orb] in H. destruct (QUERY_MAP b); try discriminate. reflexivity.
Qed.

Lemma scan_path_valid_app a rest : Forall (fun b => PATH_MAP b = CLASS_VALID) a ->
  scan_path (a ++ rest) = match scan_path rest with Some (p, e) => Some (a ++ p, e) | None => None end.
Proof.
  induction a as [|b a IH]; intros H.
  - cbn [app]. destruct (scan_path rest) as [[p e]|]; reflexivity.
  - inversion H as [|? ? Hb Ha]; subst. cbn [app scan_path]. rewrite Hb, (IH Ha).
    destruct (scan_path rest) as [[p e]|]; reflexivity.
Qed.

Lemma scan_query_valid a : Forall (fun b => QUERY_MAP b = CLASS_VALID) a -> scan_query a = Some a.
Proof.
  induction a as [|b a IH]; intros H; [reflexivity|]. inversion H as [|? ? Hb Ha]; subst.
  cbn [scan_query]. rewrite Hb, (IH Ha). reflexivity.
Qed.

Lemma all_ascii_utf8_valid s : all_ascii s = true -> utf8_valid s = true.
Proof.
  induction s as [|b r IH]; [reflexivity|]. cbn [all_ascii forallb]. intros H. apply andb_prop in H. destruct H as [Hb Hr].
  cbn [utf8_valid]. unfold is_ascii in Hb. rewrite Hb. apply IH. exact Hr.
Qed.

Notation enc_U := (percent_encode query_URL_ENCODE_SET).
Notation enc_Q := (percent_encode query_QUERY_ENCODE_SET).

Lemma enc_U_path_valid p : bytes_ok p = true -> memN c_qmark p = false -> memN 96 p = false ->
  Forall (fun b => PATH_MAP b = CLASS_VALID) (enc_U p).
Proof.
  intros Hp Hq Ht. apply Forall_forall. intros c Hc.
  destruct (percent_encode_out _ p c keeps_escapes_U Hp Hc) as [H1 H2].
  apply path_map_valid; try assumption.
  - intros ->. apply memN_In in Hc. rewrite percent_encode_mem in Hc by (try exact keeps_escapes_U; try exact Hp; try reflexivity; discriminate).
    rewrite Hq in Hc. discriminate.
  - intros ->. apply memN_In in Hc. rewrite percent_encode_mem in Hc by (try exact keeps_escapes_U; try exact Hp; try reflexivity; discriminate).
    rewrite Ht in Hc. discriminate.
Qed.

Lemma enc_U_query_valid q : bytes_ok q = true -> Forall (fun b => QUERY_MAP b = CLASS_VALID) (enc_U q).
Proof.
  intros Hq. apply Forall_forall. intros c Hc.
  destruct (percent_encode_out _ q c keeps_escapes_U Hq Hc) as [H1 H2]. apply query_map_valid; assumption.
Qed.

(* ------------------------------------------------------------------------------------------------ *)
(* the URL as path and query *)

Definition url_path (u : str) : str := fst (splitn2 c_qmark u).
Definition url_query (u : str) : option str := snd (splitn2 c_qmark u).
Definition url_params (u : str) : list (str * str) :=
  match url_query u with Some q => form_urlencoded_parse q | None => [] end.

Lemma url_split u : memN c_qmark (url_path u) = false
  /\ u = url_path u ++ match url_query u with Some q => c_qmark :: q | None => [] end.
Proof. apply splitn2_spec. Qed.

(* what every URL of the domain satisfies, whatever the configuration: it starts with '/', consists of bytes, has
   no back-tick in its path, and its sanitised form is not longer than http's MAX_LEN *)
Definition shape_ok (u : str) : bool :=
  match u with b :: _ => N.eqb b c_slash | [] => false end
  && bytes_ok u
  && negb (memN 96 (url_path u))
  && N.leb (len_N (sanitize_url u)) MAX_LEN.

Lemma shape_ok_parts u : shape_ok u = true ->
  (exists p', url_path u = c_slash :: p') /\ bytes_ok (url_path u) = true
  /\ match url_query u with Some q => bytes_ok q = true | None => True end
  /\ memN 96 (url_path u) = false /\ len_N (sanitize_url u) <= MAX_LEN.
Proof.
  unfold shape_ok. intros H. apply andb_prop in H. destruct H as [H H4]. apply andb_prop in H. destruct H as [H H3].
  apply andb_prop in H. destruct H as [H1 H2].
  destruct (bytes_ok_splitn2 c_qmark u H2) as [Hbp Hbq]. fold (url_path u) in Hbp. fold (url_query u) in Hbq.
  split; [|split; [exact Hbp|split; [exact Hbq|split; [destruct (memN 96 (url_path u)); [discriminate|reflexivity]|lia]]]].
  destruct u as [|b r]; [discriminate|]. assert (b = c_slash) as -> by lia.
  unfold url_path. cbn [splitn2]. change (N.eqb c_slash c_qmark) with false. cbv iota.
  destruct (splitn2 c_qmark r) as [p q]. exists p. reflexivity.
Qed.

Lemma sanitize_split u : sanitize_url u
  = enc_U (url_path u) ++ match url_query u with Some q => c_qmark :: enc_U q | None => [] end.
Proof.
  unfold sanitize_url, utf8_percent_encode. destruct (url_split u) as [_ H]. rewrite H at 1.
  rewrite percent_encode_app. f_equal. destruct (url_query u) as [q|]; [|reflexivity].
  rewrite percent_encode_cons_keep by reflexivity. reflexivity.
Qed.

Lemma http_parse_sanitized u : shape_ok u = true ->
  http_path_and_query_parse (sanitize_url u) = Some (enc_U (url_path u), option_map enc_U (url_query u)).
Proof.
  intros Hok. destruct (shape_ok_parts u Hok) as ((p' & Hp') & Hbp & Hbq & Ht & Hlen).
  destruct (url_split u) as [Hnq _].
  assert (Henc : enc_U (url_path u) = c_slash :: enc_U p').
  { rewrite Hp'. apply percent_encode_cons_keep. reflexivity. }
  pose proof (enc_U_path_valid (url_path u) Hbp Hnq Ht) as Hvalid.
  assert (Hasc : all_ascii (enc_U (url_path u)) = true) by (apply percent_encode_ascii; [exact keeps_escapes_U|exact Hbp]).
  unfold http_path_and_query_parse.
  replace (N.ltb MAX_LEN (len_N (sanitize_url u))) with false by lia.
  rewrite (sanitize_split u). rewrite Henc in Hvalid, Hasc |- *. cbn [app].
  cbn [str_eqb]. change (N.eqb c_slash c_star) with false. cbn [andb].
  rewrite N.eqb_refl. cbn [orb negb].
  rewrite app_comm_cons.
  rewrite (scan_path_valid_app _ _ Hvalid).
  destruct (url_query u) as [q|]; cbn [option_map].
  - cbn [scan_path]. change (PATH_MAP c_qmark) with CLASS_QUERY. cbv iota. rewrite app_nil_r. cbn [is_nil].
    rewrite (scan_query_valid _ (enc_U_query_valid q Hbq)).
    rewrite all_ascii_utf8_valid; [reflexivity|].
    unfold all_ascii in *. rewrite forallb_app, Hasc. cbn [app forallb]. 
    apply (percent_encode_ascii _ q keeps_escapes_U Hbq).
  - cbn [scan_path]. rewrite app_nil_r. cbn [is_nil]. rewrite (all_ascii_utf8_valid _ Hasc). reflexivity.
Qed.

(* ------------------------------------------------------------------------------------------------ *)
(* normal form of the request side: from_config is a function of the sanitised path and of the collected map *)

Definition is_marketing (cfg : config) (kv : str * str) : bool :=
  ignore_marketing_query_params cfg && mem_str (fst kv) (marketing_query_params cfg).
Definition kept (cfg : config) (m : list (str * str)) := filter (fun kv => negb (is_marketing cfg kv)) m.
Definition dropped (cfg : config) (m : list (str * str)) := filter (is_marketing cfg) m.

Definition join (ps : list str) : str := fold_left push_param ps [].
Notation qpQ := (query_param query_QUERY_ENCODE_SET).
Notation qpR := (query_param request_QUERY_ENCODE_SET).

Definition url_map (u : str) : list (str * str) := btree_collect (url_params u).
Definition nf_query (cfg : config) (u : str) : str := join (map qpQ (kept cfg (url_map u))).
Definition nf_skipped (cfg : config) (u : str) : str := join (map qpQ (dropped cfg (url_map u))).
Definition with_query (path qs : str) : str := if is_nil qs then path else path ++ c_qmark :: qs.
Definition nf_string (cfg : config) (u : str) : str := with_query (enc_U (url_path u)) (nf_query cfg u).
Definition lower_if (b : bool) (s : str) : str := if b then to_lowercase_ascii s else s.

Lemma from_config_loop_nf cfg m : forall qs sk,
  from_config_loop cfg m qs sk
  = (fold_left push_param (map qpQ (kept cfg m)) qs, fold_left push_param (map qpQ (dropped cfg m)) sk).
Proof.
  induction m as [|kv m IH]; intros qs sk; [reflexivity|].
  cbn [from_config_loop]. unfold kept, dropped. cbn [filter].
  change (ignore_marketing_query_params cfg && mem_str (fst kv) (marketing_query_params cfg)) with (is_marketing cfg kv).
  destruct (is_marketing cfg kv); cbn [negb map fold_left]; rewrite IH; reflexivity.
Qed.

Lemma from_config_nf cfg u : shape_ok u = true ->
  from_config cfg u =
  {| pq_path_and_query := nf_string cfg u;
     pq_path_and_query_matching := Some (lower_if (ignore_path_and_query_case cfg) (nf_string cfg u));
     pq_skipped_query_params :=
       if pass_marketing_query_params_to_target cfg && negb (is_nil (nf_skipped cfg u)) then Some (nf_skipped cfg u) else None;
     pq_original := u |}.
Proof.
  intros Hok. destruct (shape_ok_parts u Hok) as (_ & _ & Hbq & _ & _).
  unfold from_config. rewrite (http_parse_sanitized u Hok).
  unfold nf_string, nf_query, nf_skipped, url_map, url_params, with_query, lower_if.
  destruct (url_query u) as [q|]; cbn [option_map].
  - rewrite (parse_enc _ keeps_escapes_U) by (try exact Hbq; reflexivity).
    rewrite from_config_loop_nf. unfold join. cbn [app]. reflexivity.
  - reflexivity.
Qed.

Lemma request_matching_string_nf cfg u : shape_ok u = true ->
  request_matching_string cfg u = lower_if (ignore_path_and_query_case cfg) (nf_string cfg u).
Proof.
  intros Hok. unfold request_matching_string, request_path_and_query, request_from_config. cbn [rq_path_and_query_skipped].
  rewrite (from_config_nf cfg u Hok). reflexivity.
Qed.

(* ------------------------------------------------------------------------------------------------ *)
(* joining the parameters *)

Lemma fold_push_nonempty ps : forall acc, is_nil acc = false ->
  fold_left push_param ps acc = acc ++ concat (map (cons c_amp) ps).
Proof.
  induction ps as [|p ps IH]; intros acc Hacc; [cbn; rewrite app_nil_r; reflexivity|].
  cbn [fold_left map concat]. unfold push_param at 2. rewrite Hacc. rewrite IH.
  - rewrite <- app_assoc. reflexivity.
  - rewrite is_nil_app, Hacc. reflexivity.
Qed.

Lemma join_formula p ps : is_nil p = false \/ ps = [] -> join (p :: ps) = p ++ concat (map (cons c_amp) ps).
Proof.
  intros H. unfold join. cbn [fold_left]. unfold push_param at 2. cbn [is_nil].
  destruct (is_nil p) eqn:E.
  - destruct H as [H | ->]; [discriminate|]. cbn. rewrite app_nil_r. reflexivity.
  - apply fold_push_nonempty. exact E.
Qed.

Lemma pop_snoc s c : pop (s ++ [c]) = s.
Proof.
  induction s as [|b r IH]; [reflexivity|]. cbn [app].
  destruct (r ++ [c]) as [|x t] eqn:E; [destruct r; discriminate|].
  change (pop (b :: x :: t)) with (b :: pop (x :: t)). rewrite IH. reflexivity.
Qed.

Lemma build_loop_formula kv m :
  build_sorted_query_loop (kv :: m) = (qpR kv ++ concat (map (fun e => c_amp :: qpR e) m)) ++ [c_amp].
Proof.
  revert kv. induction m as [|e m IH]; intros kv.
  - cbn. rewrite app_nil_r. reflexivity.
  - cbn [build_sorted_query_loop] in *. rewrite IH. cbn [map concat].
    repeat (rewrite <- app_assoc; cbn [app]). reflexivity.
Qed.

Definition bare (kv : str * str) : bool := is_nil (fst kv) && is_nil (snd kv).

Lemma is_nil_query_param s kv : is_nil (query_param s kv) = bare kv.
Proof.
  unfold query_param, bare. rewrite is_nil_app. unfold utf8_percent_encode. rewrite is_nil_percent_encode.
  destruct (is_nil (snd kv)); reflexivity.
Qed.

(* the second pass of the rule side over one parameter *)
Lemma enc_Q_qpR kv : kv_bytes_ok kv = true -> enc_Q (qpR kv) = qpQ kv.
Proof.
  unfold kv_bytes_ok. intros H. apply andb_prop in H. destruct H as [Hk Hv].
  unfold query_param, utf8_percent_encode. rewrite percent_encode_app.
  change request_QUERY_ENCODE_SET with query_URL_ENCODE_SET.
  rewrite (percent_encode_absorb _ _ (fst kv) spe_U_Q keeps_escapes_Q Hk). f_equal.
  destruct (is_nil (snd kv)); [reflexivity|].
  rewrite percent_encode_cons_keep by reflexivity.
  rewrite (percent_encode_absorb _ _ (snd kv) spe_U_Q keeps_escapes_Q Hv). reflexivity.
Qed.

Lemma enc_Q_concat m : forallb kv_bytes_ok m = true ->
  enc_Q (concat (map (fun e => c_amp :: qpR e) m)) = concat (map (cons c_amp) (map qpQ m)).
Proof.
  induction m as [|e m IH]; [reflexivity|]. cbn [forallb]. intros H. apply andb_prop in H. destruct H as [He Hm].
  cbn [map concat]. rewrite percent_encode_app. rewrite percent_encode_cons_keep by reflexivity.
  rewrite (enc_Q_qpR e He), (IH Hm). reflexivity.
Qed.

(* no bare "=" entry in front of other entries (the empty key sorts first) *)
Definition no_leading_bare (m : list (str * str)) : bool :=
  match m with kv :: _ :: _ => negb (bare kv) | _ => true end.

(* normal form of the rule side *)
Lemma rule_path_and_query_nf cfg p oq :
  match oq with Some q => bytes_ok q = true | None => True end ->
  let m := btree_collect (match oq with Some q => form_urlencoded_parse q | None => [] end) in
  no_leading_bare m = true ->
  rule_path_and_query cfg p oq = lower_if (ignore_path_and_query_case cfg) (with_query (enc_U p) (join (map qpQ m))).
Proof.
  intros Hbq m Hnb. unfold rule_path_and_query, new_with_markers_static, lower_if. f_equal.
  unfold utf8_percent_encode. change rule_URL_ENCODE_SET with query_URL_ENCODE_SET.
  change rule_QUERY_ENCODE_SET with query_QUERY_ENCODE_SET.
  destruct oq as [q|]; [|reflexivity].
  unfold build_sorted_query. fold m.
  assert (Hm : forallb kv_bytes_ok m = true).
  { apply forallb_forall. intros e He. pose proof (parse_bytes_ok q Hbq) as Hp. rewrite forallb_forall in Hp.
    unfold m, btree_collect in He.
    assert (Hgen : forall l acc, (forall e, In e l -> kv_bytes_ok e = true) -> (forall e, In e acc -> kv_bytes_ok e = true) ->
              forall e, In e (fold_left (fun m kv => btree_insert (fst kv) (snd kv) m) l acc) -> kv_bytes_ok e = true).
    { induction l as [|[k v] l IHl]; intros acc Hl Hacc e0 He0; [apply Hacc; exact He0|].
      cbn [fold_left fst snd] in He0. apply (IHl (btree_insert k v acc)); [intros e1 H1; apply Hl; right; exact H1| |exact He0].
      clear He0 e0. induction acc as [|[k' v'] acc IHa]; cbn [btree_insert]; intros e1 H1.
      - destruct H1 as [<-|[]]. apply (Hl (k, v)). left. reflexivity.
      - pose proof (Hacc (k', v') (or_introl eq_refl)) as Hh. pose proof (Hl (k, v) (or_introl eq_refl)) as Hkv.
        unfold kv_bytes_ok in *. cbn [fst snd] in *. apply andb_prop in Hh. destruct Hh as [Hh1 Hh2]. apply andb_prop in Hkv. destruct Hkv as [Hkv1 Hkv2].
        destruct (str_cmp k k').
        + destruct H1 as [<-|H1]; [cbn [fst snd]; rewrite Hh1, Hkv2; reflexivity|apply Hacc; right; exact H1].
        + destruct H1 as [<-|H1]; [cbn [fst snd]; rewrite Hkv1, Hkv2; reflexivity|apply Hacc; exact H1].
        + destruct H1 as [<-|H1]; [cbn [fst snd]; rewrite Hh1, Hh2; reflexivity|].
          apply IHa; [intros e2 H2; apply Hacc; right; exact H2|exact H1]. }
    apply (Hgen (form_urlencoded_parse q) [] Hp (fun _ F => match F with end) e He). }
  destruct m as [|kv m'] eqn:Em.
  - reflexivity.
  - rewrite build_loop_formula, pop_snoc. rewrite is_nil_app, is_nil_query_param.
    cbn [forallb] in Hm. apply andb_prop in Hm. destruct Hm as [Hkv Hm'].
    assert (Hj : join (map qpQ (kv :: m')) = qpQ kv ++ concat (map (cons c_amp) (map qpQ m'))).
    { cbn [map]. apply join_formula. rewrite is_nil_query_param. destruct m' as [|e m'']; [right; reflexivity|left].
      cbn [no_leading_bare] in Hnb. destruct (bare kv); [discriminate|reflexivity]. }
    unfold with_query. rewrite Hj, is_nil_app, is_nil_query_param.
    assert (Hc : is_nil (concat (map (fun e => c_amp :: qpR e) m')) = is_nil (concat (map (cons c_amp) (map qpQ m')))).
    { destruct m'; reflexivity. }
    rewrite Hc. destruct (bare kv && is_nil (concat (map (cons c_amp) (map qpQ m')))); [reflexivity|].
    cbn [app]. rewrite percent_encode_app, (enc_Q_qpR kv Hkv), (enc_Q_concat m' Hm'). reflexivity.
Qed.

(* ------------------------------------------------------------------------------------------------ *)
(* T3: a literal rule matches its own URL *)

Definition url_ok (cfg : config) (u : str) : bool :=
  shape_ok u && no_leading_bare (url_map u) && forallb (fun kv => negb (is_marketing cfg kv)) (url_map u).

Lemma filter_all {A} (f : A -> bool) l : forallb f l = true -> filter f l = l.
Proof.
  induction l as [|a l IH]; [reflexivity|]. cbn [forallb filter]. intros H. apply andb_prop in H. destruct H as [Ha Hl].
  rewrite Ha, (IH Hl). reflexivity.
Qed.

Lemma rule_string_is_request_string cfg u : url_ok cfg u = true ->
  rule_path_and_query cfg (url_path u) (url_query u) = request_matching_string cfg u.
Proof.
  unfold url_ok. intros H. apply andb_prop in H. destruct H as [H Hmk]. apply andb_prop in H. destruct H as [Hok Hnb].
  destruct (shape_ok_parts u Hok) as (_ & _ & Hbq & _ & _).
  rewrite (request_matching_string_nf cfg u Hok).
  rewrite (rule_path_and_query_nf cfg (url_path u) (url_query u) Hbq Hnb).
  unfold nf_string, nf_query, kept. fold (url_params u). fold (url_map u). rewrite (filter_all _ _ Hmk). reflexivity.
Qed.

Theorem literal_matches cfg u host : url_ok cfg u = true ->
  static_rule_matches (rule_path_and_query cfg (url_path u) (url_query u))
                      (rebuild_with_config cfg (request_from_config cfg u host)) = true.
Proof.
  intros H. unfold static_rule_matches. rewrite rebuild_keeps_matching_string.
  rewrite (rule_string_is_request_string cfg u H). apply str_eqb_refl.
Qed.

(* ------------------------------------------------------------------------------------------------ *)
(* T4, T5: parameter order, marketing parameters, skipped parameters *)

Definition not_marketing_key (cfg : config) (k : str) : bool :=
  negb (ignore_marketing_query_params cfg && mem_str k (marketing_query_params cfg)).

Lemma kept_collect cfg l : kept cfg (btree_collect l) = btree_collect (kept cfg l).
Proof. apply (btree_collect_filter_key (not_marketing_key cfg) l). Qed.

(* the request side only depends on the sanitised path and on the kept part of the collected map *)
Lemma matching_string_congr cfg u u' : shape_ok u = true -> shape_ok u' = true ->
  url_path u' = url_path u -> kept cfg (url_map u') = kept cfg (url_map u) ->
  request_matching_string cfg u' = request_matching_string cfg u.
Proof.
  intros Hok Hok' Hp Hm. rewrite !request_matching_string_nf by assumption.
  unfold nf_string, nf_query. rewrite Hp, Hm. reflexivity.
Qed.

Theorem param_order cfg u u' : shape_ok u = true -> shape_ok u' = true ->
  url_path u' = url_path u -> same_by_key (url_params u) (url_params u') = true ->
  request_matching_string cfg u' = request_matching_string cfg u
  /\ pq_path_and_query (from_config cfg u') = pq_path_and_query (from_config cfg u)
  /\ pq_skipped_query_params (from_config cfg u') = pq_skipped_query_params (from_config cfg u).
Proof.
  intros Hok Hok' Hp Hs.
  assert (Hm : url_map u' = url_map u) by (unfold url_map; symmetry; apply same_by_key_collect; exact Hs).
  split; [apply matching_string_congr; try assumption; rewrite Hm; reflexivity|].
  rewrite !from_config_nf by assumption. cbn [pq_path_and_query pq_skipped_query_params].
  unfold nf_string, nf_query, nf_skipped. rewrite Hp, Hm. split; reflexivity.
Qed.

Theorem marketing_ignored cfg u u' : shape_ok u = true -> shape_ok u' = true ->
  url_path u' = url_path u -> same_by_key (kept cfg (url_params u)) (kept cfg (url_params u')) = true ->
  request_matching_string cfg u' = request_matching_string cfg u.
Proof.
  intros Hok Hok' Hp Hs. apply matching_string_congr; try assumption.
  unfold url_map. rewrite !kept_collect. symmetry. apply same_by_key_collect. exact Hs.
Qed.

(* the literal rule of u matches every u' that has the same sanitised path and, once the ignored marketing
   parameters are removed, the same parameters up to a key-stable permutation *)
Theorem rule_matches_equivalent cfg u u' host : url_ok cfg u = true -> shape_ok u' = true ->
  url_path u' = url_path u -> same_by_key (kept cfg (url_params u)) (kept cfg (url_params u')) = true ->
  static_rule_matches (rule_path_and_query cfg (url_path u) (url_query u))
                      (rebuild_with_config cfg (request_from_config cfg u' host)) = true.
Proof.
  intros H Hok' Hp Hs. unfold static_rule_matches. rewrite rebuild_keeps_matching_string.
  rewrite (rule_string_is_request_string cfg u H).
  assert (Hok : shape_ok u = true).
  { unfold url_ok in H. apply andb_prop in H. destruct H as [H _]. apply andb_prop in H. destruct H as [H _]. exact H. }
  rewrite (marketing_ignored cfg u u' Hok Hok' Hp Hs). apply str_eqb_refl.
Qed.

Lemma dropped_nil cfg m : ignore_marketing_query_params cfg = false -> dropped cfg m = [].
Proof. intros H. unfold dropped. apply filter_none. intros e _. unfold is_marketing. rewrite H. reflexivity. Qed.

(* what skipped_query_params is: the ignored marketing entries of the collected map, ascending keys, each written
   as key or key=value with query.rs's QUERY set, joined with '&'; present iff passing is configured and it is
   not empty (it is empty when ignoring is not configured) *)
Theorem skipped_iff_pass cfg u : shape_ok u = true ->
  pq_skipped_query_params (from_config cfg u)
  = if pass_marketing_query_params_to_target cfg && ignore_marketing_query_params cfg && negb (is_nil (nf_skipped cfg u))
    then Some (nf_skipped cfg u) else None.
Proof.
  intros Hok. rewrite (from_config_nf cfg u Hok). cbn [pq_skipped_query_params].
  destruct (ignore_marketing_query_params cfg) eqn:E; [rewrite andb_true_r; reflexivity|].
  unfold nf_skipped. rewrite (dropped_nil cfg _ E). cbn. rewrite andb_false_r. reflexivity.
Qed.

Lemma target_with_skipped_spec target skipped :
  target_with_skipped target skipped
  = match skipped with
    | None => target
    | Some sk => target ++ (if memN c_qmark target then c_amp else c_qmark) :: sk
    end.
Proof. destruct skipped; reflexivity. Qed.

(* ------------------------------------------------------------------------------------------------ *)
(* T6: ASCII case *)

Definition swap_url (u : str) : str := map ascii_swap u.
Definition low_kv (e : str * str) : str * str := (map ascii_lower (fst e), map ascii_lower (snd e)).

Lemma swap_fixes d : is_letter d = false -> forall b, N.eqb (ascii_swap b) d = N.eqb b d.
Proof. intros H b. apply ascii_swap_eqb_const. exact H. Qed.

Lemma memN_map_swap d x : is_letter d = false -> memN d (map ascii_swap x) = memN d x.
Proof.
  intros H. induction x as [|b r IH]; [reflexivity|]. cbn [map]. rewrite !memN_cons, IH.
  rewrite (N.eqb_sym d (ascii_swap b)), (N.eqb_sym d b), (ascii_swap_eqb_const b d H). reflexivity.
Qed.

Lemma url_path_swap u : url_path (swap_url u) = map ascii_swap (url_path u).
Proof. unfold url_path, swap_url. rewrite (splitn2_map ascii_swap c_qmark u (swap_fixes c_qmark eq_refl)). reflexivity. Qed.

Lemma url_query_swap u : url_query (swap_url u) = option_map (map ascii_swap) (url_query u).
Proof. unfold url_query, swap_url. rewrite (splitn2_map ascii_swap c_qmark u (swap_fixes c_qmark eq_refl)). reflexivity. Qed.

Lemma spe_swap s b : keeps_letters s -> should_percent_encode s (ascii_swap b) = should_percent_encode s b.
Proof.
  intros L. destruct (is_letter b) eqn:E.
  - rewrite (L b E). apply L. rewrite is_letter_swap. exact E.
  - rewrite (ascii_swap_nonletter b E). reflexivity.
Qed.

Lemma len_N_app a b : len_N (a ++ b) = len_N a + len_N b.
Proof. induction a as [|x a IH]; [reflexivity|]. cbn [app len_N]. rewrite IH. lia. Qed.

Lemma len_enc_swap s x : keeps_letters s -> len_N (percent_encode s (map ascii_swap x)) = len_N (percent_encode s x).
Proof.
  intros L. induction x as [|b r IH]; [reflexivity|]. cbn [map percent_encode]. rewrite (spe_swap s b L).
  destruct (should_percent_encode s b); [rewrite !len_N_app, IH; reflexivity|cbn [len_N]; rewrite IH; reflexivity].
Qed.

Lemma shape_ok_swap u : shape_ok u = true -> shape_ok (swap_url u) = true.
Proof.
  unfold shape_ok. intros H. apply andb_prop in H. destruct H as [H H4]. apply andb_prop in H. destruct H as [H H3].
  apply andb_prop in H. destruct H as [H1 H2].
  rewrite url_path_swap, (memN_map_swap 96 _ eq_refl), H3.
  unfold swap_url at 2. rewrite bytes_ok_map_swap, H2.
  unfold sanitize_url, utf8_percent_encode in *. unfold swap_url at 2. rewrite (len_enc_swap _ u keeps_letters_U), H4.
  destruct u as [|b r]; [discriminate|]. cbn [swap_url map]. assert (b = c_slash) as -> by lia. reflexivity.
Qed.

Lemma Forall2_map {A B A' B'} (R : A' -> B' -> Prop) (f : A -> A') (g : B -> B') l l' :
  Forall2 (fun a b => R (f a) (g b)) l l' -> Forall2 R (map f l) (map g l').
Proof. intros H. induction H; cbn [map]; constructor; assumption. Qed.

Lemma Forall2_same {A} (R : A -> A -> Prop) l : (forall a, In a l -> R a a) -> Forall2 R l l.
Proof. induction l as [|a l IH]; intros H; constructor; [apply H; left; reflexivity|apply IH; intros b Hb; apply H; right; exact Hb]. Qed.

Lemma parse_sequence_swap p : low_kv (parse_sequence p) = low_kv (parse_sequence (map ascii_swap p)).
Proof.
  unfold parse_sequence. rewrite (splitn2_map ascii_swap c_eq p (swap_fixes c_eq eq_refl)).
  destruct (splitn2 c_eq p) as [name value]. cbn [fst snd]. unfold low_kv. cbn [fst snd].
  rewrite (decode_swap_lower name). f_equal.
  destruct value as [v|]; cbn [option_map]; [rewrite (decode_swap_lower v)|]; reflexivity.
Qed.

Lemma parse_swap_aligned q :
  Forall2 (fun e e' => low_kv e = low_kv e') (form_urlencoded_parse q) (form_urlencoded_parse (map ascii_swap q)).
Proof.
  unfold form_urlencoded_parse. rewrite (split_on_map ascii_swap c_amp q (swap_fixes c_amp eq_refl)).
  induction (split_on c_amp q) as [|p ps IH]; [constructor|].
  cbn [map filter]. rewrite is_nil_map. destruct (is_nil p); cbn [negb map]; [exact IH|].
  constructor; [apply parse_sequence_swap|exact IH].
Qed.

Lemma params_swap_aligned u :
  Forall2 (fun e e' => low_kv e = low_kv e') (url_params u) (url_params (swap_url u)).
Proof.
  unfold url_params. rewrite url_query_swap. destruct (url_query u) as [q|]; cbn [option_map]; [apply parse_swap_aligned|constructor].
Qed.

Lemma map_lower_is_nil a b : map ascii_lower a = map ascii_lower b -> is_nil a = is_nil b.
Proof. intros H. rewrite <- (is_nil_map ascii_lower a), <- (is_nil_map ascii_lower b), H. reflexivity. Qed.

Lemma lower_qp e e' : low_kv e = low_kv e' -> map ascii_lower (qpQ e) = map ascii_lower (qpQ e').
Proof.
  unfold low_kv. intros H. injection H as Hk Hv. unfold query_param, utf8_percent_encode. rewrite !map_app.
  rewrite (lower_enc_lower _ _ _ keeps_letters_Q Hk). f_equal. rewrite (map_lower_is_nil _ _ Hv).
  destruct (is_nil (snd e')); [reflexivity|]. cbn [map]. rewrite (lower_enc_lower _ _ _ keeps_letters_Q Hv). reflexivity.
Qed.

Lemma lower_fold_push ps ps' : Forall2 (fun p p' => map ascii_lower p = map ascii_lower p') ps ps' ->
  forall acc acc', map ascii_lower acc = map ascii_lower acc' ->
  map ascii_lower (fold_left push_param ps acc) = map ascii_lower (fold_left push_param ps' acc').
Proof.
  intros H. induction H as [|p p' ps ps' Hp H IH]; intros acc acc' Hacc; [exact Hacc|].
  cbn [fold_left]. apply IH. unfold push_param. rewrite (map_lower_is_nil _ _ Hacc).
  destruct (is_nil acc'); [exact Hp|]. rewrite !map_app, Hacc, Hp. reflexivity.
Qed.

Definition cmp_eqb (a b : comparison) : bool :=
  match a, b with Eq, Eq | Lt, Lt | Gt, Gt => true | _, _ => false end.

Lemma cmp_eqb_spec a b : cmp_eqb a b = true -> a = b.
Proof. destruct a, b; cbn; congruence. Qed.

(* the hypothesis of the case clause: seen as lists of decoded parameters, the URL and its case-swapped form
   compare their keys pairwise the same way (so that sorting, done BEFORE lower-casing, orders them alike and
   merges the same repeated keys), and a key is in the ignored marketing set on both sides or on neither *)
Definition case_ok (cfg : config) (u : str) : bool :=
  let C := combine (url_params u) (url_params (swap_url u)) in
  forallb (fun p =>
    Bool.eqb (is_marketing cfg (fst p)) (is_marketing cfg (snd p))
    && forallb (fun q => cmp_eqb (str_cmp (fst (fst p)) (fst (fst q))) (str_cmp (fst (snd p)) (fst (snd q)))) C) C.

Lemma lower_with_query p qs : map ascii_lower (with_query p qs) = with_query (map ascii_lower p) (map ascii_lower qs).
Proof. unfold with_query. rewrite is_nil_map. destruct (is_nil qs); [reflexivity|]. rewrite map_app. reflexivity. Qed.

Theorem case_insensitive cfg u : ignore_path_and_query_case cfg = true ->
  shape_ok u = true -> case_ok cfg u = true ->
  request_matching_string cfg (swap_url u) = request_matching_string cfg u.
Proof.
  intros Hflag Hok Hc. pose proof (shape_ok_swap u Hok) as Hok'.
  rewrite !request_matching_string_nf by assumption. rewrite Hflag. unfold lower_if, to_lowercase_ascii.
  unfold nf_string. rewrite !lower_with_query. f_equal.
  - rewrite url_path_swap. apply (lower_enc_lower _ _ _ keeps_letters_U).
    rewrite map_map. apply map_ext. intros a. apply ascii_lower_swap.
  - unfold nf_query, join. apply lower_fold_push; [|reflexivity].
    apply Forall2_map.
    pose proof (params_swap_aligned u) as Hlow.
    set (l := url_params u) in *. set (l' := url_params (swap_url u)) in *.
    set (C := combine l l').
    unfold case_ok in Hc. fold l l' C in Hc. rewrite forallb_forall in Hc.
    assert (Hcmp : forall p q, In p C -> In q C -> str_cmp (fst (fst p)) (fst (fst q)) = str_cmp (fst (snd p)) (fst (snd q))).
    { intros p q Hp Hq. specialize (Hc p Hp). apply andb_prop in Hc. destruct Hc as [_ Hc]. rewrite forallb_forall in Hc.
      apply cmp_eqb_spec. apply Hc. exact Hq. }
    assert (Hmk : forall p, In p C -> is_marketing cfg (fst p) = is_marketing cfg (snd p)).
    { intros p Hp. specialize (Hc p Hp). apply andb_prop in Hc. destruct Hc as [Hc _]. apply Bool.eqb_prop. exact Hc. }
    pose proof (btree_collect_aligned C Hcmp l l' (Forall2_combine_self l l' (Forall2_length _ _ _ Hlow))) as Hal.
    fold (url_map u) in Hal. fold (url_map (swap_url u)) in Hal.
    assert (Hk : Forall2 (fun e e' => In (e, e') C) (kept cfg (url_map u)) (kept cfg (url_map (swap_url u)))).
    { unfold kept. apply Forall2_filter. apply (Forall2_weaken (fun e e' => In (e, e') C)); [|exact Hal].
      intros a b Hab. split; [exact Hab|]. pose proof (Hmk (a, b) Hab) as Hx. cbn [fst snd] in Hx. rewrite Hx. reflexivity. }
    apply (Forall2_weaken (fun e e' => In (e', e) C)).
    + intros a b Hab. apply lower_qp. symmetry. apply (Forall2_in_combine _ l l' Hlow b a Hab).
    + induction Hk; constructor; assumption.
Qed.

(* ------------------------------------------------------------------------------------------------ *)
(* T7: different URLs are not matched — the normal form can be read back *)

Definition case_map (b : bool) : N -> N := if b then ascii_lower else (fun c => c).

Lemma casemap_case_map b : casemap (case_map b).
Proof. destruct b; [exact casemap_lower|exact casemap_id]. Qed.

Lemma lower_if_map b s : lower_if b s = map (case_map b) s.
Proof. destruct b; [reflexivity|]. cbn. symmetry. apply map_id. Qed.

(* "no encoded delimiters": the decoded key has none of % & =, the decoded value none of % &, and the entry is not
   the bare "=" *)
Definition clean_kv (e : str * str) : bool :=
  negb (memN c_percent (fst e)) && negb (memN c_amp (fst e)) && negb (memN c_eq (fst e))
  && negb (memN c_percent (snd e)) && negb (memN c_amp (snd e)) && negb (bare e).
Definition clean_map (m : list (str * str)) : bool := forallb clean_kv m.

Lemma clean_kv_parts e : clean_kv e = true ->
  memN c_percent (fst e) = false /\ memN c_amp (fst e) = false /\ memN c_eq (fst e) = false
  /\ memN c_percent (snd e) = false /\ memN c_amp (snd e) = false /\ bare e = false.
Proof.
  unfold clean_kv. intros H. repeat (apply andb_prop in H; destruct H as [H ?]).
  repeat split; match goal with |- ?x = false => destruct x; [discriminate|reflexivity] end.
Qed.

Section ReadBack.
  Variable f : N -> N.
  Hypothesis Hf : casemap f.

  Let fkv (e : str * str) : str * str := (map f (fst e), map f (snd e)).

  Lemma f_const d : is_letter d = false -> f d = d.
  Proof. destruct Hf as (_ & _ & F3). apply F3. Qed.

  Lemma enc_Q_no d x : bytes_ok x = true -> d <> c_percent -> is_hex d = false -> is_letter d = false ->
    memN d x = false -> memN d (map f (enc_Q x)) = false.
  Proof.
    intros Hx H1 H2 H3 H4. rewrite (memN_map_casemap f d _ Hf H3).
    rewrite (percent_encode_mem _ x d keeps_escapes_Q Hx H1 H2), H4. reflexivity.
  Qed.

  Lemma map_f_qp e : map f (qpQ e) = map f (enc_Q (fst e)) ++ (if is_nil (snd e) then [] else c_eq :: map f (enc_Q (snd e))).
  Proof.
    unfold query_param, utf8_percent_encode. rewrite map_app. f_equal.
    destruct (is_nil (snd e)); [reflexivity|]. cbn [map]. rewrite (f_const c_eq eq_refl). reflexivity.
  Qed.

  Lemma piece_inj e e' : kv_bytes_ok e = true -> kv_bytes_ok e' = true -> clean_kv e = true -> clean_kv e' = true ->
    map f (qpQ e) = map f (qpQ e') -> fkv e = fkv e'.
  Proof.
    intros Hb Hb' Hc Hc' Heq.
    unfold kv_bytes_ok in *. apply andb_prop in Hb, Hb'. destruct Hb as [Hk Hv]. destruct Hb' as [Hk' Hv'].
    destruct (clean_kv_parts e Hc) as (P1 & P2 & P3 & P4 & P5 & _).
    destruct (clean_kv_parts e' Hc') as (P1' & P2' & P3' & P4' & P5' & _).
    rewrite !map_f_qp in Heq. apply (f_equal (splitn2 c_eq)) in Heq.
    assert (Hno : forall x, bytes_ok x = true -> memN c_eq x = false -> memN c_eq (map f (enc_Q x)) = false).
    { intros x Hx Hm. apply enc_Q_no; try assumption; try reflexivity. discriminate. }
    assert (Hs : forall k v, bytes_ok k = true -> memN c_eq k = false ->
              splitn2 c_eq (map f (enc_Q k) ++ (if is_nil v then [] else c_eq :: map f (enc_Q v)))
              = (map f (enc_Q k), if is_nil v then None else Some (map f (enc_Q v)))).
    { intros k v Hbk Hmk. destruct (is_nil v).
      - rewrite app_nil_r. apply splitn2_notin. apply Hno; assumption.
      - apply splitn2_app_sep. apply Hno; assumption. }
    rewrite (Hs _ _ Hk P3), (Hs _ _ Hk' P3') in Heq. injection Heq as Hkeq Hveq.
    apply (f_equal percent_decode) in Hkeq.
    rewrite !(pd_map_enc_clean f _ _ Hf keeps_escapes_Q keeps_letters_Q) in Hkeq by assumption.
    unfold fkv. rewrite Hkeq. f_equal.
    destruct (is_nil (snd e)) eqn:E1, (is_nil (snd e')) eqn:E2; try discriminate.
    - apply is_nil_true in E1, E2. rewrite E1, E2. reflexivity.
    - injection Hveq as Hveq. apply (f_equal percent_decode) in Hveq.
      rewrite !(pd_map_enc_clean f _ _ Hf keeps_escapes_Q keeps_letters_Q) in Hveq by assumption. exact Hveq.
  Qed.

  Lemma pieces_inj m : forall m', forallb kv_bytes_ok m = true -> forallb kv_bytes_ok m' = true ->
    clean_map m = true -> clean_map m' = true ->
    map (fun e => map f (qpQ e)) m = map (fun e => map f (qpQ e)) m' -> map fkv m = map fkv m'.
  Proof.
    induction m as [|e m IH]; intros [|e' m'] Hb Hb' Hc Hc' Heq; try discriminate; [reflexivity|].
    cbn [forallb clean_map] in *. apply andb_prop in Hb, Hb', Hc, Hc'.
    destruct Hb as [Hb1 Hb2], Hb' as [Hb1' Hb2'], Hc as [Hc1 Hc2], Hc' as [Hc1' Hc2'].
    cbn [map] in *. injection Heq as He Hm. f_equal; [apply piece_inj; assumption|apply IH; assumption].
  Qed.

  Lemma qp_no_amp e : kv_bytes_ok e = true -> clean_kv e = true -> memN c_amp (qpQ e) = false.
  Proof.
    intros Hb Hc. unfold kv_bytes_ok in Hb. apply andb_prop in Hb. destruct Hb as [Hk Hv].
    destruct (clean_kv_parts e Hc) as (_ & P2 & _ & _ & P5 & _).
    unfold query_param, utf8_percent_encode. rewrite memN_app.
    rewrite (percent_encode_mem _ _ c_amp keeps_escapes_Q Hk) by (try reflexivity; discriminate). rewrite P2. cbn [andb orb].
    destruct (is_nil (snd e)); [reflexivity|]. rewrite memN_cons.
    rewrite (percent_encode_mem _ _ c_amp keeps_escapes_Q Hv) by (try reflexivity; discriminate). rewrite P5. reflexivity.
  Qed.

  Lemma join_pieces e m : forallb kv_bytes_ok (e :: m) = true -> clean_map (e :: m) = true ->
    is_nil (join (map qpQ (e :: m))) = false
    /\ split_on c_amp (map f (join (map qpQ (e :: m)))) = map (fun e => map f (qpQ e)) (e :: m).
  Proof.
    intros Hb Hc.
    assert (Hne : is_nil (qpQ e) = false).
    { rewrite is_nil_query_param. cbn [clean_map forallb] in Hc. apply andb_prop in Hc. destruct Hc as [Hc _].
      apply clean_kv_parts in Hc. apply Hc. }
    cbn [map]. rewrite join_formula by (left; exact Hne).
    split; [rewrite is_nil_app, Hne; reflexivity|].
    destruct Hf as (F1 & _ & _).
    rewrite (split_on_map f c_amp _ (fun b => F1 b c_amp eq_refl)).
    rewrite split_on_join.
    - cbn [map]. rewrite map_map. reflexivity.
    - apply qp_no_amp; [cbn [forallb] in Hb; apply andb_prop in Hb; apply Hb|cbn [clean_map forallb] in Hc; apply andb_prop in Hc; apply Hc].
    - intros q Hq. apply in_map_iff in Hq. destruct Hq as (e0 & <- & He0).
      cbn [forallb clean_map] in Hb, Hc. apply andb_prop in Hb, Hc. destruct Hb as [_ Hb], Hc as [_ Hc].
      rewrite forallb_forall in Hb. unfold clean_map in Hc. rewrite forallb_forall in Hc. apply qp_no_amp; [apply Hb|apply Hc]; exact He0.
  Qed.

  Lemma query_inj m m' : forallb kv_bytes_ok m = true -> forallb kv_bytes_ok m' = true ->
    clean_map m = true -> clean_map m' = true ->
    is_nil (join (map qpQ m)) = is_nil (join (map qpQ m')) ->
    map f (join (map qpQ m)) = map f (join (map qpQ m')) -> map fkv m = map fkv m'.
  Proof.
    intros Hb Hb' Hc Hc' Hnil Heq. destruct m as [|e m], m' as [|e' m'].
    - reflexivity.
    - destruct (join_pieces e' m' Hb' Hc') as [H1 _]. rewrite H1 in Hnil. discriminate.
    - destruct (join_pieces e m Hb Hc) as [H1 _]. rewrite H1 in Hnil. discriminate.
    - destruct (join_pieces e m Hb Hc) as [_ H1]. destruct (join_pieces e' m' Hb' Hc') as [_ H2].
      apply (f_equal (split_on c_amp)) in Heq. rewrite H1, H2 in Heq. apply pieces_inj; assumption.
  Qed.

  Lemma nf_inj p p' m m' : memN c_qmark p = false -> memN c_qmark p' = false ->
    forallb kv_bytes_ok m = true -> forallb kv_bytes_ok m' = true -> clean_map m = true -> clean_map m' = true ->
    map f (with_query p (join (map qpQ m))) = map f (with_query p' (join (map qpQ m'))) ->
    map f p = map f p' /\ map fkv m = map fkv m'.
  Proof.
    intros Hp Hp' Hb Hb' Hc Hc' Heq.
    assert (Hs : forall p qs, memN c_qmark p = false ->
              splitn2 c_qmark (map f (with_query p qs)) = (map f p, if is_nil qs then None else Some (map f qs))).
    { intros p0 qs Hp0. unfold with_query. destruct (is_nil qs).
      - apply splitn2_notin. rewrite (memN_map_casemap f c_qmark _ Hf eq_refl). exact Hp0.
      - rewrite map_app. cbn [map]. rewrite (f_const c_qmark eq_refl). apply splitn2_app_sep.
        rewrite (memN_map_casemap f c_qmark _ Hf eq_refl). exact Hp0. }
    apply (f_equal (splitn2 c_qmark)) in Heq. rewrite (Hs _ _ Hp), (Hs _ _ Hp') in Heq. injection Heq as H1 H2.
    split; [exact H1|].
    destruct (is_nil (join (map qpQ m))) eqn:E1, (is_nil (join (map qpQ m'))) eqn:E2; try discriminate.
    - apply query_inj; try assumption; [rewrite E1, E2; reflexivity|].
      apply is_nil_true in E1, E2. rewrite E1, E2. reflexivity.
    - injection H2 as H2. apply query_inj; try assumption. rewrite E1, E2. reflexivity.
  Qed.
End ReadBack.

Lemma url_map_bytes_ok u : shape_ok u = true -> forallb kv_bytes_ok (url_map u) = true.
Proof.
  intros Hok. destruct (shape_ok_parts u Hok) as (_ & _ & Hbq & _ & _).
  apply forallb_forall. intros e He. unfold url_map in He. apply btree_collect_incl in He.
  unfold url_params in He. destruct (url_query u) as [q|]; [|destruct He].
  pose proof (parse_bytes_ok q Hbq) as Hp. rewrite forallb_forall in Hp. apply Hp. exact He.
Qed.

Lemma forallb_filter {A} (P f : A -> bool) l : forallb P l = true -> forallb P (filter f l) = true.
Proof.
  intros H. apply forallb_forall. intros a Ha. apply filter_In in Ha. rewrite forallb_forall in H. apply H, Ha.
Qed.

Lemma enc_U_path_no_qmark u : shape_ok u = true -> memN c_qmark (enc_U (url_path u)) = false.
Proof.
  intros Hok. destruct (shape_ok_parts u Hok) as (_ & Hbp & _ & _ & _). destruct (url_split u) as [Hnq _].
  rewrite (percent_encode_mem _ _ c_qmark keeps_escapes_U Hbp) by (try reflexivity; discriminate). rewrite Hnq. reflexivity.
Qed.

Definition fold_kv (b : bool) (e : str * str) : str * str := (lower_if b (fst e), lower_if b (snd e)).

(* u and u' differ: their sanitised paths differ, or their collected decoded parameters (ignored marketing
   parameters removed) differ; both up to ASCII case when ignore_path_and_query_case is set *)
Definition differs (cfg : config) (u u' : str) : bool :=
  let b := ignore_path_and_query_case cfg in
  negb (str_eqb (lower_if b (enc_U (url_path u))) (lower_if b (enc_U (url_path u'))))
  || negb (list_eqb kv_eqb (map (fold_kv b) (kept cfg (url_map u))) (map (fold_kv b) (kept cfg (url_map u')))).

Theorem differs_no_match cfg u u' host : url_ok cfg u = true -> shape_ok u' = true ->
  clean_map (kept cfg (url_map u)) = true -> clean_map (kept cfg (url_map u')) = true ->
  differs cfg u u' = true ->
  static_rule_matches (rule_path_and_query cfg (url_path u) (url_query u))
                      (rebuild_with_config cfg (request_from_config cfg u' host)) = false.
Proof.
  intros H Hok' Hc Hc' Hd.
  assert (Hok : shape_ok u = true).
  { unfold url_ok in H. apply andb_prop in H. destruct H as [H _]. apply andb_prop in H. destruct H as [H _]. exact H. }
  destruct (static_rule_matches _ _) eqn:E; [|reflexivity]. exfalso.
  unfold static_rule_matches in E. rewrite rebuild_keeps_matching_string in E.
  rewrite (rule_string_is_request_string cfg u H) in E. apply str_eqb_spec in E.
  rewrite !request_matching_string_nf in E by assumption. rewrite !lower_if_map in E.
  unfold nf_string, nf_query in E.
  set (b := ignore_path_and_query_case cfg) in *.
  destruct (nf_inj (case_map b) (casemap_case_map b) _ _ _ _
              (enc_U_path_no_qmark u Hok) (enc_U_path_no_qmark u' Hok')
              (forallb_filter _ _ _ (url_map_bytes_ok u Hok)) (forallb_filter _ _ _ (url_map_bytes_ok u' Hok'))
              Hc Hc' E) as [Hp Hm].
  unfold differs in Hd. fold b in Hd. rewrite !lower_if_map, Hp, str_eqb_refl in Hd. cbn [negb orb] in Hd.
  assert (Hm' : map (fold_kv b) (kept cfg (url_map u)) = map (fold_kv b) (kept cfg (url_map u'))).
  { assert (Hfk : forall e, fold_kv b e = (map (case_map b) (fst e), map (case_map b) (snd e)))
      by (intros e; unfold fold_kv; rewrite !lower_if_map; reflexivity).
    rewrite !(map_ext _ _ Hfk). exact Hm. }
  rewrite Hm' in Hd.
  assert (Hr : list_eqb kv_eqb (map (fold_kv b) (kept cfg (url_map u'))) (map (fold_kv b) (kept cfg (url_map u'))) = true)
    by (apply (list_eqb_spec kv_eqb kv_eqb_spec); reflexivity).
  rewrite Hr in Hd. discriminate.
Qed.

(* T6 at the level of the rule: under ignore_path_and_query_case the literal rule of u matches the case-swapped URL *)
Theorem rule_matches_case_swapped cfg u host : ignore_path_and_query_case cfg = true ->
  url_ok cfg u = true -> case_ok cfg u = true ->
  static_rule_matches (rule_path_and_query cfg (url_path u) (url_query u))
                      (rebuild_with_config cfg (request_from_config cfg (swap_url u) host)) = true.
Proof.
  intros Hflag H Hc.
  assert (Hok : shape_ok u = true).
  { unfold url_ok in H. apply andb_prop in H. destruct H as [H _]. apply andb_prop in H. destruct H as [H _]. exact H. }
  unfold static_rule_matches. rewrite rebuild_keeps_matching_string.
  rewrite (rule_string_is_request_string cfg u H), (case_insensitive cfg u Hflag Hok Hc). apply str_eqb_refl.
Qed.
