(* C10Run.v — executable verdicts for the correspondence check of C10 (markers capture the matching text and are
   substituted into targets and filters).
   A case = a router configuration, ONE rule (path / query / host / header templates with markers, typed marker
   expressions with transformer chains, optional variables, target, header-filter and body-filter values), one
   request, what the property demands for that request (computed by the harness GENERATOR from the way it built
   the request: instantiation of every marker, its own transformer and substitution code; never by calling the
   crate), and what the crate did.
   Streams:
     SUnamb    every marker is followed by a literal whose first character is outside the marker's alphabet (or by
               the end): the parse is unique, so match <=> every instantiation is accepted, captures = instantiation,
               Location / get_target / filter values = simultaneous longest-name substitution of the transformed values;
     SAmb      several parses may exist: the request must match (all instantiations accepted) and the captured
               values must form A valid parse (each value accepted by its marker's expression, every template
               instantiated with the captured values gives back the request text); substituted outputs are
               checked against the CAPTURED values (no transformers in this stream);
     SWitness  outside the stated domain: the expectation is the recorded behaviour of the crate. *)
Require Import Coq.Strings.String.
Require Import RIO.Base RIO.Pct RIO.Url RIO.Marker RIO.Rx.
Open Scope N_scope.

(* the engine the run uses: RIO.Rx, validated by this very correspondence *)
Definition rxE : engine := {| eng_is_match := rx_is_match; eng_captures := rx_captures; eng_valid := rx_valid false |}.

Definition opt_eqb {A} (e : A -> A -> bool) (a b : option A) : bool :=
  match a, b with None, None => true | Some x, Some y => e x y | _, _ => false end.
Fixpoint list_eqb {A} (e : A -> A -> bool) (a b : list A) : bool :=
  match a, b with
  | [], [] => true
  | x :: a', y :: b' => e x y && list_eqb e a' b'
  | _, _ => false
  end.
Definition pair_eqb (a b : str * str) : bool := str_eqb (fst a) (fst b) && str_eqb (snd a) (snd b).
Definition bf_eqb (a b : body_filter) : bool :=
  match a, b with
  | BFText x, BFText y => str_eqb x y
  | BFHtml v i, BFHtml v' i' => str_eqb v v' && opt_eqb str_eqb i i'
  | _, _ => false
  end.

Inductive stream := SUnamb | SAmb | SWitness.

(* what <Rule as IntoRoute>::into_route built for the path, the host and each match_regex header condition:
   Static(string) or Dynamic with the public fields regex / capture of the MarkerString *)
Inductive sod_obs := SObsStatic (s : str) | SObsDynamic (regex capture : str).
Definition sod_obs_of (x : static_or_dynamic) : sod_obs :=
  match x with Static s => SObsStatic s | Dynamic m => SObsDynamic (ms_regex m) (ms_capture m) end.
Definition route_obs (rt : route10) : list sod_obs :=
  sod_obs_of (rt_path rt)
  :: (match rt_host rt with Some h => [sod_obs_of h] | None => [] end)
  ++ filter_some (map (fun h => match snd h with HMatchRegex m => Some (SObsDynamic (ms_regex m) (ms_capture m)) | _ => None end) (rt_headers rt)).
Definition sod_obs_eqb (a b : sod_obs) : bool :=
  match a, b with
  | SObsStatic x, SObsStatic y => str_eqb x y
  | SObsDynamic r c, SObsDynamic r' c' => str_eqb r r' && str_eqb c c'
  | _, _ => false
  end.

Record case10 := {
  c_stream : stream;
  c_cfg : config;
  c_rule : rule10;
  c_url : str;                          (* path_and_query given to Request::from_config *)
  c_host : option str;
  c_scheme : option str;
  c_method : option str;
  c_headers : list (str * str);         (* request headers, added with add_header(.., ignore_header_case) *)
  c_remote : option str;                (* remote address, as text *)
  c_oracle : list (N * str * str);      (* (kind, input, output) of every heck / non-ASCII case conversion the crate performed *)
  (* what the property demands, from the generator *)
  c_expect_match : bool;
  c_expect_panic : bool;                (* witness stream only *)
  c_expect_captured : list (str * str); (* SUnamb: the instantiation as the sanitised request carries it, sorted by name *)
  c_expect_variables : list (str * str);(* SUnamb: every variable with its value after the transformer chains *)
  c_expect_location : option str;
  c_expect_target : option str;
  c_expect_hvalues : list str;          (* values of the action's header filters, the Location filter first when there is one *)
  c_expect_bvalues : list body_filter;
  c_parse_checks : list (str * str);    (* SAmb: (template as the rule side holds it, request text it is matched against) *)
  (* implementation *)
  o_route : list sod_obs;               (* rule.into_route(&config): path, host, match_regex headers *)
  o_panic : bool;
  o_match : bool;
  o_captured : list (str * str);        (* Route::capture, sorted by name *)
  o_location : option str;              (* Location header produced by Action::filter_headers *)
  o_target : option str;                (* Action::get_target *)
  o_hvalues : list str;                 (* header_filters[*].filter.value of the serialised Action *)
  o_bvalues : list body_filter          (* body_filters[*].filter: content | value, inner_value *)
}.

Definition oracle_of (t : list (N * str * str)) : oracle :=
  fun k s => option_map snd (find (fun e => N.eqb (fst (fst e)) k && str_eqb (snd (fst e)) s) t).

Definition request_of (c : case10) : request10 :=
  let cfg := c_cfg c in
  {| q_pq := from_config cfg (c_url c);
     q_host := option_map (fun s => if ignore_host_case cfg then to_lowercase_ascii s else s) (c_host c);
     q_scheme := c_scheme c;
     q_method := c_method c;
     q_headers := map (fun h => (fst h, if ignore_header_case cfg then to_lowercase_ascii (snd h) else snd h)) (c_headers c);
     q_remote_addr := c_remote c;
     q_created_at := None |}.

(* preconditions of the model: what is lowercased is ASCII; decoded query pieces are valid UTF-8 *)
Definition model_applicable (c : case10) : bool :=
  from_config_valid (c_url c)
  && match r_query (c_rule c) with Some q => form_urlencoded_parse_valid q | None => true end
  && match c_host c with Some h => all_ascii h | None => true end
  && match r_host (c_rule c) with Some h => all_ascii h | None => true end
  && forallb (fun h => all_ascii (fst h) && (negb (ignore_header_case (c_cfg c)) || all_ascii (snd h))) (c_headers c)
  && forallb (fun h => all_ascii (sh_name h)) (r_headers (c_rule c)).

Record model_obs := {
  mo_panic : bool; mo_match : bool; mo_captured : list (str * str); mo_location : option str; mo_target : option str;
  mo_hvalues : list str; mo_bvalues : list body_filter
}.

(* the model of what the harness does: match the request against a router holding the rule; when it matches:
   Route::capture, Action::get_target, Action::from_routes_rule (one route) and filter_headers *)
Definition model_run (c : case10) : model_obs :=
  let cfg := c_cfg c in
  let q := request_of c in
  let rt := into_route cfg (c_rule c) in
  if negb (route_matches rxE cfg rt q)
  then {| mo_panic := false; mo_match := false; mo_captured := []; mo_location := None; mo_target := None; mo_hvalues := []; mo_bvalues := [] |}
  else
    let captured := route_capture rxE rt q in
    match rule_variables (oracle_of (c_oracle c)) (c_rule c) captured q with
    | Ok variables =>
        let av := action_from_route_rule (c_rule c) variables q in
        {| mo_panic := false; mo_match := true; mo_captured := captured;
           mo_location := av_location av;
           mo_target := action_get_target (c_rule c) variables q;
           mo_hvalues := (match av_location av with Some l => [l] | None => [] end) ++ av_header_values av;
           mo_bvalues := av_body_values av |}
    | _ => {| mo_panic := true; mo_match := false; mo_captured := []; mo_location := None; mo_target := None; mo_hvalues := []; mo_bvalues := [] |}
    end.

Definition model_agrees (c : case10) : bool :=
  let mo := model_run c in
  list_eqb sod_obs_eqb (route_obs (into_route (c_cfg c) (c_rule c))) (o_route c)
  && Bool.eqb (mo_panic mo) (o_panic c)
  && Bool.eqb (mo_match mo) (o_match c)
  && list_eqb pair_eqb (mo_captured mo) (o_captured c)
  && opt_eqb str_eqb (mo_location mo) (o_location c)
  && opt_eqb str_eqb (mo_target mo) (o_target c)
  && list_eqb str_eqb (mo_hvalues mo) (o_hvalues c)
  && list_eqb bf_eqb (mo_bvalues mo) (o_bvalues c).

(* ---- the PROPERTY on the implementation's observations *)

(* the outputs equal the expected ones *)
Definition outputs_as_expected (c : case10) : bool :=
  opt_eqb str_eqb (o_location c) (c_expect_location c)
  && opt_eqb str_eqb (o_target c) (c_expect_target c)
  && list_eqb str_eqb (o_hvalues c) (c_expect_hvalues c)
  && list_eqb bf_eqb (o_bvalues c) (c_expect_bvalues c).

(* the reference substitution (RIO.Marker.simul_longest) of [vars] into the rule's texts gives the observed outputs *)
Definition outputs_are_substitution (c : case10) (vars : list (str * str)) : bool :=
  let r := c_rule c in
  let sub := simul_longest vars in
  (* skipped marketing parameters are appended to the RENDERED target ('?' or '&' according to the rendered text) *)
  let fwd := fun v => with_skipped v (request_of c) in
  let loc := match r_target r with Some t => if is_nil t then None else Some (fwd (sub t)) | None => None end in
  opt_eqb str_eqb (o_location c) loc
  && opt_eqb str_eqb (o_target c) (option_map (fun t => fwd (sub t)) (r_target r))
  && list_eqb str_eqb (o_hvalues c) ((match loc with Some l => [l] | None => [] end) ++ map sub (r_header_filters r))
  && list_eqb bf_eqb (o_bvalues c)
       (map (fun f => match f with
                      | BFText x => BFText (sub x)
                      | BFHtml v i => BFHtml (sub v) (Some (sub (match i with Some x => x | None => v end)))
                      end) (r_body_filters r)).

(* a captured value is accepted by the expression of its marker *)
Definition value_accepted (c : case10) (nv : str * str) : bool :=
  match get_marker (c_rule c) (fst nv) with
  | None => false
  | Some mk => rx_is_match false (leaf_regex (utf8_decode (grp_nc (utf8_percent_encode (m_regex mk) rule_SIMPLE_ENCODE_SET)))) (utf8_decode (snd nv))
  end.

Definition property_holds (c : case10) : bool :=
  match c_stream c with
  | SWitness =>
      Bool.eqb (o_panic c) (c_expect_panic c)
      && (o_panic c
          || (Bool.eqb (o_match c) (c_expect_match c)
              && (negb (o_match c) || (list_eqb pair_eqb (o_captured c) (c_expect_captured c) && outputs_as_expected c))))
  | SUnamb =>
      negb (o_panic c)
      && Bool.eqb (o_match c) (c_expect_match c)
      && (negb (o_match c)
          || (list_eqb pair_eqb (o_captured c) (c_expect_captured c)
              && outputs_as_expected c
              (* the generator's substitution agrees with the reference substitution of the theorems (with the skipped
                 marketing parameters forwarded, in the cases that configure them) *)
              && outputs_are_substitution c (c_expect_variables c)))
  | SAmb =>
      negb (o_panic c)
      && c_expect_match c && o_match c
      && forallb (value_accepted c) (o_captured c)
      && forallb (fun th => str_eqb (simul_longest (o_captured c) (fst th)) (snd th)) (c_parse_checks c)
      && outputs_are_substitution c (o_captured c)
  end.

(* bit 1: model <> implementation (skipped outside the model's preconditions);
   bit 4: the property fails on the implementation's observations *)
Definition verdict10 (c : case10) : N :=
  (vbit (negb (model_applicable c) || model_agrees c) 1 + vbit (property_holds c) 4)%N.

Definition spec_verdict10 (c : case10) : N := vbit (property_holds c) 4.

(* constructors used by the harness printer *)
Definition mk_cfg10 (ihc ihdc ipqc : bool) : config :=
  {| ignore_host_case := ihc; ignore_header_case := ihdc; ignore_path_and_query_case := ipqc;
     ignore_marketing_query_params := true; marketing_query_params := [];
     pass_marketing_query_params_to_target := false; always_match_any_host := false |}.
Definition mk_cfg10m (ihc ihdc ipqc : bool) (mk : list str) (pass : bool) : config :=
  {| ignore_host_case := ihc; ignore_header_case := ihdc; ignore_path_and_query_case := ipqc;
     ignore_marketing_query_params := true; marketing_query_params := mk;
     pass_marketing_query_params_to_target := pass; always_match_any_host := false |}.
Definition mk_tr (kind : option str) (options : option (list (str * str))) : transformer :=
  {| t_kind := kind; t_options := options |}.
Definition mk_marker (name regex : str) (ts : list transformer) : api_marker :=
  {| m_name := name; m_regex := regex; m_transformers := ts |}.
Definition mk_var (name : str) (kind : variable_kind) (ts : list transformer) : api_variable :=
  {| v_name := name; v_kind := kind; v_transformers := ts |}.
Definition mk_sh (name kind : str) (value : option str) : source_header :=
  {| sh_name := name; sh_kind := kind; sh_value := value |}.
