(* RxToks.v — parser compositionality over rendered tokens (RIO.Prefix tokens, RIO.Rx parser).
   [tok_atom gi t]  : the atom the parser builds for ONE token in isolation (group index gi threaded);
   [toks_atoms]     : the same over a token list;  [toks_parse ts] : it succeeds from group index 1.
   When it succeeds,  ^ render ts $  parses to  RCat (... (RCat (RCat RBol a1) a2) ... an) REol
   and ^ render (firstn k ts) parses to the corresponding left-nested prefix. *)
Require Import RIO.Base RIO.Prefix RIO.Rx RIO.RxParse.
Close Scope N_scope.
Open Scope nat_scope.

Definition tok_fuel (b : list N) : nat := 2 * length b + 6.

Definition tok_atom (gi : nat) (t : tok) : option (rx * nat) :=
  match t with
  | TLit c => Some (RChar c, gi)
  | TGrp b =>
      match atom_of (parse_alt (tok_fuel b)) (parse_class (tok_fuel b)) ch_lparen (b ++ [ch_rparen]) gi with
      | Some (a, [], gi') => Some (a, gi')
      | _ => None
      end
  end.

Fixpoint toks_atoms (gi : nat) (ts : list tok) {struct ts} : option (list rx * nat) :=
  match ts with
  | [] => Some ([], gi)
  | t :: ts' =>
      match tok_atom gi t with
      | None => None
      | Some (a, gi1) =>
          match toks_atoms gi1 ts' with
          | None => None
          | Some (l, g) => Some (a :: l, g)
          end
      end
  end.

Definition toks_parse (ts : list tok) : bool := match toks_atoms 1 ts with Some _ => true | None => false end.

(* ------------------------------------------------------------------ literals *)
Lemma escape_meta c y : is_meta c = true -> parse_escape (c :: y) = Some (CChar c, y).
Proof.
  unfold is_meta, metas. cbn [existsb]. intros H.
  repeat (apply orb_prop in H; destruct H as [H|H]; [apply N.eqb_eq in H; subst c; reflexivity|]).
  discriminate.
Qed.

Lemma nonmeta_eqbs c : is_meta c = false ->
  N.eqb c 92 = false /\ N.eqb c 46 = false /\ N.eqb c 43 = false /\ N.eqb c 42 = false /\ N.eqb c 63 = false /\
  N.eqb c 40 = false /\ N.eqb c 41 = false /\ N.eqb c 124 = false /\ N.eqb c 91 = false /\ N.eqb c 93 = false /\
  N.eqb c 123 = false /\ N.eqb c 125 = false /\ N.eqb c 94 = false /\ N.eqb c 36 = false.
Proof.
  unfold is_meta, metas. cbn [existsb]. intros H.
  repeat (apply orb_false_iff in H; destruct H as [? H]). repeat split; assumption.
Qed.

Lemma atom_of_plain pa pcl c y gi : is_meta c = false -> atom_of pa pcl c y gi = Some (RChar c, y, gi).
Proof.
  intros H. destruct (nonmeta_eqbs c H) as (E92 & E46 & E43 & E42 & E63 & E40 & E41 & E124 & E91 & E93 & E123 & E125 & E94 & E36).
  unfold atom_of, ch_lparen, ch_lbrack, ch_dot, ch_caret, ch_dollar, ch_bs, ch_star, ch_plus, ch_q, ch_lbrace.
  rewrite E40, E91, E46, E94, E36, E92, E42, E43, E63, E123. reflexivity.
Qed.

Lemma atom_of_bs pa pcl s gi : atom_of pa pcl ch_bs s gi =
  match parse_escape s with
  | Some (CChar x, rest) => Some (RChar x, rest, gi)
  | Some (it, rest) => Some (RClass false [it], rest, gi)
  | None => None
  end.
Proof. reflexivity. Qed.

(* ------------------------------------------------------------------ what follows a token is never a quantifier *)
Definition noquant (y : list N) : Prop := match y with [] => True | c :: _ => quant_one REmpty c [] = Some None end.

Lemma parse_quants_noquant y a f : noquant y -> 1 <= f -> parse_quants f a y = Some (a, y).
Proof.
  intros H Hf. destruct f as [|f]; [lia|]. destruct y as [|c y]; [reflexivity|].
  rewrite parse_quants_S. cbn [noquant] in H. rewrite (quant_one_none _ _ _ H). reflexivity.
Qed.

Lemma noquant_plain c y : is_meta c = false -> noquant (c :: y).
Proof.
  intros H. destruct (nonmeta_eqbs c H) as (E92 & E46 & E43 & E42 & E63 & E40 & E41 & E124 & E91 & E93 & E123 & E125 & E94 & E36).
  cbn [noquant]. unfold quant_one, ch_star, ch_plus, ch_q, ch_lbrace. rewrite E42, E43, E63, E123. reflexivity.
Qed.

Lemma noquant_render1 t y : noquant (render1 t ++ y).
Proof.
  destruct t as [c|b]; cbn [render1].
  - destruct (is_meta c) eqn:E; cbn [app]; [reflexivity|apply noquant_plain; exact E].
  - cbn [app]. reflexivity.
Qed.

Lemma noquant_render ts x : noquant x -> noquant (render ts ++ x).
Proof.
  intros Hx. destruct ts as [|t ts]; [exact Hx|].
  change (render (t :: ts)) with (render1 t ++ render ts). rewrite <- app_assoc. apply noquant_render1.
Qed.

(* ------------------------------------------------------------------ one token *)
Lemma tok_atom_spec gi t a gi1 : tok_atom gi t = Some (a, gi1) ->
  exists c s', render1 t = c :: s' /\ (N.eqb c ch_bar || N.eqb c ch_rparen) = false /\
    forall f y, 2 * length s' + 2 <= f -> atom_of (parse_alt f) (parse_class f) c (s' ++ y) gi = Some (a, y, gi1).
Proof.
  destruct t as [c|b]; cbn [tok_atom render1].
  - intros H. inversion H; subst. destruct (is_meta c) eqn:Em.
    + exists BS, [c]. split; [reflexivity|]. split; [reflexivity|]. intros f y _. cbn [app].
      change BS with ch_bs. rewrite atom_of_bs, (escape_meta c y Em). reflexivity.
    + exists c, []. split; [reflexivity|]. split.
      * destruct (nonmeta_eqbs c Em) as (E92 & E46 & E43 & E42 & E63 & E40 & E41 & E124 & _).
        unfold ch_bar, ch_rparen. rewrite E124, E41. reflexivity.
      * intros f y _. cbn [app]. apply atom_of_plain. exact Em.
  - destruct (atom_of _ _ ch_lparen (b ++ [ch_rparen]) gi) as [[[a0 [|z rest]] g0]|] eqn:Ea; try discriminate.
    intros H. inversion H; subst.
    destruct (atom_of_ext _ _ _ _ _ _ _ (proj1 (parse_ext (tok_fuel b))) Ea) as [_ Hx].
    exists LP, (b ++ [RP]). split; [reflexivity|]. split; [reflexivity|]. intros f y Hf.
    specialize (Hx f y). cbn [length] in Hx. rewrite Nat.sub_0_r in Hx. apply Hx. exact Hf.
Qed.

Lemma parse_cat_atom f c s' gi acc a rest gi' :
  (N.eqb c ch_bar || N.eqb c ch_rparen) = false ->
  atom_of (parse_alt f) (parse_class f) c s' gi = Some (a, rest, gi') -> noquant rest -> 1 <= f ->
  parse_cat (S f) (c :: s') gi acc = parse_cat f rest gi' (cat acc a).
Proof. intros H1 H2 H3 H4. rewrite parse_cat_S, H1, H2, parse_quants_noquant by assumption. reflexivity. Qed.

(* ------------------------------------------------------------------ a token list inside parse_cat *)
Lemma parse_cat_toks ts : forall gi l g x acc res,
  toks_atoms gi ts = Some (l, g) -> noquant x ->
  PCat x g (fold_left cat l acc) res -> PCat (render ts ++ x) gi acc res.
Proof.
  induction ts as [|t ts IH]; intros gi l g x acc res Ha Hq Hres.
  - cbn [toks_atoms] in Ha. inversion Ha; subst. exact Hres.
  - cbn [toks_atoms] in Ha. destruct (tok_atom gi t) as [[a gi1]|] eqn:Et; [|discriminate].
    destruct (toks_atoms gi1 ts) as [[l' g']|] eqn:El; [|discriminate]. inversion Ha; subst. cbn [fold_left] in Hres.
    assert (H0 : PCat (render ts ++ x) gi1 (cat acc a) res) by (eapply IH; eassumption).
    destruct res as [[r rest] g2]. apply PCat_fuel in H0. destruct H0 as [Hl Hf].
    destruct (tok_atom_spec _ _ _ _ Et) as (c & s' & Hr & Hstop & Hat).
    exists (S (Nat.max (2 * length s' + 2) (2 * (length (render ts ++ x) - length rest) + 1))).
    change (render (t :: ts)) with (render1 t ++ render ts). rewrite <- app_assoc, Hr. cbn [app].
    rewrite (parse_cat_atom _ _ _ _ _ a (render ts ++ x) gi1 Hstop); [|apply Hat; lia|apply noquant_render; exact Hq|lia].
    apply Hf. apply Nat.le_max_r.
Qed.

Lemma cat_RCat acc a : acc <> REmpty -> cat acc a = RCat acc a.
Proof. destruct acc; cbn [cat]; intros H; try reflexivity. contradiction. Qed.
Lemma chain_cat l : forall acc, acc <> REmpty -> fold_left cat l acc = fold_left RCat l acc /\ fold_left RCat l acc <> REmpty.
Proof.
  induction l as [|a l IH]; intros acc H; cbn [fold_left]; [split; [reflexivity|exact H]|].
  rewrite (cat_RCat acc a H). apply IH. discriminate.
Qed.

(* the anchored pattern  ^ tokens x  where x is parsed by parse_cat alone *)
Lemma parse_anchored ts l g x r g' : toks_atoms 1 ts = Some (l, g) -> noquant x ->
  PCat x g (fold_left RCat l RBol) (r, [], g') -> parse (ch_caret :: render ts ++ x) = Some r.
Proof.
  intros Ha Hq Hx. apply PAlt_parse with g'.
  assert (H1 : PCat (render ts ++ x) 1 RBol (r, [], g')).
  { eapply parse_cat_toks; [exact Ha|exact Hq|]. rewrite (proj1 (chain_cat l RBol ltac:(discriminate))). exact Hx. }
  apply PCat_fuel in H1. destruct H1 as [_ Hf].
  set (F := 2 * (length (render ts ++ x) - 0) + 1). exists (S (S F)).
  rewrite parse_alt_S.
  rewrite (parse_cat_atom F ch_caret (render ts ++ x) 1 REmpty RBol (render ts ++ x) 1);
    [|reflexivity|reflexivity|apply noquant_render; exact Hq|unfold F; lia].
  cbn [cat]. rewrite Hf; [reflexivity|unfold F; cbn [length]; apply Nat.le_refl].
Qed.

Lemma noquant_dollar : noquant [ch_dollar]. Proof. reflexivity. Qed.

Theorem parse_leaf ts l g : toks_atoms 1 ts = Some (l, g) ->
  parse (ch_caret :: render ts ++ [ch_dollar]) = Some (RCat (fold_left RCat l RBol) REol).
Proof.
  intros Ha. apply (parse_anchored ts l g [ch_dollar] _ g Ha noquant_dollar).
  exists 2. rewrite (parse_cat_atom 1 ch_dollar [] g _ REol [] g); [|reflexivity|reflexivity|exact I|lia].
  cbn [parse_cat]. rewrite cat_RCat; [reflexivity|apply chain_cat; discriminate].
Qed.

Theorem parse_node ts l g : toks_atoms 1 ts = Some (l, g) ->
  parse (ch_caret :: render ts) = Some (fold_left RCat l RBol).
Proof.
  intros Ha. rewrite <- (app_nil_r (render ts)). apply (parse_anchored ts l g [] _ g Ha I).
  exists 1. reflexivity.
Qed.

Lemma toks_atoms_firstn k : forall ts gi l g, toks_atoms gi ts = Some (l, g) ->
  exists g', toks_atoms gi (firstn k ts) = Some (firstn k l, g').
Proof.
  induction k as [|k IH]; intros ts gi l g H; [exists gi; reflexivity|].
  destruct ts as [|t ts]; cbn [toks_atoms] in H.
  - inversion H; subst. exists g. reflexivity.
  - destruct (tok_atom gi t) as [[a gi1]|] eqn:Et; [|discriminate].
    destruct (toks_atoms gi1 ts) as [[l' g0]|] eqn:El; [|discriminate]. inversion H; subst.
    destruct (IH _ _ _ _ El) as [g' Hg]. exists g'. cbn [firstn toks_atoms]. rewrite Et, Hg. reflexivity.
Qed.

Lemma toks_parse_firstn k ts : toks_parse ts = true -> toks_parse (firstn k ts) = true.
Proof.
  unfold toks_parse. destruct (toks_atoms 1 ts) as [[l g]|] eqn:E; [|discriminate]. intros _.
  destruct (toks_atoms_firstn k _ _ _ _ E) as [g' ->]. reflexivity.
Qed.
