(* Analyses.v — RedirectionLoop::compute (src/api/redirection_loop.rs) over an abstract one-hop function.
   A node is a (url, method) pair.  [step n] is one pass of the pipeline from [n]: None when the request cannot be
   built, the final status is not a redirection or there is no Location header; Some (n', code) otherwise, where n'
   carries the joined url and the method after the 301/302 rewrite.  [external n'] : the target's domain is not one of
   the project's domains. *)
Require Import RIO.Base.
Close Scope N_scope.

Inductive lerr := AtLeastOneHop | TooManyHops | Loop.

Section Loop.
Variable node : Type.
Variable node_eqb : node -> node -> bool.
Variable step : node -> option (node * N).
Variable external : node -> bool.

(* the body of `'outer: for i in 1..=max_hops`, [rem] = iterations left including this one *)
Fixpoint loop (rem i : nat) (cur : node) (hops : list (node * N)) (err : option lerr) : list (node * N) * option lerr :=
  match rem with
  | O => (hops, err)
  | S rem' =>
      match step cur with
      | None => (hops, err)
      | Some (nxt, code) =>
          let err1 := if Nat.ltb 1 i then Some AtLeastOneHop else err in
          if existsb (fun h => node_eqb (fst h) nxt) hops then (hops ++ [(nxt, code)], Some Loop)
          else
            let hops' := hops ++ [(nxt, code)] in
            if external nxt then (hops', err1)
            else if Nat.eqb rem' 0 then (hops', Some TooManyHops)
            else loop rem' (S i) nxt hops' err1
      end
  end.

Definition compute (max_hops : nat) (start : node) : list (node * N) * option lerr :=
  loop max_hops 1 start [(start, 0%N)] None.
End Loop.
