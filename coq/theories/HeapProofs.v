Require Import RIO.Base RIO.Heap.
Open Scope N_scope.

(* ------------------------------------------------------------------ what the handles own *)
Definition node_blocks (nd : N * N * N * N * N) : list (N * N) :=
  let '(n, a, sa, b, sb) := nd in [(a, sa); (b, sb); (n, NODE_SIZE)].
Definition owned (v : hval) : list (N * N) :=
  match v with
  | HBuf loc len => if N.eqb loc 0 then [] else [(loc, len)]
  | HBox loc size => [(loc, size)]
  | HStr loc size => [(loc, size)]
  | HHdr ns => flat_map node_blocks ns
  end.
Definition owned_all (hs : list (N * hval)) : list (N * N) := flat_map (fun e => owned (snd e)) hs.
Definition kind_of (v : hval) : kind := match v with HBuf _ _ => KBuf | HBox _ _ => KBox | HStr _ _ => KStr | HHdr _ => KHdr end.
Definition kinds (hs : list (N * hval)) : list (N * kind) := map (fun e => (fst e, kind_of (snd e))) hs.
Definition buf_wf (v : hval) : Prop := match v with HBuf loc len => loc <> 0 -> len <> 0 | _ => True end.

Definition keys (l : list (N * N)) := map fst l.

Record Inv (s : state) : Prop := {
  inv_nodup : NoDup (keys (blocks (hp s)));
  inv_bound : forall k, In k (keys (blocks (hp s))) -> 0 < k < next (hp s);
  inv_next : 0 < next (hp s);
  inv_perm : Permutation (blocks (hp s)) (owned_all (handles s));
  inv_buf : Forall (fun e => buf_wf (snd e)) (handles s)
}.

(* ------------------------------------------------------------------ allocator lemmas *)
Lemma remove_block_spec l loc size : NoDup (keys l) -> In (loc, size) l ->
  exists rest, remove_block l loc = Some (size, rest) /\ Permutation l ((loc, size) :: rest).
Proof.
  induction l as [|[k s] l IH]; intros Hn Hin; [destruct Hin|]. cbn [remove_block].
  cbn in Hn. inversion Hn as [|? ? Hk Hn']; subst. destruct Hin as [E|Hin].
  - injection E as -> ->. rewrite N.eqb_refl. exists l. split; [reflexivity|apply Permutation_refl].
  - destruct (N.eqb k loc) eqn:E.
    + apply N.eqb_eq in E. subst k. exfalso. apply Hk. apply in_map_iff. exists (loc, size). split; [reflexivity|exact Hin].
    + destruct (IH Hn' Hin) as (rest & Hr & Hp). rewrite Hr. exists ((k, s) :: rest). split; [reflexivity|].
      eapply Permutation_trans; [apply perm_skip; exact Hp|apply perm_swap].
Qed.

Lemma dealloc_ok h loc size : NoDup (keys (blocks h)) -> In (loc, size) (blocks h) ->
  exists rest, dealloc h loc size = inr {| blocks := rest; next := next h |} /\ Permutation (blocks h) ((loc, size) :: rest).
Proof.
  intros Hn Hin. destruct (remove_block_spec _ _ _ Hn Hin) as (rest & Hr & Hp). exists rest. unfold dealloc. rewrite Hr, N.eqb_refl. split; [reflexivity|exact Hp].
Qed.

Lemma perm_keys_nodup (a b : list (N * N)) : Permutation a b -> NoDup (keys a) -> NoDup (keys b).
Proof. intros Hp Hn. eapply Permutation_NoDup; [apply Permutation_map; exact Hp|exact Hn]. Qed.
Lemma perm_keys_in (a b : list (N * N)) k : Permutation a b -> In k (keys b) -> In k (keys a).
Proof. intros Hp Hin. eapply Permutation_in; [apply Permutation_map, Permutation_sym; exact Hp|exact Hin]. Qed.

(* the heap part of the invariant, on its own *)
Record HInv (h : heap) (own : list (N * N)) : Prop := {
  h_nodup : NoDup (keys (blocks h));
  h_bound : forall k, In k (keys (blocks h)) -> 0 < k < next h;
  h_next : 0 < next h;
  h_perm : Permutation (blocks h) own
}.

Lemma hinv_alloc h own size : HInv h own ->
  let '(h', loc) := alloc h size in HInv h' ((loc, size) :: own) /\ loc <> 0 /\ next h <= next h'.
Proof.
  intros [Hn Hb Hx Hp]. unfold alloc. split; [|split; [lia|cbn; lia]]. constructor; cbn [blocks next keys map fst].
  - constructor; [|exact Hn]. intros Hin. apply Hb in Hin. lia.
  - intros k [<-|Hin]; [lia|]. apply Hb in Hin. lia.
  - lia.
  - apply perm_skip. exact Hp.
Qed.

Lemma hinv_dealloc h own loc size : HInv h ((loc, size) :: own) ->
  exists h', dealloc h loc size = inr h' /\ HInv h' own /\ next h' = next h.
Proof.
  intros [Hn Hb Hx Hp].
  assert (Hin : In (loc, size) (blocks h)) by (eapply Permutation_in; [apply Permutation_sym; exact Hp|left; reflexivity]).
  destruct (dealloc_ok h loc size Hn Hin) as (rest & Hd & Hpr). eexists. split; [exact Hd|]. split; [|reflexivity].
  assert (Hn2 : NoDup (keys ((loc, size) :: rest))) by (eapply perm_keys_nodup; eassumption).
  constructor; cbn [blocks next].
  - cbn in Hn2. inversion Hn2; assumption.
  - intros k Hin'. apply Hb. eapply perm_keys_in; [exact Hpr|]. cbn. right. exact Hin'.
  - exact Hx.
  - apply (Permutation_cons_inv (a := (loc, size))). eapply Permutation_trans; [apply Permutation_sym; exact Hpr|exact Hp].
Qed.

Lemma hinv_perm h own own' : HInv h own -> Permutation own own' -> HInv h own'.
Proof. intros [Hn Hb Hx Hp] H. constructor; try assumption. eapply Permutation_trans; eassumption. Qed.

(* ------------------------------------------------------------------ Buffer::from_vec (repaired) *)
Lemma from_vec_ok h own len cap : HInv h own -> len <= cap ->
  exists h' v, buf_from_vec h len cap = inr (h', v) /\ HInv h' (owned v ++ own) /\ kind_of v = KBuf /\ buf_wf v.
Proof.
  intros Hi Hle. unfold buf_from_vec. pose proof (hinv_alloc h own cap Hi) as Ha. destruct (alloc h cap) as [h1 loc] eqn:E1. destruct Ha as (Hi1 & Hl & _).
  destruct (N.eqb len 0) eqn:E0.
  - destruct (hinv_dealloc h1 own loc cap Hi1) as (h2 & Hd & Hi2 & _). rewrite Hd. exists h2, (HBuf 0 0). cbn. split; [reflexivity|]. split; [exact Hi2|]. split; [reflexivity|]. intros H; contradiction.
  - apply N.eqb_neq in E0. destruct (N.eqb cap len) eqn:Ec.
    + apply N.eqb_eq in Ec. subst cap. exists h1, (HBuf loc len). cbn [owned]. apply N.eqb_neq in Hl. rewrite Hl. cbn [app]. split; [reflexivity|]. split; [exact Hi1|]. split; [reflexivity|]. intros _; exact E0.
    + destruct (hinv_dealloc h1 own loc cap Hi1) as (h2 & Hd & Hi2 & _). rewrite Hd.
      pose proof (hinv_alloc h2 own len Hi2) as Ha2. destruct (alloc h2 len) as [h3 loc'] eqn:E3. destruct Ha2 as (Hi3 & Hl3 & _).
      exists h3, (HBuf loc' len). cbn [owned]. apply N.eqb_neq in Hl3. rewrite Hl3. cbn [app]. split; [reflexivity|]. split; [exact Hi3|]. split; [reflexivity|]. intros _; exact E0.
Qed.

Lemma buf_release_ok h own v : HInv h (owned v ++ own) -> kind_of v = KBuf -> buf_wf v ->
  exists h', buf_release h v = inr h' /\ HInv h' own.
Proof.
  intros Hi Hk Hw. destruct v as [loc len| | |]; try discriminate Hk. cbn [buf_release owned] in *.
  destruct (N.eqb loc 0) eqn:E0; cbn [orb app] in *; [exists h; split; [reflexivity|exact Hi]|].
  apply N.eqb_neq in E0. specialize (Hw E0). apply N.eqb_neq in Hw. rewrite Hw.
  destruct (hinv_dealloc h own loc len Hi) as (h' & Hd & Hi' & _). exists h'. split; assumption.
Qed.

(* ------------------------------------------------------------------ header maps *)
Lemma perm3 {A} (x y z : A) : Permutation [x; y; z] [z; y; x].
Proof.
  eapply Permutation_trans; [apply perm_swap|]. eapply Permutation_trans; [apply perm_skip, perm_swap|]. apply perm_swap.
Qed.
Lemma perm_rot {A} (X Y : list A) x y z : Permutation (X ++ z :: y :: x :: Y) (x :: y :: z :: X ++ Y).
Proof.
  change (X ++ z :: y :: x :: Y) with (X ++ [z; y; x] ++ Y). rewrite app_assoc.
  eapply Permutation_trans; [apply Permutation_app_tail, Permutation_app_comm|]. cbn [app].
  change (z :: y :: x :: X ++ Y) with ([z; y; x] ++ (X ++ Y)). change (x :: y :: z :: X ++ Y) with ([x; y; z] ++ (X ++ Y)).
  apply Permutation_app_tail. apply Permutation_sym, perm3.
Qed.

Lemma alloc_nodes_ok entries : forall h own, HInv h own ->
  let '(h', ns) := alloc_nodes h entries in HInv h' (flat_map node_blocks ns ++ own).
Proof.
  induction entries as [|[ln lv] rest IH]; intros h own Hi; cbn [alloc_nodes]; [exact Hi|].
  pose proof (hinv_alloc h own (ln + 1) Hi) as A1. destruct (alloc h (ln + 1)) as [h1 a]. destruct A1 as (I1 & _ & _).
  pose proof (hinv_alloc h1 _ (lv + 1) I1) as A2. destruct (alloc h1 (lv + 1)) as [h2 b]. destruct A2 as (I2 & _ & _).
  pose proof (hinv_alloc h2 _ NODE_SIZE I2) as A3. destruct (alloc h2 NODE_SIZE) as [h3 n]. destruct A3 as (I3 & _ & _).
  pose proof (IH h3 _ I3) as A4. destruct (alloc_nodes h3 rest) as [h4 ns]. cbn [flat_map node_blocks].
  eapply hinv_perm; [exact A4|]. cbn [app]. apply perm_rot.
Qed.

Lemma free_nodes_ok ns : forall h own, HInv h (flat_map node_blocks ns ++ own) ->
  exists h', free_nodes h ns = inr h' /\ HInv h' own.
Proof.
  induction ns as [|[[[[n a] sa] b] sb] rest IH]; intros h own Hi; cbn [free_nodes]; [exists h; split; [reflexivity|exact Hi]|].
  cbn [flat_map node_blocks app] in Hi.
  destruct (hinv_dealloc h _ a sa Hi) as (h1 & D1 & I1 & _). rewrite D1.
  destruct (hinv_dealloc h1 _ b sb I1) as (h2 & D2 & I2 & _). rewrite D2.
  destruct (hinv_dealloc h2 _ n NODE_SIZE I2) as (h3 & D3 & I3 & _). rewrite D3.
  apply IH. exact I3.
Qed.

(* ------------------------------------------------------------------ handle tables *)
Lemma take_handle_kind hs id : 
  take_kind (kinds hs) id = match take_handle hs id with Some (v, rest) => Some (kind_of v, kinds rest) | None => None end.
Proof.
  induction hs as [|[k v] hs IH]; [reflexivity|]. cbn [kinds map take_kind take_handle fst snd]. destruct (N.eqb k id); [reflexivity|].
  fold (kinds hs). rewrite IH. destruct (take_handle hs id) as [[v' r]|]; reflexivity.
Qed.
Lemma has_handle_kind hs id : has_kind (kinds hs) id = has_handle hs id.
Proof. unfold has_kind, has_handle, kinds. induction hs as [|e hs IH]; [reflexivity|]. cbn. rewrite IH. reflexivity. Qed.

Lemma take_handle_perm hs id v rest : take_handle hs id = Some (v, rest) ->
  Permutation (owned_all hs) (owned v ++ owned_all rest) /\ (Forall (fun e => buf_wf (snd e)) hs -> buf_wf v /\ Forall (fun e => buf_wf (snd e)) rest).
Proof.
  revert v rest. induction hs as [|[k w] hs IH]; intros v rest H; [discriminate|]. cbn [take_handle] in H.
  destruct (N.eqb k id).
  - injection H as <- <-. split; [apply Permutation_refl|]. intros F. inversion F; subst. split; assumption.
  - destruct (take_handle hs id) as [[v' r]|]; [|discriminate]. injection H as <- <-. destruct (IH v' r eq_refl) as [P F].
    split.
    + cbn [owned_all flat_map snd]. fold (owned_all hs). fold (owned_all r).
      eapply Permutation_trans; [apply Permutation_app_head; exact P|]. rewrite !app_assoc. apply Permutation_app_tail, Permutation_app_comm.
    + intros Fa. inversion Fa; subst. destruct (F H2) as [F1 F2]. split; [exact F1|constructor; assumption].
Qed.

Definition SInv (s : state) : Prop := HInv (hp s) (owned_all (handles s)) /\ Forall (fun e => buf_wf (snd e)) (handles s).

Lemma add_handle_ok s h id v : SInv s -> HInv h (owned v ++ owned_all (handles s)) -> buf_wf v -> has_handle (handles s) id = false ->
  exists s', add_handle s h id v = inr s' /\ SInv s' /\ kinds (handles s') = (id, kind_of v) :: kinds (handles s).
Proof.
  intros [_ F] Hi Hw Hh. unfold add_handle. rewrite Hh. eexists. split; [reflexivity|]. split; [|reflexivity].
  split; cbn [hp handles]; [exact Hi|constructor; assumption].
Qed.

(* one protocol step: the model step succeeds and keeps the invariant, the handle table follows the protocol table *)
Lemma step_ok s o t' : SInv s -> proto_step (kinds (handles s)) o = Some t' ->
  exists s', step s o = inr s' /\ SInv s' /\ kinds (handles s') = t'.
Proof.
  intros HI Hp. pose proof HI as [Hh Hf]. destruct o; cbn [proto_step step step_gen] in *.
  - (* CBufNew *)
    destruct (cap_ok len cap) eqn:Ec; [|discriminate]. unfold create in Hp. rewrite has_handle_kind in Hp.
    destruct (has_handle (handles s) id) eqn:Eh; [discriminate|]. injection Hp as <-.
    apply N.leb_le in Ec. destruct (from_vec_ok _ _ len cap Hh Ec) as (h' & v & Hv & Hi' & Hk & Hw). rewrite Hv.
    destruct (add_handle_ok s h' id v HI Hi' Hw Eh) as (s' & Ha & Hs' & Hkk). exists s'. rewrite Hk in Hkk. auto.
  - (* CBufDup *)
    rewrite take_handle_kind in Hp. destruct (take_handle (handles s) src) as [[v rest]|] eqn:Et; [|discriminate].
    destruct v as [loc len| | |]; try discriminate Hp. cbn [kind_of] in Hp. unfold create in Hp. rewrite has_handle_kind in Hp.
    destruct (has_handle (handles s) dst) eqn:Eh; [discriminate|]. injection Hp as <-.
    destruct (from_vec_ok _ _ len len Hh (N.le_refl _)) as (h' & v & Hv & Hi' & Hk & Hw). rewrite Hv.
    destruct (add_handle_ok s h' dst v HI Hi' Hw Eh) as (s' & Ha & Hs' & Hkk). exists s'. rewrite Hk in Hkk. auto.
  - (* CBufRelease *)
    unfold release in Hp. rewrite take_handle_kind in Hp. destruct (take_handle (handles s) id) as [[v rest]|] eqn:Et; [|discriminate].
    destruct (kind_eqb KBuf (kind_of v)) eqn:Ek; [|discriminate]. injection Hp as <-.
    assert (Hkv : kind_of v = KBuf) by (destruct v; try discriminate Ek; reflexivity).
    destruct (take_handle_perm _ _ _ _ Et) as [P F]. destruct (F Hf) as [Hw Hr].
    destruct (buf_release_ok (hp s) (owned_all rest) v (hinv_perm _ _ _ Hh P) Hkv Hw) as (h' & Hrel & Hi'). rewrite Hrel.
    eexists. split; [reflexivity|]. split; [split; assumption|reflexivity].
  - (* CFilter *)
    destruct (cap_ok len cap) eqn:Ec; [|discriminate]. apply N.leb_le in Ec.
    unfold release in Hp. rewrite take_handle_kind in Hp. destruct (take_handle (handles s) inp) as [[v rest]|] eqn:Et; [|discriminate].
    destruct (kind_eqb KBuf (kind_of v)) eqn:Ek; [|discriminate].
    assert (Hkv : kind_of v = KBuf) by (destruct v; try discriminate Ek; reflexivity).
    unfold create in Hp. rewrite has_handle_kind in Hp. destruct (has_handle rest out) eqn:Eh; [discriminate|]. injection Hp as <-.
    destruct (take_handle_perm _ _ _ _ Et) as [P F]. destruct (F Hf) as [Hw Hr].
    destruct (buf_release_ok (hp s) (owned_all rest) v (hinv_perm _ _ _ Hh P) Hkv Hw) as (h' & Hrel & Hi'). rewrite Hrel.
    destruct (from_vec_ok _ _ len cap Hi' Ec) as (h2 & v2 & Hv2 & Hi2 & Hk2 & Hw2). rewrite Hv2.
    destruct (add_handle_ok {| hp := h'; handles := rest |} h2 out v2 (conj Hi' Hr) Hi2 Hw2 Eh) as (s' & Ha & Hs' & Hkk).
    exists s'. rewrite Hk2 in Hkk. auto.
  - (* CBoxNew *)
    unfold create in Hp. rewrite has_handle_kind in Hp. destruct (has_handle (handles s) id) eqn:Eh; [discriminate|]. injection Hp as <-.
    pose proof (hinv_alloc _ _ size Hh) as A. destruct (alloc (hp s) size) as [h' loc]. destruct A as (Hi' & _ & _).
    destruct (add_handle_ok s h' id (HBox loc size) HI Hi' I Eh) as (s' & Ha & Hs' & Hkk). exists s'. auto.
  - (* CBoxDrop *)
    unfold release in Hp. rewrite take_handle_kind in Hp. destruct (take_handle (handles s) id) as [[v rest]|] eqn:Et; [|discriminate].
    destruct (kind_eqb KBox (kind_of v)) eqn:Ek; [|discriminate]. injection Hp as <-.
    destruct v as [| loc size | |]; try discriminate Ek.
    destruct (take_handle_perm _ _ _ _ Et) as [P F]. destruct (F Hf) as [_ Hr].
    destruct (hinv_dealloc (hp s) (owned_all rest) loc size (hinv_perm _ _ _ Hh P)) as (h' & Hd & Hi' & _). rewrite Hd.
    eexists. split; [reflexivity|]. split; [split; assumption|reflexivity].
  - (* CStrNew *)
    unfold create in Hp. rewrite has_handle_kind in Hp. destruct (has_handle (handles s) id) eqn:Eh; [discriminate|]. injection Hp as <-.
    pose proof (hinv_alloc _ _ (len + 1) Hh) as A. destruct (alloc (hp s) (len + 1)) as [h' loc]. destruct A as (Hi' & _ & _).
    destruct (add_handle_ok s h' id (HStr loc (len + 1)) HI Hi' I Eh) as (s' & Ha & Hs' & Hkk). exists s'. auto.
  - (* CStrFree *)
    unfold release in Hp. rewrite take_handle_kind in Hp. destruct (take_handle (handles s) id) as [[v rest]|] eqn:Et; [|discriminate].
    destruct (kind_eqb KStr (kind_of v)) eqn:Ek; [|discriminate]. injection Hp as <-.
    destruct v as [| | loc size |]; try discriminate Ek.
    destruct (take_handle_perm _ _ _ _ Et) as [P F]. destruct (F Hf) as [_ Hr].
    destruct (hinv_dealloc (hp s) (owned_all rest) loc size (hinv_perm _ _ _ Hh P)) as (h' & Hd & Hi' & _). rewrite Hd.
    eexists. split; [reflexivity|]. split; [split; assumption|reflexivity].
  - (* CHdrNew *)
    unfold create in Hp. rewrite has_handle_kind in Hp. destruct (has_handle (handles s) id) eqn:Eh; [discriminate|]. injection Hp as <-.
    pose proof (alloc_nodes_ok entries _ _ Hh) as A. destruct (alloc_nodes (hp s) entries) as [h' ns].
    destruct (add_handle_ok s h' id (HHdr ns) HI A I Eh) as (s' & Ha & Hs' & Hkk). exists s'. auto.
  - (* CHdrFree *)
    unfold release in Hp. rewrite take_handle_kind in Hp. destruct (take_handle (handles s) id) as [[v rest]|] eqn:Et; [|discriminate].
    destruct (kind_eqb KHdr (kind_of v)) eqn:Ek; [|discriminate]. injection Hp as <-.
    destruct v as [| | | ns]; try discriminate Ek.
    destruct (take_handle_perm _ _ _ _ Et) as [P F]. destruct (F Hf) as [_ Hr].
    destruct (free_nodes_ok ns (hp s) (owned_all rest) (hinv_perm _ _ _ Hh P)) as (h' & Hd & Hi'). rewrite Hd.
    eexists. split; [reflexivity|]. split; [split; assumption|reflexivity].
Qed.

Lemma run_ok p : forall s t', SInv s -> proto_run (kinds (handles s)) p = Some t' ->
  exists s', run s p = inr s' /\ SInv s' /\ kinds (handles s') = t'.
Proof.
  induction p as [|o p IH]; intros s t' HI Hp; cbn [proto_run run run_gen] in *.
  - injection Hp as <-. exists s. auto.
  - destruct (proto_step (kinds (handles s)) o) as [t1|] eqn:E; [|discriminate].
    destruct (step_ok s o t1 HI E) as (s1 & Hs & HI1 & Hk). fold step. rewrite Hs. rewrite <- Hk in Hp. apply (IH s1 t' HI1 Hp).
Qed.

Lemma sinv0 : SInv state0.
Proof. split; [|constructor]. constructor; cbn; [constructor|intros k []|lia|apply Permutation_refl]. Qed.

(* every complete protocol-respecting program: no deallocation error (double free, foreign pointer, size mismatch),
   and at the end the library side owns nothing — for ALL lengths and capacities *)
Theorem protocol_clean p : well_formed p = true ->
  exists s, run state0 p = inr s /\ blocks (hp s) = [] /\ handles s = [].
Proof.
  unfold well_formed. intros H. destruct (proto_run [] p) as [t|] eqn:E; [|discriminate]. destruct t; [|discriminate].
  destruct (run_ok p state0 [] sinv0 E) as (s & Hr & [Hi _] & Hk). exists s. split; [exact Hr|].
  assert (Hh : handles s = []) by (destruct (handles s); [reflexivity|discriminate Hk]). split; [|exact Hh].
  destruct Hi as [_ _ _ Hp]. rewrite Hh in Hp. cbn in Hp. apply Permutation_nil. apply Permutation_sym. exact Hp.
Qed.

(* the pinned code: a buffer whose Vec had spare capacity is handed back with the wrong size *)
Theorem pinned_layout_mismatch : run_pinned state0 [CBufNew 1 3 8; CBufRelease 1] = inl (ELayout 8 3).
Proof. vm_compute. reflexivity. Qed.
Theorem pinned_same_program_well_formed : well_formed [CBufNew 1 3 8; CBufRelease 1] = true.
Proof. vm_compute. reflexivity. Qed.
