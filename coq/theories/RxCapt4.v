(* RxCapt4.v — from the token-level capture theorem to what the MODEL computes (Marker.ms_capture_run / sod_capture):
   once the model's own conversion of its capture pattern (strip_named) yields the token rendering and numbers the
   references 1, 2, ... in template order — an executable check on the model's output, [strip_ok] — the association
   list returned for the haystack [instantiate val ps] maps every referenced name to its instantiated value. *)
Require Import Coq.Strings.String.
Require Import RIO.Base RIO.Pct RIO.PctProofs RIO.Url RIO.Prefix RIO.RegexSem RIO.Marker RIO.MarkerProofs RIO.Rx RIO.RxMatch RIO.RxToks
               RIO.RxTokSem RIO.RxCapt RIO.RxCapt2 RIO.RxCapt3 RIO.C10Run.
Close Scope N_scope.
Open Scope nat_scope.

Lemma utf8_encode_ascii l : all_ascii l = true -> utf8_encode l = l.
Proof.
  induction l as [|c l IH]; intros H; [reflexivity|]. cbn [all_ascii forallb] in H. apply andb_prop in H. destruct H as [Hc Hl].
  unfold utf8_encode in *. cbn [flat_map]. unfold utf8_encode1 at 1. unfold is_ascii in Hc. rewrite Hc. cbn [app]. f_equal. apply IH. exact Hl.
Qed.
Lemma all_ascii_firstn k l : all_ascii l = true -> all_ascii (firstn k l) = true.
Proof. revert l. induction k as [|k IH]; intros l H; [reflexivity|]. destruct l as [|x l]; [reflexivity|]. cbn [all_ascii forallb firstn] in *. apply andb_prop in H. destruct H as [H1 H2]. rewrite H1. apply IH. exact H2. Qed.
Lemma all_ascii_skipn k : forall l, all_ascii l = true -> all_ascii (skipn k l) = true.
Proof. induction k as [|k IH]; intros l H; [exact H|]. destruct l as [|x l]; [reflexivity|]. cbn [skipn]. apply IH. cbn [all_ascii forallb] in H. apply andb_prop in H. apply H. Qed.

(* the references of a template, numbered in template order *)
Fixpoint index_refs (ps : list piece) (gi : nat) : list (nat * str) :=
  match ps with
  | [] => []
  | PLit _ :: r => index_refs r gi
  | PRef n :: r => (gi, n) :: index_refs r (S gi)
  end.
Lemma index_refs_names ps : forall gi, map snd (index_refs ps gi) = refs ps.
Proof. induction ps as [|[c|n] ps IH]; intros gi; cbn [index_refs refs flat_map map app snd]; [reflexivity|apply IH|f_equal; apply IH]. Qed.

Lemma spans_lookups ic markers hay cs ps : forall gi pos, spans ic (map (ctok markers) ps) gi pos hay cs ->
  forall g n, In (g, n) (index_refs ps gi) -> cap_lookup g cs <> None.
Proof.
  induction ps as [|[c|m] ps IH]; intros gi pos H g n Hin; cbn [map ctok spans index_refs] in *; [destruct Hin| |].
  - destruct H as (y & r & _ & _ & H). apply (IH gi (S pos) H g n Hin).
  - destruct H as (k & Hl & _ & H). destruct Hin as [Hin|Hin]; [inversion Hin; subst; rewrite Hl; discriminate|apply (IH (S gi) (pos + k) H g n Hin)].
Qed.

(* ------------------------------------------------------------------ the fold of ms_capture_run *)
Definition cap_step (cs : caps) (hay : str) (acc : list (str * str)) (gn : nat * str) : list (str * str) :=
  match cap_lookup (fst gn) cs with
  | None => acc
  | Some (st, en) => btree_insert (utf8_encode (snd gn)) (utf8_encode (firstn (en - st) (skipn st hay))) acc
  end.

Lemma fold_cap_other cs hay k L : forall acc, (forall gn, In gn L -> utf8_encode (snd gn) <> k) ->
  assoc k (fold_left (cap_step cs hay) L acc) = assoc k acc.
Proof.
  induction L as [|gn L IH]; intros acc H; [reflexivity|]. cbn [fold_left]. rewrite IH by (intros x Hx; apply H; right; exact Hx).
  unfold cap_step. destruct (cap_lookup _ cs) as [[st en]|]; [|reflexivity]. rewrite assoc_btree_insert.
  destruct (str_eqb k _) eqn:E; [|reflexivity]. apply str_eqb_spec in E. exfalso. apply (H gn); [left; reflexivity|symmetry; exact E].
Qed.

Lemma fold_cap_assoc cs hay ps : all_ascii hay = true -> forall gi acc n,
  NoDup (refs ps) -> (forall x, In x (refs ps) -> all_ascii x = true) ->
  (forall g x, In (g, x) (index_refs ps gi) -> cap_lookup g cs <> None) -> In n (refs ps) ->
  assoc n (fold_left (cap_step cs hay) (index_refs ps gi) acc) = Some (cap_fun ps gi cs hay n).
Proof.
  intros Hhay. induction ps as [|[c|m] ps IH]; intros gi acc n Hnd Hasc Hlk Hin; cbn [refs flat_map app index_refs cap_fun] in *; [destruct Hin| |].
  - apply IH; assumption.
  - inversion Hnd as [|x l Hnin Hnd']; subst. cbn [fold_left]. destruct (str_eqb m n) eqn:E.
    + apply str_eqb_spec in E. subst m. rewrite fold_cap_other.
      * unfold cap_step. cbn [fst snd]. destruct (cap_lookup gi cs) as [[st en]|] eqn:El; [|exfalso; apply (Hlk gi n); [left; reflexivity|exact El]].
        rewrite assoc_btree_insert, (utf8_encode_ascii n) by (apply Hasc; left; reflexivity). rewrite str_eqb_refl.
        rewrite utf8_encode_ascii; [reflexivity|apply all_ascii_firstn, all_ascii_skipn; exact Hhay].
      * intros [g x] Hx. cbn [snd]. assert (Hxr : In x (refs ps)) by (rewrite <- (index_refs_names ps (S gi)); apply (in_map snd _ _ Hx)).
        rewrite (utf8_encode_ascii x) by (apply Hasc; right; exact Hxr). intros ->. contradiction.
    + destruct Hin as [Hin|Hin]; [subst; rewrite str_eqb_refl in E; discriminate|].
      apply IH; [exact Hnd'|intros x Hx; apply Hasc; right; exact Hx|intros g x Hx; apply (Hlk g x); right; exact Hx|exact Hin].
Qed.

(* ------------------------------------------------------------------ a match yields captures *)
Lemma first_some_exists {X Y} (f : X -> option Y) l x : In x l -> f x <> None -> first_some f l <> None.
Proof.
  induction l as [|z l IH]; intros Hin Hx; [destruct Hin|]. cbn [first_some]. destruct (f z) eqn:E; [discriminate|].
  destruct Hin as [->|Hin]; [contradiction|apply IH; assumption].
Qed.
Lemma rx_match_has_captures ic re s : rx_is_match ic re s = true -> exists cs, rx_captures ic re s = Some cs.
Proof.
  rewrite rx_is_match_unfold. unfold rx_captures. destruct (parse re) as [r|]; [|discriminate]. intros H.
  apply existsb_exists in H. destruct H as ([p r'] & Hin & H). apply matches_at_iff in H. destruct H as (c' & Hr). cbn [fst snd] in Hr.
  assert (Hm : m _ ic r p r' [] (fun _ _ cs => Some cs) <> None).
  { apply (m_complete _ ic r (p, r') c' [] _ Hr). intros cs. discriminate. }
  pose proof (first_some_exists (fun ps => m _ ic r (fst ps) (snd ps) [] (fun _ _ cs => Some cs)) _ (p, r') Hin Hm) as Hf.
  destruct (first_some _ _) as [cs|]; [exists cs; reflexivity|contradiction].
Qed.

(* ------------------------------------------------------------------ the model's capture *)
(* executable: the model's conversion of ITS capture pattern gives the token rendering and numbers the references in order *)
Definition eq_names (a b : list (nat * str)) : bool :=
  Nat.eqb (length a) (length b) && forallb (fun p => Nat.eqb (fst (fst p)) (fst (snd p)) && str_eqb (snd (fst p)) (snd (snd p))) (combine a b).
Lemma eq_names_eq a : forall b, eq_names a b = true -> a = b.
Proof.
  unfold eq_names. induction a as [|[g n] a IH]; intros [|[g' n'] b] H; cbn [length combine forallb] in H; try reflexivity; try discriminate.
  apply andb_prop in H. destruct H as [Hl H]. apply andb_prop in H. destruct H as [Hh Ht]. apply andb_prop in Hh. destruct Hh as [H1 H2]. cbn [fst snd] in *.
  apply Nat.eqb_eq in H1. apply str_eqb_spec in H2. subst. f_equal. apply IH. rewrite Ht. cbn [Nat.eqb] in Hl. rewrite Hl. reflexivity.
Qed.
Definition strip_ok (markers : list (str * str)) (ps : list piece) (m : marker_string) : bool :=
  let cap := utf8_decode (ms_capture m) in
  match strip_named (S (length cap)) cap 0 1 [] [] with
  | Some (stripped, names) =>
      str_eqb stripped (render (map (ctok markers) ps)) && eq_names names (index_refs ps 1)
      && negb (has_dup (map snd names)) && forallb (fun gn => group_name_ok (snd gn)) names
  | None => false
  end.

Theorem model_capture_rx markers sepb (val : str -> str) ps m :
  ms_ignore_case m = false -> strip_ok markers ps m = true ->
  forallb cap_simple (map (ctok markers) ps) = true -> NoDup (refs ps) -> (forall x, In x (refs ps) -> all_ascii x = true) ->
  (forall n whole p k, In n (refs ps) -> G_rx false (regex_of markers n) whole p k = true -> sep_free sepb (firstn k (skipn p whole)) = true) ->
  sep_delimited sepb ps = true -> (forall n, sep_free sepb (val n) = true) ->
  all_ascii (instantiate val ps) = true ->
  rx_is_match false (leaf_regex (render (map (ctok markers) ps))) (instantiate val ps) = true ->
  forall n, In (PRef n) ps -> assoc n (ms_capture_run rxE m (instantiate val ps)) = Some (val n).
Proof.
  intros Hic Hstrip Hsimple Hnd Hasc HG Hd Hv Hhay Hmatch n Hin.
  unfold strip_ok in Hstrip. unfold ms_capture_run.
  destruct (strip_named _ (utf8_decode (ms_capture m)) 0 1 [] []) as [[stripped names]|]; [|discriminate].
  apply andb_prop in Hstrip. destruct Hstrip as [Hstrip Hgn]. apply andb_prop in Hstrip. destruct Hstrip as [Hstrip Hdup].
  apply andb_prop in Hstrip. destruct Hstrip as [Hs Hnames]. apply str_eqb_spec in Hs. apply eq_names_eq in Hnames. subst stripped names.
  apply negb_true_iff in Hdup. rewrite Hdup, Hgn. cbn [orb negb]. rewrite (utf8_decode_ascii _ Hhay), Hic.
  destruct (rx_match_has_captures _ _ _ Hmatch) as [cs Hcs]. cbn [eng_captures rxE]. rewrite Hcs.
  pose proof (rx_captures_valid_parse false _ _ _ Hsimple Hcs) as Hsp.
  assert (Hn : In n (refs ps)).
  { clear - Hin. induction ps as [|[c|x] ps IH]; [destruct Hin|destruct Hin as [H|H]; [discriminate|apply IH; exact H]|].
    cbn [refs flat_map app]. destruct Hin as [H|H]; [inversion H; left; reflexivity|right; apply IH; exact H]. }
  change (fold_left _ (index_refs ps 1) []) with (fold_left (cap_step cs (instantiate val ps)) (index_refs ps 1) []).
  rewrite (fold_cap_assoc cs _ ps Hhay 1 [] n Hnd Hasc (spans_lookups false markers _ cs ps 1 0 Hsp) Hn).
  f_equal. apply (rx_captures_are_values markers sepb val ps cs Hsimple Hnd HG Hd Hv Hcs n Hin).
Qed.
