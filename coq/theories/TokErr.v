(* TokErr.v — two more facts about [next] (RIO.HtmlTok), for every input and state:
   (1) once EOF has been observed the position is at (or past) the end of the input: no byte is un-read after a failed
       read ([next_err_pos]);
   (2) a tag token is never returned with the EOF flag set ([next_tag_err]). *)
Require Import RIO.Base RIO.TokMonad RIO.HtmlTok RIO.TokLogic RIO.HtmlTokProofs RIO.TokShift RIO.TokBound.
Close Scope N_scope.
Open Scope nat_scope.

Definition J (inp : list N) (s : st) : Prop := err s = true -> length inp <= raw_end s.
Definition HJ {A} (m : M A) : Prop := forall inp s, J inp s -> J inp (snd (m inp s)).
Definition HJ0 {A} (m : M A) : Prop := forall inp s, err s = false -> J inp (snd (m inp s)).

Lemma hj_to0 {A} (m : M A) : HJ m -> HJ0 m.
Proof. intros H inp s He. apply H. intros E. congruence. Qed.
Lemma hj_ret {A} (a : A) : HJ (ret a). Proof. intros inp s H. exact H. Qed.
Lemma hj_get : HJ get. Proof. intros inp s H. exact H. Qed.
Lemma hj_bind {A B} (m : M A) (k : A -> M B) : HJ m -> (forall a, HJ (k a)) -> HJ (bind m k).
Proof. intros Hm Hk inp s H. rewrite bind_eq. apply Hk, Hm, H. Qed.
Lemma hj0_bind {A B} (m : M A) (k : A -> M B) : HJ0 m -> (forall a, HJ (k a)) -> HJ0 (bind m k).
Proof. intros Hm Hk inp s H. rewrite bind_eq. apply Hk, Hm, H. Qed.
Lemma hj00_bind {A B} (m : M A) (k : A -> M B) : EP m -> (forall a, HJ0 (k a)) -> HJ0 (bind m k).
Proof. intros Hm Hk inp s H. rewrite bind_eq. apply Hk. rewrite (Hm inp s). exact H. Qed.
Lemma hj_upd f : (forall s, err (f s) = err s /\ raw_end s <= raw_end (f s)) -> HJ (upd f).
Proof. intros Hf inp s H. cbn. destruct (Hf s) as [E1 E2]. intros E. rewrite E1 in E. specialize (H E). lia. Qed.
Lemma hj0_upd f : (forall s, err (f s) = err s) -> HJ0 (upd f).
Proof. intros Hf inp s H. cbn. intros E. rewrite Hf in E. congruence. Qed.
Lemma hj_read_byte : HJ read_byte.
Proof.
  intros inp s H. unfold read_byte. destruct (nth_error inp (raw_end s)) eqn:E; cbn.
  - intros He. specialize (H He). apply nth_error_None in H. congruence.
  - intros _. apply nth_error_None. exact E.
Qed.
Lemma hj_guard {A} (X Y : st -> M A) : (forall s, HJ (X s)) -> (forall s, HJ0 (Y s)) ->
  HJ (s <- get ;; if err s then X s else Y s).
Proof. intros HX HY inp s H. rewrite bind_get. destruct (err s) eqn:E; [apply HX; exact H|apply HY; exact E]. Qed.
Lemma hj_guard_or {A} (c : st -> bool) (X Y : st -> M A) : (forall s, HJ (X s)) -> (forall s, HJ0 (Y s)) ->
  HJ (s <- get ;; if err s || c s then X s else Y s).
Proof.
  intros HX HY inp s H. rewrite bind_get. destruct (err s) eqn:E; cbn [orb]; [apply HX; exact H|].
  destruct (c s); [apply HX; exact H|apply HY; exact E].
Qed.
Lemma hj_guard_neg {A} (X Y : st -> M A) : (forall s, HJ (X s)) -> (forall s, HJ0 (Y s)) ->
  HJ (s <- get ;; if negb (err s) then Y s else X s).
Proof. intros HX HY inp s H. rewrite bind_get. destruct (err s) eqn:E; cbn [negb]; [apply HX; exact H|apply HY; exact E]. Qed.
Lemma hj0_dec_raw_end site k : HJ0 (dec_raw_end site k).
Proof.
  intros inp s H. unfold dec_raw_end. rewrite bind_get. unfold bind, sub_usize.
  destruct (k <=? raw_end s); cbn; intros E; unfold set_panic_site in E; destruct (panic s); cbn in E; congruence.
Qed.
Lemma hj_of_ep {A} (m : M A) : EP m -> (forall inp s, raw_end s <= raw_end (snd (m inp s))) -> HJ m.
Proof. intros He Hr inp s H E. rewrite (He inp s) in E. specialize (H E). specialize (Hr inp s). lia. Qed.
Lemma hj_fail_ret {A} site (a : A) : HJ (fail_at site ;;; ret a).
Proof. apply hj_of_ep; [apply ep_fail_ret|]. intros inp s. cbn. unfold set_panic_site. destruct (panic s); cbn; lia. Qed.
Lemma hj_sub_usize site a b : HJ (sub_usize site a b).
Proof. unfold sub_usize. destruct (b <=? a); [apply hj_ret|apply hj_fail_ret]. Qed.
Lemma hj_add_u8 site a b : HJ (add_u8 site a b).
Proof. unfold add_u8. destruct (N.leb (N.add a b) 255); [apply hj_ret|apply hj_fail_ret]. Qed.
Lemma hj_sub_u8 site a b : HJ (sub_u8 site a b).
Proof. unfold sub_u8. destruct (N.leb b a); [apply hj_ret|apply hj_fail_ret]. Qed.
Lemma hj_index_of site l i : HJ (index_of site l i).
Proof. unfold index_of. destruct (nth_error l i); [apply hj_ret|apply hj_fail_ret]. Qed.
Lemma hj_index site i : HJ (index site i).
Proof. apply hj_of_ep; [apply ep_index|]. intros inp s. unfold index. destruct (nth_error inp i); cbn; [lia|]. unfold set_panic_site. destruct (panic s); cbn; lia. Qed.
Lemma hj_slice site a b : HJ (slice site a b).
Proof. apply hj_of_ep; [apply ep_slice|]. intros inp s. unfold slice. cbn. destruct ((a <=? b) && (b <=? length inp)); [lia|]. unfold set_panic_site. destruct (panic s); cbn; lia. Qed.
Lemma hj_out_of_fuel : HJ out_of_fuel.
Proof. apply hj_upd. intros s. split; [reflexivity|cbn; lia]. Qed.
Lemma hj_input_len : HJ input_len. Proof. intros inp s H. exact H. Qed.
Lemma hj_loop {L A} (body : L -> M (ctl L A)) : (forall x, HJ (body x)) -> forall f x, HJ (loop f body x).
Proof.
  intros Hb. induction f as [|f IH]; intros x; cbn [loop].
  - apply hj_bind; [apply hj_out_of_fuel|intros; apply hj_ret].
  - apply hj_bind; [apply Hb|]. intros [x'| |a]; [apply IH|apply hj_ret|apply hj_ret].
Qed.
Lemma hj_loop_in {L A} (body : L -> M (ctl L A)) x : (forall x, HJ (body x)) -> HJ (loop_in body x).
Proof. intros Hb. unfold loop_in. apply hj_bind; [apply hj_input_len|intros; apply hj_loop; exact Hb]. Qed.
Lemma hj_for_range {A} (body : nat -> M (option A)) : (forall i, HJ (body i)) -> forall n i, HJ (for_range n i body).
Proof.
  intros Hb. induction n as [|n IH]; intros i; cbn [for_range]; [apply hj_ret|].
  apply hj_bind; [apply Hb|]. intros [a|]; [apply hj_ret|apply IH].
Qed.

(* updates: which fields are touched *)
Ltac hj_upd_side :=
  intros; unfold set_pa_key_start, set_pa_key_end, set_pa_val_start, set_pa_val_end;
  repeat match goal with |- context [pending_attribute ?s] => destruct (pending_attribute s) as [[? ?] [? ?]] end;
  cbn; first [reflexivity | split; [reflexivity|lia]].

Create HintDb hj discriminated.
#[export] Hint Resolve hj_ret hj_get hj_read_byte hj_sub_usize hj_add_u8 hj_sub_u8 hj_index_of hj_index hj_slice hj_out_of_fuel : hj.

Lemma ep_sub_u8 site a b : EP (sub_u8 site a b).
Proof. unfold sub_u8. destruct (N.leb b a); [apply ep_ret|apply ep_fail_ret]. Qed.
Ltac ep_solve := solve [ep; auto using ep_start_tag_in, ep_sub_u8].

Ltac hj_step :=
  first
    [ assumption
    | solve [auto 1 with hj nocore]
    | match goal with H : HJ ?m |- HJ0 ?m => apply hj_to0; exact H end
    | apply hj0_dec_raw_end
    | match goal with
      | |- HJ (bind get (fun s => if err s || _ then _ else _)) => apply (hj_guard_or (fun s => _)); intros
      | |- HJ (bind get (fun s => if err s then _ else _)) => apply hj_guard; intros
      | |- HJ (bind get (fun s => if negb (err s) then _ else _)) => apply hj_guard_neg; intros
      | |- HJ (upd _) => apply hj_upd; solve [hj_upd_side]
      | |- HJ0 (upd _) => apply hj0_upd; solve [hj_upd_side]
      | |- HJ0 (ret _) => apply hj_to0, hj_ret
      | |- HJ (loop_in _ _) => apply hj_loop_in; intros
      | |- HJ (for_range _ _ _) => apply hj_for_range; intros
      | |- HJ (bind _ _) => apply hj_bind; [|intros]
      | |- HJ0 (bind (dec_raw_end _ _) _) => apply hj0_bind; [apply hj0_dec_raw_end|intros]
      | |- HJ0 (bind (upd _) _) => apply hj00_bind; [apply presR_upd; intros; reflexivity|intros]
      | |- HJ0 (bind (sub_usize _ _ _) _) => apply hj00_bind; [apply ep_sub_usize|intros]
      | |- HJ0 (bind ?m _) => first [ apply hj00_bind; [ep_solve|intros] | apply hj0_bind; [assumption|intros] | apply hj_to0 ]
      | |- HJ0 (if ?c then _ else _) => destruct c
      | |- HJ0 (match ?c with _ => _ end) => destruct c
      | |- HJ (if ?c then _ else _) => destruct c
      | |- HJ (match ?c with _ => _ end) => destruct c
      | |- HJ0 (let _ := _ in _) => cbv zeta
      | |- HJ (let _ := _ in _) => cbv zeta
      | |- HJ0 _ => apply hj_to0
      end ].
Ltac hj := repeat hj_step.

Lemma hj_skip_white_space : HJ skip_white_space.
Proof. unfold skip_white_space. hj. Qed.
#[export] Hint Resolve hj_skip_white_space : hj.
Lemma hj_read_raw_end_tag : HJ read_raw_end_tag.
Proof. unfold read_raw_end_tag. hj. Qed.
#[export] Hint Resolve hj_read_raw_end_tag : hj.

(* the script states: double_escape_start un-reads a byte on entry, it is only entered after a successful read *)
Definition hj_script_all (f : nat) : Prop :=
  HJ (read_script_data f) /\ HJ (read_script_data_less_than_sign f) /\ HJ (read_script_data_end_tag_open f)
  /\ HJ (read_script_data_escape_start f) /\ HJ (read_script_data_escape_start_dash f)
  /\ HJ (read_script_data_escaped f) /\ HJ (read_script_data_escaped_dash f) /\ HJ (read_script_data_escaped_dash_dash f)
  /\ HJ (read_script_data_escaped_less_than_sign f) /\ HJ (read_script_data_escaped_end_tag_open f)
  /\ HJ0 (read_script_data_double_escape_start f) /\ HJ (read_script_data_double_escaped f)
  /\ HJ (read_script_data_double_escaped_dash f) /\ HJ (read_script_data_double_escaped_dash_dash f)
  /\ HJ (read_script_data_double_escaped_less_than_sign f) /\ HJ (read_script_data_double_escaped_end f).

Lemma hj_script_all_holds : forall f, hj_script_all f.
Proof.
  induction f as [|f IH]; unfold hj_script_all in *.
  - script_unfold. repeat apply conj; try apply hj_out_of_fuel. apply hj_to0, hj_out_of_fuel.
  - destruct IH as (H1 & H2 & H3 & H4 & H5 & H6 & H7 & H8 & H9 & H10 & H11 & H12 & H13 & H14 & H15 & H16).
    repeat apply conj; script_unfold; hj.
Qed.

Lemma hj_read_script_data f : HJ (read_script_data f).
Proof. apply (hj_script_all_holds f). Qed.
Lemma hj_script_fuel : HJ script_fuel.
Proof. unfold script_fuel. apply hj_bind; [apply hj_input_len|intros; apply hj_ret]. Qed.
#[export] Hint Resolve hj_read_script_data hj_script_fuel : hj.
Lemma hj_read_script : HJ read_script.
Proof. unfold read_script. hj. Qed.
#[export] Hint Resolve hj_read_script : hj.
Lemma hj_read_raw_or_cdata : HJ read_raw_or_cdata.
Proof. unfold read_raw_or_cdata. hj. Qed.
#[export] Hint Resolve hj_read_raw_or_cdata : hj.
Lemma hj_read_comment : HJ read_comment.
Proof. unfold read_comment. hj. Qed.
#[export] Hint Resolve hj_read_comment : hj.
Lemma hj_read_until_close_angle : HJ read_until_close_angle.
Proof. unfold read_until_close_angle. hj. Qed.
#[export] Hint Resolve hj_read_until_close_angle : hj.
Lemma hj_read_doc_type : HJ read_doc_type.
Proof. unfold read_doc_type. hj. Qed.
#[export] Hint Resolve hj_read_doc_type : hj.
Lemma hj_read_cdata : HJ read_cdata.
Proof. unfold read_cdata. hj. Qed.
#[export] Hint Resolve hj_read_cdata : hj.
Lemma hj_read_markup_declaration : HJ read_markup_declaration.
Proof. unfold read_markup_declaration. hj. Qed.
#[export] Hint Resolve hj_read_markup_declaration : hj.
Lemma hj_start_tag_in ss : HJ (start_tag_in ss).
Proof. induction ss as [|s_ ss IH]; cbn [start_tag_in]; hj. Qed.
#[export] Hint Resolve hj_start_tag_in : hj.
Lemma hj_read_tag_name : HJ read_tag_name.
Proof. unfold read_tag_name. hj. Qed.
#[export] Hint Resolve hj_read_tag_name : hj.
Lemma hj_read_tag_name_attr_key : HJ read_tag_name_attr_key.
Proof. unfold read_tag_name_attr_key. hj. Qed.
#[export] Hint Resolve hj_read_tag_name_attr_key : hj.
Lemma hj_read_tag_name_attr_value : HJ read_tag_name_attr_value.
Proof. unfold read_tag_name_attr_value. hj. Qed.
#[export] Hint Resolve hj_read_tag_name_attr_value : hj.
Lemma hj_read_tag b : HJ (read_tag b).
Proof. unfold read_tag. hj. Qed.
#[export] Hint Resolve hj_read_tag : hj.
Lemma hj_read_start_tag lower : HJ (read_start_tag lower).
Proof. unfold read_start_tag. hj. Qed.
#[export] Hint Resolve hj_read_start_tag : hj.
Lemma hj_next lower : HJ (next lower).
Proof. unfold next. hj. Qed.

Theorem next_err_pos lower inp s : err s = false -> err (snd (next lower inp s)) = true -> length inp <= raw_end (snd (next lower inp s)).
Proof. intros He. apply (hj_next lower inp s). intros E. congruence. Qed.

(* ---- (2) tag tokens come without the EOF flag ---- *)
Lemma read_start_tag_tag_err lower inp s tk :
  fst (read_start_tag lower inp s) = ROk tk -> tk <> ErrorToken -> err (snd (read_start_tag lower inp s)) = false.
Proof.
  unfold read_start_tag. rewrite bind_eq. set (s1 := snd (read_tag true inp s)). rewrite bind_get.
  destruct (err s1) eqn:E1; [cbn; intros H; injection H as <-; congruence|]. intros _ _.
  match goal with |- err (snd (?m inp s1)) = false => assert (H : EP m) end.
  { ep; apply ep_start_tag_in. }
  rewrite (H inp s1). exact E1.
Qed.

Definition QT (c : ctl unit (result token_type)) (s : st) : Prop :=
  match c with Return (ROk tk) => is_tagk tk = true -> err s = false | _ => True end.

Lemma post_markup_kind : Post (fun t _ => is_tagk t = false) read_markup_declaration.
Proof. unfold read_markup_declaration. repeat first [apply post_ret; intros; reflexivity | apply post_bind_any; intros | match goal with |- Post _ (if ?c then _ else _) => destruct c end]. Qed.

Lemma post_start_tag_leaf_t lower :
  Post QT (t <- read_start_tag lower ;;
           match t with
           | RErr => ret (Return RErr)
           | ROk t => upd (set_token t) ;;; ret (Return (ROk t))
           end).
Proof.
  intros inp s. rewrite bind_eq. destruct (fst (read_start_tag lower inp s)) as [t|] eqn:E; [|cbn; exact I].
  cbn. intros Ht. apply (read_start_tag_tag_err lower inp s t E). intros ->. discriminate.
Qed.

Lemma post_end_tag_leaf :
  Post QT (read_tag false ;;;
           s <- get ;;
           (if err s then upd (set_token ErrorToken) else upd (set_token EndTagToken)) ;;;
           s <- get ;;
           ret (Return (ROk (token s)))).
Proof.
  intros inp s. rewrite bind_eq. rewrite bind_get. set (s1 := snd (read_tag false inp s)).
  destruct (err s1) eqn:E; cbn; [discriminate|]. intros _. exact E.
Qed.

Lemma post_markup_leaf :
  Post QT (t <- read_markup_declaration ;; upd (set_token t) ;;; ret (Return (ROk t))).
Proof.
  intros inp s. rewrite bind_eq. cbn. pose proof (post_markup_kind inp s) as H. cbn in H. rewrite H. discriminate.
Qed.

Ltac postt_step :=
  first
    [ apply post_start_tag_leaf_t
    | apply post_end_tag_leaf
    | apply post_markup_leaf
    | apply post_ret; intros; first [exact I | cbn; discriminate]
    | apply post_bind_any; intros
    | match goal with
      | |- Post _ (if ?c then _ else _) => destruct c
      | |- Post _ (match ?c with _ => _ end) => destruct c
      | |- Post _ (let _ := _ in _) => cbv zeta
      end ].

Theorem next_tag_err lower inp s tk :
  fst (next lower inp s) = ROk tk -> is_tagk tk = true -> err (snd (next lower inp s)) = false.
Proof.
  unfold next. rewrite !bind_upd. rewrite bind_get.
  match goal with |- context [if err ?x then _ else _] => destruct (err x) end; [cbn; intros H; injection H as <-; discriminate|].
  rewrite bind_eq. match goal with |- context [if ?c then ret (ROk TextToken) else _] => destruct c end; [cbn; intros H; injection H as <-; discriminate|].
  rewrite !bind_upd. rewrite bind_eq.
  match goal with |- context [loop_in ?b tt ?i ?t] => set (body := b); set (s2 := t) end.
  assert (HL : match fst (loop_in body tt inp s2) with Some (ROk tk) => is_tagk tk = true -> err (snd (loop_in body tt inp s2)) = false | _ => True end).
  { unfold loop_in. rewrite bind_eq. cbn [fst snd input_len].
    apply (loop_post (fun o t => match o with Some (ROk tk) => is_tagk tk = true -> err t = false | _ => True end)); [intros; exact I|].
    clear. intros x inp s.
    assert (HP : Post QT (body x)) by (unfold body; repeat postt_step).
    specialize (HP inp s). unfold QT in HP. destruct (fst (body x inp s)) as [?| |[?|]]; auto. }
  destruct (fst (loop_in body tt inp s2)) as [[t|]|]; cbn [ret fst snd].
  - intros H. injection H as <-. exact HL.
  - discriminate.
  - rewrite bind_get. match goal with |- context [if ?c then _ else _] => destruct c end; cbn; intros H; injection H as <-; discriminate.
Qed.
