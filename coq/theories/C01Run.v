(* C01Run.v — executable verdicts for C01 / C02 / C17 / C12 (router level): histories over Router,
   observed after every operation on a panel of probe requests. *)
Require Import RIO.Base RIO.Route RIO.Layer RIO.Tree RIO.TreeInst RIO.Rx RIO.Matchers RIO.RouterSpec RIO.RouterHist.
Close Scope N_scope.
Open Scope nat_scope.

Record rcfg := { cf_ic_host : bool; cf_ic_path : bool; cf_always : bool }.

Definition lower_of (tbl : list (str * str)) (s : str) : str := match assoc s tbl with Some l => l | None => s end.

Section Run.
Variable cfg : rcfg.
Variable lw : str -> str.

Definition R := router.
Definition r_ins := router_insert lw rx_is_match rx_valid (cf_ic_host cfg) (cf_ic_path cfg) (cf_always cfg).
Definition r_rem := router_remove lw rx_is_match rx_valid (cf_ic_host cfg) (cf_ic_path cfg) (cf_always cfg).
Definition r_batch := router_batch_remove lw rx_is_match rx_valid (cf_ic_host cfg) (cf_ic_path cfg) (cf_always cfg).
Definition r_change := router_apply_change_set lw rx_is_match rx_valid (cf_ic_host cfg) (cf_ic_path cfg) (cf_always cfg).
Definition r_cache := router_cache lw rx_is_match rx_valid (cf_ic_host cfg) (cf_ic_path cfg) (cf_always cfg).
Definition r_match := router_match lw rx_is_match rx_valid (cf_ic_host cfg) (cf_ic_path cfg) (cf_always cfg).
Definition r_trace := router_trace lw rx_is_match rx_valid (cf_ic_host cfg) (cf_ic_path cfg) (cf_always cfg).
Definition r_get := router_get_route lw rx_is_match rx_valid (cf_ic_host cfg) (cf_ic_path cfg) (cf_always cfg).
Definition r_new := router_new lw rx_is_match rx_valid (cf_ic_host cfg) (cf_ic_path cfg) (cf_always cfg).

Fixpoint ins_sorted (x : N) (l : list N) : list N :=
  match l with [] => [x] | y :: l' => if N.leb x y then x :: l else y :: ins_sorted x l' end.
Definition sortN (l : list N) : list N := fold_right ins_sorted [] l.
(* the SET of tags of a sorted list (C17 compares sets of routes: a trace may list a route once per matching ip range) *)
Fixpoint uniqN (l : list N) : list N :=
  match l with
  | x :: ((y :: _) as l') => if N.eqb x y then uniqN l' else x :: uniqN l'
  | _ => l
  end.

(* priorities are <= 0 (0 - rank): encode option priority as N: 0 = None, 1 + (-p) otherwise *)
Definition pcode (o : option route) : N := match o with None => 0%N | Some r => (1 + Z.to_N (- rt_priority r))%N end.
Definition rmcode (o : option route) : N := match o with None => 1%N | Some r => (2 + rt_tag r)%N end.

(* one observation: [len; removed code] :: per probe [sorted tags of match] , [sorted tags of trace routes], [final-priority code; get_route priority code] *)
Definition observe (with_trace : bool) (Rt : R) (rc : N) (probes : list request) : list (list N) :=
  [N.of_nat (router_len Rt); rc]
  :: flat_map (fun q =>
       sortN (map rt_tag (r_match q Rt))
       :: (if with_trace then
             let tr := traces_routes (r_trace q Rt) in
             [uniqN (sortN (map rt_tag tr)); [pcode (best_route tr); pcode (r_get q Rt)]]
           else [])) probes.

Fixpoint apply_ops (Rt : R) (ops : list rop) : R :=
  match ops with
  | [] => Rt
  | o :: ops' =>
      let R' := match o with
                | RIns r => r_ins r Rt
                | RRem id => fst (r_rem id Rt)
                | RBatch ids => r_batch ids Rt
                | RChange a u d => r_change a u d Rt
                | RCache l => r_cache l Rt
                | RCloneMut _ => Rt
                end in
      apply_ops R' ops'
  end.

Fixpoint run_model (with_trace : bool) (Rt : R) (ops : list rop) (probes : list request) : list (list (list N)) :=
  match ops with
  | [] => []
  | o :: ops' =>
      let '(R', rc) := match o with
                       | RIns r => (r_ins r Rt, 0%N)
                       | RRem id => let '(R1, o1) := r_rem id Rt in (R1, rmcode o1)
                       | RBatch ids => (r_batch ids Rt, 0%N)
                       | RChange a u d => (r_change a u d Rt, 0%N)
                       | RCache l => (r_cache l Rt, 0%N)
                       | RCloneMut _ => (Rt, 0%N)          (* functional model: the original is untouched by construction *)
                       end in
      observe with_trace R' rc probes :: run_model with_trace R' ops' probes
  end.

(* ---- the flat specification: a list of live routes, matched by RIO.RouterSpec.spec_match ---- *)
Definition sp_match (L : list route) (q : request) : list route :=
  spec_match lw (rx_is_match false) (fun re s => rx_is_match (cf_ic_host cfg) (leaf_regex re) s)
             (fun re s => rx_is_match (cf_ic_path cfg) (leaf_regex re) s) (cf_always cfg) L q.

Definition live_step_rc (L : list route) (o : rop) : list route * N :=
  (live_step L o,
   match o with
   | RRem id => rmcode (match filter (fun r => str_eqb (rt_id r) id) L with r :: _ => Some r | [] => None end)
   | _ => 0%N
   end).

Definition best_prio (l : list route) : N :=
  match l with
  | [] => 0%N
  | r :: l' => (1 + Z.to_N (- fold_left (fun m x => Z.max m (rt_priority x)) l' (rt_priority r)))%N
  end.

Definition observe_spec (with_trace : bool) (L : list route) (rc : N) (probes : list request) : list (list N) :=
  [N.of_nat (length L); rc]
  :: flat_map (fun q =>
       let ms := sp_match L q in
       sortN (map rt_tag ms)
       :: (if with_trace then [sortN (map rt_tag ms); [best_prio ms; best_prio ms]] else [])) probes.

Fixpoint run_spec (with_trace : bool) (L : list route) (ops : list rop) (probes : list request) : list (list (list N)) :=
  match ops with
  | [] => []
  | o :: ops' => let '(L', rc) := live_step_rc L o in observe_spec with_trace L' rc probes :: run_spec with_trace L' ops' probes
  end.
End Run.

Fixpoint llN_eqb (a b : list (list N)) : bool :=
  match a, b with [], [] => true | x :: a', y :: b' => str_eqb x y && llN_eqb a' b' | _, _ => false end.
Fixpoint obs_eqb (a b : list (list (list N))) : bool :=
  match a, b with [], [] => true | x :: a', y :: b' => llN_eqb x y && obs_eqb a' b' | _, _ => false end.

Record case01 := {
  c_cfg : rcfg; c_lower : list (str * str); c_trace : bool;
  c_ops : list rop; c_probes : list request;
  c_obs : list (list (list N))
}.

(* bit 1: model <> implementation; bit 4: flat specification <> implementation *)
Definition verdict01 (c : case01) : N :=
  let lw := lower_of (c_lower c) in
  let mo := run_model (c_cfg c) lw (c_trace c) (r_new (c_cfg c) lw) (c_ops c) (c_probes c) in
  let so := run_spec (c_cfg c) lw (c_trace c) [] (c_ops c) (c_probes c) in
  (vbit (obs_eqb mo (c_obs c)) 1 + vbit (obs_eqb so (c_obs c)) 4)%N.
Definition spec_verdict01 (c : case01) : N :=
  let lw := lower_of (c_lower c) in
  let so := run_spec (c_cfg c) lw (c_trace c) [] (c_ops c) (c_probes c) in
  vbit (obs_eqb so (c_obs c)) 4.
