(* C13Run.v — executable verdict for the correspondence check of C13 (evaluated by vm_compute on cases
   written by tools/check.py from the harness output). *)
Require Import RIO.Base RIO.Headers RIO.HeadersSpec.

Definition lower_of (tbl : list (str * str)) (s : str) : str :=
  match assoc s tbl with Some l => l | None => s end.

Fixpoint headers_eqb (a b : list header) : bool :=
  match a, b with
  | [], [] => true
  | (n, v) :: a', (n', v') :: b' => str_eqb n n' && str_eqb v v' && headers_eqb a' b'
  | _, _ => false
  end.

Record case13 := {
  c_lower : list (str * str);          (* to_lowercase of every name that occurs, from the real String::to_lowercase *)
  c_filters : list hfilter;
  c_headers : list header;
  c_obs_fha : list header;             (* FilterHeaderAction::new(filters).filter(headers), or headers when new() is None *)
  c_obs_action : list header           (* Action::filter_headers(headers, 0, false, None) of an action carrying the filters *)
}.

Definition mk_filter (a h v : str) : hfilter := {| hf_action := a; hf_header := h; hf_value := v |}.

(* bit 1: model <> FilterHeaderAction; bit 2: model <> Action::filter_headers; bit 4: reference <> implementation *)
(* the extracted action table is a parameter, so that this file does not depend on the translator output *)
Definition verdict13 (header_action_table : list (str * hkind)) (c : case13) : N :=
  let lw := lower_of (c_lower c) in
  let m := apply_header_filters lw header_action_table (c_filters c) (c_headers c) in
  let s := reference lw (c_filters c) (c_headers c) in
  (vbit (headers_eqb m (c_obs_fha c)) 1 + vbit (headers_eqb m (c_obs_action c)) 2
   + vbit (headers_eqb s (c_obs_action c) && headers_eqb s (c_obs_fha c)) 4)%N.

(* reference vs implementation only: usable when the translator or a proof is broken *)
Definition spec_verdict13 (c : case13) : N :=
  let lw := lower_of (c_lower c) in
  let s := reference lw (c_filters c) (c_headers c) in
  vbit (headers_eqb s (c_obs_action c) && headers_eqb s (c_obs_fha c)) 4.
