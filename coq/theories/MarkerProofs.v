(* MarkerProofs.v — proofs about the marker model (RIO.Marker) for C10.
   Part 1  std string operations: starts_with / contains / replace.
   Part 2  chunks: a string cut at its '@' characters; str::replace("@name", v) and the reference substitution
           [simul] both act chunk by chunk.
   Part 3  sequential replace = simultaneous substitution ([substitute]) under [subst_safe].
   Part 4  longest name first: what the stable length-descending sort gives ([longest_pick], [order_irrelevant]).
   Part 5  MarkerString::new: the shape of the regex ([template_shape]).
   Part 6  transformer chains and Slice.
   Part 7  matching with the regex engine as a parameter (token semantics of RIO.RegexSem): match_if, and the
           unique parse under separators.
   No axioms; every hypothesis is an explicit premise of the statement that uses it. *)
Require Import Coq.Strings.String.
From Coq Require Import Sorted.
Require Import RIO.Base RIO.Pct RIO.Url RIO.Prefix RIO.RegexSem RIO.Marker.
Open Scope N_scope.

(* ================================================================================================== *)
(* Part 1 *)

Lemma prefixb_spec p : forall s, prefixb p s = true <-> exists r, s = p ++ r.
Proof.
  induction p as [|x p IH]; intros s; cbn [prefixb].
  - split; [intros _; exists s; reflexivity|reflexivity].
  - destruct s as [|y s].
    + split; [discriminate|intros [r H]; discriminate].
    + split.
      * intros H. apply andb_prop in H. destruct H as [H1 H2]. apply N.eqb_eq in H1. apply IH in H2. destruct H2 as [r ->].
        subst. exists r. reflexivity.
      * intros [r H]. inversion H; subst. rewrite N.eqb_refl. cbn. apply IH. exists r. reflexivity.
Qed.

Lemma prefixb_app p r : prefixb p (p ++ r) = true.
Proof. apply prefixb_spec. exists r. reflexivity. Qed.

Lemma prefixb_refl p : prefixb p p = true.
Proof. apply prefixb_spec. exists []. symmetry. apply app_nil_r. Qed.

Lemma prefixb_length p s : prefixb p s = true -> (length p <= length s)%nat.
Proof. intros H. apply prefixb_spec in H. destruct H as [r ->]. rewrite app_length. lia. Qed.

Lemma prefixb_skipn p s : prefixb p s = true -> s = p ++ skipn (length p) s.
Proof. intros H. apply prefixb_spec in H. destruct H as [r ->]. rewrite skipn_app, skipn_all, Nat.sub_diag. reflexivity. Qed.

(* two prefixes of one string: the shorter one is a prefix of the longer one *)
Lemma prefixb_both p q : forall s, prefixb p s = true -> prefixb q s = true -> (length p <= length q)%nat -> prefixb p q = true.
Proof.
  revert q. induction p as [|x p IH]; intros q s Hp Hq Hl; [reflexivity|].
  destruct q as [|y q]; [cbn in Hl; lia|]. destruct s as [|z s]; [discriminate|].
  cbn [prefixb] in *. apply andb_prop in Hp. destruct Hp as [H1 H2]. apply andb_prop in Hq. destruct Hq as [H3 H4].
  apply N.eqb_eq in H1, H3. subst. rewrite N.eqb_refl. cbn. apply (IH q s); [assumption|assumption|cbn in Hl; lia].
Qed.

Lemma prefixb_same_length p q : prefixb p q = true -> length p = length q -> p = q.
Proof.
  intros H Hl. apply prefixb_spec in H. destruct H as [r ->]. rewrite app_length in Hl.
  destruct r; [symmetry; apply app_nil_r|cbn in Hl; lia].
Qed.

(* prefix of u ++ x: either already a prefix of u, or it strictly extends u *)
Lemma prefixb_app_cases m : forall u x, prefixb m (u ++ x) = true ->
  prefixb m u = true \/ (prefixb u m = true /\ (length u < length m)%nat).
Proof.
  induction m as [|a m IH]; intros u x H; [left; reflexivity|].
  destruct u as [|b u].
  - right. split; [reflexivity|cbn; lia].
  - cbn [app prefixb] in H. apply andb_prop in H. destruct H as [H1 H2]. apply N.eqb_eq in H1. subst b.
    destruct (IH u x H2) as [Hl|[Hr1 Hr2]].
    + left. cbn [prefixb]. rewrite N.eqb_refl. exact Hl.
    + right. cbn [prefixb length]. rewrite N.eqb_refl. split; [exact Hr1|lia].
Qed.

Lemma prefixb_app_l m u x : prefixb m u = true -> prefixb m (u ++ x) = true.
Proof. intros H. apply prefixb_spec in H. destruct H as [r ->]. rewrite <- app_assoc. apply prefixb_app. Qed.

(* a pattern that does not occur is not replaced *)
Lemma repl_not_contains p t : forall s, containsb p s = false -> repl p t s 0 = s.
Proof.
  induction s as [|c s IH]; intros H; [reflexivity|].
  cbn [containsb] in H. apply orb_false_elim in H. destruct H as [H1 H2].
  cbn [repl]. rewrite H1. f_equal. apply IH. exact H2.
Qed.

Lemma repl_skip p t x : forall r, repl p t (x ++ r) (length x) = repl p t r 0.
Proof. induction x as [|c x IH]; intros r; [reflexivity|]. cbn [app length repl]. apply IH. Qed.

Lemma simul_skip vars x : forall r, simul vars (x ++ r) (length x) = simul vars r 0.
Proof. induction x as [|c x IH]; intros r; [reflexivity|]. cbn [app length simul]. apply IH. Qed.

(* ================================================================================================== *)
(* Part 2: chunks *)

Definition not_at (c : N) : bool := negb (N.eqb c c_at).
Definition at_free (s : str) : bool := forallb not_at s.

Lemma at_free_app a c : at_free (a ++ c) = at_free a && at_free c.
Proof. apply forallb_app. Qed.

Lemma at_free_skipn k s : at_free s = true -> at_free (skipn k s) = true.
Proof.
  intros H. unfold at_free in *. rewrite forallb_forall in *. intros x Hx. apply H.
  rewrite <- (firstn_skipn k s). apply in_or_app. right. exact Hx.
Qed.

(* the string u0 @ u1 @ u2 ... *)
Definition at_chunk (u : str) : str := c_at :: u.
Definition flat (u0 : str) (us : list str) : str := u0 ++ flat_map at_chunk us.

Definition all_at_free (l : list str) : bool := forallb at_free l.

(* what follows a chunk: nothing, or another '@' *)
Definition chunk_end (r : str) : Prop := r = [] \/ exists r', r = c_at :: r'.
Lemma chunk_end_flat us : chunk_end (flat_map at_chunk us).
Proof. destruct us as [|u us]; [left; reflexivity|right; eexists; reflexivity]. Qed.

Lemma prefixb_chunk n : forall u r, at_free n = true -> chunk_end r -> prefixb n (u ++ r) = prefixb n u.
Proof.
  induction n as [|x n IH]; intros u r Hn Hr; [reflexivity|].
  cbn [at_free forallb] in Hn. apply andb_prop in Hn. destruct Hn as [Hx Hn].
  destruct u as [|y u].
  - cbn [app prefixb]. destruct Hr as [->|[r' ->]]; [reflexivity|].
    unfold not_at in Hx. apply negb_true_iff in Hx. rewrite Hx. reflexivity.
  - cbn [app prefixb]. f_equal. apply IH; assumption.
Qed.

Definition names_of (vars : list (str * str)) : list str := map fst vars.

Lemma find_ref_chunk vars u r : all_at_free (names_of vars) = true -> chunk_end r ->
  find_ref vars (u ++ r) = find_ref vars u.
Proof.
  intros Hn Hr. unfold find_ref. induction vars as [|nv vars IH]; [reflexivity|].
  cbn [names_of map all_at_free forallb] in Hn. apply andb_prop in Hn. destruct Hn as [H1 H2].
  cbn [find]. rewrite (prefixb_chunk (fst nv) u r H1 Hr). destruct (prefixb (fst nv) u); [reflexivity|]. apply IH. exact H2.
Qed.

Lemma find_ref_some vars u nv : find_ref vars u = Some nv -> In nv vars /\ prefixb (fst nv) u = true.
Proof. unfold find_ref. intros H. apply find_some in H. exact H. Qed.

(* the reference substitution on one chunk (the text after one '@' up to the next) *)
Definition csub (vars : list (str * str)) (u : str) : str :=
  match find_ref vars u with
  | Some nv => snd nv ++ skipn (length (fst nv)) u
  | None => c_at :: u
  end.

Lemma simul_at_free vars u : forall r, at_free u = true -> simul vars (u ++ r) 0 = u ++ simul vars r 0.
Proof.
  induction u as [|c u IH]; intros r H; [reflexivity|].
  cbn [at_free forallb] in H. apply andb_prop in H. destruct H as [Hc Hu].
  cbn [app simul]. unfold not_at in Hc. apply negb_true_iff in Hc. rewrite Hc. f_equal. apply IH. exact Hu.
Qed.

Lemma simul_chunks vars us : all_at_free (names_of vars) = true -> all_at_free us = true ->
  simul vars (flat_map at_chunk us) 0 = flat_map (csub vars) us.
Proof.
  intros Hn. induction us as [|u us IH]; intros Hus; [reflexivity|].
  cbn [all_at_free forallb] in Hus. apply andb_prop in Hus. destruct Hus as [Hu Hus].
  cbn [flat_map]. unfold at_chunk at 1. cbn [app simul]. rewrite N.eqb_refl.
  rewrite (find_ref_chunk vars u _ Hn (chunk_end_flat us)). unfold csub.
  destruct (find_ref vars u) as [nv|] eqn:E.
  - apply find_ref_some in E. destruct E as [_ Hp]. rewrite (prefixb_skipn _ _ Hp) at 1.
    rewrite <- !app_assoc. rewrite simul_skip. rewrite simul_at_free by (apply at_free_skipn; exact Hu).
    rewrite (IH Hus). reflexivity.
  - rewrite simul_at_free by exact Hu. rewrite (IH Hus). reflexivity.
Qed.

Lemma simul_flat vars u0 us : all_at_free (names_of vars) = true -> at_free u0 = true -> all_at_free us = true ->
  simul_subst vars (flat u0 us) = u0 ++ flat_map (csub vars) us.
Proof. intros Hn H0 Hus. unfold simul_subst, flat. rewrite simul_at_free by exact H0. rewrite simul_chunks by assumption. reflexivity. Qed.

(* str::replace("@n", v) on chunks: a chunk that starts with n is glued to the previous one *)
Fixpoint merge (n v cur : str) (us : list str) : str * list str :=
  match us with
  | [] => (cur, [])
  | u :: us' =>
      if prefixb n u then merge n v (cur ++ v ++ skipn (length n) u) us'
      else let '(a, r) := merge n v u us' in (cur, a :: r)
  end.

Lemma merge_head n v x : forall us cur, merge n v (x ++ cur) us = (x ++ fst (merge n v cur us), snd (merge n v cur us)).
Proof.
  induction us as [|u us IH]; intros cur; [reflexivity|].
  cbn [merge]. destruct (prefixb n u).
  - rewrite <- app_assoc. apply IH.
  - destruct (merge n v u us) as [a r]. reflexivity.
Qed.

Lemma merge_head0 n v x us : merge n v x us = (x ++ fst (merge n v [] us), snd (merge n v [] us)).
Proof. pose proof (merge_head n v x us []) as H. rewrite app_nil_r in H. exact H. Qed.

Lemma merge_nil_head n v us : us = [] -> fst (merge n v [] us) = [].
Proof. intros ->. reflexivity. Qed.

Lemma merge_snd_nil n v : forall us cur, us = [] -> snd (merge n v cur us) = [].
Proof. intros us cur ->. reflexivity. Qed.

(* if the merged list is not empty, neither was the original *)
Lemma merge_snd_nonempty n v : forall us cur, snd (merge n v cur us) <> [] -> us <> [].
Proof. intros us cur H E. apply H. apply merge_snd_nil. exact E. Qed.

Lemma repl_at_free n v u : forall r, at_free u = true -> repl (at_name n) v (u ++ r) 0 = u ++ repl (at_name n) v r 0.
Proof.
  induction u as [|c u IH]; intros r H; [reflexivity|].
  cbn [at_free forallb] in H. apply andb_prop in H. destruct H as [Hc Hu].
  cbn [app repl]. unfold at_name at 1. cbn [prefixb].
  unfold not_at in Hc. apply negb_true_iff in Hc. rewrite N.eqb_sym in Hc. rewrite Hc. cbn [andb]. f_equal. apply IH. exact Hu.
Qed.

Lemma repl_chunks n v us : at_free n = true -> all_at_free us = true ->
  repl (at_name n) v (flat_map at_chunk us) 0 = flat (fst (merge n v [] us)) (snd (merge n v [] us)).
Proof.
  intros Hn. induction us as [|u us IH]; intros Hus; [reflexivity|].
  cbn [all_at_free forallb] in Hus. apply andb_prop in Hus. destruct Hus as [Hu Hus].
  cbn [flat_map]. unfold at_chunk at 1. cbn [app repl]. unfold at_name at 1. cbn [prefixb]. rewrite N.eqb_refl. cbn [andb].
  rewrite (prefixb_chunk n u _ Hn (chunk_end_flat us)). cbn [merge].
  destruct (prefixb n u) eqn:Ep.
  - cbn [at_name length Nat.sub]. rewrite Nat.sub_0_r.
    rewrite (prefixb_skipn _ _ Ep) at 1. rewrite <- !app_assoc. rewrite repl_skip.
    rewrite repl_at_free by (apply at_free_skipn; exact Hu). rewrite (IH Hus).
    change ([] ++ v ++ skipn (length n) u) with (v ++ skipn (length n) u).
    rewrite (merge_head0 n v (v ++ skipn (length n) u) us). cbn [fst snd]. unfold flat. rewrite <- !app_assoc. reflexivity.
  - rewrite repl_at_free by exact Hu. rewrite (IH Hus).
    rewrite (merge_head0 n v u us).
    destruct (merge n v [] us) as [a r]. cbn [fst snd]. unfold flat. cbn [app flat_map]. unfold at_chunk at 2. cbn [app]. rewrite <- app_assoc. reflexivity.
Qed.

Lemma repl_flat n v u0 us : at_free n = true -> at_free u0 = true -> all_at_free us = true ->
  repl (at_name n) v (flat u0 us) 0 = flat (fst (merge n v u0 us)) (snd (merge n v u0 us)).
Proof.
  intros Hn H0 Hus. unfold flat at 1. rewrite repl_at_free by exact H0. rewrite repl_chunks by assumption.
  rewrite (merge_head0 n v u0 us). cbn [fst snd]. unfold flat. rewrite <- app_assoc. reflexivity.
Qed.

(* merge keeps everything free of '@' when the value is *)
Lemma merge_at_free n v : at_free v = true -> forall us cur, at_free cur = true -> all_at_free us = true ->
  at_free (fst (merge n v cur us)) = true /\ all_at_free (snd (merge n v cur us)) = true.
Proof.
  intros Hv. induction us as [|u us IH]; intros cur Hc Hus; [split; [exact Hc|reflexivity]|].
  cbn [all_at_free forallb] in Hus. apply andb_prop in Hus. destruct Hus as [Hu Hus]. cbn [merge].
  destruct (prefixb n u).
  - apply IH; [|exact Hus]. rewrite !at_free_app, Hc, Hv. cbn. apply at_free_skipn. exact Hu.
  - destruct (IH u Hu Hus) as [Ha Hr]. destruct (merge n v u us) as [a r]. cbn [fst snd] in *. split; [exact Hc|].
    cbn [all_at_free forallb]. rewrite Ha. exact Hr.
Qed.

(* ================================================================================================== *)
(* Part 3: sequential replace = simultaneous substitution *)

(* some name strictly extends u *)
Definition strict_ext (names : list str) (u : str) : bool :=
  existsb (fun n => prefixb u n && Nat.ltb (length u) (length n)) names.

(* every chunk that is followed by another '@' has no strict extension among the names *)
Fixpoint chunks_ok (names : list str) (us : list str) : bool :=
  match us with
  | [] => true
  | u :: r => match r with [] => true | _ :: _ => negb (strict_ext names u) && chunks_ok names r end
  end.

Lemma chunks_ok_tail names u us : chunks_ok names (u :: us) = true -> chunks_ok names us = true.
Proof. cbn [chunks_ok]. destruct us; [reflexivity|]. intros H. apply andb_prop in H. apply H. Qed.

Lemma chunks_ok_head names u us : chunks_ok names (u :: us) = true -> us <> [] -> strict_ext names u = false.
Proof. cbn [chunks_ok]. destruct us; [congruence|]. intros H _. apply andb_prop in H. destruct H as [H _]. apply negb_true_iff in H. exact H. Qed.

Lemma strict_ext_app names u x : strict_ext names u = false -> strict_ext names (u ++ x) = false.
Proof.
  unfold strict_ext. intros H. destruct (existsb _ names) eqn:E in |- *; [|reflexivity]. exfalso.
  apply existsb_exists in E. destruct E as (n & Hn & E). apply andb_prop in E. destruct E as [E1 E2].
  apply Nat.ltb_lt in E2. rewrite app_length in E2.
  assert (existsb (fun n => prefixb u n && Nat.ltb (length u) (length n)) names = true) as C; [|congruence].
  apply existsb_exists. exists n. split; [exact Hn|]. apply andb_true_intro. split.
  - apply prefixb_spec in E1. destruct E1 as [r ->]. rewrite <- app_assoc. apply prefixb_app.
  - apply Nat.ltb_lt. lia.
Qed.

Lemma find_ref_app vars names u x : incl (names_of vars) names -> (x = [] \/ strict_ext names u = false) ->
  find_ref vars (u ++ x) = find_ref vars u.
Proof.
  intros Hi [->|Hs]; [rewrite app_nil_r; reflexivity|]. unfold find_ref.
  induction vars as [|nv vars IH]; [reflexivity|]. cbn [find].
  assert (prefixb (fst nv) (u ++ x) = prefixb (fst nv) u) as ->.
  { destruct (prefixb (fst nv) u) eqn:E; [apply prefixb_app_l; exact E|].
    destruct (prefixb (fst nv) (u ++ x)) eqn:E2; [|reflexivity]. exfalso.
    destruct (prefixb_app_cases _ _ _ E2) as [C|[C1 C2]]; [congruence|].
    unfold strict_ext in Hs. assert (existsb (fun n => prefixb u n && Nat.ltb (length u) (length n)) names = true) as C; [|congruence].
    apply existsb_exists. exists (fst nv). split; [apply Hi; left; reflexivity|]. rewrite C1. apply Nat.ltb_lt in C2. rewrite C2. reflexivity. }
  destruct (prefixb (fst nv) u); [reflexivity|]. apply IH. intros z Hz. apply Hi. right. exact Hz.
Qed.

Lemma csub_app vars names u x : incl (names_of vars) names -> (x = [] \/ strict_ext names u = false) ->
  csub vars (u ++ x) = csub vars u ++ x.
Proof.
  intros Hi Hx. unfold csub. rewrite (find_ref_app vars names u x Hi Hx).
  destruct (find_ref vars u) as [nv|] eqn:E; [|reflexivity].
  apply find_ref_some in E. destruct E as [_ Hp]. apply prefixb_length in Hp.
  rewrite skipn_app. replace (length (fst nv) - length u)%nat with 0%nat by lia. cbn [skipn]. rewrite app_assoc. reflexivity.
Qed.

(* merge preserves chunks_ok *)
Lemma merge_chunks_ok names n v : forall us cur, chunks_ok names us = true -> chunks_ok names (snd (merge n v cur us)) = true.
Proof.
  induction us as [|u us IH]; intros cur H; [reflexivity|]. cbn [merge].
  destruct (prefixb n u); [apply IH; apply (chunks_ok_tail _ _ _ H)|].
  pose proof (IH u (chunks_ok_tail _ _ _ H)) as Hr.
  pose proof (merge_head0 n v u us) as Hm.
  destruct (merge n v u us) as [a r] eqn:Em. cbn [fst snd] in *. cbn [chunks_ok].
  destruct r as [|r1 r]; [reflexivity|]. rewrite Hr. rewrite andb_true_r. apply negb_true_iff.
  injection Hm as Ha Hr'. rewrite Ha. apply strict_ext_app. apply (chunks_ok_head _ _ _ H).
  apply (merge_snd_nonempty n v us []). rewrite <- Hr'. discriminate.
Qed.

(* the key equation: one sequential step on chunks *)
Lemma merge_csub names n v vars : incl (names_of vars) names ->
  forall us cur, chunks_ok names us = true ->
  fst (merge n v cur us) ++ flat_map (csub vars) (snd (merge n v cur us)) = cur ++ flat_map (csub ((n, v) :: vars)) us.
Proof.
  intros Hi. induction us as [|u us IH]; intros cur H; [reflexivity|]. cbn [merge flat_map].
  destruct (prefixb n u) eqn:Ep.
  - rewrite (IH _ (chunks_ok_tail _ _ _ H)). unfold csub at 2. unfold find_ref. cbn [find fst]. rewrite Ep. cbn [snd fst].
    rewrite <- !app_assoc. reflexivity.
  - pose proof (IH u (chunks_ok_tail _ _ _ H)) as E.
    pose proof (merge_head0 n v u us) as Hm.
    destruct (merge n v u us) as [a r] eqn:Em. cbn [fst snd] in *. injection Hm as Ha Hr.
    cbn [flat_map].
    assert (csub ((n, v) :: vars) u = csub vars u) as ->. { unfold csub, find_ref. cbn [find fst]. rewrite Ep. reflexivity. }
    rewrite Ha. rewrite Ha in E. rewrite <- app_assoc in E. apply app_inv_head in E.
    rewrite (csub_app vars names u _ Hi).
    + rewrite <- !app_assoc. rewrite E. reflexivity.
    + destruct us as [|u1 us]; [left; reflexivity|right]. apply (chunks_ok_head _ _ _ H). discriminate.
Qed.

Lemma sod_replace_cons s n v vars : sod_replace s ((n, v) :: vars) = sod_replace (repl (at_name n) v s 0) vars.
Proof. reflexivity. Qed.

(* sequential replace on a chunked string *)
Theorem substitute_chunks names : forall vars u0 us,
  incl (names_of vars) names -> all_at_free (names_of vars) = true -> all_at_free (map snd vars) = true ->
  at_free u0 = true -> all_at_free us = true -> chunks_ok names us = true ->
  sod_replace (flat u0 us) vars = u0 ++ flat_map (csub vars) us.
Proof.
  induction vars as [|[n v] vars IH]; intros u0 us Hi Hn Hv H0 Hus Hok.
  - reflexivity.
  - cbn [names_of map all_at_free forallb fst snd] in Hn, Hv. apply andb_prop in Hn. destruct Hn as [Hn1 Hn2]. apply andb_prop in Hv. destruct Hv as [Hv1 Hv2].
    rewrite sod_replace_cons. rewrite repl_flat by assumption.
    destruct (merge_at_free n v Hv1 us u0 H0 Hus) as [Ha Hr].
    assert (incl (names_of vars) names) as Hi' by (intros z Hz; apply Hi; right; exact Hz).
    pose proof (IH _ _ Hi' Hn2 Hv2 Ha Hr (merge_chunks_ok names n v us u0 Hok)) as E. rewrite E.
    apply (merge_csub names n v vars Hi' us u0 Hok).
Qed.

(* cutting a string at its '@' characters *)
Fixpoint split_at (s : str) : str * list str :=
  match s with
  | [] => ([], [])
  | c :: s' => let '(u0, us) := split_at s' in if N.eqb c c_at then ([], u0 :: us) else (c :: u0, us)
  end.

Lemma split_at_flat s : s = flat (fst (split_at s)) (snd (split_at s))
  /\ at_free (fst (split_at s)) = true /\ all_at_free (snd (split_at s)) = true.
Proof.
  induction s as [|c s IH]; [repeat split|]. cbn [split_at]. destruct (split_at s) as [u0 us]. cbn [fst snd] in IH.
  destruct IH as (E & H0 & Hus). destruct (N.eqb c c_at) eqn:Ec; cbn [fst snd].
  - apply N.eqb_eq in Ec. subst c. repeat split.
    + unfold flat. cbn [app flat_map]. unfold at_chunk at 1. cbn [app]. f_equal. exact E.
    + cbn [all_at_free forallb]. rewrite H0. exact Hus.
  - repeat split.
    + unfold flat. cbn [app]. f_equal. exact E.
    + cbn [at_free forallb]. unfold not_at. rewrite Ec. exact H0.
    + exact Hus.
Qed.

(* THE SIDE CONDITION of C10_substitute (decidable):
   - no name and no value contains '@';
   - in the text, between two consecutive '@' there is never a strict prefix of a name (so that no value, put
     next to the text that precedes it, can complete a longer name). *)
Definition subst_safe (vars : list (str * str)) (s : str) : bool :=
  all_at_free (names_of vars) && all_at_free (map snd vars) && chunks_ok (names_of vars) (snd (split_at s)).

Theorem substitute vars s : subst_safe vars s = true -> sod_replace s vars = simul_subst vars s.
Proof.
  unfold subst_safe. intros H. apply andb_prop in H. destruct H as [H Hok]. apply andb_prop in H. destruct H as [Hn Hv].
  destruct (split_at_flat s) as (E & H0 & Hus). rewrite E at 1 2.
  rewrite (substitute_chunks (names_of vars) vars _ _ (incl_refl _) Hn Hv H0 Hus Hok).
  rewrite simul_flat by assumption. reflexivity.
Qed.

(* ================================================================================================== *)
(* Part 4: longest name first *)

Section Sort.
Context {A : Type} (len : A -> nat).

Lemma insert_desc_perm x l : Permutation (x :: l) (insert_desc len x l).
Proof.
  induction l as [|y l IH]; [apply Permutation_refl|]. cbn [insert_desc].
  destruct (Nat.ltb (len x) (len y)); [|apply Permutation_refl].
  apply perm_trans with (y :: x :: l); [apply perm_swap|]. apply perm_skip. exact IH.
Qed.

Lemma sort_desc_perm l : Permutation l (sort_desc len l).
Proof.
  induction l as [|x l IH]; [apply perm_nil|]. cbn [sort_desc].
  apply perm_trans with (x :: sort_desc len l); [apply perm_skip; exact IH|apply insert_desc_perm].
Qed.

Lemma sort_desc_In x l : In x (sort_desc len l) <-> In x l.
Proof.
  split; intros H.
  - apply (Permutation_in _ (Permutation_sym (sort_desc_perm l)) H).
  - apply (Permutation_in _ (sort_desc_perm l) H).
Qed.

(* every element is at least as long as all the elements after it *)
Definition desc_sorted (l : list A) : Prop := StronglySorted (fun a c => (len c <= len a)%nat) l.

Lemma insert_desc_sorted x l : desc_sorted l -> desc_sorted (insert_desc len x l).
Proof.
  unfold desc_sorted. induction l as [|y l IH]; intros H.
  - cbn. constructor; [constructor|constructor].
  - cbn [insert_desc]. inversion H as [|? ? Hs Hf]; subst. destruct (Nat.ltb (len x) (len y)) eqn:E.
    + apply Nat.ltb_lt in E. constructor; [apply IH; exact Hs|].
      rewrite Forall_forall in *. intros z Hz. apply (Permutation_in _ (Permutation_sym (insert_desc_perm x l))) in Hz.
      destruct Hz as [<-|Hz]; [lia|apply Hf; exact Hz].
    + apply Nat.ltb_ge in E. constructor; [exact H|]. constructor; [exact E|].
      rewrite Forall_forall in *. intros z Hz. specialize (Hf z Hz). lia.
Qed.

Lemma sort_desc_sorted l : desc_sorted (sort_desc len l).
Proof. induction l as [|x l IH]; [constructor|]. cbn [sort_desc]. apply insert_desc_sorted. exact IH. Qed.

(* stability: elements of equal length keep their order.  Stated on the insertion: x goes BEFORE the elements
   that are not longer than it, so the first of two equal-length elements of the input stays first *)
Lemma insert_desc_stable x l : exists l1 l2, insert_desc len x l = l1 ++ x :: l2 /\ l = l1 ++ l2
  /\ Forall (fun y => (len x < len y)%nat) l1.
Proof.
  induction l as [|y l IH].
  - exists [], []. repeat split. constructor.
  - cbn [insert_desc]. destruct (Nat.ltb (len x) (len y)) eqn:E.
    + apply Nat.ltb_lt in E. destruct IH as (l1 & l2 & E1 & E2 & F). exists (y :: l1), l2. cbn [app]. rewrite E1, E2. repeat split. constructor; assumption.
    + exists [], (y :: l). repeat split. constructor.
Qed.

(* in a length-descending list, [find] returns a longest element among those satisfying the predicate *)
Lemma find_desc_longest (P : A -> bool) l x : desc_sorted l -> find P l = Some x ->
  forall y, In y l -> P y = true -> (len y <= len x)%nat.
Proof.
  unfold desc_sorted. induction l as [|z l IH]; intros Hs Hf y Hy Py; [destruct Hy|].
  inversion Hs as [|? ? Hs' Hall]; subst. cbn [find] in Hf. destruct (P z) eqn:Pz.
  - injection Hf as <-. destruct Hy as [<-|Hy]; [lia|]. rewrite Forall_forall in Hall. apply Hall. exact Hy.
  - destruct Hy as [<-|Hy]; [congruence|]. apply (IH Hs' Hf y Hy Py).
Qed.
End Sort.

(* what the reference picks at an '@' followed by t, with the variables sorted as the crate sorts them: a variable
   whose name follows, and no variable with a LONGER name follows *)
Theorem longest_pick vars t nv : find_ref (sort_desc name_len vars) t = Some nv ->
  In nv vars /\ prefixb (fst nv) t = true
  /\ forall nv', In nv' vars -> prefixb (fst nv') t = true -> (length (fst nv') <= length (fst nv))%nat.
Proof.
  intros H. pose proof (find_ref_some _ _ _ H) as [Hin Hp]. apply sort_desc_In in Hin. repeat split; [exact Hin|exact Hp|].
  intros nv' Hin' Hp'. unfold find_ref in H.
  apply (find_desc_longest name_len (fun nv0 => prefixb (fst nv0) t) _ nv (sort_desc_sorted name_len vars) H nv'); [apply sort_desc_In; exact Hin'|exact Hp'].
Qed.

(* ... and something is picked as soon as some name follows *)
Theorem longest_pick_none vars t : find_ref (sort_desc name_len vars) t = None ->
  forall nv', In nv' vars -> prefixb (fst nv') t = false.
Proof.
  intros H nv' Hin. unfold find_ref in H. apply (find_none _ _ H nv'). apply sort_desc_In. exact Hin.
Qed.

(* a shorter name never clobbers a longer one: with variables a |-> va and ab |-> vab (ab = a ++ b, b non-empty, no
   other name follows), "@ab" is replaced by vab and never by va ++ b *)
Theorem longer_name_wins vars n m v w t :
  In (n, v) vars -> In (m, w) vars -> prefixb n m = true -> (length n < length m)%nat ->
  prefixb m t = true ->
  exists nv, find_ref (sort_desc name_len vars) t = Some nv /\ (length m <= length (fst nv))%nat /\ fst nv <> n.
Proof.
  intros Hn Hm Hp Hl Ht. destruct (find_ref (sort_desc name_len vars) t) as [nv|] eqn:E.
  - exists nv. destruct (longest_pick _ _ _ E) as (_ & _ & Hmax). specialize (Hmax (m, w) Hm Ht). cbn [fst] in Hmax.
    split; [reflexivity|]. split; [exact Hmax|]. intros E'. rewrite E' in Hmax. lia.
  - pose proof (longest_pick_none _ _ E (m, w) Hm) as C. cbn [fst] in C. congruence.
Qed.

Lemma subst_safe_perm vars vars' s : Permutation vars vars' -> subst_safe vars s = subst_safe vars' s.
Proof.
  intros P. unfold subst_safe.
  assert (forall (f : str * str -> str), all_at_free (map f vars) = all_at_free (map f vars')) as Hf.
  { intros f. unfold all_at_free. apply eq_true_iff_eq. rewrite !forallb_forall. split; intros H x Hx; apply H;
      [apply (Permutation_in _ (Permutation_map f (Permutation_sym P)))|apply (Permutation_in _ (Permutation_map f P))]; exact Hx. }
  unfold names_of. rewrite (Hf fst), (Hf snd). f_equal.
  assert (forall u, strict_ext (map fst vars) u = strict_ext (map fst vars') u) as Hs.
  { intros u. unfold strict_ext. apply eq_true_iff_eq. rewrite !existsb_exists. split; intros (x & Hx & E); exists x; (split; [|exact E]);
      [apply (Permutation_in _ (Permutation_map fst P))|apply (Permutation_in _ (Permutation_map fst (Permutation_sym P)))]; exact Hx. }
  generalize (snd (split_at s)). induction l as [|u l IH]; [reflexivity|]. cbn [chunks_ok]. destruct l; [reflexivity|]. rewrite Hs, IH. reflexivity.
Qed.

(* the code's order (stable sort by name length, longest first) makes the sequential replacement the
   longest-name substitution *)
Theorem substitute_longest vars s : subst_safe vars s = true ->
  sod_replace s (sort_desc name_len vars) = simul_longest vars s.
Proof.
  intros H. unfold simul_longest. apply substitute. rewrite <- H. symmetry. apply subst_safe_perm. apply sort_desc_perm.
Qed.

(* the order in which names of EQUAL length are processed (HashMap iteration order in Rule::variables when the rule
   has no variables) does not matter: any two permutations of a list with pairwise different names give the same
   result *)
Lemma simul_ext vars vars' : (forall t, find_ref vars t = find_ref vars' t) -> forall s k, simul vars s k = simul vars' s k.
Proof.
  intros H. induction s as [|c s IH]; intros k; [reflexivity|]. cbn [simul]. destruct k; [|apply IH].
  destruct (N.eqb c c_at); [|f_equal; apply IH]. rewrite H. destruct (find_ref vars' s); [f_equal; apply IH|f_equal; apply IH].
Qed.

Lemma NoDup_fst_eq (vars : list (str * str)) a c : NoDup (map fst vars) -> In a vars -> In c vars -> fst a = fst c -> a = c.
Proof.
  induction vars as [|x vars IH]; intros Hnd Ha Hc E; [destruct Ha|].
  cbn [map] in Hnd. inversion Hnd as [|? ? Hni Hnd']; subst.
  destruct Ha as [<-|Ha]; destruct Hc as [<-|Hc]; [reflexivity| | |apply IH; assumption].
  - exfalso. apply Hni. rewrite E. apply in_map. exact Hc.
  - exfalso. apply Hni. rewrite <- E. apply in_map. exact Ha.
Qed.

Theorem order_irrelevant vars vars' s : Permutation vars vars' -> NoDup (map fst vars) ->
  simul_longest vars s = simul_longest vars' s.
Proof.
  intros P Hnd. unfold simul_longest, simul_subst. apply simul_ext. intros t.
  destruct (find_ref (sort_desc name_len vars) t) as [a|] eqn:Ea; destruct (find_ref (sort_desc name_len vars') t) as [c|] eqn:Ec; [| | |reflexivity].
  - f_equal. destruct (longest_pick _ _ _ Ea) as (Ia & Pa & Ma). destruct (longest_pick _ _ _ Ec) as (Ic & Pc & Mc).
    apply (Permutation_in _ (Permutation_sym P)) in Ic.
    pose proof (Ma c Ic Pc) as L1. pose proof (Mc a (Permutation_in _ P Ia) Pa) as L2.
    apply (NoDup_fst_eq vars a c Hnd Ia Ic). apply prefixb_same_length; [|lia]. apply (prefixb_both _ _ t Pa Pc). lia.
  - destruct (longest_pick _ _ _ Ea) as (Ia & Pa & _). pose proof (longest_pick_none _ _ Ec a (Permutation_in _ P Ia)). congruence.
  - destruct (longest_pick _ _ _ Ec) as (Ic & Pc & _). pose proof (longest_pick_none _ _ Ea c (Permutation_in _ (Permutation_sym P) Ic)). congruence.
Qed.

Theorem replace_order_irrelevant vars vars' s : Permutation vars vars' -> NoDup (map fst vars) -> subst_safe vars s = true ->
  sod_replace s (sort_desc name_len vars) = sod_replace s (sort_desc name_len vars').
Proof.
  intros P Hnd H. rewrite (substitute_longest vars s H).
  rewrite (substitute_longest vars' s) by (rewrite <- (subst_safe_perm vars vars' s P); exact H).
  apply order_irrelevant; assumption.
Qed.

(* ================================================================================================== *)
(* Part 5: MarkerString::new, shape of the regex *)

Inductive piece := PLit (c : N) | PRef (name : str).
Definition piece_text (p : piece) : str := match p with PLit c => [c] | PRef n => at_name n end.
Definition template_text (ps : list piece) : str := flat_map piece_text ps.

(* identifier characters: what marker names are made of in the statement below *)
Definition is_ident_char (c : N) : bool := in_range 48 57 c || in_range 65 90 c || in_range 97 122 c || N.eqb c 95.
Definition is_ident (n : str) : bool := forallb is_ident_char n.

Lemma ident_not_meta c : is_ident_char c = true -> is_meta c = false.
Proof. unfold is_ident_char, in_range, is_meta, metas. cbn [existsb]. intros H. lia. Qed.
Lemma ident_not_at c : is_ident_char c = true -> not_at c = true.
Proof. unfold is_ident_char, in_range, not_at, c_at. intros H. lia. Qed.
Lemma BS_not_ident : is_ident_char BS = false. Proof. reflexivity. Qed.

Lemma ident_at_free n : is_ident n = true -> at_free n = true.
Proof. unfold is_ident, at_free. rewrite !forallb_forall. intros H x Hx. apply ident_not_at. apply H. exact Hx. Qed.

Lemma regex_escape_app a c : regex_escape (a ++ c) = regex_escape a ++ regex_escape c.
Proof. apply flat_map_app. Qed.
Lemma regex_escape_ident n : is_ident n = true -> regex_escape n = n.
Proof.
  induction n as [|c n IH]; intros H; [reflexivity|]. cbn [is_ident forallb] in H. apply andb_prop in H. destruct H as [Hc Hn].
  unfold regex_escape. cbn [flat_map]. rewrite (ident_not_meta c Hc). cbn [app]. f_equal. apply IH. exact Hn.
Qed.
Lemma regex_escape_lit c : regex_escape [c] = render1 (TLit c).
Proof. unfold regex_escape. cbn [flat_map render1]. rewrite app_nil_r. reflexivity. Qed.

Definition regex_of (markers : list (str * str)) (n : str) : str := match assoc n markers with Some e => e | None => [] end.
Definition expected_tok (markers : list (str * str)) (p : piece) : tok :=
  match p with PLit c => TLit c | PRef n => TGrp (lit "?:" ++ regex_of markers n) end.

Lemma grp_nc_render e : grp_nc e = render1 (TGrp (lit "?:" ++ e)).
Proof. reflexivity. Qed.

(* the template reads unambiguously: literals are not '@'; every reference names a marker and is followed by the
   end, by a literal that is not an identifier character, or by another reference provided no marker name strictly
   extends the referenced name *)
Fixpoint delimited (names : list str) (ps : list piece) : bool :=
  match ps with
  | [] => true
  | PLit c :: r => not_at c && delimited names r
  | PRef n :: r =>
      mem_str n names
      && match r with
         | [] => true
         | PLit c :: _ => negb (is_ident_char c)
         | PRef _ :: _ => negb (strict_ext names n)
         end
      && delimited names r
  end.

Fixpoint chunks_of (ps : list piece) : str * list str :=
  match ps with
  | [] => ([], [])
  | PLit c :: r => (render1 (TLit c) ++ fst (chunks_of r), snd (chunks_of r))
  | PRef n :: r => ([], (n ++ fst (chunks_of r)) :: snd (chunks_of r))
  end.

Definition all_ident (names : list str) : bool := forallb is_ident names.

Lemma all_ident_In names n : all_ident names = true -> In n names -> is_ident n = true.
Proof. unfold all_ident. rewrite forallb_forall. auto. Qed.

Lemma escape_chunks names ps : all_ident names = true -> delimited names ps = true ->
  regex_escape (template_text ps) = flat (fst (chunks_of ps)) (snd (chunks_of ps))
  /\ at_free (fst (chunks_of ps)) = true /\ all_at_free (snd (chunks_of ps)) = true.
Proof.
  intros Hid. induction ps as [|p ps IH]; intros Hd; [repeat split|]. destruct p as [c|n]; cbn [delimited] in Hd.
  - apply andb_prop in Hd. destruct Hd as [Hc Hd]. destruct (IH Hd) as (E & H0 & Hus). cbn [chunks_of fst snd]. repeat split.
    + cbn [template_text flat_map piece_text]. rewrite regex_escape_app, regex_escape_lit. fold (template_text ps). rewrite E. unfold flat. rewrite app_assoc. reflexivity.
    + rewrite at_free_app, H0, andb_true_r. cbn [render1]. destruct (is_meta c); cbn [at_free forallb]; rewrite Hc; reflexivity.
    + exact Hus.
  - apply andb_prop in Hd. destruct Hd as [Hd Hd2]. apply andb_prop in Hd. destruct Hd as [Hm _]. apply mem_str_In in Hm.
    pose proof (all_ident_In _ _ Hid Hm) as Hn. destruct (IH Hd2) as (E & H0 & Hus). cbn [chunks_of fst snd]. repeat split.
    + cbn [template_text flat_map piece_text]. rewrite regex_escape_app. fold (template_text ps). rewrite E.
      unfold at_name. change (c_at :: n) with ([c_at] ++ n). rewrite regex_escape_app, (regex_escape_ident n Hn).
      unfold flat. cbn [flat_map app]. unfold at_chunk at 2. cbn [regex_escape flat_map]. change (is_meta c_at) with false. cbn [app]. rewrite <- app_assoc. reflexivity.
    + unfold all_at_free in *. cbn [forallb]. rewrite at_free_app, (ident_at_free n Hn), H0, Hus. reflexivity.
Qed.

(* first character of the literal text that follows a reference *)
Definition starts_non_ident (u : str) : Prop := u = [] \/ exists c w, u = c :: w /\ is_ident_char c = false.

Lemma render1_lit_non_ident c w : is_ident_char c = false -> starts_non_ident (render1 (TLit c) ++ w).
Proof. intros H. right. cbn [render1]. destruct (is_meta c); [exists BS, (c :: w)|exists c, w]; split; try reflexivity; exact H. Qed.

Lemma delimited_follow names n ps : delimited names (PRef n :: ps) = true ->
  starts_non_ident (fst (chunks_of ps)) /\ (snd (chunks_of ps) <> [] -> fst (chunks_of ps) = [] -> strict_ext names n = false).
Proof.
  cbn [delimited]. intros H. apply andb_prop in H. destruct H as [H _]. apply andb_prop in H. destruct H as [_ H].
  destruct ps as [|[c|m] ps]; cbn [chunks_of fst snd].
  - split; [left; reflexivity|congruence].
  - apply negb_true_iff in H. split; [apply render1_lit_non_ident; exact H|]. intros _ E. exfalso. cbn [render1] in E. destruct (is_meta c); discriminate.
  - apply negb_true_iff in H. split; [left; reflexivity|intros _ _; exact H].
Qed.

(* an identifier cannot extend past a non-identifier character *)
Lemma ident_prefix_stop m n u : is_ident m = true -> starts_non_ident u -> prefixb m (n ++ u) = true -> prefixb m n = true.
Proof.
  intros Hm Hu Hp. destruct (prefixb_app_cases _ _ _ Hp) as [H|[H1 H2]]; [exact H|]. exfalso.
  destruct Hu as [->|(c & w & -> & Hc)].
  - rewrite app_nil_r in Hp. apply prefixb_length in Hp. lia.
  - apply prefixb_spec in H1. destruct H1 as [r Er]. subst m. apply prefixb_spec in Hp. destruct Hp as [r' Er'].
    rewrite <- app_assoc in Er'. apply app_inv_head in Er'. destruct r as [|x r]; [rewrite app_nil_r in H2; lia|].
    cbn [app] in Er'. injection Er' as <- _. unfold is_ident in Hm. rewrite forallb_app in Hm. apply andb_prop in Hm. destruct Hm as [_ Hm].
    cbn [forallb] in Hm. rewrite Hc in Hm. discriminate.
Qed.

Lemma strict_ext_non_ident names n c w : all_ident names = true -> is_ident_char c = false -> strict_ext names (n ++ c :: w) = false.
Proof.
  intros Hid Hc. unfold strict_ext. destruct (existsb _ names) eqn:E; [|reflexivity]. exfalso.
  apply existsb_exists in E. destruct E as (m & Hm & E). apply andb_prop in E. destruct E as [E _].
  apply prefixb_spec in E. destruct E as [r ->]. pose proof (all_ident_In _ _ Hid Hm) as Hi.
  unfold is_ident in Hi. rewrite <- app_assoc in Hi. rewrite forallb_app in Hi. apply andb_prop in Hi. destruct Hi as [_ Hi].
  cbn [app forallb] in Hi. rewrite Hc in Hi. discriminate.
Qed.

Lemma delimited_chunks_ok names ps : all_ident names = true -> delimited names ps = true -> chunks_ok names (snd (chunks_of ps)) = true.
Proof.
  intros Hid. induction ps as [|p ps IH]; intros Hd; [reflexivity|]. destruct p as [c|n].
  - cbn [delimited] in Hd. apply andb_prop in Hd. destruct Hd as [_ Hd]. cbn [chunks_of snd]. apply IH. exact Hd.
  - pose proof (delimited_follow _ _ _ Hd) as [Hs Hx]. cbn [delimited] in Hd. apply andb_prop in Hd. destruct Hd as [_ Hd].
    cbn [chunks_of snd chunks_ok]. specialize (IH Hd). destruct (snd (chunks_of ps)) as [|u1 us] eqn:Eus; [reflexivity|].
    rewrite IH, andb_true_r. apply negb_true_iff.
    destruct Hs as [E0|(c & w & E0 & Hc)]; rewrite E0.
    + rewrite app_nil_r. apply Hx; [discriminate|exact E0].
    + apply strict_ext_non_ident; assumption.
Qed.

Definition wrap_nc (mk : str * str) : str * str := (fst mk, grp_nc (snd mk)).

Lemma insert_desc_map {A B} (f : A -> B) lenA lenB x l : (forall a, lenB (f a) = lenA a) ->
  insert_desc lenB (f x) (map f l) = map f (insert_desc lenA x l).
Proof. intros H. induction l as [|y l IH]; [reflexivity|]. cbn [map insert_desc]. rewrite !H. destruct (Nat.ltb (lenA x) (lenA y)); [cbn [map]; f_equal; exact IH|reflexivity]. Qed.
Lemma sort_desc_map {A B} (f : A -> B) lenA lenB l : (forall a, lenB (f a) = lenA a) ->
  sort_desc lenB (map f l) = map f (sort_desc lenA l).
Proof. intros H. induction l as [|x l IH]; [reflexivity|]. cbn [map sort_desc]. rewrite IH. apply insert_desc_map. exact H. Qed.

Lemma assoc_In_NoDup (markers : list (str * str)) n e : NoDup (map fst markers) -> In (n, e) markers -> assoc n markers = Some e.
Proof.
  induction markers as [|[k v] markers IH]; intros Hnd Hin; [destruct Hin|]. cbn [map fst] in Hnd. inversion Hnd as [|? ? Hni Hnd']; subst.
  cbn [assoc]. destruct Hin as [E|Hin].
  - injection E as -> ->. rewrite str_eqb_refl. reflexivity.
  - destruct (str_eqb n k) eqn:Ek; [|apply IH; assumption]. apply str_eqb_spec in Ek. subst k. exfalso. apply Hni. change n with (fst (n, e)). apply in_map. exact Hin.
Qed.

(* the reference substitution on the chunk of a delimited reference *)
Lemma csub_ref markers n u : NoDup (map fst markers) -> all_ident (map fst markers) = true -> In n (map fst markers) ->
  starts_non_ident u ->
  csub (map wrap_nc (sort_desc name_len markers)) (n ++ u) = grp_nc (regex_of markers n) ++ u.
Proof.
  intros Hnd Hid Hin Hu.
  assert (map wrap_nc (sort_desc name_len markers) = sort_desc name_len (map wrap_nc markers)) as Es.
  { symmetry. apply sort_desc_map. intros a. reflexivity. }
  rewrite Es. apply in_map_iff in Hin. destruct Hin as ([n' e] & En & Hin). cbn [fst] in En. subst n'.
  assert (In (wrap_nc (n, e)) (map wrap_nc markers)) as Hin' by (apply in_map; exact Hin).
  unfold regex_of. rewrite (assoc_In_NoDup markers n e Hnd Hin).
  assert (map fst (map wrap_nc markers) = map fst markers) as Ef by (rewrite map_map; reflexivity).
  unfold csub. destruct (find_ref (sort_desc name_len (map wrap_nc markers)) (n ++ u)) as [nv|] eqn:E.
  - destruct (longest_pick _ _ _ E) as (Inv & Pnv & Mnv).
    specialize (Mnv (wrap_nc (n, e)) Hin' (prefixb_app n u)). cbn [wrap_nc fst] in Mnv.
    assert (is_ident (fst nv) = true) as Hi. { apply (all_ident_In _ _ Hid). rewrite <- Ef. apply in_map. exact Inv. }
    pose proof (ident_prefix_stop _ _ _ Hi Hu Pnv) as Pn. pose proof (prefixb_length _ _ Pn) as Ln.
    assert (fst nv = n) as En by (apply prefixb_same_length; [exact Pn|lia]).
    assert (nv = wrap_nc (n, e)) as ->. { apply (NoDup_fst_eq (map wrap_nc markers)); [rewrite Ef; exact Hnd|exact Inv|exact Hin'|exact En]. }
    cbn [wrap_nc fst snd]. rewrite skipn_app, skipn_all, Nat.sub_diag. reflexivity.
  - pose proof (longest_pick_none _ _ E _ Hin') as C. cbn [wrap_nc fst] in C. rewrite prefixb_app in C. discriminate.
Qed.

Lemma chunks_render markers ps : NoDup (map fst markers) -> all_ident (map fst markers) = true -> delimited (map fst markers) ps = true ->
  fst (chunks_of ps) ++ flat_map (csub (map wrap_nc (sort_desc name_len markers))) (snd (chunks_of ps))
  = render (map (expected_tok markers) ps).
Proof.
  intros Hnd Hid. induction ps as [|p ps IH]; intros Hd; [reflexivity|]. destruct p as [c|n].
  - cbn [delimited] in Hd. apply andb_prop in Hd. destruct Hd as [_ Hd]. cbn [chunks_of fst snd map expected_tok]. unfold render. cbn [flat_map].
    rewrite <- app_assoc. f_equal. apply IH. exact Hd.
  - pose proof (delimited_follow _ _ _ Hd) as [Hs _]. cbn [delimited] in Hd. apply andb_prop in Hd. destruct Hd as [Hd Hd2]. apply andb_prop in Hd. destruct Hd as [Hm _].
    apply mem_str_In in Hm. cbn [chunks_of fst snd map expected_tok flat_map app]. unfold render. cbn [flat_map].
    rewrite (csub_ref markers n _ Hnd Hid Hm Hs). rewrite <- app_assoc. rewrite grp_nc_render. f_equal. apply IH. exact Hd2.
Qed.

(* the regex component of the fold of MarkerString::new is a sequential replace *)
Lemma str_replace_at n v s : str_replace (at_name n) v s = repl (at_name n) v s 0.
Proof. reflexivity. Qed.

Lemma fold_ms_step_regex l : forall regex capture names,
  fst (fst (fold_left ms_step l (regex, capture, names))) = sod_replace regex (map wrap_nc l).
Proof.
  induction l as [|mk l IH]; intros regex capture names; [reflexivity|]. cbn [fold_left map]. unfold ms_step at 2.
  destruct (containsb (at_name (fst mk)) regex) eqn:E.
  - rewrite IH. destruct mk as [n e]. unfold wrap_nc at 2. cbn [fst snd]. rewrite sod_replace_cons. reflexivity.
  - rewrite IH. destruct mk as [n e]. unfold wrap_nc at 2. cbn [fst snd] in *. rewrite sod_replace_cons. rewrite (repl_not_contains _ _ _ E). reflexivity.
Qed.

Definition marker_bodies_at_free (markers : list (str * str)) : bool := all_at_free (map snd markers).

(* the side conditions of C10_template_shape, decidable *)
Definition template_ok (markers : list (str * str)) (ps : list piece) : bool :=
  all_ident (map fst markers) && marker_bodies_at_free markers && delimited (map fst markers) ps.

Theorem template_shape markers ps ic m : NoDup (map fst markers) -> template_ok markers ps = true ->
  marker_string_new (template_text ps) markers ic = Some m ->
  ms_regex m = render (map (expected_tok markers) ps).
Proof.
  intros Hnd Hok Hm. unfold template_ok in Hok. apply andb_prop in Hok. destruct Hok as [Hok Hd]. apply andb_prop in Hok. destruct Hok as [Hid Hb].
  unfold marker_string_new in Hm.
  pose proof (fold_ms_step_regex (sort_desc name_len markers) (regex_escape (template_text ps)) (regex_escape (template_text ps)) []) as Hf.
  destruct (fold_left ms_step (sort_desc name_len markers) (regex_escape (template_text ps), regex_escape (template_text ps), [])) as [[regex capture] names].
  cbn [fst] in Hf. destruct (is_nil names); [discriminate|]. injection Hm as <-. cbn [ms_regex]. rewrite Hf.
  destruct (escape_chunks _ ps Hid Hd) as (E & H0 & Hus). rewrite E.
  rewrite (substitute_chunks (map fst markers)).
  - apply chunks_render; assumption.
  - unfold names_of. rewrite map_map. cbn [wrap_nc fst]. intros z Hz. apply in_map_iff in Hz. destruct Hz as (mk & <- & Hz). apply in_map. apply sort_desc_In in Hz. exact Hz.
  - unfold names_of, all_at_free. rewrite map_map. cbn [wrap_nc fst]. rewrite forallb_forall. intros z Hz. apply in_map_iff in Hz. destruct Hz as (mk & <- & Hz).
    apply ident_at_free. apply (all_ident_In _ _ Hid). apply in_map. apply sort_desc_In in Hz. exact Hz.
  - unfold all_at_free. rewrite map_map. cbn [wrap_nc snd]. rewrite forallb_forall. intros z Hz. apply in_map_iff in Hz. destruct Hz as (mk & <- & Hz).
    apply sort_desc_In in Hz. unfold grp_nc. rewrite !at_free_app. unfold marker_bodies_at_free, all_at_free in Hb. rewrite forallb_forall in Hb.
    rewrite (Hb (snd mk)) by (apply in_map; exact Hz). reflexivity.
  - exact H0.
  - exact Hus.
  - apply delimited_chunks_ok; assumption.
Qed.


(* ---- MarkerString::new returns Some as soon as the template holds a reference *)
Lemma containsb_here p r : containsb p (p ++ r) = true.
Proof. destruct (p ++ r) eqn:E; cbn [containsb]; rewrite <- E, prefixb_app; reflexivity. Qed.
Lemma containsb_app_r p a : forall x, containsb p a = true -> containsb p (x ++ a) = true.
Proof. induction x as [|c x IH]; intros H; [exact H|]. cbn [app containsb]. rewrite (IH H). apply orb_true_r. Qed.
Lemma containsb_app_l p x : forall a, containsb p a = true -> containsb p (a ++ x) = true.
Proof.
  induction a as [|c a IH]; intros H.
  - cbn [containsb] in H. rewrite orb_false_r in H. destruct p; [destruct x; reflexivity|discriminate].
  - cbn [containsb] in H. apply orb_prop in H. cbn [app containsb]. destruct H as [H|H].
    + change (c :: a ++ x) with ((c :: a) ++ x). rewrite (prefixb_app_l _ _ x H). reflexivity.
    + rewrite (IH H). apply orb_true_r.
Qed.
Lemma containsb_flat_map p (f : str -> str) u us : In u us -> containsb p (f u) = true -> containsb p (flat_map f us) = true.
Proof.
  induction us as [|w us IH]; intros Hin H; [destruct Hin|]. cbn [flat_map]. destruct Hin as [->|Hin].
  - apply containsb_app_l. exact H.
  - apply containsb_app_r. apply IH; assumption.
Qed.

Lemma ref_chunk names n ps : delimited names ps = true -> In (PRef n) ps ->
  exists u, In (n ++ u) (snd (chunks_of ps)) /\ starts_non_ident u.
Proof.
  induction ps as [|p ps IH]; intros Hd Hin; [destruct Hin|]. destruct p as [c|m].
  - cbn [delimited] in Hd. apply andb_prop in Hd. destruct Hd as [_ Hd]. destruct Hin as [Hin|Hin]; [discriminate|].
    destruct (IH Hd Hin) as (u & Hu & Hs). exists u. cbn [chunks_of snd]. split; assumption.
  - pose proof (delimited_follow _ _ _ Hd) as [Hs _]. cbn [delimited] in Hd. apply andb_prop in Hd. destruct Hd as [_ Hd].
    destruct Hin as [Hin|Hin].
    + injection Hin as ->. exists (fst (chunks_of ps)). cbn [chunks_of snd]. split; [left; reflexivity|exact Hs].
    + destruct (IH Hd Hin) as (u & Hu & Hsu). exists u. cbn [chunks_of snd]. split; [right; exact Hu|exact Hsu].
Qed.

Lemma desc_sorted_before {A} (len : A -> nat) l1 x l2 : desc_sorted len (l1 ++ x :: l2) -> forall y, In y l1 -> (len x <= len y)%nat.
Proof.
  unfold desc_sorted. induction l1 as [|z l1 IH]; intros H y Hy; [destruct Hy|]. cbn [app] in H. inversion H as [|? ? Hs Hall]; subst.
  destruct Hy as [<-|Hy]; [|apply IH; assumption]. rewrite Forall_forall in Hall. apply Hall. apply in_or_app. right. left. reflexivity.
Qed.

Lemma fold_ms_step_names l : forall acc, is_nil (snd (fold_left ms_step l acc)) = false \/ snd (fold_left ms_step l acc) = snd acc.
Proof.
  induction l as [|mk l IH]; intros acc; [right; reflexivity|]. cbn [fold_left]. destruct (IH (ms_step acc mk)) as [H|H]; [left; exact H|].
  rewrite H. destruct acc as [[regex capture] names]. unfold ms_step. destruct (containsb (at_name (fst mk)) regex); [left; reflexivity|right; reflexivity].
Qed.
Lemma fold_ms_step_names_mono l : forall acc, is_nil (snd acc) = false -> is_nil (snd (fold_left ms_step l acc)) = false.
Proof.
  induction l as [|mk l IH]; intros acc H; [exact H|]. cbn [fold_left]. apply IH. destruct acc as [[regex capture] names]. unfold ms_step.
  destruct (containsb (at_name (fst mk)) regex); [reflexivity|exact H].
Qed.

Theorem template_shape_some markers ps ic n : NoDup (map fst markers) -> template_ok markers ps = true -> In (PRef n) ps ->
  exists m, marker_string_new (template_text ps) markers ic = Some m.
Proof.
  intros Hnd Hok Hin. unfold template_ok in Hok. apply andb_prop in Hok. destruct Hok as [Hok Hd]. apply andb_prop in Hok. destruct Hok as [Hid Hb].
  destruct (ref_chunk _ _ _ Hd Hin) as (u & Hu & Hsu).
  (* n is a marker: split the sorted list at its entry *)
  assert (In n (map fst markers)) as Hn.
  { clear - Hd Hin. induction ps as [|p ps IH]; [destruct Hin|]. destruct p as [c|m]; cbn [delimited] in Hd.
    - apply andb_prop in Hd. destruct Hin as [Hin|Hin]; [discriminate|apply IH; [apply Hd|exact Hin]].
    - apply andb_prop in Hd. destruct Hd as [Hd Hd2]. apply andb_prop in Hd. destruct Hd as [Hm _]. destruct Hin as [Hin|Hin]; [injection Hin as <-; apply mem_str_In; exact Hm|apply IH; assumption]. }
  apply in_map_iff in Hn. destruct Hn as ([n' e] & En & Hne). cbn [fst] in En. subst n'.
  assert (In (n, e) (sort_desc name_len markers)) as Hs by (apply sort_desc_In; exact Hne).
  destruct (in_split _ _ Hs) as (l1 & l2 & El).
  set (e0 := regex_escape (template_text ps)).
  assert (exists m, marker_string_new (template_text ps) markers ic = Some m) as Goal; [|exact Goal].
  unfold marker_string_new. fold e0. rewrite El. rewrite fold_left_app. cbn [fold_left].
  pose proof (fold_ms_step_regex l1 e0 e0 []) as Hr1.
  destruct (fold_left ms_step l1 (e0, e0, [])) as [[r1 c1] ns1]. cbn [fst] in Hr1.
  assert (containsb (at_name n) r1 = true) as Hc.
  { rewrite Hr1. destruct (escape_chunks _ ps Hid Hd) as (E & H0 & Hus). unfold e0. rewrite E.
    assert (forall mk, In mk l1 -> In mk markers) as Hl1. { intros mk Hmk. apply (sort_desc_In name_len). rewrite El. apply in_or_app. left. exact Hmk. }
    rewrite (substitute_chunks (map fst markers)).
    - apply containsb_app_r. apply (containsb_flat_map _ _ (n ++ u) _ Hu).
      unfold csub. destruct (find_ref (map wrap_nc l1) (n ++ u)) as [nv|] eqn:Ef.
      + exfalso. apply find_ref_some in Ef. destruct Ef as [Inv Pnv]. apply in_map_iff in Inv. destruct Inv as (mk & <- & Hmk). cbn [wrap_nc fst] in Pnv.
        assert (is_ident (fst mk) = true) as Hi by (apply (all_ident_In _ _ Hid); apply in_map; apply Hl1; exact Hmk).
        pose proof (ident_prefix_stop _ _ _ Hi Hsu Pnv) as Pn. pose proof (prefixb_length _ _ Pn) as Ln.
        pose proof (sort_desc_sorted name_len markers) as Hsorted. rewrite El in Hsorted.
        pose proof (desc_sorted_before name_len l1 (n, e) l2 Hsorted mk Hmk) as Lb. unfold name_len in Lb. cbn [fst] in Lb.
        assert (fst mk = n) as En by (apply prefixb_same_length; [exact Pn|lia]).
        assert (NoDup (map fst (sort_desc name_len markers))) as Hnd'. { apply (Permutation_NoDup (Permutation_map fst (sort_desc_perm name_len markers))). exact Hnd. }
        rewrite El, map_app in Hnd'. cbn [map fst] in Hnd'. apply NoDup_remove_2 in Hnd'. apply Hnd'. apply in_or_app. left. rewrite <- En. apply in_map. exact Hmk.
      + change (c_at :: n ++ u) with (at_name n ++ u). apply containsb_here.
    - unfold names_of. rewrite map_map. cbn [wrap_nc fst]. intros z Hz. apply in_map_iff in Hz. destruct Hz as (mk & <- & Hz). apply in_map. apply Hl1. exact Hz.
    - unfold names_of, all_at_free. rewrite map_map. cbn [wrap_nc fst]. rewrite forallb_forall. intros z Hz. apply in_map_iff in Hz. destruct Hz as (mk & <- & Hz).
      apply ident_at_free. apply (all_ident_In _ _ Hid). apply in_map. apply Hl1. exact Hz.
    - unfold all_at_free. rewrite map_map. cbn [wrap_nc snd]. rewrite forallb_forall. intros z Hz. apply in_map_iff in Hz. destruct Hz as (mk & <- & Hz).
      unfold grp_nc. rewrite !at_free_app. unfold marker_bodies_at_free, all_at_free in Hb. rewrite forallb_forall in Hb.
      rewrite (Hb (snd mk)) by (apply in_map; apply Hl1; exact Hz). reflexivity.
    - exact H0.
    - exact Hus.
    - apply delimited_chunks_ok; assumption. }
  unfold ms_step at 2. cbn [fst snd]. rewrite Hc.
  match goal with |- context [fold_left ms_step l2 ?acc] => pose proof (fold_ms_step_names_mono l2 acc eq_refl) as Hnn; destruct (fold_left ms_step l2 acc) as [[r2 c2] ns2] end.
  cbn [snd] in Hnn. rewrite Hnn. eexists. reflexivity.
Qed.

(* ================================================================================================== *)
(* Part 6: transformer chains, Slice *)

(* one step of the loop: a transformer the decoder rejects (unknown kind, missing option) leaves the value *)
Definition chain_step (O : oracle) (t : transformer) (value : str) : outcome str :=
  match to_transform t with None => Ok value | Some x => apply_transform O x value end.

Lemma apply_chain_cons O t ts v : apply_chain O (t :: ts) v = obind (chain_step O t v) (apply_chain O ts).
Proof. unfold chain_step. cbn [apply_chain]. destruct (to_transform t); reflexivity. Qed.

(* the chain is the left-to-right composition of its steps *)
Theorem chain_app O ts1 : forall ts2 v, apply_chain O (ts1 ++ ts2) v = obind (apply_chain O ts1 v) (apply_chain O ts2).
Proof.
  induction ts1 as [|t ts1 IH]; intros ts2 v; [reflexivity|]. cbn [app]. rewrite !apply_chain_cons.
  destruct (chain_step O t v) as [a|site|]; cbn [obind]; [apply IH|reflexivity|reflexivity].
Qed.

Theorem chain_fold O ts v :
  apply_chain O ts v = fold_left (fun acc t => obind acc (chain_step O t)) ts (Ok v).
Proof.
  assert (forall o, obind o (apply_chain O ts) = fold_left (fun acc t => obind acc (chain_step O t)) ts o) as H.
  { induction ts as [|t ts IH]; intros o; [destruct o; reflexivity|]. cbn [fold_left]. rewrite <- IH.
    destruct o as [a|site|]; cbn [obind]; [apply apply_chain_cons|reflexivity|reflexivity]. }
  apply (H (Ok v)).
Qed.

(* a panic stops the chain *)
Lemma chain_panic O ts1 ts2 v site : apply_chain O ts1 v = Panic site -> apply_chain O (ts1 ++ ts2) v = Panic site.
Proof. intros H. rewrite chain_app, H. reflexivity. Qed.

Lemma len_N_length s : len_N s = N.of_nat (length s).
Proof. induction s as [|c s IH]; [reflexivity|]. cbn [len_N length]. rewrite IH. lia. Qed.

(* Slice: the result *)
Theorem slice_result from to s r : slice_transform from to s = Ok r ->
  let len := len_N s in
  let to' := N.min (match to with Some t => t | None => len end) len in
  r = [] \/
  (from <= to' /\ r = firstn (N.to_nat (to' - from)) (skipn (N.to_nat from) s) /\ len_N r = to' - from).
Proof.
  unfold slice_transform. set (len := len_N s). set (t0 := match to with Some t => t | None => len end). intros H. cbn zeta.
  destruct (N.ltb len from) eqn:E1.
  - left. injection H as <-. reflexivity.
  - apply N.ltb_ge in E1.
    assert ((if N.ltb len t0 then len else t0) = N.min t0 len) as Et.
    { destruct (N.ltb len t0) eqn:E; [apply N.ltb_lt in E|apply N.ltb_ge in E]; lia. }
    rewrite Et in H. destruct (N.ltb (N.min t0 len) from) eqn:E2; [left; injection H as <-; reflexivity|]. apply N.ltb_ge in E2.
    destruct (is_char_boundary s from && is_char_boundary s (N.min t0 len)); [|left; injection H as <-; reflexivity]. injection H as <-.
    right. split; [exact E2|]. split; [reflexivity|]. rewrite len_N_length, firstn_length, skipn_length.
    unfold len in *. rewrite len_N_length in *. lia.
Qed.

(* Slice: out-of-range bounds.  from beyond the end gives the empty string; to beyond the end is the end *)
Theorem slice_from_beyond from to s : len_N s < from -> slice_transform from to s = Ok [].
Proof. intros H. unfold slice_transform. apply N.ltb_lt in H. rewrite H. reflexivity. Qed.

Theorem slice_to_clamped from t s : len_N s <= t -> slice_transform from (Some t) s = slice_transform from None s.
Proof.
  intros H. unfold slice_transform. destruct (N.ltb (len_N s) from); [reflexivity|].
  destruct (N.ltb (len_N s) t) eqn:E; [rewrite N.ltb_irrefl; reflexivity|].
  apply N.ltb_ge in E. assert (t = len_N s) as -> by lia. rewrite N.ltb_irrefl. reflexivity.
Qed.

(* Slice never panics (repaired crate): it always returns, and returns the empty string exactly in the cases where the
   indexing str[from..to] of the pinned code panicked: from within the string and either beyond the clamped end, or
   one of the two bounds inside a multi-byte character *)
Theorem slice_total from to s : exists r, slice_transform from to s = Ok r.
Proof.
  unfold slice_transform. destruct (N.ltb (len_N s) from); [eexists; reflexivity|].
  destruct (N.ltb _ from); [eexists; reflexivity|]. destruct (_ && _); eexists; reflexivity.
Qed.

Theorem slice_degenerate from to s :
  let len := len_N s in
  let to' := N.min (match to with Some t => t | None => len end) len in
  from <= len /\ (to' < from \/ is_char_boundary s from && is_char_boundary s to' = false) ->
  slice_transform from to s = Ok [].
Proof.
  cbn zeta. unfold slice_transform. set (len := len_N s). set (t0 := match to with Some t => t | None => len end).
  assert ((if N.ltb len t0 then len else t0) = N.min t0 len) as Et.
  { destruct (N.ltb len t0) eqn:E; [apply N.ltb_lt in E|apply N.ltb_ge in E]; lia. }
  rewrite Et. intros [H1 H2]. destruct (N.ltb len from) eqn:E1; [reflexivity|].
  destruct (N.ltb (N.min t0 len) from) eqn:E2; [reflexivity|]. apply N.ltb_ge in E2.
  destruct H2 as [H2|H2]; [lia|]. rewrite H2. reflexivity.
Qed.

(* on ASCII every index is a char boundary: Slice never panics for ordered bounds *)
Lemma nth_byte_ascii s : all_ascii s = true -> forall i x, nth_byte s i = Some x -> is_cont x = false.
Proof.
  induction s as [|c s IH]; intros H i x Hx; [discriminate|]. cbn [all_ascii forallb] in H. apply andb_prop in H. destruct H as [Hc Hs].
  cbn [nth_byte] in Hx. destruct (N.eqb i 0).
  - injection Hx as <-. unfold is_ascii in Hc. unfold is_cont, in_range. lia.
  - apply (IH Hs _ _ Hx).
Qed.
Lemma boundary_ascii s i : all_ascii s = true -> is_char_boundary s i = true.
Proof. intros H. unfold is_char_boundary. destruct (nth_byte s i) eqn:E; [|reflexivity]. rewrite (nth_byte_ascii s H i n E). reflexivity. Qed.

Theorem slice_ascii from to s : all_ascii s = true ->
  let len := len_N s in
  let to' := N.min (match to with Some t => t | None => len end) len in
  from <= to' -> slice_transform from to s = Ok (firstn (N.to_nat (to' - from)) (skipn (N.to_nat from) s)).
Proof.
  cbn zeta. intros Ha Hle. unfold slice_transform. set (len := len_N s) in *. set (t0 := match to with Some t => t | None => len end) in *.
  assert ((if N.ltb len t0 then len else t0) = N.min t0 len) as Et.
  { destruct (N.ltb len t0) eqn:E; [apply N.ltb_lt in E|apply N.ltb_ge in E]; lia. }
  rewrite Et. destruct (N.ltb len from) eqn:E1; [apply N.ltb_lt in E1; lia|].
  destruct (N.ltb (N.min t0 len) from) eqn:E2; [apply N.ltb_lt in E2; lia|].
  rewrite !boundary_ascii by exact Ha. reflexivity.
Qed.

(* Replace is str::replace, Lowercase / Uppercase are the ASCII maps on ASCII values, whatever the oracle *)
Lemma replace_transform O a c s : apply_transform O (XReplace a c) s = Ok (str_replace a c s).
Proof. reflexivity. Qed.
Lemma lowercase_ascii O s : all_ascii s = true -> apply_transform O XLowercase s = Ok (map ascii_lower s).
Proof. intros H. cbn [apply_transform]. rewrite H. reflexivity. Qed.
Lemma uppercase_ascii O s : all_ascii s = true -> apply_transform O XUppercase s = Ok (map ascii_upper s).
Proof. intros H. cbn [apply_transform]. rewrite H. reflexivity. Qed.

(* ================================================================================================== *)
(* Part 7: matching, with the engine as a parameter.
   The semantics of a rendered token list is RIO.RegexSem.mt / full_match for an ARBITRARY group oracle
   G ic body whole start len ("the group with this body accepts whole[start, start+len)", context-aware) and an
   arbitrary case folding: this is the interface under which C08 / C01 treat the regex crate. *)

Definition inst_piece (val : str -> str) (p : piece) : str := match p with PLit c => [c] | PRef n => val n end.
(* the request text built by instantiating every marker *)
Definition instantiate (val : str -> str) (ps : list piece) : str := flat_map (inst_piece val) ps.

Section Matching.
Variable G : bool -> list chr -> list chr -> nat -> nat -> bool.
Variable fold : chr -> chr.
Variable markers : list (str * str).

(* every instantiation is accepted by its marker's group, at the place where it stands *)
Fixpoint groups_accept (val : str -> str) (ic : bool) (whole : str) (ps : list piece) (pos : nat) : bool :=
  match ps with
  | [] => true
  | PLit _ :: r => groups_accept val ic whole r (S pos)
  | PRef n :: r =>
      G ic (lit "?:" ++ regex_of markers n) whole pos (length (val n))
      && groups_accept val ic whole r (pos + length (val n))
  end.

Lemma ceq_refl ic c : ceq fold ic c c = true.
Proof. unfold ceq. destruct ic; apply N.eqb_refl. Qed.

Lemma match_if_gen val ic whole ps : forall pos, groups_accept val ic whole ps pos = true ->
  mt G fold ic whole true (map (expected_tok markers) ps) pos (instantiate val ps) = true.
Proof.
  induction ps as [|p ps IH]; intros pos H; [reflexivity|]. destruct p as [c|n]; cbn [groups_accept] in H.
  - cbn [map expected_tok instantiate flat_map inst_piece app mt]. rewrite ceq_refl. cbn [andb]. apply IH. exact H.
  - apply andb_prop in H. destruct H as [H1 H2].
    cbn [map expected_tok instantiate flat_map inst_piece mt]. apply existsb_exists. exists (length (val n)). split.
    + apply in_seq. rewrite app_length. lia.
    + rewrite H1. cbn [andb]. rewrite skipn_app, skipn_all, Nat.sub_diag. cbn [skipn app]. apply IH. exact H2.
Qed.

(* match_if: no side condition on the template *)
Theorem match_if val ic ps : groups_accept val ic (instantiate val ps) ps 0 = true ->
  full_match G fold ic (map (expected_tok markers) ps) (instantiate val ps) = true.
Proof. apply match_if_gen. Qed.

(* ---- separators: a set of characters that no accepted value and no instantiation contains, and that follows
   every reference (or the template ends there) *)
Variable sepb : N -> bool.
Definition sep_free (s : str) : bool := forallb (fun c => negb (sepb c)) s.

Fixpoint sep_delimited (ps : list piece) : bool :=
  match ps with
  | [] => true
  | PLit _ :: r => sep_delimited r
  | PRef _ :: r => match r with [] => true | PLit c :: _ => sepb c | PRef _ :: _ => false end && sep_delimited r
  end.

Lemma sep_free_app a c : sep_free (a ++ c) = sep_free a && sep_free c.
Proof. apply forallb_app. Qed.

Lemma sep_split_unique a : forall a' c c' w w', sep_free a = true -> sep_free a' = true -> sepb c = true -> sepb c' = true ->
  a ++ c :: w = a' ++ c' :: w' -> a = a' /\ w = w'.
Proof.
  induction a as [|x a IH]; intros a' c c' w w' Ha Ha' Hc Hc' E.
  - destruct a' as [|y a']; [cbn in E; injection E as _ E; split; [reflexivity|exact E]|].
    cbn in E. injection E as E1 _. subst y. cbn [sep_free forallb] in Ha'. rewrite Hc in Ha'. discriminate.
  - destruct a' as [|y a'].
    + cbn in E. injection E as E1 _. subst x. cbn [sep_free forallb] in Ha. rewrite Hc' in Ha. discriminate.
    + cbn in E. injection E as E1 E2. subst y. cbn [sep_free forallb] in Ha, Ha'. apply andb_prop in Ha, Ha'.
      destruct (IH a' c c' w w' (proj2 Ha) (proj2 Ha') Hc Hc' E2) as [-> ->]. split; reflexivity.
Qed.

(* the parse is unique: two sep-free instantiations that give the same text agree on every marker of the template.
   With the hypothesis that the engine returns A valid parse (values accepted by their groups, hence sep-free, whose
   instantiation is the haystack), this is "captured values = instantiated values". *)
Theorem unique_parse val cap ps : sep_delimited ps = true ->
  (forall n, sep_free (val n) = true) -> (forall n, sep_free (cap n) = true) ->
  instantiate cap ps = instantiate val ps -> forall n, In (PRef n) ps -> cap n = val n.
Proof.
  intros Hd Hv Hc. induction ps as [|p ps IH]; intros E n Hin; [destruct Hin|]. destruct p as [c|m]; cbn [sep_delimited] in Hd.
  - cbn [instantiate flat_map inst_piece app] in E. injection E as E. destruct Hin as [Hin|Hin]; [discriminate|]. apply IH; assumption.
  - apply andb_prop in Hd. destruct Hd as [Hd1 Hd2]. cbn [instantiate flat_map inst_piece] in E. fold (instantiate cap ps) in E. fold (instantiate val ps) in E.
    assert (cap m = val m /\ instantiate cap ps = instantiate val ps) as [Em Er].
    { destruct ps as [|[c|m'] ps]; [| |discriminate].
      - cbn in E. rewrite !app_nil_r in E. split; [exact E|reflexivity].
      - cbn [instantiate flat_map inst_piece app] in E |- *.
        destruct (sep_split_unique _ _ _ _ _ _ (Hc m) (Hv m) Hd1 Hd1 E) as [E1 E2]. split; [exact E1|]. f_equal. exact E2. }
    destruct Hin as [Hin|Hin]; [injection Hin as <-; exact Em|]. apply IH; assumption.
Qed.

(* HYPOTHESES of match_only_if (premises of the theorem, named):
     G_sep_free    what a marker group accepts contains no separator;
     fold_sep      a character that equals a separator up to the case folding in force is a separator;
     val_sep_free  no instantiation contains a separator (accepted or not: "just outside the language") *)
Definition G_sep_free_hyp : Prop := forall ic body whole pos k, G ic body whole pos k = true -> sep_free (firstn k (skipn pos whole)) = true.
Definition fold_sep_hyp (ic : bool) : Prop := forall c x, sepb c = true -> ceq fold ic c x = true -> sepb x = true.

Lemma sep_free_firstn_over a c w k : sepb c = true -> (length a < k)%nat -> sep_free (firstn k (a ++ c :: w)) = false.
Proof.
  intros Hc Hk. rewrite firstn_app. replace (firstn k a) with a by (symmetry; apply firstn_all2; lia).
  destruct (k - length a)%nat as [|j] eqn:Ej; [lia|]. cbn [firstn]. rewrite sep_free_app. cbn [sep_free forallb]. rewrite Hc. cbn. apply andb_false_r.
Qed.

Lemma match_only_if_gen val ic : G_sep_free_hyp -> fold_sep_hyp ic -> (forall n, sep_free (val n) = true) ->
  forall ps pre whole, sep_delimited ps = true -> whole = pre ++ instantiate val ps ->
  mt G fold ic whole true (map (expected_tok markers) ps) (length pre) (instantiate val ps) = true ->
  groups_accept val ic whole ps (length pre) = true.
Proof.
  intros HG Hf Hv. induction ps as [|p ps IH]; intros pre whole Hd Hw Hm; [reflexivity|]. destruct p as [c|n]; cbn [sep_delimited] in Hd.
  - cbn [map expected_tok instantiate flat_map inst_piece app mt] in Hm. apply andb_prop in Hm. destruct Hm as [_ Hm].
    cbn [groups_accept]. specialize (IH (pre ++ [c]) whole Hd). rewrite app_length in IH. cbn [length] in IH. rewrite Nat.add_1_r in IH.
    apply IH; [|exact Hm]. rewrite Hw. cbn [instantiate flat_map inst_piece]. rewrite <- app_assoc. reflexivity.
  - apply andb_prop in Hd. destruct Hd as [Hd1 Hd2].
    cbn [map expected_tok instantiate flat_map inst_piece mt] in Hm. fold (instantiate val ps) in Hm.
    apply existsb_exists in Hm. destruct Hm as (k & Hk & Hm). apply andb_prop in Hm. destruct Hm as [Hg Hm]. apply in_seq in Hk.
    pose proof (HG _ _ _ _ _ Hg) as Hsf. unfold chr in *.
    assert (skipn (length pre) whole = val n ++ instantiate val ps) as Esk.
    { rewrite Hw. rewrite skipn_app, skipn_all, Nat.sub_diag. reflexivity. }
    assert (sep_free (firstn k (val n ++ instantiate val ps)) = true) as Hsf' by (rewrite <- Esk; exact Hsf). clear Hsf. rename Hsf' into Hsf.
    assert (k = length (val n)) as ->.
    { destruct ps as [|[c|m] ps]; [| |discriminate].
      - cbn [instantiate flat_map] in *. rewrite app_nil_r in *. cbn [map mt] in Hm. unfold chr in *.
        destruct (skipn k (val n)) eqn:Es; [|cbn in Hm; discriminate].
        assert (length (skipn k (val n)) = 0%nat) as L by (rewrite Es; reflexivity). rewrite skipn_length in L. lia.
      - cbn [instantiate flat_map inst_piece app] in *. fold (instantiate val ps) in *.
        destruct (Nat.lt_trichotomy k (length (val n))) as [Lt|[Eq|Gt]]; [exfalso|exact Eq|exfalso].
        + rewrite skipn_app in Hm. replace (k - length (val n))%nat with 0%nat in Hm by lia. cbn [skipn] in Hm. unfold chr in *.
          destruct (skipn k (val n)) as [|x r] eqn:Es.
          * assert (length (skipn k (val n)) = 0%nat) as L by (rewrite Es; reflexivity). rewrite skipn_length in L. lia.
          * cbn [map expected_tok mt app] in Hm. apply andb_prop in Hm. destruct Hm as [Hc _].
            pose proof (Hf _ _ Hd1 Hc) as Hx. pose proof (Hv n) as Hvn. rewrite <- (firstn_skipn k (val n)) in Hvn. rewrite Es in Hvn.
            rewrite sep_free_app in Hvn. apply andb_prop in Hvn. destruct Hvn as [_ Hvn]. cbn [sep_free forallb] in Hvn. rewrite Hx in Hvn. discriminate.
        + rewrite (sep_free_firstn_over _ _ _ _ Hd1 Gt) in Hsf. discriminate. }
    cbn [groups_accept]. rewrite Hg. cbn [andb]. specialize (IH (pre ++ val n) whole Hd2). rewrite app_length in IH. apply IH.
    + rewrite Hw. cbn [instantiate flat_map inst_piece]. rewrite <- app_assoc. reflexivity.
    + rewrite skipn_app, skipn_all, Nat.sub_diag in Hm. exact Hm.
Qed.

(* match_only_if (partial: under separators): if the instantiated text matches, every instantiation is accepted;
   equivalently a rejected instantiation makes the rule not match *)
Theorem match_only_if val ic ps : G_sep_free_hyp -> fold_sep_hyp ic -> (forall n, sep_free (val n) = true) -> sep_delimited ps = true ->
  full_match G fold ic (map (expected_tok markers) ps) (instantiate val ps) = true ->
  groups_accept val ic (instantiate val ps) ps 0 = true.
Proof. intros HG Hf Hv Hd Hm. apply (match_only_if_gen val ic HG Hf Hv ps [] _ Hd eq_refl Hm). Qed.

Corollary match_iff val ic ps : G_sep_free_hyp -> fold_sep_hyp ic -> (forall n, sep_free (val n) = true) -> sep_delimited ps = true ->
  full_match G fold ic (map (expected_tok markers) ps) (instantiate val ps) = groups_accept val ic (instantiate val ps) ps 0.
Proof.
  intros HG Hf Hv Hd. apply eq_true_iff_eq. split; [apply match_only_if; assumption|apply match_if].
Qed.
End Matching.

(* ---- the same at the level of the model's route matching, for an engine that implements the token semantics.
   HYPOTHESIS engine_tok_hyp: on an anchored rendered token list the engine answers like RegexSem.full_match
   (the regex crate is not modelled in the theorems; RIO.Rx is the executable stand-in of the runs). *)
Lemma utf8_decode_fuel_ascii : forall l f, all_ascii l = true -> (length l <= f)%nat -> utf8_decode_fuel f l = l.
Proof.
  induction l as [|x l IH]; intros f H Hf; [destruct f; reflexivity|]. cbn [all_ascii forallb] in H. apply andb_prop in H. destruct H as [Hx Hl].
  destruct f as [|f]; [cbn in Hf; lia|]. cbn [utf8_decode_fuel]. unfold is_ascii in Hx.
  assert (N.ltb x 192 = true) as -> by lia. f_equal. apply IH; [exact Hl|cbn in Hf; lia].
Qed.
Lemma utf8_decode_ascii l : all_ascii l = true -> utf8_decode l = l.
Proof. intros H. apply utf8_decode_fuel_ascii; [exact H|lia]. Qed.

Definition engine_tok_hyp (E : engine) G fold (ic : bool) : Prop :=
  forall toks s, eng_is_match E ic (leaf_regex (render toks)) s = full_match G fold ic toks s.

Theorem match_if_model E G fold markers val ic ps n :
  engine_tok_hyp E G fold ic ->
  NoDup (map fst markers) -> template_ok markers ps = true -> In (PRef n) ps ->
  all_ascii (render (map (expected_tok markers) ps)) = true -> all_ascii (instantiate val ps) = true ->
  groups_accept G markers val ic (instantiate val ps) ps 0 = true ->
  sod_matches E ic (new_with_markers (template_text ps) markers ic) (instantiate val ps) = true.
Proof.
  intros HE Hnd Hok Hin Ha1 Ha2 Hg. destruct (template_shape_some markers ps ic n Hnd Hok Hin) as [m Hm].
  pose proof (template_shape markers ps ic m Hnd Hok Hm) as Hr. unfold new_with_markers.
  destruct markers as [|mk markers]; [cbn in Hm; unfold marker_string_new in Hm; cbn in Hm; discriminate|]. cbn [is_nil]. rewrite Hm.
  cbn [sod_matches]. rewrite Hr. rewrite !utf8_decode_ascii by assumption. rewrite HE. apply match_if. exact Hg.
Qed.

Theorem match_iff_model E G fold markers sepb val ic ps n :
  engine_tok_hyp E G fold ic -> G_sep_free_hyp G sepb -> fold_sep_hyp fold sepb ic ->
  NoDup (map fst markers) -> template_ok markers ps = true -> In (PRef n) ps ->
  all_ascii (render (map (expected_tok markers) ps)) = true -> all_ascii (instantiate val ps) = true ->
  (forall k, sep_free sepb (val k) = true) -> sep_delimited sepb ps = true ->
  sod_matches E ic (new_with_markers (template_text ps) markers ic) (instantiate val ps)
  = groups_accept G markers val ic (instantiate val ps) ps 0.
Proof.
  intros HE HG Hf Hnd Hok Hin Ha1 Ha2 Hv Hd. destruct (template_shape_some markers ps ic n Hnd Hok Hin) as [m Hm].
  pose proof (template_shape markers ps ic m Hnd Hok Hm) as Hr. unfold new_with_markers.
  destruct markers as [|mk markers]; [cbn in Hm; unfold marker_string_new in Hm; cbn in Hm; discriminate|]. cbn [is_nil]. rewrite Hm.
  cbn [sod_matches]. rewrite Hr. rewrite !utf8_decode_ascii by assumption. rewrite HE. apply (match_iff G fold _ sepb); assumption.
Qed.

(* ================================================================================================== *)
(* Part 8: the one-pass StaticOrDynamic::replace of the repaired crate (df98c41).
   Unconditional: it IS the longest-name simultaneous substitution; it does not depend on the order of the variables;
   what it substitutes is never scanned again.  Under [subst_safe] it agrees with the pinned sequential algorithm:
   the repair changes nothing outside the classes of the witnesses. *)

(* how the running choice combines with the choice made on the rest of the list *)
Definition pick_combine (acc r : option (str * str)) : option (str * str) :=
  match acc, r with
  | None, _ => r
  | Some a, None => Some a
  | Some a, Some y => if Nat.ltb (length (fst a)) (length (fst y)) then Some y else Some a
  end.

Lemma pick_fold_acc t : forall l acc, fold_left (pick_step t) l acc = pick_combine acc (fold_left (pick_step t) l None).
Proof.
  induction l as [|z l IH]; intros acc; [destruct acc; reflexivity|]. cbn [fold_left]. rewrite (IH (pick_step t acc z)), (IH (pick_step t None z)).
  generalize (fold_left (pick_step t) l None). intros R.
  unfold pick_step. destruct (prefixb (fst z) t); cbn [andb].
  - destruct acc as [a|]; [|reflexivity]. destruct R as [y|]; cbn [pick_combine];
      repeat (match goal with |- context [Nat.ltb ?p ?q] => destruct (Nat.ltb p q) eqn:? end; cbn [pick_combine]);
      try reflexivity;
      repeat match goal with H : Nat.ltb _ _ = true |- _ => apply Nat.ltb_lt in H | H : Nat.ltb _ _ = false |- _ => apply Nat.ltb_ge in H end;
      exfalso; lia.
  - destruct acc as [a|]; [|reflexivity]. destruct R; reflexivity.
Qed.

(* find in the stable length-descending insertion *)
Lemma find_insert_desc {A} (len : A -> nat) (P : A -> bool) x : forall l, desc_sorted len l ->
  find P (insert_desc len x l) =
  if P x then match find P l with
              | Some y => if Nat.ltb (len x) (len y) then Some y else Some x
              | None => Some x
              end
  else find P l.
Proof.
  unfold desc_sorted. induction l as [|z l IH]; intros Hs.
  - cbn. destruct (P x); reflexivity.
  - inversion Hs as [|? ? Hs' Hall]; subst. cbn [insert_desc]. destruct (Nat.ltb (len x) (len z)) eqn:E.
    + cbn [find]. destruct (P z) eqn:Pz.
      * destruct (P x); [rewrite E|]; reflexivity.
      * apply IH. exact Hs'.
    + apply Nat.ltb_ge in E. cbn [find]. destruct (P x) eqn:Px; [|reflexivity].
      destruct (P z) eqn:Pz.
      * assert (Nat.ltb (len x) (len z) = false) as -> by (apply Nat.ltb_ge; exact E). reflexivity.
      * destruct (find P l) as [y|] eqn:Ef; [|reflexivity]. apply find_some in Ef. destruct Ef as [Hy _].
        rewrite Forall_forall in Hall. specialize (Hall y Hy).
        assert (Nat.ltb (len x) (len y) = false) as -> by (apply Nat.ltb_ge; lia). reflexivity.
Qed.

(* the loop of the repaired code picks what [find] picks in the list sorted as the crate sorts it: the longest name
   that follows, the first one of the list among equal names *)
Theorem pick_longest_sorted vars t : pick_longest vars t = find_ref (sort_desc name_len vars) t.
Proof.
  unfold pick_longest, find_ref. induction vars as [|x vars IH]; [reflexivity|].
  cbn [fold_left sort_desc]. rewrite pick_fold_acc, IH.
  rewrite (find_insert_desc name_len (fun nv => prefixb (fst nv) t) x _ (sort_desc_sorted name_len vars)).
  unfold pick_step. cbn [andb]. destruct (prefixb (fst x) t); cbn [andb pick_combine]; [|reflexivity].
  unfold name_len. destruct (find _ (sort_desc _ vars)); reflexivity.
Qed.

Lemma onepass_simul vars vars' : (forall t, pick_longest vars t = find_ref vars' t) -> forall s k, onepass vars s k = simul vars' s k.
Proof.
  intros H. induction s as [|c s IH]; intros k; [reflexivity|]. cbn [onepass simul]. destruct k; [|apply IH].
  destruct (N.eqb c c_at); [|f_equal; apply IH]. rewrite H. destruct (find_ref vars' s); f_equal; apply IH.
Qed.

(* UNCONDITIONAL: the repaired replace is the simultaneous longest-name substitution *)
Theorem onepass_is_simul_longest vars s : sod_replace_onepass s vars = simul_longest vars s.
Proof. unfold sod_replace_onepass, simul_longest, simul_subst. apply onepass_simul. intros t. apply pick_longest_sorted. Qed.

(* ... so the list may come in any order (different names), in particular sorted or not *)
Theorem onepass_order_irrelevant vars vars' s : Permutation vars vars' -> NoDup (map fst vars) ->
  sod_replace_onepass s vars = sod_replace_onepass s vars'.
Proof. intros P Hnd. rewrite !onepass_is_simul_longest. apply order_irrelevant; assumption. Qed.

Theorem onepass_sorted vars s : NoDup (map fst vars) -> sod_replace_onepass s (sort_desc name_len vars) = sod_replace_onepass s vars.
Proof. intros Hnd. symmetry. apply onepass_order_irrelevant; [apply sort_desc_perm|exact Hnd]. Qed.

(* ... and agrees with the pinned sequential algorithm (in the order the crate uses) under the side condition *)
Theorem onepass_agrees_sequential vars s : subst_safe vars s = true ->
  sod_replace s (sort_desc name_len vars) = sod_replace_onepass s vars.
Proof. intros H. rewrite onepass_is_simul_longest. apply substitute_longest. exact H. Qed.

(* no re-substitution: the input is a sequence of literal characters and references "@name" of variables; the
   output is the same sequence with each reference replaced by the value of THAT variable, which is the longest
   name following its '@' *)
Inductive out_piece := OLit (c : N) | OVal (nv : str * str).
Definition out_src (p : out_piece) : str := match p with OLit c => [c] | OVal nv => at_name (fst nv) end.
Definition out_dst (p : out_piece) : str := match p with OLit c => [c] | OVal nv => snd nv end.

Fixpoint onepass_pieces (variables : list (str * str)) (s : str) (skip : nat) : list out_piece :=
  match s with
  | [] => []
  | c :: s' =>
      match skip with
      | S k => onepass_pieces variables s' k
      | O =>
          if N.eqb c c_at then
            match pick_longest variables s' with
            | Some nv => OVal nv :: onepass_pieces variables s' (length (fst nv))
            | None => OLit c :: onepass_pieces variables s' 0
            end
          else OLit c :: onepass_pieces variables s' 0
      end
  end.

Lemma pick_longest_spec vars t nv : pick_longest vars t = Some nv ->
  In nv vars /\ prefixb (fst nv) t = true
  /\ forall nv', In nv' vars -> prefixb (fst nv') t = true -> (length (fst nv') <= length (fst nv))%nat.
Proof. rewrite pick_longest_sorted. apply longest_pick. Qed.

Lemma onepass_pieces_gen vars : forall s k, (k <= length s)%nat ->
  flat_map out_src (onepass_pieces vars s k) = skipn k s
  /\ flat_map out_dst (onepass_pieces vars s k) = onepass vars s k.
Proof.
  induction s as [|c s IH]; intros k Hk.
  - cbn in Hk. assert (k = 0%nat) as -> by lia. split; reflexivity.
  - cbn [onepass_pieces onepass]. destruct k as [|k].
    + cbn [skipn]. destruct (N.eqb c c_at) eqn:Ec.
      * apply N.eqb_eq in Ec. subst c. destruct (pick_longest vars s) as [nv|] eqn:Ep.
        -- destruct (pick_longest_spec _ _ _ Ep) as (_ & Hp & _). pose proof (prefixb_length _ _ Hp) as Hl.
           destruct (IH (length (fst nv)) Hl) as [E1 E2]. cbn [flat_map out_src out_dst]. rewrite E1, E2. split; [|reflexivity].
           unfold at_name. cbn [app]. f_equal. symmetry. apply prefixb_skipn. exact Hp.
        -- destruct (IH 0%nat (Nat.le_0_l _)) as [E1 E2]. cbn [flat_map out_src out_dst app]. rewrite E1, E2. split; reflexivity.
      * destruct (IH 0%nat (Nat.le_0_l _)) as [E1 E2]. cbn [flat_map out_src out_dst app]. rewrite E1, E2. split; reflexivity.
    + cbn [skipn]. apply IH. cbn in Hk. lia.
Qed.

Lemma onepass_pieces_vals vars : forall s k nv, In (OVal nv) (onepass_pieces vars s k) -> In nv vars.
Proof.
  induction s as [|c s IH]; intros k nv H; [destruct H|]. cbn [onepass_pieces] in H. destruct k as [|k]; [|apply (IH _ _ H)].
  destruct (N.eqb c c_at).
  - destruct (pick_longest vars s) as [nv0|] eqn:Ep.
    + destruct H as [H|H]; [injection H as <-; apply (pick_longest_spec _ _ _ Ep)|apply (IH _ _ H)].
    + destruct H as [H|H]; [discriminate|apply (IH _ _ H)].
  - destruct H as [H|H]; [discriminate|apply (IH _ _ H)].
Qed.

Theorem onepass_no_rescan vars s : exists pieces : list out_piece,
  s = flat_map out_src pieces /\ sod_replace_onepass s vars = flat_map out_dst pieces
  /\ forall nv, In (OVal nv) pieces -> In nv vars.
Proof.
  exists (onepass_pieces vars s 0). destruct (onepass_pieces_gen vars s 0 (Nat.le_0_l _)) as [E1 E2]. split; [symmetry; exact E1|].
  split; [symmetry; exact E2|]. intros nv. apply onepass_pieces_vals.
Qed.
