(* OrderTie.v — the processing order of rules as a list of sort keys, so that the keys the translator lifts from
   `impl Ord for Rule` (src/api/rule.rs; RIOGen.ExtRuleOrder) can be compared with the order the action model uses
   (RIO.ActionModel.rule_before).  A key is (field, descending); fields: "rank" (numeric) and "id" (byte-wise). *)
Require Import RIO.Base RIO.Headers RIO.BodyText RIO.ActionModel.

Definition s_rank : str := [114;97;110;107]%N.
Definition s_id : str := [105;100]%N.

Definition str_compare (x y : str) : comparison := if str_ltb x y then Lt else if str_ltb y x then Gt else Eq.

Definition cmp_key (k : str) (a b : rule) : comparison :=
  if str_eqb k s_rank then N.compare (r_rank a) (r_rank b)
  else if str_eqb k s_id then str_compare (r_id a) (r_id b)
  else Eq.

(* Ord::cmp(a, b) built from the keys: a descending key compares other with self *)
Fixpoint cmp_keys (keys : list (str * bool)) (a b : rule) : comparison :=
  match keys with
  | [] => Eq
  | (k, desc) :: ks => match (if desc then cmp_key k b a else cmp_key k a b) with Eq => cmp_keys ks a b | c => c end
  end.

(* a is not after b *)
Definition before_by (keys : list (str * bool)) (a b : rule) : bool :=
  match cmp_keys keys a b with Gt => false | _ => true end.

Lemma str_ltb_asym x : forall y, str_ltb x y = true -> str_ltb y x = false.
Proof.
  induction x as [|a x IH]; intros [|b y] H; cbn [str_ltb] in *; try discriminate; try reflexivity.
  destruct (N.ltb a b) eqn:E1.
  - apply N.ltb_lt in E1. assert (E2 : N.ltb b a = false) by (apply N.ltb_ge; apply N.lt_le_incl; exact E1). rewrite E2. reflexivity.
  - destruct (N.ltb b a) eqn:E2; [discriminate|]. apply IH. exact H.
Qed.

(* the order of the action model is "rank descending, then id descending" *)
Lemma rule_before_is_rank_desc_id_desc a b : before_by [(s_rank, true); (s_id, true)] a b = rule_before a b.
Proof.
  unfold before_by, rule_before. cbn [cmp_keys]. unfold cmp_key.
  change (str_eqb s_rank s_rank) with true. change (str_eqb s_id s_rank) with false. change (str_eqb s_id s_id) with true.
  cbv iota. unfold str_compare.
  destruct (N.compare_spec (r_rank b) (r_rank a)) as [E|L|G].
  - rewrite E, N.ltb_irrefl. destruct (str_ltb (r_id b) (r_id a)) eqn:E1; destruct (str_ltb (r_id a) (r_id b)) eqn:E2; try reflexivity.
    (* both strictly smaller is impossible *)
    rewrite (str_ltb_asym _ _ E1) in E2. discriminate.
  - apply N.ltb_lt in L. rewrite L. reflexivity.
  - assert (H1 : N.ltb (r_rank b) (r_rank a) = false) by (apply N.ltb_ge; apply N.lt_le_incl; exact G).
    apply N.ltb_lt in G. rewrite H1, G. reflexivity.
Qed.
