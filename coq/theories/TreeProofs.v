(* TreeProofs.v — the regex tree against an abstract prefix structure:
   invariant P (every node's prefix is a token-prefix of every pattern below it),
   find = linear scan, insert/remove/retain preserve P and act on [entries] as on a flat list,
   cache is transparent. *)
Require Import RIO.Base RIO.Tree.

Section TreeProofs.
Variable V : Type.
Variable cp : pat -> pat -> nat.
Variable take : pat -> nat -> pat.
Variable clen : pat -> nat.
Variable eng : bool -> pat -> list N -> bool.
Variable valid : bool -> pat -> bool.

(* ---- abstract prefix structure (instantiated in RIO.TreeInst from RIO.Prefix / RIO.RegexSem) ---- *)
Variable shape : pat -> Prop.                (* renders a well-formed token list *)
Variable tpre : pat -> pat -> Prop.          (* token-prefix *)
Hypothesis tpre_trans : forall a b c, tpre a b -> tpre b c -> tpre a c.
Hypothesis cut_l : forall p q, shape p -> shape q -> tpre (take p (cp q p)) p.
Hypothesis cut_r : forall p q, shape p -> shape q -> tpre (take p (cp q p)) q.
Hypothesis cut_l' : forall p q, shape p -> shape q -> tpre (take p (cp p q)) p.
Hypothesis cut_r' : forall p q, shape p -> shape q -> tpre (take p (cp p q)) q.
Hypothesis tpre_shape_l : forall p q, tpre p q -> shape p.
Hypothesis cp_pre : forall p q, shape p -> shape q -> clen p <= cp q p -> tpre p q.

(* what the engine answers for a leaf (^re$) and for a node (^re, or everything for the empty prefix) *)
Definition ML (ic : bool) (q : pat) (s : list N) : bool := eng ic (leaf_regex q) s.
Definition MN (ic : bool) (p : pat) (s : list N) : bool := if is_nil p then true else eng ic (c_caret :: p) s.

(* assumed laws of the regex engine (regex crate) *)
Hypothesis eng_dotstar : forall ic s, eng ic [c_dot; c_star] s = true.
Hypothesis prefix_law : forall ic p q s, tpre p q -> ML ic q s = true -> MN ic p s = true.

Notation item := (item V).
Notation find := (find V eng).
Notation insert := (insert V cp take clen).
Notation best := (best V cp).
Notation mleaf := (mleaf eng).
Notation mnode := (mnode eng).

Lemma mleaf_ML ic re c s : re <> [] -> mleaf ic re c s = ML ic re s.
Proof. intros H. unfold Tree.mleaf, lazy_is_match, ML. destruct c; [reflexivity|]. destruct re; [contradiction|reflexivity]. Qed.

Lemma mnode_MN ic re c s : mnode ic re c s = MN ic re s.
Proof.
  unfold Tree.mnode, lazy_is_match, MN, node_regex. destruct re as [|x re]; simpl.
  - destruct c; [apply eng_dotstar|reflexivity].
  - destruct c; reflexivity.
Qed.

(* strong induction principle for the nested type *)
Section Ind.
  Variable P : item -> Prop.
  Hypothesis HE : forall ic, P (Empty ic).
  Hypothesis HN : forall re ic c cs, Forall P cs -> P (Node re ic c cs).
  Hypothesis HL : forall re ic c vs, P (Leaf re ic c vs).
  Fixpoint item_ind' (it : item) : P it :=
    match it with
    | Empty ic => HE ic
    | Leaf re ic c vs => HL re ic c vs
    | Node re ic c cs => HN re ic c cs ((fix go (l : list item) : Forall P l :=
         match l with [] => Forall_nil _ | x :: l' => Forall_cons _ (item_ind' x) (go l') end) cs)
    end.
End Ind.

Fixpoint pats (it : item) : list pat :=
  match it with Empty _ => [] | Leaf re _ _ _ => [re] | Node _ _ _ cs => flat_map pats cs end.

(* invariant P *)
Fixpoint inv (tic : bool) (it : item) : Prop :=
  match it with
  | Empty ic => ic = tic
  | Leaf re ic _ vs => ic = tic /\ shape re /\ re <> []
  | Node re ic _ cs => ic = tic /\ shape re /\ (forall q, In q (flat_map pats cs) -> tpre re q)
                       /\ (fix all (l : list item) : Prop := match l with [] => True | x :: l' => inv tic x /\ all l' end) cs
  end.
Lemma inv_all tic cs : (fix all (l : list item) : Prop := match l with [] => True | x :: l' => inv tic x /\ all l' end) cs <-> Forall (inv tic) cs.
Proof. induction cs; simpl; split; intros H; auto. destruct H; constructor; tauto. inversion H; subst; tauto. Qed.

Lemma entries_pats it e : In e (entries V it) -> In (fst e) (pats it).
Proof.
  revert e. induction it as [ic1|re1 ic1 cf1 cs1 H|re1 ic1 cf1 vs1] using item_ind'; simpl; intros e He; try tauto.
  - apply in_flat_map in He. destruct He as (x & Hx & He). apply in_flat_map. exists x. split; auto.
    rewrite Forall_forall in H. eauto.
  - apply in_map_iff in He. destruct He as (y & <- & _). simpl. auto.
Qed.

(* every stored pattern is non-empty and well-shaped *)
Lemma pats_ok tic it : inv tic it -> Forall (fun q => shape q /\ q <> []) (pats it).
Proof.
  induction it as [ic0|re ic0 cflag cs H|re ic0 cflag vs] using item_ind'; simpl; intros Hi.
  - constructor.
  - destruct Hi as (_ & _ & _ & Hall). apply inv_all in Hall. apply Forall_forall. intros q Hq.
    apply in_flat_map in Hq. destruct Hq as (c & Hc & Hq). rewrite Forall_forall in H, Hall.
    specialize (H c Hc (Hall c Hc)). rewrite Forall_forall in H. auto.
  - destruct Hi as (_ & Hs & Hn); auto.
Qed.

(* ================= find = linear scan over the stored entries ================= *)
Theorem find_spec tic it s : inv tic it ->
  find it s = map (fun e => snd (snd e)) (filter (fun e => ML tic (fst e) s) (entries V it)).
Proof.
  induction it as [ic0|re ic0 cflag cs H|re ic0 cflag vs] using item_ind'; simpl; intros Hi.
  - reflexivity.
  - destruct Hi as (-> & Hsh & Hpre & Hall). apply inv_all in Hall. rewrite mnode_MN.
    assert (Hrec : flat_map (fun c => find c s) cs =
             map (fun e => snd (snd e)) (filter (fun e => ML tic (fst e) s) (flat_map (entries V) cs))).
    { clear Hpre. induction cs as [|x cs IH]; simpl; [reflexivity|].
      inversion H; subst. inversion Hall; subst. rewrite filter_app, map_app. f_equal; auto. }
    destruct (MN tic re s) eqn:Em; [exact Hrec|].
    (* node does not match: no leaf below matches *)
    symmetry.
    assert (Hf : forall e, In e (flat_map (entries V) cs) -> ML tic (fst e) s = false).
    { intros e He. destruct (ML tic (fst e) s) eqn:El; [|reflexivity]. exfalso.
      apply in_flat_map in He. destruct He as (c & Hc & He).
      assert (tpre re (fst e)) as Ht. { apply Hpre. apply in_flat_map. exists c. split; [exact Hc|apply entries_pats; exact He]. }
      rewrite (prefix_law _ _ _ _ Ht El) in Em. discriminate. }
    clear - Hf. induction (flat_map (entries V) cs) as [|e l IH]; simpl; [reflexivity|].
    rewrite Hf by (left; reflexivity). apply IH. intros; apply Hf; right; auto.
  - destruct Hi as (-> & Hsh & Hne). rewrite mleaf_ML by exact Hne. destruct (ML tic re s) eqn:E.
    + induction vs; simpl; [reflexivity|]. rewrite E. simpl. f_equal. exact IHvs.
    + induction vs; simpl; [reflexivity|]. rewrite E. exact IHvs.
Qed.

(* ================= insert ================= *)
Lemma go_spec ins (l : list item) j : j < length l ->
  exists a x b, l = a ++ x :: b /\ length a = j /\ go_insert V ins l j = (a ++ b, Some (ins x)).
Proof. revert j. induction l as [|y l IH]; simpl; intros j Hj; [lia|].
  destruct j; simpl.
  - exists [], y, l. auto.
  - destruct (IH j ltac:(lia)) as (a & x & b & -> & Hl & Hg). rewrite Hg.
    exists (y :: a), x, b. simpl. auto. Qed.
Lemma go_none ins (l : list item) j : length l <= j -> go_insert V ins l j = (l, None).
Proof. revert j. induction l as [|y l IH]; simpl; intros j Hj; [reflexivity|]. destruct j; [lia|]. simpl. rewrite IH by lia. reflexivity. Qed.

Lemma best_range re cs : forall i maxp cur r, best re cs i maxp cur = Some r -> cur = Some r \/ (i <= r < i + length cs).
Proof. induction cs as [|c cs IH]; simpl; intros i maxp cur r H; [left; exact H|].
  destruct (is_leaf_with V c re).
  - inversion H; subst. right; lia.
  - destruct (Nat.ltb maxp (cp re (regex_of V c))).
    + apply IH in H. destruct H as [H|H]; [inversion H; subst; right; lia|right; lia].
    + apply IH in H. destruct H as [H|H]; [left; exact H|right; lia]. Qed.

Lemma insert_unfold_node nre ic c cs re k v :
  insert (Node nre ic c cs) re k v =
    (let ps := cp re nre in
      if Nat.ltb ps (clen nre) then Node (take nre ps) ic false [leaf_new V re k v ic; Node nre ic c cs]
      else match best re cs 0 (clen nre) None with
           | None => Node nre ic c (cs ++ [leaf_new V re k v ic])
           | Some i => match go_insert V (fun x => insert x re k v) cs i with
                       | (rest, Some u) => Node nre ic c (rest ++ [u])
                       | (rest, None) => Node nre ic c (cs ++ [leaf_new V re k v ic])
                       end
           end).
Proof. reflexivity. Qed.

Lemma insert_pats it : forall re k v q, In q (pats (insert it re k v)) -> In q (pats it) \/ q = re.
Proof. induction it as [ic0|nre ic0 cflag cs IH|lre ic0 cflag vs] using item_ind'; intros re k v q Hq.
  - simpl in Hq. destruct Hq as [<-|[]]. right; reflexivity.
  - rewrite insert_unfold_node in Hq. cbv zeta in Hq.
    destruct (Nat.ltb (cp re nre) (clen nre)).
    + simpl in Hq. destruct Hq as [<-|Hq]; [right; reflexivity|]. rewrite app_nil_r in Hq. left. exact Hq.
    + destruct (best re cs 0 (clen nre) None) as [i|] eqn:Eb.
      * destruct (Nat.lt_ge_cases i (length cs)) as [Hi|Hi].
        -- destruct (go_spec (fun x => insert x re k v) cs i Hi) as (a & x & b & -> & Hl & Hg). rewrite Hg in Hq.
           simpl in Hq. rewrite !flat_map_app in Hq. simpl in Hq. rewrite app_nil_r in Hq.
           simpl. rewrite flat_map_app. simpl.
           rewrite !in_app_iff in Hq. rewrite !in_app_iff.
           rewrite Forall_forall in IH.
           destruct Hq as [[Hq|Hq]|Hq]; auto.
           destruct (IH x ltac:(apply in_or_app; right; left; reflexivity) re k v q Hq); auto.
        -- rewrite go_none in Hq by exact Hi. simpl in Hq. rewrite flat_map_app in Hq. simpl in Hq.
           apply in_app_iff in Hq. destruct Hq as [Hq|[<-|[]]]; auto.
      * simpl in Hq. rewrite flat_map_app in Hq. simpl in Hq. apply in_app_iff in Hq. destruct Hq as [Hq|[<-|[]]]; auto.
  - simpl in Hq. destruct (pat_eqb re lre) eqn:E.
    + simpl in Hq. left. exact Hq.
    + simpl in Hq. destruct Hq as [<-|[<-|[]]]; [left; simpl; auto|right; reflexivity].
Qed.

Lemma insert_inv tic it : forall re k v, shape re -> re <> [] -> inv tic it -> inv tic (insert it re k v).
Proof. induction it as [ic0|nre ic0 cflag cs IH|lre ic0 cflag vs] using item_ind'; intros re k v Hsh Hne Hi.
  - simpl in *. subst. auto.
  - rewrite insert_unfold_node. cbv zeta.
    assert (Hi' := Hi). simpl in Hi'. destruct Hi' as (-> & Hns & Hpre & Hall). apply inv_all in Hall.
    destruct (Nat.ltb (cp re nre) (clen nre)) eqn:El.
    + (* split above this node *)
      simpl. split; [reflexivity|]. split; [eapply tpre_shape_l; apply (cut_l nre re); assumption|]. split.
      * intros q [<-|Hq]; [apply cut_r; assumption|].
        rewrite app_nil_r in Hq. apply tpre_trans with nre; [apply cut_l; assumption|apply Hpre; exact Hq].
      * split; [auto|]. split; [exact Hi|exact I].
    + apply Nat.ltb_ge in El. assert (tpre nre re) as Hnre by (apply cp_pre; assumption).
      assert (Hnew : inv tic (Node nre tic cflag (cs ++ [leaf_new V re k v tic]))).
      { simpl. split; [reflexivity|]. split; [exact Hns|]. split.
        - intros q Hq. rewrite flat_map_app in Hq. apply in_app_iff in Hq. destruct Hq as [Hq|[<-|[]]]; auto.
        - apply inv_all. apply Forall_app. split; [exact Hall|]. constructor; [|constructor]. simpl. auto. }
      destruct (best re cs 0 (clen nre) None) as [i|] eqn:Eb; [|exact Hnew].
      destruct (Nat.lt_ge_cases i (length cs)) as [Hlt|Hge]; [|rewrite go_none by exact Hge; exact Hnew].
      destruct (go_spec (fun x => insert x re k v) cs i Hlt) as (a & x & b & Hcs & Hl & Hg). rewrite Hg. subst cs.
      rewrite Forall_forall in IH. apply Forall_app in Hall. destruct Hall as [Ha Hxb]. inversion Hxb as [|? ? Hx Hb]; subst.
      simpl. split; [reflexivity|]. split; [exact Hns|]. split.
      * intros q Hq. rewrite !flat_map_app in Hq. simpl in Hq. rewrite app_nil_r in Hq.
        rewrite !in_app_iff in Hq. destruct Hq as [[Hq|Hq]|Hq].
        -- apply Hpre. rewrite flat_map_app. apply in_app_iff. left; exact Hq.
        -- apply Hpre. rewrite flat_map_app. simpl. apply in_app_iff. right. apply in_app_iff. right; exact Hq.
        -- destruct (insert_pats x re k v q Hq) as [Hold| ->]; [|exact Hnre].
           apply Hpre. rewrite flat_map_app. simpl. apply in_app_iff. right. apply in_app_iff. left; exact Hold.
      * apply inv_all. apply Forall_app. split; [apply Forall_app; split; assumption|]. constructor; [|constructor].
        apply IH; [apply in_or_app; right; left; reflexivity|exact Hsh|exact Hne|exact Hx].
  - simpl in Hi. destruct Hi as (-> & Hls & Hlne). simpl. destruct (pat_eqb re lre) eqn:E.
    + simpl. auto.
    + simpl. split; [reflexivity|]. split; [eapply tpre_shape_l; apply (cut_l' lre re); assumption|]. split.
      * intros q [<-|[<-|[]]]; [apply cut_l'; assumption|apply cut_r'; assumption].
      * repeat split; auto.
Qed.

(* ---- entries after insert of a fresh id ---- *)
Definition eids (it : item) : list ident := map (fun e => fst (snd e)) (entries V it).

Lemma assoc_set_fresh k v (vs : list (ident * V)) : ~ In k (map fst vs) -> assoc_set V k v vs = vs ++ [(k, v)].
Proof. induction vs as [|[k' v'] vs IH]; simpl; intros Hn; [reflexivity|].
  destruct (id_eqb k k') eqn:E; [apply str_eqb_spec in E; subst; tauto|]. rewrite IH by tauto. reflexivity. Qed.

Lemma insert_entries_fresh it : forall re k v, ~ In k (eids it) ->
  Permutation (entries V (insert it re k v)) ((re, (k, v)) :: entries V it).
Proof. induction it as [ic0|nre ic0 cflag cs IH|lre ic0 cflag vs] using item_ind'; intros re k v Hf.
  - simpl. apply Permutation_refl.
  - rewrite insert_unfold_node. cbv zeta.
    destruct (Nat.ltb (cp re nre) (clen nre)).
    + simpl. rewrite ?app_nil_r. apply Permutation_refl.
    + assert (Hnew : Permutation (entries V (Node nre ic0 cflag (cs ++ [leaf_new V re k v ic0]))) ((re, (k, v)) :: entries V (Node nre ic0 cflag cs))).
      { simpl. rewrite flat_map_app. simpl. apply Permutation_sym, Permutation_cons_append. }
      destruct (best re cs 0 (clen nre) None) as [i|]; [|exact Hnew].
      destruct (Nat.lt_ge_cases i (length cs)) as [Hlt|Hge]; [|rewrite go_none by exact Hge; exact Hnew].
      destruct (go_spec (fun x => insert x re k v) cs i Hlt) as (a & x & b & Hcs & Hl & Hg). rewrite Hg. subst cs.
      rewrite Forall_forall in IH.
      assert (~ In k (eids x)) as Hfx.
      { intros Hin. apply Hf. unfold eids in *. simpl. rewrite flat_map_app. simpl. rewrite !map_app. apply in_or_app. right. apply in_or_app. left. exact Hin. }
      specialize (IH x ltac:(apply in_or_app; right; left; reflexivity) re k v Hfx).
      simpl. rewrite !flat_map_app. simpl. rewrite app_nil_r.
      eapply Permutation_trans; [apply Permutation_app_head; exact IH|].
      simpl. eapply Permutation_trans; [apply Permutation_sym, Permutation_middle|]. constructor.
      rewrite <- app_assoc. apply Permutation_app_head. apply Permutation_app_comm.
  - simpl. destruct (pat_eqb re lre) eqn:E.
    + apply str_eqb_spec in E. subst. simpl. rewrite assoc_set_fresh.
      * rewrite map_app. simpl. apply Permutation_sym, Permutation_cons_append.
      * intros Hin. apply Hf. unfold eids. simpl. rewrite map_map. simpl. exact Hin.
    + simpl. rewrite ?app_nil_r. apply Permutation_sym, Permutation_cons_append.
Qed.

(* ================= remove ================= *)
Notation remove := (remove V).
Notation go_remove := (go_remove V).
Notation keep1 := (keep1 V).

Lemma remove_unfold_node re ic c cs k :
  remove (Node re ic c cs) k = let '(cs', r) := go_remove (fun x => remove x k) cs in match cs' with [only] => (only, r) | _ => (Node re ic c cs', r) end.
Proof. reflexivity. Qed.

Lemma is_empty_entries it : is_empty V it = true -> entries V it = [].
Proof. induction it as [ic0|nre ic0 cflag cs IH|lre ic0 cflag vs] using item_ind'; simpl; intros H; [reflexivity| |destruct vs; [reflexivity|discriminate]].
  induction cs as [|x cs IHcs]; simpl in *; [reflexivity|]. apply andb_prop in H. destruct H as [H1 H2]. inversion IH; subst.
  rewrite H3 by exact H1. simpl. apply IHcs; assumption. Qed.
Lemma keep1_entries x : flat_map (entries V) (keep1 x) = entries V x.
Proof. unfold Tree.keep1. destruct (is_empty V x) eqn:E; simpl; [symmetry; apply is_empty_entries; exact E|apply app_nil_r]. Qed.
Lemma keep1_pats x q : In q (flat_map pats (keep1 x)) -> In q (pats x).
Proof. unfold Tree.keep1. destruct (is_empty V x); simpl; [tauto|rewrite app_nil_r; tauto]. Qed.
Lemma keep1_inv tic x : inv tic x -> Forall (inv tic) (keep1 x).
Proof. unfold Tree.keep1. destruct (is_empty V x); constructor; auto. Qed.

Lemma assoc_remove_spec k (vs : list (ident * V)) : match assoc_remove V k vs with
   | (vs', Some v) => exists a b, vs = a ++ (k, v) :: b /\ vs' = a ++ b /\ ~ In k (map fst a)
   | (vs', None) => vs' = vs /\ ~ In k (map fst vs) end.
Proof. induction vs as [|[k' v'] vs IH]; simpl; [auto|].
  destruct (id_eqb k k') eqn:E.
  - apply str_eqb_spec in E. subst. exists [], vs. simpl. auto.
  - destruct (assoc_remove V k vs) as [r [v|]].
    + destruct IH as (a & b & -> & -> & Hn). exists ((k', v') :: a), b. simpl. repeat split; auto.
      intros [H|H]; [subst; unfold id_eqb in E; rewrite str_eqb_refl in E; discriminate|tauto].
    + destruct IH as [-> Hn]. split; [reflexivity|]. intros [H|H]; [subst; unfold id_eqb in E; rewrite str_eqb_refl in E; discriminate|tauto]. Qed.

(* what remove does to entries: nothing if the id is absent, otherwise takes out the first entry of that id *)
Definition rm_spec (before after : list (pat * (ident * V))) (k : ident) (r : option V) : Prop :=
  match r with
  | None => after = before /\ ~ In k (map (fun e => fst (snd e)) before)
  | Some v => exists a re b, before = a ++ (re, (k, v)) :: b /\ after = a ++ b /\ ~ In k (map (fun e => fst (snd e)) a)
  end.

Lemma remove_entries it k : rm_spec (entries V it) (entries V (fst (remove it k))) k (snd (remove it k)).
Proof. induction it as [ic0|nre ic0 cflag cs IH|lre ic0 cflag vs] using item_ind'.
  - simpl. auto.
  - rewrite remove_unfold_node.
    assert (Hgo : rm_spec (flat_map (entries V) cs) (flat_map (entries V) (fst (go_remove (fun x => remove x k) cs))) k (snd (go_remove (fun x => remove x k) cs))).
    { induction cs as [|x cs IHcs]; [simpl; auto|]. inversion IH as [|? ? Hx Hcs]; subst. specialize (IHcs Hcs).
      cbn [Tree.go_remove]. fold (go_remove (fun x => remove x k)). destruct (remove x k) as [x' [v|]] eqn:Ex; simpl in Hx.
      - cbn [fst snd]. rewrite flat_map_app, keep1_entries. destruct Hx as (a & re & b & Hb & Ha & Hn).
        exists a, re, (b ++ flat_map (entries V) cs). simpl. rewrite Hb, Ha, <- !app_assoc. simpl. auto.
      - destruct (go_remove (fun x => remove x k) cs) as [rest r'] eqn:Eg. cbn [fst snd] in *. rewrite flat_map_app, keep1_entries.
        destruct Hx as [Hx Hn]. rewrite Hx. destruct r' as [v|].
        + destruct IHcs as (a & re & b & Hb & Ha & Hn'). exists (entries V x ++ a), re, b. simpl. rewrite Hb, Ha, <- !app_assoc. repeat split; auto.
          rewrite map_app. intros Hin. apply in_app_iff in Hin. tauto.
        + destruct IHcs as [-> Hn']. simpl. split; [reflexivity|]. rewrite map_app. intros Hin. apply in_app_iff in Hin. tauto. }
    destruct (go_remove (fun x => remove x k) cs) as [cs' r] eqn:Eg. cbn [fst snd] in Hgo.
    assert (entries V (fst (match cs' with [only] => (only, r) | _ => (Node nre ic0 cflag cs', r) end)) = flat_map (entries V) cs' /\
            snd (match cs' with [only] => (only, r) | _ => (Node nre ic0 cflag cs', r) end) = r) as [He Hs].
    { destruct cs' as [|y [|z cs'']]; simpl; auto. rewrite app_nil_r. auto. }
    rewrite He, Hs. exact Hgo.
  - simpl. pose proof (assoc_remove_spec k vs) as H. destruct (assoc_remove V k vs) as [vs' [v|]].
    + destruct H as (a & b & -> & -> & Hn).
      assert (entries V (fst (if is_nil (a ++ b) then (Empty ic0, Some v) else (Leaf lre ic0 cflag (a ++ b), Some v))) = map (fun e => (lre, e)) (a ++ b) /\ snd (if is_nil (a ++ b) then (@Empty V ic0, Some v) else (Leaf lre ic0 cflag (a ++ b), Some v)) = Some v) as [-> ->].
      { destruct (a ++ b); simpl; auto. }
      exists (map (fun e => (lre, e)) a), lre, (map (fun e => (lre, e)) b). rewrite !map_app. simpl. repeat split; auto. rewrite map_map. simpl. exact Hn.
    + destruct H as [-> Hn]. simpl. split; [reflexivity|]. rewrite map_map. simpl. exact Hn.
Qed.

Lemma remove_pats it k q : In q (pats (fst (remove it k))) -> In q (pats it).
Proof. revert q. induction it as [ic0|nre ic0 cflag cs IH|lre ic0 cflag vs] using item_ind'; intros q Hq.
  - exact Hq.
  - rewrite remove_unfold_node in Hq.
    assert (Hgo : forall q, In q (flat_map pats (fst (go_remove (fun x => remove x k) cs))) -> In q (flat_map pats cs)).
    { clear Hq q. induction cs as [|x cs IHcs]; [simpl; auto|]. inversion IH as [|? ? Hx Hcs]; subst. specialize (IHcs Hcs).
      intros q. cbn [Tree.go_remove]. fold (go_remove (fun x => remove x k)). destruct (remove x k) as [x' [v|]] eqn:Ex; simpl in Hx.
      - cbn [fst]. rewrite flat_map_app. simpl. intros Hq. apply in_app_iff in Hq. apply in_app_iff. destruct Hq as [Hq|Hq]; [left; apply Hx, keep1_pats, Hq|right; exact Hq].
      - destruct (go_remove (fun x => remove x k) cs) as [rest r']. cbn [fst] in *. rewrite flat_map_app. simpl. intros Hq. apply in_app_iff in Hq. apply in_app_iff. destruct Hq as [Hq|Hq]; [left; apply Hx, keep1_pats, Hq|right; apply IHcs; exact Hq]. }
    destruct (go_remove (fun x => remove x k) cs) as [cs' r]. cbn [fst] in Hgo. simpl. apply Hgo.
    destruct cs' as [|y [|z cs'']]; simpl in *; auto. rewrite app_nil_r. exact Hq.
  - simpl in Hq. destruct (assoc_remove V k vs) as [vs' [v|]]; [destruct vs'|]; simpl in *; tauto.
Qed.

Lemma remove_inv tic it k : inv tic it -> inv tic (fst (remove it k)).
Proof. induction it as [ic0|nre ic0 cflag cs IH|lre ic0 cflag vs] using item_ind'; intros Hi.
  - exact Hi.
  - rewrite remove_unfold_node. assert (Hi' := Hi). simpl in Hi'. destruct Hi' as (-> & Hns & Hpre & Hall). apply inv_all in Hall.
    assert (Hgo : Forall (inv tic) (fst (go_remove (fun x => remove x k) cs)) /\ forall q, In q (flat_map pats (fst (go_remove (fun x => remove x k) cs))) -> In q (flat_map pats cs)).
    { clear Hpre Hi. induction cs as [|x cs IHcs]; [simpl; auto|]. inversion IH as [|? ? Hx Hcs]; subst. inversion Hall as [|? ? Hix Hics]; subst.
      specialize (IHcs Hcs Hics). destruct IHcs as [IH1 IH2].
      cbn [Tree.go_remove]. fold (go_remove (fun x => remove x k)). pose proof (remove_pats x k) as Hp. destruct (remove x k) as [x' [v|]] eqn:Ex; simpl in Hx, Hp.
      - cbn [fst]. split; [apply Forall_app; split; [apply keep1_inv, Hx, Hix|exact Hics]|].
        intros q. rewrite flat_map_app. simpl. intros Hq. apply in_app_iff in Hq. apply in_app_iff. destruct Hq as [Hq|Hq]; [left; apply Hp, keep1_pats, Hq|right; exact Hq].
      - destruct (go_remove (fun x => remove x k) cs) as [rest r']. cbn [fst] in *. split; [apply Forall_app; split; [apply keep1_inv, Hx, Hix|exact IH1]|].
        intros q. rewrite flat_map_app. simpl. intros Hq. apply in_app_iff in Hq. apply in_app_iff. destruct Hq as [Hq|Hq]; [left; apply Hp, keep1_pats, Hq|right; apply IH2; exact Hq]. }
    destruct (go_remove (fun x => remove x k) cs) as [cs' r]. cbn [fst] in Hgo. destruct Hgo as [Hg1 Hg2].
    destruct cs' as [|y [|z cs'']]; cbn [fst].
    + simpl. repeat split; auto.
    + inversion Hg1; subst. assumption.
    + simpl. split; [reflexivity|]. split; [exact Hns|]. split; [intros q Hq; apply Hpre, Hg2; exact Hq|].
      inversion Hg1 as [|? ? Hy Hr]; subst. inversion Hr as [|? ? Hz Hr']; subst. split; [exact Hy|split; [exact Hz|apply inv_all; exact Hr']].
  - simpl in Hi. destruct Hi as (-> & Hls & Hne). simpl. destruct (assoc_remove V k vs) as [vs' [v|]]; [destruct vs'|]; simpl; auto.
Qed.


(* ======================================================================================== *)
(* len / get / retain / cache / iteration against [entries]                                  *)
(* ======================================================================================== *)
Hypothesis tpre_starts : forall p q, tpre p q -> starts_with q p = true.
Notation entries := (Tree.entries V).
Definition value_of (e : pat * (ident * V)) : V := snd (snd e).
Definition id_of (e : pat * (ident * V)) : ident := fst (snd e).

(* ---------------- len, iteration ---------------- *)
Lemma len_entries (it : item) : len V it = length (entries it).
Proof.
  induction it as [ic|re ic c cs IH|re ic c vs] using item_ind'; simpl; [reflexivity| |rewrite map_length; reflexivity].
  induction cs as [|x cs IHcs]; simpl; [reflexivity|]. inversion IH; subst. rewrite app_length. f_equal; auto.
Qed.

Lemma all_values_entries (it : item) : all_values V it = map value_of (entries it).
Proof.
  induction it as [ic|re ic c cs IH|re ic c vs] using item_ind'; simpl; [reflexivity| |rewrite map_map; reflexivity].
  induction cs as [|x cs IHcs]; simpl; [reflexivity|]. inversion IH; subst. rewrite map_app. f_equal; auto.
Qed.

(* ---------------- get ---------------- *)
Theorem get_spec tic (it : item) re : inv tic it ->
  get V it re = map value_of (filter (fun e => pat_eqb (fst e) re) (entries it)).
Proof.
  induction it as [ic|nre ic c cs IH|lre ic c vs] using item_ind'; simpl; intros Hi.
  - reflexivity.
  - destruct Hi as (-> & Hsh & Hpre & Hall). apply inv_all in Hall.
    assert (Hrec : flat_map (fun x => get V x re) cs = map value_of (filter (fun e => pat_eqb (fst e) re) (flat_map entries cs))).
    { clear Hpre. induction cs as [|x cs IHcs]; simpl; [reflexivity|]. inversion IH; subst. inversion Hall; subst.
      rewrite filter_app, map_app. f_equal; auto. }
    destruct (starts_with re nre) eqn:Es; [exact Hrec|].
    symmetry.
    assert (Hf : forall e, In e (flat_map entries cs) -> pat_eqb (fst e) re = false).
    { intros e He. destruct (pat_eqb (fst e) re) eqn:Ee; [|reflexivity]. exfalso. apply str_eqb_spec in Ee.
      apply in_flat_map in He. destruct He as (x & Hx & He).
      assert (tpre nre (fst e)) as Ht. { apply Hpre. apply in_flat_map. exists x. split; [exact Hx|apply entries_pats; exact He]. }
      apply tpre_starts in Ht. rewrite Ee in Ht. congruence. }
    clear - Hf. induction (flat_map entries cs) as [|e l IHl]; simpl; [reflexivity|].
    rewrite Hf by (left; reflexivity). apply IHl. intros; apply Hf; right; auto.
  - induction vs as [|[k v] vs IHvs]; simpl.
    + destruct (pat_eqb lre re); reflexivity.
    + destruct (pat_eqb lre re) eqn:E; simpl in *; [f_equal; exact IHvs|exact IHvs].
Qed.

(* ---------------- retain ---------------- *)
Definition retain_entry (f : ident -> V -> option V) (e : pat * (ident * V)) : list (pat * (ident * V)) :=
  match f (id_of e) (value_of e) with Some v' => [(fst e, (id_of e, v'))] | None => [] end.

Lemma retain_values_entries f re (vs : list (ident * V)) :
  map (fun e => (re, e)) (retain_values V f vs) = flat_map (retain_entry f) (map (fun e => (re, e)) vs).
Proof.
  induction vs as [|[k v] vs IH]; simpl; [reflexivity|]. unfold retain_entry at 1, id_of, value_of. simpl.
  destruct (f k v); simpl; rewrite IH; reflexivity.
Qed.

Lemma flat_map_flat_map {A B C} (f : A -> list B) (g : B -> list C) l :
  flat_map g (flat_map f l) = flat_map (fun x => flat_map g (f x)) l.
Proof. induction l; simpl; [reflexivity|]. rewrite flat_map_app, IHl. reflexivity. Qed.

Theorem retain_entries f (it : item) : entries (retain V f it) = flat_map (retain_entry f) (entries it).
Proof.
  induction it as [ic|nre ic c cs IH|lre ic c vs] using item_ind'; simpl.
  - reflexivity.
  - assert (Hcs : flat_map entries (flat_map (fun x => keep1 (retain V f x)) cs) = flat_map (retain_entry f) (flat_map entries cs)).
    { induction cs as [|x cs IHcs]; simpl; [reflexivity|]. inversion IH; subst.
      rewrite !flat_map_app, keep1_entries, IHcs by assumption. f_equal. assumption. }
    destruct (flat_map (fun x => keep1 (retain V f x)) cs) as [|y [|z l]] eqn:E; simpl in *; rewrite <- Hcs; try reflexivity.
    rewrite app_nil_r. reflexivity.
  - rewrite <- retain_values_entries. destruct (retain_values V f vs); reflexivity.
Qed.

Lemma retain_pats f (it : item) q : In q (pats (retain V f it)) -> In q (pats it).
Proof.
  revert q. induction it as [ic|nre ic c cs IH|lre ic c vs] using item_ind'; simpl; intros q Hq.
  - exact Hq.
  - assert (Hcs : forall q, In q (flat_map (pats) (flat_map (fun x => keep1 (retain V f x)) cs)) -> In q (flat_map (pats) cs)).
    { clear Hq q. induction cs as [|x cs IHcs]; simpl; [auto|]. inversion IH; subst. intros q. rewrite flat_map_app.
      rewrite !in_app_iff. intros [Hq|Hq]; [left; apply H1, keep1_pats, Hq|right; apply IHcs; assumption]. }
    destruct (flat_map (fun x => keep1 (retain V f x)) cs) as [|y [|z l]] eqn:E; simpl in *; [tauto| |apply Hcs; exact Hq].
    apply Hcs. rewrite app_nil_r. exact Hq.
  - destruct (retain_values V f vs); simpl in *; tauto.
Qed.

Lemma retain_inv tic f (it : item) : inv tic it -> inv tic (retain V f it).
Proof.
  induction it as [ic|nre ic c cs IH|lre ic c vs] using item_ind'; intros Hi.
  - exact Hi.
  - assert (Hi' := Hi). simpl in Hi'. destruct Hi' as (-> & Hns & Hpre & Hall). apply inv_all in Hall.
    assert (Hcs : Forall (inv tic) (flat_map (fun x => keep1 (retain V f x)) cs)
                  /\ forall q, In q (flat_map (pats) (flat_map (fun x => keep1 (retain V f x)) cs)) -> In q (flat_map (pats) cs)).
    { clear Hpre Hi. induction cs as [|x cs IHcs]; simpl; [auto|]. inversion IH; subst. inversion Hall; subst.
      destruct (IHcs H2 H4) as [I1 I2]. split.
      - apply Forall_app. split; [apply keep1_inv; auto|exact I1].
      - intros q. rewrite flat_map_app, !in_app_iff. intros [Hq|Hq]; [left; eapply retain_pats, keep1_pats, Hq|right; auto]. }
    destruct Hcs as [Hc1 Hc2]. simpl.
    destruct (flat_map (fun x => keep1 (retain V f x)) cs) as [|y [|z l]] eqn:E.
    + reflexivity.
    + inversion Hc1; assumption.
    + simpl. split; [reflexivity|]. split; [exact Hns|]. split; [intros q Hq; apply Hpre, Hc2; exact Hq|].
      inversion Hc1 as [|? ? Hy Hr]; subst. inversion Hr as [|? ? Hz Hr']; subst. split; [exact Hy|split; [exact Hz|apply inv_all; exact Hr']].
  - simpl in *. destruct Hi as (-> & Hs & Hne). destruct (retain_values V f vs); simpl; auto.
Qed.

(* ---------------- cache is transparent ---------------- *)
Notation cache := (cache V valid).

Lemma cache_children_spec (g : item -> N -> item * N) (P : item -> item -> Prop) cs :
  Forall (fun x => forall l, P x (fst (g x l))) cs ->
  forall left, Forall2 P cs (fst (cache_children V g cs left)).
Proof.
  induction cs as [|x cs IH]; intros H left; simpl; [constructor|].
  inversion H; subst. destruct (g x left) as [x' l'] eqn:E1. destruct (cache_children V g cs l') as [r l''] eqn:E2. simpl.
  constructor; [specialize (H2 left); rewrite E1 in H2; exact H2|].
  specialize (IH H3 l'). rewrite E2 in IH. exact IH.
Qed.

(* caching only flips [compiled] flags: same shape of the tree, same patterns, same values *)
Inductive same_upto_flags : item -> item -> Prop :=
| SE ic : same_upto_flags (Empty ic) (Empty ic)
| SL re ic c c' vs : same_upto_flags (Leaf re ic c vs) (Leaf re ic c' vs)
| SN re ic c c' cs cs' : Forall2 same_upto_flags cs cs' -> same_upto_flags (Node re ic c cs) (Node re ic c' cs').

Lemma same_refl (it : item) : same_upto_flags it it.
Proof.
  induction it as [ic|re ic c cs IH|re ic c vs] using item_ind'; constructor.
  induction cs; constructor; inversion IH; auto.
Qed.

Lemma cache_same (it : item) : forall left cl cur, same_upto_flags it (fst (cache it left cl cur)).
Proof.
  induction it as [ic|re ic c cs IH|re ic c vs] using item_ind'; intros left cl cur.
  - simpl. destruct (N.eqb left 0); [constructor|]. destruct (Nat.ltb cl cur); constructor.
  - cbn [Tree.cache]. destruct (N.eqb left 0); [apply same_refl|]. destruct (Nat.ltb cl cur); [apply same_refl|].
    destruct (if (Nat.eqb cl cur && negb c)%bool then _ else _) as [c' left1].
    pose proof (cache_children_spec (fun x l => cache x l cl (S cur)) same_upto_flags cs) as Hc.
    assert (Forall (fun x => forall l, same_upto_flags x (fst (cache x l cl (S cur)))) cs) as Hf.
    { apply Forall_forall. intros x Hx l. rewrite Forall_forall in IH. apply IH. exact Hx. }
    specialize (Hc Hf left1).
    destruct (cache_children V (fun x l => cache x l cl (S cur)) cs left1) as [cs' l2]. simpl in *. constructor. exact Hc.
  - cbn [Tree.cache]. destruct (N.eqb left 0); [apply same_refl|]. destruct (Nat.ltb cl cur); [apply same_refl|].
    destruct (Nat.eqb cl cur); [|apply same_refl]. destruct c; [apply same_refl|]. simpl. constructor.
Qed.

Lemma same_entries (a b : item) : same_upto_flags a b -> entries a = entries b.
Proof.
  revert b. induction a as [ic|re ic c cs IH|re ic c vs] using item_ind'; intros b H; inversion H; subst; simpl; try reflexivity.
  clear H. revert cs' H5. induction cs as [|x cs IHcs]; intros cs' H5; inversion H5; subst; simpl; [reflexivity|].
  inversion IH; subst. f_equal; auto.
Qed.

Lemma same_pats (a b : item) : same_upto_flags a b -> pats a = pats b.
Proof.
  revert b. induction a as [ic|re ic c cs IH|re ic c vs] using item_ind'; intros b H; inversion H; subst; simpl; try reflexivity.
  clear H. revert cs' H5. induction cs as [|x cs IHcs]; intros cs' H5; inversion H5; subst; simpl; [reflexivity|].
  inversion IH; subst. f_equal; auto.
Qed.

Lemma same_inv tic (a b : item) : same_upto_flags a b -> inv tic a -> inv tic b.
Proof.
  revert b. induction a as [ic|re ic c cs IH|re ic c vs] using item_ind'; intros b H Hi; inversion H; subst; simpl in *; auto.
  destruct Hi as (-> & Hs & Hpre & Hall). apply inv_all in Hall. split; [reflexivity|]. split; [exact Hs|].
  assert (flat_map (pats) cs = flat_map (pats) cs') as Hp.
  { clear - H5. induction H5; simpl; [reflexivity|]. f_equal; [apply same_pats; assumption|assumption]. }
  split; [rewrite <- Hp; exact Hpre|]. apply inv_all.
  clear - IH Hall H5. induction H5; [constructor|]. inversion IH; subst. inversion Hall; subst. constructor; auto.
Qed.

Theorem same_find tic (a b : item) s : same_upto_flags a b -> inv tic a -> find a s = find b s.
Proof.
  intros Hs Hi. rewrite (find_spec tic a s Hi).
  rewrite (find_spec tic b s (same_inv tic a b Hs Hi)).
  rewrite (same_entries a b Hs). reflexivity.
Qed.

Theorem cache_transparent tic (it : item) left cl cur s : inv tic it ->
  let it' := fst (cache it left cl cur) in
  find it' s = find it s /\ entries it' = entries it /\ inv tic it' /\ len V it' = len V it.
Proof.
  intros Hi it'. pose proof (cache_same it left cl cur) as Hs. fold it' in Hs.
  split; [symmetry; apply (same_find tic); assumption|]. split; [symmetry; apply same_entries; assumption|].
  split; [eapply same_inv; eassumption|]. rewrite !len_entries. f_equal. symmetry. apply same_entries. assumption.
Qed.

Lemma same_trans (a : item) : forall b c0 : item, same_upto_flags a b -> same_upto_flags b c0 -> same_upto_flags a c0.
Proof.
  induction a as [ic|re ic c cs IHa|re ic c vs] using item_ind'; intros b c0 Hab Hbc;
    inversion Hab; subst; inversion Hbc; subst; constructor.
  match goal with H1 : Forall2 same_upto_flags cs ?m, H2 : Forall2 same_upto_flags ?m ?r |- Forall2 _ cs ?r =>
    revert H1 H2; generalize m r end.
  clear Hab Hbc. induction cs as [|x cs IHcs]; intros m r H1 H2; inversion H1; subst; inversion H2; subst; constructor.
  - inversion IHa; subst. eauto.
  - inversion IHa; subst. eauto.
Qed.

Lemma cache_loop_same fuel : forall (it : item) left lv, same_upto_flags it (fst (cache_loop V valid fuel it left lv)).
Proof.
  induction fuel as [|fuel IH]; intros it left lv; simpl; [apply same_refl|].
  destruct (N.eqb left 0); [apply same_refl|].
  pose proof (cache_same it left lv 0) as H1. destruct (cache it left lv 0) as [it' nl]. simpl in H1.
  destruct (N.eqb nl left); [exact H1|].
  eapply same_trans; [exact H1|apply IH].
Qed.

Theorem tree_cache_same (it : item) limit level : same_upto_flags it (fst (tree_cache V valid it limit level)).
Proof. unfold tree_cache. destruct level; [apply cache_same|apply cache_loop_same]. Qed.


(* ======================================================================================== *)
(* histories of operations refine a flat list of live entries                                *)
(* ======================================================================================== *)
Definition entry := (pat * (ident * V))%type.

Inductive op :=
| OInsert (p : pat) (k : ident) (v : V)
| ORemove (k : ident)
| ORetain (f : ident -> V -> option V)
| OCache (limit : N) (level : option nat).

Definition step (t : item) (o : op) : item :=
  match o with
  | OInsert p k v => insert t p k v
  | ORemove k => fst (remove t k)
  | ORetain f => retain V f t
  | OCache l lv => fst (tree_cache V valid t l lv)
  end.
Definition run (ops : list op) (t : item) : item := fold_left step ops t.

Definition live_step (L : list entry) (o : op) : list entry :=
  match o with
  | OInsert p k v => L ++ [(p, (k, v))]
  | ORemove k => filter (fun e => negb (id_eqb (id_of e) k)) L
  | ORetain f => flat_map (retain_entry f) L
  | OCache _ _ => L
  end.
Definition live_from (L : list entry) (ops : list op) : list entry := fold_left live_step ops L.

(* a history is admissible when every inserted pattern has the rule-regex shape, is non-empty, and
   its id is not live at that point (ids identify entries) *)
Fixpoint hist_ok (L : list entry) (ops : list op) : Prop :=
  match ops with
  | [] => True
  | o :: ops' =>
      match o with
      | OInsert p k v => shape p /\ p <> [] /\ ~ In k (map id_of L)
      | _ => True
      end /\ hist_ok (live_step L o) ops'
  end.

Lemma Permutation_filter' {A} (f : A -> bool) l l' : Permutation l l' -> Permutation (filter f l) (filter f l').
Proof.
  induction 1; simpl.
  - constructor.
  - destruct (f x); [constructor|]; assumption.
  - destruct (f x), (f y); try apply perm_swap; try apply Permutation_refl.
  - eapply Permutation_trans; eassumption.
Qed.

Lemma NoDup_ids_filter (f : entry -> bool) L : NoDup (map id_of L) -> NoDup (map id_of (filter f L)).
Proof.
  induction L as [|e L IH]; simpl; intros H; [constructor|]. inversion H; subst.
  destruct (f e); simpl; [constructor; [|auto]|auto].
  intros Hin. apply H2. apply in_map_iff in Hin. destruct Hin as (x & Hx & Hin). apply filter_In in Hin.
  apply in_map_iff. exists x. tauto.
Qed.

Lemma ids_retain f L k : In k (map id_of (flat_map (retain_entry f) L)) -> In k (map id_of L).
Proof.
  induction L as [|e L IH]; simpl; [tauto|]. rewrite map_app, in_app_iff. intros [H|H]; [|right; auto].
  left. unfold retain_entry in H. destruct (f (id_of e) (value_of e)); simpl in H; [|tauto]. destruct H as [H|[]]. exact H.
Qed.

Lemma NoDup_ids_retain f L : NoDup (map id_of L) -> NoDup (map id_of (flat_map (retain_entry f) L)).
Proof.
  induction L as [|e L IH]; simpl; intros H; [constructor|]. inversion H; subst. rewrite map_app.
  unfold retain_entry at 1. destruct (f (id_of e) (value_of e)); simpl; [|auto].
  constructor; [|auto]. intros Hin. apply H2. eapply ids_retain. exact Hin.
Qed.

Lemma remove_is_filter (it : item) k : NoDup (map id_of (entries it)) ->
  entries (fst (remove it k)) = filter (fun e => negb (id_eqb (id_of e) k)) (entries it).
Proof.
  intros Hnd. pose proof (remove_entries it k) as H. unfold rm_spec in H.
  assert (Hid : forall l : list entry, ~ In k (map id_of l) -> filter (fun e => negb (id_eqb (id_of e) k)) l = l).
  { induction l as [|e l IHl]; simpl; intros Hn; [reflexivity|].
    destruct (id_eqb (id_of e) k) eqn:E; [apply str_eqb_spec in E; tauto|]. simpl. f_equal. apply IHl. tauto. }
  destruct (snd (remove it k)) as [v|].
  - destruct H as (a & re & b & Hb & Ha & Hn). rewrite Ha, Hb. rewrite filter_app. simpl.
    unfold id_of at 2. simpl. unfold id_eqb. rewrite str_eqb_refl. simpl.
    rewrite Hb, map_app in Hnd. simpl in Hnd. apply NoDup_remove_2 in Hnd. rewrite in_app_iff in Hnd.
    rewrite !Hid; [reflexivity| |exact Hn]. unfold id_of in Hnd. simpl in Hnd. tauto.
  - destruct H as [-> Hn]. symmetry. apply Hid. exact Hn.
Qed.

Lemma step_refines tic (t : item) L o :
  inv tic t -> Permutation (entries t) L -> NoDup (map id_of L) ->
  match o with OInsert p k v => shape p /\ p <> [] /\ ~ In k (map id_of L) | _ => True end ->
  inv tic (step t o) /\ Permutation (entries (step t o)) (live_step L o) /\ NoDup (map id_of (live_step L o)).
Proof.
  intros Hi Hp Hnd Hok. destruct o as [p k v|k|f|l lv]; simpl.
  - destruct Hok as (Hs & Hne & Hfresh). split; [apply insert_inv; assumption|]. split.
    + eapply Permutation_trans; [apply insert_entries_fresh|].
      * intros Hin. apply Hfresh. eapply Permutation_in; [apply Permutation_map; exact Hp|exact Hin].
      * eapply Permutation_trans; [apply perm_skip; exact Hp|]. apply Permutation_cons_append.
    + rewrite map_app. simpl. eapply Permutation_NoDup; [apply Permutation_cons_append|].
      constructor; [exact Hfresh|exact Hnd].
  - split; [apply remove_inv; exact Hi|]. split; [|apply NoDup_ids_filter; exact Hnd].
    rewrite remove_is_filter.
    + apply Permutation_filter'. exact Hp.
    + eapply Permutation_NoDup; [apply Permutation_map, Permutation_sym; exact Hp|exact Hnd].
  - split; [apply retain_inv; exact Hi|]. split; [|apply NoDup_ids_retain; exact Hnd].
    rewrite retain_entries. apply Permutation_flat_map. exact Hp.
  - pose proof (tree_cache_same t l lv) as Hs. split; [eapply same_inv; eassumption|].
    split; [rewrite <- (same_entries _ _ Hs); exact Hp|exact Hnd].
Qed.

Theorem run_refines tic ops : forall (t : item) L,
  inv tic t -> Permutation (entries t) L -> NoDup (map id_of L) -> hist_ok L ops ->
  inv tic (run ops t) /\ Permutation (entries (run ops t)) (live_from L ops) /\ NoDup (map id_of (live_from L ops)).
Proof.
  induction ops as [|o ops IH]; intros t L Hi Hp Hnd Hok; simpl.
  - auto.
  - destruct Hok as [Ho Hok]. destruct (step_refines tic t L o Hi Hp Hnd Ho) as (Hi' & Hp' & Hnd').
    apply IH; assumption.
Qed.

(* --- the statements of C08 over histories starting from the empty tree --- *)
Definition live (ops : list op) : list entry := live_from [] ops.
Definition tree_of (ic : bool) (ops : list op) : item := run ops (Empty ic).

Theorem hist_find ic ops s : hist_ok [] ops ->
  Permutation (find (tree_of ic ops) s) (map value_of (filter (fun e => ML ic (fst e) s) (live ops))).
Proof.
  intros Hok. destruct (run_refines ic ops (Empty ic) [] eq_refl (Permutation_refl _) (NoDup_nil _) Hok) as (Hi & Hp & _).
  unfold tree_of. rewrite (find_spec ic _ s Hi). apply Permutation_map. apply Permutation_filter'. exact Hp.
Qed.

Theorem hist_len ic ops : hist_ok [] ops -> len V (tree_of ic ops) = length (live ops).
Proof.
  intros Hok. destruct (run_refines ic ops (Empty ic) [] eq_refl (Permutation_refl _) (NoDup_nil _) Hok) as (Hi & Hp & _).
  rewrite len_entries. apply Permutation_length. exact Hp.
Qed.

Theorem hist_get ic ops re : hist_ok [] ops ->
  Permutation (get V (tree_of ic ops) re) (map value_of (filter (fun e => pat_eqb (fst e) re) (live ops))).
Proof.
  intros Hok. destruct (run_refines ic ops (Empty ic) [] eq_refl (Permutation_refl _) (NoDup_nil _) Hok) as (Hi & Hp & _).
  unfold tree_of. rewrite (get_spec ic _ re Hi). apply Permutation_map. apply Permutation_filter'. exact Hp.
Qed.

Theorem hist_iter ic ops : hist_ok [] ops ->
  Permutation (all_values V (tree_of ic ops)) (map value_of (live ops)).
Proof.
  intros Hok. destruct (run_refines ic ops (Empty ic) [] eq_refl (Permutation_refl _) (NoDup_nil _) Hok) as (Hi & Hp & _).
  rewrite all_values_entries. apply Permutation_map. exact Hp.
Qed.

(* a removal returns the value stored under that id, and None exactly when the id is not live *)
Theorem hist_remove_returns ic ops k : hist_ok [] ops ->
  match snd (remove (tree_of ic ops) k) with
  | Some v => exists p, In (p, (k, v)) (live ops)
  | None => ~ In k (map id_of (live ops))
  end.
Proof.
  intros Hok. destruct (run_refines ic ops (Empty ic) [] eq_refl (Permutation_refl _) (NoDup_nil _) Hok) as (Hi & Hp & _).
  pose proof (remove_entries (tree_of ic ops) k) as H. unfold rm_spec in H. fold (tree_of ic ops) in Hp.
  destruct (snd (remove (tree_of ic ops) k)) as [v|].
  - destruct H as (a & re & b & Hb & _ & _). exists re. eapply Permutation_in; [exact Hp|]. rewrite Hb. apply in_or_app. right. left. reflexivity.
  - destruct H as [_ Hn]. intros Hin. apply Hn. eapply Permutation_in; [apply Permutation_map, Permutation_sym; exact Hp|exact Hin].
Qed.

Lemma same_get (a : item) : forall b re, same_upto_flags a b -> get V a re = get V b re.
Proof.
  induction a as [ic0|nre ic0 c cs IH|lre ic0 c vs] using item_ind'; intros b re Hs; inversion Hs; subst; simpl; try reflexivity.
  destruct (starts_with re nre); [|reflexivity].
  match goal with H : Forall2 same_upto_flags cs ?m |- _ => revert H; generalize m end.
  clear Hs. induction cs as [|x cs IHcs]; intros m H; inversion H; subst; simpl; [reflexivity|].
  inversion IH; subst. f_equal; auto.
Qed.

(* cache warm-up at any point changes no answer (C12, tree level) *)
Theorem hist_cache_transparent ic ops limit level s : hist_ok [] ops ->
  let t := tree_of ic ops in
  let t' := fst (tree_cache V valid t limit level) in
  find t' s = find t s /\ (forall re, get V t' re = get V t re) /\ len V t' = len V t /\ entries t' = entries t.
Proof.
  intros Hok t t'. destruct (run_refines ic ops (Empty ic) [] eq_refl (Permutation_refl _) (NoDup_nil _) Hok) as (Hi & Hp & _).
  fold (tree_of ic ops) in Hi. fold t in Hi.
  pose proof (tree_cache_same t limit level) as Hs. fold t' in Hs.
  split; [symmetry; apply (same_find ic); assumption|].
  assert (entries t' = entries t) as He by (symmetry; apply same_entries; exact Hs).
  split; [intros re; symmetry; apply same_get; exact Hs|].
  split; [rewrite !len_entries, He; reflexivity|exact He].
Qed.

(* ======================================================================================== *)
(* update_at (get_mut + mutation), map_acc (iter_mut), trace                                  *)
(* ======================================================================================== *)
Definition upd_entry (re : pat) (f : V -> V) (e : entry) : entry :=
  if pat_eqb (fst e) re then (fst e, (id_of e, f (value_of e))) else e.

Lemma update_at_entries tic (it : item) re f : inv tic it ->
  entries (update_at V it re f) = map (upd_entry re f) (entries it).
Proof.
  induction it as [ic|nre ic c cs IH|lre ic c vs] using item_ind'; cbn [update_at Tree.entries]; intros Hi.
  - reflexivity.
  - destruct Hi as (-> & Hsh & Hpre & Hall). apply inv_all in Hall.
    destruct (starts_with re nre) eqn:Es.
    + cbn [Tree.entries]. clear Hpre. induction cs as [|x cs IHcs]; cbn; [reflexivity|]. inversion IH; subst. inversion Hall; subst.
      rewrite map_app. f_equal; auto.
    + cbn [Tree.entries]. symmetry. rewrite <- (map_id (flat_map entries cs)) at 2. apply map_ext_in. intros e He.
      unfold upd_entry. destruct (pat_eqb (fst e) re) eqn:Ee; [|reflexivity]. exfalso. apply str_eqb_spec in Ee.
      apply in_flat_map in He. destruct He as (x & Hx & He).
      assert (tpre nre (fst e)) as Ht. { apply Hpre. apply in_flat_map. exists x. split; [exact Hx|apply entries_pats; exact He]. }
      apply tpre_starts in Ht. rewrite Ee in Ht. congruence.
  - destruct (pat_eqb lre re) eqn:E; cbn [Tree.entries].
    + rewrite !map_map. apply map_ext. intros [k v]. unfold upd_entry, id_of, value_of. cbn. rewrite E. reflexivity.
    + rewrite map_map. apply map_ext. intros [k v]. unfold upd_entry. cbn. rewrite E. reflexivity.
Qed.

Lemma update_at_pats (it : item) re f : pats (update_at V it re f) = pats it.
Proof.
  induction it as [ic|nre ic c cs IH|lre ic c vs] using item_ind'; cbn [update_at pats]; [reflexivity| |destruct (pat_eqb lre re); reflexivity].
  destruct (starts_with re nre); [|reflexivity]. cbn [pats]. induction cs as [|x cs IHcs]; cbn; [reflexivity|]. inversion IH; subst. f_equal; auto.
Qed.

Lemma update_at_inv tic (it : item) re f : inv tic it -> inv tic (update_at V it re f).
Proof.
  induction it as [ic|nre ic c cs IH|lre ic c vs] using item_ind'; cbn [update_at]; intros Hi.
  - exact Hi.
  - destruct (starts_with re nre); [|exact Hi]. cbn [inv] in *. destruct Hi as (-> & Hsh & Hpre & Hall). apply inv_all in Hall.
    split; [reflexivity|]. split; [exact Hsh|]. split.
    + intros q Hq. apply Hpre. clear - Hq IH. induction cs as [|x cs IHcs]; cbn in *; [exact Hq|]. inversion IH; subst.
      rewrite in_app_iff in *. destruct Hq as [Hq|Hq]; [left; rewrite update_at_pats in Hq; exact Hq|right; auto].
    + apply inv_all. clear - IH Hall. induction cs as [|x cs IHcs]; cbn; [constructor|]. inversion IH; subst. inversion Hall; subst. constructor; auto.
  - destruct (pat_eqb lre re); exact Hi.
Qed.

(* iter_mut over every value with an accumulator: entries are rewritten value-wise, in traversal order *)
Lemma map_values_acc_keys {A} (g : V -> A -> V * A) vs : forall a, map fst (fst (map_values_acc V g vs a)) = map fst vs.
Proof.
  induction vs as [|[k v] vs IH]; intros a; cbn; [reflexivity|].
  destruct (g v a) as [v' a1]. specialize (IH a1). destruct (map_values_acc V g vs a1) as [r a2]. cbn in *. f_equal. exact IH.
Qed.

Inductive same_keys : item -> item -> Prop :=
| SKE ic : same_keys (Empty ic) (Empty ic)
| SKL re ic c vs vs' : map fst vs = map fst vs' -> same_keys (Leaf re ic c vs) (Leaf re ic c vs')
| SKN re ic c cs cs' : Forall2 same_keys cs cs' -> same_keys (Node re ic c cs) (Node re ic c cs').

Lemma map_acc_same_keys {A} (g : V -> A -> V * A) (it : item) : forall a, same_keys it (fst (map_acc V g it a)).
Proof.
  induction it as [ic|re ic c cs IH|re ic c vs] using item_ind'; intros a; cbn [map_acc].
  - constructor.
  - assert (H : forall l a, Forall (fun x => forall a, same_keys x (fst (map_acc V g x a))) l ->
                            Forall2 same_keys l (fst (map_acc_list V (fun x a => map_acc V g x a) l a))).
    { induction l as [|x l IHl]; intros a0 Hl; cbn; [constructor|]. inversion Hl; subst.
      destruct (map_acc V g x a0) as [x' a1] eqn:E1. destruct (map_acc_list V (fun x a => map_acc V g x a) l a1) as [r a2] eqn:E2. cbn. constructor.
      - specialize (H1 a0). rewrite E1 in H1. exact H1.
      - specialize (IHl a1 H2). rewrite E2 in IHl. exact IHl. }
    specialize (H cs a IH). destruct (map_acc_list V (fun x a => map_acc V g x a) cs a) as [cs' a']. cbn in *. constructor. exact H.
  - pose proof (map_values_acc_keys g vs a) as Hk. destruct (map_values_acc V g vs a) as [vs' a']. cbn in *. constructor. symmetry. exact Hk.
Qed.

Lemma same_keys_pats (a b : item) : same_keys a b -> pats a = pats b.
Proof.
  revert b. induction a as [ic|re ic c cs IH|re ic c vs] using item_ind'; intros b H; inversion H; subst; cbn; try reflexivity.
  match goal with H : Forall2 same_keys cs ?m |- _ => revert H; generalize m end. clear H.
  induction cs as [|x cs IHcs]; intros m Hm; inversion Hm; subst; cbn; [reflexivity|]. inversion IH; subst. f_equal; auto.
Qed.

Lemma same_keys_inv tic (a b : item) : same_keys a b -> inv tic a -> inv tic b.
Proof.
  revert b. induction a as [ic|re ic c cs IH|re ic c vs] using item_ind'; intros b H Hi; inversion H; subst; cbn [inv] in *; auto.
  destruct Hi as (-> & Hs & Hpre & Hall). apply inv_all in Hall. split; [reflexivity|]. split; [exact Hs|].
  match goal with H : Forall2 same_keys cs ?m |- _ => rename H into HF; rename m into cs2 end.
  assert (flat_map pats cs = flat_map pats cs2) as Hp.
  { clear - HF. induction HF; cbn; [reflexivity|]. f_equal; [apply same_keys_pats; assumption|assumption]. }
  split; [rewrite <- Hp; exact Hpre|]. apply inv_all.
  clear - IH Hall HF. induction HF; [constructor|]. inversion IH; subst. inversion Hall; subst. constructor; auto.
Qed.

(* the explain trace of the tree lists exactly what find returns *)
Fixpoint tree_trace_values (t : Tree.trace V) : list V :=
  match t with Tr _ _ m ch vs => (if m then vs else []) ++ flat_map tree_trace_values ch end.
Lemma trace_values_find (it : item) s : tree_trace_values (trace_of V eng it s) = find it s.
Proof.
  induction it as [ic|re ic c cs IH|re ic c vs] using item_ind'; cbn [trace_of tree_trace_values Tree.find].
  - reflexivity.
  - destruct (Tree.mnode eng ic re c s); cbn; [|reflexivity].
    induction cs as [|x cs IHcs]; cbn; [reflexivity|]. inversion IH; subst. f_equal; auto.
  - destruct (Tree.mleaf eng ic re c s); cbn; rewrite ?app_nil_r; reflexivity.
Qed.
End TreeProofs.
