(* ChainProofs.v — chunk invariance of a chain of body-filter stages (FilterBodyAction::do_filter with its
   early `break` on empty data, and do_end's cascade) from a per-stage SPLIT LAW:
       feeding c1 then c2  =  feeding c1 ++ c2     (same final state, concatenated output).
   The text stages satisfy the law (proved here); for the HTML stage it is the restart property of the
   tokenizer-driven filter (hypothesis of C03_chain, exercised by the correspondence run). *)
Require Import RIO.Base RIO.BodyText.

Section Chain.
Variable stage : Type.
Variable tf : stage -> str -> stage * str.        (* a stage's filter, total (never fails) *)
Variable te : stage -> stage * str.               (* its end *)

Definition split_law (s : stage) : Prop :=
  forall c1 c2, (let '(s1, o1) := tf s c1 in let '(s2, o2) := tf s1 c2 in (s2, o1 ++ o2)) = tf s (c1 ++ c2).

(* the law must hold in every state the stage can reach *)
Variable good : stage -> Prop.
Hypothesis good_split : forall s, good s -> split_law s.
Hypothesis good_tf : forall s d, good s -> good (fst (tf s d)).

Notation sf := (fun s d => Some (tf s d)).
Notation se := (fun s => Some (te s)).

(* the chain as a total function *)
Fixpoint cf (chain : list stage) (data : str) : list stage * str :=
  match chain with
  | [] => ([], data)
  | st :: rest =>
      let '(st', out) := tf st data in
      if is_nil out then (st' :: rest, out)
      else let '(rest', out') := cf rest out in (st' :: rest', out')
  end.

Lemma chain_filter_cf chain data : chain_filter stage sf chain data = Some (cf chain data).
Proof.
  revert data. induction chain as [|st rest IH]; intros data; cbn; [reflexivity|].
  destruct (tf st data) as [st' out]. destruct (is_nil out); [reflexivity|]. rewrite IH. destruct (cf rest out). reflexivity.
Qed.

Lemma cf_good chain data : Forall good chain -> Forall good (fst (cf chain data)).
Proof.
  revert data. induction chain as [|st rest IH]; intros data H; cbn; [constructor|]. inversion H; subst.
  pose proof (good_tf st data H2) as Hg. destruct (tf st data) as [st' out]. cbn in Hg.
  destruct (is_nil out); cbn; [constructor; assumption|].
  specialize (IH out H3). destruct (cf rest out) as [rest' out']. cbn in *. constructor; assumption.
Qed.

Lemma is_nil_app {A} (a b : list A) : is_nil (a ++ b) = is_nil a && is_nil b.
Proof. destruct a; reflexivity. Qed.

(* the split law lifts to the whole chain *)
Theorem chain_split chain : Forall good chain -> forall c1 c2,
  (let '(ch1, o1) := cf chain c1 in let '(ch2, o2) := cf ch1 c2 in (ch2, o1 ++ o2)) = cf chain (c1 ++ c2).
Proof.
  induction chain as [|st rest IH]; intros Hg c1 c2; cbn [cf]; [reflexivity|].
  inversion Hg as [|? ? Hs Hr]; subst.
  pose proof (good_split st Hs c1 c2) as Hsplit.
  destruct (tf st c1) as [s1 o1] eqn:E1. destruct (tf s1 c2) as [s2 o2] eqn:E2. rewrite <- Hsplit. clear Hsplit.
  rewrite is_nil_app.
  destruct o1 as [|x1 o1'], o2 as [|x2 o2'].
  - cbn [is_nil andb cf app]. rewrite E2. reflexivity.
  - cbn [is_nil andb cf app]. rewrite E2. cbn [is_nil]. destruct (cf rest (x2 :: o2')). reflexivity.
  - cbn [is_nil andb]. rewrite app_nil_r. destruct (cf rest (x1 :: o1')) as [R1 o1''] eqn:ER. cbn [cf]. rewrite E2. cbn [is_nil]. rewrite app_nil_r. reflexivity.
  - cbn [is_nil andb]. pose proof (IH Hr (x1 :: o1') (x2 :: o2')) as IHr.
    destruct (cf rest (x1 :: o1')) as [R1 o1''] eqn:ER. cbn [cf]. rewrite E2. cbn [is_nil].
    destruct (cf R1 (x2 :: o2')) as [R2 o2''] eqn:ER2. rewrite <- IHr. reflexivity.
Qed.

(* FilterBodyAction over chunks: never in error for total stages *)
Definition run (chain : list stage) (chunks : list str) : str :=
  fba_run stage sf se {| fb_chain := chain; fb_in_error := false |} chunks.

Lemma run_cons chain c cs : run chain (c :: cs) = snd (cf chain c) ++ run (fst (cf chain c)) cs.
Proof.
  unfold run. cbn [fba_run]. unfold fba_filter. cbn [fb_in_error fb_chain]. rewrite chain_filter_cf.
  destruct (cf chain c) as [ch' out]. reflexivity.
Qed.

(* merging the first two chunks does not change the total output *)
Theorem run_merge chain c1 c2 cs : Forall good chain -> run chain (c1 :: c2 :: cs) = run chain ((c1 ++ c2) :: cs).
Proof.
  intros Hg. rewrite !run_cons. pose proof (chain_split chain Hg c1 c2) as H.
  destruct (cf chain c1) as [ch1 o1]. cbn [fst snd]. destruct (cf ch1 c2) as [ch2 o2] eqn:E2. rewrite <- H. cbn [fst snd].
  rewrite app_assoc. reflexivity.
Qed.

(* chunk invariance: any non-empty list of chunks gives the output of the single chunk *)
Theorem run_chunk_invariant chain c cs : Forall good chain -> run chain (c :: cs) = run chain [concat (c :: cs)].
Proof.
  intros Hg. revert c. induction cs as [|c2 cs IH]; intros c; cbn [concat]; [rewrite app_nil_r; reflexivity|].
  rewrite run_merge by exact Hg. rewrite IH. cbn [concat]. rewrite app_assoc. reflexivity.
Qed.
End Chain.

(* ------------------------------------------------------------------ the text stages satisfy the split law *)
Lemma text_split_law (s : text_stage) : split_law text_stage text_filter s.
Proof.
  intros c1 c2. unfold text_filter. destruct s as [a c e]. cbn [ts_action ts_executed ts_content].
  destruct a, e; cbn [ts_action ts_executed ts_content app]; rewrite ?app_nil_r, ?app_assoc; reflexivity.
Qed.

Theorem text_chain_chunk_invariant (chain : list text_stage) c cs :
  run text_stage text_filter text_end chain (c :: cs) = run text_stage text_filter text_end chain [concat (c :: cs)].
Proof.
  apply (run_chunk_invariant text_stage text_filter text_end (fun _ => True) (fun s _ => text_split_law s)).
  apply Forall_forall. intros; exact I.
Qed.
