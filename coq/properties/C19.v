(* C19 — project-level analyses agree with the live pipeline and with full rebuilds.
   Statements only; proofs in RIO.RouterProofs (refinement of histories, C02) and RIO.AnalysesProofs (redirect chains).
   (1) Incremental = from scratch.  Every analysis (test-examples, unit-ids, explain, impact) consults the router only
       through match_request and feeds the matched rules to a pipeline that does not depend on their order (C11).
       C19_project_eq_standalone: for ANY such pipeline, the router reached by an admissible history (in particular
       existing router + change-set) and a router rebuilt from the resulting rule list inserted in ANY order give the
       same result for every request; C19_change_set is the instance for base rules followed by one change-set.
   (2) Redirect chains.  RedirectionLoop::compute is modelled over an abstract one-hop function (RIO.Analyses); for
       every one-hop function, start and limit: at most max_hops + 1 hops (C19_loop_bound), Loop is reported exactly when
       a (url, method) pair repeats (C19_loop_iff) and then the repeated pair is the last hop (C19_loop_last),
       TooManyHops only when the limit is exhausted (C19_too_many_hops_exact), and the hops form a path of the
       one-hop function (C19_hops_are_a_path).
   PARTIAL: that the response reported for an example is the one of the live pipeline is decided by the
   correspondence run (independent replay in proxy order on a rebuilt router), not by a theorem; unit-trace
   bookkeeping is not modelled. *)
Require Import RIO.Base RIO.Prefix RIO.Route RIO.Tree RIO.TreeProofs RIO.TreeInst RIO.Matchers RIO.MatcherSpec RIO.PathProofs RIO.RouterSpec RIO.RouterHist RIO.RouterProofs.
Require Import RIO.Analyses RIO.AnalysesProofs.
Close Scope N_scope.

Theorem C19_project_eq_standalone : forall lower eng valid ic_host ic_path always,
  engine_dotstar eng -> engine_prefix_law eng ->
  forall (A : Type) (pipeline : list route -> request -> A),
  (forall ms ms' q, Permutation ms ms' -> pipeline ms q = pipeline ms' q) ->
  forall (ops : list rop) (rs : list route) (q : request),
  RouterProofs.hist_ok lower [] ops -> Forall (ok_route lower) rs -> Permutation (RouterHist.live ops) rs ->
  pipeline (router_match lower eng valid ic_host ic_path always q
              (rrun lower eng valid ic_host ic_path always ops (router_new lower eng valid ic_host ic_path always))) q
  = pipeline (router_match lower eng valid ic_host ic_path always q (rbuild lower eng valid ic_host ic_path always rs)) q.
Proof.
  intros lower eng valid ih ip al Hd Hp A pipeline Hperm ops rs q Hok Hall Hl.
  apply Hperm. apply (hist_match_rebuild_perm lower eng valid ih ip al Hd Hp ops rs q Hok Hall Hl).
Qed.

(* the shape used by the *_from_project entry points: the existing router (base rules), then one change-set *)
Theorem C19_change_set : forall lower eng valid ic_host ic_path always,
  engine_dotstar eng -> engine_prefix_law eng ->
  forall (A : Type) (pipeline : list route -> request -> A),
  (forall ms ms' q, Permutation ms ms' -> pipeline ms q = pipeline ms' q) ->
  forall (base added updated : list route) (deleted : list str) (rs : list route) (q : request),
  let ops := map RIns base ++ [RChange added updated deleted] in
  RouterProofs.hist_ok lower [] ops -> Forall (ok_route lower) rs -> Permutation (RouterHist.live ops) rs ->
  pipeline (router_match lower eng valid ic_host ic_path always q
              (rrun lower eng valid ic_host ic_path always ops (router_new lower eng valid ic_host ic_path always))) q
  = pipeline (router_match lower eng valid ic_host ic_path always q (rbuild lower eng valid ic_host ic_path always rs)) q.
Proof. intros. apply C19_project_eq_standalone; assumption. Qed.

(* ---- redirect chains ---- *)
Theorem C19_loop_bound : forall (node : Type) (eqb : node -> node -> bool), (forall a b, eqb a b = true <-> a = b) ->
  forall step external max start,
  length (fst (compute node eqb step external max start)) <= max + 1.
Proof. intros. apply loop_bound. assumption. Qed.

Theorem C19_loop_iff : forall (node : Type) (eqb : node -> node -> bool), (forall a b, eqb a b = true <-> a = b) ->
  forall step external max start,
  snd (compute node eqb step external max start) = Some Loop
  <-> ~ NoDup (map fst (fst (compute node eqb step external max start))).
Proof. intros. apply loop_iff. assumption. Qed.

Theorem C19_loop_last : forall (node : Type) (eqb : node -> node -> bool), (forall a b, eqb a b = true <-> a = b) ->
  forall step external max start,
  snd (compute node eqb step external max start) = Some Loop ->
  exists pre n c, fst (compute node eqb step external max start) = pre ++ [(n, c)] /\ NoDup (map fst pre) /\ In n (map fst pre).
Proof. intros. apply loop_last; assumption. Qed.

Theorem C19_too_many_hops_exact : forall (node : Type) (eqb : node -> node -> bool), (forall a b, eqb a b = true <-> a = b) ->
  forall step external max start,
  snd (compute node eqb step external max start) = Some TooManyHops ->
  length (fst (compute node eqb step external max start)) = max + 1.
Proof. intros. apply too_many_hops_exact; assumption. Qed.

Theorem C19_hops_are_a_path : forall (node : Type) (eqb : node -> node -> bool) step external max start,
  exists rest, fst (compute node eqb step external max start) = (start, 0%N) :: rest /\ path_ok node step start rest.
Proof. intros. apply hops_are_a_path. Qed.

(* the probes of DESIGN.md: a -> b -> c -> a with limit 5: 4 hops and Loop; limit 2: 3 hops and TooManyHops; limit 0: the start only *)
Example C19_example_chain :
  let step := fun n : N => (if N.eqb n 0 then Some (1, 301) else if N.eqb n 1 then Some (2, 302) else if N.eqb n 2 then Some (0, 301) else None)%N in
  (compute N N.eqb step (fun _ => false) 5 0 = ([(0, 0); (1, 301); (2, 302); (0, 301)], Some Loop)
   /\ compute N N.eqb step (fun _ => false) 2 0 = ([(0, 0); (1, 301); (2, 302)], Some TooManyHops)
   /\ compute N N.eqb step (fun _ => false) 0 0 = ([(0, 0)], None))%N.
Proof. vm_compute. repeat split. Qed.

Print Assumptions C19_project_eq_standalone.
Print Assumptions C19_change_set.
Print Assumptions C19_loop_bound.
Print Assumptions C19_loop_iff.
Print Assumptions C19_loop_last.
Print Assumptions C19_too_many_hops_exact.
Print Assumptions C19_hops_are_a_path.
