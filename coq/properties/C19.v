(* C19 — project-level analyses agree with the live pipeline and with full rebuilds.
   Statements only; proofs in RIO.RouterProofs (refinement of histories, C02) and RIO.AnalysesProofs (redirect chains).
   (1) Incremental = from scratch.  Every analysis (test-examples, unit-ids, explain, impact) consults the router only
       through match_request and feeds the matched rules to a pipeline that does not depend on their order (C11).
       C19_project_eq_standalone: for ANY such pipeline, the router reached by an admissible history (in particular
       existing router + change-set) and a router rebuilt from the resulting rule list inserted in ANY order give the
       same result for every request; C19_change_set is the instance for base rules followed by one change-set.
   (2) Redirect chains.  RedirectionLoop::compute is modelled over an abstract one-hop function (RIO.Analyses); for
       every one-hop function, start and limit: at most max_hops + 1 hops (C19_loop_bound), Loop is reported exactly when
       a (url, method) pair repeats (C19_loop_iff) and then the repeated pair is the last hop (C19_loop_last),
       TooManyHops only when the limit is exhausted (C19_too_many_hops_exact), and the hops form a path of the
       one-hop function (C19_hops_are_a_path).
   (3) The response block.  explain and impact compute the response of an example with the same block of calls
       (RIO.Pipeline.analysis_response over the action model of RIO.ActionModel; the block's shape and the skeleton
       document are re-extracted from src/api/explain_request.rs, src/api/impact.rs and src/action/mod.rs on every run:
       RIOGen.ExtAnalysis).  C19_analysis_eq_live: for every action, example code and document it is the response of the
       live pipeline in proxy order (request phase first; when it yields a status the backend is never asked; otherwise
       the backend answers with the example's code, 200 when it names none); C19_request_phase_wins; C19_analysis_status;
       C19_analysis_order_independent: it depends only on the SET of matched rules.
   PARTIAL: unit-trace bookkeeping is not modelled; that the router hands the analysis the rules it would hand the
   proxy is C01/C02/C17; the correspondence run compares every response explain and impact report with this model
   evaluated on the rules the router matched, and with an independent replay in proxy order on a rebuilt router. *)
Require Import RIO.Base RIO.Prefix RIO.Route RIO.Tree RIO.TreeProofs RIO.TreeInst RIO.Matchers RIO.MatcherSpec RIO.PathProofs RIO.RouterSpec RIO.RouterHist RIO.RouterProofs.
Require Import RIO.Analyses RIO.AnalysesProofs.
Require Import RIO.Headers RIO.BodyText RIO.ActionModel RIO.Pipeline RIO.PipelineProofs RIO.EndToEnd.
Require Import RIO.ActionSpec RIO.ActionProofs RIO.PipelineSpec.
Close Scope N_scope.

Theorem C19_project_eq_standalone : forall lower eng valid ic_host ic_path always,
  engine_dotstar eng -> engine_prefix_law eng ->
  forall (A : Type) (pipeline : list route -> request -> A),
  (forall ms ms' q, Permutation ms ms' -> pipeline ms q = pipeline ms' q) ->
  forall (ops : list rop) (rs : list route) (q : request),
  RouterProofs.hist_ok lower [] ops -> Forall (ok_route lower) rs -> Permutation (RouterHist.live ops) rs ->
  pipeline (router_match lower eng valid ic_host ic_path always q
              (rrun lower eng valid ic_host ic_path always ops (router_new lower eng valid ic_host ic_path always))) q
  = pipeline (router_match lower eng valid ic_host ic_path always q (rbuild lower eng valid ic_host ic_path always rs)) q.
Proof.
  intros lower eng valid ih ip al Hd Hp A pipeline Hperm ops rs q Hok Hall Hl.
  apply Hperm. apply (hist_match_rebuild_perm lower eng valid ih ip al Hd Hp ops rs q Hok Hall Hl).
Qed.

(* the shape used by the *_from_project entry points: the existing router (base rules), then one change-set *)
Theorem C19_change_set : forall lower eng valid ic_host ic_path always,
  engine_dotstar eng -> engine_prefix_law eng ->
  forall (A : Type) (pipeline : list route -> request -> A),
  (forall ms ms' q, Permutation ms ms' -> pipeline ms q = pipeline ms' q) ->
  forall (base added updated : list route) (deleted : list str) (rs : list route) (q : request),
  let ops := map RIns base ++ [RChange added updated deleted] in
  RouterProofs.hist_ok lower [] ops -> Forall (ok_route lower) rs -> Permutation (RouterHist.live ops) rs ->
  pipeline (router_match lower eng valid ic_host ic_path always q
              (rrun lower eng valid ic_host ic_path always ops (router_new lower eng valid ic_host ic_path always))) q
  = pipeline (router_match lower eng valid ic_host ic_path always q (rbuild lower eng valid ic_host ic_path always rs)) q.
Proof. intros. apply C19_project_eq_standalone; assumption. Qed.

(* ---- redirect chains ---- *)
Theorem C19_loop_bound : forall (node : Type) (eqb : node -> node -> bool), (forall a b, eqb a b = true <-> a = b) ->
  forall step external max start,
  length (fst (compute node eqb step external max start)) <= max + 1.
Proof. intros. apply loop_bound. assumption. Qed.

Theorem C19_loop_iff : forall (node : Type) (eqb : node -> node -> bool), (forall a b, eqb a b = true <-> a = b) ->
  forall step external max start,
  snd (compute node eqb step external max start) = Some Loop
  <-> ~ NoDup (map fst (fst (compute node eqb step external max start))).
Proof. intros. apply loop_iff. assumption. Qed.

Theorem C19_loop_last : forall (node : Type) (eqb : node -> node -> bool), (forall a b, eqb a b = true <-> a = b) ->
  forall step external max start,
  snd (compute node eqb step external max start) = Some Loop ->
  exists pre n c, fst (compute node eqb step external max start) = pre ++ [(n, c)] /\ NoDup (map fst pre) /\ In n (map fst pre).
Proof. intros. apply loop_last; assumption. Qed.

Theorem C19_too_many_hops_exact : forall (node : Type) (eqb : node -> node -> bool), (forall a b, eqb a b = true <-> a = b) ->
  forall step external max start,
  snd (compute node eqb step external max start) = Some TooManyHops ->
  length (fst (compute node eqb step external max start)) = max + 1.
Proof. intros. apply too_many_hops_exact; assumption. Qed.

Theorem C19_hops_are_a_path : forall (node : Type) (eqb : node -> node -> bool) step external max start,
  exists rest, fst (compute node eqb step external max start) = (start, 0%N) :: rest /\ path_ok node step start rest.
Proof. intros. apply hops_are_a_path. Qed.

(* the probes of DESIGN.md: a -> b -> c -> a with limit 5: 4 hops and Loop; limit 2: 3 hops and TooManyHops; limit 0: the start only *)
Example C19_example_chain :
  let step := fun n : N => (if N.eqb n 0 then Some (1, 301) else if N.eqb n 1 then Some (2, 302) else if N.eqb n 2 then Some (0, 301) else None)%N in
  (compute N N.eqb step (fun _ => false) 5 0 = ([(0, 0); (1, 301); (2, 302); (0, 301)], Some Loop)
   /\ compute N N.eqb step (fun _ => false) 2 0 = ([(0, 0); (1, 301); (2, 302)], Some TooManyHops)
   /\ compute N N.eqb step (fun _ => false) 0 0 = ([(0, 0)], None))%N.
Proof. vm_compute. repeat split. Qed.

(* ---- the response block of explain / impact = the live pipeline ---- *)
Theorem C19_analysis_eq_live : forall lower table (a : action) (example_code : option N) (skeleton : str),
  analysis_response lower table a example_code skeleton = live_response lower table a (example_backend example_code) skeleton.
Proof. exact analysis_eq_live. Qed.

Theorem C19_request_phase_wins : forall lower table (a : action) (b b' : N) (skeleton : str),
  fst (get_status_code a 0) <> 0%N -> live_response lower table a b skeleton = live_response lower table a b' skeleton.
Proof. exact live_request_phase_wins. Qed.

Theorem C19_analysis_status : forall lower table (a : action) (example_code : option N) (skeleton : str),
  rs_status (analysis_response lower table a example_code skeleton)
  = (let st0 := fst (get_status_code a 0) in
     if N.eqb st0 0 then fst (get_status_code (snd (get_status_code a 0)) (example_backend example_code)) else st0).
Proof. exact analysis_status. Qed.

Theorem C19_analysis_order_independent : forall lower table (l1 l2 : list rule) skipped ov example_code skeleton,
  Permutation l1 l2 -> NoDup (map r_id l1) ->
  analysis_of_rules lower table l1 skipped ov example_code skeleton = analysis_of_rules lower table l2 skipped ov example_code skeleton.
Proof. exact analysis_of_rules_permutation. Qed.

(* ---- end to end: router refinement + action order independence + pipeline ----
   What explain / impact report for an example on the router reached by ANY admissible history (existing router +
   change-set in particular) is what they report on a router rebuilt from the resulting rule list inserted in any order;
   and on that router it is the response of the live pipeline for the rules the router matches.  [handler] is the link
   from a route to the rule it was made from (Route<Rule>::handler()); only that it keeps the id is assumed. *)
Theorem C19_analysis_incremental_eq_rebuilt : forall lower eng valid ic_host ic_path always,
  engine_dotstar eng -> engine_prefix_law eng ->
  forall lower' table (handler : route -> rule), (forall r, ActionModel.r_id (handler r) = Route.rt_id r) ->
  forall (ops : list rop) (rs : list route) (q : request) skipped ov example_code skeleton,
  RouterProofs.hist_ok lower [] ops -> Forall (ok_route lower) rs -> Permutation (RouterHist.live ops) rs ->
  analysis_of_rules lower' table
    (map handler (router_match lower eng valid ic_host ic_path always q
                    (rrun lower eng valid ic_host ic_path always ops (router_new lower eng valid ic_host ic_path always))))
    skipped ov example_code skeleton
  = analysis_of_rules lower' table
    (map handler (router_match lower eng valid ic_host ic_path always q (rbuild lower eng valid ic_host ic_path always rs)))
    skipped ov example_code skeleton.
Proof. intros. apply analysis_incremental_eq_rebuilt; assumption. Qed.

Theorem C19_analysis_on_history_eq_live : forall lower eng valid ic_host ic_path always lower' table (handler : route -> rule)
  (ops : list rop) (q : request) skipped ov example_code skeleton,
  analysis_of_rules lower' table
    (map handler (router_match lower eng valid ic_host ic_path always q
                    (rrun lower eng valid ic_host ic_path always ops (router_new lower eng valid ic_host ic_path always))))
    skipped ov example_code skeleton
  = live_of_rules lower' table
    (map handler (router_match lower eng valid ic_host ic_path always q
                    (rrun lower eng valid ic_host ic_path always ops (router_new lower eng valid ic_host ic_path always))))
    skipped ov (example_backend example_code) skeleton.
Proof. intros. apply analysis_of_rules_eq_live. Qed.

(* the status explain / impact report, read off the contributing WINDOW of the matched rules (the reference of C05): the
   request-phase decision of the window when there is one, otherwise its decision for the backend code the example
   stands for *)
Theorem C19_analysis_status_is_window_status : forall lower table rules skipped ov example_code skeleton,
  Forall sampling_decided rules ->
  rs_status (analysis_of_rules lower table rules skipped ov example_code skeleton)
  = (let W := window (eligible (sort_rules rules) ov) in
     if N.eqb (status_spec W 0) 0 then status_spec W (example_backend example_code) else status_spec W 0).
Proof. exact analysis_status_is_window_status. Qed.

(* non-vacuity: an unconditional 301 answers at request time whatever the example's backend code; a rule conditioned
   on 404 answers only when the backend says 404 *)
Example C19_pipeline_example :
  let r301 := {| r_id := [97]%N; r_rank := 1; r_status := Some 301%N; r_target := Some [47;116]%N; r_codes := None; r_excl := None; r_hf := []; r_bf := [];
                 r_log := None; r_reset := None; r_stop := None; r_sampling := None |} in
  let r404 := {| r_id := [98]%N; r_rank := 1; r_status := Some 302%N; r_target := Some [47;117]%N; r_codes := Some [404%N]; r_excl := None; r_hf := []; r_bf := [];
                 r_log := None; r_reset := None; r_stop := None; r_sampling := None |} in
  let resp := fun rules code => analysis_of_rules (fun s => s) [] rules None None code [120]%N in
  (rs_status (resp [r301] (Some 404%N)), rs_backend (resp [r301] (Some 404%N))) = (301%N, 301%N)
  /\ (rs_status (resp [r404] (Some 404%N)), rs_backend (resp [r404] (Some 404%N))) = (302%N, 404%N)
  /\ (rs_status (resp [r404] None), rs_backend (resp [r404] None)) = (0%N, 200%N).
Proof. vm_compute. repeat split. Qed.

Print Assumptions C19_project_eq_standalone.
Print Assumptions C19_change_set.
Print Assumptions C19_loop_bound.
Print Assumptions C19_loop_iff.
Print Assumptions C19_loop_last.
Print Assumptions C19_too_many_hops_exact.
Print Assumptions C19_hops_are_a_path.
Print Assumptions C19_analysis_eq_live.
Print Assumptions C19_request_phase_wins.
Print Assumptions C19_analysis_status.
Print Assumptions C19_analysis_order_independent.
Print Assumptions C19_analysis_incremental_eq_rebuilt.
Print Assumptions C19_analysis_on_history_eq_live.
Print Assumptions C19_analysis_status_is_window_status.
