(* C01 — rule matching is exact: no missed rule, no spurious rule, no duplicates.
   Statements only; proofs: RIO.RouterProofs (+ LayerProofs, PathProofs, MatchersProofs, HostProofs, TreeProofs).
   The regex engine is a parameter with the two laws of C08 as premises; String::to_lowercase is any function. *)
Require Import RIO.Base RIO.Prefix RIO.Route RIO.Tree RIO.TreeProofs RIO.TreeInst RIO.Matchers RIO.MatcherSpec RIO.PathProofs RIO.RouterSpec RIO.RouterHist RIO.RouterProofs.
Close Scope N_scope.

(* For every configuration, every set of acceptable routes with unique ids and every request, the routes
   returned by the router built from that set are exactly (as a multiset: each once) those of the
   reference linear scan [spec_match]: conjunction of the per-trigger predicates + the any-host policy,
   scoped per scheme. *)
Theorem C01_exact : forall lower eng valid ic_host ic_path always,
  engine_dotstar eng -> engine_prefix_law eng ->
  forall (rs : list route) (q : request), Forall (ok_route lower) rs -> NoDup (ids rs) ->
  Permutation (router_match lower eng valid ic_host ic_path always q (rbuild lower eng valid ic_host ic_path always rs))
              (spec_match lower (eng false) (hmatch eng ic_host) (pmatch eng ic_path) always rs q).
Proof. exact build_match. Qed.

(* each rule is reported at most once *)
Theorem C01_once : forall lower eng valid ic_host ic_path always,
  engine_dotstar eng -> engine_prefix_law eng ->
  forall (rs : list route) (q : request), Forall (ok_route lower) rs -> NoDup (ids rs) ->
  NoDup (router_match lower eng valid ic_host ic_path always q (rbuild lower eng valid ic_host ic_path always rs)).
Proof.
  intros lower eng valid ih ip al Hd Hp rs q Hok Hn.
  eapply Permutation_NoDup; [apply Permutation_sym, (build_match lower eng valid ih ip al Hd Hp rs q Hok Hn)|].
  (* the reference never lists a route twice: its pieces are filters of disjoint parts of a duplicate-free list *)
  assert (HL : NoDup rs) by (apply NoDup_ids_NoDup; exact Hn).
  unfold spec_match, match_scope.
  assert (Hsc : forall (P : route -> bool) (L : list route), NoDup L ->
            NoDup (let hs := filter (fun r => host_specific r && host_sat (hmatch eng ih) r q && sat_rest lower (eng false) (pmatch eng ip) r q) L in
                   let anyh := filter (fun r => negb (host_specific r) && sat_rest lower (eng false) (pmatch eng ip) r q) L in
                   if al || is_nil hs then hs ++ anyh else hs)).
  { intros _ L HnL. cbv zeta. destruct (al || is_nil _); [|apply NoDup_filter; exact HnL].
    clear - HnL. induction L as [|r L IH]; cbn; [constructor|]. inversion HnL; subst. specialize (IH H2).
    destruct (host_specific r) eqn:E; cbn.
    - destruct (host_sat _ r q && sat_rest _ _ _ r q); cbn; [|exact IH]. constructor; [|exact IH].
      rewrite in_app_iff, !filter_In. tauto.
    - destruct (sat_rest _ _ _ r q); cbn; [|exact IH].
      assert (Hmid : forall (a b : list route) x, NoDup (a ++ b) -> ~ In x (a ++ b) -> NoDup (a ++ x :: b)).
      { intros a b x Hab Hx. apply NoDup_Add with (a := x) (l := a ++ b); [apply Add_app|]. split; assumption. }
      apply Hmid; [exact IH|]. rewrite in_app_iff, !filter_In. tauto. }
  assert (Hdisj : forall x, In x (match_scope lower (eng false) (hmatch eng ih) (pmatch eng ip) al (filter any_scheme rs) q) ->
                  ~ In x (match q_scheme q with Some s => match_scope lower (eng false) (hmatch eng ih) (pmatch eng ip) al (filter (in_scheme s) rs) q | None => [] end)).
  { intros x H1 H2. destruct (q_scheme q) as [s|]; [|destruct H2].
    assert (Hin : forall P L, In x (match_scope lower (eng false) (hmatch eng ih) (pmatch eng ip) al (filter P L) q) -> P x = true).
    { intros P L H. unfold match_scope in H. destruct (al || _); [apply in_app_iff in H; destruct H as [H|H]|]; apply filter_In in H; destruct H as [H _]; apply filter_In in H; tauto. }
    apply Hin in H1. apply Hin in H2. unfold any_scheme, in_scheme in *. destruct (rt_scheme x) as [s'|]; [|discriminate].
    apply andb_prop in H2. destruct H2 as [H2 _]. rewrite H1 in H2. discriminate. }
  unfold match_scope in Hdisj |- *.
  assert (Happ : forall a b : list route, NoDup a -> NoDup b -> (forall x, In x a -> ~ In x b) -> NoDup (a ++ b)).
  { induction a as [|x a IH]; cbn; intros b Ha Hb Hd'; [exact Hb|]. inversion Ha; subst. constructor.
    - rewrite in_app_iff. intros [H|H]; [contradiction|apply (Hd' x (or_introl eq_refl)); exact H].
    - apply IH; try assumption. intros y Hy. apply Hd'. right. exact Hy. }
  apply Happ.
  - apply (Hsc any_scheme). apply NoDup_filter. exact HL.
  - destruct (q_scheme q) as [s|]; [apply (Hsc any_scheme); apply NoDup_filter; exact HL|constructor].
  - exact Hdisj.
Qed.

(* what "acceptable" means: dynamic path / host regexes have the rule-regex shape and are non-empty;
   the methods list and the ip list of a route have no duplicate entries *)
Theorem C01_ok_route : forall lower (r : route),
  match rt_path r with SDynamic re => shape_c re /\ re <> [] | SStatic _ => True end ->
  match rt_host r with Some (SDynamic re) => shape_c re /\ re <> [] | _ => True end ->
  NoDup (match rt_ips r with Some ips => ips | None => [] end) ->
  NoDup (match rt_methods r with Some ms => ms | None => [] end) ->
  ok_route lower r.
Proof. intros lower r H1 H2 H3 H4. apply (ok_route_intro lower (fun _ _ => true) true); assumption. Qed.

Print Assumptions C01_exact.
Print Assumptions C01_once.
Print Assumptions C01_ok_route.
