(* C05 — the computed action reflects exactly the matched rules, in priority order.
   Statements only; proofs in RIO.ActionProofs.  The reference (RIO.ActionSpec) reads every effect off
   the contributing WINDOW of the eligible rules in processing order — no fold, no merge. *)
Require Import RIO.Base RIO.Headers RIO.HeadersSpec RIO.BodyText RIO.ActionModel RIO.ActionSpec RIO.ActionProofs RIOGen.ExtHeaders.

Definition W_of (rules : list rule) (ov : option bool) : list rule := window (eligible (sort_rules rules) ov).

(* status code: that of the last status-carrying rule of the window when its condition admits the code;
   an unconditional rule is decided at request time (code 0) and otherwise only serves as fallback of a
   conditional rule that directly follows it *)
Theorem C05_status : forall rules skipped ov rvs c,
  Forall sampling_decided rules -> rvs_ok rvs ->
  fst (get_status_code (from_routes_rule rules skipped ov rvs) c) = status_spec (W_of rules ov) c.
Proof. intros. apply c05_status; assumption. Qed.

(* header rewrites: exactly the filters of window rules whose condition admits the code, in window order,
   applied as the reference fold of C13 (synthetic Location override first within each rule) *)
Theorem C05_headers : forall rules skipped ov rvs lower hs c,
  Forall sampling_decided rules -> rvs_ok rvs ->
  fst (filter_headers lower header_action_table (snd (get_status_code (from_routes_rule rules skipped ov rvs) c)) hs c false)
  = reference lower (header_filters_spec (W_of rules ov) skipped c) hs.
Proof.
  intros rules skipped ov rvs lower hs c Hd Hr. apply (c05_header_filters rules skipped ov rvs Hd Hr); [reflexivity|].
  unfold get_status_code. destruct (a_status _); [destruct (scu_get _ _)|]; reflexivity.
Qed.

(* body filters: exactly those of window rules whose condition admits the code, in window order *)
Theorem C05_body_filters : forall rules skipped ov rvs c,
  Forall sampling_decided rules -> rvs_ok rvs ->
  fst (create_filter_body (from_routes_rule rules skipped ov rvs) c) = body_filters_spec (W_of rules ov) c.
Proof. intros rules skipped ov rvs c Hd Hr. apply (c05_body_filters rules skipped ov rvs Hd Hr). reflexivity. Qed.

(* logging override *)
Theorem C05_log : forall rules skipped ov rvs allow c,
  Forall sampling_decided rules -> rvs_ok rvs ->
  fst (should_log_request (from_routes_rule rules skipped ov rvs) allow c) = log_spec (W_of rules ov) allow c.
Proof. intros rules skipped ov rvs allow c Hd Hr. apply (c05_log rules skipped ov rvs Hd Hr). reflexivity. Qed.

(* applied-rule list after the calls a proxy makes (status, headers, body, log), as a set:
   exactly the window rules whose response-status condition admits the code *)
Theorem C05_applied_attributable : forall rules skipped ov rvs lower c hs add_ids allow x,
  Forall sampling_decided rules -> rvs_ok rvs ->
  (In x (proxy_applied rules skipped ov rvs lower header_action_table c hs add_ids allow) <-> In x (applied_spec (W_of rules ov) c)).
Proof. intros. apply c05_applied; assumption. Qed.

(* reset discards every lower-priority (earlier processed) rule; stop blocks every higher-priority one:
   both are what the window is *)
Theorem C05_reset_discards_lower : forall pre r post, is_reset r = true -> existsb is_reset post = false -> existsb is_stop (pre ++ [r]) = false ->
  window (pre ++ r :: post) = from_last_reset (upto_stop (r :: post)).
Proof.
  intros pre r post Hr Hpost Hstop. unfold window.
  assert (Hup : forall a b, existsb is_stop a = false -> upto_stop (a ++ b) = a ++ upto_stop b).
  { induction a as [|x a IH]; intros b H; [reflexivity|]. cbn in *. apply orb_false_elim in H. destruct H as [H1 H2]. rewrite H1. f_equal. apply IH. exact H2. }
  rewrite existsb_app in Hstop. apply orb_false_elim in Hstop. destruct Hstop as [Hs1 Hs2].
  rewrite (Hup pre (r :: post) Hs1).
  assert (Hex : existsb is_reset (upto_stop (r :: post)) = true).
  { cbn. cbn in Hs2. rewrite orb_false_r in Hs2. rewrite Hs2. cbn. rewrite Hr. reflexivity. }
  clear - Hex. induction pre as [|x pre IH]; [reflexivity|]. cbn [app from_last_reset].
  rewrite existsb_app, Hex, orb_true_r. exact IH.
Qed.
Theorem C05_stop_blocks_higher : forall pre r post, is_stop r = true -> existsb is_stop pre = false ->
  window (pre ++ r :: post) = window (pre ++ [r]).
Proof.
  intros pre r post Hr Hpre. unfold window. f_equal.
  induction pre as [|x pre IH]; cbn in *; [rewrite Hr; reflexivity|].
  apply orb_false_elim in Hpre. destruct Hpre as [H1 H2]. rewrite H1. f_equal. apply IH. exact H2.
Qed.

(* sampling: a 0 rate or a rate >= 100 and the request's override decide, whatever the random draw in [1,100] *)
Theorem C05_sampling : forall r ov rv, sampling_decided r -> (1 <= rv <= 100)%N ->
  sampled_out (r_sampling r) ov rv = spec_skipped r ov.
Proof. exact sampled_out_spec. Qed.

(* processing order: descending rank, ties by descending id; it is a permutation of the rule list *)
Theorem C05_processing_order : forall l,
  Permutation (sort_rules l) l /\
  Sorted.StronglySorted (fun a b => (r_rank b < r_rank a)%N \/ (r_rank a = r_rank b /\ str_ltb (r_id a) (r_id b) = false)) (sort_rules l).
Proof. intros l. split; [apply sort_rules_perm|apply sort_rules_order]. Qed.

(* Non-vacuity: three rules with a rank tie, a reset, a conditional status with unconditional fallback *)
Definition ex_rule (id : str) (rank : N) (st : option N) (codes : option (list N)) (reset : option bool) : rule :=
  {| r_id := id; r_rank := rank; r_status := st; r_target := Some [47]%N; r_codes := codes; r_excl := None; r_hf := []; r_bf := [];
     r_log := None; r_reset := reset; r_stop := None; r_sampling := Some 100%N |}.
Example C05_example :
  let rules := [ex_rule [97]%N 1 (Some 404%N) (Some [500]%N) None; ex_rule [98]%N 1 (Some 301%N) None (Some true); ex_rule [99]%N 2 (Some 410%N) None None] in
  Forall sampling_decided rules /\ rvs_ok [50%N] /\
  map r_id (W_of rules None) = [[98]%N; [97]%N] /\
  status_spec (W_of rules None) 500 = 404%N /\ status_spec (W_of rules None) 200 = 301%N /\ status_spec (W_of rules None) 0 = 0%N.
Proof.
  cbv zeta. split; [repeat (constructor; [cbn; right; lia|]); constructor|]. split; [repeat constructor; lia|]. vm_compute. auto.
Qed.

Print Assumptions C05_status.
Print Assumptions C05_headers.
Print Assumptions C05_body_filters.
Print Assumptions C05_log.
Print Assumptions C05_applied_attributable.
Print Assumptions C05_reset_discards_lower.
Print Assumptions C05_stop_blocks_higher.
Print Assumptions C05_sampling.
Print Assumptions C05_processing_order.
