(* RxEngine — the two engine premises of C01 / C02 / C08 / C11 / C12 / C17, for the EXECUTABLE engine of RIO.Rx
   (recursive-descent parser + backtracking matcher; the engine the correspondence runs execute).
   Statements only; proofs in RIO.RxMatch (matcher vs relational semantics), RIO.RxParse (parser: fuel,
   extension), RIO.RxToks (parser over rendered tokens), RIO.RxGi (group counter independence),
   RIO.RxLaws (the laws), RIO.RxTreeInst (tree instance), RIO.Rx{TreeC,PathProofs,MatchersProofs,HostProofs,
   RouterProofs} (mechanical copies of the router proofs for the strengthened shapes).

   RESULT.  Both premises hold for the executable engine, with NO side condition: [rx_dotstar] and [rx_prefix_law]
   (RIO.RxFull, RIO.RxAgree: in a valid rule regex every prefix.rs token parses in isolation — scanner / parser
   agreement through groups, escapes, quantifiers and character classes — hence the prefix law), on the scanner of
   prefix.rs as repaired in 4f24679 and on RIO.Rx made faithful to the regex crate on two points where it was more
   permissive (names of \p{..} escapes; the set operators -- && ~~ inside classes are rejected instead of being read as
   range material).  The corollaries C08_find_rx_full, C08_find_r_rx_full, C12_tree_cache_transparent_rx_full,
   C01_exact_rx_full, C02_refines_rx_full, C11_insertion_order_rx_full, C17_routes_rx_full restate the main theorems for
   this engine with their ORIGINAL hypotheses and no engine premise.
   HISTORY, kept because it is how a genuine defect of the crate was found: the first attempt to prove the law was
   REFUTED by the kernel, twice with witnesses that were real (a parenthesis inside a bracket class; an open bracket
   ending a class range): prefix.rs cut node prefixes inside character classes and rules were silently missed (fix
   4f24679, corpus/C08/witness_paren_in_class.json, witness_range_end_bracket.json; [fixed_cut_in_class],
   [range_end_bracket_fixed], [rx_old_witnesses_gone]); twice with witnesses that were artefacts of the model's parser
   ([rx_artefact_witnesses_gone]).  The partial law under the executable side condition "every token parses"
   ([rx_prefix_law_partial], [rx_prefix_law_tokens]), the grammar theorem ([grammar_prefix_law]) and the _rx corollaries
   over [shape_x] predate the full law and are kept. *)
Require Import RIO.Base RIO.Prefix RIO.Route RIO.Layer RIO.Tree RIO.TreeProofs RIO.TreeInst RIO.TreeReplace RIO.Matchers RIO.MatcherSpec
               RIO.RouterSpec RIO.RouterHist.
Require Import RIO.Rx RIO.RxMatch RIO.RxParse RIO.RxToks RIO.RxGi RIO.RxLaws RIO.RxTreeInst RIO.RxGrammar RIO.RxBounded RIO.RxTrunc RIO.RxAgree RIO.RxFull.
Require RIO.LayerProofs RIO.PathProofs RIO.MatchersProofs RIO.HostProofs RIO.RouterProofs RIO.RxPathProofs RIO.RxMatchersProofs RIO.RxHostProofs RIO.RxRouterProofs.
Close Scope N_scope.

(* ================================================================== T1 *)
Theorem rx_dotstar : engine_dotstar rx_is_match.
Proof. exact rx_engine_dotstar. Qed.

(* ================================================================== T2 *)
(* full strength: PROVED (RIO.RxFull), on the faithful Rx.v (property names and set operators as the regex crate) and the
   final scanner of prefix.rs (4f24679) *)
Theorem rx_prefix_law : engine_prefix_law rx_is_match.
Proof. exact rx_engine_prefix_law. Qed.
(* its heart: in a valid rule regex every prefix.rs token parses in isolation (scanner / parser agreement) *)
Theorem rx_valid_tokens : forall ic ts, toks_ok ts -> rx_valid ic (leaf_regex (render ts)) = true -> forallb tok_parses ts = true.
Proof. intros ic ts H1 H2. apply toks_parse_forallb_iff. exact (rx_valid_tokens_parse ic ts H1 H2). Qed.
(* the witnesses of the earlier rounds are no longer valid regexes for the model (as for the regex crate) *)
Theorem rx_artefact_witnesses_gone :
  rx_valid false (leaf_regex (render [TGrp [92; 80; 123]%N; TLit 120%N; TGrp [125]%N])) = false
  /\ rx_valid false (leaf_regex (render [TLit 120%N; TGrp [91;40;45;45;45;45;91;93;41;124;40;93;93]%N])) = false.
Proof. split; vm_compute; reflexivity. Qed.

(* the range-end bracket defect of the previous round (9944bb4 took the second bracket of [!-[] for a nested class) is
   gone with the class_range state of 4f24679: the two valid regexes (x[!-[](]])y) and (x[!-[](]])z) are now ONE group
   each for the scanner as for the parser, they share no token, and both are found *)
Example range_end_bracket_fixed :
  let q1 := [40;120;91;33;45;91;93;40;93;93;41;121;41]%N in
  let q2 := [40;120;91;33;45;91;93;40;93;93;41;122;41]%N in
  let ops := [OInsert N q1 [1]%N 1%N; OInsert N q2 [2]%N 2%N] in
  q1 = render [TGrp [120;91;33;45;91;93;40;93;93;41;121]%N] /\ tok_ok (TGrp [120;91;33;45;91;93;40;93;93;41;121]%N) = true
  /\ tok_parses (TGrp [120;91;33;45;91;93;40;93;93;41;121]%N) = true
  /\ common_prefix q1 q2 = []
  /\ find N rx_is_match (tree_of N cp_c take_c clen_c rx_valid false ops) [120;33;93;93;121]%N = [1%N]
  /\ find N rx_is_match (tree_of N cp_c take_c clen_c rx_valid false ops) [120;33;93;93;122]%N = [2%N].
Proof. cbv zeta. repeat split; vm_compute; reflexivity. Qed.
(* and x(a[!-[])|(]]) is no longer a token list (the bar is now at top level for the scanner too) *)
Example range_end_bracket_not_a_shape :
  forallb tok_ok [TLit 120%N; TGrp [97; 91; 33; 45; 91; 93; 41; 124; 40; 93; 93]%N] = false
  /\ tok_ok (TGrp [97; 91; 33; 45; 91; 93]%N) = true /\ tok_parses (TGrp [97; 91; 33; 45; 91; 93]%N) = true.
Proof. repeat split; vm_compute; reflexivity. Qed.

(* the witnesses of the first round (parentheses inside bracket classes) are no longer token lists: the repaired
   scanner sees one group, which parses in isolation *)
Theorem rx_old_witnesses_gone :
  forallb tok_ok [TGrp [97; 91]%N; TLit 98%N; TGrp [93; 99]%N] = false
  /\ forallb tok_ok [TLit 97%N; TGrp [91; 40; 93; 41; 124; 120; 40; 91; 41; 93]%N] = false
  /\ tok_ok (TGrp [97; 91; 41; 98; 40; 93; 99]%N) = true /\ tok_parses (TGrp [97; 91; 41; 98; 40; 93; 99]%N) = true.
Proof. repeat split; vm_compute; reflexivity. Qed.

(* partial: the law for patterns whose tokens parse in isolation.
   FULL STATEMENT (false): forall ic p q s, tpre_c p q -> ML rx_is_match ic q s = true -> MN rx_is_match ic p s = true *)
Theorem rx_prefix_law_partial :
  forall ic p q s, tpre_x p q -> ML rx_is_match ic q s = true -> MN rx_is_match ic p s = true.
Proof. exact rx_engine_prefix_law_partial. Qed.

(* the same on tokens, with the per-token executable side condition; [toks_ok] is not even needed *)
Theorem rx_prefix_law_tokens : forall ic ts k s, forallb tok_parses ts = true ->
  ML rx_is_match ic (render ts) s = true -> MN rx_is_match ic (render (firstn k ts)) s = true.
Proof. intros ic ts k s H. apply rx_prefix_law_toks. apply toks_parse_forallb. exact H. Qed.

(* the side condition, unfolded: [shape_x] = shape of prefix.rs + every token parses in isolation *)
Theorem shape_x_iff : forall p, shape_x p <-> exists ts, toks_ok ts /\ forallb tok_parses ts = true /\ render ts = p.
Proof.
  intros p. split.
  - intros (ts & [H1 H2] & H3). exists ts. split; [exact H1|]. split; [apply toks_parse_forallb_iff; exact H2|exact H3].
  - intros (ts & H1 & H2 & H3). exists ts. split; [split; [exact H1|apply toks_parse_forallb; exact H2]|exact H3].
Qed.
Theorem tpre_x_iff : forall p q, tpre_x p q <->
  exists ts k, toks_ok ts /\ forallb tok_parses ts = true /\ render ts = q /\ render (firstn k ts) = p.
Proof.
  intros p q. split.
  - intros (ts & k & [H1 H2] & H3 & H4). exists ts, k. split; [exact H1|]. split; [apply toks_parse_forallb_iff; exact H2|]. split; assumption.
  - intros (ts & k & H1 & H2 & H3 & H4). exists ts, k. split; [split; [exact H1|apply toks_parse_forallb; exact H2]|]. split; assumption.
Qed.

(* where the law can fail: ^q$ is a valid regex and some token does not parse in isolation *)
Theorem rx_prefix_law_failure_class : forall ic ts k s, toks_ok ts ->
  ML rx_is_match ic (render ts) s = true -> MN rx_is_match ic (render (firstn k ts)) s = false ->
  forallb tok_parses ts = false /\ rx_valid ic (leaf_regex (render ts)) = true.
Proof.
  intros ic ts k s Hok Hm Hn. destruct (prefix_law_failure_class ic ts k s Hok Hm Hn) as [H1 H2]. split; [|exact H2].
  destruct (forallb tok_parses ts) eqn:E; [|reflexivity]. rewrite (toks_parse_forallb ts E) in H1. discriminate.
Qed.

(* the ingredients, for the record *)
Theorem rx_matcher_sound : forall A ic r pos rest cs (k : cont A), m A ic r pos rest cs k <> None ->
  exists c' cs', reach ic r (pos, rest) c' /\ k (fst c') (snd c') cs' <> None.
Proof. exact m_sound. Qed.
Theorem rx_matcher_complete : forall A ic r c c' cs (k : cont A), reach ic r c c' ->
  (forall cs', k (fst c') (snd c') cs' <> None) -> m A ic r (fst c) (snd c) cs k <> None.
Proof. exact m_complete. Qed.
Theorem rx_parse_leaf : forall ts l g, toks_atoms 1 ts = Some (l, g) ->
  parse (ch_caret :: render ts ++ [ch_dollar]) = Some (RCat (fold_left RCat l RBol) REol).
Proof. exact parse_leaf. Qed.
Theorem rx_parse_node : forall ts l g k, toks_atoms 1 ts = Some (l, g) ->
  parse (ch_caret :: render (firstn k ts)) = Some (fold_left RCat (firstn k l) RBol).
Proof. intros ts l g k H. destruct (toks_atoms_firstn k _ _ _ _ H) as [g' H']. exact (parse_node _ _ _ H'). Qed.

(* ================================================================== T3: the premises discharged *)
(* ---- C08 (tree).  Original: forall eng valid, engine_dotstar eng -> engine_prefix_law eng -> ... hist_ok V shape_c [] ops -> ...
        Here: eng := rx_is_match, valid := rx_valid, no engine premise, [hist_ok V shape_x [] ops] (every inserted
        pattern has the strengthened shape). *)
Theorem C08_find_rx : forall (V : Type) ic (ops : list (op V)) s, TreeProofs.hist_ok V shape_x [] ops ->
  Permutation (find V rx_is_match (tree_of V cp_c take_c clen_c rx_valid ic ops) s)
              (map (value_of V) (filter (fun e => ML rx_is_match ic (fst e) s) (TreeProofs.live V ops))).
Proof. intros V. exact (hist_find_rx V rx_valid). Qed.

Theorem C08_find_r_rx : forall (V : Type) ic (ops : list (op V)) s, hist_ok_r V shape_x [] ops ->
  Permutation (find V rx_is_match (tree_of V cp_c take_c clen_c rx_valid ic ops) s)
              (map (value_of V) (filter (fun e => ML rx_is_match ic (fst e) s) (live_r V ops))).
Proof. intros V. exact (hist_find_r_rx V rx_valid). Qed.

Theorem C08_insert_replaces_rx : forall (V : Type) ic (ops : list (op V)) p k v v0 s,
  hist_ok_r V shape_x [] ops -> In (p, (k, v0)) (live_r V ops) ->
  let t := tree_of V cp_c take_c clen_c rx_valid ic ops in
  let t' := insert V cp_c take_c clen_c t p k v in
  let L' := replace_entry V p k v (live_r V ops) in
  Permutation (entries V t') L'
  /\ len V t' = len V t
  /\ Permutation (find V rx_is_match t' s) (map (value_of V) (filter (fun e => ML rx_is_match ic (fst e) s) L'))
  /\ Permutation (get V t' p) (map (value_of V) (filter (fun e => pat_eqb (fst e) p) L'))
  /\ In v (get V t' p)
  /\ (forall e, In e (entries V t') -> id_of V e = k -> e = (p, (k, v))).
Proof. intros V. exact (hist_insert_replaces_rx V rx_valid). Qed.

(* C12 (tree level) *)
Theorem C12_tree_cache_transparent_rx : forall (V : Type) ic (ops : list (op V)) limit level s,
  TreeProofs.hist_ok V shape_x [] ops ->
  let t := tree_of V cp_c take_c clen_c rx_valid ic ops in
  let t' := fst (tree_cache V rx_valid t limit level) in
  find V rx_is_match t' s = find V rx_is_match t s /\ (forall re, get V t' re = get V t re)
  /\ len V t' = len V t /\ entries V t' = entries V t.
Proof.
  intros V. exact (hist_cache_transparent V cp_c take_c clen_c rx_is_match rx_valid shape_x tpre_x tpre_trans_x cut_l_x cut_r_x
                     cut_l'_x cut_r'_x tpre_shape_l_x cp_pre_x rx_engine_dotstar rx_engine_prefix_law_partial).
Qed.

(* ---- C01 (router).  Original: forall lower eng valid ..., engine_dotstar eng -> engine_prefix_law eng ->
        forall rs q, Forall (RouterProofs.ok_route lower) rs -> NoDup (ids rs) -> ...
        Here: no engine premise; [RxRouterProofs.ok_route] is RouterProofs.ok_route with shape_c replaced by shape_x
        in its two clauses on dynamic path / host patterns (see C01_ok_route_rx). *)
Theorem C01_exact_rx : forall lower ic_host ic_path always (rs : list route) (q : request),
  Forall (RxRouterProofs.ok_route lower) rs -> NoDup (ids rs) ->
  Permutation (router_match lower rx_is_match rx_valid ic_host ic_path always q
                 (rbuild lower rx_is_match rx_valid ic_host ic_path always rs))
              (spec_match lower (rx_is_match false) (RouterProofs.hmatch rx_is_match ic_host)
                          (RouterProofs.pmatch rx_is_match ic_path) always rs q).
Proof.
  intros lower ih ip al.
  exact (RxRouterProofs.build_match lower rx_is_match rx_valid ih ip al rx_engine_dotstar rx_engine_prefix_law_x).
Qed.

Theorem C01_ok_route_rx : forall lower (r : route),
  match rt_path r with SDynamic re => shape_x re /\ re <> [] | SStatic _ => True end ->
  match rt_host r with Some (SDynamic re) => shape_x re /\ re <> [] | _ => True end ->
  NoDup (match rt_ips r with Some ips => ips | None => [] end) ->
  NoDup (match rt_methods r with Some ms => ms | None => [] end) ->
  RxRouterProofs.ok_route lower r.
Proof. intros lower r H1 H2 H3 H4. apply (RxRouterProofs.ok_route_intro lower (fun _ _ => true) true); assumption. Qed.

(* the strengthened admissibility implies the original one (so the original theorems' other conclusions still apply) *)
Theorem C01_ok_route_rx_strengthens : forall lower (r : route), RxRouterProofs.ok_route lower r -> RouterProofs.ok_route lower r.
Proof.
  intros lower r.
  unfold RxRouterProofs.ok_route, RouterProofs.ok_route, RxHostProofs.ok_host, HostProofs.ok_host,
         RxMatchersProofs.ok_below, MatchersProofs.ok_below, LayerProofs.ok, RxPathProofs.ok_path, PathProofs.ok_path.
  intros H. decompose [and] H. clear H. repeat split; try assumption.
  - destruct (rt_path r) as [p|re]; [exact I|]. match goal with Hx : shape_x re /\ _ |- _ => destruct Hx as [Hs Hn] end.
    split; [apply shape_x_c; exact Hs|exact Hn].
  - destruct (rt_host r) as [[h|re]|]; try exact I. match goal with Hx : shape_x re /\ _ |- _ => destruct Hx as [Hs Hn] end.
    split; [apply shape_x_c; exact Hs|exact Hn].
Qed.

(* C02: any admissible history refines the flat list of live routes *)
Theorem C02_refines_rx : forall lower ic_host ic_path always (ops : list rop) (q : request),
  RxRouterProofs.hist_ok lower [] ops ->
  Permutation (router_match lower rx_is_match rx_valid ic_host ic_path always q
                 (rrun lower rx_is_match rx_valid ic_host ic_path always ops (router_new lower rx_is_match rx_valid ic_host ic_path always)))
              (spec_match lower (rx_is_match false) (RouterProofs.hmatch rx_is_match ic_host)
                          (RouterProofs.pmatch rx_is_match ic_path) always (RouterHist.live ops) q).
Proof.
  intros lower ih ip al.
  exact (RxRouterProofs.hist_match lower rx_is_match rx_valid ih ip al rx_engine_dotstar rx_engine_prefix_law_x).
Qed.

(* C11: insertion order is irrelevant *)
Theorem C11_insertion_order_rx : forall lower ic_host ic_path always (rs rs' : list route) (q : request),
  Forall (RxRouterProofs.ok_route lower) rs -> NoDup (ids rs) -> Permutation rs rs' ->
  Permutation (router_match lower rx_is_match rx_valid ic_host ic_path always q (rbuild lower rx_is_match rx_valid ic_host ic_path always rs))
              (router_match lower rx_is_match rx_valid ic_host ic_path always q (rbuild lower rx_is_match rx_valid ic_host ic_path always rs')).
Proof.
  intros lower ih ip al.
  exact (RxRouterProofs.build_match_any_order lower rx_is_match rx_valid ih ip al rx_engine_dotstar rx_engine_prefix_law_x).
Qed.

(* C17: the explain trace lists exactly the matched routes *)
Theorem C17_routes_rx : forall lower ic_host ic_path always ops q r, RxRouterProofs.hist_ok lower [] ops ->
  let R := rrun lower rx_is_match rx_valid ic_host ic_path always ops (router_new lower rx_is_match rx_valid ic_host ic_path always) in
  (In r (traces_routes (router_trace lower rx_is_match rx_valid ic_host ic_path always q R))
   <-> In r (router_match lower rx_is_match rx_valid ic_host ic_path always q R)).
Proof.
  intros lower ih ip al ops q r Hok R.
  apply (RxRouterProofs.rtrace_spec lower rx_is_match rx_valid ih ip al rx_engine_dotstar rx_engine_prefix_law_x R (RouterHist.live ops) q r).
  apply (RxRouterProofs.rrun_refines lower rx_is_match rx_valid ih ip al rx_engine_dotstar rx_engine_prefix_law_x ops _ []);
    [apply RxRouterProofs.rrepr_new|exact Hok].
Qed.

(* ================================================================== T3 (final): ORIGINAL hypotheses, no engine premise *)
Theorem C08_find_rx_full : forall (V : Type) ic (ops : list (op V)) s, TreeProofs.hist_ok V shape_c [] ops ->
  Permutation (find V rx_is_match (tree_of V cp_c take_c clen_c rx_valid ic ops) s)
              (map (value_of V) (filter (fun e => ML rx_is_match ic (fst e) s) (TreeProofs.live V ops))).
Proof.
  intros V. exact (hist_find V cp_c take_c clen_c rx_is_match rx_valid shape_c tpre_c tpre_trans_c cut_l_c cut_r_c cut_l'_c cut_r'_c
                     tpre_shape_l_c cp_pre_c rx_engine_dotstar rx_engine_prefix_law).
Qed.
Theorem C08_find_r_rx_full : forall (V : Type) ic (ops : list (op V)) s, hist_ok_r V shape_c [] ops ->
  Permutation (find V rx_is_match (tree_of V cp_c take_c clen_c rx_valid ic ops) s)
              (map (value_of V) (filter (fun e => ML rx_is_match ic (fst e) s) (live_r V ops))).
Proof. intros V. exact (hist_find_r_c V rx_valid rx_is_match rx_engine_dotstar rx_engine_prefix_law). Qed.
Theorem C12_tree_cache_transparent_rx_full : forall (V : Type) ic (ops : list (op V)) limit level s,
  TreeProofs.hist_ok V shape_c [] ops ->
  let t := tree_of V cp_c take_c clen_c rx_valid ic ops in
  let t' := fst (tree_cache V rx_valid t limit level) in
  find V rx_is_match t' s = find V rx_is_match t s /\ (forall re, get V t' re = get V t re)
  /\ len V t' = len V t /\ entries V t' = entries V t.
Proof.
  intros V. exact (hist_cache_transparent V cp_c take_c clen_c rx_is_match rx_valid shape_c tpre_c tpre_trans_c cut_l_c cut_r_c
                     cut_l'_c cut_r'_c tpre_shape_l_c cp_pre_c rx_engine_dotstar rx_engine_prefix_law).
Qed.
Theorem C01_exact_rx_full : forall lower ic_host ic_path always (rs : list route) (q : request),
  Forall (RouterProofs.ok_route lower) rs -> NoDup (ids rs) ->
  Permutation (router_match lower rx_is_match rx_valid ic_host ic_path always q
                 (rbuild lower rx_is_match rx_valid ic_host ic_path always rs))
              (spec_match lower (rx_is_match false) (RouterProofs.hmatch rx_is_match ic_host)
                          (RouterProofs.pmatch rx_is_match ic_path) always rs q).
Proof.
  intros lower ih ip al.
  exact (RouterProofs.build_match lower rx_is_match rx_valid ih ip al rx_engine_dotstar rx_engine_prefix_law).
Qed.
Theorem C02_refines_rx_full : forall lower ic_host ic_path always (ops : list rop) (q : request),
  RouterProofs.hist_ok lower [] ops ->
  Permutation (router_match lower rx_is_match rx_valid ic_host ic_path always q
                 (rrun lower rx_is_match rx_valid ic_host ic_path always ops (router_new lower rx_is_match rx_valid ic_host ic_path always)))
              (spec_match lower (rx_is_match false) (RouterProofs.hmatch rx_is_match ic_host)
                          (RouterProofs.pmatch rx_is_match ic_path) always (RouterHist.live ops) q).
Proof.
  intros lower ih ip al.
  exact (RouterProofs.hist_match lower rx_is_match rx_valid ih ip al rx_engine_dotstar rx_engine_prefix_law).
Qed.
Theorem C11_insertion_order_rx_full : forall lower ic_host ic_path always (rs rs' : list route) (q : request),
  Forall (RouterProofs.ok_route lower) rs -> NoDup (ids rs) -> Permutation rs rs' ->
  Permutation (router_match lower rx_is_match rx_valid ic_host ic_path always q (rbuild lower rx_is_match rx_valid ic_host ic_path always rs))
              (router_match lower rx_is_match rx_valid ic_host ic_path always q (rbuild lower rx_is_match rx_valid ic_host ic_path always rs')).
Proof.
  intros lower ih ip al.
  exact (RouterProofs.build_match_any_order lower rx_is_match rx_valid ih ip al rx_engine_dotstar rx_engine_prefix_law).
Qed.
Theorem C17_routes_rx_full : forall lower ic_host ic_path always ops q r, RouterProofs.hist_ok lower [] ops ->
  let R := rrun lower rx_is_match rx_valid ic_host ic_path always ops (router_new lower rx_is_match rx_valid ic_host ic_path always) in
  (In r (traces_routes (router_trace lower rx_is_match rx_valid ic_host ic_path always q R))
   <-> In r (router_match lower rx_is_match rx_valid ic_host ic_path always q R)).
Proof.
  intros lower ih ip al ops q r Hok R.
  apply (RouterProofs.rtrace_spec lower rx_is_match rx_valid ih ip al rx_engine_dotstar rx_engine_prefix_law R (RouterHist.live ops) q r).
  apply (RouterProofs.rrun_refines lower rx_is_match rx_valid ih ip al rx_engine_dotstar rx_engine_prefix_law ops _ []);
    [apply RouterProofs.rrepr_new|exact Hok].
Qed.

(* ================================================================== T4: non-vacuity *)
(* the marker vocabulary of the rule generator, as group bodies *)
Definition mk_digits : list N := [91;48;45;57;93;43]%N.                           (* [0-9]+ *)
Definition mk_lower : list N := [91;97;45;122;93;43]%N.                           (* [a-z]+ *)
Definition mk_any1 : list N := [46;43]%N.                                         (* .+ *)
Definition mk_any0 : list N := [46;42]%N.                                         (* .* *)
Definition mk_alt : list N := [40;63;58;97;124;98;41]%N.                          (* (?:a|b) *)
Definition mk_noslash : list N := [91;94;47;93;43]%N.                             (* [^/]+ *)
Definition mk_date : list N := [92;100;123;52;125;45;92;100;123;50;125]%N.        (* \d{4}-\d{2} *)
Definition mk_nested : list N := [40;63;58;40;63;58;120;124;121;41;122;41;42]%N.  (* (?:(?:x|y)z)* *)
Definition mk_escparen : list N := [92;40;92;100;43;92;41]%N.                     (* \(\d+\) *)
Definition mk_capnest : list N := [40;97;40;98;41;41;63;99]%N.                    (* (a(b))?c *)

Example marker_vocabulary_parses :
  forallb tok_parses (map TGrp [mk_digits; mk_lower; mk_any1; mk_any0; mk_alt; mk_noslash; mk_date; mk_nested; mk_escparen; mk_capnest]) = true
  /\ forallb tok_ok (map TGrp [mk_digits; mk_lower; mk_any1; mk_any0; mk_alt; mk_noslash; mk_date; mk_nested; mk_escparen; mk_capnest]) = true.
Proof. split; vm_compute; reflexivity. Qed.

(* slash, a, group mk_digits, an escaped open parenthesis, group mk_nested, group mk_escparen: literals (one of
   them an escaped parenthesis), a class group, a group holding nested non-capturing groups, a group holding
   escaped parentheses; the rendering is spelled out in ex_render *)
Definition ex_ts : list tok := [TLit 47%N; TLit 97%N; TGrp mk_digits; TLit 40%N; TGrp mk_nested; TGrp mk_escparen].
Definition ex_s : list N := [47;97;49;50;40;120;122;121;122;40;55;41]%N.            (* /a12(xzyz(7) *)
Example ex_side_condition : toks_ok ex_ts /\ forallb tok_parses ex_ts = true /\ shape_x (render ex_ts).
Proof.
  assert (H1 : toks_ok ex_ts) by reflexivity. assert (H2 : forallb tok_parses ex_ts = true) by (vm_compute; reflexivity).
  split; [exact H1|]. split; [exact H2|]. apply shape_x_iff. exists ex_ts. auto.
Qed.
Example ex_render : render ex_ts = [47;97;40;91;48;45;57;93;43;41;92;40;40;40;63;58;40;63;58;120;124;121;41;122;41;42;41;40;92;40;92;100;43;92;41;41]%N.
Proof. vm_compute. reflexivity. Qed.
Example ex_leaf_matches : ML rx_is_match false (render ex_ts) ex_s = true /\ ML rx_is_match false (render ex_ts) (ex_s ++ [47]%N) = false.
Proof. split; vm_compute; reflexivity. Qed.
(* the law, instantiated: every token prefix matches; and by computation *)
Example ex_law : forall k, MN rx_is_match false (render (firstn k ex_ts)) ex_s = true.
Proof. intros k. apply rx_prefix_law_tokens; [vm_compute; reflexivity|exact (proj1 ex_leaf_matches)]. Qed.
Example ex_law_computed :
  map (fun k => MN rx_is_match false (render (firstn k ex_ts)) ex_s) [0;1;2;3;4;5;6] = [true;true;true;true;true;true;true]
  /\ MN rx_is_match false (render (firstn 3 ex_ts)) [47;97;120]%N = false.
Proof. split; vm_compute; reflexivity. Qed.

(* a tree history over strengthened shapes, and C08_find_rx applied to it *)
Definition ex_p1 : list tok := [TLit 47%N; TLit 97%N; TGrp mk_digits].
Definition ex_p2 : list tok := [TLit 47%N; TLit 97%N; TGrp mk_digits; TLit 40%N; TGrp mk_nested].
Definition ex_ops : list (op N) :=
  [OInsert N (render ex_p1) [1]%N 1%N; OInsert N (render ex_p2) [2]%N 2%N; OInsert N (render ex_ts) [3]%N 3%N;
   ORemove N [1]%N; OCache N 2%N None; OInsert N (render ex_p1) [1]%N 4%N].
Example ex_hist_ok : TreeProofs.hist_ok N shape_x [] ex_ops.
Proof.
  assert (H1 : shape_x (render ex_p1)) by (apply shape_x_iff; exists ex_p1; repeat split; vm_compute; reflexivity).
  assert (H2 : shape_x (render ex_p2)) by (apply shape_x_iff; exists ex_p2; repeat split; vm_compute; reflexivity).
  assert (H3 : shape_x (render ex_ts)) by (exact (proj2 (proj2 ex_side_condition))).
  simpl. repeat split; auto; try discriminate; simpl; intuition discriminate.
Qed.
Example ex_find :
  Permutation (find N rx_is_match (tree_of N cp_c take_c clen_c rx_valid false ex_ops) ex_s) [3%N]
  /\ find N rx_is_match (tree_of N cp_c take_c clen_c rx_valid false ex_ops) ex_s = [3%N]
  /\ find N rx_is_match (tree_of N cp_c take_c clen_c rx_valid false ex_ops) [47;97;55]%N = [4%N].
Proof.
  split; [|split; vm_compute; reflexivity].
  eapply Permutation_trans; [apply (C08_find_rx N false ex_ops ex_s ex_hist_ok)|]. vm_compute. apply Permutation_refl.
Qed.

(* ================================================================== the repaired cut rule (9944bb4), in the model *)
(* /(?:[^)]+)/x  and  /(?:[^)]+)/y : the common prefix is the rendering of the first three tokens; before the
   repair the scanner closed the group at the parenthesis inside the class and cut after the slash only *)
Definition fx_x : list tok := [TLit 47%N; TGrp [63;58;91;94;41;93;43]%N; TLit 47%N; TLit 120%N].
Definition fx_y : list tok := [TLit 47%N; TGrp [63;58;91;94;41;93;43]%N; TLit 47%N; TLit 121%N].
Example fixed_cut_in_class :
  toks_ok fx_x /\ toks_ok fx_y /\ forallb tok_parses fx_x = true
  /\ cp_c (render fx_x) (render fx_y) = length (render (firstn 3 fx_x))
  /\ common_prefix (render fx_x) (render fx_y) = render (firstn 3 fx_x)
  /\ render (firstn 3 fx_x) = [47;40;63;58;91;94;41;93;43;41;47]%N.
Proof. repeat split; vm_compute; reflexivity. Qed.
(* and the two rules are both found through the shared node *)
Example fixed_cut_in_class_find :
  let ops := [OInsert N (render fx_x) [1]%N 1%N; OInsert N (render fx_y) [2]%N 2%N] in
  find N rx_is_match (tree_of N cp_c take_c clen_c rx_valid false ops) [47;97;98;47;120]%N = [1%N]
  /\ find N rx_is_match (tree_of N cp_c take_c clen_c rx_valid false ops) [47;97;98;47;121]%N = [2%N].
Proof. split; vm_compute; reflexivity. Qed.

(* ================================================================== regression evidence and proof ingredients *)
(* bounded exhaustive checks of the agreement (kept from the rounds where it was a conjecture) *)
Theorem bounded_agreement : search [40;41;91;93;45;94;92;97;124]%N 6 [] = None
  /\ search [40;41;91;93;45;94;92;97;124;33;100;63;58]%N 5 [] = None
  /\ search_class [91;93;45;94;92;97;40;33]%N 6 [] = None.
Proof. split; [exact bounded_agreement_6|split; [exact bounded_agreement_5_wide|exact bounded_class_agreement_6]]. Qed.

(* First half of a proof, Qed-closed (RIO.RxTrunc): the parser reads exactly what it consumes plus one character.
   A successful parse leaves a suffix, and what follows the consumed part can be replaced by anything with the same
   first character ... *)
Theorem rx_parser_context_replacement : forall F s gi r rest gi', parse_alt F s gi = Some (r, rest, gi') ->
  exists u, s = u ++ rest /\ forall t, hd_error rest = hd_error t -> parse_alt F (u ++ t) gi = Some (r, t, gi').
Proof. intros F. exact (proj1 (parse_repl F)). Qed.
(* ... hence a group that the parser reads as one atom somewhere inside a pattern parses in isolation.  What is left
   for the conjecture is the scanner / parser agreement proper: that in a valid pattern without \p and `--` the parser
   does stop right after the closing parenthesis of every prefix.rs group. *)
Theorem rx_tok_context_isolated : forall F (b : list N) ctx gi a g,
  RxParse.atom_of (parse_alt F) (parse_class F) ch_lparen (b ++ ch_rparen :: ctx) gi = Some (a, ctx, g) ->
  tok_atom gi (TGrp b) = Some (a, g).
Proof. exact tok_context_isolated. Qed.

(* ================================================================== the side condition on a grammar *)
(* RIO.RxGrammar: group bodies generated by
     alt  ::= seq | seq '|' alt
     seq  ::= (atom quant)*
     atom ::= c (any character but ( ) [ . ^ $ \ * + ? { | )  |  \c (c a prefix.rs meta character, or d D w W s S)  |  .
            |  '[' cls ']'  |  '[^' cls ']'   (cls: the parser accepts it and it contains no ( ) \ )
            |  '(' alt ')'  (alt not starting with ?)  |  '(?:' alt ')'
     quant ::= nothing | * | + | ? | {n} | {n,} | {n,m} (n <= m), each optionally followed by ? (lazy)
   satisfy BOTH the prefix.rs balance check and the isolation check; hence rule regexes whose groups are in the
   grammar have the strengthened shape. *)
Theorem grammar_tokens_ok : forall ts, Forall gtok ts -> toks_ok ts /\ forallb tok_parses ts = true.
Proof. exact gtoks_ok. Qed.
Theorem grammar_shape_x : forall ts, Forall gtok ts -> shape_x (render ts).
Proof. intros ts H. destruct (gtoks_ok ts H) as [H1 H2]. apply shape_x_iff. exists ts. auto. Qed.
Theorem grammar_prefix_law : forall ic ts k s, Forall gtok ts ->
  ML rx_is_match ic (render ts) s = true -> MN rx_is_match ic (render (firstn k ts)) s = true.
Proof. intros ic ts k s H. apply rx_prefix_law_tokens. exact (proj2 (gtoks_ok ts H)). Qed.

(* the marker vocabulary is in the grammar *)
Ltac g_lit := apply ga_lit; reflexivity.
Ltac g_seq1 u w := apply (gs_cons u w []); [| |apply gs_nil].
Example g_digits : galt mk_digits.
Proof. apply gl_seq. g_seq1 [91;48;45;57;93]%N [43]%N; [apply (ga_class [48;45;57]%N); [reflexivity|reflexivity|discriminate|discriminate]|apply (gq_plus false)]. Qed.
Example g_lower : galt mk_lower.
Proof. apply gl_seq. g_seq1 [91;97;45;122;93]%N [43]%N; [apply (ga_class [97;45;122]%N); [reflexivity|reflexivity|discriminate|discriminate]|apply (gq_plus false)]. Qed.
Example g_any1 : galt mk_any1.
Proof. apply gl_seq. g_seq1 [46]%N [43]%N; [apply ga_dot|apply (gq_plus false)]. Qed.
Example g_any0 : galt mk_any0.
Proof. apply gl_seq. g_seq1 [46]%N [42]%N; [apply ga_dot|apply (gq_star false)]. Qed.
Example g_noslash : galt mk_noslash.
Proof. apply gl_seq. g_seq1 [91;94;47;93]%N [43]%N; [apply (ga_nclass [47]%N); [reflexivity|reflexivity|discriminate]|apply (gq_plus false)]. Qed.
Example g_ab : galt [97;124;98]%N.
Proof. apply (gl_bar [97]%N [98]%N); [g_seq1 [97]%N (@nil N); [g_lit|apply gq_none]|apply gl_seq; g_seq1 [98]%N (@nil N); [g_lit|apply gq_none]]. Qed.
Example g_alt : galt mk_alt.
Proof. apply gl_seq. g_seq1 mk_alt (@nil N); [apply (ga_ncgrp [97;124;98]%N); exact g_ab|apply gq_none]. Qed.
Example g_date : galt mk_date.
Proof.
  apply gl_seq.
  apply (gs_cons [92;100]%N [123;52;125]%N [45;92;100;123;50;125]%N); [apply ga_esc; reflexivity|apply (gq_exact [52]%N false); split; [reflexivity|discriminate]|].
  apply (gs_cons [45]%N (@nil N) [92;100;123;50;125]%N); [g_lit|apply gq_none|].
  g_seq1 [92;100]%N [123;50;125]%N; [apply ga_esc; reflexivity|apply (gq_exact [50]%N false); split; [reflexivity|discriminate]].
Qed.
Example g_nested : galt mk_nested.
Proof.
  apply gl_seq. g_seq1 [40;63;58;40;63;58;120;124;121;41;122;41]%N [42]%N; [|apply (gq_star false)].
  apply (ga_ncgrp [40;63;58;120;124;121;41;122]%N). apply gl_seq.
  apply (gs_cons [40;63;58;120;124;121;41]%N (@nil N) [122]%N); [|apply gq_none|g_seq1 [122]%N (@nil N); [g_lit|apply gq_none]].
  apply (ga_ncgrp [120;124;121]%N).
  apply (gl_bar [120]%N [121]%N); [g_seq1 [120]%N (@nil N); [g_lit|apply gq_none]|apply gl_seq; g_seq1 [121]%N (@nil N); [g_lit|apply gq_none]].
Qed.
Example g_escparen : galt mk_escparen.
Proof.
  apply gl_seq.
  apply (gs_cons [92;40]%N (@nil N) [92;100;43;92;41]%N); [apply ga_esc; reflexivity|apply gq_none|].
  apply (gs_cons [92;100]%N [43]%N [92;41]%N); [apply ga_esc; reflexivity|apply (gq_plus false)|].
  g_seq1 [92;41]%N (@nil N); [apply ga_esc; reflexivity|apply gq_none].
Qed.
Example ex_ts_in_grammar : Forall gtok ex_ts.
Proof.
  unfold ex_ts. repeat apply Forall_cons; try apply Forall_nil; cbn [gtok]; try exact I.
  - split; [exact g_digits|discriminate].
  - split; [exact g_nested|discriminate].
  - split; [exact g_escparen|discriminate].
Qed.

Print Assumptions rx_dotstar.
Print Assumptions rx_prefix_law.
Print Assumptions rx_valid_tokens.
Print Assumptions rx_artefact_witnesses_gone.
Print Assumptions range_end_bracket_fixed.
Print Assumptions range_end_bracket_not_a_shape.
Print Assumptions rx_old_witnesses_gone.
Print Assumptions rx_prefix_law_partial.
Print Assumptions rx_prefix_law_tokens.
Print Assumptions shape_x_iff.
Print Assumptions rx_prefix_law_failure_class.
Print Assumptions rx_matcher_sound.
Print Assumptions rx_matcher_complete.
Print Assumptions rx_parse_leaf.
Print Assumptions rx_parse_node.
Print Assumptions C08_find_rx.
Print Assumptions C08_find_r_rx.
Print Assumptions C08_insert_replaces_rx.
Print Assumptions C12_tree_cache_transparent_rx.
Print Assumptions C01_exact_rx.
Print Assumptions C01_ok_route_rx.
Print Assumptions C01_ok_route_rx_strengthens.
Print Assumptions C02_refines_rx.
Print Assumptions C11_insertion_order_rx.
Print Assumptions C17_routes_rx.
Print Assumptions marker_vocabulary_parses.
Print Assumptions fixed_cut_in_class.
Print Assumptions fixed_cut_in_class_find.
Print Assumptions C08_find_rx_full.
Print Assumptions C08_find_r_rx_full.
Print Assumptions C12_tree_cache_transparent_rx_full.
Print Assumptions C01_exact_rx_full.
Print Assumptions C02_refines_rx_full.
Print Assumptions C11_insertion_order_rx_full.
Print Assumptions C17_routes_rx_full.
Print Assumptions bounded_agreement.
Print Assumptions rx_parser_context_replacement.
Print Assumptions rx_tok_context_isolated.
Print Assumptions grammar_tokens_ok.
Print Assumptions grammar_shape_x.
Print Assumptions grammar_prefix_law.
Print Assumptions ex_ts_in_grammar.
Print Assumptions ex_law.
Print Assumptions ex_find.
