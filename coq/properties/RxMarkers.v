(* RxMarkers — the engine-side hypothesis of C10 (T9) for the EXECUTABLE engine rxE = (rx_is_match, rx_captures, rx_valid).
   Statements only; proofs in RIO.RxTokSem / RIO.RxTokSem2 (on top of RxMatch, RxToks, RxGi, RxAgree).

   RESULT.  [engine_tok_hyp rxE G fold ic] as stated in RIO.MarkerProofs quantifies over ALL token lists, including
   ill-formed ones (a group body with unbalanced parentheses); in that form it is FALSE for rxE, for every oracle
   and folding ([rx_engine_tok_hyp_refuted]).  Restricted to well-formed token lists ([toks_ok], the shape the marker
   templates produce) it HOLDS for the oracle G_rx and the folding fold_rx ([rx_engine_tok_hyp_ok]), and T9 follows
   with that restriction pushed onto the template ([C10_route_matches_iff_rx]). *)
Require Import Coq.Strings.String.
Require Import RIO.Base RIO.Pct RIO.Url RIO.Prefix RIO.RegexSem RIO.Marker RIO.MarkerProofs RIO.Rx RIO.C10Run.
Require Import RIO.TreeInst RIO.RxMatch RIO.RxToks RIO.RxTokSem RIO.RxTokSem2 RIO.RxTokSem3.
Close Scope N_scope.

(* ---- the oracle and the folding ---- *)
(* char_eq (what the matcher of RIO.Rx decides on literals) IS equality up to fold_rx: no ASCII restriction needed *)
Theorem rx_char_eq_is_fold : forall ic a b, char_eq ic a b = ceq fold_rx ic a b.
Proof. exact char_eq_fold. Qed.
(* G_rx ic body whole pos k: the group ( body ) parses in isolation and its AST reaches from pos to pos + k *)
Theorem G_rx_spec : forall ic body whole pos k a g, tok_atom 1 (TGrp body) = Some (a, g) ->
  (G_rx ic body whole pos k = true <-> reach ic a (pos, skipn pos whole) (pos + k, skipn k (skipn pos whole))).
Proof. intros ic body whole pos k a g H. unfold G_rx. rewrite H. apply reaches_to_iff. Qed.

(* ---- compositionality (the premises of TreeInst.compositional_engine_prefix_law, for every well-formed ts) ---- *)
Theorem rx_full_match : forall ic ts s, toks_ok ts ->
  rx_is_match ic (Tree.leaf_regex (render ts)) s = full_match G_rx fold_rx ic ts s.
Proof. exact rx_full_match_tokens. Qed.
Theorem rx_prefix_match : forall ic ts s, toks_ok ts ->
  rx_is_match ic (Tree.c_caret :: render ts) s = prefix_match G_rx fold_rx ic ts s.
Proof. exact rx_prefix_match_tokens. Qed.

(* ---- engine_tok_hyp ---- *)
(* as stated (all token lists): false for rxE whatever the oracle and the folding.  toks = a ( b)|(c ) renders to
   a(b)|(c), an alternation at top level for any regex engine: it matches zzc, which no token semantics starting
   with the literal a can (and if the folding identifies a and z, the pattern a wrongly matches z). *)
Theorem rx_engine_tok_hyp_refuted : forall G fold ic, ~ engine_tok_hyp rxE G fold ic.
Proof.
  intros G fold ic H. destruct (ceq fold ic 97%N 122%N) eqn:E.
  - specialize (H [TLit 97%N] [122%N]). unfold full_match in H. cbn [mt] in H. rewrite E in H. cbn [andb] in H.
    assert (L : eng_is_match rxE ic (leaf_regex (render [TLit 97%N])) [122%N] = false) by (destruct ic; vm_compute; reflexivity).
    rewrite L in H. discriminate.
  - specialize (H [TLit 97%N; TGrp [98; 41; 124; 40; 99]%N] [122; 122; 99]%N). unfold full_match in H. cbn [mt] in H. rewrite E in H. cbn [andb] in H.
    assert (L : eng_is_match rxE ic (leaf_regex (render [TLit 97%N; TGrp [98; 41; 124; 40; 99]%N])) [122; 122; 99]%N = true) by (destruct ic; vm_compute; reflexivity).
    rewrite L in H. discriminate.
Qed.

(* restricted to well-formed token lists: holds *)
Definition engine_tok_hyp_ok (E : engine) G fold (ic : bool) : Prop :=
  forall toks s, toks_ok toks -> eng_is_match E ic (leaf_regex (render toks)) s = full_match G fold ic toks s.
Theorem rx_engine_tok_hyp_ok : forall ic, engine_tok_hyp_ok rxE G_rx fold_rx ic.
Proof. intros ic toks s Hok. exact (rx_full_match_tokens ic toks s Hok). Qed.

(* ---- T9 for rxE: the engine hypothesis is gone; the template must produce well-formed tokens (marker regexes with
        balanced parentheses: an executable check) ---- *)
Theorem C10_route_matches_iff_rx : forall (markers : list (str * str)) (sepb : N -> bool) (val : str -> str) (ic : bool) (ps : list piece) (n : str),
  G_sep_free_hyp G_rx sepb -> fold_sep_hyp fold_rx sepb ic ->
  forallb tok_ok (map (expected_tok markers) ps) = true ->
  NoDup (map fst markers) -> template_ok markers ps = true -> In (PRef n) ps ->
  all_ascii (render (map (expected_tok markers) ps)) = true -> all_ascii (instantiate val ps) = true ->
  (forall k, sep_free sepb (val k) = true) -> sep_delimited sepb ps = true ->
  sod_matches rxE ic (new_with_markers (template_text ps) markers ic) (instantiate val ps)
  = groups_accept G_rx markers val ic (instantiate val ps) ps 0.
Proof.
  intros markers sepb val ic ps n HG Hf Htok Hnd Hok Hin Ha1 Ha2 Hv Hd. destruct (template_shape_some markers ps ic n Hnd Hok Hin) as [m Hm].
  pose proof (template_shape markers ps ic m Hnd Hok Hm) as Hr. unfold new_with_markers.
  destruct markers as [|mk markers]; [cbn in Hm; unfold marker_string_new in Hm; cbn in Hm; discriminate|]. cbn [is_nil]. rewrite Hm.
  cbn [sod_matches]. rewrite Hr. rewrite !utf8_decode_ascii by assumption.
  rewrite (rx_engine_tok_hyp_ok ic _ _ Htok). apply (match_iff G_rx fold_rx _ sepb); assumption.
Qed.
(* the "if" half needs no separator hypothesis *)
Theorem C10_route_matches_if_rx : forall (markers : list (str * str)) (val : str -> str) (ic : bool) (ps : list piece) (n : str),
  forallb tok_ok (map (expected_tok markers) ps) = true ->
  NoDup (map fst markers) -> template_ok markers ps = true -> In (PRef n) ps ->
  all_ascii (render (map (expected_tok markers) ps)) = true -> all_ascii (instantiate val ps) = true ->
  groups_accept G_rx markers val ic (instantiate val ps) ps 0 = true ->
  sod_matches rxE ic (new_with_markers (template_text ps) markers ic) (instantiate val ps) = true.
Proof.
  intros markers val ic ps n Htok Hnd Hok Hin Ha1 Ha2 Hg. destruct (template_shape_some markers ps ic n Hnd Hok Hin) as [m Hm].
  pose proof (template_shape markers ps ic m Hnd Hok Hm) as Hr. unfold new_with_markers.
  destruct markers as [|mk markers]; [cbn in Hm; unfold marker_string_new in Hm; cbn in Hm; discriminate|]. cbn [is_nil]. rewrite Hm.
  cbn [sod_matches]. rewrite Hr. rewrite !utf8_decode_ascii by assumption.
  rewrite (rx_engine_tok_hyp_ok ic _ _ Htok). apply match_if. exact Hg.
Qed.

(* ---- the folding hypothesis of T7/T9 for fold_rx and the separator '/' ---- *)
Definition sep_slash_rx : N -> bool := fun c => N.eqb c 47.
Theorem fold_rx_sep_slash : forall ic, fold_sep_hyp fold_rx sep_slash_rx ic.
Proof.
  intros ic c x Hc He. unfold sep_slash_rx in *. apply N.eqb_eq in Hc. subst c. unfold ceq in He. destruct ic.
  - apply N.eqb_eq in He. unfold fold_rx, in_range in He. cbn in He. apply N.eqb_eq.
    repeat match goal with H : context [if ?b then _ else _] |- _ => destruct b eqn:? end; lia.
  - apply N.eqb_eq in He. subst x. reflexivity.
Qed.

(* ---- a concrete family for which ALL hypotheses of T9 are discharged: marker expressions [0-9]+ and [a-z]+, separator '/'.
        [G_sep_free_hyp G_rx] itself is false (G_rx also answers for bodies like .+ that accept the separator), so the oracle
        is restricted to the family: G_in fam = fam body && G_rx. ---- *)
Theorem G_in_simple_sep_free : G_sep_free_hyp (G_in fam_simple) sep_slash_rx.
Proof. intros ic body whole pos k H. exact (G_in_simple_no_slash ic body whole pos k H). Qed.

Theorem C10_route_matches_iff_rx_family : forall (fam : list N -> bool) (markers : list (str * str)) (sepb : N -> bool) (val : str -> str)
    (ic : bool) (ps : list piece) (n : str),
  G_sep_free_hyp (G_in fam) sepb -> fold_sep_hyp fold_rx sepb ic ->
  forallb tok_ok (map (expected_tok markers) ps) = true -> toks_in fam (map (expected_tok markers) ps) = true ->
  NoDup (map fst markers) -> template_ok markers ps = true -> In (PRef n) ps ->
  all_ascii (render (map (expected_tok markers) ps)) = true -> all_ascii (instantiate val ps) = true ->
  (forall k, sep_free sepb (val k) = true) -> sep_delimited sepb ps = true ->
  sod_matches rxE ic (new_with_markers (template_text ps) markers ic) (instantiate val ps)
  = groups_accept (G_in fam) markers val ic (instantiate val ps) ps 0.
Proof.
  intros fam markers sepb val ic ps n HG Hf Htok Hfam Hnd Hok Hin Ha1 Ha2 Hv Hd. destruct (template_shape_some markers ps ic n Hnd Hok Hin) as [m Hm].
  pose proof (template_shape markers ps ic m Hnd Hok Hm) as Hr. unfold new_with_markers.
  destruct markers as [|mk markers]; [cbn in Hm; unfold marker_string_new in Hm; cbn in Hm; discriminate|]. cbn [is_nil]. rewrite Hm.
  cbn [sod_matches]. rewrite Hr. rewrite !utf8_decode_ascii by assumption.
  rewrite (rx_engine_tok_hyp_ok ic _ _ Htok). unfold full_match. rewrite <- (mt_G_in fam fold_rx ic _ true _ Hfam).
  apply (match_iff (G_in fam) fold_rx _ sepb); assumption.
Qed.

(* with the simple family and '/', no hypothesis on the engine, the oracle or the folding is left *)
Corollary C10_route_matches_iff_rx_simple : forall (markers : list (str * str)) (val : str -> str) (ic : bool) (ps : list piece) (n : str),
  forallb tok_ok (map (expected_tok markers) ps) = true -> toks_in fam_simple (map (expected_tok markers) ps) = true ->
  NoDup (map fst markers) -> template_ok markers ps = true -> In (PRef n) ps ->
  all_ascii (render (map (expected_tok markers) ps)) = true -> all_ascii (instantiate val ps) = true ->
  (forall k, sep_free sep_slash_rx (val k) = true) -> sep_delimited sep_slash_rx ps = true ->
  sod_matches rxE ic (new_with_markers (template_text ps) markers ic) (instantiate val ps)
  = groups_accept (G_in fam_simple) markers val ic (instantiate val ps) ps 0.
Proof.
  intros markers val ic ps n. apply (C10_route_matches_iff_rx_family fam_simple markers sep_slash_rx val ic ps n G_in_simple_sep_free (fold_rx_sep_slash ic)).
Qed.

Print Assumptions rx_char_eq_is_fold.
Print Assumptions G_rx_spec.
Print Assumptions rx_full_match.
Print Assumptions rx_prefix_match.
Print Assumptions rx_engine_tok_hyp_refuted.
Print Assumptions rx_engine_tok_hyp_ok.
Print Assumptions C10_route_matches_iff_rx.
Print Assumptions C10_route_matches_if_rx.
Print Assumptions fold_rx_sep_slash.
Print Assumptions G_in_simple_sep_free.
Print Assumptions C10_route_matches_iff_rx_family.
Print Assumptions C10_route_matches_iff_rx_simple.
