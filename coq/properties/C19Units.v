(* C19Units — the unit-trace clause of C19 ("... on counts, statuses, headers, bodies, applied unit/rule ids").
   Statements only; model: RIO.UnitTrace; proofs: RIO.UnitTraceProofs (A, E), RIO.UnitTraceProofs2 (methods, S, D),
   RIO.UnitTraceProofs3 (R, O).
   MODEL.  `utrace` is UnitTrace (src/action/mod.rs l.54-143) with its methods; a traced function returns its untraced
   result together with the list of method calls (`uev`) it performs on the trace, in program order; `run_events`
   replays them.  Rules carry their unit fields beside them (`urule`, projection `u_rule`); traced actions project onto
   the actions of RIO.ActionModel (`erase_ua`).  HashMaps are association lists; `squash_over` / `t_analysis_of_rules_
   ordered` take the iteration order as a parameter.
   (E) FULL.  Every traced function returns what the untraced model returns on the projections.
   (R) The expected statement "rule_ids_applied = the action's applied-rule list at the end of the block" is REFUTED,
       both as lists and as sets (create_filter_body and should_log_request add to the action's list after
       filter_headers extended the trace, and never to the trace).  PARTIAL, and exact: rule_ids_applied IS the
       action's applied-rule list as it stands right after filter_headers (same elements, same order); what the
       action's list gains afterwards is characterised.
   (O) FULL for the response, rule_ids_applied, unit_ids_applied, value_computed_by_units, whatever the order of the
       matched rules and whatever the iteration order of the HashMap; unit_ids_seen is equal up to permutation only:
       list equality is REFUTED (squash re-inserts the surviving ids in HashMap order).
   (S) FULL.  (D) FULL.
   NOT MODELLED: the HTML body visitors' calls on the trace (src/filter/html_body_action/*.rs); the serialisation
   order of value_computed_by_units (a JSON object). *)
Require Import RIO.Base RIO.Headers RIO.BodyText RIO.ActionModel RIO.Pipeline RIO.PipelineProofs.
Require Import RIO.UnitTrace RIO.UnitTraceProofs RIO.UnitTraceProofs2 RIO.UnitTraceProofs3.
Require Import Coq.Sorting.Sorted.
Require Import RIOGen.ExtHeaders.
Require RIO.C19UnitsRun.

(* ================================================================== (E) erasure *)
Theorem C19U_erase_from_route_rule : forall (u : urule) sk ov rv,
  from_route_rule (u_rule u) sk ov rv
  = (option_map erase_ua (fst (fst (fst (t_from_route_rule u sk ov rv)))),
     snd (fst (fst (t_from_route_rule u sk ov rv))), snd (fst (t_from_route_rule u sk ov rv))).
Proof. exact erase_from_route_rule. Qed.

Theorem C19U_erase_merge : forall a b, erase_ua (t_merge a b) = merge (erase_ua a) (erase_ua b).
Proof. exact erase_merge. Qed.

Theorem C19U_erase_sort : forall l, map u_rule (sort_urules l) = sort_rules (map u_rule l).
Proof. exact erase_sort. Qed.

Theorem C19U_erase_from_routes_rule : forall l sk ov rvs,
  erase_ua (fst (t_from_routes_rule l sk ov rvs)) = from_routes_rule (map u_rule l) sk ov rvs.
Proof. exact erase_from_routes_rule. Qed.

Theorem C19U_erase_get_status_code : forall a c,
  get_status_code (erase_ua a) c = (fst (fst (t_get_status_code a c)), erase_ua (snd (fst (t_get_status_code a c)))).
Proof. exact erase_get_status_code. Qed.

Theorem C19U_erase_apply_header_filters : forall lower table fs hs,
  fst (t_apply_header_filters lower table fs hs) = apply_header_filters lower table (map uh_filter fs) hs.
Proof. exact erase_apply_header_filters. Qed.

Theorem C19U_erase_filter_headers : forall lower table a hs c add,
  filter_headers lower table (erase_ua a) hs c add
  = (fst (fst (t_filter_headers lower table a hs c add)), erase_ua (snd (fst (t_filter_headers lower table a hs c add)))).
Proof. exact erase_filter_headers. Qed.

Theorem C19U_erase_create_filter_body : forall a c,
  create_filter_body (erase_ua a) c = (map ub_filter (fst (t_create_filter_body a c)), erase_ua (snd (t_create_filter_body a c))).
Proof. exact erase_create_filter_body. Qed.

Theorem C19U_erase_should_log_request : forall a allow c,
  should_log_request (erase_ua a) allow c
  = (fst (fst (t_should_log_request a allow c)), erase_ua (snd (fst (t_should_log_request a allow c)))).
Proof. exact erase_should_log_request. Qed.

Theorem C19U_erase_text_body_run : forall fs chunks, fst (t_text_body_run fs chunks) = text_body_run (map ub_filter fs) chunks.
Proof. exact erase_text_body_run. Qed.

Theorem C19U_erase_analysis_response : forall lower table a ex sk,
  fst (t_analysis_response lower table a ex sk) = analysis_response lower table (erase_ua a) ex sk.
Proof. exact erase_analysis_response. Qed.

Theorem C19U_erase_live_response : forall lower table a b sk,
  fst (t_live_response lower table true a b sk) = live_response lower table (erase_ua a) b sk.
Proof. exact erase_live_response. Qed.

(* the response reported beside the unit trace is the response of RIO.Pipeline, whatever the HashMap order: all of
   C19_analysis_eq_live, C19_analysis_status, C19_analysis_order_independent apply to it unchanged *)
Theorem C19U_erase_analysis_of_rules : forall lower table order l sk ov ex skel,
  fst (t_analysis_of_rules_ordered lower table order l sk ov ex skel) = analysis_of_rules lower table (map u_rule l) sk ov ex skel.
Proof. exact erase_analysis_of_rules_ordered. Qed.

(* the traced block of explain/impact is the traced block in proxy order (test_examples.rs, unit_ids.rs): same response
   AND same method calls on the trace *)
Theorem C19U_traced_analysis_eq_live : forall lower table a ex sk,
  t_analysis_response lower table a ex sk = t_live_response lower table true a (example_backend ex) sk.
Proof. exact t_analysis_eq_live. Qed.

Theorem C19U_test_example_trace : forall lower table l sk ov ex skel expected id,
  ex <> Some 0%N ->
  fst (fst (t_test_example lower table l sk ov ex skel expected id)) = snd (t_analysis_of_rules lower table l sk ov ex skel).
Proof. exact test_example_trace_eq_analysis. Qed.

(* ================================================================== LinkedHashSet *)
(* extend / from_iter through insert: untouched old elements keep their place; inserted ones follow, each at its last occurrence *)
Theorem C19U_lhs_extend : forall xs l, lhs_extend xs l = filter (fun y => negb (mem_str y xs)) l ++ dedup_last xs.
Proof. exact lhs_extend_spec. Qed.

(* ================================================================== (S) squash *)
(* on any trace, for any iteration order [tgs] of the with-target map *)
Theorem C19U_squash_sorted : forall tgs t, StronglySorted (fun a b => str_ltb a b = true) (ut_applied (squash_over tgs t)).
Proof. exact squash_over_sorted. Qed.

Theorem C19U_squash_applied_raw : forall tgs t x,
  In x (ut_applied (squash_over tgs t)) <-> In x (ut_applied t) \/ In x (flat_map snd tgs).
Proof. exact squash_over_applied. Qed.

Theorem C19U_squash_seen_raw : forall tgs t x,
  In x (ut_seen (squash_over tgs t)) <-> In x (ut_seen t) \/ In x (flat_map snd tgs).
Proof. exact squash_over_seen. Qed.

Theorem C19U_squash_rest : forall tgs t,
  ut_rules (squash_over tgs t) = ut_rules t /\ ut_values (squash_over tgs t) = ut_values t /\ ut_targets (squash_over tgs t) = [].
Proof. exact squash_over_rest. Qed.

(* what a target holds after any sequence of method calls on a fresh trace *)
Theorem C19U_targets : forall evs tgt x,
  (exists ids, In (tgt, ids) (ut_targets (run_events evs ut_empty)) /\ In x ids)
  <-> (exists pre ev post, evs = pre ++ ev :: post /\ (ev = EvAddT tgt x \/ ev = EvOvrT tgt x) /\ (forall j, ~ In (EvOvrT tgt j) post)).
Proof. exact run_events_targets. Qed.

(* after squash, on any sequence of method calls from UnitTrace::default(): sorted, duplicate free, exactly the ids
   added directly plus, for every target, the ids given to it since (and including) its last override *)
Theorem C19U_squash_sorted_calls : forall evs t, StronglySorted (fun a b => str_ltb a b = true) (ut_applied (ut_squash (run_events evs t))).
Proof. exact squash_sorted. Qed.

Theorem C19U_squash_NoDup : forall evs t, NoDup (ut_applied (ut_squash (run_events evs t))).
Proof. exact squash_NoDup. Qed.

Theorem C19U_squash_applied : forall evs x,
  In x (ut_applied (ut_squash (run_events evs ut_empty)))
  <-> In (EvAdd x) evs
      \/ exists tgt pre ev post, evs = pre ++ ev :: post /\ (ev = EvAddT tgt x \/ ev = EvOvrT tgt x) /\ (forall j, ~ In (EvOvrT tgt j) post).
Proof. exact squash_applied_spec. Qed.

Theorem C19U_squash_seen : forall evs x,
  In x (ut_seen (ut_squash (run_events evs ut_empty)))
  <-> exists e, In e evs /\ (e = EvAdd x \/ exists tgt, e = EvAddT tgt x \/ e = EvOvrT tgt x).
Proof.
  intros evs x. rewrite squash_seen_spec. split; intros (e & He & H); exists e; (split; [exact He|]).
  - destruct e; cbn in H; inversion H; subst; [left; reflexivity|right; eexists; left; reflexivity|right; eexists; right; reflexivity].
  - destruct H as [->|(tgt & [->| ->])]; reflexivity.
Qed.

Theorem C19U_squash_applied_seen : forall evs x,
  In x (ut_applied (ut_squash (run_events evs ut_empty))) -> In x (ut_seen (ut_squash (run_events evs ut_empty))).
Proof. exact squash_applied_seen. Qed.

(* the HashMap's iteration order *)
Theorem C19U_squash_order_independent : forall tgs tgs' t, Permutation tgs tgs' ->
  ut_rules (squash_over tgs t) = ut_rules (squash_over tgs' t)
  /\ ut_applied (squash_over tgs t) = ut_applied (squash_over tgs' t)
  /\ (forall x, In x (ut_seen (squash_over tgs t)) <-> In x (ut_seen (squash_over tgs' t)))
  /\ (NoDup (ut_seen t) -> Permutation (ut_seen (squash_over tgs t)) (ut_seen (squash_over tgs' t)))
  /\ ut_values (squash_over tgs t) = ut_values (squash_over tgs' t)
  /\ ut_targets (squash_over tgs t) = ut_targets (squash_over tgs' t).
Proof. exact squash_order_independent. Qed.

(* the reads of value_computed_by_units: last write wins *)
Theorem C19U_values : forall k evs t, assoc k (ut_values (run_events evs t)) = last_value k evs (assoc k (ut_values t)).
Proof. exact run_events_values. Qed.

(* ================================================================== (D) diff *)
Theorem C19U_diff : forall t other, ut_diff t other = dedup_last (filter (fun x => negb (mem_str x (ut_applied t))) other).
Proof. exact diff_spec. Qed.

Theorem C19U_diff_In : forall t other x, In x (ut_diff t other) <-> In x other /\ ~ In x (ut_applied t).
Proof. exact diff_In. Qed.

Theorem C19U_diff_NoDup : forall t other, NoDup (ut_diff t other).
Proof. exact diff_NoDup. Qed.

Theorem C19U_diff_of_NoDup : forall t other, NoDup other -> ut_diff t other = filter (fun x => negb (mem_str x (ut_applied t))) other.
Proof. exact diff_of_NoDup. Qed.

Theorem C19U_diff_empty : forall t other, ut_diff t other = [] <-> forall x, In x other -> In x (ut_applied t).
Proof. exact diff_empty_iff. Qed.

(* ================================================================== (S) on the analysis block *)
Theorem C19U_analysis_no_direct_add : forall lower table l sk ov ex skel,
  direct_ids_of (snd (t_analysis_events lower table l sk ov ex skel)) = [].
Proof. exact analysis_no_direct_add. Qed.

Theorem C19U_analysis_unit_ids_applied : forall lower table l sk ov ex skel x,
  In x (ut_applied (snd (t_analysis_of_rules lower table l sk ov ex skel)))
  <-> exists tgt, survives tgt x (snd (t_analysis_events lower table l sk ov ex skel)).
Proof. exact analysis_unit_ids_applied. Qed.

Theorem C19U_analysis_unit_ids_seen : forall lower table l sk ov ex skel x,
  In x (ut_seen (snd (t_analysis_of_rules lower table l sk ov ex skel)))
  <-> exists e, In e (snd (t_analysis_events lower table l sk ov ex skel)) /\ ev_unit e = Some x.
Proof. exact analysis_unit_ids_seen. Qed.

Theorem C19U_analysis_values : forall lower table l sk ov ex skel k,
  assoc k (ut_values (snd (t_analysis_of_rules lower table l sk ov ex skel)))
  = last_value k (snd (t_analysis_events lower table l sk ov ex skel)) None.
Proof. exact analysis_values. Qed.

Theorem C19U_analysis_trace_wf : forall lower table order l sk ov ex skel,
  (forall m, Permutation (order m) m) ->
  let t := snd (t_analysis_of_rules_ordered lower table order l sk ov ex skel) in
  NoDup (ut_rules t) /\ StronglySorted (fun a b => str_ltb a b = true) (ut_applied t) /\ NoDup (ut_applied t) /\ NoDup (ut_seen t)
  /\ ut_targets t = [] /\ (forall x, In x (ut_applied t) -> In x (ut_seen t)).
Proof. exact t_analysis_trace_wf. Qed.

(* ================================================================== (R) rule ids *)
(* the statement one would expect: REFUTED below *)
Definition C19U_rule_ids_eq_final_applied_stmt : Prop := forall lower table l sk ov ex skel,
  ut_rules (snd (t_analysis_of_rules lower table l sk ov ex skel)) = rs_applied (fst (t_analysis_of_rules lower table l sk ov ex skel)).
Definition C19U_rule_ids_cover_final_applied_stmt : Prop := forall lower table l sk ov ex skel x,
  In x (rs_applied (fst (t_analysis_of_rules lower table l sk ov ex skel)))
  -> In x (ut_rules (snd (t_analysis_of_rules lower table l sk ov ex skel))).

(* PARTIAL (exact): rule_ids_applied is the action's applied-rule list as it stands after filter_headers *)
Theorem C19U_rule_ids_partial : forall lower table l sk ov ex skel,
  let a := from_routes_rule (map u_rule l) sk ov [] in
  let F := get_final_status_code_with_fallback a (opt_default 0%N ex) 200%N in
  ut_rules (snd (t_analysis_of_rules lower table l sk ov ex skel))
  = a_applied (snd (filter_headers lower table (snd F) [] (snd (fst F)) false)).
Proof. exact analysis_rule_ids. Qed.

(* general form: any action and any trace whose rule_ids_applied mirrors the action's applied list when the block starts *)
Theorem C19U_rule_ids_general : forall lower table a ex sk t,
  NoDup (ua_applied a) -> ut_rules t = ua_applied a ->
  let F := t_get_final_status_code_with_fallback a (opt_default 0%N ex) 200%N in
  ut_rules (run_events (snd (t_analysis_response lower table a ex sk)) t)
  = ua_applied (snd (fst (t_filter_headers lower table (snd (fst F)) [] (snd (fst (fst F))) false))).
Proof. exact analysis_response_rule_ids. Qed.

(* what the action's list gains after filter_headers: the rule ids of the selected body filters and the rule the log
   decision is attributed to (evaluated on the FINAL status, the others on the BACKEND status) *)
Theorem C19U_final_applied : forall lower table a ex sk x,
  let F := get_final_status_code_with_fallback a (opt_default 0%N ex) 200%N in
  In x (rs_applied (analysis_response lower table a ex sk))
  <-> In x (a_applied (snd (filter_headers lower table (snd F) [] (snd (fst F)) false)))
      \/ (exists f, In f (a_bf a) /\ guard_skips (bfa_on f) (bfa_excl f) (snd (fst F)) = false /\ bfa_rule f = Some x)
      \/ (exists lo, a_log a = Some lo /\ snd (lov_get lo (fst (fst F))) = Some x).
Proof. exact analysis_response_applied. Qed.

Theorem C19U_rule_ids_subset : forall lower table l sk ov ex skel x,
  In x (ut_rules (snd (t_analysis_of_rules lower table l sk ov ex skel)))
  -> In x (rs_applied (fst (t_analysis_of_rules lower table l sk ov ex skel))).
Proof. exact analysis_rule_ids_subset. Qed.

(* ================================================================== (O) order independence *)
(* in the model (one fixed iteration order): response and the whole trace are equal *)
Theorem C19U_order_independent_model : forall lower table l1 l2 sk ov ex skel,
  Permutation l1 l2 -> NoDup (map (fun u => r_id (u_rule u)) l1) ->
  t_analysis_of_rules lower table l1 sk ov ex skel = t_analysis_of_rules lower table l2 sk ov ex skel.
Proof. exact t_analysis_of_rules_permutation. Qed.

(* whatever order the HashMap iterates in, on either side *)
Theorem C19U_order_independent : forall lower table order1 order2 l1 l2 sk ov ex skel,
  (forall m, Permutation (order1 m) m) -> (forall m, Permutation (order2 m) m) ->
  Permutation l1 l2 -> NoDup (map (fun u => r_id (u_rule u)) l1) ->
  let X1 := t_analysis_of_rules_ordered lower table order1 l1 sk ov ex skel in
  let X2 := t_analysis_of_rules_ordered lower table order2 l2 sk ov ex skel in
  fst X1 = fst X2
  /\ ut_rules (snd X1) = ut_rules (snd X2)
  /\ ut_applied (snd X1) = ut_applied (snd X2)
  /\ Permutation (ut_seen (snd X1)) (ut_seen (snd X2))
  /\ ut_values (snd X1) = ut_values (snd X2)
  /\ ut_targets (snd X1) = [] /\ ut_targets (snd X2) = [].
Proof. exact t_analysis_order_independent. Qed.

(* the statement with unit_ids_seen equal as a list: REFUTED below *)
Definition C19U_seen_list_order_independent_stmt : Prop := forall lower table order1 order2 l sk ov ex skel,
  (forall m, Permutation (order1 m) m) -> (forall m, Permutation (order2 m) m) ->
  ut_seen (snd (t_analysis_of_rules_ordered lower table order1 l sk ov ex skel))
  = ut_seen (snd (t_analysis_of_rules_ordered lower table order2 l sk ov ex skel)).

Print Assumptions C19U_erase_from_route_rule.
Print Assumptions C19U_erase_merge.
Print Assumptions C19U_erase_sort.
Print Assumptions C19U_erase_from_routes_rule.
Print Assumptions C19U_erase_get_status_code.
Print Assumptions C19U_erase_apply_header_filters.
Print Assumptions C19U_erase_filter_headers.
Print Assumptions C19U_erase_create_filter_body.
Print Assumptions C19U_erase_should_log_request.
Print Assumptions C19U_erase_text_body_run.
Print Assumptions C19U_erase_analysis_response.
Print Assumptions C19U_erase_live_response.
Print Assumptions C19U_erase_analysis_of_rules.
Print Assumptions C19U_traced_analysis_eq_live.
Print Assumptions C19U_test_example_trace.
Print Assumptions C19U_lhs_extend.
Print Assumptions C19U_squash_sorted.
Print Assumptions C19U_squash_applied_raw.
Print Assumptions C19U_squash_seen_raw.
Print Assumptions C19U_squash_rest.
Print Assumptions C19U_targets.
Print Assumptions C19U_squash_sorted_calls.
Print Assumptions C19U_squash_NoDup.
Print Assumptions C19U_squash_applied.
Print Assumptions C19U_squash_seen.
Print Assumptions C19U_squash_applied_seen.
Print Assumptions C19U_squash_order_independent.
Print Assumptions C19U_values.
Print Assumptions C19U_diff.
Print Assumptions C19U_diff_In.
Print Assumptions C19U_diff_NoDup.
Print Assumptions C19U_diff_of_NoDup.
Print Assumptions C19U_diff_empty.
Print Assumptions C19U_analysis_no_direct_add.
Print Assumptions C19U_analysis_unit_ids_applied.
Print Assumptions C19U_analysis_unit_ids_seen.
Print Assumptions C19U_analysis_values.
Print Assumptions C19U_analysis_trace_wf.
Print Assumptions C19U_rule_ids_partial.
Print Assumptions C19U_rule_ids_general.
Print Assumptions C19U_final_applied.
Print Assumptions C19U_rule_ids_subset.
Print Assumptions C19U_order_independent_model.
Print Assumptions C19U_order_independent.

(* ================================================================== non-vacuity and refutations *)
Require Import Coq.Strings.String Coq.Strings.Ascii.
Definition s (x : string) : str := map N_of_ascii (list_ascii_of_string x).
Definition unstr (x : str) : string := string_of_list_ascii (map ascii_of_N x).
Definition unkv (h : str * str) : string * string := (unstr (fst h), unstr (snd h)).
Definition lower_ascii (x : str) : str := map ascii_lower x.

Definition mkrule (id : string) (rank : N) (st : option N) (tg : option str) (codes : option (list N))
           (hf : list hfilter) (bf : list bfilter) (lg rs : option bool) : rule :=
  {| r_id := s id; r_rank := rank; r_status := st; r_target := tg; r_codes := codes; r_excl := None; r_hf := hf; r_bf := bf;
     r_log := lg; r_reset := rs; r_stop := None; r_sampling := None |}.

(* ruleA: rank 10, 301 to /new (redirect unit u-redirect, target_hash th-loc), header override X-Foo: 1 (unit u-h1,
   target th-foo), log override false (configuration_log_unit_id u-log), reset (configuration_reset_unit_id u-reset) *)
Definition ruleA : urule :=
  {| u_rule := mkrule "ruleA" 10%N (Some 301%N) (Some (s "/new")) None
        [{| hf_action := s "override"; hf_header := s "X-Foo"; hf_value := s "1" |}] [] (Some false) (Some true);
     u_redirect_unit := Some (s "u-redirect"); u_target_hash := Some (s "th-loc"); u_log_unit := Some (s "u-log");
     u_reset_unit := Some (s "u-reset"); u_hf_units := [(Some (s "u-h1"), Some (s "th-foo"))]; u_bf_units := [] |}.
(* ruleB: rank 5, header add X-Foo: 2 (u-h2, th-foo), header override x-foo: 3 (u-h3, th-foo: overrides what th-foo held),
   header replace X-Bar: 4 (u-h4, th-bar: X-Bar is absent, so never traced), text filters append "bye" (u-t1) and
   replace "all" (u-t2, whose own target_hash is ignored: the target is always "text") *)
Definition ruleB : urule :=
  {| u_rule := mkrule "ruleB" 5%N None None None
        [{| hf_action := s "add"; hf_header := s "X-Foo"; hf_value := s "2" |};
         {| hf_action := s "override"; hf_header := s "x-foo"; hf_value := s "3" |};
         {| hf_action := s "replace"; hf_header := s "X-Bar"; hf_value := s "4" |}]
        [{| bf_action := TAppend; bf_content := s "bye" |}; {| bf_action := TReplace; bf_content := s "all" |}] None None;
     u_redirect_unit := None; u_target_hash := None; u_log_unit := None; u_reset_unit := None;
     u_hf_units := [(Some (s "u-h2"), Some (s "th-foo")); (Some (s "u-h3"), Some (s "th-foo")); (Some (s "u-h4"), Some (s "th-bar"))];
     u_bf_units := [(Some (s "u-t1"), None); (Some (s "u-t2"), Some (s "ignored"))] |}.

Definition ex_run (rules : list urule) (code : option N) :=
  t_analysis_of_rules lower_ascii header_action_table rules None None code (s "<html>").

(* the response *)
Example C19U_example_response :
  let r := fst (ex_run [ruleB; ruleA] None) in
  (rs_status r, rs_backend r, map unkv (rs_headers r), unstr (rs_body r), rs_log r, map unstr (rs_applied r))
  = (301%N, 301%N, [("Location", "/new"); ("x-foo", "3"); ("x-foo", "3")], "all", false, ["ruleB"; "ruleA"])%string.
Proof. vm_compute. reflexivity. Qed.

(* the method calls of the block, in program order *)
Example C19U_example_calls :
  snd (t_analysis_events lower_ascii header_action_table [ruleB; ruleA] None None None (s "<html>"))
  = [EvAddT (s "configuration::reset") (s "u-reset");
     EvRule (s "ruleA"); EvAddT (s "status_code") (s "u-redirect");
     EvValue (s "u-redirect") (s "/new"); EvOvrT (s "th-loc") (s "u-redirect");
     EvValue (s "u-h1") (s "1"); EvOvrT (s "th-foo") (s "u-h1");
     EvValue (s "u-h2") (s "2"); EvAddT (s "th-foo") (s "u-h2");
     EvValue (s "u-h3") (s "3"); EvOvrT (s "th-foo") (s "u-h3");
     EvRule (s "ruleA"); EvRule (s "ruleB");
     EvAddT (s "text") (s "u-t1"); EvOvrT (s "text") (s "u-t2"); EvOvrT (s "text") (s "u-t2");
     EvAddT (s "configuration::log") (s "u-log")].
Proof. vm_compute. reflexivity. Qed.

(* the trace just before squash: the with-target map (th-foo holds u-h3 only: the override dropped u-h1 and u-h2) *)
Example C19U_example_pre_squash :
  let t := snd (t_analysis_pre lower_ascii header_action_table [ruleB; ruleA] None None None (s "<html>")) in
  (map (fun e => (unstr (fst e), map unstr (snd e))) (ut_targets t), map unstr (ut_applied t), map unstr (ut_seen t))
  = ([("configuration::reset", ["u-reset"]); ("status_code", ["u-redirect"]); ("th-loc", ["u-redirect"]);
      ("th-foo", ["u-h3"]); ("text", ["u-t2"]); ("configuration::log", ["u-log"])],
     [],
     ["u-reset"; "u-redirect"; "u-h1"; "u-h2"; "u-h3"; "u-t1"; "u-t2"; "u-log"])%string.
Proof. vm_compute. reflexivity. Qed.

(* the serialised trace; the same for both orders of the matched rules *)
Example C19U_example_trace :
  let t := snd (ex_run [ruleB; ruleA] None) in
  (map unstr (ut_rules t), map unstr (ut_applied t), map unstr (ut_seen t), map unkv (ut_values t), ut_targets t)
  = (["ruleA"; "ruleB"],
     ["u-h3"; "u-log"; "u-redirect"; "u-reset"; "u-t2"],
     ["u-h1"; "u-h2"; "u-t1"; "u-reset"; "u-redirect"; "u-h3"; "u-t2"; "u-log"],
     [("u-redirect", "/new"); ("u-h1", "1"); ("u-h2", "2"); ("u-h3", "3")],
     [])%string
  /\ ex_run [ruleA; ruleB] None = ex_run [ruleB; ruleA] None.
Proof. vm_compute. split; reflexivity. Qed.

(* what the correspondence run compares (RIO.UnitTrace.ut_report: seen sorted, values sorted by key) *)
Example C19U_example_report :
  let '(rules, applied, seen, values) := ut_report (snd (ex_run [ruleB; ruleA] None)) in
  (map unstr rules, map unstr applied, map unstr seen, map unkv values)
  = (["ruleA"; "ruleB"],
     ["u-h3"; "u-log"; "u-redirect"; "u-reset"; "u-t2"],
     ["u-h1"; "u-h2"; "u-h3"; "u-log"; "u-redirect"; "u-reset"; "u-t1"; "u-t2"],
     [("u-h1", "1"); ("u-h2", "2"); ("u-h3", "3"); ("u-redirect", "/new")])%string.
Proof. vm_compute. reflexivity. Qed.

(* the executable verdict of RIO.C19UnitsRun on this case: unit_ids_seen and value_computed_by_units given in another
   order are accepted, a wrong unit_ids_applied is rejected *)
Example C19U_example_verdict :
  let p applied := {| RIO.C19UnitsRun.up_rules := [ruleA; ruleB]; RIO.C19UnitsRun.up_skipped := None; RIO.C19UnitsRun.up_code := None;
                      RIO.C19UnitsRun.up_lower := [(s "X-Foo", s "x-foo"); (s "Location", s "location"); (s "X-Bar", s "x-bar")];
                      RIO.C19UnitsRun.uo_rule_ids := [s "ruleA"; s "ruleB"];
                      RIO.C19UnitsRun.uo_unit_ids_applied := applied;
                      RIO.C19UnitsRun.uo_unit_ids_seen := map s ["u-log"; "u-t2"; "u-h3"; "u-redirect"; "u-reset"; "u-t1"; "u-h2"; "u-h1"]%string;
                      RIO.C19UnitsRun.uo_values := [(s "u-h3", s "3"); (s "u-redirect", s "/new"); (s "u-h2", s "2"); (s "u-h1", s "1")] |} in
  RIO.C19UnitsRun.unit_trace_ok header_action_table (s "<html>") (p (map s ["u-h3"; "u-log"; "u-redirect"; "u-reset"; "u-t2"]%string)) = true
  /\ RIO.C19UnitsRun.unit_trace_ok header_action_table (s "<html>") (p (map s ["u-h1"; "u-h3"; "u-log"; "u-redirect"; "u-reset"; "u-t2"]%string)) = false.
Proof. vm_compute. split; reflexivity. Qed.

(* without the reset on ruleA nothing changes but the reset unit; with ruleB ranked above ruleA the reset drops ruleB *)
Example C19U_example_reset_drops :
  let ruleB' := {| u_rule := mkrule "ruleB" 20%N None None None (r_hf (u_rule ruleB)) (r_bf (u_rule ruleB)) None None;
                   u_redirect_unit := None; u_target_hash := None; u_log_unit := None; u_reset_unit := None;
                   u_hf_units := u_hf_units ruleB; u_bf_units := u_bf_units ruleB |} in
  let t := snd (ex_run [ruleB'; ruleA] None) in
  (map unstr (ut_rules t), map unstr (ut_applied t)) = (["ruleA"], ["u-h1"; "u-log"; "u-redirect"; "u-reset"])%string.
Proof. vm_compute. reflexivity. Qed.

(* diff and rule_ids_contains as test_examples.rs uses them *)
Example C19U_example_test_example :
  let '(t, gone, has) := t_test_example lower_ascii header_action_table [ruleB; ruleA] None None None (s "<html>")
                           [s "u-h1"; s "u-h3"; s "u-zzz"; s "u-h1"; s "u-redirect"] (s "ruleB") in
  (map unstr gone, has) = (["u-zzz"; "u-h1"], true)%string
  /\ t = snd (ex_run [ruleB; ruleA] None).
Proof. vm_compute. split; reflexivity. Qed.

Example C19U_example_unit_ids :
  map unstr (t_unit_ids lower_ascii header_action_table [ruleB; ruleA] None None None (s "<html>"))
  = ["u-h3"; "u-redirect"; "u-reset"; "u-t2"]%string.   (* no should_log_request in unit_ids.rs: u-log is missing *)
Proof. vm_compute. reflexivity. Qed.

(* ---- (R) refuted: as lists (should_log_request re-inserts ruleA into the action's list, which moves it to the back) *)
Theorem C19U_rule_ids_eq_final_applied_refuted : ~ C19U_rule_ids_eq_final_applied_stmt.
Proof.
  intros H. specialize (H lower_ascii header_action_table [ruleB; ruleA] None None None (s "<html>")).
  vm_compute in H. discriminate H.
Qed.

(* ---- (R) refuted: as sets.  ruleS answers 302 when the backend says 404; ruleL overrides logging when the status is
   302.  The example's backend code is 404: filter_headers (BACKEND status 404) does not apply ruleL, so the trace never
   receives it; should_log_request (FINAL status 302) attributes the decision to ruleL and adds it to the action's list *)
Definition ruleS : urule :=
  {| u_rule := mkrule "ruleS" 1%N (Some 302%N) (Some (s "/gone")) (Some [404%N]) [] [] None None;
     u_redirect_unit := Some (s "u-s"); u_target_hash := Some (s "th-s"); u_log_unit := None; u_reset_unit := None;
     u_hf_units := []; u_bf_units := [] |}.
Definition ruleL : urule :=
  {| u_rule := mkrule "ruleL" 1%N None None (Some [302%N]) [] [] (Some false) None;
     u_redirect_unit := None; u_target_hash := None; u_log_unit := Some (s "u-l"); u_reset_unit := None;
     u_hf_units := []; u_bf_units := [] |}.

Example C19U_example_log_on_final_status :
  let X := ex_run [ruleS; ruleL] (Some 404%N) in
  (rs_status (fst X), rs_backend (fst X), rs_log (fst X), map unstr (rs_applied (fst X)),
   map unstr (ut_rules (snd X)), map unstr (ut_applied (snd X)))
  = (302%N, 404%N, false, ["ruleS"; "ruleL"], ["ruleS"], ["u-l"; "u-s"])%string.
Proof. vm_compute. reflexivity. Qed.

Theorem C19U_rule_ids_cover_final_applied_refuted : ~ C19U_rule_ids_cover_final_applied_stmt.
Proof.
  intros H. specialize (H lower_ascii header_action_table [ruleS; ruleL] None None (Some 404%N) (s "<html>") (s "ruleL")).
  vm_compute in H. destruct (H (or_intror (or_introl eq_refl))) as [E|[]]. discriminate E.
Qed.

(* ---- (O) refuted for unit_ids_seen as a list: iterate the with-target map backwards *)
Example C19U_example_seen_reversed :
  map unstr (ut_seen (snd (t_analysis_of_rules_ordered lower_ascii header_action_table (@rev _) [ruleB; ruleA] None None None (s "<html>"))))
  = ["u-h1"; "u-h2"; "u-t1"; "u-log"; "u-t2"; "u-h3"; "u-redirect"; "u-reset"]%string.
Proof. vm_compute. reflexivity. Qed.

Theorem C19U_seen_list_order_independent_refuted : ~ C19U_seen_list_order_independent_stmt.
Proof.
  intros H.
  specialize (H lower_ascii header_action_table (fun m => m) (@rev _) [ruleB; ruleA] None None None (s "<html>")
                (fun m => Permutation_refl m) (fun m => Permutation_sym (Permutation_rev m))).
  vm_compute in H. discriminate H.
Qed.

(* ---- two behaviours of the pinned code the model reproduces (to be confirmed by the correspondence run) ----
   (1) Action::merge l.406-414: when a conditional log override is merged over an unconditional one, the merged
       LogOverride keeps the OLD rule's unit_id with the NEW rule's log_override / rule_id.  ruleN (conditioned on 410,
       unit u-new) decides log = false, the trace records u-old; u-new is never recorded.  With the condition not met
       (ruleN conditioned on 500) ruleO decides through the fallback and NO log unit is recorded (handled = false). *)
Definition mku (id : string) (rank : N) (st : option N) (tg : option str) (codes : option (list N)) (lg : option bool)
           (ru th lu : option str) : urule :=
  {| u_rule := mkrule id rank st tg codes [] [] lg None; u_redirect_unit := ru; u_target_hash := th; u_log_unit := lu;
     u_reset_unit := None; u_hf_units := []; u_bf_units := [] |}.

Example C19U_finding_log_unit_of_old_rule :
  let rO := mku "ruleO" 10%N None None None (Some true) None None (Some (s "u-old")) in
  let rN c := mku "ruleN" 5%N None None (Some [c]) (Some false) None None (Some (s "u-new")) in
  let rG := mku "ruleG" 1%N (Some 410%N) None None None None None None in
  let show X := (rs_status (fst X), rs_log (fst X), map unstr (rs_applied (fst X)), map unstr (ut_applied (snd X)), map unstr (ut_seen (snd X))) in
  show (ex_run [rO; rN 410%N; rG] None) = (410%N, false, ["ruleO"; "ruleG"; "ruleN"], ["u-old"], ["u-old"])%string
  /\ show (ex_run [rO; rN 500%N; rG] None) = (410%N, true, ["ruleG"; "ruleO"], [], [])%string.
Proof. vm_compute. split; reflexivity. Qed.

(* (2) Action::get_status_code l.479-487 records status_code_update.unit_id whichever rule the status is attributed to;
       merge l.368-377 gives the merged update the NEW rule's unit_id and the OLD rule's status as fallback.  With the
       backend answering 200, the 301 of ruleO is applied through the fallback: rule_ids_applied = [ruleO], but the unit
       recorded under "status_code" is ruleN's (u-n), a rule that is not applied. *)
Example C19U_finding_status_unit_of_new_rule :
  let rO := mku "ruleO" 10%N (Some 301%N) (Some (s "/o")) None None (Some (s "u-o")) (Some (s "th-o")) None in
  let rN := mku "ruleN" 5%N (Some 302%N) (Some (s "/n")) (Some [404%N]) None (Some (s "u-n")) (Some (s "th-n")) None in
  let show X := (rs_status (fst X), rs_backend (fst X), map unstr (ut_rules (snd X)), map unstr (ut_applied (snd X))) in
  show (ex_run [rO; rN] (Some 200%N)) = (301%N, 200%N, ["ruleO"], ["u-n"; "u-o"])%string
  /\ show (ex_run [rO; rN] (Some 404%N)) = (302%N, 404%N, ["ruleO"; "ruleN"], ["u-n"; "u-o"])%string
  /\ show (ex_run [rO] (Some 200%N)) = (301%N, 301%N, ["ruleO"], ["u-o"])%string.
Proof. vm_compute. repeat split; reflexivity. Qed.

Print Assumptions C19U_rule_ids_eq_final_applied_refuted.
Print Assumptions C19U_rule_ids_cover_final_applied_refuted.
Print Assumptions C19U_seen_list_order_independent_refuted.
Print Assumptions C19U_example_trace.
