(* C06 — an action survives JSON serialisation unchanged (agent to proxy hand-off); so does a request.
   Statements only; proofs in RIO.SerdeProofs.
   The schemas are REGENERATED from the derive(Serialize, Deserialize) declarations of the source on every run
   (RIOGen.ExtSerde: field order, renames, defaults, Option, the untagged text/HTML union, unit-variant renames);
   RIO.Json fixes the meaning of those attributes once.  The round trip is proved once for EVERY well-formed schema and
   typed value (SerdeProofs.roundtrip); what is re-proved on every run is that the schemas read from the current source
   are well formed (C06_schemas_wf: no Option<Option>, distinct member names, and each earlier variant of the untagged
   union requires a member the later variant never writes).  Structural identity gives behavioural identity because the
   Action / Request API consists of deterministic functions of the struct; that, serde_json's text layer and the string
   forms of IpAddr / DateTime<Utc> are in the trusted base and are exercised by the correspondence run. *)
Require Import RIO.Base RIO.Json RIO.SerdeProofs.
Require Import RIOGen.ExtSerde.
Close Scope N_scope.

Theorem C06_schemas_wf : wf schema_Action = true /\ wf schema_Request = true.
Proof. split; vm_compute; reflexivity. Qed.

Theorem C06_action_roundtrip : forall a, has_ty schema_Action a = true ->
  de schema_Action (ser schema_Action a) = Some a.
Proof. intros a H. apply roundtrip; [apply C06_schemas_wf|exact H]. Qed.

Theorem C06_request_roundtrip : forall q, has_ty schema_Request q = true ->
  de schema_Request (ser schema_Request q) = Some q.
Proof. intros q H. apply roundtrip; [apply C06_schemas_wf|exact H]. Qed.

(* re-serialising gives the same JSON *)
Theorem C06_reser : forall a, has_ty schema_Action a = true ->
  option_map (ser schema_Action) (de schema_Action (ser schema_Action a)) = Some (ser schema_Action a).
Proof. intros a H. rewrite C06_action_roundtrip by exact H. reflexivity. Qed.

(* the untagged union: an HTML filter never comes back as a text filter, whatever its action string *)
Theorem C06_html_filter_stays_html : forall f, has_ty schema_HTMLBodyFilter f = true ->
  de schema_BodyFilter (ser schema_BodyFilter (VVar 1 f)) = Some (VVar 1 f).
Proof.
  intros f H. apply roundtrip.
  - vm_compute. reflexivity.
  - change (has_ty schema_BodyFilter (VVar 1 f)) with (has_ty schema_HTMLBodyFilter f). exact H.
Qed.

(* non-vacuity: an action with a status update, one header filter, a text and an HTML body filter, traces and applied ids *)
Example C06_example :
  let s := fun (x : list N) => VStr x in
  let none := VOpt None in
  let a := VRec [VOpt (Some (VRec [VNum 301; VList [VNum 404]; VBool false; VNum 0; VOpt (Some (s [97]%N)); none; none; none]));
                 VList [VRec [VRec [s [97;100;100]%N; s [88]%N; s [118]%N; none; none]; VList []; VBool false; VOpt (Some (s [97]%N))]];
                 VList [VRec [VVar 0 (VRec [VEnum 1; s [99]%N; none; none]); VList []; VBool false; none];
                        VRec [VVar 1 (VRec [s [97;112;112;101;110;100;95;116;101;120;116]%N; s [60;105;62]%N; none; VList [s [104;116;109;108]%N]; none; none; none]); VList [VNum 200]; VBool true; none]];
                 VList [s [97]%N];
                 VList [VRec [s [97]%N; VList [VNum 404]; VBool false]];
                 VList [s [97]%N; s [98]%N];
                 none] in
  has_ty schema_Action a = true /\ de schema_Action (ser schema_Action a) = Some a.
Proof. vm_compute. split; reflexivity. Qed.

Print Assumptions C06_schemas_wf.
Print Assumptions C06_action_roundtrip.
Print Assumptions C06_request_roundtrip.
Print Assumptions C06_reser.
Print Assumptions C06_html_filter_stays_html.
