(* C12 — regex caching is transparent (tree level; the router level composes this with C02's
   refinement, see RIO.RouterProofs when present).  Statements only. *)
Require Import RIO.Base RIO.Prefix RIO.Route RIO.Tree RIO.TreeProofs RIO.TreeInst RIO.Matchers RIO.MatcherSpec RIO.RouterSpec RIO.RouterHist RIO.RouterProofs.
Require RIO.LazyRegex. Require Import RIOGen.ExtLazyRegex.
Close Scope N_scope.

(* Warming the cache (any limit, any level or the level loop) at any point of any admissible history
   changes no lookup, no lookup-by-pattern, no size and no stored entry. *)
Theorem C12_tree_cache_transparent : forall (V : Type) eng valid, engine_dotstar eng -> engine_prefix_law eng ->
  forall ic (ops : list (TreeProofs.op V)) limit level s, TreeProofs.hist_ok V shape_c [] ops ->
  let t := TreeProofs.tree_of V cp_c take_c clen_c valid ic ops in
  let t' := fst (tree_cache V valid t limit level) in
  find V eng t' s = find V eng t s /\ (forall re, get V t' re = get V t re) /\ len V t' = len V t /\ entries V t' = entries V t.
Proof.
  intros V eng valid Hd Hp. exact (hist_cache_transparent V cp_c take_c clen_c eng valid shape_c tpre_c tpre_trans_c cut_l_c cut_r_c cut_l'_c cut_r'_c tpre_shape_l_c cp_pre_c Hd Hp).
Qed.

(* Cache steps inside a history do not change the live set: the refinement of C08 treats OCache as the
   identity on the specification side, so any interleaving of cache with updates answers like the
   uncached history. *)
Theorem C12_cache_steps_invisible : forall (V : Type) (ops1 ops2 : list (TreeProofs.op V)) limit level,
  TreeProofs.live V (ops1 ++ OCache V limit level :: ops2) = TreeProofs.live V (ops1 ++ ops2).
Proof.
  intros. unfold TreeProofs.live, TreeProofs.live_from. rewrite !fold_left_app. reflexivity.
Qed.

(* caching only flips compiled flags *)
Theorem C12_only_flags : forall (V : Type) valid (t : item V) limit level,
  same_upto_flags V t (fst (tree_cache V valid t limit level)).
Proof. intros. apply tree_cache_same. Qed.

(* the one place where the lazy and the compiled branch of LazyRegex::is_match differ: an empty leaf pattern *)
Example C12_empty_leaf_differs :
  let eng := fun (ic : bool) (re : pat) (s : list N) => match re, s with [94; 36]%N, _ :: _ => false | _, _ => true end in
  mleaf eng false [] false [120]%N = true /\ mleaf eng false [] true [120]%N = false.
Proof. split; reflexivity. Qed.

(* Router level: Router::cache with any limit (or the default budget), at any point of any admissible
   history, changes no match result ... *)
Theorem C12_router_cache_transparent : forall lower eng valid ic_host ic_path always,
  engine_dotstar eng -> engine_prefix_law eng ->
  forall ops limit q, RouterProofs.hist_ok lower [] ops ->
  let R := rrun lower eng valid ic_host ic_path always ops (router_new lower eng valid ic_host ic_path always) in
  Permutation (router_match lower eng valid ic_host ic_path always q (router_cache lower eng valid ic_host ic_path always limit R))
              (router_match lower eng valid ic_host ic_path always q R).
Proof.
  intros lower eng valid ih ip al Hd Hp ops limit q Hok R.
  apply (cache_invisible lower eng valid ih ip al Hd Hp R (RouterHist.live ops) limit q).
  apply (rrun_refines lower eng valid ih ip al Hd Hp ops _ []); [apply rrepr_new|exact Hok].
Qed.

(* ... and a cache step anywhere inside a history is invisible to everything that follows (the live set is
   unchanged, and C02_refines holds for histories containing RCache steps) *)
Theorem C12_router_cache_steps_invisible : forall ops1 ops2 limit, RouterHist.live (ops1 ++ RCache limit :: ops2) = RouterHist.live (ops1 ++ ops2).
Proof. intros. unfold RouterHist.live, RouterHist.live_from. rewrite !fold_left_app. reflexivity. Qed.

(* ---- the capture regex of a marker string (Route::compile -> MarkerString::compile compiles it IN PLACE behind an
   Arc<RwLock<..>>): what regex() hands out, hence what capture() computes, does not depend on the compiled state.
   Model RIO.LazyRegex (src/regex.rs with the cached value explicit); its shape is re-checked against src/regex.rs and
   src/marker/mod.rs on every run (translator section LazyRegex: RIOGen.ExtLazyRegex).  [wf]: the cache, when present,
   is what create_regex builds; true of new_leaf / new_node, preserved by compile. *)
Theorem C12_capture_regex_cache_transparent : forall valid (r : LazyRegex.lazyrx),
  LazyRegex.wf valid r -> LazyRegex.regex_of valid (LazyRegex.compile valid r) = LazyRegex.regex_of valid r.
Proof. exact LazyRegex.compile_regex_transparent. Qed.

Theorem C12_lazy_is_match_cache_transparent : forall eng valid (r : LazyRegex.lazyrx) s,
  LazyRegex.wf valid r -> LazyRegex.lr_original r <> [] ->
  LazyRegex.is_match eng valid (LazyRegex.compile valid r) s = LazyRegex.is_match eng valid r s.
Proof. exact LazyRegex.compile_is_match_transparent. Qed.

Theorem C12_lazy_wf : forall valid re ic (r : LazyRegex.lazyrx),
  LazyRegex.wf valid (LazyRegex.new_leaf re ic) /\ LazyRegex.wf valid (LazyRegex.new_node re ic) /\ LazyRegex.wf valid (LazyRegex.compile valid r)
  /\ ext_lazy_regex_shape_checked = true.
Proof. intros. repeat split; [apply LazyRegex.wf_new_leaf|apply LazyRegex.wf_new_node|apply LazyRegex.wf_compile]. Qed.

Print Assumptions C12_tree_cache_transparent.
Print Assumptions C12_router_cache_transparent.
Print Assumptions C12_router_cache_steps_invisible.
Print Assumptions C12_cache_steps_invisible.
Print Assumptions C12_only_flags.
Print Assumptions C12_capture_regex_cache_transparent.
Print Assumptions C12_lazy_is_match_cache_transparent.
Print Assumptions C12_lazy_wf.
