(* C07 — no input makes the library panic.
   Statements only.  Three layers (DESIGN.md section 4, C07):

   1. INVENTORY.  RIOGen.ExtPanicSites is regenerated on every run: [panic_sites] lists every syntactic site of the
      current /repo/src (tests and the build script excluded) of the kinds unwrap / expect / panicking macros / index /
      range index / binary minus / integer casts / loop, while / raw-pointer reconstruction / *_from_slice / division /
      unsafe / std calls with a panicking contract / recursion (tools/panic_sites.py says exactly which patterns);
      [ledger_keys] and [ledger_classes] are the key set and the classes of the committed ledger
      tools/panic_ledger.json.  A key is (file, enclosing fn, kind, ordinal within the fn, hash of the normalised line):
      no line numbers.  C07_inventory_covered: every site of the current source has a ledger entry, so adding or
      changing a panic-capable operation without reviewing it breaks this proof.  C07_ledger_not_stale: the ledger
      names no site that is gone.  C07_ledger_census pins how many sites are justified in which way:
      lemma (a theorem of this file about the model function holding the site), guard (a syntactic guard in the same
      function), out-of-model (FFI pointer contract, logger, wasm binding, verification hook), searched (NO proof:
      only the search of harness/src/c07.rs and the correspondence runs of the other properties, i.e. testing).
      What the inventory cannot see (panics inside callees of other crates and of std, overflow of + and *,
      recursion through another receiver, allocation failure) is named in tools/panic_sites.py and covered by the
      search only.

   2. MODELS.  Totality theorems of the executable models that carry an [outcome], restated here: Slice::transform
      (RIO.Marker), the element-tree cursor of the HTML body visitors (RIO.C07Models) and the HTML tokenizer
      (RIO.HtmlTok, theorem RIO.HtmlTokProofs.total = C16_total).

   3. SEARCH.  Not a theorem: grammar-then-mutate inputs through every public entry point under catch_unwind
      (RIO.C07Run gives the verdict on each observation). *)
Require RIO.TokMonad RIO.HtmlTok RIO.C16Run RIO.HtmlTokProofs.
Require Import RIO.Base RIO.Marker RIO.MarkerProofs RIO.C07Models RIO.C07Run.
Require Import RIOGen.ExtPanicSites.
Close Scope N_scope.

Definition key_eqb (a b : site_key) : bool :=
  match a, b with
  | (f1, g1, k1, o1, h1), (f2, g2, k2, o2, h2) =>
      N.eqb h1 h2 && N.eqb o1 o2 && N.eqb k1 k2 && str_eqb g1 g2 && str_eqb f1 f2
  end.

Lemma key_eqb_spec a b : key_eqb a b = true <-> a = b.
Proof.
  destruct a as [[[[f1 g1] k1] o1] h1], b as [[[[f2 g2] k2] o2] h2]. unfold key_eqb. split.
  - intros H. repeat (apply andb_prop in H; destruct H as [H ?]).
    apply N.eqb_eq in H. repeat match goal with X : N.eqb _ _ = true |- _ => apply N.eqb_eq in X end.
    repeat match goal with X : str_eqb _ _ = true |- _ => apply str_eqb_spec in X end. subst. reflexivity.
  - intros E. inversion E; subst. rewrite !N.eqb_refl, !str_eqb_refl. reflexivity.
Qed.

Definition mem_key (k : site_key) (l : list site_key) : bool := existsb (key_eqb k) l.

Lemma mem_key_In k l : mem_key k l = true <-> In k l.
Proof.
  unfold mem_key. rewrite existsb_exists. split.
  - intros (y & Hy & E). apply key_eqb_spec in E. subst. exact Hy.
  - intros H. exists k. split; [exact H|apply key_eqb_spec; reflexivity].
Qed.

Fixpoint distinct (l : list site_key) : bool :=
  match l with
  | [] => true
  | x :: r => negb (mem_key x r) && distinct r
  end.

Definition count_class (c : N) (l : list N) : nat := length (filter (N.eqb c) l).

(* ---------------------------------------------------------------- 1. inventory *)

Theorem C07_inventory_covered : forallb (fun s => mem_key s ledger_keys) panic_sites = true.
Proof. vm_compute. reflexivity. Qed.

(* the same as a statement about membership *)
Theorem C07_every_site_has_an_entry : forall s, In s panic_sites -> In s ledger_keys.
Proof.
  intros s H. apply mem_key_In. pose proof C07_inventory_covered as C. rewrite forallb_forall in C. apply C. exact H.
Qed.

Theorem C07_ledger_not_stale : forallb (fun k => mem_key k panic_sites) ledger_keys = true.
Proof. vm_compute. reflexivity. Qed.

Theorem C07_keys_distinct : distinct panic_sites = true /\ distinct ledger_keys = true
  /\ length ledger_classes = length ledger_keys /\ length ledger_keys = length panic_sites.
Proof. vm_compute. repeat split; reflexivity. Qed.

(* how the sites are justified: lemma / guard / out-of-model / searched (codes 1 2 3 4), and nothing else *)
Theorem C07_ledger_census :
  (length panic_sites, count_class 1 ledger_classes, count_class 2 ledger_classes, count_class 3 ledger_classes,
   count_class 4 ledger_classes) = (350, 87, 131, 38, 94)
  /\ forallb (fun c => N.leb 1 c && N.leb c 4) ledger_classes = true.
Proof. vm_compute. split; reflexivity. Qed.

(* ---------------------------------------------------------------- 2. models with an outcome *)

(* Slice::transform (src/marker/transformer/slice.rs after db79cd0: str.get(from..to).unwrap_or_default()) returns for
   every from / to / value; before the repair the model returned Panic for from > to and for a bound inside a
   character (corpus/C07/witness_slice_*.json) *)
Theorem C07_slice_total : forall (from : N) (to : option N) (s : str), exists r, slice_transform from to s = Ok r.
Proof. exact slice_total. Qed.

(* the element-tree cursor of the HTML body visitors (body_append.rs / body_prepend.rs / body_replace.rs: enter, leave,
   first): over a non-empty element tree, which is what HtmlBodyVisitor::new guarantees, every sequence of calls returns
   and the cursor stays inside the tree; model and site numbers in RIO.C07Models *)
Theorem C07_visitor_cursor_total : forall (len : N) (calls : list vcall) (pos : N), (pos < len)%N ->
  exists p, v_run len calls pos = Ok p /\ (p < len)%N.
Proof. exact visitor_cursor_total. Qed.

(* the HTML tokenizer (src/html/mod.rs, impl Tokenizer): the model RIO.HtmlTok checks every index, slice and unsigned
   subtraction of next / the read_* states / raw / buffered / text / tag_name / tag_attr (56 sites, table at the top of
   HtmlTok.v) and runs every loop and the script-state recursion on fuel.  For EVERY input, context tag and lowercase
   oracle that is ASCII lowercasing on the ten raw-text element names (true of String::to_lowercase: those names are
   ASCII), the driver that calls next until ErrorToken and every accessor on every token never reports Panic and, with
   fuel |input| + 1, never OutOfFuel.  Proof: RIO.HtmlTokProofs.total (pinned as C16_total); the tie between the model
   and the crate is the C16 correspondence run.  Stack depth of the script-state recursion is NOT covered (fuel bounds
   the number of calls, not the frames) *)
Theorem C07_tokenizer_total : forall (lower : str -> str) (ctx : str) (fuel : nat) (b : str),
  RIO.HtmlTokProofs.lower_ok lower -> length b + 1 <= fuel ->
  exists r, RIO.C16Run.tokenize_all lower ctx fuel b = Ok r.
Proof. exact RIO.HtmlTokProofs.total. Qed.

(* hence the verdict's model bit never fires because of the model itself *)
Theorem C07_slice_verdict : forall c, returned c = true ->
  (forall from to v, k_slice c = Some (from, to, v) -> o_slice_out c = Some (match slice_transform from to v with Ok r => r | _ => [] end)) ->
  verdict07 c = 0%N.
Proof.
  intros c R H. unfold verdict07, known_bits, slice_agrees. rewrite R.
  assert (o_panicked c = false) as -> by (unfold returned in R; destruct (o_panicked c); [discriminate|reflexivity]). cbn [andb].
  destruct (k_slice c) as [[[from to] v]|] eqn:E; [|reflexivity].
  rewrite (H from to v eq_refl). destruct (C07_slice_total from to v) as [r Hr]. rewrite Hr. rewrite str_eqb_refl. reflexivity.
Qed.

(* non-vacuity of the verdict: a panic and a timeout are both reported on both bits *)
Example C07_verdict_examples :
  verdict07 {| k_family := 1; k_slice := None; o_panicked := true; o_timed_out := false; o_slice_out := None; o_known := 0 |} = 5%N
  /\ verdict07 {| k_family := 1; k_slice := None; o_panicked := false; o_timed_out := true; o_slice_out := None; o_known := 0 |} = 5%N
  /\ verdict07 {| k_family := 6; k_slice := Some (3, Some 2, [97;98;99;100])%N; o_panicked := false; o_timed_out := false; o_slice_out := Some []; o_known := 0 |} = 0%N
  /\ verdict07 {| k_family := 1; k_slice := None; o_panicked := true; o_timed_out := false; o_slice_out := None; o_known := 1 |} = 261%N
  /\ verdict07 {| k_family := 6; k_slice := Some (1, Some 3, [97;98;99;100])%N; o_panicked := false; o_timed_out := false; o_slice_out := Some [98]%N; o_known := 0 |} = 1%N.
Proof. vm_compute. repeat split; reflexivity. Qed.

Print Assumptions C07_inventory_covered.
Print Assumptions C07_every_site_has_an_entry.
Print Assumptions C07_ledger_not_stale.
Print Assumptions C07_keys_distinct.
Print Assumptions C07_ledger_census.
Print Assumptions C07_slice_total.
Print Assumptions C07_visitor_cursor_total.
Print Assumptions C07_tokenizer_total.
Print Assumptions C07_slice_verdict.
