(* C18 — the C interface keeps ownership and memory contracts.
   Statements only; proofs in RIO.HeapProofs.  Model: RIO.Heap — an allocator that remembers the SIZE each block was
   allocated with (Rust's GlobalAlloc contract), handles for what the library hands to the C caller (buffers, boxed
   request / action / body-filter objects, C strings, header-map nodes with their two strings), and client programs.
   C18_protocol_clean: for EVERY complete protocol-respecting client program (each handle created once, used while
   live, released exactly once through the matching function) and for ALL lengths and capacities of the Vecs the
   library turns into buffers: no deallocation error occurs (no double free, no foreign pointer, no size different
   from the allocation's) and at the end the library-side heap is empty (no leak).
   C18_pinned_layout_mismatch: on the model of the PINNED Buffer::from_vec the two-call program
   "get a buffer whose Vec had spare capacity; drop it" is protocol-respecting and yet frees 8 bytes as 3
   (repaired in /repo 8d7e0c8; reproduced on the crate by corpus/C18/witness_capacity_layout.json).
   PARTIAL, by nature: the model decides the bookkeeping (who owns what, which size is passed back).  Undefined
   behaviour of the machine execution (use after free through a dangling &*ptr, aliasing) cannot be exhibited by an
   executable Gallina model; the recording allocator of the harness observes the real calls. *)
Require Import RIO.Base RIO.Heap RIO.HeapProofs.
Open Scope N_scope.

Theorem C18_protocol_clean : forall p : list cop, well_formed p = true ->
  exists s, run state0 p = inr s /\ blocks (hp s) = [] /\ handles s = [].
Proof. exact protocol_clean. Qed.

Theorem C18_pinned_layout_mismatch :
  well_formed [CBufNew 1 3 8; CBufRelease 1] = true
  /\ run_pinned state0 [CBufNew 1 3 8; CBufRelease 1] = inl (ELayout 8 3).
Proof. split; [exact pinned_same_program_well_formed|exact pinned_layout_mismatch]. Qed.

(* header lists: the map is built by consing (each node points to the previous one) and read from the head *)
Definition to_header_map {A} (hs : list A) : list A := fold_left (fun cur h => h :: cur) hs [].
Theorem C18_header_roundtrip : forall (A : Type) (hs : list A), Permutation (to_header_map hs) hs /\ to_header_map hs = rev hs.
Proof.
  intros A hs. assert (H : forall acc, fold_left (fun cur h => h :: cur) hs acc = rev hs ++ acc).
  { induction hs as [|h hs IH]; intros acc; [reflexivity|]. cbn. rewrite IH, <- app_assoc. reflexivity. }
  unfold to_header_map. rewrite H, app_nil_r. split; [apply Permutation_sym, Permutation_rev|reflexivity].
Qed.

(* Non-vacuity: a program exercising every kind of handle, with capacity > length, empty and duplicated buffers *)
Example C18_example :
  let p := [CBoxNew 1 200; CHdrNew 2 [(3, 4); (10, 0)]; CBufNew 3 5 64; CFilter 3 4 9 32; CBufDup 4 5; CBufRelease 4; CBufNew 6 0 16;
            CStrNew 7 120; CBoxNew 8 480; CBoxDrop 8; CBufRelease 5; CStrFree 7; CHdrFree 2; CBufRelease 6; CBoxDrop 1] in
  well_formed p = true /\ exists s, run state0 p = inr s /\ blocks (hp s) = [].
Proof. cbv zeta. split; [vm_compute; reflexivity|]. eexists. split; [vm_compute; reflexivity|reflexivity]. Qed.

Print Assumptions C18_protocol_clean.
Print Assumptions C18_pinned_layout_mismatch.
Print Assumptions C18_header_roundtrip.
