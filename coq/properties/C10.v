(* C10 — markers capture the matching text and are substituted into targets and filters.
   Part 1: sanity examples of the executable model (RIO.Marker, run with the engine RIO.Rx), evaluated by the kernel.
   Part 2: the pinned theorems.  Every statement is about the model (RIO.Marker) for ALL inputs satisfying the stated
           boolean side conditions; proofs are in RIO.MarkerProofs.  The regex engine never appears as an axiom: the
           matching theorems quantify over an arbitrary group oracle G (token semantics of RIO.RegexSem, the interface
           under which C08 / C01 treat the regex crate) and name their hypotheses in the statement.
           What is NOT a theorem (decided by the correspondence run, tools/check.py C10): that the regex crate
           implements the token semantics and returns a valid parse as captures (the run uses RIO.Rx as the
           executable stand-in and compares every capture with the crate's); the shape of the CAPTURE regex
           (named groups); heck / Unicode case conversions (oracles fed from the crate).
   Part 3: witnesses: non-vacuity of every hypothesis, and, for each side condition, an input of the excluded class
           on which the conclusion fails.
   Substitution, history: the PINNED crate substituted with one str::replace per variable ([sod_replace]); that
   algorithm re-substituted values containing "@name" and could glue adjacent references (findings
   kf_value_resubstituted, kf_adjacent_refs_glue).  Commit df98c41 replaced it by ONE left-to-right pass
   ([sod_replace_onepass], the function the pipeline model now uses).  T0a-T0d are the unconditional statements about
   the repaired code; T1-T3 and the witnesses (i)-(iv) are about the PINNED algorithm and now read as: the repair
   changes the result nowhere under [subst_safe], and exactly on the witnesses' classes outside it. *)
Require Import Coq.Strings.String.
Require Import RIO.Base RIO.Pct RIO.Url RIO.Prefix RIO.RegexSem RIO.Marker RIO.MarkerProofs RIO.Rx RIO.C10Run.
Require Import RIO.TablesTie RIOGen.ExtTables.
Open Scope N_scope.

(* ================================================================================================== *)
(* Part 1: examples *)

(* regex::escape and MarkerString::new: "/p-(1)/@a/@ab.html" with a = [a-z]+, ab = [0-9]+ *)
Definition mk_a_ab : list (str * str) := [(lit "a", lit "[a-z]+"); (lit "ab", lit "[0-9]+")].
Example marker_string_example :
  option_map (fun m => (ms_regex m, ms_capture m)) (marker_string_new (lit "/p-(1)/@a/@ab.html") mk_a_ab false)
  = Some (lit "/p\-\(1\)/(?:[a-z]+)/(?:[0-9]+)\.html", lit "/p\-\(1\)/(?P<a>[a-z]+)/(?P<ab>[0-9]+)\.html").
Proof. vm_compute; reflexivity. Qed.

(* no marker occurs: None, the route is static *)
Example marker_string_none : marker_string_new (lit "/plain") mk_a_ab false = None.
Proof. vm_compute; reflexivity. Qed.

(* capture with the run's engine: names sharing a prefix *)
Example capture_example :
  match marker_string_new (lit "/@a/@ab") mk_a_ab false with
  | Some m => ms_capture_run rxE m (lit "/xy/42")
  | None => []
  end = [(lit "a", lit "xy"); (lit "ab", lit "42")].
Proof. vm_compute; reflexivity. Qed.

(* str::replace: non-overlapping, left to right; empty pattern *)
Example replace_examples :
  str_replace (lit "aa") (lit "b") (lit "aaaaa") = lit "bba"
  /\ str_replace [] (lit "-") (lit "ab") = lit "-a-b-"
  /\ str_replace [] (lit "-") [195;169] = [45;195;169;45].
Proof. repeat split; vm_compute; reflexivity. Qed.

(* the stable sort keeps the input order among equal lengths *)
Example sort_example :
  map fst (sort_desc name_len [(lit "b", []); (lit "abc", []); (lit "a", []); (lit "id", []); (lit "ab", [])])
  = [lit "abc"; lit "id"; lit "ab"; lit "b"; lit "a"].
Proof. vm_compute; reflexivity. Qed.

(* Slice around the length and around a two-byte character ("aé" = 97 195 169) *)
Example slice_examples :
  slice_transform 1 (Some 3) (lit "abcd") = Ok (lit "bc")
  /\ slice_transform 4 (Some 9) (lit "abcd") = Ok []
  /\ slice_transform 5 (Some 2) (lit "abcd") = Ok []
  /\ slice_transform 1 None (lit "abcd") = Ok (lit "bcd")
  /\ slice_transform 3 (Some 2) (lit "abcd") = Ok []                (* str[3..2] panicked before the repair db79cd0 *)
  /\ slice_transform 0 (Some 2) [97;195;169] = Ok []                  (* so did a bound inside a character *)
  /\ slice_transform 1 (Some 3) [97;195;169] = Ok [195;169].
Proof. repeat split; vm_compute; reflexivity. Qed.

(* usize::from_str *)
Example usize_examples :
  usize_from_str (lit "+12") = Some 12 /\ usize_from_str (lit "") = None /\ usize_from_str (lit "-1") = None
  /\ usize_from_str (lit "18446744073709551615") = Some 18446744073709551615 /\ usize_from_str (lit "18446744073709551616") = None.
Proof. repeat split; vm_compute; reflexivity. Qed.

(* ================================================================================================== *)
(* Part 2: theorems *)

(* T0a. The repaired StaticOrDynamic::replace (df98c41: one pass; at each '@' the loop over the variables keeps the
   first one among those with the longest name that follows) IS the simultaneous longest-name substitution — no side
   condition.  Not definitional: [sod_replace_onepass] transliterates the Rust loop ([pick_longest], a fold in LIST
   order with a strict comparison), [simul_longest] is the reference (first match in the stably length-sorted list). *)
Theorem C10_substitute_onepass : forall (vars : list (str * str)) (s : str),
  sod_replace_onepass s vars = simul_longest vars s.
Proof. exact onepass_is_simul_longest. Qed.

(* T0b. What the loop picks at an '@' followed by t: a variable whose name follows, no variable with a longer name
   follows; nothing is picked only when no name follows. *)
Theorem C10_onepass_picks_longest : forall (vars : list (str * str)) (t : str),
  (forall nv, pick_longest vars t = Some nv ->
     In nv vars /\ prefixb (fst nv) t = true
     /\ forall nv', In nv' vars -> prefixb (fst nv') t = true -> (length (fst nv') <= length (fst nv))%nat)
  /\ (pick_longest vars t = None -> forall nv', In nv' vars -> prefixb (fst nv') t = false).
Proof.
  intros vars t. split; [intros nv; apply pick_longest_spec|]. rewrite pick_longest_sorted. apply longest_pick_none.
Qed.

(* T0c. The order of the variables does not matter any more (pairwise different names): neither the HashMap iteration
   order of Rule::variables nor the sort by name length (which the crate still performs) influences the result. *)
Theorem C10_onepass_order_irrelevant : forall (vars vars' : list (str * str)) (s : str),
  Permutation vars vars' -> NoDup (map fst vars) ->
  sod_replace_onepass s vars = sod_replace_onepass s vars'
  /\ sod_replace_onepass s (sort_desc name_len vars) = sod_replace_onepass s vars.
Proof. intros vars vars' s P Hnd. split; [apply onepass_order_irrelevant; assumption|apply onepass_sorted; exact Hnd]. Qed.

(* T0d. No re-substitution: the text is a sequence of literal characters and references "@name" to variables of the
   list; the result is the same sequence with every reference replaced by the value of that very variable.  Values are
   output verbatim: a value containing "@name" stays as it is, two adjacent references cannot glue. *)
Theorem C10_onepass_no_rescan : forall (vars : list (str * str)) (s : str),
  exists pieces : list out_piece,
    s = flat_map out_src pieces /\ sod_replace_onepass s vars = flat_map out_dst pieces
    /\ forall nv, In (OVal nv) pieces -> In nv vars.
Proof. exact onepass_no_rescan. Qed.

(* T0e. The repair changes nothing under the side condition of T1: there the pinned sequential algorithm (in the
   order the crate uses) and the one-pass algorithm agree. *)
Theorem C10_onepass_agrees_with_pinned : forall (vars : list (str * str)) (s : str),
  subst_safe vars s = true -> sod_replace s (sort_desc name_len vars) = sod_replace_onepass s vars.
Proof. exact onepass_agrees_sequential. Qed.

(* T1 (PINNED algorithm).  The sequential StaticOrDynamic::replace (one str::replace per variable, in list order) equals the simultaneous
   substitution (each "@name" occurrence of the ORIGINAL text replaced once, values never rescanned) under
   [subst_safe vars s]:
     - no name and no value contains '@';
     - between two consecutive '@' of the text there is never a strict prefix of a variable name.
   Holds for ANY order of the list. *)
Theorem C10_substitute : forall (vars : list (str * str)) (s : str),
  subst_safe vars s = true -> sod_replace s vars = simul_subst vars s.
Proof. exact substitute. Qed.

(* T2 (PINNED algorithm). Longest first.  With the order the code uses (stable sort by name length, longest first), the sequential
   replacement is the LONGEST-name substitution: at every '@' the variable picked has a name that follows, and no
   variable with a longer name follows.  Hence "@ab" is ab's value even when a is a variable too. *)
Theorem C10_longest_first : forall (vars : list (str * str)) (s : str),
  subst_safe vars s = true ->
  sod_replace s (sort_desc name_len vars) = simul_longest vars s
  /\ forall t nv, find_ref (sort_desc name_len vars) t = Some nv ->
       In nv vars /\ prefixb (fst nv) t = true
       /\ forall nv', In nv' vars -> prefixb (fst nv') t = true -> (length (fst nv') <= length (fst nv))%nat.
Proof. intros vars s H. split; [apply substitute_longest; exact H|intros t nv; apply longest_pick]. Qed.

Theorem C10_longer_name_wins : forall (vars : list (str * str)) (n m v w t : str),
  In (n, v) vars -> In (m, w) vars -> prefixb n m = true -> (length n < length m)%nat -> prefixb m t = true ->
  exists nv, find_ref (sort_desc name_len vars) t = Some nv /\ (length m <= length (fst nv))%nat /\ fst nv <> n.
Proof. exact longer_name_wins. Qed.

(* T3 (PINNED algorithm). The order among names of equal length (HashMap iteration order of Rule::variables when the
   rule declares no variables; the model fixes the bytewise order) does not matter under the side condition.  For the
   repaired code see T0c (no side condition). *)
Theorem C10_order_irrelevant : forall (vars vars' : list (str * str)) (s : str),
  Permutation vars vars' -> NoDup (map fst vars) -> subst_safe vars s = true ->
  sod_replace s (sort_desc name_len vars) = sod_replace s (sort_desc name_len vars').
Proof. exact replace_order_irrelevant. Qed.

(* T4. Shape of the match regex.  For a template given as literal characters and references, under
   [template_ok markers ps] (names are identifiers, marker expressions contain no '@', literals are not '@', every
   reference names a marker and is followed by the end, by a non-identifier literal, or by another reference when no
   marker name strictly extends it) MarkerString::new returns Some as soon as there is a reference, and its regex is
   the rendering of: escaped literals, one group "(?:e)" per reference. *)
Theorem C10_template_shape : forall (markers : list (str * str)) (ps : list piece) (ic : bool),
  NoDup (map fst markers) -> template_ok markers ps = true ->
  (forall m, marker_string_new (template_text ps) markers ic = Some m ->
             ms_regex m = render (map (expected_tok markers) ps))
  /\ (forall n, In (PRef n) ps -> exists m, marker_string_new (template_text ps) markers ic = Some m).
Proof.
  intros markers ps ic Hnd Hok. split.
  - intros m. apply template_shape; assumption.
  - intros n. apply template_shape_some; assumption.
Qed.

(* T5. Transformer chains apply left to right (a fold; a transformer the decoder rejects is skipped; a panic stops
   the chain), and Slice: it never panics, what it returns, out-of-range bounds, the degenerate cases. *)
Theorem C10_transform_chain : forall (O : oracle) (ts1 ts2 : list transformer) (v : str),
  apply_chain O (ts1 ++ ts2) v = obind (apply_chain O ts1 v) (apply_chain O ts2)
  /\ apply_chain O ts1 v = fold_left (fun acc t => obind acc (chain_step O t)) ts1 (Ok v).
Proof. intros O ts1 ts2 v. split; [apply chain_app|apply chain_fold]. Qed.

Theorem C10_slice : forall (from : N) (to : option N) (s : str),
  let len := len_N s in
  let to' := N.min (match to with Some t => t | None => len end) len in
  (exists r, slice_transform from to s = Ok r)
  /\ (forall r, slice_transform from to s = Ok r ->
     r = [] \/ (from <= to' /\ r = firstn (N.to_nat (to' - from)) (skipn (N.to_nat from) s) /\ len_N r = to' - from))
  /\ (len < from -> slice_transform from to s = Ok [])
  /\ (forall t, to = Some t -> len <= t -> slice_transform from to s = slice_transform from None s)
  /\ (from <= len /\ (to' < from \/ is_char_boundary s from && is_char_boundary s to' = false) -> slice_transform from to s = Ok [])
  /\ (all_ascii s = true -> from <= to' -> slice_transform from to s = Ok (firstn (N.to_nat (to' - from)) (skipn (N.to_nat from) s))).
Proof.
  intros from to s. cbn zeta. split; [|split; [|split; [|split; [|split]]]].
  - apply slice_total.
  - intros r. apply slice_result.
  - apply slice_from_beyond.
  - intros t -> H. apply slice_to_clamped. exact H.
  - apply (slice_degenerate from to s).
  - apply slice_ascii.
Qed.

(* T6. match_if (no side condition on the template): if every instantiation is accepted by its marker's group at the
   place where it stands, the instantiated text matches the rendered token list — for EVERY group oracle G and case
   folding. *)
Theorem C10_match_if : forall (G : bool -> list chr -> list chr -> nat -> nat -> bool) (fold : chr -> chr)
    (markers : list (str * str)) (val : str -> str) (ic : bool) (ps : list piece),
  groups_accept G markers val ic (instantiate val ps) ps 0 = true ->
  full_match G fold ic (map (expected_tok markers) ps) (instantiate val ps) = true.
Proof. exact match_if. Qed.

(* T7 (partial: under separators).  HYPOTHESES, all premises of the statement:
     G_sep_free_hyp G sepb      what a marker group accepts contains no separator character;
     fold_sep_hyp fold sepb ic  equality up to the case folding in force does not leave the separator set;
     val sep-free               no instantiation (accepted or rejected) contains a separator;
     sep_delimited sepb ps      every reference is followed by a separator literal or by the end.
   Then: the instantiated text matches IF AND ONLY IF every instantiation is accepted; in particular a rejected
   instantiation makes the rule not match. *)
Theorem C10_match_only_if_partial : forall (G : bool -> list chr -> list chr -> nat -> nat -> bool) (fold : chr -> chr)
    (markers : list (str * str)) (sepb : N -> bool) (val : str -> str) (ic : bool) (ps : list piece),
  G_sep_free_hyp G sepb -> fold_sep_hyp fold sepb ic -> (forall n, sep_free sepb (val n) = true) -> sep_delimited sepb ps = true ->
  full_match G fold ic (map (expected_tok markers) ps) (instantiate val ps)
  = groups_accept G markers val ic (instantiate val ps) ps 0.
Proof. exact match_iff. Qed.

(* T8 (partial: under separators and capture_sound).  HYPOTHESIS capture_sound, stated as the premises on [cap]: what
   the engine returns as captures is A valid parse of the haystack — values without separators (they are accepted by
   their groups) whose instantiation is the haystack.  Then the captured values are the instantiated values. *)
Theorem C10_capture_partial : forall (sepb : N -> bool) (val cap : str -> str) (ps : list piece),
  sep_delimited sepb ps = true ->
  (forall n, sep_free sepb (val n) = true) -> (forall n, sep_free sepb (cap n) = true) ->
  instantiate cap ps = instantiate val ps ->
  forall n, In (PRef n) ps -> cap n = val n.
Proof. exact unique_parse. Qed.

(* T9. The same at the level of the model's route matching (path or host of a route built by
   StaticOrDynamic::new_with_markers), for ASCII templates and requests.  HYPOTHESIS engine_tok_hyp: on an anchored
   rendered token list the engine answers like the token semantics.
   CAUTION (found when the hypothesis was examined for the executable engine, properties/RxMarkers.v): as stated,
   engine_tok_hyp quantifies over ALL token lists, ill-formed group bodies included, and in that form it is FALSE for the
   executable engine whatever the oracle and the folding (rx_engine_tok_hyp_refuted) - and for any real regex engine for
   the same reason (the rendering a(b)|(c) of the tokens a, (b)|(c) is a top-level alternation): the statement below
   is kept as it was, but for such engines its premise cannot be met.  The meaningful form is
   RxMarkers.C10_route_matches_iff_rx: the same conclusion for the executable engine with NO engine hypothesis, the
   hypothesis being replaced by the executable condition that the marker expressions are balanced (tok_ok), and
   C10_route_matches_iff_rx_simple where, for a concrete family of marker expressions and the separator '/', no
   hypothesis about engine, oracle or folding remains. *)
Theorem C10_route_matches_iff_partial : forall (E : engine) (G : bool -> list chr -> list chr -> nat -> nat -> bool) (fold : chr -> chr)
    (markers : list (str * str)) (sepb : N -> bool) (val : str -> str) (ic : bool) (ps : list piece) (n : str),
  engine_tok_hyp E G fold ic -> G_sep_free_hyp G sepb -> fold_sep_hyp fold sepb ic ->
  NoDup (map fst markers) -> template_ok markers ps = true -> In (PRef n) ps ->
  all_ascii (render (map (expected_tok markers) ps)) = true -> all_ascii (instantiate val ps) = true ->
  (forall k, sep_free sepb (val k) = true) -> sep_delimited sepb ps = true ->
  sod_matches E ic (new_with_markers (template_text ps) markers ic) (instantiate val ps)
  = groups_accept G markers val ic (instantiate val ps) ps 0.
Proof. exact match_iff_model. Qed.

(* ================================================================================================== *)
(* Part 3: witnesses *)

(* ---- T1/T2: the side condition holds on ordinary inputs ... *)
Definition vars_a_ab : list (str * str) := [(lit "a", lit "x"); (lit "ab", lit "7"); (lit "id", lit "2024-01-31")].
Example C10_substitute_nonvacuous :
  subst_safe vars_a_ab (lit "/t/@ab/@a-@abc@id?q=@zz&u=me@") = true
  /\ sod_replace (lit "/t/@ab/@a-@abc@id?q=@zz&u=me@") (sort_desc name_len vars_a_ab) = lit "/t/7/x-7c2024-01-31?q=@zz&u=me@".
Proof. split; vm_compute; reflexivity. Qed.

(* ... and is needed FOR THE PINNED ALGORITHM; each witness also evaluates the repaired function on the same input.
   (i) A value containing "@name" was substituted again (finding kf_value_resubstituted, fixed by df98c41;
   corpus/C10/witness_value_with_at_name.json): *)
Lemma C10_clobber_witness : exists (vars : list (str * str)) (s : str),
  all_at_free (names_of vars) = true /\ all_at_free (map snd vars) = false
  /\ sod_replace s (sort_desc name_len vars) <> simul_longest vars s
  /\ sod_replace s (sort_desc name_len vars) = lit "/t/7"
  /\ sod_replace_onepass s (sort_desc name_len vars) = lit "/t/@cd".
Proof.
  exists [(lit "abc", lit "@cd"); (lit "cd", lit "7")], (lit "/t/@abc"). repeat split; try (vm_compute; reflexivity).
  vm_compute. discriminate.
Qed.

(* (ii) No '@' in any name or value, yet the result differs: the text between two '@' ("id") is a strict prefix of
   the name "idd", and the value "d" of the next reference completes it (finding kf_adjacent_refs_glue, fixed by
   df98c41; corpus/C10/witness_adjacent_refs.json).  This is why the side condition has its second clause: "no value
   contains '@' followed by a name" is not sufficient. *)
Lemma C10_juxtaposition_witness : exists (vars : list (str * str)) (s : str),
  all_at_free (names_of vars) = true /\ all_at_free (map snd vars) = true /\ subst_safe vars s = false
  /\ sod_replace s (sort_desc name_len vars) <> simul_longest vars s
  /\ sod_replace s (sort_desc name_len vars) = lit "/t/7"
  /\ sod_replace_onepass s (sort_desc name_len vars) = lit "/t/xd".
Proof.
  exists [(lit "abcd", lit "d"); (lit "idd", lit "7"); (lit "id", lit "x")], (lit "/t/@id@abcd"). repeat split; try (vm_compute; reflexivity).
  vm_compute. discriminate.
Qed.

(* (iii) Without the sort a shorter name clobbered a longer one in the pinned algorithm; the one-pass function gives
   the longest-name result whatever the order *)
Lemma C10_unsorted_clobbers : exists (vars : list (str * str)) (s : str),
  subst_safe vars s = true /\ sod_replace s vars <> sod_replace s (sort_desc name_len vars)
  /\ sod_replace s (sort_desc name_len vars) = lit "7" /\ sod_replace_onepass s vars = lit "7".
Proof. exists [(lit "a", lit "x"); (lit "ab", lit "7")], (lit "@ab"). repeat split; try (vm_compute; reflexivity). vm_compute. discriminate. Qed.

(* (iv) Names of equal length, a value containing the other name: the two processing orders of the pinned algorithm
   differ — on the pinned crate this was a dependence on HashMap iteration order (excluded by subst_safe); the
   repaired function gives the same result for both orders (T0c) *)
Lemma C10_equal_length_order_witness : exists (vars vars' : list (str * str)) (s : str),
  Permutation vars vars' /\ NoDup (map fst vars) /\ subst_safe vars s = false
  /\ sod_replace s (sort_desc name_len vars) <> sod_replace s (sort_desc name_len vars')
  /\ sod_replace_onepass s (sort_desc name_len vars) = lit "@cd" /\ sod_replace_onepass s (sort_desc name_len vars') = lit "@cd".
Proof.
  exists [(lit "ab", lit "@cd"); (lit "cd", lit "x")], [(lit "cd", lit "x"); (lit "ab", lit "@cd")], (lit "@ab").
  split; [apply perm_swap|]. split; [repeat constructor; cbn; intuition discriminate|]. split; [vm_compute; reflexivity|].
  split; [vm_compute; discriminate|]. split; vm_compute; reflexivity.
Qed.

(* the tie rules of the repaired loop: among equal names the FIRST of the list; a variable with an EMPTY name follows
   every '@' and is used only where no non-empty name follows (corpus/C10/witness_empty_variable_name.json) *)
Example C10_onepass_tie_rules :
  sod_replace_onepass (lit "@a/@b/@") [(lit "a", lit "1"); (lit "", lit "E"); (lit "a", lit "2")] = lit "1/Eb/E"
  /\ simul_longest [(lit "a", lit "1"); (lit "", lit "E"); (lit "a", lit "2")] (lit "@a/@b/@") = lit "1/Eb/E".
Proof. split; vm_compute; reflexivity. Qed.

(* ---- T4: template_ok holds on an ordinary template with names sharing a prefix, meta characters and a literal '@'-free
   text; the theorem's conclusion evaluated *)
Definition ps_example : list piece :=
  [PLit 47; PLit 112; PLit 45; PRef (lit "a"); PLit 47; PRef (lit "ab"); PLit 46; PLit 104; PRef (lit "a")].
Example C10_template_shape_nonvacuous :
  NoDup (map fst mk_a_ab) /\ template_ok mk_a_ab ps_example = true /\ template_text ps_example = lit "/p-@a/@ab.h@a"
  /\ render (map (expected_tok mk_a_ab) ps_example) = lit "/p\-(?:[a-z]+)/(?:[0-9]+)\.h(?:[a-z]+)".
Proof.
  split; [repeat constructor; cbn; intuition discriminate|]. repeat split; vm_compute; reflexivity.
Qed.

(* outside template_ok: a marker expression that contains "@a" is rewritten when the shorter marker is processed
   (corpus/C10/witness_marker_body_with_at_name.json) *)
Lemma C10_template_shape_refuted_body_with_at : exists (markers : list (str * str)) (ps : list piece),
  NoDup (map fst markers) /\ marker_bodies_at_free markers = false
  /\ option_map ms_regex (marker_string_new (template_text ps) markers false) <> Some (render (map (expected_tok markers) ps)).
Proof.
  exists [(lit "ab", lit "x@a"); (lit "a", lit "[0-9]+")], [PLit 47; PRef (lit "ab")].
  split; [repeat constructor; cbn; intuition discriminate|]. split; [vm_compute; reflexivity|]. vm_compute. discriminate.
Qed.

(* ---- T6-T9: the hypotheses are satisfiable.  Oracle: every group accepts the non-empty digit strings; separator '/' *)
Definition G_digits : bool -> list chr -> list chr -> nat -> nat -> bool :=
  fun _ _ whole pos k => negb (Nat.eqb k 0) && Nat.eqb (length (firstn k (skipn pos whole))) k && forallb (fun c => in_range 48 57 c) (firstn k (skipn pos whole)).
Definition sep_slash : N -> bool := fun c => N.eqb c 47.

Example C10_hypotheses_satisfiable :
  G_sep_free_hyp G_digits sep_slash /\ fold_sep_hyp (fun c => c) sep_slash false.
Proof.
  split.
  - intros ic body whole pos k H. unfold G_digits in H. apply andb_prop in H. destruct H as [_ H].
    unfold sep_free. rewrite forallb_forall in *. intros x Hx. specialize (H x Hx). unfold sep_slash, Pct.in_range, Rx.in_range in *. lia.
  - intros c x Hc He. unfold ceq in He. apply N.eqb_eq in He. subst x. exact Hc.
Qed.

(* "/a/@id/@n" with id := 12, n := 7 : accepted, matches; with id := 1x : rejected, does not match *)
Definition ps_digits : list piece := [PLit 47; PLit 97; PLit 47; PRef (lit "id"); PLit 47; PRef (lit "n")].
Definition val_good : str -> str := fun n => if str_eqb n (lit "id") then lit "12" else lit "7".
Definition val_bad : str -> str := fun n => if str_eqb n (lit "id") then lit "1x" else lit "7".
Example C10_match_examples :
  sep_delimited sep_slash ps_digits = true
  /\ instantiate val_good ps_digits = lit "/a/12/7"
  /\ groups_accept G_digits [] val_good false (instantiate val_good ps_digits) ps_digits 0 = true
  /\ full_match G_digits (fun c => c) false (map (expected_tok []) ps_digits) (instantiate val_good ps_digits) = true
  /\ groups_accept G_digits [] val_bad false (instantiate val_bad ps_digits) ps_digits 0 = false
  /\ full_match G_digits (fun c => c) false (map (expected_tok []) ps_digits) (instantiate val_bad ps_digits) = false.
Proof. repeat split; vm_compute; reflexivity. Qed.

(* why T7 needs separators: "@a-@b" where the groups accept '-' too has two parses; the engine (RIO.Rx here, the
   regex crate in the run) picks one of them, not necessarily the instantiation a := x-y, b := z *)
Example C10_ambiguous_template :
  match marker_string_new (lit "/@a-@b") [(lit "a", lit "[a-z-]+?"); (lit "b", lit "[a-z-]+")] false with
  | Some m => ms_capture_run rxE m (lit "/x-y-z")
  | None => []
  end = [(lit "a", lit "x"); (lit "b", lit "y-z")].
Proof. vm_compute; reflexivity. Qed.

(* the engine hypothesis of T9 is what the runs validate: RIO.Rx on the rendered token list of the example *)
Example C10_engine_on_example :
  rx_is_match false (leaf_regex (render (map (expected_tok mk_a_ab) ps_example))) (lit "/p-xy/42.hz") = true
  /\ rx_is_match false (leaf_regex (render (map (expected_tok mk_a_ab) ps_example))) (lit "/p-xy/4x.hz") = false.
Proof. split; vm_compute; reflexivity. Qed.

(* ---- known findings at the level of the route model: the header condition is an unanchored search, the capture
   is anchored (kf_header_regex_unanchored): the model reproduces it.  Header names are compared case-insensitively
   by Route::capture as by the matcher (exact comparison on the pinned code: repaired in /repo 71eaac6) *)
Definition rule_hdr : rule10 :=
  {| r_path := lit "/h"; r_query := None; r_host := None;
     r_headers := [mk_sh (lit "X-Id") (lit "match_regex") (Some (lit "id=@id"))];
     r_markers := [mk_marker (lit "id") (lit "[0-9]+") []]; r_variables := [];
     r_target := Some (lit "/t/@id"); r_header_filters := []; r_body_filters := [] |}.
Definition req_hdr (name value : str) : request10 :=
  {| q_pq := from_config (mk_cfg10 false false false) (lit "/h"); q_host := None; q_scheme := None; q_method := None;
     q_headers := [(name, value)]; q_remote_addr := None; q_created_at := None |}.
Lemma C10_known_header_unanchored :
  let rt := into_route (mk_cfg10 false false false) rule_hdr in
  route_matches rxE (mk_cfg10 false false false) rt (req_hdr (lit "X-Id") (lit "id=12x")) = true
  /\ route_capture rxE rt (req_hdr (lit "X-Id") (lit "id=12x")) = []
  /\ route_capture rxE rt (req_hdr (lit "X-Id") (lit "id=12")) = [(lit "id", lit "12")].
Proof. cbn zeta. repeat split; vm_compute; reflexivity. Qed.
Lemma C10_header_name_case :
  let rt := into_route (mk_cfg10 false false false) rule_hdr in
  route_matches rxE (mk_cfg10 false false false) rt (req_hdr (lit "x-id") (lit "id=12")) = true
  /\ route_capture rxE rt (req_hdr (lit "x-id") (lit "id=12")) = [(lit "id", lit "12")].
Proof. cbn zeta. split; vm_compute; reflexivity. Qed.


(* ---- TIE TO THE SOURCE (translator): the transformer kinds and option keys that Transformer::to_transform dispatches on
   (src/api/transformer.rs, lifted on every run) are the ones Marker.to_transform dispatches on; the marker regexes are
   percent-encoded with the set the source uses now. *)
Theorem C10_tables_transformer_kinds :
  ext_transformer_kinds = model_transformer_kinds /\ ext_transformer_option_keys = model_transformer_option_keys.
Proof. split; vm_compute; reflexivity. Qed.

Theorem C10_tables_unknown_kind_is_dropped : forall t k, t_kind t = Some k -> mem_str k ext_transformer_kinds = false -> to_transform t = None.
Proof.
  intros t k Hk Hm. unfold to_transform. rewrite Hk.
  assert (E : ext_transformer_kinds = model_transformer_kinds) by (vm_compute; reflexivity). rewrite E in Hm. clear E.
  unfold model_transformer_kinds, mem_str in Hm. cbn [existsb] in Hm.
  repeat match goal with |- context [str_eqb k (lit ?s)] => let v := eval vm_compute in (lit s) in change (lit s) with v end.
  repeat (apply Bool.orb_false_elim in Hm; let E := fresh "E" in destruct Hm as [E Hm]; try rewrite E).
  reflexivity.
Qed.

Theorem C10_tables_marker_regex_encoding : forall input : str,
  utf8_percent_encode input (set_of_adds ext_rule_SIMPLE_ENCODE_SET_adds) = utf8_percent_encode input rule_SIMPLE_ENCODE_SET.
Proof. intros. apply sets_agree_encode. vm_compute. reflexivity. Qed.

Print Assumptions C10_substitute_onepass.
Print Assumptions C10_onepass_picks_longest.
Print Assumptions C10_onepass_order_irrelevant.
Print Assumptions C10_onepass_no_rescan.
Print Assumptions C10_onepass_agrees_with_pinned.
Print Assumptions C10_substitute.
Print Assumptions C10_longest_first.
Print Assumptions C10_longer_name_wins.
Print Assumptions C10_order_irrelevant.
Print Assumptions C10_template_shape.
Print Assumptions C10_transform_chain.
Print Assumptions C10_slice.
Print Assumptions C10_match_if.
Print Assumptions C10_match_only_if_partial.
Print Assumptions C10_capture_partial.
Print Assumptions C10_route_matches_iff_partial.
Print Assumptions C10_clobber_witness.
Print Assumptions C10_juxtaposition_witness.
Print Assumptions C10_tables_transformer_kinds.
Print Assumptions C10_tables_unknown_kind_is_dropped.
Print Assumptions C10_tables_marker_regex_encoding.
