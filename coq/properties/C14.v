(* C14 — filtering a compressed body equals filtering its decompressed form.
   Statements only; proofs in RIO.CodecChain / RIO.CodecProofs.
   Model: RIO.Codec (FilterBodyAction::new with a Content-Encoding header) over the chain discipline of RIO.BodyText;
   the table of supported encodings is EXTRACTED from src/filter/encoding/mod.rs on every run (RIOGen.ExtEncodings).
   The codecs (flate2, brotli) are parameters; what is assumed of them is stated as the two hypotheses of
   C14_supported (named in the trusted base, exercised on the crate by the correspondence run):
     - the streaming decoder's outputs concatenate to the decoded body however the stream is cut;
     - an independent decoder recovers, from the encoder's whole output, exactly what the encoder was given.
   The split law of the filters' stages is the hypothesis of C03_chain (proved for text stages). *)
Require Import RIO.Base RIO.TokMonad RIO.HtmlTok RIO.BodyText RIO.HtmlFilter RIO.ChainProofs RIO.BodyProofs RIO.CodecChain RIO.Codec RIO.CodecProofs RIO.C03Run RIO.C14Run.
Require Import RIOGen.ExtEncodings.
Close Scope N_scope.

(* the table in the source is the set of encodings the property names *)
Theorem C14_table : forall e, mem_str e supported_encodings = mem_str e property_encodings.
Proof.
  intros e. unfold supported_encodings, property_encodings. cbn [mem_str existsb].
  repeat match goal with |- context [str_eqb ?a ?b] => destruct (str_eqb a b) end; reflexivity.
Qed.

(* any other encoding: no filter is created, the body passes through untouched, whatever the chunking *)
Theorem C14_unsupported : forall lower sel D E dec_new enc_new dtf dte etf ete enc ctok fs chunks,
  mem_str enc property_encodings = false ->
  body_run14 lower sel D E dec_new enc_new dtf dte etf ete supported_encodings (Some enc) ctok fs chunks = concat chunks.
Proof.
  intros. apply unsupported_passthrough. rewrite C14_table. assumption.
Qed.

(* no Content-Encoding header: the plain chain (C03, C04, C15) *)
Theorem C14_no_encoding : forall lower sel D E dec_new enc_new dtf dte etf ete ctok fs chunks,
  body_run14 lower sel D E dec_new enc_new dtf dte etf ete supported_encodings None ctok fs chunks = body_run lower sel ctok fs chunks.
Proof. intros. apply no_encoding_plain. Qed.

(* gzip, deflate, br: for EVERY chunking of the compressed stream the output is a complete valid stream
   (decode_all succeeds) whose decompression is the output of the same filters on the decompressed body *)
Theorem C14_supported : forall lower sel D E dec_new enc_new dtf dte etf ete enc ctok fs stream plain decode_all cs,
  mem_str enc property_encodings = true ->
  stages_of ctok fs <> [] ->
  (forall cs, concat cs = stream ->
     concat (fst (dec_outs D dtf dte (dec_new enc) cs)) ++ snd (dec_outs D dtf dte (dec_new enc) cs) = plain) ->
  (forall os eo, decode_all (enc_out E etf ete (enc_new enc) os eo) = Some (concat os ++ eo)) ->
  (forall st, In st (stages_of ctok fs) -> split_law stage (stage_tf lower sel) st) ->
  concat cs = stream ->
  decode_all (body_run14 lower sel D E dec_new enc_new dtf dte etf ete supported_encodings (Some enc) ctok fs cs)
  = Some (body_run lower sel ctok fs (if is_nil plain then [] else [plain])).
Proof.
  intros. eapply supported_codec; try eassumption. rewrite C14_table. assumption.
Qed.

(* Non-vacuity: the hypotheses of C14_supported are satisfiable: the identity codec with two text filters *)
Lemma id_dec_outs cs : let dtf := (fun (d : unit) (c : str) => (d, c)) in let dte := (fun d : unit => (d, @nil N)) in
  concat (fst (dec_outs unit dtf dte tt cs)) ++ snd (dec_outs unit dtf dte tt cs) = concat cs.
Proof.
  cbn zeta. induction cs as [|c cs IH]; cbn [dec_outs]; [reflexivity|].
  destruct (dec_outs unit _ _ tt cs) as [ps e]. cbn [fst snd concat] in *. rewrite <- app_assoc, IH. reflexivity.
Qed.
Lemma id_enc_out os eo : let etf := (fun (d : unit) (c : str) => (d, c)) in let ete := (fun d : unit => (d, @nil N)) in
  enc_out unit etf ete tt os eo = concat os ++ eo.
Proof.
  cbn zeta. induction os as [|o os IH]; cbn [enc_out concat].
  - destruct eo; cbn; [reflexivity|rewrite app_nil_r; reflexivity].
  - destruct (is_nil o) eqn:Eo; [destruct o; [exact IH|discriminate]|]. rewrite IH, app_assoc. reflexivity.
Qed.

Example C14_example : forall lower sel cs,
  let fs := [BFText TPrepend [60;33;62]%N; BFText TAppend [60;47;62]%N] in
  let idf := (fun (d : unit) (c : str) => (d, c)) in let ide := (fun d : unit => (d, @nil N)) in
  body_run14 lower sel unit unit (fun _ => tt) (fun _ => tt) idf ide idf ide supported_encodings (Some [103;122;105;112]%N) true fs cs
  = body_run lower sel true fs (if is_nil (concat cs) then [] else [concat cs]).
Proof.
  intros lower sel cs fs idf ide.
  assert (H : Some (body_run14 lower sel unit unit (fun _ => tt) (fun _ => tt) idf ide idf ide supported_encodings (Some [103;122;105;112]%N) true fs cs)
              = Some (body_run lower sel true fs (if is_nil (concat cs) then [] else [concat cs]))).
  { apply (C14_supported lower sel unit unit (fun _ => tt) (fun _ => tt) idf ide idf ide [103;122;105;112]%N true fs (concat cs) (concat cs) (@Some str) cs).
    - reflexivity.
    - discriminate.
    - intros cs' Hc. rewrite <- Hc. apply id_dec_outs.
    - intros os eo. f_equal. apply id_enc_out.
    - intros st [<-|[<-|[]]]; apply text_stage_split.
    - reflexivity. }
  injection H as H. exact H.
Qed.

Print Assumptions C14_table.
Print Assumptions C14_unsupported.
Print Assumptions C14_no_encoding.
Print Assumptions C14_supported.
Print Assumptions C14_example.
