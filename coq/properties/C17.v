(* C17 — the explain trace agrees with what matching actually does.  Statements only; proofs in RIO.RouterProofs. *)
Require Import RIO.Base RIO.Route RIO.Layer RIO.Tree RIO.TreeInst RIO.Matchers RIO.MatcherSpec RIO.RouterSpec RIO.RouterHist RIO.RouterProofs.
Require RIO.ActionModel RIO.ActionTrace.
Close Scope N_scope.

(* on the router reached by any admissible history, the routes appearing in the trace are exactly the
   routes returned by matching *)
Theorem C17_routes : forall lower eng valid ic_host ic_path always,
  engine_dotstar eng -> engine_prefix_law eng ->
  forall ops q r, hist_ok lower [] ops ->
  let R := rrun lower eng valid ic_host ic_path always ops (router_new lower eng valid ic_host ic_path always) in
  (In r (traces_routes (router_trace lower eng valid ic_host ic_path always q R))
   <-> In r (router_match lower eng valid ic_host ic_path always q R)).
Proof.
  intros lower eng valid ih ip al Hd Hp ops q r Hok R.
  apply (rtrace_spec lower eng valid ih ip al Hd Hp R (live ops) q r).
  apply (rrun_refines lower eng valid ih ip al Hd Hp ops _ []); [apply rrepr_new|exact Hok].
Qed.

(* the traced final route has the (maximal) priority of the route selected by get_route *)
Theorem C17_final_priority : forall lower eng valid ic_host ic_path always,
  engine_dotstar eng -> engine_prefix_law eng ->
  forall ops q, hist_ok lower [] ops ->
  let R := rrun lower eng valid ic_host ic_path always ops (router_new lower eng valid ic_host ic_path always) in
  option_map rt_priority (best_route (traces_routes (router_trace lower eng valid ic_host ic_path always q R)))
  = option_map rt_priority (router_get_route lower eng valid ic_host ic_path always q R).
Proof.
  intros lower eng valid ih ip al Hd Hp ops q Hok R.
  apply (trace_final_priority lower eng valid ih ip al Hd Hp R (live ops) q).
  apply (rrun_refines lower eng valid ih ip al Hd Hp ops _ []); [apply rrepr_new|exact Hok].
Qed.

(* the action trace (TraceAction::from_trace_rules: stable sort by priority, one step per rule, reset / merge / stop):
   when the ranks of the traced rules are pairwise distinct its LAST step is the action the live pipeline computes
   (Action::from_routes_rule) from the same rules, for every sampling override and every sequence of random draws *)
Theorem C17_action_trace_last : forall (rules : list ActionModel.rule) skipped override rvs,
  NoDup (map ActionModel.r_rank rules) ->
  last (ActionTrace.trace_actions rules skipped override rvs) ActionModel.action_default
  = ActionModel.from_routes_rule rules skipped override rvs.
Proof. exact ActionTrace.trace_last_is_live. Qed.

Print Assumptions C17_routes.
Print Assumptions C17_final_priority.
Print Assumptions C17_action_trace_last.
