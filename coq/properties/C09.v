(* C09 — URL normalisation is canonical.
   Part 1: sanity examples of the executable model (RIO.Pct, RIO.Url), evaluated by the kernel.
   Part 2: the pinned theorems; every statement is about the model for ALL configurations (the six flags and any
           marketing list) and ALL byte strings satisfying the stated boolean side conditions; proofs are in
           RIO.PctProofs / RIO.UrlProofs.  The correspondence run (tools/check.py C09) ties the model to the crate.
   Part 3: witnesses: non-vacuity of the side conditions, and, for each exclusion, a URL of the excluded class on
           which the conclusion fails (the known findings kf_* of corpus/C09). *)
Require Import RIO.Base RIO.Pct RIO.Url RIO.C09Run RIO.PctProofs RIO.UrlProofs.
Require Import RIO.TablesTie RIOGen.ExtTables.
Open Scope N_scope.

(* default utm set *)
Definition utm : list str :=
  [ [117;116;109;95;115;111;117;114;99;101]; [117;116;109;95;109;101;100;105;117;109];
    [117;116;109;95;99;97;109;112;97;105;103;110]; [117;116;109;95;116;101;114;109];
    [117;116;109;95;99;111;110;116;101;110;116] ].
Definition cfg_plain : config := mk_cfg false false false false false false utm.
Definition cfg_fold : config := mk_cfg false false true true true false utm.

(* "/a b"  and  "z=1&a=é" *)
Definition p_ab : str := [47;97;32;98].
Definition q_za : str := [122;61;49;38;97;61;195;169].
Definition u_ab : str := p_ab ++ [63] ++ q_za.

(* "/a%20b?a=%C3%A9&z=1" *)
Example rule_string_plain :
  rule_path_and_query cfg_plain p_ab (Some q_za)
  = [47;97;37;50;48;98;63;97;61;37;67;51;37;65;57;38;122;61;49].
Proof. vm_compute; reflexivity. Qed.

Example request_string_plain : request_matching_string cfg_plain u_ab = rule_path_and_query cfg_plain p_ab (Some q_za).
Proof. vm_compute; reflexivity. Qed.

(* "/a%20b?a=%c3%a9&z=1": lowercasing reaches the hex digits of the escapes *)
Example rule_string_fold :
  rule_path_and_query cfg_fold p_ab (Some q_za)
  = [47;97;37;50;48;98;63;97;61;37;99;51;37;97;57;38;122;61;49].
Proof. vm_compute; reflexivity. Qed.

Example request_string_fold : request_matching_string cfg_fold u_ab = rule_path_and_query cfg_fold p_ab (Some q_za).
Proof. vm_compute; reflexivity. Qed.

(* "/A%20B?utm_source=x&Z=1&A=%c3%a9" under cfg_fold: same matching string, "utm_source=x" is skipped and forwarded *)
Definition u_ab_mk : str :=
  [47;65;37;50;48;66;63;117;116;109;95;115;111;117;114;99;101;61;120;38;90;61;49;38;65;61;37;99;51;37;97;57].
Example request_string_fold_marketing :
  request_matching_string cfg_fold u_ab_mk = rule_path_and_query cfg_fold p_ab (Some q_za)
  /\ pq_skipped_query_params (from_config cfg_fold u_ab_mk) = Some [117;116;109;95;115;111;117;114;99;101;61;120].
Proof. split; vm_compute; reflexivity. Qed.

(* the same URL is a different URL when marketing parameters are not ignored *)
Example request_string_plain_marketing :
  str_eqb (request_matching_string cfg_plain u_ab_mk) (rule_path_and_query cfg_plain p_ab (Some q_za)) = false.
Proof. vm_compute; reflexivity. Qed.

(* '+' : the request-side set encodes it at once, the rule side in its second pass; "k=a%2Bb" decodes to a+b *)
Example plus_two_passes :
  rule_path_and_query cfg_plain [47] (Some [107;61;97;37;50;66;98]) = [47;63;107;61;97;37;50;66;98]
  /\ request_matching_string cfg_plain [47;63;107;61;97;37;50;66;98] = [47;63;107;61;97;37;50;66;98].
Proof. split; vm_compute; reflexivity. Qed.

(* http's path parser: a back-tick is rejected in the path and accepted in the query; '#' cuts; empty path is "/" *)
Example http_parse_examples :
  http_path_and_query_parse [47;96] = None
  /\ http_path_and_query_parse [47;97;63;96] = Some ([47;97], Some [96])
  /\ http_path_and_query_parse [63;120;35;121] = Some ([47], Some [120])
  /\ http_path_and_query_parse [97] = None
  /\ http_path_and_query_parse [] = None.
Proof. repeat split; vm_compute; reflexivity. Qed.

(* Location: '?' or '&' *)
Example target_examples :
  target_with_skipped [47;116] (Some [97;61;49]) = [47;116;63;97;61;49]
  /\ target_with_skipped [47;116;63;120] (Some [97;61;49]) = [47;116;63;120;38;97;61;49]
  /\ target_with_skipped [47;116] None = [47;116].
Proof. repeat split; vm_compute; reflexivity. Qed.

(* ================================================================================================== *)
(* Part 2: theorems *)

(* T1. Rebuilding a request is idempotent (unconditionally), and rebuilding the request made by
   Request::from_config changes neither the request nor its matching string. *)
Theorem C09_rebuild_idempotent : forall (cfg : config) (r : request),
  rebuild_with_config cfg (rebuild_with_config cfg r) = rebuild_with_config cfg r.
Proof. exact rebuild_idempotent. Qed.

Theorem C09_rebuild_keeps_request : forall (cfg : config) (u : str) (host : option str),
  rebuild_with_config cfg (request_from_config cfg u host) = request_from_config cfg u host
  /\ request_path_and_query (rebuild_with_config cfg (request_from_config cfg u host)) = request_matching_string cfg u.
Proof. intros cfg u host. split; [apply rebuild_from_config|apply rebuild_keeps_matching_string]. Qed.

(* T2. The six encode sets, defined separately as in the three source files: the three URL-type sets are equal,
   the two QUERY sets with '+' are equal and are the URL set plus '+', SIMPLE is a subset. *)
Theorem C09_encode_sets_agree : forall b : N,
  rule_URL_ENCODE_SET b = query_URL_ENCODE_SET b
  /\ request_QUERY_ENCODE_SET b = query_URL_ENCODE_SET b
  /\ rule_QUERY_ENCODE_SET b = query_QUERY_ENCODE_SET b
  /\ query_QUERY_ENCODE_SET b = (query_URL_ENCODE_SET b || N.eqb b c_plus)
  /\ (rule_SIMPLE_ENCODE_SET b = true -> query_URL_ENCODE_SET b = true).
Proof. exact encode_sets_agree. Qed.

(* Encoding with a set and then with a larger set that contains neither '%' nor a hexadecimal digit is encoding
   once with the larger set (bytes are < 256). *)
Theorem C09_encode_absorb : forall (s s' : ascii_set) (x : str),
  (forall b, should_percent_encode s b = true -> should_percent_encode s' b = true) ->
  keeps_escapes s' -> bytes_ok x = true ->
  percent_encode s' (percent_encode s x) = percent_encode s' x.
Proof. exact percent_encode_absorb. Qed.

(* ... in particular the two passes of the rule side (request.rs's set, then rule.rs's QUERY set) are the single
   pass of the request side (query.rs's QUERY set) *)
Theorem C09_encode_absorb_sets : forall x : str, bytes_ok x = true ->
  percent_encode rule_QUERY_ENCODE_SET (percent_encode request_QUERY_ENCODE_SET x) = percent_encode query_QUERY_ENCODE_SET x.
Proof. exact encode_absorb_sets. Qed.

(* T3. A rule whose source is the literal path and query of a URL matches a request for that URL.
   url_ok cfg u = shape_ok u (starts with '/', bytes < 256, no back-tick in the path, sanitised length <= 65534)
                 && no bare "=" entry in front of other entries of the collected map
                 && no key of the ignored marketing set in the collected map (known finding kf_rule_with_marketing_key). *)
Theorem C09_literal_matches : forall (cfg : config) (u : str) (host : option str),
  url_ok cfg u = true ->
  static_rule_matches (rule_path_and_query cfg (url_path u) (url_query u))
                      (rebuild_with_config cfg (request_from_config cfg u host)) = true.
Proof. exact literal_matches. Qed.

(* T4. Order of the parameters: if the parsed parameters of u' are those of u permuted so that the occurrences of each
   decoded key keep their order (same_by_key), the normalised request is the same (known finding
   kf_perm_repeated_key: without the stability condition it is not). *)
Theorem C09_param_order : forall (cfg : config) (u u' : str),
  shape_ok u = true -> shape_ok u' = true ->
  url_path u' = url_path u -> same_by_key (url_params u) (url_params u') = true ->
  request_matching_string cfg u' = request_matching_string cfg u
  /\ pq_path_and_query (from_config cfg u') = pq_path_and_query (from_config cfg u)
  /\ pq_skipped_query_params (from_config cfg u') = pq_skipped_query_params (from_config cfg u).
Proof. exact param_order. Qed.

(* T5. Marketing parameters: the matching string only depends on the parameters that are not ignored
   (kept cfg l = l without the parameters whose decoded key is in the marketing set when ignoring is configured),
   up to a key-stable permutation; hence the literal rule of u matches u plus any marketing parameters. *)
Theorem C09_marketing_ignored : forall (cfg : config) (u u' : str),
  shape_ok u = true -> shape_ok u' = true ->
  url_path u' = url_path u -> same_by_key (kept cfg (url_params u)) (kept cfg (url_params u')) = true ->
  request_matching_string cfg u' = request_matching_string cfg u.
Proof. exact marketing_ignored. Qed.

Theorem C09_rule_matches_equivalent : forall (cfg : config) (u u' : str) (host : option str),
  url_ok cfg u = true -> shape_ok u' = true ->
  url_path u' = url_path u -> same_by_key (kept cfg (url_params u)) (kept cfg (url_params u')) = true ->
  static_rule_matches (rule_path_and_query cfg (url_path u) (url_query u))
                      (rebuild_with_config cfg (request_from_config cfg u' host)) = true.
Proof. exact rule_matches_equivalent. Qed.

(* skipped_query_params = nf_skipped cfg u (the ignored entries of the collected map, ascending keys, written
   key or key=value with query.rs's QUERY set, joined by '&') iff passing and ignoring are configured and it is
   not empty; the target receives it after '?' or, when it already has a '?', after '&'. *)
Theorem C09_skipped_iff_pass : forall (cfg : config) (u : str), shape_ok u = true ->
  pq_skipped_query_params (from_config cfg u)
  = if pass_marketing_query_params_to_target cfg && ignore_marketing_query_params cfg && negb (is_nil (nf_skipped cfg u))
    then Some (nf_skipped cfg u) else None.
Proof. exact skipped_iff_pass. Qed.

Theorem C09_target_with_skipped : forall (target : str) (skipped : option str),
  target_with_skipped target skipped
  = match skipped with
    | None => target
    | Some sk => target ++ (if memN c_qmark target then c_amp else c_qmark) :: sk
    end.
Proof. exact target_with_skipped_spec. Qed.

(* T6. ASCII case: with ignore_path_and_query_case, swapping the case of every ASCII letter of the URL text (hex
   digits of escapes included) does not change the matching string, provided case_ok: the decoded keys of the URL
   and of its swapped form compare pairwise the same way (both sides sort BEFORE lower-casing: known finding
   kf_case_sort_order) and are in the ignored marketing set together or not at all (kf_marketing_key_case). *)
Theorem C09_case : forall (cfg : config) (u : str),
  ignore_path_and_query_case cfg = true -> shape_ok u = true -> case_ok cfg u = true ->
  request_matching_string cfg (swap_url u) = request_matching_string cfg u.
Proof. exact case_insensitive. Qed.

Theorem C09_case_rule : forall (cfg : config) (u : str) (host : option str),
  ignore_path_and_query_case cfg = true -> url_ok cfg u = true -> case_ok cfg u = true ->
  static_rule_matches (rule_path_and_query cfg (url_path u) (url_query u))
                      (rebuild_with_config cfg (request_from_config cfg (swap_url u) host)) = true.
Proof. exact rule_matches_case_swapped. Qed.

(* T7. A URL whose sanitised path or collected decoded parameters differ (differs: up to ASCII case under the case
   flag, ignored marketing parameters removed) is NOT matched, when neither map has encoded delimiters
   (clean_map: decoded keys without % & =, decoded values without % &, no bare "=" entry). *)
Theorem C09_differs_no_match : forall (cfg : config) (u u' : str) (host : option str),
  url_ok cfg u = true -> shape_ok u' = true ->
  clean_map (kept cfg (url_map u)) = true -> clean_map (kept cfg (url_map u')) = true ->
  differs cfg u u' = true ->
  static_rule_matches (rule_path_and_query cfg (url_path u) (url_query u))
                      (rebuild_with_config cfg (request_from_config cfg u' host)) = false.
Proof. exact differs_no_match. Qed.

(* ================================================================================================== *)
(* Part 3: witnesses *)

Definition cfg_case : config := mk_cfg false false true false false false utm.      (* ignore case only *)
Definition cfg_mk : config := mk_cfg false false false true true false utm.         (* ignore + pass marketing *)

(* "/a b?z=1&a=é&=v" is in the domain of every theorem, under cfg_fold (all three flags) *)
Definition u_dom : str := u_ab ++ [38;61;118].
Example url_ok_nonvacuous :
  url_ok cfg_fold u_dom = true /\ case_ok cfg_fold u_dom = true /\ clean_map (kept cfg_fold (url_map u_dom)) = true
  /\ url_map u_dom = [([], [118]); ([97], [195;169]); ([122], [49])].
Proof. repeat split; vm_compute; reflexivity. Qed.

(* "/a b?utm_source=x&a=é&=v&z=1": marketing parameter added and parameters permuted *)
Definition u_dom_mk : str := p_ab ++ [63;117;116;109;95;115;111;117;114;99;101;61;120;38;97;61;195;169;38;61;118;38;122;61;49].
Example marketing_nonvacuous :
  shape_ok u_dom_mk = true /\ url_path u_dom_mk = url_path u_dom
  /\ same_by_key (kept cfg_fold (url_params u_dom)) (kept cfg_fold (url_params u_dom_mk)) = true
  /\ pq_skipped_query_params (from_config cfg_fold u_dom_mk) = Some [117;116;109;95;115;111;117;114;99;101;61;120].
Proof. repeat split; vm_compute; reflexivity. Qed.

(* "/a b?z=1&a=é7&=v" differs from u_dom *)
Definition u_dom_diff : str := u_ab ++ [55;38;61;118].
Example differs_nonvacuous :
  shape_ok u_dom_diff = true /\ clean_map (kept cfg_fold (url_map u_dom_diff)) = true /\ differs cfg_fold u_dom u_dom_diff = true.
Proof. repeat split; vm_compute; reflexivity. Qed.

(* kf_rule_with_marketing_key: "/a?utm_source=x&b=1" fails only the marketing clause of url_ok under cfg_mk, and its
   literal rule does not match it *)
Definition u_rule_mk : str := [47;97;63;117;116;109;95;115;111;117;114;99;101;61;120;38;98;61;49].
Lemma C09_literal_refuted_marketing_key : exists (cfg : config) (u : str),
  shape_ok u = true /\ no_leading_bare (url_map u) = true /\ url_ok cfg u = false
  /\ static_rule_matches (rule_path_and_query cfg (url_path u) (url_query u))
                         (rebuild_with_config cfg (request_from_config cfg u None)) = false.
Proof. exists cfg_mk, u_rule_mk. repeat split; vm_compute; reflexivity. Qed.

(* the bare "=" : "/a?=&b=1" *)
Lemma C09_literal_refuted_bare_eq : exists (cfg : config) (u : str),
  shape_ok u = true /\ no_leading_bare (url_map u) = false
  /\ static_rule_matches (rule_path_and_query cfg (url_path u) (url_query u))
                         (rebuild_with_config cfg (request_from_config cfg u None)) = false.
Proof. exists cfg_plain, [47;97;63;61;38;98;61;49]. repeat split; vm_compute; reflexivity. Qed.

(* the back-tick in the path: "/a`b?b=1&a=2" *)
Lemma C09_literal_refuted_backtick : exists (cfg : config) (u : str),
  shape_ok u = false
  /\ static_rule_matches (rule_path_and_query cfg (url_path u) (url_query u))
                         (rebuild_with_config cfg (request_from_config cfg u None)) = false.
Proof. exists cfg_plain, [47;97;96;98;63;98;61;49;38;97;61;50]. repeat split; vm_compute; reflexivity. Qed.

(* kf_perm_repeated_key: "/p?a=1&a=2" and "/p?a=2&a=1" have the same path and permuted parameters, not key-stably *)
Definition u_rep : str := [47;112;63;97;61;49;38;97;61;50].
Definition u_rep' : str := [47;112;63;97;61;50;38;97;61;49].
Lemma C09_param_order_refuted_repeated_key : exists (cfg : config) (u u' : str),
  url_ok cfg u = true /\ shape_ok u' = true /\ url_path u' = url_path u
  /\ Permutation (url_params u) (url_params u') /\ same_by_key (url_params u) (url_params u') = false
  /\ static_rule_matches (rule_path_and_query cfg (url_path u) (url_query u))
                         (rebuild_with_config cfg (request_from_config cfg u' None)) = false.
Proof.
  exists cfg_plain, u_rep, u_rep'. repeat split; try (vm_compute; reflexivity).
  vm_compute. apply perm_swap.
Qed.

(* kf_case_sort_order: "/p?B=1&a=2" under ignore_path_and_query_case: the swapped URL "/p?b=1&A=2" is not matched *)
Definition u_sort : str := [47;112;63;66;61;49;38;97;61;50].
Lemma C09_case_refuted_sort_order : exists (cfg : config) (u : str),
  ignore_path_and_query_case cfg = true /\ url_ok cfg u = true /\ case_ok cfg u = false
  /\ swap_url u = [47;80;63;98;61;49;38;65;61;50]
  /\ static_rule_matches (rule_path_and_query cfg (url_path u) (url_query u))
                         (rebuild_with_config cfg (request_from_config cfg (swap_url u) None)) = false.
Proof. exists cfg_case, u_sort. repeat split; vm_compute; reflexivity. Qed.

(* kf_marketing_key_case: under cfg_fold "/p?utm_source=x" is matched by the rule of "/p", its swapped form
   "/P?UTM_SOURCE=X" is not *)
Definition u_mkc : str := [47;112;63;117;116;109;95;115;111;117;114;99;101;61;120].
Lemma C09_case_refuted_marketing_key : exists (cfg : config) (u : str),
  ignore_path_and_query_case cfg = true /\ shape_ok u = true /\ case_ok cfg u = false
  /\ static_rule_matches (rule_path_and_query cfg [47;112] None) (rebuild_with_config cfg (request_from_config cfg u None)) = true
  /\ static_rule_matches (rule_path_and_query cfg [47;112] None) (rebuild_with_config cfg (request_from_config cfg (swap_url u) None)) = false.
Proof. exists cfg_fold, u_mkc. repeat split; vm_compute; reflexivity. Qed.

(* encoded delimiters: "/p?a=1%26b" and "/p?a=1&b" differ as collected maps and are matched: clean_map is needed *)
Lemma C09_differs_refuted_encoded_amp : exists (cfg : config) (u u' : str),
  url_ok cfg u = true /\ shape_ok u' = true /\ differs cfg u u' = true /\ clean_map (kept cfg (url_map u)) = false
  /\ static_rule_matches (rule_path_and_query cfg (url_path u) (url_query u))
                         (rebuild_with_config cfg (request_from_config cfg u' None)) = true.
Proof. exists cfg_plain, [47;112;63;97;61;49;37;50;54;98], [47;112;63;97;61;49;38;98]. repeat split; vm_compute; reflexivity. Qed.

(* "%" : "/p?a=%2520" and "/p?a=%20" *)
Lemma C09_differs_refuted_encoded_percent : exists (cfg : config) (u u' : str),
  url_ok cfg u = true /\ shape_ok u' = true /\ differs cfg u u' = true /\ clean_map (kept cfg (url_map u)) = false
  /\ static_rule_matches (rule_path_and_query cfg (url_path u) (url_query u))
                         (rebuild_with_config cfg (request_from_config cfg u' None)) = true.
Proof. exists cfg_plain, [47;112;63;97;61;37;50;53;50;48], [47;112;63;97;61;37;50;48]. repeat split; vm_compute; reflexivity. Qed.


(* ---- TIE TO THE SOURCE (translator): the six AsciiSet constants, the call sites of utf8_percent_encode and the default
   marketing set are lifted from src/api/rule.rs, src/http/query.rs, src/http/request.rs and src/router_config.rs on every
   run (RIOGen.ExtTables); the sets of the model encode every byte string exactly as the sets the source defines now,
   each call site uses the set the model uses there, and the default marketing set is the one the generators use. *)
Theorem C09_tables_encode_sets : forall input : str,
  utf8_percent_encode input (set_of_adds ext_rule_SIMPLE_ENCODE_SET_adds) = utf8_percent_encode input rule_SIMPLE_ENCODE_SET
  /\ utf8_percent_encode input (set_of_adds ext_rule_URL_ENCODE_SET_adds) = utf8_percent_encode input rule_URL_ENCODE_SET
  /\ utf8_percent_encode input (set_of_adds ext_rule_QUERY_ENCODE_SET_adds) = utf8_percent_encode input rule_QUERY_ENCODE_SET
  /\ utf8_percent_encode input (set_of_adds ext_query_URL_ENCODE_SET_adds) = utf8_percent_encode input query_URL_ENCODE_SET
  /\ utf8_percent_encode input (set_of_adds ext_query_QUERY_ENCODE_SET_adds) = utf8_percent_encode input query_QUERY_ENCODE_SET
  /\ utf8_percent_encode input (set_of_adds ext_request_QUERY_ENCODE_SET_adds) = utf8_percent_encode input request_QUERY_ENCODE_SET.
Proof.
  intros input. repeat split; apply sets_agree_encode; vm_compute; reflexivity.
Qed.

Theorem C09_tables_encode_uses : ext_encode_uses = model_encode_uses.
Proof. vm_compute. reflexivity. Qed.

Theorem C09_tables_default_marketing : forall x, mem_str x ext_default_marketing = mem_str x utm.
Proof. apply same_names_mem. vm_compute. reflexivity. Qed.

Print Assumptions C09_rebuild_idempotent.
Print Assumptions C09_rebuild_keeps_request.
Print Assumptions C09_encode_sets_agree.
Print Assumptions C09_encode_absorb.
Print Assumptions C09_encode_absorb_sets.
Print Assumptions C09_literal_matches.
Print Assumptions C09_param_order.
Print Assumptions C09_marketing_ignored.
Print Assumptions C09_rule_matches_equivalent.
Print Assumptions C09_skipped_iff_pass.
Print Assumptions C09_target_with_skipped.
Print Assumptions C09_case.
Print Assumptions C09_case_rule.
Print Assumptions C09_differs_no_match.
Print Assumptions C09_literal_refuted_marketing_key.
Print Assumptions C09_param_order_refuted_repeated_key.
Print Assumptions C09_case_refuted_sort_order.
Print Assumptions C09_case_refuted_marketing_key.
Print Assumptions C09_differs_refuted_encoded_amp.
Print Assumptions C09_tables_encode_sets.
Print Assumptions C09_tables_encode_uses.
Print Assumptions C09_tables_default_marketing.
